(* C10Whole.v - properties C10 and the second half of C12 of google/cctz:
   TOTALITY of every query on every ACCEPTED zone file, and exact saturation.

   "Well defined / no undefined behaviour" = the model function (ZoneImpl.v, checked result monad of
   Base.v) returns OK _.  Nothing below assumes zone_ok / gaps_wide unless it says so: what totality
   needs is established by acceptance itself (afacts, Part 1: C01Whole.bfacts + the civil-order check
   of Load()).  gaps_wide (C02's side condition on the data) matters for the VALUE, not for definedness.

   THE CONDITION.  The literal statement is FALSE of the faithful model (findings F9/F9b): on a
   rule-extended zone both 400-year shifts are computed relative to the END of the generated table,
       BreakTime :  shift = (unix_time - last.unix_time) / kSecsPer400Years + 1;  shift * kSecsPer400Years
       MakeTime  :  cs.year() - last_year_ - 1;  shift = that / 400 + 1;  shift * -400
   and overflow near max() when the table ends early.  shift_safe (Part 3) says exactly that they fit:
       shift_safe z = break_shift_safe z && make_shift_safe z
       break_shift_safe z = not extended || ((max64 - T_last) / P400 + 1) * P400 <= max64
                          = not extended || 7161147007 < T_last      (2196-12-04T15:30:07Z = max64 mod 400y)
       make_shift_safe z  = not extended || (0 <= last_year_ && min64 <= ((max64 - last_year_ - 1) / 400 + 1) * -400)
                          = not extended || 207 <= last_year_        (= max64 mod 400)
   (break_shift_threshold, make_shift_threshold, shift_safe_thresholds).  Every zone whose last file
   transition is after 1795 has both (the generated table then reaches 2196); no argument that the second
   clause follows from the first on accepted files is machine-checked here, so both are kept.

   MAIN THEOREMS
     c10_total_every_accepted_file   load_bytes bs = OK (Some z) -> shift_safe z = true ->
                                     break_time / make_time / convert_cs / next_transition / prev_transition
                                     return OK for every hint, every int64 instant (min64, max64 included)
                                     and every valid civil second with an int64 year (civil_min64/max64 included)
     c10_shift_safe_exact            for an accepted zone, shift_safe z = true  <->  lookup and conversion total
     c10_break_shift_necessary, c10_make_shift_necessary
                                     clause false -> break_time z h max64 / make_time z h civil_max64 = Err Overflow
     f9_break_overflows, f9_make_overflows, f9b_break_overflows (vm_compute on concrete accepted files),
     c10_total_every_accepted_file_unconditional_refuted, c10_make_total_unconditional_refuted,
     c12_every_query_defined_refuted the unconditional statements are refuted
     c10_total_at_the_ends           the ten queries at the ends of the two ranges, with the exact values
                                     convert(civil_second::max()) = max(), convert(civil_second::min()) = min()
   EXACT SATURATION (Part 8), no gaps_wide:
     c10_make_exact_table / c10_convert_saturates_table
                                     in the table region (everywhere if not extended) MakeTime = zmake clamped,
                                     convert = clamp (zconvert ..): beyond max64 -> exactly max64, below min64 -> min64
     c10_make_exact_future           beyond last_year_: make_future_lemma re-proved from acceptance alone
                                     (its two hypotheses on the last table entry kept, visible)
     c10_extreme_civil_seconds       every civil second with year >= huge_year (<= tiny_year) converts to exactly
                                     max() (min()) in every accepted shift_safe zone
     c10_last_civil_second_exact     not extended: the civil second shown at max() is civil_max of the final type and
                                     converts back to exactly max() as an exact (unsaturated) value; the next one saturates
     c10_last_civil_second_extended(_bool)
                                     rule-extended: the same through the extended_ branch, under gaps_wide and the
                                     alignment hypotheses stated there (each a decidable condition on the zone)
   FIXED ZONES (Part 9): c10_total_fixed - fixed_time_zone(off), |off| <= 86400 (= included): all five queries
     total with exact values (offset off everywhere, convert = clamp (L - off), no transitions).
   LOAD BY NAME (Part 13): c10_total_load_name - the same totality for Load(name) (fixed-offset name or file).
   Non-vacuity: c10_nonvacuous_* (Part 11/12).

   Part 2 is a mechanical re-proof of lemmas of ZoneRefine.v / FutureProofs.v / NextPrevRefine.v with
   the certificate zfacts (which contains the gap clause through WF) replaced by afacts: the original
   proofs used WF only for the two sort orders.  Everything is proved; nothing is admitted. *)
From CCTZ Require Import Base SrcConstants Cal CivilImpl FixedImpl PosixImpl PosixSpec ZoneLoad ZoneImpl ZoneZ ZoneHist
  ZoneRefineDefs ZoneSpec.
From CCTZ Require Import CalProofs WeekdayProofs CivilNorm CivilDiff ZoneSelect ZoneZProofs PosixProofs RuleProofs LoadSafe ZoneRefine
  LoadCert FutureDefs FutureProofs C11Defs NextPrevRefine FinishProofs FixedProofs C01Whole.
Require Import Lia ZifyBool.
Local Open Scope Z_scope.

Local Ltac Zify.zify_post_hook ::= idtac.
Local Notation cos := civil_of_seconds.
Local Strategy 100 [civil_of_seconds civil_of_days days_from_civil].

Ltac azi := unfold int64, min64, max64, SB in *; lia.
Ltac astp :=
  first [ rewrite diff_l by (auto; azi)
        | rewrite diff_r by (auto; azi)
        | unfold add64; rewrite chk64_in by azi
        | unfold sub64; rewrite chk64_in by azi ];
  cbn [bind].

(* ================================================================== *)
(* Part 1.  What acceptance establishes, WITHOUT the gaps_wide side condition:
   bfacts (C01Whole) + the civil seconds of the table strictly increase
   (the loader's own check, time_zone_info.cc:801-807).                  *)

Record afacts (z : zone) : Prop := mkAF {
  af_ne : z_trans z <> [];
  af_types : forall ty, In ty (z_types z) -> type_ok z ty = true;
  af_dflt : idx_ok z (z_default z) = true;
  af_trs : forall tr, In tr (z_trans z) ->
     idx_ok z (tr_type tr) = true /\ - 2 ^ 59 <= tr_time tr <= 2 ^ 60;
  af_civ : civils_ok z (doff z) (z_trans z) = true;
  af_st : sortedK zt_time (absl z);
  af_sa : sortedK at_ (absl z);
  af_ti : times_increasing (absl z) = true;
  af_last : exists l, last_opt (z_trans z) = Some l /\ 0 <= tr_time l;
  af_first : exists f r, z_trans z = f :: r /\ tr_time f < 0
}.

(* same shape as ZoneZProofs.WF, the gap clause replaced by True *)
Lemma af_wf z : afacts z -> sortedK zt_time (absl z) /\ sortedK at_ (absl z) /\ True /\ absl z <> [].
Proof.
  intros F. repeat split; try apply F.
  intros E. apply (af_ne z F). unfold absl in E. destruct (z_trans z); [reflexivity|discriminate].
Qed.

Lemma afacts_bfacts z : afacts z -> bfacts z.
Proof. intros F. split; apply F. Qed.

Lemma civil_sorted_nth : forall l i a b, civil_sorted_l l = true ->
  nth_error l i = Some a -> nth_error l (S i) = Some b -> lt64 (tr_cs a) (tr_cs b) = true.
Proof.
  induction l as [|x r IH]; intros i a b H Ha Hb; [destruct i; discriminate|].
  destruct r as [|y r']; [destruct i; cbn in Hb; try discriminate; destruct i; discriminate|].
  change (civil_sorted_l (x :: y :: r')) with (lt64 (tr_cs x) (tr_cs y) && civil_sorted_l (y :: r')) in H.
  apply andb_true_iff in H. destruct H as [H1 H2].
  destruct i as [|i].
  - cbn in Ha, Hb. inversion Ha; inversion Hb; subst. exact H1.
  - apply (IH i a b H2); assumption.
Qed.

Lemma bfacts_afacts z : bfacts z -> civil_sorted_l (z_trans z) = true -> afacts z.
Proof.
  intros B CS.
  destruct (bf_first z B) as (f & r & Hfr & Hf0).
  split; try apply B.
  - rewrite Hfr. discriminate.
  - exact (bf_st z B).
  - apply sortedK_adj. intros i a b Ha Hb.
    rewrite absl_nth in Ha, Hb.
    destruct (nth_error (z_trans z) i) as [ta|] eqn:Ea; [|discriminate].
    destruct (nth_error (z_trans z) (S i)) as [tb|] eqn:Eb; [|discriminate].
    cbn [option_map] in Ha, Hb. inversion Ha; inversion Hb; subst a b.
    pose proof (civil_sorted_nth _ _ _ _ CS Ea Eb) as L.
    destruct (b_tr_facts z i ta B Ea) as (_ & _ & _ & Ca & _).
    destruct (b_tr_facts z (S i) tb B Eb) as (_ & _ & _ & Cb & _).
    rewrite Ca, Cb, lt_cc in L. unfold at_. cbn [absf zt_time zt_off]. lia.
Qed.

Lemma accepted_afacts bs z : load_bytes bs = OK (Some z) -> afacts z.
Proof.
  intros H. apply bfacts_afacts.
  - exact (accepted_bfacts bs z H).
  - pose proof (accept_sorted_lemma bs z H) as S. unfold table_sorted in S.
    apply andb_true_iff in S. tauto.
Qed.

(* ================================================================== *)
(* Part 2.  The refinement lemmas of ZoneRefine.v / FutureProofs.v / NextPrevRefine.v
   re-proved from afacts (their proofs never used the gap clause of WF: it only
   served to derive that the civil seconds increase, which afacts carries).     *)

(* from ZoneRefine.v: type_facts, with afacts for zfacts *)
Lemma a_type_facts z i : afacts z -> idx_ok z i = true ->
  exists ty, nth_res (z_types z) i = OK ty /\ tt_off ty = off_of z i /\
    -93599 <= off_of z i <= 93599 /\
    tt_cmax ty = cos (max64 + off_of z i) /\ tt_cmin ty = cos (min64 + off_of z i) /\
    0 <= tt_abbr ty <= Z.of_nat (length (z_abbrs z)).
Proof.
  intros F Hi. unfold idx_ok in Hi. rewrite andb_true_iff, Z.leb_le, Z.ltb_lt in Hi.
  unfold nth_res, off_of.
  destruct (Z.ltb_spec i 0); [lia|].
  destruct (nth_error (z_types z) (Z.to_nat i)) as [ty|] eqn:E.
  2:{ apply nth_error_None in E. lia. }
  exists ty. split; [reflexivity|]. split; [reflexivity|].
  pose proof (af_types z F ty (nth_error_In _ _ E)) as T.
  unfold type_ok in T. rewrite !andb_true_iff, !Z.leb_le, !fields_eqb_eq in T.
  destruct T as [[[[[T1 T2] T3] T4] T5] T6]. repeat split; auto.
Qed.

(* from ZoneRefine.v: off_bound, with afacts for zfacts *)
Lemma a_off_bound z i : afacts z -> idx_ok z i = true -> -93599 <= off_of z i <= 93599.
Proof. intros F Hi. destruct (a_type_facts z i F Hi) as (ty & _ & _ & H & _). exact H. Qed.

(* from ZoneRefine.v: doff_bound, with afacts for zfacts *)
Lemma a_doff_bound z : afacts z -> -93599 <= doff z <= 93599.
Proof. intros F. apply a_off_bound; auto. apply af_dflt; auto. Qed.

(* from ZoneRefine.v: ob_bound, with afacts for zfacts *)
Lemma a_ob_bound z i : afacts z -> -93599 <= ob (doff z) (absl z) i <= 93599.
Proof.
  intros F. destruct i as [|j]; cbn [ob]; [apply a_doff_bound; auto|].
  rewrite absl_nth. destruct (nth_error (z_trans z) j) as [tr|] eqn:E; cbn [option_map].
  - cbn [absf zt_off]. apply a_off_bound; auto.
    apply (af_trs z F tr). eapply nth_error_In; eauto.
  - apply a_doff_bound; auto.
Qed.

(* from ZoneRefine.v: tr_facts, with afacts for zfacts *)
Lemma a_tr_facts z i tr : afacts z -> nth_error (z_trans z) i = Some tr ->
  idx_ok z (tr_type tr) = true /\ - 2 ^ 59 <= tr_time tr <= 2 ^ 60 /\
  -93599 <= off_of z (tr_type tr) <= 93599 /\
  tr_cs tr = cos (tr_time tr + off_of z (tr_type tr)) /\
  tr_pcs tr = cos (tr_time tr - 1 + ob (doff z) (absl z) i) /\
  nth_error (absl z) i = Some (absf z tr).
Proof.
  intros F Hn.
  destruct (af_trs z F tr (nth_error_In _ _ Hn)) as [A B].
  destruct (civils_nth z _ _ _ _ (af_civ z F) Hn) as [C D].
  repeat split; auto; try lia.
  - apply a_off_bound; auto.
  - apply a_off_bound; auto.
  - rewrite absl_nth, Hn. reflexivity.
Qed.

(* from ZoneRefine.v: zf_times_sorted, with afacts for zfacts *)
Lemma af_times_sorted z : afacts z -> times_sorted_l (z_trans z) = true.
Proof. intros F. apply (times_sorted_of_ti z). exact (af_ti z F). Qed.

(* from ZoneRefine.v: zf_civil_sorted, with afacts for zfacts *)
Lemma af_civil_sorted z : afacts z -> civil_sorted_l (z_trans z) = true.
Proof.
  intros F. apply civil_sorted_of_adj. intros i a b Ha Hb.
  destruct (a_tr_facts z i a F Ha) as (_ & _ & _ & Ca & _ & Na).
  destruct (a_tr_facts z (S i) b F Hb) as (_ & _ & _ & Cb & _ & Nb).
  rewrite Ca, Cb, lt_cc. apply Z.ltb_lt.
  destruct (af_wf z F) as (_ & SA & _).
  exact (SA i (S i) _ _ ltac:(lia) Na Nb).
Qed.

(* from ZoneRefine.v: lt_cs_tr, with afacts for zfacts *)
Lemma a_lt_cs_tr z cs tr i : afacts z -> valid_fields cs = true ->
  nth_error (z_trans z) i = Some tr ->
  lt64 cs (tr_cs tr) = (sec_of cs <? at_ (absf z tr)).
Proof.
  intros F V Hn. destruct (a_tr_facts z i tr F Hn) as (_ & _ & _ & Ccs & _ & _).
  rewrite Ccs, lt_l by exact V. reflexivity.
Qed.

(* from ZoneRefine.v: uc_facts, with afacts for zfacts *)
Lemma a_uc_facts z L : afacts z ->
  (forall i tr, nth_error (z_trans z) i = Some tr -> (i < upper_civil (absl z) L)%nat ->
     tr_time tr + off_of z (tr_type tr) <= L) /\
  (forall i tr, nth_error (z_trans z) i = Some tr -> (upper_civil (absl z) L <= i)%nat ->
     L < tr_time tr + off_of z (tr_type tr)).
Proof.
  intros F. destruct (af_wf z F) as (_ & SA & _).
  split; intros i tr Hn Hi.
  - destruct (a_tr_facts z i tr F Hn) as (_ & _ & _ & _ & _ & Na).
    pose proof (upper_civil_char (absl z) L SA i _ Na) as C.
    unfold at_ in C. cbn [absf zt_time zt_off] in C. apply C. exact Hi.
  - destruct (a_tr_facts z i tr F Hn) as (_ & _ & _ & _ & _ & Na).
    pose proof (upper_civil_char (absl z) L SA i _ Na) as C.
    unfold at_ in C. cbn [absf zt_time zt_off] in C. lia.
Qed.

(* from ZoneRefine.v: make_find_ok, with afacts for zfacts *)
Lemma a_make_find_ok z cs : afacts z -> valid_fields cs = true ->
  exists h', make_find z 0 cs = OK (upper_civil (absl z) (sec_of cs), h').
Proof.
  intros F V.
  destruct (af_first z F) as (f & r & Hfr & Hf0).
  destruct (af_last z F) as (l & Hl & Hl0).
  destruct (last_opt_nth _ _ Hl) as [Hln Hlen].
  assert (Hn0 : nth_error (z_trans z) 0 = Some f) by (rewrite Hfr; reflexivity).
  destruct (a_uc_facts z (sec_of cs) F) as [U1 U2].
  pose proof (upper_civil_le (absl z) (sec_of cs)) as Hle. rewrite absl_length in Hle.
  unfold make_find. rewrite (nth_tr_some z 0 f Hn0), Hl. cbn [bind].
  rewrite (a_lt_cs_tr z cs f 0 F V Hn0).
  unfold le64. rewrite (a_lt_cs_tr z cs l _ F V Hln).
  unfold at_. cbn [absf zt_time zt_off].
  destruct (Z.ltb_spec (sec_of cs) (tr_time f + off_of z (tr_type f))) as [H1|H1].
  - assert (upper_civil (absl z) (sec_of cs) = O) as ->.
    { destruct (upper_civil (absl z) (sec_of cs)) eqn:E; [reflexivity|].
      pose proof (U1 0%nat f Hn0 ltac:(lia)). lia. }
    exists 0. reflexivity.
  - destruct (Z.ltb_spec (sec_of cs) (tr_time l + off_of z (tr_type l))) as [H2|H2]; cbn [negb].
    + change (0 <? 0) with false. cbn [andb bind].
      rewrite bound_search_ok by (apply civil_sorted_part; apply af_civil_sorted; exact F).
      cbn [bind].
      rewrite (pp_ext _ (fun tr => sec_of cs <? at_ (absf z tr))).
      * rewrite pp_upper_civil. fold (absl z). eexists. reflexivity.
      * intros x Hx. apply In_nth_error in Hx. destruct Hx as [i Hi].
        apply (a_lt_cs_tr z cs x i F V Hi).
    + assert (upper_civil (absl z) (sec_of cs) = length (z_trans z)) as ->.
      { destruct (Nat.eq_dec (upper_civil (absl z) (sec_of cs)) (length (z_trans z))) as [E|E]; [exact E|].
        pose proof (U2 _ l Hln ltac:(lia)). lia. }
      exists 0. reflexivity.
Qed.

(* from ZoneRefine.v: make_noext_ok, with afacts for zfacts *)
Lemma a_make_noext_ok z cs : afacts z -> valid_fields cs = true -> int64 (fy cs) ->
  exists h', make_time_noext z 0 cs = OK (cl_of (zmake (abs_zone z) (sec_of cs)), h').
Proof.
  intros F V I.
  destruct (a_make_find_ok z cs F V) as [h' Hf]. exists h'.
  destruct (af_first z F) as (f & r & Hfr & Hf0).
  destruct (af_last z F) as (l & Hl & Hl0).
  destruct (last_opt_nth _ _ Hl) as [Hln Hlen].
  assert (Hn0 : nth_error (z_trans z) 0 = Some f) by (rewrite Hfr; reflexivity).
  destruct (a_uc_facts z (sec_of cs) F) as [U1 U2].
  pose proof (upper_civil_le (absl z) (sec_of cs)) as Hle. rewrite absl_length in Hle.
  pose proof (a_doff_bound z F) as HD.
  assert (2 ^ 59 = 576460752303423488) as E59 by reflexivity.
  assert (2 ^ 60 = 1152921504606846976) as E60 by reflexivity.
  unfold make_time_noext. rewrite Hf. cbn [bind].
  rewrite abs_zone_eq, zmake_zmakeL. unfold zmakeL. rewrite absl_length.
  destruct (upper_civil (absl z) (sec_of cs)) as [|j] eqn:Ek.
  - (* before the first transition, or in its gap *)
    cbn [Nat.eqb]. rewrite (nth_tr_some z 0 f Hn0). cbn [bind].
    assert (absl z = absf z f :: map (absf z) r) as -> by (unfold absl; rewrite Hfr; reflexivity).
    destruct (a_tr_facts z 0 f F Hn0) as (Hi & HT & HO & Ccs & Cpcs & _). cbn [ob] in Cpcs.
    pose proof (U2 0%nat f Hn0 ltac:(lia)) as Hlt.
    unfold le64. rewrite Cpcs, lt_r by exact V.
    rewrite Z.leb_antisym. unfold pre_ at 1. cbn [absf zt_time].
    destruct (Z.ltb_spec (tr_time f - 1 + doff z) (sec_of cs)) as [Hs|Hs]; cbn [negb].
    + rewrite (make_skipped_ok z cs f (doff z)) by (auto; lia). reflexivity.
    + destruct (a_type_facts z _ F (af_dflt z F)) as (ty & Hty & Eoff & _ & _ & Ecmin & _).
      fold (doff z) in Eoff, Ecmin.
      rewrite Hty. cbn [bind]. rewrite Ecmin, lt_l by exact V. rewrite Eoff.
      unfold cl_of, zunique. cbn [zk zpre ztrans zpost kind_of'].
      destruct (Z.ltb_spec (sec_of cs) (min64 + doff z)) as [Hm|Hm].
      * replace (clamp' (sec_of cs - doff z)) with min64 by (unfold clamp', min64, max64 in *; lia).
        reflexivity.
      * rewrite epoch_cos. rewrite (plus_cos 0 (doff z)) by azi. cbn [bind].
        change (0 + doff z) with (doff z).
        rewrite E59, E60 in HT.
        astp. rewrite !clamp_id by azi. reflexivity.
  - change (Nat.eqb (S j) 0) with false. cbv iota.
    destruct (nth_lt_some (z_trans z) j ltac:(lia)) as [trp Hnp].
    destruct (a_tr_facts z j trp F Hnp) as (Hip & HTp & HOp & Ccsp & Cpcsp & Nap).
    pose proof (a_ob_bound z j F) as HBp.
    pose proof (U1 j trp Hnp ltac:(lia)) as Hge.
    rewrite Nap.
    destruct (Nat.eqb_spec (S j) (length (z_trans z))) as [En|En].
    + (* at or after the last transition *)
      replace (length (z_trans z) - 1)%nat with j by lia.
      rewrite (nth_tr_some z j trp Hnp). cbn [bind].
      rewrite Cpcsp, lt_r by exact V.
      unfold pre_ at 1. cbn [absf zt_time].
      destruct (Z.ltb_spec (tr_time trp - 1 + ob (doff z) (absl z) j) (sec_of cs)) as [Hs|Hs].
      * destruct (a_type_facts z _ F Hip) as (ty & Hty & Eoff & _ & Ecmax & _ & _).
        rewrite Hty. cbn [bind]. rewrite Ecmax, lt_r by exact V.
        unfold cl_of, zunique, at_. cbn [zk zpre ztrans zpost kind_of' absf zt_time zt_off].
        assert (trp = l) by (replace (length (z_trans z) - 1)%nat with j in Hln by lia; congruence).
        subst l.
        destruct (Z.ltb_spec (max64 + off_of z (tr_type trp)) (sec_of cs)) as [Hm|Hm].
        -- replace (clamp' (tr_time trp + (sec_of cs - (tr_time trp + off_of z (tr_type trp)))))
             with max64 by (unfold clamp', min64, max64 in *; lia).
           reflexivity.
        -- rewrite Ccsp. rewrite E59, E60 in HTp.
           astp. astp. rewrite !clamp_id by azi. reflexivity.
      * rewrite (make_repeated_ok z cs trp (ob (doff z) (absl z) j)) by (auto; lia). reflexivity.
    + (* strictly inside the table *)
      destruct (nth_lt_some (z_trans z) (S j) ltac:(lia)) as [tr Hn].
      destruct (a_tr_facts z (S j) tr F Hn) as (Hi & HT & HO & Ccs & Cpcs & Na).
      rewrite (ob_S _ _ j _ Nap) in Cpcs. cbn [absf zt_off] in Cpcs.
      pose proof (U2 (S j) tr Hn ltac:(lia)) as Hlt.
      rewrite Na. rewrite (nth_tr_some z (S j) tr Hn). cbn [bind].
      rewrite Cpcs, lt_r by exact V.
      unfold pre_ at 1. cbn [absf zt_time zt_off].
      destruct (Z.ltb_spec (tr_time tr - 1 + off_of z (tr_type trp)) (sec_of cs)) as [Hs|Hs].
      * rewrite (make_skipped_ok z cs tr (off_of z (tr_type trp))) by (auto; lia). reflexivity.
      * replace (S j - 1)%nat with j by lia.
        rewrite (nth_tr_some z j trp Hnp). cbn [bind].
        unfold le64. rewrite Cpcsp, lt_r by exact V.
        rewrite Z.leb_antisym. unfold pre_ at 1. cbn [absf zt_time].
        destruct (Z.ltb_spec (tr_time trp - 1 + ob (doff z) (absl z) j) (sec_of cs)) as [Hr|Hr]; cbn [negb].
        -- rewrite Ccsp. rewrite E59, E60 in HTp, HT.
           unfold cl_of, zunique, at_. cbn [zk zpre ztrans zpost kind_of' absf zt_time zt_off].
           astp. astp. rewrite !clamp_id by azi. reflexivity.
        -- rewrite (make_repeated_ok z cs trp (ob (doff z) (absl z) j)) by (auto; lia). reflexivity.
Qed.

(* from FutureProofs.v: zmake_bounds, with afacts for zfacts *)
Lemma a_zmake_bounds z L : afacts z ->
  let c := zmake (abs_zone z) L in
  L - 93600 <= zpre c <= L + 93600 /\ L - 93600 <= ztrans c <= L + 93600 /\
  L - 93600 <= zpost c <= L + 93600.
Proof.
  intros F. cbv zeta. rewrite abs_zone_eq, zmake_zmakeL.
  destruct (af_wf z F) as (ST & SA & GP & NE).
  assert (OB : forall m, -93599 <= ob (doff z) (absl z) m <= 93599) by (intros; apply a_ob_bound; exact F).
  assert (OA : forall m a, nth_error (absl z) m = Some a -> -93599 <= zt_off a <= 93599).
  { intros m a Ha. rewrite <- (ob_S (doff z) _ _ _ Ha). apply OB. }
  destruct (zmake_cases (doff z) (absl z) L NE SA) as [m [HU|[HS|HR]]].
  - destruct HU as [E _]. rewrite E. unfold zunique. cbn [zpre ztrans zpost].
    specialize (OB m). lia.
  - destruct HS as (a & Ha & E & HL). rewrite E. unfold zskipped, pre_, at_ in *.
    cbn [zpre ztrans zpost]. specialize (OB m). specialize (OA m a Ha). lia.
  - destruct HR as (a & Ha & E & HL & _). rewrite E. unfold zrepeated, pre_, at_ in *.
    cbn [zpre ztrans zpost]. specialize (OB m). specialize (OA m a Ha). lia.
Qed.

(* from FutureProofs.v: make_future_core, with afacts for zfacts *)
Lemma a_make_future_core z cs l q : afacts z -> z_extended z = true ->
  valid_fields cs = true -> int64 (fy cs) -> z_last_year z < fy cs ->
  last_opt (z_trans z) = Some l ->
  fy (tr_cs l) = z_last_year z -> fy (tr_pcs l) <= z_last_year z -> 12622780800 <= tr_time l ->
  Z.quot (fy cs - z_last_year z - 1) 400 = q ->
  400 * q <= fy cs - z_last_year z - 1 < 400 * q + 400 ->
  exists h',
    make_time z 0 cs =
    OK (mkCL (kind_of' (zk (zmake (abs_zone z) (sec_of (mkF (fy cs - 400 * (q + 1)) (fm cs) (fd cs) (fhh cs) (fmm cs) (fss cs))))))
             (Z.min max64 (zpre (zmake (abs_zone z) (sec_of (mkF (fy cs - 400 * (q + 1)) (fm cs) (fd cs) (fhh cs) (fmm cs) (fss cs)))) + (q + 1) * 12622780800))
             (Z.min max64 (ztrans (zmake (abs_zone z) (sec_of (mkF (fy cs - 400 * (q + 1)) (fm cs) (fd cs) (fhh cs) (fmm cs) (fss cs)))) + (q + 1) * 12622780800))
             (Z.min max64 (zpost (zmake (abs_zone z) (sec_of (mkF (fy cs - 400 * (q + 1)) (fm cs) (fd cs) (fhh cs) (fmm cs) (fss cs)))) + (q + 1) * 12622780800)), h').
Proof.
  intros F Hext V I Hly Hl HY HPY HP Hq Hdiv.
  destruct (af_first z F) as (f & r & Hfr & Hf0).
  assert (Hn0 : nth_error (z_trans z) 0 = Some f) by (rewrite Hfr; reflexivity).
  destruct (last_opt_nth _ _ Hl) as [Hln _].
  destruct (a_tr_facts z _ l F Hln) as (_ & HT & HO & Ccs & _ & _).
  destruct (a_tr_facts z 0 f F Hn0) as (_ & HTf & HOf & Ccsf & _ & _).
  assert (2 ^ 60 = 1152921504606846976) as E60 by reflexivity. rewrite E60 in HT. clear E60 HTf.
  set (LY := z_last_year z) in *.
  set (A := tr_time l + off_of z (tr_type l)) in *.
  assert (HA : 12622780800 - 93599 <= A <= 1152921504606846976 + 93599) by (unfold A; lia).
  assert (E0 : fy (cos 0) = 1970) by (vm_compute; reflexivity).
  assert (HLY : 1970 <= LY).
  { rewrite <- HY, Ccs, <- E0. apply cos_year_mono. lia. }
  assert (HfY : fy (tr_cs f) <= LY).
  { rewrite <- HY, Ccs, Ccsf. apply cos_year_mono. fold A. lia. }
  assert (YA : fy (cos A) = LY) by (rewrite <- Ccs; exact HY).
  unfold make_time. rewrite Hl, (nth_tr_some z 0 f Hn0). cbn [bind].
  assert (C : negb (lt64 cs (tr_cs f)) && le64 (tr_cs l) cs && lt64 (tr_pcs l) cs
              && z_extended z && (z_last_year z <? fy cs) = true).
  { unfold le64, lt64. fold LY.
    rewrite (fields_ltb_year_f cs (tr_cs f)) by lia.
    rewrite (fields_ltb_year_f cs (tr_cs l)) by lia.
    rewrite (fields_ltb_year (tr_pcs l) cs) by lia.
    rewrite Hext. cbn [negb andb]. apply Z.ltb_lt. exact Hly. }
  rewrite C. fold LY.
  rewrite sub64_ok by azi. cbn [bind].
  rewrite sub64_ok by azi. cbn [bind].
  rewrite Hq.
  rewrite add64_ok by azi. cbn [bind].
  rewrite mul64_ok by azi. cbn [bind].
  replace ((q + 1) * -400) with (400 * (- (q + 1))) by lia.
  rewrite year_shift_ok by (auto; azi). cbn [bind fy].
  replace (fy cs + 400 * - (q + 1)) with (fy cs - 400 * (q + 1)) by lia.
  replace (LY <? fy cs - 400 * (q + 1)) with false by lia.
  set (cs' := mkF (fy cs - 400 * (q + 1)) (fm cs) (fd cs) (fhh cs) (fmm cs) (fss cs)).
  assert (V' : valid_fields cs' = true).
  { apply valid_fields_inv in V. destruct V as (Vd & Hh & Hm & Hs).
    apply valid_fields_intro; cbn [cs' fy fm fd fhh fmm fss]; auto.
    replace (fy cs - 400 * (q + 1)) with (fy cs + 400 * (- (q + 1))) by lia.
    rewrite valid_date_period. exact Vd. }
  assert (Y' : LY - 399 <= fy cs' <= LY) by (cbn [cs' fy]; lia).
  assert (I' : int64 (fy cs')) by azi.
  destruct (a_make_noext_ok z cs' F V' I') as (h' & HM).
  exists h'.
  pose proof (a_zmake_bounds z (sec_of cs') F) as B. cbv zeta in B.
  (* the civil second cs' lies within 400 years of the last transition's *)
  assert (HL : A - 12622780800 < sec_of cs' < A + 12622780800).
  { pose proof (cos_sec_of cs' V') as EC.
    pose proof (cos_period A (-1)) as P1. pose proof (cos_period A 1) as P2. cbv zeta in P1, P2.
    split.
    - apply cos_year_lt. rewrite EC.
      replace (A - 12622780800) with (A + 146097 * 86400 * -1) by lia.
      rewrite P1. cbn [fy]. lia.
    - apply cos_year_lt. rewrite EC.
      replace (A + 12622780800) with (A + 146097 * 86400 * 1) by lia.
      rewrite P2. cbn [fy]. lia. }
  set (c := zmake (abs_zone z) (sec_of cs')) in *.
  unfold time_local. rewrite HM. cbn [bind]. cbv beta iota zeta.
  rewrite k400_val, quot_max64_P.
  unfold cl_of. cbn [cl_kind cl_pre cl_trans cl_post].
  rewrite !clamp_id by azi.
  destruct (Z.ltb_spec 730692561 (q + 1)) as [Hs|Hs].
  - f_equal. f_equal. unfold max64 in *. f_equal; lia.
  - rewrite mul64_ok by azi. cbn [bind].
    rewrite sub64_ok by azi. cbn [bind].
    rewrite !sat_ok by (unfold min64; lia). cbn [bind]. reflexivity.
Qed.

(* from FutureProofs.v: make_future_lemma, with afacts for zfacts *)
Lemma a_make_future_lemma : forall z h cs,
  afacts z -> z_extended z = true -> valid_fields cs = true -> int64 (fy cs) ->
  z_last_year z < fy cs ->
  (* the table's last transition is local year last_year (what ExtendTransitions guarantees) *)
  (forall l, last_opt (z_trans z) = Some l -> fy (tr_cs l) = z_last_year z /\ P400 <= tr_time l) ->
  (* ... and the civil second just before it is not in a later year (ADDED: see the remark below) *)
  (forall l, last_opt (z_trans z) = Some l -> fy (tr_pcs l) <= z_last_year z) ->
  let k := (fy cs - z_last_year z - 1) / 400 + 1 in
  let cs' := mkF (fy cs - 400 * k) (fm cs) (fd cs) (fhh cs) (fmm cs) (fss cs) in
  exists h', let c := zmake (abs_zone z) (sec_of cs') in
    make_time z h cs = OK (mkCL (match zk c with ZU => UNIQUE | ZS => SKIPPED | ZR => REPEATED end)
                                (Z.min max64 (zpre c + k * P400)) (Z.min max64 (ztrans c + k * P400))
                                (Z.min max64 (zpost c + k * P400)), h').
Proof.
  intros z h cs Hok Hext V I Hly HL1 HL2. rewrite P400_val in *. intros k.
  pose proof Hok as F.
  destruct (af_last z F) as (l & Hl & _).
  destruct (HL1 l Hl) as [HY HP]. specialize (HL2 l Hl).
  assert (Hk : k = (fy cs - z_last_year z - 1) / 400 + 1) by reflexivity. clearbody k.
  assert (Hq : Z.quot (fy cs - z_last_year z - 1) 400 = (fy cs - z_last_year z - 1) / 400)
    by (apply Z.quot_div_nonneg; lia).
  pose proof (Z.mul_div_le (fy cs - z_last_year z - 1) 400 ltac:(lia)) as D1.
  pose proof (Z.mul_succ_div_gt (fy cs - z_last_year z - 1) 400 ltac:(lia)) as D2.
  set (q := (fy cs - z_last_year z - 1) / 400) in *. clearbody q. subst k.
  destruct (a_make_future_core z cs l q F Hext V I Hly Hl HY HL2 HP Hq ltac:(lia)) as (h0 & HM).
  pose proof (make_time_hint z h cs (af_civil_sorted z F)) as Hh.
  rewrite HM in Hh. cbn [res_fst] in Hh.
  destruct (res_fst_OK _ _ Hh) as [h' Hr].
  intros cs'. exists h'. cbv zeta. exact Hr.
Qed.

(* from ZoneRefine.v: make_refines_lemma, with afacts for zfacts *)
Lemma a_make_refines_lemma : forall z h cs, afacts z -> valid_fields cs = true -> int64 (fy cs) ->
  (z_extended z = false \/ fy cs <= z_last_year z) ->
  exists h', let c := zmake (abs_zone z) (sec_of cs) in
    make_time z h cs = OK (mkCL (kind_of' (zk c)) (clamp' (zpre c)) (clamp' (ztrans c)) (clamp' (zpost c)), h').
Proof.
  intros z h cs Hok V I Hext. pose proof Hok as F.
  destruct (a_make_noext_ok z cs F V I) as (h0 & HM).
  assert (make_time z 0 cs = make_time_noext z 0 cs) as E0.
  { destruct (af_first z F) as (f & r & Hfr & _).
    destruct (af_last z F) as (l & Hl & _).
    assert (Hn0 : nth_error (z_trans z) 0 = Some f) by (rewrite Hfr; reflexivity).
    unfold make_time. rewrite Hl, (nth_tr_some z 0 f Hn0). cbn [bind].
    assert (negb (lt64 cs (tr_cs f)) && le64 (tr_cs l) cs && lt64 (tr_pcs l) cs
            && z_extended z && (z_last_year z <? fy cs) = false) as ->; [|reflexivity].
    destruct Hext as [He|He].
    - rewrite He, andb_false_r. reflexivity.
    - destruct (Z.ltb_spec (z_last_year z) (fy cs)); [lia|]. apply andb_false_r. }
  pose proof (make_time_hint z h cs (af_civil_sorted z F)) as Hh.
  rewrite E0, HM in Hh. cbn [res_fst] in Hh.
  destruct (res_fst_OK _ _ Hh) as [h' Hr].
  exists h'. cbv zeta. exact Hr.
Qed.

(* from NextPrevRefine.v: equiv_ok, with afacts for zfacts *)
Lemma a_equiv_ok z a b : afacts z -> idx_ok z a = true -> idx_ok z b = true ->
  equiv_transitions (z_abbrs z) (z_types z) a b = OK (eqv_types z a b).
Proof.
  intros F Ha Hb. unfold eqv_types, equiv_transitions.
  destruct (a =? b); [reflexivity|].
  destruct (a_type_facts z a F Ha) as (ta & -> & _ & _ & _ & _ & Aa).
  destruct (a_type_facts z b F Hb) as (tb & -> & _ & _ & _ & _ & Ab).
  cbn [bind].
  destruct (negb (tt_off ta =? tt_off tb)); [reflexivity|].
  destruct (negb (Bool.eqb (tt_isdst ta) (tt_isdst tb))); [reflexivity|].
  destruct (tt_abbr ta =? tt_abbr tb); [reflexivity|].
  rewrite (cstr_from_ok _ _ Aa), (cstr_from_ok _ _ Ab). reflexivity.
Qed.

(* from NextPrevRefine.v: next_scan_ok, with afacts for zfacts *)
Lemma a_next_scan_ok z l : afacts z ->
  (forall tr, In tr l -> idx_ok z (tr_type tr) = true) ->
  forall fuel k, (0 < fuel)%nat -> (length l < fuel + k)%nat ->
  exists r, next_scan fuel z l k = OK r /\
    znext_scan (eqv_types z) (map (absf z) l) (z_default z) k fuel = option_map (absf z) r /\
    (forall tr, r = Some tr -> In tr l).
Proof.
  intros F Hl. induction fuel as [|f IH]; intros k H0 Hk; [lia|].
  cbn [next_scan znext_scan]. rewrite nth_error_map.
  destruct (nth_error l k) as [tr|] eqn:Ek; cbn [option_map].
  2:{ exists None. repeat split; auto. intros tr H; discriminate. }
  pose proof (nth_some_lt _ _ _ Ek) as Hlt.
  pose proof (Hl tr (nth_error_In _ _ Ek)) as Itr.
  assert (exists pi, idx_ok z pi = true /\
            match k with
            | O => OK (z_default z)
            | S k' => match nth_error l k' with Some p => OK (tr_type p) | None => Err OOB end
            end = OK pi /\
            match k with
            | O => z_default z
            | S j => match nth_error (map (absf z) l) j with Some p => zt_id p | None => z_default z end
            end = pi) as (pi & Ipi & E1 & E2).
  { destruct k as [|k'].
    - exists (z_default z). repeat split. apply af_dflt; exact F.
    - destruct (nth_lt_some l k' ltac:(lia)) as [p Hp].
      exists (tr_type p). rewrite nth_error_map, Hp. cbn [option_map absf zt_id].
      repeat split. apply Hl. eapply nth_error_In; eauto. }
  rewrite E1, E2. cbn [bind absf zt_id].
  rewrite (a_equiv_ok z pi (tr_type tr) F Ipi Itr). cbn [bind].
  destruct (eqv_types z pi (tr_type tr)).
  - apply IH; lia.
  - exists (Some tr). repeat split; auto.
    intros tr' H; inversion H; subst. eapply nth_error_In; eauto.
Qed.

(* from NextPrevRefine.v: prev_scan_ok, with afacts for zfacts *)
Lemma a_prev_scan_ok z l : afacts z ->
  (forall tr, In tr l -> idx_ok z (tr_type tr) = true) ->
  forall k, (k <= length l)%nat ->
  exists k', prev_scan z l k = OK k' /\ (k' <= k)%nat /\
    zprev_scan (eqv_types z) (map (absf z) l) (z_default z) k =
      match k' with O => None | S j => nth_error (map (absf z) l) j end.
Proof.
  intros F Hl. induction k as [|j IH]; intros Hk.
  - exists O. repeat split; auto.
  - cbn [prev_scan zprev_scan]. rewrite nth_error_map.
    destruct (nth_lt_some l j ltac:(lia)) as [cur Hc]. rewrite Hc. cbn [option_map bind].
    pose proof (Hl cur (nth_error_In _ _ Hc)) as Icur.
    assert (exists pi, idx_ok z pi = true /\
              match j with
              | O => OK (z_default z)
              | S k'' => match nth_error l k'' with Some p => OK (tr_type p) | None => Err OOB end
              end = OK pi /\
              match j with
              | O => z_default z
              | S i => match nth_error (map (absf z) l) i with Some p => zt_id p | None => z_default z end
              end = pi) as (pi & Ipi & E1 & E2).
    { destruct j as [|i].
      - exists (z_default z). repeat split. apply af_dflt; exact F.
      - destruct (nth_lt_some l i ltac:(lia)) as [p Hp].
        exists (tr_type p). rewrite nth_error_map, Hp. cbn [option_map absf zt_id].
        repeat split. apply Hl. eapply nth_error_In; eauto. }
    rewrite E1, E2. cbn [bind absf zt_id].
    rewrite (a_equiv_ok z pi (tr_type cur) F Ipi Icur). cbn [bind].
    destruct (eqv_types z pi (tr_type cur)).
    + destruct (IH ltac:(lia)) as (k' & P1 & P2 & P3).
      exists k'. repeat split; auto.
    + exists (S j). repeat split; auto.
      rewrite nth_error_map, Hc. reflexivity.
Qed.

(* from NextPrevRefine.v: dbb_facts, with afacts for zfacts *)
Lemma a_dbb_facts z : afacts z ->
  (forall tr, In tr (fst (drop_big_bang z)) -> In tr (z_trans z)) /\
  times_sorted_l (fst (drop_big_bang z)) = true /\
  zz_tr (searched z) = map (absf z) (fst (drop_big_bang z)) /\
  zz_did (searched z) = z_default z.
Proof.
  intros F. pose proof (af_times_sorted z F) as Hs.
  split; [|split; [apply drop_bb_sorted; exact Hs|]].
  - unfold drop_big_bang. destruct (z_trans z) as [|t0 r]; [auto|].
    destruct (tr_time t0 <=? big_bang); cbn [fst]; auto. intros tr H; right; exact H.
  - unfold searched, drop_big_bang. destruct (z_trans z) as [|t0 r] eqn:E.
    + rewrite abs_zone_eq. unfold absl. rewrite E. split; reflexivity.
    + destruct (tr_time t0 <=? big_bang); cbn [fst].
      * rewrite abs_zone_eq. unfold absl. rewrite E. split; reflexivity.
      * rewrite abs_zone_eq. unfold absl. rewrite E. split; reflexivity.
Qed.

(* from NextPrevRefine.v: report_fact, with afacts for zfacts *)
Lemma a_report_fact z tr : afacts z -> In tr (z_trans z) ->
  plus64 0 (tr_pcs tr) 1 = OK (cos (prev_local z (absf z tr) + 1)) /\
  tr_cs tr = cos (zt_time (absf z tr) + zt_off (absf z tr)).
Proof.
  intros F Hin. apply In_nth_error in Hin. destruct Hin as [i Hi].
  destruct (a_tr_facts z i tr F Hi) as (_ & HT & HO & Ccs & Cpcs & Na).
  destruct (af_wf z F) as (ST & _).
  destruct (zoff_at_trans (doff z) (absl z) i _ ST Na) as [Z1 _]. cbn [absf zt_time] in Z1.
  pose proof (a_ob_bound z i F) as HB.
  change (2 ^ 59) with 576460752303423488 in HT.
  change (2 ^ 60) with 1152921504606846976 in HT.
  split; [|exact Ccs].
  unfold prev_local. rewrite abs_zone_eq. unfold zoff. cbn [zz_tr zz_doff absf zt_time].
  rewrite Z1, Cpcs. apply plus_cos; unfold int64, min64, max64, SB; lia.
Qed.

(* from NextPrevRefine.v: next_refines_gen, with afacts for zfacts *)
Lemma a_next_refines_gen z t : afacts z ->
  next_transition z t =
    OK (match znext (eqv_types z) (searched z) t with
        | None => None
        | Some tr => Some (cos (prev_local z tr + 1), cos (zt_time tr + zt_off tr))
        end).
Proof.
  intros F.
  destruct (af_first z F) as (f & r & Hfr & _).
  destruct (a_dbb_facts z F) as (Hincl & Hs & Htr & Hdid).
  unfold next_transition, znext. rewrite Htr, Hdid, Hfr. clear Htr Hdid.
  destruct (drop_big_bang z) as [l n]. cbn [fst] in *.
  rewrite bound_search_ok by (apply times_sorted_part_ub; exact Hs). cbn [bind].
  rewrite (pp_upper_idx z), map_length.
  assert (Hidx : forall tr, In tr l -> idx_ok z (tr_type tr) = true).
  { intros tr H. apply (af_trs z F tr). apply Hincl; exact H. }
  destruct (a_next_scan_ok z l F Hidx (S (length l)) (upper_idx (map (absf z) l) t) ltac:(lia) ltac:(lia))
    as (r0 & Hr & Hz & Hin).
  rewrite Hr, Hz. cbn [bind].
  destruct r0 as [tr|]; cbn [option_map]; [|reflexivity].
  destruct (a_report_fact z tr F (Hincl _ (Hin _ eq_refl))) as [P C].
  rewrite P. cbn [bind]. rewrite C. reflexivity.
Qed.

(* from NextPrevRefine.v: prev_refines_gen, with afacts for zfacts *)
Lemma a_prev_refines_gen z t : afacts z ->
  prev_transition z t =
    OK (match zprev (eqv_types z) (searched z) t with
        | None => None
        | Some tr => Some (cos (prev_local z tr + 1), cos (zt_time tr + zt_off tr))
        end).
Proof.
  intros F.
  destruct (af_first z F) as (f & r & Hfr & _).
  destruct (a_dbb_facts z F) as (Hincl & Hs & Htr & Hdid).
  unfold prev_transition, zprev. rewrite Htr, Hdid, Hfr. clear Htr Hdid.
  destruct (drop_big_bang z) as [l n]. cbn [fst] in *.
  rewrite bound_search_ok by (apply times_sorted_part_lb; exact Hs). cbn [bind].
  rewrite (pp_lower_idx z).
  assert (Hidx : forall tr, In tr l -> idx_ok z (tr_type tr) = true).
  { intros tr H. apply (af_trs z F tr). apply Hincl; exact H. }
  pose proof (lower_idx_le (map (absf z) l) t) as Hle. rewrite map_length in Hle.
  destruct (a_prev_scan_ok z l F Hidx (lower_idx (map (absf z) l) t) Hle) as (k' & Hr & Hk & Hz).
  rewrite Hr, Hz. cbn [bind].
  destruct k' as [|j]; [reflexivity|].
  rewrite nth_error_map.
  destruct (nth_lt_some l j ltac:(lia)) as [tr Hn]. rewrite Hn. cbn [option_map bind].
  destruct (a_report_fact z tr F (Hincl _ (nth_error_In _ _ Hn))) as [P C].
  rewrite P. cbn [bind]. rewrite C. reflexivity.
Qed.


(* ================================================================== *)
(* Part 3.  The condition under which the two 400-year shifts cannot overflow *)

Definition last_time (z : zone) : Z :=
  match last_opt (z_trans z) with Some l => tr_time l | None => 0 end.

(* BreakTime (:911-914): shift = (unix_time - last.unix_time) / kSecsPer400Years + 1, then
   shift * kSecsPer400Years; the largest value is reached at unix_time = max() *)
Definition break_shift_safe (z : zone) : bool :=
  negb (z_extended z)
  || (((max64 - last_time z) / kSecsPer400Years + 1) * kSecsPer400Years <=? max64).

(* MakeTime (:995-1003): cs.year() - last_year_ - 1, shift = that / 400 + 1, YearShift(cs, shift * -400);
   the largest values are reached at cs.year() = max() *)
Definition make_shift_safe (z : zone) : bool :=
  negb (z_extended z)
  || ((0 <=? z_last_year z) && (min64 <=? ((max64 - z_last_year z - 1) / 400 + 1) * -400)).

Definition shift_safe (z : zone) : bool := break_shift_safe z && make_shift_safe z.

(* the same two conditions as thresholds: the table of an extended zone must end after
   2196-12-04T15:30:07Z (= max64 mod 400 years) and last_year_ must be at least 207 (= max64 mod 400) *)
Lemma break_shift_threshold T : 0 <= T ->
  (((max64 - T) / kSecsPer400Years + 1) * kSecsPer400Years <=? max64) = (max64 mod kSecsPer400Years <? T).
Proof.
  intros HT. rewrite k400_val. change (max64 mod 12622780800) with 7161147007.
  unfold max64.
  pose proof (Z.mul_div_le (9223372036854775807 - T) 12622780800 ltac:(lia)) as D1.
  pose proof (Z.mul_succ_div_gt (9223372036854775807 - T) 12622780800 ltac:(lia)) as D2.
  set (q := (9223372036854775807 - T) / 12622780800) in *. clearbody q.
  destruct (Z.leb_spec ((q + 1) * 12622780800) 9223372036854775807);
  destruct (Z.ltb_spec 7161147007 T); try reflexivity; exfalso.
  - assert (q + 1 <= 730692561) by lia. lia.
  - assert (730692561 <= q) by lia. lia.
Qed.

Lemma make_shift_threshold Y :
  ((0 <=? Y) && (min64 <=? ((max64 - Y - 1) / 400 + 1) * -400)) = (max64 mod 400 <=? Y).
Proof.
  change (max64 mod 400) with 207. unfold max64, min64.
  pose proof (Z.mul_div_le (9223372036854775807 - Y - 1) 400 ltac:(lia)) as D1.
  pose proof (Z.mul_succ_div_gt (9223372036854775807 - Y - 1) 400 ltac:(lia)) as D2.
  set (q := (9223372036854775807 - Y - 1) / 400) in *. clearbody q.
  destruct (Z.leb_spec 0 Y); cbn [andb].
  - destruct (Z.leb_spec (-9223372036854775808) ((q + 1) * -400));
    destruct (Z.leb_spec 207 Y); try reflexivity; exfalso.
    + assert (q + 1 <= 23058430092136939) by lia. lia.
    + assert (23058430092136939 <= q) by lia. lia.
  - destruct (Z.leb_spec 207 Y); [lia|reflexivity].
Qed.

Lemma shift_safe_thresholds z : 0 <= last_time z ->
  shift_safe z = negb (z_extended z)
                 || ((max64 mod kSecsPer400Years <? last_time z) && (max64 mod 400 <=? z_last_year z)).
Proof.
  intros H. unfold shift_safe, break_shift_safe, make_shift_safe.
  rewrite (break_shift_threshold _ H), make_shift_threshold.
  destruct (z_extended z); reflexivity.
Qed.

(* ================================================================== *)
(* Part 4.  BreakTime: total, with its exact value, on every accepted zone *)

Lemma a_break_ext_core z t l f q : bfacts z -> z_extended z = true ->
  last_opt (z_trans z) = Some l -> nth_error (z_trans z) 0 = Some f -> tr_time f < 0 ->
  0 <= tr_time l -> tr_time l <= 1152921504606846976 -> int64 t -> tr_time l <= t ->
  Z.quot (t - tr_time l) 12622780800 = q ->
  12622780800 * q <= t - tr_time l < 12622780800 * q + 12622780800 ->
  (q + 1) * 12622780800 <= max64 ->
  exists h' dst ab,
    break_time z 0 t = OK (mkAL (cos (t + zoff (abs_zone z) (t - (q + 1) * 12622780800)))
                                (zoff (abs_zone z) (t - (q + 1) * 12622780800)) dst ab, h')
    /\ info_of z (zid (abs_zone z) (t - (q + 1) * 12622780800)) = OK (dst, ab).
Proof.
  intros F Hext Hl Hn0 Hf0 HP HT Ht Hge Hq Hdiv Hfit.
  set (t' := t - (q + 1) * 12622780800) in *.
  assert (Ht' : int64 t') by azi.
  destruct (b_break_noext_ok z t' F Ht') as (h0 & dst & ab & HB & HI).
  pose proof (b_zoff_bound z t' F) as HO.
  set (off := zoff (abs_zone z) t') in *.
  exists h0, dst, ab. split; [|exact HI].
  unfold break_time. rewrite Hl, (nth_tr_some z 0 f Hn0). cbn [bind].
  replace (negb (t <? tr_time f) && (tr_time l <=? t) && z_extended z) with true by (rewrite Hext; lia).
  rewrite k400_val.
  rewrite sub64_ok by azi. cbn [bind].
  rewrite Hq.
  rewrite add64_ok by azi. cbn [bind].
  rewrite mul64_ok by azi. cbn [bind].
  rewrite sub64_ok by azi. cbn [bind]. fold t'.
  replace (negb (t' <? tr_time f) && (tr_time l <=? t')) with false by (unfold t'; lia).
  rewrite HB. cbn [bind]. cbv beta iota.
  rewrite mul64_ok by azi. cbn [bind al_cs al_off al_dst al_abbr].
  replace ((q + 1) * 400) with (400 * (q + 1)) by lia.
  pose proof (cos_period (t' + off) (q + 1)) as CP. cbv zeta in CP.
  replace (t' + off + 146097 * 86400 * (q + 1)) with (t + off) in CP by (unfold t'; lia).
  rewrite year_shift_ok.
  - cbn [bind]. rewrite CP. reflexivity.
  - apply valid_cos.
  - assert (int64 (fy (cos (t + off)))) as Y by (apply year_ok; azi).
    rewrite CP in Y. cbn [fy] in Y. exact Y.
Qed.

(* beyond the table of an extended zone: b_break_future with the overflow condition in place of
   "the table reaches 2370" *)
Lemma a_break_future z h t l : bfacts z -> z_extended z = true -> last_opt (z_trans z) = Some l ->
  break_shift_safe z = true -> int64 t -> tr_time l <= t ->
  let k := (t - tr_time l) / P400 + 1 in
  exists h' dst ab,
    break_time z h t = OK (mkAL (cos (t + zoff (abs_zone z) (t - k * P400)))
                                (zoff (abs_zone z) (t - k * P400)) dst ab, h')
    /\ info_of z (zid (abs_zone z) (t - k * P400)) = OK (dst, ab)
    /\ tr_time l - P400 <= t - k * P400 < tr_time l.
Proof.
  intros F Hext Hl Hsafe Ht Hge. rewrite P400_val in *. intros k.
  destruct (bf_first z F) as (f & r & Hfr & Hf0).
  destruct (bf_last z F) as (l' & Hl' & Hl0). rewrite Hl in Hl'. inversion Hl'; subst l'. clear Hl'.
  assert (Hn0 : nth_error (z_trans z) 0 = Some f) by (rewrite Hfr; reflexivity).
  destruct (last_opt_nth _ _ Hl) as [Hln _].
  destruct (b_tr_facts z _ l F Hln) as (_ & HT & _).
  assert (2 ^ 60 = 1152921504606846976) as E60 by reflexivity. rewrite E60 in HT.
  unfold break_shift_safe, last_time in Hsafe. rewrite Hext, Hl, k400_val in Hsafe. cbn [negb orb] in Hsafe.
  apply Z.leb_le in Hsafe.
  assert (Hk : k = (t - tr_time l) / 12622780800 + 1) by reflexivity. clearbody k.
  assert (Hq : Z.quot (t - tr_time l) 12622780800 = (t - tr_time l) / 12622780800)
    by (apply Z.quot_div_nonneg; lia).
  pose proof (Z.mul_div_le (t - tr_time l) 12622780800 ltac:(lia)) as D1.
  pose proof (Z.mul_succ_div_gt (t - tr_time l) 12622780800 ltac:(lia)) as D2.
  assert (Hmono : (t - tr_time l) / 12622780800 <= (max64 - tr_time l) / 12622780800)
    by (apply Z.div_le_mono; azi).
  set (q := (t - tr_time l) / 12622780800) in *. clearbody q.
  set (qm := (max64 - tr_time l) / 12622780800) in *. clearbody qm. subst k.
  destruct (a_break_ext_core z t l f q F Hext Hl Hn0 Hf0 Hl0 ltac:(lia) Ht Hge Hq ltac:(lia) ltac:(lia))
    as (h0 & dst & ab & HB & HI).
  pose proof (break_time_hint z h t (b_times_sorted z F)) as Hh.
  rewrite HB in Hh. cbn [res_fst] in Hh.
  destruct (res_fst_OK _ _ Hh) as [h' Hr].
  exists h', dst, ab. split; [exact Hr|]. split; [exact HI|]. lia.
Qed.

Theorem a_break_total z h t : bfacts z -> break_shift_safe z = true -> int64 t ->
  exists r, break_time z h t = OK r.
Proof.
  intros F Hs Ht.
  destruct (bf_last z F) as (l & Hl & _).
  destruct (z_extended z) eqn:Hext.
  - destruct (Z_lt_le_dec t (tr_time l)) as [Hlt|Hge].
    + destruct (b_break_table z h t F Ht) as (h' & dst & ab & HB & _).
      { right. intros l' Hl'. rewrite Hl in Hl'. inversion Hl'; subst. exact Hlt. }
      eexists; exact HB.
    + destruct (a_break_future z h t l F Hext Hl Hs Ht Hge) as (h' & dst & ab & HB & _).
      eexists; exact HB.
  - destruct (b_break_table z h t F Ht (or_introl Hext)) as (h' & dst & ab & HB & _).
    eexists; exact HB.
Qed.

(* ================================================================== *)
(* Part 5.  MakeTime: total on every accepted zone                      *)

Lemma clamp_int64 v : int64 (clamp' v).
Proof. unfold clamp', int64, min64, max64. lia. Qed.

Lemma a_time_local_total z cs sh : afacts z -> valid_fields cs = true -> int64 (fy cs) -> 1 <= sh ->
  exists r, time_local z 0 cs sh = OK r.
Proof.
  intros F V I Hsh.
  destruct (a_make_noext_ok z cs F V I) as (h' & HM).
  unfold time_local. rewrite HM. cbn [bind]. cbv beta iota zeta.
  rewrite k400_val, quot_max64_P.
  destruct (Z.ltb_spec 730692561 sh) as [Hs|Hs]; [eexists; reflexivity|].
  rewrite mul64_ok by azi. cbn [bind].
  rewrite sub64_ok by azi. cbn [bind].
  unfold cl_of. cbn [cl_kind cl_pre cl_trans cl_post].
  pose proof (clamp_int64 (zpre (zmake (abs_zone z) (sec_of cs)))) as B1.
  pose proof (clamp_int64 (ztrans (zmake (abs_zone z) (sec_of cs)))) as B2.
  pose proof (clamp_int64 (zpost (zmake (abs_zone z) (sec_of cs)))) as B3.
  rewrite !sat_ok by azi. cbn [bind]. eexists; reflexivity.
Qed.

(* MakeTime either is the table lookup, or (extended_ branch) TimeLocal on the civil second
   re-dated 400*(q+1) years earlier, into the 400 years ending with last_year_; under
   make_shift_safe none of the four checked operations on the way overflows *)
Lemma a_make_ext_step z cs : afacts z -> make_shift_safe z = true ->
  valid_fields cs = true -> int64 (fy cs) ->
  make_time z 0 cs = make_time_noext z 0 cs \/
  exists q, 0 <= q /\
    let cs' := mkF (fy cs - 400 * (q + 1)) (fm cs) (fd cs) (fhh cs) (fmm cs) (fss cs) in
    valid_fields cs' = true /\ z_last_year z - 399 <= fy cs' <= z_last_year z /\ int64 (fy cs') /\
    z_extended z = true /\ 0 <= z_last_year z < fy cs /\
    q = (fy cs - z_last_year z - 1) / 400 /\
    make_time z 0 cs = time_local z 0 cs' (q + 1).
Proof.
  intros F Hsafe V I.
  destruct (af_first z F) as (f & r & Hfr & Hf0).
  destruct (af_last z F) as (l & Hl & Hl0).
  assert (Hn0 : nth_error (z_trans z) 0 = Some f) by (rewrite Hfr; reflexivity).
  unfold make_time. rewrite Hl, (nth_tr_some z 0 f Hn0). cbn [bind].
  destruct (negb (lt64 cs (tr_cs f)) && le64 (tr_cs l) cs && lt64 (tr_pcs l) cs
            && z_extended z && (z_last_year z <? fy cs)) eqn:C.
  2:{ left. reflexivity. }
  right.
  rewrite !andb_true_iff in C. destruct C as [[_ Hext] Hly]. apply Z.ltb_lt in Hly.
  unfold make_shift_safe in Hsafe. rewrite Hext in Hsafe. cbn [negb orb] in Hsafe.
  apply andb_true_iff in Hsafe. destruct Hsafe as [H0 Hfit].
  apply Z.leb_le in H0. apply Z.leb_le in Hfit.
  set (LY := z_last_year z) in *.
  assert (Hq : Z.quot (fy cs - LY - 1) 400 = (fy cs - LY - 1) / 400)
    by (apply Z.quot_div_nonneg; lia).
  pose proof (Z.mul_div_le (fy cs - LY - 1) 400 ltac:(lia)) as D1.
  pose proof (Z.mul_succ_div_gt (fy cs - LY - 1) 400 ltac:(lia)) as D2.
  assert (Hmono : (fy cs - LY - 1) / 400 <= (max64 - LY - 1) / 400)
    by (apply Z.div_le_mono; azi).
  assert (Hq0 : 0 <= (fy cs - LY - 1) / 400) by (apply Z.div_pos; lia).
  exists ((fy cs - LY - 1) / 400).
  set (q := (fy cs - LY - 1) / 400) in *. clearbody q.
  set (qm := (max64 - LY - 1) / 400) in *. clearbody qm.
  split; [exact Hq0|]. cbv zeta.
  rewrite sub64_ok by azi. cbn [bind].
  rewrite sub64_ok by azi. cbn [bind].
  rewrite Hq.
  rewrite add64_ok by azi. cbn [bind].
  rewrite mul64_ok by azi. cbn [bind].
  replace ((q + 1) * -400) with (400 * (- (q + 1))) by lia.
  rewrite year_shift_ok by (auto; azi). cbn [bind fy].
  replace (fy cs + 400 * - (q + 1)) with (fy cs - 400 * (q + 1)) by lia.
  replace (LY <? fy cs - 400 * (q + 1)) with false by lia.
  set (cs' := mkF (fy cs - 400 * (q + 1)) (fm cs) (fd cs) (fhh cs) (fmm cs) (fss cs)).
  assert (V' : valid_fields cs' = true).
  { apply valid_fields_inv in V. destruct V as (Vd & Hh & Hm & Hs).
    apply valid_fields_intro; cbn [cs' fy fm fd fhh fmm fss]; auto.
    replace (fy cs - 400 * (q + 1)) with (fy cs + 400 * (- (q + 1))) by lia.
    rewrite valid_date_period. exact Vd. }
  assert (Y' : LY - 399 <= fy cs' <= LY) by (cbn [cs' fy]; lia).
  assert (I' : int64 (fy cs')) by azi.
  split; [exact V'|]. split; [exact Y'|]. split; [exact I'|]. split; [exact Hext|].
  split; [lia|]. split; reflexivity.
Qed.

Lemma a_make_total0 z cs : afacts z -> make_shift_safe z = true ->
  valid_fields cs = true -> int64 (fy cs) -> exists r, make_time z 0 cs = OK r.
Proof.
  intros F Hsafe V I.
  destruct (a_make_ext_step z cs F Hsafe V I) as [E|(q & Hq & H)].
  - rewrite E. destruct (a_make_noext_ok z cs F V I) as (h' & HM). eexists; exact HM.
  - cbv zeta in H. destruct H as (V' & _ & I' & _ & _ & _ & E). rewrite E.
    apply (a_time_local_total z _ (q + 1) F V' I'). lia.
Qed.

Lemma res_fst_ok_total {A} (r r0 : res (A * Z)) : res_fst r = res_fst r0 -> (exists x, r0 = OK x) -> exists x, r = OK x.
Proof.
  intros E [x Hx]. subst r0. destruct x as [a h]. cbn [res_fst] in E.
  destruct (res_fst_OK _ _ E) as [h' Hr]. eexists; exact Hr.
Qed.

Theorem a_make_total z h cs : afacts z -> make_shift_safe z = true ->
  valid_fields cs = true -> int64 (fy cs) -> exists r, make_time z h cs = OK r.
Proof.
  intros F Hs V I.
  apply (res_fst_ok_total _ (make_time z 0 cs)).
  - apply make_time_hint. apply af_civil_sorted; exact F.
  - apply a_make_total0; assumption.
Qed.

Theorem a_convert_total z h cs : afacts z -> make_shift_safe z = true ->
  valid_fields cs = true -> int64 (fy cs) -> exists r, convert_cs z h cs = OK r.
Proof.
  intros F Hs V I. destruct (a_make_total z h cs F Hs V I) as [[cl h'] Hr].
  unfold convert_cs. rewrite Hr. cbn [bind]. eexists; reflexivity.
Qed.

(* ================================================================== *)
(* Part 6.  NextTransition / PrevTransition: total (and equal to znext / zprev on the searched
   table) on every accepted zone, for every t                             *)

Theorem a_next_total z t : afacts z -> exists r, next_transition z t = OK r.
Proof. intros F. rewrite (a_next_refines_gen z t F). eexists; reflexivity. Qed.
Theorem a_prev_total z t : afacts z -> exists r, prev_transition z t = OK r.
Proof. intros F. rewrite (a_prev_refines_gen z t F). eexists; reflexivity. Qed.

(* ================================================================== *)
(* Part 7.  THE TOTALITY THEOREM                                          *)

Theorem c10_total_every_accepted_file : forall bs z,
  load_bytes bs = OK (Some z) -> shift_safe z = true ->
  (forall hint t, int64 t -> exists r, break_time z hint t = OK r) /\
  (forall hint cs, valid_fields cs = true -> int64 (fy cs) -> exists r, make_time z hint cs = OK r) /\
  (forall hint cs, valid_fields cs = true -> int64 (fy cs) -> exists r, convert_cs z hint cs = OK r) /\
  (forall t, int64 t -> exists r, next_transition z t = OK r) /\
  (forall t, int64 t -> exists r, prev_transition z t = OK r).
Proof.
  intros bs z Hload Hs. pose proof (accepted_afacts bs z Hload) as F.
  unfold shift_safe in Hs. apply andb_true_iff in Hs. destruct Hs as [Hb Hm].
  repeat split.
  - intros h t Ht. exact (a_break_total z h t (afacts_bfacts z F) Hb Ht).
  - intros h cs V I. exact (a_make_total z h cs F Hm V I).
  - intros h cs V I. exact (a_convert_total z h cs F Hm V I).
  - intros t _. exact (a_next_total z t F).
  - intros t _. exact (a_prev_total z t F).
Qed.

(* ================================================================== *)
(* Part 8.  EXACT SATURATION, without the gaps_wide side condition       *)

Definition zconv_of (c : zcl) : Z := match zk c with ZS => ztrans c | _ => zpre c end.

Lemma convert_of_make z h cs c h' : make_time z h cs = OK (cl_of c, h') ->
  convert_cs z h cs = OK (clamp' (zconv_of c)).
Proof.
  intros H. unfold convert_cs. rewrite H. cbn [bind]. unfold cl_of, zconv_of. cbn [cl_kind cl_trans cl_pre].
  destruct (zk c); reflexivity.
Qed.

(* 8a. inside the table (every civil second when the zone is not extended): MakeTime returns the
   integer-level answer clamped to the time_point range - for EVERY accepted file *)
Theorem c10_make_exact_table : forall bs z h cs, load_bytes bs = OK (Some z) ->
  valid_fields cs = true -> int64 (fy cs) ->
  (z_extended z = false \/ fy cs <= z_last_year z) ->
  exists h', make_time z h cs = OK (cl_of (zmake (abs_zone z) (sec_of cs)), h').
Proof.
  intros bs z h cs Hload V I Hext.
  exact (a_make_refines_lemma z h cs (accepted_afacts bs z Hload) V I Hext).
Qed.

Theorem c10_convert_saturates_table : forall bs z h cs, load_bytes bs = OK (Some z) ->
  valid_fields cs = true -> int64 (fy cs) ->
  (z_extended z = false \/ fy cs <= z_last_year z) ->
  let v := zconvert (abs_zone z) (sec_of cs) in
  convert_cs z h cs = OK (clamp' v) /\
  (max64 <= v -> convert_cs z h cs = OK max64) /\
  (v <= min64 -> convert_cs z h cs = OK min64) /\
  (int64 v -> convert_cs z h cs = OK v).
Proof.
  intros bs z h cs Hload V I Hext v.
  destruct (c10_make_exact_table bs z h cs Hload V I Hext) as (h' & HM).
  pose proof (convert_of_make z h cs _ h' HM) as HC.
  change (zconv_of (zmake (abs_zone z) (sec_of cs))) with v in HC.
  split; [exact HC|]. rewrite HC. unfold clamp', int64, min64, max64.
  repeat split; intros; f_equal; lia.
Qed.

(* 8b. beyond last_year_ of an extended zone (composition with make_future_lemma, re-proved from
   acceptance alone): the table's answer for the civil second 400*k years earlier, moved forward
   by k * 400 years and saturated at max() *)
Theorem c10_make_exact_future : forall bs z h cs, load_bytes bs = OK (Some z) ->
  z_extended z = true -> valid_fields cs = true -> int64 (fy cs) -> z_last_year z < fy cs ->
  (forall l, last_opt (z_trans z) = Some l -> fy (tr_cs l) = z_last_year z /\ P400 <= tr_time l) ->
  (forall l, last_opt (z_trans z) = Some l -> fy (tr_pcs l) <= z_last_year z) ->
  let k := (fy cs - z_last_year z - 1) / 400 + 1 in
  let cs' := mkF (fy cs - 400 * k) (fm cs) (fd cs) (fhh cs) (fmm cs) (fss cs) in
  let c := zmake (abs_zone z) (sec_of cs') in
  (exists h',
    make_time z h cs = OK (mkCL (kind_of' (zk c))
                                (Z.min max64 (zpre c + k * P400)) (Z.min max64 (ztrans c + k * P400))
                                (Z.min max64 (zpost c + k * P400)), h')) /\
  convert_cs z h cs = OK (Z.min max64 (zconvert (abs_zone z) (sec_of cs') + k * P400)).
Proof.
  intros bs z h cs Hload Hext V I Hly H1 H2 k cs' c.
  destruct (a_make_future_lemma z h cs (accepted_afacts bs z Hload) Hext V I Hly H1 H2) as (h' & HM).
  cbv zeta in HM. fold k in HM. fold cs' in HM. fold c in HM.
  split.
  - exists h'. rewrite HM. unfold kind_of'. reflexivity.
  - unfold convert_cs. rewrite HM. cbn [bind cl_kind cl_trans cl_pre].
    unfold zconvert. fold c. destruct (zk c); reflexivity.
Qed.

(* 8c. the far ends of the civil time line, on EVERY accepted zone that is shift_safe, with no
   hypothesis on the table: every civil second whose year is at least huge_year converts to exactly
   max() and every civil second whose year is at most tiny_year converts to exactly min() -
   in particular civil_second::max() and civil_second::min() *)
Lemma a_zmake_beyond z l L : afacts z -> last_opt (z_trans z) = Some l -> tr_time l + 93600 <= L ->
  zmake (abs_zone z) L = zunique (L - off_of z (tr_type l)).
Proof.
  intros F Hl HL.
  destruct (last_opt_nth _ _ Hl) as [Hln Hlen].
  destruct (a_tr_facts z _ l F Hln) as (_ & HT & HO & _ & _ & Na).
  destruct (af_wf z F) as (_ & SA & _).
  pose proof (a_ob_bound z (length (z_trans z) - 1) F) as HB.
  rewrite abs_zone_eq, zmake_zmakeL. unfold zmakeL.
  assert (E : upper_civil (absl z) L = length (absl z)).
  { rewrite upper_civil_G. apply (upperG_eq at_ (absl z) L (length (absl z)) SA (le_n _)).
    - intros j a Hj Ha. rewrite absl_length in Hj.
      pose proof (sortedK_le at_ (absl z) j (length (z_trans z) - 1) a (absf z l) SA ltac:(lia) Ha Na) as K.
      unfold at_ in *. cbn [absf zt_time zt_off] in *. lia.
    - intros a Ha. apply nth_some_lt in Ha. lia. }
  rewrite E, absl_length.
  destruct (length (z_trans z)) as [|j] eqn:En; [lia|].
  replace (S j - 1)%nat with j in * by lia.
  rewrite Na, Nat.eqb_refl.
  unfold pre_, at_. cbn [absf zt_time zt_off].
  destruct (Z.ltb_spec (tr_time l - 1 + ob (doff z) (absl z) j) L); [|lia].
  apply zunique_eq. lia.
Qed.

Lemma a_zmake_before z f r L : afacts z -> z_trans z = f :: r -> L + 93600 <= tr_time f ->
  zmake (abs_zone z) L = zunique (L - doff z).
Proof.
  intros F Hfr HL.
  assert (Hn0 : nth_error (z_trans z) 0 = Some f) by (rewrite Hfr; reflexivity).
  destruct (a_tr_facts z _ f F Hn0) as (_ & HT & HO & _ & _ & Na).
  destruct (af_wf z F) as (_ & SA & _).
  pose proof (a_doff_bound z F) as HB.
  rewrite abs_zone_eq, zmake_zmakeL. unfold zmakeL.
  assert (E : upper_civil (absl z) L = O).
  { rewrite upper_civil_G. apply (upperG_eq at_ (absl z) L O SA ltac:(lia)).
    - intros j a Hj. discriminate.
    - intros a Ha. rewrite Na in Ha. inversion Ha; subst a.
      unfold at_. cbn [absf zt_time zt_off]. lia. }
  rewrite E.
  assert (absl z = absf z f :: map (absf z) r) as -> by (unfold absl; rewrite Hfr; reflexivity).
  unfold pre_. cbn [absf zt_time].
  destruct (Z.leb_spec L (tr_time f - 1 + doff z)); [reflexivity|lia].
Qed.

Definition huge_year : Z := 292277026605 + 400 * 730692561.
Definition tiny_year : Z := -292277022666.

Lemma huge_year_sec cs : valid_fields cs = true -> 292277026605 <= fy cs -> SB <= sec_of cs.
Proof.
  intros V H. apply Z.lt_le_incl. apply cos_year_lt. rewrite (cos_sec_of cs V).
  assert (fy (cos SB) < 292277026605) as B by (apply Z.ltb_lt; vm_compute; reflexivity).
  lia.
Qed.

Lemma tiny_year_sec cs : valid_fields cs = true -> fy cs <= tiny_year -> sec_of cs <= - SB.
Proof.
  intros V H. apply Z.lt_le_incl. apply cos_year_lt. rewrite (cos_sec_of cs V).
  assert (tiny_year < fy (cos (- SB))) as B by (apply Z.ltb_lt; vm_compute; reflexivity).
  lia.
Qed.

Lemma a_make_noext_huge z cs : afacts z -> valid_fields cs = true -> int64 (fy cs) -> SB <= sec_of cs ->
  exists h', make_time_noext z 0 cs = OK (make_unique max64, h').
Proof.
  intros F V I HL.
  destruct (a_make_noext_ok z cs F V I) as (h' & HM). exists h'. rewrite HM.
  destruct (af_last z F) as (l & Hl & Hl0).
  destruct (last_opt_nth _ _ Hl) as [Hln _].
  destruct (a_tr_facts z _ l F Hln) as (_ & HT & HO & _).
  change (2 ^ 60) with 1152921504606846976 in HT.
  rewrite (a_zmake_beyond z l (sec_of cs) F Hl) by azi.
  unfold cl_of, zunique, make_unique. cbn [zk zpre ztrans zpost kind_of'].
  replace (clamp' (sec_of cs - off_of z (tr_type l))) with max64
    by (unfold clamp', SB, min64, max64 in *; lia).
  reflexivity.
Qed.

Lemma a_make_noext_tiny z cs : afacts z -> valid_fields cs = true -> int64 (fy cs) -> sec_of cs <= - SB ->
  exists h', make_time_noext z 0 cs = OK (make_unique min64, h').
Proof.
  intros F V I HL.
  destruct (a_make_noext_ok z cs F V I) as (h' & HM). exists h'. rewrite HM.
  destruct (af_first z F) as (f & r & Hfr & Hf0).
  assert (Hn0 : nth_error (z_trans z) 0 = Some f) by (rewrite Hfr; reflexivity).
  destruct (a_tr_facts z _ f F Hn0) as (_ & HT & HO & _).
  change (2 ^ 59) with 576460752303423488 in HT.
  pose proof (a_doff_bound z F) as HB.
  rewrite (a_zmake_before z f r (sec_of cs) F Hfr) by azi.
  unfold cl_of, zunique, make_unique. cbn [zk zpre ztrans zpost kind_of'].
  replace (clamp' (sec_of cs - doff z)) with min64
    by (unfold clamp', SB, min64, max64 in *; lia).
  reflexivity.
Qed.

Lemma res_fst_transfer {A} (r r0 : res (A * Z)) a h0 : res_fst r = res_fst r0 -> r0 = OK (a, h0) ->
  exists h', r = OK (a, h').
Proof. intros E ->. cbn [res_fst] in E. exact (res_fst_OK _ _ E). Qed.

Theorem a_make_huge z h cs : afacts z -> make_shift_safe z = true ->
  valid_fields cs = true -> int64 (fy cs) -> huge_year <= fy cs ->
  (exists k h', make_time z h cs = OK (mkCL k max64 max64 max64, h')) /\ convert_cs z h cs = OK max64.
Proof.
  intros F Hsafe V I HY.
  assert (M0 : exists k h0, make_time z 0 cs = OK (mkCL k max64 max64 max64, h0)).
  { destruct (a_make_ext_step z cs F Hsafe V I) as [E|(q & Hq & H)].
    - rewrite E. destruct (a_make_noext_huge z cs F V I) as (h' & HM).
      { apply huge_year_sec; [exact V|]. unfold huge_year in HY. lia. }
      exists UNIQUE, h'. exact HM.
    - cbv zeta in H. destruct H as (V' & _ & I' & _ & _ & _ & E). rewrite E.
      set (cs' := mkF (fy cs - 400 * (q + 1)) (fm cs) (fd cs) (fhh cs) (fmm cs) (fss cs)) in *.
      unfold time_local.
      destruct (Z.ltb_spec 730692561 (q + 1)) as [Hs|Hs].
      + destruct (a_make_noext_ok z cs' F V' I') as (h' & HM). rewrite HM. cbn [bind].
        rewrite k400_val, quot_max64_P.
        destruct (Z.ltb_spec 730692561 (q + 1)); [|lia]. eexists _, _. reflexivity.
      + destruct (a_make_noext_huge z cs' F V' I') as (h' & HM).
        { apply huge_year_sec; [exact V'|]. unfold huge_year in HY. cbn [cs' fy]. lia. }
        rewrite HM. cbn [bind]. rewrite k400_val, quot_max64_P.
        destruct (Z.ltb_spec 730692561 (q + 1)); [lia|].
        rewrite mul64_ok by azi. cbn [bind].
        rewrite sub64_ok by azi. cbn [bind].
        unfold make_unique. cbn [cl_kind cl_pre cl_trans cl_post].
        replace (max64 - (q + 1) * 12622780800 <? max64) with true by lia.
        cbn [bind]. eexists _, _. reflexivity. }
  destruct M0 as (k & h0 & M0).
  destruct (res_fst_transfer (make_time z h cs) _ _ h0 (make_time_hint z h cs (af_civil_sorted z F)) M0)
    as (h' & HM).
  split; [exists k, h'; exact HM|].
  unfold convert_cs. rewrite HM. cbn [bind cl_kind cl_trans cl_pre]. destruct k; reflexivity.
Qed.

Theorem a_make_tiny z h cs : afacts z ->
  valid_fields cs = true -> int64 (fy cs) -> fy cs <= tiny_year ->
  (exists h', make_time z h cs = OK (make_unique min64, h')) /\ convert_cs z h cs = OK min64.
Proof.
  intros F V I HY.
  pose proof (tiny_year_sec cs V HY) as HL.
  assert (M0 : exists h0, make_time z 0 cs = OK (make_unique min64, h0)).
  { destruct (af_first z F) as (f & r & Hfr & Hf0).
    destruct (af_last z F) as (l & Hl & Hl0).
    assert (Hn0 : nth_error (z_trans z) 0 = Some f) by (rewrite Hfr; reflexivity).
    destruct (a_tr_facts z _ f F Hn0) as (_ & HT & HO & Ccs & _).
    change (2 ^ 59) with 576460752303423488 in HT.
    unfold make_time. rewrite Hl, (nth_tr_some z 0 f Hn0). cbn [bind].
    rewrite Ccs, lt_l by exact V.
    replace (sec_of cs <? tr_time f + off_of z (tr_type f)) with true by azi.
    cbn [negb andb].
    exact (a_make_noext_tiny z cs F V I HL). }
  destruct M0 as (h0 & M0).
  destruct (res_fst_transfer (make_time z h cs) _ _ h0 (make_time_hint z h cs (af_civil_sorted z F)) M0)
    as (h' & HM).
  split; [exists h'; exact HM|].
  unfold convert_cs. rewrite HM. reflexivity.
Qed.

(* civil_second::max() -> time_point::max(), civil_second::min() -> time_point::min(), exactly *)
Theorem c10_extreme_civil_seconds : forall bs z h, load_bytes bs = OK (Some z) -> shift_safe z = true ->
  convert_cs z h civil_max64 = OK max64 /\ convert_cs z h civil_min64 = OK min64 /\
  (forall cs, valid_fields cs = true -> int64 (fy cs) -> huge_year <= fy cs -> convert_cs z h cs = OK max64) /\
  (forall cs, valid_fields cs = true -> int64 (fy cs) -> fy cs <= tiny_year -> convert_cs z h cs = OK min64).
Proof.
  intros bs z h Hload Hs. pose proof (accepted_afacts bs z Hload) as F.
  unfold shift_safe in Hs. apply andb_true_iff in Hs. destruct Hs as [_ Hm].
  assert (A : forall cs, valid_fields cs = true -> int64 (fy cs) -> huge_year <= fy cs -> convert_cs z h cs = OK max64)
    by (intros cs V I Y; exact (proj2 (a_make_huge z h cs F Hm V I Y))).
  assert (B : forall cs, valid_fields cs = true -> int64 (fy cs) -> fy cs <= tiny_year -> convert_cs z h cs = OK min64)
    by (intros cs V I Y; exact (proj2 (a_make_tiny z h cs F V I Y))).
  split; [|split; [|split; [exact A|exact B]]].
  - apply A; [exact valid_cmax|cbn [civil_max64 fy]; azi|cbn [civil_max64 fy]; unfold huge_year, max64; lia].
  - apply B; [exact valid_cmin|cbn [civil_min64 fy]; azi|cbn [civil_min64 fy]; unfold tiny_year, min64; lia].
Qed.

(* 8d. the last representable civil second of a zone whose table is not extended: the civil second
   that BreakTime shows at max() converts back to EXACTLY max() (it is civil_max of the final
   type), as an exact value of the integer-level conversion - not as a saturated one - while
   the civil second after it saturates to max() *)
Lemma a_zoff_beyond z l t : afacts z -> last_opt (z_trans z) = Some l -> tr_time l <= t ->
  zoff (abs_zone z) t = off_of z (tr_type l).
Proof.
  intros F Hl Ht.
  destruct (last_opt_nth _ _ Hl) as [Hln Hlen].
  destruct (a_tr_facts z _ l F Hln) as (_ & _ & _ & _ & _ & Na).
  destruct (af_wf z F) as (ST & _).
  rewrite abs_zone_eq. unfold zoff. cbn [zz_tr zz_doff]. rewrite zoff_ob.
  assert (E : upper_idx (absl z) t = length (absl z)).
  { apply (upper_idx_eq (absl z) t (length (absl z)) ST (le_n _)).
    - intros j a Hj Ha. rewrite absl_length in Hj.
      pose proof (sortedK_le zt_time (absl z) j (length (z_trans z) - 1) a (absf z l) ST ltac:(lia) Ha Na) as K.
      cbn [absf zt_time] in K. lia.
    - intros a Ha. apply nth_some_lt in Ha. lia. }
  rewrite E, absl_length.
  destruct (length (z_trans z)) as [|j] eqn:En; [lia|].
  replace (S j - 1)%nat with j in * by lia.
  rewrite (ob_S _ _ _ _ Na). reflexivity.
Qed.

Theorem c10_last_civil_second_exact : forall bs z h l, load_bytes bs = OK (Some z) ->
  z_extended z = false -> last_opt (z_trans z) = Some l ->
  let off := off_of z (tr_type l) in
  let cs := cos (max64 + off) in
  (exists ty, nth_res (z_types z) (tr_type l) = OK ty /\ tt_cmax ty = cs) /\
  (exists h' dst ab, break_time z h max64 = OK (mkAL cs off dst ab, h')) /\
  zconvert (abs_zone z) (sec_of cs) = max64 /\
  convert_cs z h cs = OK max64 /\
  zconvert (abs_zone z) (sec_of (cos (max64 + off + 1))) = max64 + 1 /\
  convert_cs z h (cos (max64 + off + 1)) = OK max64.
Proof.
  intros bs z h l Hload Hext Hl off cs. pose proof (accepted_afacts bs z Hload) as F.
  destruct (last_opt_nth _ _ Hl) as [Hln _].
  destruct (a_tr_facts z _ l F Hln) as (Hi & HT & HO & _).
  change (2 ^ 60) with 1152921504606846976 in HT. fold off in HO.
  assert (I64 : int64 max64) by azi.
  split.
  { destruct (a_type_facts z _ F Hi) as (ty & Hty & _ & _ & Ecmax & _). exists ty. split; [exact Hty|exact Ecmax]. }
  split.
  { destruct (b_break_table z h max64 (afacts_bfacts z F) I64 (or_introl Hext)) as (h' & dst & ab & HB & _).
    rewrite (a_zoff_beyond z l max64 F Hl) in HB by azi. exists h', dst, ab. exact HB. }
  assert (V : valid_fields cs = true) by apply valid_cos.
  assert (I : int64 (fy cs)) by (apply year_ok; azi).
  assert (Z1 : zconvert (abs_zone z) (sec_of cs) = max64).
  { unfold zconvert. unfold cs. rewrite sec_of_cos.
    rewrite (a_zmake_beyond z l _ F Hl) by azi. unfold zunique. cbn [zk zpre]. fold off. lia. }
  split; [exact Z1|].
  split.
  { destruct (c10_convert_saturates_table bs z h cs Hload V I (or_introl Hext)) as (_ & _ & _ & K).
    rewrite Z1 in K. apply K. exact I64. }
  set (cs1 := cos (max64 + off + 1)).
  assert (V1 : valid_fields cs1 = true) by apply valid_cos.
  assert (I1 : int64 (fy cs1)) by (apply year_ok; azi).
  assert (Z2 : zconvert (abs_zone z) (sec_of cs1) = max64 + 1).
  { unfold zconvert. unfold cs1. rewrite sec_of_cos.
    rewrite (a_zmake_beyond z l _ F Hl) by azi. unfold zunique. cbn [zk zpre]. fold off. lia. }
  split; [exact Z2|].
  destruct (c10_convert_saturates_table bs z h cs1 Hload V1 I1 (or_introl Hext)) as (_ & K & _).
  rewrite Z2 in K. apply K. lia.
Qed.

(* 8e. the last representable civil second of a RULE-EXTENDED zone.  Here the VALUE depends on the
   data (C02's side condition gaps_wide, and the alignment of the 400-year back-mapping with
   last_year_), so these are hypotheses - stated on the loaded zone, each decidable:
     H1/H2   what ExtendTransitions guarantees about the last table entry (as in make_future_lemma);
     ALIGN   the civil second shown at max() - k*400y lies in the 400 local years ending with last_year_
             (fails only when a rule instant sits within an offset change of New Year).
   Then the civil second shown at max() converts - through the extended_ branch of MakeTime, the
   saturating TimeLocal included - to the integer-level answer moved forward by k*400 years, which is
   at most max() (no saturation took place), and to exactly max() unless max() falls in a repeated hour *)
Theorem c10_last_civil_second_extended : forall bs z h l, load_bytes bs = OK (Some z) ->
  z_extended z = true -> last_opt (z_trans z) = Some l ->
  gaps_wide (zz_doff (abs_zone z)) (zz_tr (abs_zone z)) = true ->
  fy (tr_cs l) = z_last_year z -> P400 <= tr_time l -> fy (tr_pcs l) <= z_last_year z ->
  let k := (max64 - tr_time l) / P400 + 1 in
  let t' := max64 - k * P400 in
  let o := zoff (abs_zone z) t' in
  let cs := cos (max64 + o) in
  z_last_year z - 400 < fy (cos (t' + o)) <= z_last_year z ->
  (exists h' dst ab, break_time z h max64 = OK (mkAL cs o dst ab, h')) /\
  convert_cs z h cs = OK (zconvert (abs_zone z) (t' + o) + k * P400) /\
  zconvert (abs_zone z) (t' + o) + k * P400 <= max64 /\
  (zk (zmake (abs_zone z) (t' + o)) = ZU -> convert_cs z h cs = OK max64).
Proof.
  intros bs z h l Hload Hext Hl Hgw HY HP HPY. rewrite P400_val in *. intros k t' o cs ALIGN.
  pose proof (accepted_afacts bs z Hload) as F.
  pose proof (load_wfz_lemma bs z Hload Hgw) as Hwf.
  assert (I64 : int64 max64) by azi.
  destruct (last_opt_nth _ _ Hl) as [Hln _].
  destruct (a_tr_facts z _ l F Hln) as (_ & HT & _).
  change (2 ^ 60) with 1152921504606846976 in HT.
  destruct (b_break_future z h max64 l (afacts_bfacts z F) Hext Hl ltac:(rewrite P400_val; exact HP) I64 ltac:(azi))
    as (h' & dst & ab & HB & _ & Hrange).
  cbv zeta in HB, Hrange. rewrite P400_val in HB, Hrange. fold k in HB, Hrange. fold t' in HB, Hrange. fold o in HB. fold cs in HB.
  split; [exists h', dst, ab; exact HB|].
  pose proof (b_zoff_bound z t' (afacts_bfacts z F)) as HO. fold o in HO.
  assert (Hk1 : 1 <= k).
  { unfold k. pose proof (Z.div_pos (max64 - tr_time l) 12622780800 ltac:(unfold max64; lia) ltac:(lia)). lia. }
  assert (V : valid_fields cs = true) by apply valid_cos.
  assert (I : int64 (fy cs)) by (apply year_ok; azi).
  set (c'' := cos (t' + o)) in *.
  assert (Ecs : cs = mkF (fy c'' + 400 * k) (fm c'') (fd c'') (fhh c'') (fmm c'') (fss c'')).
  { unfold cs. replace (max64 + o) with (t' + o + 146097 * 86400 * k) by (unfold t'; lia).
    rewrite cos_period. reflexivity. }
  assert (Hly : z_last_year z < fy cs) by (rewrite Ecs; cbn [fy]; nia).
  assert (Hkm : (fy cs - z_last_year z - 1) / 400 + 1 = k).
  { assert ((fy cs - z_last_year z - 1) / 400 = k - 1); [|lia].
    symmetry. apply (Z.div_unique _ 400 (k - 1) (fy c'' - z_last_year z - 1 + 400)); [lia|].
    rewrite Ecs. cbn [fy]. lia. }
  destruct (c10_make_exact_future bs z h cs Hload Hext V I Hly) as [_ HC].
  { intros l' Hl'. rewrite Hl in Hl'. inversion Hl'; subst l'. rewrite P400_val. auto. }
  { intros l' Hl'. rewrite Hl in Hl'. inversion Hl'; subst l'. exact HPY. }
  cbv zeta in HC. rewrite Hkm, P400_val in HC.
  assert (Ecs' : mkF (fy cs - 400 * k) (fm cs) (fd cs) (fhh cs) (fmm cs) (fss cs) = c'').
  { rewrite Ecs. cbn [fy fm fd fhh fmm fss]. replace (fy c'' + 400 * k - 400 * k) with (fy c'') by lia.
    destruct c''; reflexivity. }
  rewrite Ecs' in HC. unfold c'' in HC. rewrite sec_of_cos in HC.
  destruct (zconvert_char (abs_zone z) (t' + o) Hwf) as [_ ZC].
  assert (Hle : zconvert (abs_zone z) (t' + o) <= t').
  { destruct (Z_le_gt_dec (zconvert (abs_zone z) (t' + o)) t') as [L|G]; [exact L|].
    specialize (ZC t' ltac:(lia)). fold o in ZC. lia. }
  assert (Hfit : zconvert (abs_zone z) (t' + o) + k * 12622780800 <= max64).
  { assert (Et : t' = max64 - k * 12622780800) by reflexivity. lia. }
  rewrite Z.min_r in HC by exact Hfit.
  split; [exact HC|]. split; [exact Hfit|].
  intros HU. rewrite HC. f_equal.
  destruct (zroundtrip_lemma (abs_zone z) t' Hwf) as [[_ E]|[K _]].
  - fold o in E. unfold zconvert. rewrite HU. rewrite E.
    assert (Et : t' = max64 - k * 12622780800) by reflexivity. lia.
  - fold o in K. rewrite HU in K. discriminate.
Qed.

(* ================================================================== *)
(* Part 9.  The built-in fixed-offset zones fixed_time_zone(off), |off| <= 24 h (24 h included,
   which no file can carry): all five queries are total, with their exact values *)

Lemma zfacts_afacts z : zfacts z -> afacts z.
Proof.
  intros F. destruct (zf_wf z F) as (ST & SA & _ & _).
  split; try apply F; assumption.
Qed.

Lemma ob_fixed off ts m : ob off (map (mkz off) ts) m = off.
Proof.
  destruct m as [|m]; cbn [ob]; [reflexivity|]. rewrite nth_error_map.
  destruct (nth_error ts m); reflexivity.
Qed.

Lemma zmake_fixed off L : -86400 <= off <= 86400 ->
  zmake (abs_zone (fixed_zone off)) L = zunique (L - off).
Proof.
  intros Ho.
  pose proof (zone_ok_facts _ (fixed_zone_ok_true off Ho)) as F.
  destruct (zf_wf _ F) as (_ & SA & _ & NE).
  rewrite abs_zone_eq, zmake_zmakeL. rewrite absl_fixed in *. change (doff (fixed_zone off)) with off in *.
  destruct (zmake_cases off (map (mkz off) builtin_times) L NE SA) as [m [HU|[HS|HR]]].
  - destruct HU as [E _]. rewrite E, ob_fixed. reflexivity.
  - exfalso. destruct HS as (a & Ha & _ & HL). rewrite ob_fixed in HL.
    rewrite nth_error_map in Ha. destruct (nth_error builtin_times m) as [t|]; [|discriminate].
    cbn [option_map] in Ha. inversion Ha; subst a. unfold pre_, at_, mkz in HL. cbn [zt_time zt_off] in HL. lia.
  - exfalso. destruct HR as (a & Ha & _ & HL & _). rewrite ob_fixed in HL.
    rewrite nth_error_map in Ha. destruct (nth_error builtin_times m) as [t|]; [|discriminate].
    cbn [option_map] in Ha. inversion Ha; subst a. unfold pre_, at_, mkz in HL. cbn [zt_time zt_off] in HL. lia.
Qed.

Lemma equiv_same abbrs types i : equiv_transitions abbrs types i i = OK true.
Proof. unfold equiv_transitions. rewrite Z.eqb_refl. reflexivity. Qed.

Lemma next_scan_all_same z l : (forall tr, In tr l -> tr_type tr = z_default z) ->
  forall fuel k, (0 < fuel)%nat -> (length l < fuel + k)%nat -> next_scan fuel z l k = OK None.
Proof.
  intros Hl. induction fuel as [|f IH]; intros k H0 Hk; [lia|].
  cbn [next_scan]. destruct (nth_error l k) as [tr|] eqn:Ek; [|reflexivity].
  pose proof (nth_some_lt _ _ _ Ek) as Hlt.
  assert (E1 : match k with
               | O => OK (z_default z)
               | S k' => match nth_error l k' with Some p => OK (tr_type p) | None => Err OOB end
               end = OK (z_default z)).
  { destruct k as [|k']; [reflexivity|].
    destruct (nth_lt_some l k' ltac:(lia)) as [p Hp]. rewrite Hp.
    rewrite (Hl p (nth_error_In _ _ Hp)). reflexivity. }
  rewrite E1. cbn [bind]. rewrite (Hl tr (nth_error_In _ _ Ek)), equiv_same. cbn [bind].
  apply IH; lia.
Qed.

Lemma prev_scan_all_same z l : (forall tr, In tr l -> tr_type tr = z_default z) ->
  forall k, (k <= length l)%nat -> prev_scan z l k = OK O.
Proof.
  intros Hl. induction k as [|j IH]; intros Hk; [reflexivity|].
  cbn [prev_scan]. destruct (nth_lt_some l j ltac:(lia)) as [cur Hc]. rewrite Hc. cbn [bind].
  assert (E1 : match j with
               | O => OK (z_default z)
               | S k'' => match nth_error l k'' with Some p => OK (tr_type p) | None => Err OOB end
               end = OK (z_default z)).
  { destruct j as [|i]; [reflexivity|].
    destruct (nth_lt_some l i ltac:(lia)) as [p Hp]. rewrite Hp.
    rewrite (Hl p (nth_error_In _ _ Hp)). reflexivity. }
  rewrite E1. cbn [bind]. rewrite (Hl cur (nth_error_In _ _ Hc)), equiv_same. cbn [bind].
  apply IH; lia.
Qed.

Lemma partition_point_le {A} (p : A -> bool) l : (partition_point p l <= length l)%nat.
Proof. induction l as [|x r IH]; cbn [partition_point length]; [lia|]. destruct (p x); lia. Qed.

Theorem c10_total_fixed : forall off, -86400 <= off <= 86400 ->
  exists z, reset_to_builtin_utc off = OK z /\ z_extended z = false /\ shift_safe z = true /\
    (forall h t, int64 t -> exists h',
       break_time z h t = OK (mkAL (cos (t + off)) off false (fixed_abbr_spec off), h')) /\
    (forall h cs, valid_fields cs = true -> int64 (fy cs) -> exists h',
       make_time z h cs = OK (make_unique (clamp' (sec_of cs - off)), h')) /\
    (forall h cs, valid_fields cs = true -> int64 (fy cs) ->
       convert_cs z h cs = OK (clamp' (sec_of cs - off))) /\
    (forall t, next_transition z t = OK None) /\
    (forall t, prev_transition z t = OK None).
Proof.
  intros off Ho. exists (fixed_zone off).
  pose proof (fixed_zone_ok_true off Ho) as Hok.
  destruct (fixed_zone_ok_lemma off Ho) as (z' & Hz' & _ & _ & Hzoff & Hinfo).
  rewrite (reset_ok off Ho) in Hz'. inversion Hz'; subst z'. clear Hz'.
  split; [apply reset_ok; exact Ho|]. split; [reflexivity|]. split; [reflexivity|].
  assert (MK : forall h cs, valid_fields cs = true -> int64 (fy cs) -> exists h',
       make_time (fixed_zone off) h cs = OK (make_unique (clamp' (sec_of cs - off)), h')).
  { intros h cs V I.
    destruct (make_refines_lemma (fixed_zone off) h cs Hok V I (or_introl eq_refl)) as (h' & HM).
    cbv zeta in HM. rewrite (zmake_fixed off _ Ho) in HM. exists h'. exact HM. }
  assert (TS : times_sorted_l (z_trans (fixed_zone off)) = true)
    by (apply zf_times_sorted; apply zone_ok_facts; exact Hok).
  assert (Hty : forall tr, In tr (fst (drop_big_bang (fixed_zone off))) -> tr_type tr = z_default (fixed_zone off)).
  { intros tr Hin.
    assert (In tr (z_trans (fixed_zone off))) as Hin'.
    { unfold drop_big_bang in Hin. destruct (z_trans (fixed_zone off)) as [|t0 r]; [exact Hin|].
      destruct (tr_time t0 <=? big_bang); cbn [fst] in Hin; [right; exact Hin|exact Hin]. }
    cbn [fixed_zone z_trans] in Hin'. apply in_map_iff in Hin'. destruct Hin' as (t & <- & _). reflexivity. }
  pose proof (drop_bb_sorted (fixed_zone off) TS) as DS.
  assert (NE : exists f r, z_trans (fixed_zone off) = f :: r).
  { cbn [fixed_zone z_trans]. unfold builtin_times. cbn [map]. eexists _, _. reflexivity. }
  destruct NE as (f & r & Hfr).
  repeat split.
  - intros h t Ht.
    destruct (break_refines_lemma (fixed_zone off) h t Hok Ht (or_introl eq_refl)) as (h' & dst & ab & HB & HI).
    rewrite Hzoff in HB. rewrite Hinfo in HI. inversion HI; subst dst ab. exists h'. exact HB.
  - exact MK.
  - intros h cs V I. destruct (MK h cs V I) as (h' & HM). unfold convert_cs. rewrite HM. reflexivity.
  - intros t. unfold next_transition. rewrite Hfr. cbv iota.
    destruct (drop_big_bang (fixed_zone off)) as [l n]. cbn [fst] in *.
    rewrite bound_search_ok by (apply times_sorted_part_ub; exact DS). cbn [bind].
    rewrite (next_scan_all_same _ l Hty) by (try lia; pose proof (partition_point_le (fun tr => t <? tr_time tr) l); lia).
    reflexivity.
  - intros t. unfold prev_transition. rewrite Hfr. cbv iota.
    destruct (drop_big_bang (fixed_zone off)) as [l n]. cbn [fst] in *.
    rewrite bound_search_ok by (apply times_sorted_part_lb; exact DS). cbn [bind].
    rewrite (prev_scan_all_same _ l Hty) by apply partition_point_le.
    reflexivity.
Qed.

(* ================================================================== *)
(* Part 10.  shift_safe cannot be dropped, and it is EXACT                *)

(* 10a. each clause is necessary on every accepted zone: when it fails, the query at the top of
   the range returns Err Overflow (C++: signed overflow, undefined behaviour), whatever the hint *)
Theorem c10_break_shift_necessary : forall bs z h, load_bytes bs = OK (Some z) ->
  break_shift_safe z = false -> break_time z h max64 = Err Overflow.
Proof.
  intros bs z h Hload Hs. pose proof (accepted_bfacts bs z Hload) as F.
  destruct (bf_first z F) as (f & r & Hfr & Hf0).
  destruct (bf_last z F) as (l & Hl & Hl0).
  assert (Hn0 : nth_error (z_trans z) 0 = Some f) by (rewrite Hfr; reflexivity).
  destruct (last_opt_nth _ _ Hl) as [Hln _].
  destruct (b_tr_facts z _ l F Hln) as (_ & HT & _).
  change (2 ^ 60) with 1152921504606846976 in HT.
  unfold break_shift_safe, last_time in Hs. rewrite Hl, k400_val in Hs.
  apply orb_false_iff in Hs. destruct Hs as [Hext Hfit].
  apply negb_false_iff in Hext. apply Z.leb_gt in Hfit.
  unfold break_time. rewrite Hl, (nth_tr_some z 0 f Hn0). cbn [bind].
  replace (negb (max64 <? tr_time f) && (tr_time l <=? max64) && z_extended z) with true
    by (rewrite Hext; unfold max64; lia).
  rewrite k400_val.
  rewrite sub64_ok by azi. cbn [bind].
  rewrite Z.quot_div_nonneg by (unfold max64; lia).
  pose proof (Z.mul_div_le (max64 - tr_time l) 12622780800 ltac:(lia)) as D1.
  pose proof (Z.div_pos (max64 - tr_time l) 12622780800 ltac:(unfold max64; lia) ltac:(lia)) as D0.
  set (q := (max64 - tr_time l) / 12622780800) in *. clearbody q.
  rewrite add64_ok by azi. cbn [bind].
  unfold mul64, chk64. destruct (in64 ((q + 1) * 12622780800)) eqn:E; [|reflexivity].
  apply in64_spec in E. unfold int64 in E. lia.
Qed.

Theorem c10_make_shift_necessary : forall bs z h, load_bytes bs = OK (Some z) ->
  make_shift_safe z = false -> make_time z h civil_max64 = Err Overflow.
Proof.
  intros bs z h Hload Hs. pose proof (accepted_afacts bs z Hload) as F.
  destruct (af_first z F) as (f & r & Hfr & Hf0).
  destruct (af_last z F) as (l & Hl & Hl0).
  assert (Hn0 : nth_error (z_trans z) 0 = Some f) by (rewrite Hfr; reflexivity).
  destruct (last_opt_nth _ _ Hl) as [Hln _].
  destruct (a_tr_facts z _ l F Hln) as (_ & HT & HO & Ccs & Cpcs & _).
  destruct (a_tr_facts z _ f F Hn0) as (_ & HTf & HOf & Ccsf & _ & _).
  pose proof (a_ob_bound z (length (z_trans z) - 1) F) as HB.
  change (2 ^ 60) with 1152921504606846976 in *. change (2 ^ 59) with 576460752303423488 in *.
  pose proof MX_big as MB. unfold max64 in MB.
  unfold make_shift_safe in Hs.
  apply orb_false_iff in Hs. destruct Hs as [Hext Hfit].
  apply negb_false_iff in Hext.
  pose proof Hfit as Hth. rewrite make_shift_threshold in Hth. change (max64 mod 400) with 207 in Hth.
  apply Z.leb_gt in Hth.
  unfold make_time. rewrite Hl, (nth_tr_some z 0 f Hn0). cbn [bind].
  assert (C : negb (lt64 civil_max64 (tr_cs f)) && le64 (tr_cs l) civil_max64 && lt64 (tr_pcs l) civil_max64
              && z_extended z && (z_last_year z <? fy civil_max64) = true).
  { unfold le64. rewrite Ccsf, Ccs, Cpcs, !lt_l, lt_r by exact valid_cmax. rewrite MX_eq, Hext.
    cbn [civil_max64 fy]. unfold max64. lia. }
  rewrite C. cbn [civil_max64 fy].
  destruct (Z_lt_le_dec (z_last_year z) 0) as [Hneg|Hpos].
  - unfold sub64, chk64. destruct (in64 (max64 - z_last_year z)) eqn:E; [|reflexivity].
    apply in64_spec in E. unfold int64 in E. lia.
  - replace (0 <=? z_last_year z) with true in Hfit by lia. cbn [andb] in Hfit. apply Z.leb_gt in Hfit.
    rewrite sub64_ok by azi. cbn [bind].
    rewrite sub64_ok by azi. cbn [bind].
    rewrite Z.quot_div_nonneg by (unfold max64; lia).
    pose proof (Z.mul_div_le (max64 - z_last_year z - 1) 400 ltac:(lia)) as D1.
    pose proof (Z.div_pos (max64 - z_last_year z - 1) 400 ltac:(unfold max64; lia) ltac:(lia)) as D0.
    set (q := (max64 - z_last_year z - 1) / 400) in *. clearbody q.
    rewrite add64_ok by azi. cbn [bind].
    unfold mul64, chk64. destruct (in64 ((q + 1) * -400)) eqn:E; [|reflexivity].
    apply in64_spec in E. unfold int64 in E. lia.
Qed.

(* 10b. hence, for an accepted zone, shift_safe is EXACTLY totality of lookup and conversion *)
Theorem c10_shift_safe_exact : forall bs z, load_bytes bs = OK (Some z) ->
  (shift_safe z = true <->
   (forall hint t, int64 t -> exists r, break_time z hint t = OK r) /\
   (forall hint cs, valid_fields cs = true -> int64 (fy cs) -> exists r, make_time z hint cs = OK r)).
Proof.
  intros bs z Hload. split.
  - intros Hs. destruct (c10_total_every_accepted_file bs z Hload Hs) as (A & B & _). split; assumption.
  - intros [A B]. unfold shift_safe. apply andb_true_iff. split.
    + destruct (break_shift_safe z) eqn:E; [reflexivity|].
      destruct (A 0 max64 ltac:(azi)) as [r Hr].
      rewrite (c10_break_shift_necessary bs z 0 Hload E) in Hr. discriminate.
    + destruct (make_shift_safe z) eqn:E; [reflexivity|].
      destruct (B 0 civil_max64 valid_cmax ltac:(cbn [civil_max64 fy]; azi)) as [r Hr].
      rewrite (c10_make_shift_necessary bs z 0 Hload E) in Hr. discriminate.
Qed.

(* 10c. concrete accepted files on which the unconditional statement fails (vm_compute) *)
Definition dst_footer : list Z := [83;84;68;53;68;83;84;44;77;51;46;50;46;48;44;77;49;49;46;49;46;48].
(* finding F9: no transition at all, one type STD/-5h, footer STD5DST,M3.2.0,M11.1.0: the 401 generated
   years start at the big bang, the 2^31-1 sentinel ends the table *)
Definition f9_file : list Z :=
  hdr' 0 0 0 ++ hdr' 0 1 4 ++ tt' (-18000) 0 0 ++ [83;84;68;0] ++ [10] ++ dst_footer ++ [10].
(* finding F9b: one transition on 1700-01-01T00:00:00Z, same footer: the generated table ends in 2100 *)
Definition f9b_file : list Z :=
  hdr' 0 0 0 ++ hdr' 1 2 8 ++ t64' (-8520336000) ++ [1]
  ++ tt' (-18000) 0 0 ++ tt' (-14400) 1 4 ++ [83;84;68;0;68;83;84;0] ++ [10] ++ dst_footer ++ [10].

Definition is_overflow {A} (r : res A) : bool := match r with Err Overflow => true | _ => false end.
Lemma is_overflow_sound {A} (r : res A) : is_overflow r = true -> r = Err Overflow.
Proof. destruct r as [a|[]]; try discriminate. reflexivity. Qed.

Definition break_overflows (bs : list Z) (ts : list Z) : bool :=
  match load_bytes bs with
  | OK (Some z) => forallb (fun t => in64 t && is_overflow (break_time z 0 t)) ts && negb (break_shift_safe z)
  | _ => false
  end.
Definition make_overflows (bs : list Z) (cs : fields) : bool :=
  match load_bytes bs with
  | OK (Some z) => valid_fields cs && in64 (fy cs) && is_overflow (make_time z 0 cs) && negb (make_shift_safe z)
  | _ => false
  end.

Lemma break_overflows_sound bs ts : break_overflows bs ts = true ->
  exists z, load_bytes bs = OK (Some z) /\ break_shift_safe z = false /\
    forall t, In t ts -> int64 t /\ break_time z 0 t = Err Overflow.
Proof.
  unfold break_overflows. destruct (load_bytes bs) as [[z|]|]; try discriminate.
  intros H. apply andb_true_iff in H. destruct H as [H1 H2]. apply negb_true_iff in H2.
  exists z. split; [reflexivity|]. split; [exact H2|]. intros t Ht.
  rewrite forallb_forall in H1. specialize (H1 t Ht). apply andb_true_iff in H1. destruct H1 as [A B].
  split; [apply in64_spec; exact A|apply is_overflow_sound; exact B].
Qed.

Lemma make_overflows_sound bs cs : make_overflows bs cs = true ->
  exists z, load_bytes bs = OK (Some z) /\ make_shift_safe z = false /\
    valid_fields cs = true /\ int64 (fy cs) /\ make_time z 0 cs = Err Overflow.
Proof.
  unfold make_overflows. destruct (load_bytes bs) as [[z|]|]; try discriminate.
  intros H. rewrite !andb_true_iff in H. destruct H as [[[H1 H2] H3] H4]. apply negb_true_iff in H4.
  exists z. split; [reflexivity|]. split; [exact H4|]. split; [exact H1|].
  split; [apply in64_spec; exact H2|apply is_overflow_sound; exact H3].
Qed.

(* F9: lookup(max()) and the instant of the known-findings text, lookup(9223372036854603007) *)
Lemma f9_break_overflows :
  exists z, load_bytes f9_file = OK (Some z) /\ break_shift_safe z = false /\
    forall t, In t [max64; 9223372036854603007] -> int64 t /\ break_time z 0 t = Err Overflow.
Proof. apply break_overflows_sound. vm_compute. reflexivity. Qed.

Lemma f9_make_overflows :
  exists z, load_bytes f9_file = OK (Some z) /\ make_shift_safe z = false /\
    valid_fields civil_max64 = true /\ int64 (fy civil_max64) /\ make_time z 0 civil_max64 = Err Overflow.
Proof. apply make_overflows_sound. vm_compute. reflexivity. Qed.

(* F9b: no sentinel involved; every instant of the last 96 years before max() (t >= max64 - 3031896607) *)
Lemma f9b_break_overflows :
  exists z, load_bytes f9b_file = OK (Some z) /\ break_shift_safe z = false /\
    forall t, In t [max64; max64 - 3000000000] -> int64 t /\ break_time z 0 t = Err Overflow.
Proof. apply break_overflows_sound. vm_compute. reflexivity. Qed.

Theorem c10_total_every_accepted_file_unconditional_refuted :
  ~ (forall bs z, load_bytes bs = OK (Some z) ->
       forall hint t, int64 t -> exists r, break_time z hint t = OK r).
Proof.
  intros H. destruct f9b_break_overflows as (z & Hload & _ & K).
  destruct (K max64 (or_introl eq_refl)) as [I E].
  destruct (H _ z Hload 0 max64 I) as [r Hr]. rewrite E in Hr. discriminate.
Qed.

Theorem c10_make_total_unconditional_refuted :
  ~ (forall bs z, load_bytes bs = OK (Some z) ->
       forall hint cs, valid_fields cs = true -> int64 (fy cs) -> exists r, make_time z hint cs = OK r).
Proof.
  intros H. destruct f9_make_overflows as (z & Hload & _ & V & I & E).
  destruct (H _ z Hload 0 civil_max64 V I) as [r Hr]. rewrite E in Hr. discriminate.
Qed.

(* the second half of C12 as literally stated ("load either fails or yields a zone on which every
   lookup, conversion and transition query is well-defined") is therefore false of the faithful model;
   true with shift_safe: c10_total_every_accepted_file *)
Theorem c12_every_query_defined_refuted :
  ~ (forall bs, all_bytes bs = true ->
       load_bytes bs = OK None \/
       exists z, load_bytes bs = OK (Some z) /\
         (forall hint t, int64 t -> exists r, break_time z hint t = OK r)).
Proof.
  intros H. destruct f9b_break_overflows as (z & Hload & _ & K).
  assert (B : all_bytes f9b_file = true) by (vm_compute; reflexivity).
  destruct (H f9b_file B) as [N|(z' & Hl' & T)]; [rewrite Hload in N; discriminate|].
  rewrite Hload in Hl'. inversion Hl'; subst z'.
  destruct (K max64 (or_introl eq_refl)) as [I E].
  destruct (T 0 max64 I) as [r Hr]. rewrite E in Hr. discriminate.
Qed.

(* ================================================================== *)
(* Part 11.  Non-vacuity: an accepted rule-extended file (New-York-like, C01Whole.nyc_file) and an
   accepted file without rule (C01Whole.r1_file) satisfy shift_safe; the five queries at the ends of
   both ranges, evaluated                                                *)

Definition fields_eqb' (a b : fields) : bool := fields_eqb a b.

Definition ends_probe (bs : list Z) (ext : bool) (cs_top cs_bot : fields) (off_top off_bot : Z) : bool :=
  match load_bytes bs with
  | OK (Some z) =>
      Bool.eqb (z_extended z) ext && shift_safe z &&
      match break_time z 0 max64, break_time z 0 min64 with
      | OK (a1, _), OK (a2, _) =>
          fields_eqb (al_cs a1) cs_top && (al_off a1 =? off_top) &&
          fields_eqb (al_cs a2) cs_bot && (al_off a2 =? off_bot) &&
          (* the civil seconds shown at max() and min() convert back exactly *)
          match convert_cs z 0 (al_cs a1), convert_cs z 0 (al_cs a2) with
          | OK v1, OK v2 => (v1 =? max64) && (v2 =? min64)
          | _, _ => false
          end
      | _, _ => false
      end &&
      match make_time z 0 civil_max64, make_time z 0 civil_min64 with
      | OK (c1, _), OK (c2, _) => (cl_pre c1 =? max64) && (cl_post c1 =? max64) && (cl_pre c2 =? min64) && (cl_post c2 =? min64)
      | _, _ => false
      end &&
      is_ok (next_transition z max64) && is_ok (prev_transition z max64) &&
      is_ok (next_transition z min64) && is_ok (prev_transition z min64)
  | _ => false
  end.

Example c10_nonvacuous_extended :
  ends_probe nyc_file true (mkF 292277026596 12 4 10 30 7) (mkF (-292277022657) 1 27 3 29 52) (-18000) (-18000) = true.
Proof. vm_compute. reflexivity. Qed.

Example c10_nonvacuous_not_extended :
  ends_probe r1_file false (mkF 292277026596 12 4 15 30 7) (mkF (-292277022657) 1 27 8 29 52) 0 0 = true.
Proof. vm_compute. reflexivity. Qed.

Example c10_nonvacuous_statement :
  exists z, load_bytes nyc_file = OK (Some z) /\ shift_safe z = true /\ z_extended z = true.
Proof.
  assert (H : ends_probe nyc_file true (mkF 292277026596 12 4 10 30 7) (mkF (-292277022657) 1 27 3 29 52) (-18000) (-18000) = true)
    by exact c10_nonvacuous_extended.
  unfold ends_probe in H. destruct (load_bytes nyc_file) as [[z|]|]; try discriminate.
  exists z. rewrite !andb_true_iff in H. destruct H as [[[[[[[H1 H2] _] _] _] _] _] _].
  apply Bool.eqb_prop in H1. auto.
Qed.

Example c10_nonvacuous_fixed : exists z, reset_to_builtin_utc 86400 = OK z /\
  res_fst (break_time z 0 max64) = OK (mkAL (mkF 292277026596 12 5 15 30 7) 86400 false [43; 50; 52]) /\
  convert_cs z 0 civil_max64 = OK max64 /\ convert_cs z 0 civil_min64 = OK min64 /\
  convert_cs z 0 (mkF 292277026596 12 5 15 30 7) = OK max64.
Proof. eexists. split; [vm_compute; reflexivity|]. vm_compute. repeat split; reflexivity. Qed.


(* the ends of both ranges, spelled out *)
Corollary c10_total_at_the_ends : forall bs z hint, load_bytes bs = OK (Some z) -> shift_safe z = true ->
  (exists r, break_time z hint min64 = OK r) /\ (exists r, break_time z hint max64 = OK r) /\
  (exists h', make_time z hint civil_min64 = OK (make_unique min64, h')) /\
  (exists k h', make_time z hint civil_max64 = OK (mkCL k max64 max64 max64, h')) /\
  convert_cs z hint civil_min64 = OK min64 /\ convert_cs z hint civil_max64 = OK max64 /\
  (exists r, next_transition z min64 = OK r) /\ (exists r, next_transition z max64 = OK r) /\
  (exists r, prev_transition z min64 = OK r) /\ (exists r, prev_transition z max64 = OK r).
Proof.
  intros bs z h Hload Hs. pose proof (accepted_afacts bs z Hload) as F.
  destruct (c10_total_every_accepted_file bs z Hload Hs) as (A & _ & _ & N & P).
  pose proof Hs as Hs'. unfold shift_safe in Hs'. apply andb_true_iff in Hs'. destruct Hs' as [_ Hm].
  assert (Imin : int64 min64) by azi. assert (Imax : int64 max64) by azi.
  destruct (a_make_huge z h civil_max64 F Hm valid_cmax) as [M1 C1];
    [cbn [civil_max64 fy]; azi|cbn [civil_max64 fy]; unfold huge_year, max64; lia|].
  destruct (a_make_tiny z h civil_min64 F valid_cmin) as [M2 C2];
    [cbn [civil_min64 fy]; azi|cbn [civil_min64 fy]; unfold tiny_year, min64; lia|].
  repeat split; auto.
Qed.

(* the hypotheses of c10_last_civil_second_extended as one boolean on the loaded zone *)
Definition last_second_hyps (z : zone) : bool :=
  match last_opt (z_trans z) with
  | None => false
  | Some l =>
      let k := (max64 - tr_time l) / P400 + 1 in
      let t' := max64 - k * P400 in
      let o := zoff (abs_zone z) t' in
      z_extended z && gaps_wide (zz_doff (abs_zone z)) (zz_tr (abs_zone z))
      && (fy (tr_cs l) =? z_last_year z) && (P400 <=? tr_time l) && (fy (tr_pcs l) <=? z_last_year z)
      && (z_last_year z - 400 <? fy (cos (t' + o))) && (fy (cos (t' + o)) <=? z_last_year z)
      && match zk (zmake (abs_zone z) (t' + o)) with ZU => true | _ => false end
  end.

Theorem c10_last_civil_second_extended_bool : forall bs z h, load_bytes bs = OK (Some z) ->
  last_second_hyps z = true ->
  exists cs o dst ab h', break_time z h max64 = OK (mkAL cs o dst ab, h') /\ convert_cs z h cs = OK max64.
Proof.
  intros bs z h Hload H. unfold last_second_hyps in H.
  destruct (last_opt (z_trans z)) as [l|] eqn:Hl; [|discriminate].
  cbv zeta in H. rewrite !andb_true_iff in H.
  destruct H as [[[[[[[Hext Hgw] HY] HP] HPY] A1] A2] HU].
  apply Z.eqb_eq in HY. apply Z.leb_le in HP. apply Z.leb_le in HPY. apply Z.ltb_lt in A1. apply Z.leb_le in A2.
  destruct (c10_last_civil_second_extended bs z h l Hload Hext Hl Hgw HY HP HPY (conj A1 A2))
    as ((h' & dst & ab & HB) & _ & _ & K).
  do 5 eexists. split; [exact HB|]. apply K.
  destruct (zk (zmake (abs_zone z) _)); [reflexivity|discriminate|discriminate].
Qed.

Example c10_nonvacuous_last_second_extended :
  exists z, load_bytes nyc_file = OK (Some z) /\ last_second_hyps z = true.
Proof.
  assert (H : match load_bytes nyc_file with OK (Some z) => last_second_hyps z | _ => false end = true)
    by (vm_compute; reflexivity).
  destruct (load_bytes nyc_file) as [[z|]|]; try discriminate. exists z. auto.
Qed.


(* ================================================================== *)
(* Part 13.  TimeZoneInfo::Load(name): a fixed-offset name or a file - the same totality *)

Lemma fixed_name_range s off : FixedOffsetFromName s = Some off -> -86400 <= off <= 86400.
Proof.
  intros H. destruct (fromname_only_if_lemma s off H) as [[_ ->]|[[_ ->]|SH]]; try lia.
  destruct SH as (sg & h1 & h2 & m1 & m2 & s1 & s2 & _ & Hsg & A & B & C & D & E & G & K).
  cbv zeta in K. destruct K as [K ->].
  destruct (sg =? 45); lia.
Qed.

Theorem c10_total_load_name : forall data name z, load_name data name = OK (Some z) -> shift_safe z = true ->
  (forall hint t, int64 t -> exists r, break_time z hint t = OK r) /\
  (forall hint cs, valid_fields cs = true -> int64 (fy cs) -> exists r, make_time z hint cs = OK r) /\
  (forall hint cs, valid_fields cs = true -> int64 (fy cs) -> exists r, convert_cs z hint cs = OK r) /\
  (forall t, int64 t -> exists r, next_transition z t = OK r) /\
  (forall t, int64 t -> exists r, prev_transition z t = OK r).
Proof.
  intros data name z H Hs. unfold load_name in H.
  destruct (FixedOffsetFromName name) as [off|] eqn:EN.
  - pose proof (fixed_name_range name off EN) as Ho.
    destruct (c10_total_fixed off Ho) as (z' & Hz' & _ & _ & B & M & C & N & P).
    rewrite Hz' in H. cbn [bind] in H. inversion H; subst z'. clear H.
    repeat split.
    + intros h t Ht. destruct (B h t Ht) as [h' E]. eexists; exact E.
    + intros h cs V I. destruct (M h cs V I) as [h' E]. eexists; exact E.
    + intros h cs V I. eexists; exact (C h cs V I).
    + intros t _. eexists; exact (N t).
    + intros t _. eexists; exact (P t).
  - destruct (data name) as [bytes|]; [|discriminate].
    exact (c10_total_every_accepted_file bytes z H Hs).
Qed.
Print Assumptions c10_total_every_accepted_file.
Print Assumptions c10_shift_safe_exact.
Print Assumptions c10_make_exact_table.
Print Assumptions c10_convert_saturates_table.
Print Assumptions c10_make_exact_future.
Print Assumptions c10_extreme_civil_seconds.
Print Assumptions c10_last_civil_second_exact.
Print Assumptions c10_total_fixed.
Print Assumptions c10_break_shift_necessary.
Print Assumptions c10_make_shift_necessary.
Print Assumptions f9_break_overflows.
Print Assumptions f9_make_overflows.
Print Assumptions f9b_break_overflows.
Print Assumptions c10_total_every_accepted_file_unconditional_refuted.
Print Assumptions c10_make_total_unconditional_refuted.
Print Assumptions c12_every_query_defined_refuted.
Print Assumptions c10_nonvacuous_extended.
Print Assumptions c10_nonvacuous_not_extended.
Print Assumptions c10_nonvacuous_fixed.
Print Assumptions c10_last_civil_second_extended.
Print Assumptions c10_total_at_the_ends.
Print Assumptions c10_total_load_name.
Print Assumptions c10_nonvacuous_last_second_extended.
Print Assumptions c10_last_civil_second_extended_bool.
