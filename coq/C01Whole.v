(* C01Whole.v - property C01 of google/cctz as ONE end-to-end theorem.

   Theorem c01_whole (Part 17):
     forall bs h a, parse_ast bs = Some (h, a) -> wf_ast h a = true -> c01_domain h a = true ->
     exists z, load_bytes bs = OK (Some z) /\
       forall hint t, int64 t -> exists al hint',
         break_time z hint t = OK (al, hint') /\
         spec_lookup (szone_of a) t = Some (mkSL (al_cs al) (al_off al) (al_dst al) (al_abbr al)).
   i.e. for every well-formed TZif byte string and EVERY int64 instant t, whatever the search hint,
   BreakTime on the zone that Load() builds reports exactly the offset / DST flag / abbreviation /
   civil fields that the file's data designates for t (ZoneSpec.spec_lookup: an independent reader
   of the bytes, the POSIX grammar, the footer rule evaluated on the calendar).

   Stages (all proved; `Print Assumptions` at the end: closed under the global context):
   A  load_parse_bytes  - the two readers decode the same bytes: load_bytes bs = load_checked h a;
      load_parse_agree  - a well-formed file in the domain is ACCEPTED, and the zone is described
                          from the AST: default type 0, the file's types with their designations
                          (+ the types GetTransitionType adds for the footer), transition table =
                          [big-bang] ++ file transitions ++ (402 generated years | 2^31-1 sentinel).
   B  b_break_table / b_break_future - BreakTime = the integer-level lookup for EVERY accepted file,
      WITHOUT the gaps_wide side condition of zone_ok (accepted_bfacts: the loader establishes what
      BreakTime needs); table_lookup - inside the table (incl. the generated window) the type in
      force is the one spec_info designates.
   C  far_lookup        - beyond the table of an extended zone: the shifted instant lands in the
                          generated window after the last file transition, and the rule's kind is
                          400-year periodic.
   D  c01_whole, c01_whole_loaded.

   The domain beyond wf_ast (c01_domain, four boolean clauses on the AST, Part 5).  Proving stage A
   showed that wf_ast alone does NOT imply acceptance / agreement; each clause is shown necessary by
   a machine-checked witness that is wf_ast and satisfies every other clause (Part 18):
     not_f9             known finding F9 (DST-rule footer, last transition before 1970 or none);
     (a former fifth clause no_dup_info - "no two types with the same designation under different
      abbreviation indices" - existed only because EquivTransitions compared abbreviation INDICES;
      since the C11 fix it compares the abbreviation TEXT, the clause is gone, and the former
      rejection witness is now r1_duplicate_designation_now_accepted: the same bytes load and
      BreakTime agrees with spec_lookup);
     index_space_ok     r4_index_space_rejected: 255 types none of which is the footer's => rejected
                        (8-bit type / abbreviation index space of GetTransitionType);
     footer_offsets_ok  r2_two_day_seam_rejected: wf_ast's two-day seam (seam_ok) is not enough when the
                        footer's offset is below -24h (ParsePosixSpec admits -24:59:59 / -25:59:59):
                        the civil seconds go backwards at the seam => rejected;
     rule_tame          every rule instant of year Y lies in UTC year Y, a day clear of both New Years
                        (checked on 400 years, extended to all years by periodicity).
                        Upper margin - r3_rule_spill_disagrees: footer AAA0BBB,J363/167,J365/167 (the
                        instants of year Y fall in January Y+1): accepted, and at 2000-01-06T12:00:00Z
                        BreakTime says AAA/+0 while spec_lookup says BBB/+1h (ExtendTransitions starts
                        at the local year of the last transition and misses the previous year's
                        instants; spec_info looks at years Y-1..Y+1).
                        Lower margin - r5_back_mapping_before_seam_disagrees: footer AAA0BBB,J1/0,J1/4,
                        last transition 2000-01-01T05:00Z at -6h: at 2400-01-01T03:00:00Z BreakTime's
                        400-year back-mapping lands BEFORE the file's last transition and reports the
                        file's earlier type CCC/-6h; the rule designates AAA/+0.
   c01_whole_nonvacuous: a New-York-like file with a DST rule is in the domain.
   Everything is proved; nothing is admitted. *)
From CCTZ Require Import Base SrcConstants Cal CivilImpl FixedImpl PosixImpl PosixSpec ZoneLoad ZoneImpl ZoneZ ZoneHist
  ZoneRefineDefs ZoneSpec.
From CCTZ Require Import CalProofs WeekdayProofs CivilNorm CivilDiff ZoneSelect ZoneZProofs PosixProofs RuleProofs LoadSafe ZoneRefine
  LoadCert FutureDefs FutureProofs.
Require Import Lia ZifyBool.
Local Open Scope Z_scope.

Local Ltac Zify.zify_post_hook ::= idtac.
Local Notation cos := civil_of_seconds.
Local Strategy 100 [civil_of_seconds civil_of_days days_from_civil].


(* ================================================================== *)
(* Part 1.  BreakTime = the integer-level lookup, WITHOUT the gap side
   condition of zone_ok (BreakTime never looks at the civil order).     *)

Record bfacts (z : zone) : Prop := mkBF {
  bf_types : forall ty, In ty (z_types z) -> type_ok z ty = true;
  bf_dflt : idx_ok z (z_default z) = true;
  bf_trs : forall tr, In tr (z_trans z) ->
     idx_ok z (tr_type tr) = true /\ - 2 ^ 59 <= tr_time tr <= 2 ^ 60;
  bf_civ : civils_ok z (doff z) (z_trans z) = true;
  bf_ti : times_increasing (absl z) = true;
  bf_last : exists l, last_opt (z_trans z) = Some l /\ 0 <= tr_time l;
  bf_first : exists f r, z_trans z = f :: r /\ tr_time f < 0
}.

Lemma struct_bfacts z : zone_struct_ok z = true -> times_increasing (absl z) = true -> bfacts z.
Proof.
  unfold zone_struct_ok. rewrite !andb_true_iff.
  intros [[[[[[H1 H2] H3] H4] H5] H7] H8] TI.
  split.
  - rewrite forallb_forall in H2. exact H2.
  - exact H3.
  - rewrite forallb_forall in H4. intros tr Hin. specialize (H4 tr Hin).
    rewrite !andb_true_iff, !Z.leb_le in H4. tauto.
  - exact H5.
  - exact TI.
  - destruct (last_opt (z_trans z)) as [l|]; [|discriminate].
    exists l. split; auto. apply Z.leb_le; exact H7.
  - destruct (z_trans z) as [|f r]; [discriminate|].
    exists f, r. split; auto. apply Z.ltb_lt; exact H8.
Qed.

Lemma accepted_bfacts bs z : load_bytes bs = OK (Some z) -> bfacts z.
Proof.
  intros H. apply struct_bfacts.
  - exact (load_establishes_structure_lemma _ _ H).
  - exact (load_times_increasing_lemma _ _ H).
Qed.

Lemma bf_st z : bfacts z -> sortedK zt_time (absl z).
Proof. intros F. apply ti_sorted. exact (bf_ti z F). Qed.

Lemma b_type_facts z i : bfacts z -> idx_ok z i = true ->
  exists ty, nth_res (z_types z) i = OK ty /\ tt_off ty = off_of z i /\
    -93599 <= off_of z i <= 93599 /\
    0 <= tt_abbr ty <= Z.of_nat (length (z_abbrs z)).
Proof.
  intros F Hi. unfold idx_ok in Hi. rewrite andb_true_iff, Z.leb_le, Z.ltb_lt in Hi.
  unfold nth_res, off_of.
  destruct (Z.ltb_spec i 0); [lia|].
  destruct (nth_error (z_types z) (Z.to_nat i)) as [ty|] eqn:E.
  2:{ apply nth_error_None in E. lia. }
  exists ty. split; [reflexivity|]. split; [reflexivity|].
  pose proof (bf_types z F ty (nth_error_In _ _ E)) as T.
  unfold type_ok in T. rewrite !andb_true_iff, !Z.leb_le, !fields_eqb_eq in T.
  destruct T as [[[[[T1 T2] T3] T4] T5] T6]. repeat split; auto.
Qed.

Lemma b_off_bound z i : bfacts z -> idx_ok z i = true -> -93599 <= off_of z i <= 93599.
Proof. intros F Hi. destruct (b_type_facts z i F Hi) as (ty & _ & _ & H & _). exact H. Qed.

Lemma b_tr_facts z i tr : bfacts z -> nth_error (z_trans z) i = Some tr ->
  idx_ok z (tr_type tr) = true /\ - 2 ^ 59 <= tr_time tr <= 2 ^ 60 /\
  -93599 <= off_of z (tr_type tr) <= 93599 /\
  tr_cs tr = cos (tr_time tr + off_of z (tr_type tr)) /\
  nth_error (absl z) i = Some (absf z tr).
Proof.
  intros F Hn.
  destruct (bf_trs z F tr (nth_error_In _ _ Hn)) as [A B].
  destruct (civils_nth z _ _ _ _ (bf_civ z F) Hn) as [C D].
  repeat split; auto; try lia.
  - apply b_off_bound; auto.
  - apply b_off_bound; auto.
  - rewrite absl_nth, Hn. reflexivity.
Qed.

Lemma b_times_sorted z : bfacts z -> times_sorted_l (z_trans z) = true.
Proof. intros F. apply (times_sorted_of_ti z). exact (bf_ti z F). Qed.

Lemma b_nearby_transition z t k tr : bfacts z -> int64 t ->
  upper_idx (absl z) t = S k -> nth_error (z_trans z) k = Some tr ->
  tr_time tr <= t /\ int64 (t - tr_time tr).
Proof.
  intros F Ht Hk Hn.
  destruct (b_tr_facts z k tr F Hn) as (_ & HT & _ & _ & Na).
  pose proof (bf_st z F) as ST.
  pose proof (upper_idx_char (absl z) t ST k _ Na) as C. cbn [absf zt_time] in C.
  assert (tr_time tr <= t) as Hle by (apply C; lia).
  split; [exact Hle|].
  destruct (Z_lt_le_dec (tr_time tr) 0) as [Hneg|Hpos].
  2:{ unfold int64, min64, max64 in *. lia. }
  destruct (bf_last z F) as (l & Hl & Hl0).
  destruct (last_opt_nth _ _ Hl) as [Hln Hlen].
  assert (S k < length (z_trans z))%nat as Hlt.
  { pose proof (nth_some_lt _ _ _ Hn) as H1.
    destruct (Nat.eq_dec (S k) (length (z_trans z))) as [E|E]; [|lia].
    replace (length (z_trans z) - 1)%nat with k in Hln by lia.
    assert (l = tr) by congruence. subst. lia. }
  destruct (nth_lt_some (z_trans z) (S k) Hlt) as [tr' Hn'].
  destruct (b_tr_facts z (S k) tr' F Hn') as (_ & HT' & _ & _ & Na').
  pose proof (upper_idx_char (absl z) t ST (S k) _ Na') as C'. cbn [absf zt_time] in C'.
  assert (t < tr_time tr') by lia.
  unfold int64, min64, max64 in *. lia.
Qed.

Lemma b_local_time_tr_ok z t k tr : bfacts z -> int64 t ->
  upper_idx (absl z) t = S k -> nth_error (z_trans z) k = Some tr ->
  exists dst ab,
    local_time_tr z t tr = OK (mkAL (cos (t + off_of z (tr_type tr))) (off_of z (tr_type tr)) dst ab)
    /\ info_of z (tr_type tr) = OK (dst, ab).
Proof.
  intros F Ht Hk Hn.
  destruct (b_nearby_transition z t k tr F Ht Hk Hn) as [Hle Hd].
  destruct (b_tr_facts z k tr F Hn) as (Hi & HT & HO & Ccs & _).
  destruct (b_type_facts z _ F Hi) as (ty & Hty & Eoff & _ & Hab).
  exists (tt_isdst ty), (c_str (skipn (Z.to_nat (tt_abbr ty)) (z_abbrs z))).
  unfold local_time_tr, info_of. rewrite Hty. cbn [bind].
  unfold sub64. rewrite chk64_in by exact Hd. cbn [bind].
  rewrite Ccs.
  rewrite plus_cos.
  - cbn [bind]. rewrite cstr_from_ok by exact Hab. cbn [bind]. rewrite Eoff.
    split; [|reflexivity]. do 3 f_equal. lia.
  - unfold SB. lia.
  - exact Hd.
  - unfold SB, int64, min64, max64 in *. lia.
Qed.

Lemma b_zbreak_abs z t :
  match upper_idx (absl z) t with
  | O => (doff z, z_default z)
  | S k => match nth_error (absl z) k with
           | Some tr => (zt_off tr, zt_id tr)
           | None => (doff z, z_default z)
           end
  end = (zoff (abs_zone z) t, zid (abs_zone z) t).
Proof.
  rewrite abs_zone_eq. unfold zoff, zid. cbn [zz_tr zz_doff zz_did]. apply zbreak_list.
Qed.

Lemma b_break_noext_ok z t : bfacts z -> int64 t ->
  exists h' dst ab,
    break_time_noext z 0 t =
      OK (mkAL (cos (t + zoff (abs_zone z) t)) (zoff (abs_zone z) t) dst ab, h')
    /\ info_of z (zid (abs_zone z) t) = OK (dst, ab).
Proof.
  intros F Ht.
  destruct (bf_first z F) as (f & r & Hfr & Hf0).
  destruct (bf_last z F) as (l & Hl & Hl0).
  destruct (last_opt_nth _ _ Hl) as [Hln Hlen].
  pose proof (b_zbreak_abs z t) as ZB.
  pose proof (bf_st z F) as ST.
  assert (Hn0 : nth_error (z_trans z) 0 = Some f) by (rewrite Hfr; reflexivity).
  unfold break_time_noext. rewrite (nth_tr_some z 0 f Hn0), Hl. cbn [bind].
  destruct (Z.ltb_spec t (tr_time f)) as [Hlt|Hge].
  - assert (upper_idx (absl z) t = O) as E0.
    { unfold absl. rewrite Hfr. cbn [map upper_idx absf zt_time].
      destruct (Z.ltb_spec t (tr_time f)); [reflexivity|lia]. }
    rewrite E0 in ZB. cbv beta iota in ZB. apply pair_equal_spec in ZB.
    destruct ZB as [Eo Ei]. rewrite <- Ei, <- Eo.
    destruct (b_type_facts z _ F (bf_dflt z F)) as (ty & Hty & Eoff & HO & Hab).
    fold (doff z) in Eoff, HO. rewrite <- Eoff in *.
    rewrite Hty. cbn [bind].
    rewrite local_time_tt_ok by (try exact Ht; try exact Hab; lia). cbn [bind].
    exists 0, (tt_isdst ty), (c_str (skipn (Z.to_nat (tt_abbr ty)) (z_abbrs z))).
    split; [reflexivity|].
    unfold info_of. rewrite Hty. cbn [bind]. rewrite cstr_from_ok by exact Hab. reflexivity.
  - assert (exists k, upper_idx (absl z) t = S k) as [k Hk].
    { destruct (upper_idx (absl z) t) eqn:E; [|eauto].
      destruct (b_tr_facts z 0 f F Hn0) as (_ & _ & _ & _ & Na).
      pose proof (upper_idx_char (absl z) t ST 0%nat _ Na) as C. cbn [absf zt_time] in C. lia. }
    pose proof (upper_idx_le (absl z) t) as Hle. rewrite absl_length in Hle.
    destruct (nth_lt_some (z_trans z) k ltac:(lia)) as [tr Hn].
    destruct (b_local_time_tr_ok z t k tr F Ht Hk Hn) as (dst & ab & HL & HI).
    rewrite Hk in ZB. rewrite absl_nth, Hn in ZB. cbn [option_map absf zt_off zt_id] in ZB.
    cbv beta iota in ZB. apply pair_equal_spec in ZB.
    destruct ZB as [Eo Ei]. rewrite <- Ei, <- Eo.
    destruct (Z.leb_spec (tr_time l) t) as [Hlast|Hin].
    + assert (k = (length (z_trans z) - 1)%nat) as Ek.
      { destruct (Nat.eq_dec (S k) (length (z_trans z))) as [E|E]; [lia|]. exfalso.
        destruct (b_tr_facts z _ l F Hln) as (_ & _ & _ & _ & Na).
        pose proof (upper_idx_char (absl z) t ST _ _ Na) as C. cbn [absf zt_time] in C.
        rewrite Hk in C. lia. }
      rewrite <- Ek in Hln. assert (l = tr) by congruence. subst l.
      rewrite HL. cbn [bind]. exists 0, dst, ab. split; [reflexivity|exact HI].
    + unfold break_inner. change (0 <? 0) with false. cbn [andb bind].
      rewrite bound_search_ok by (apply times_sorted_part_ub; apply b_times_sorted; exact F).
      cbn [bind]. rewrite (pp_upper_idx z). fold (absl z). rewrite Hk.
      rewrite (nth_tr_some z k tr Hn). cbn [bind]. rewrite HL. cbn [bind].
      eexists _, dst, ab. split; [reflexivity|exact HI].
Qed.

(* every t when the zone is not extended, t below the last entry otherwise *)
Lemma b_break_table z h t : bfacts z -> int64 t ->
  (z_extended z = false \/ (forall l, last_opt (z_trans z) = Some l -> t < tr_time l)) ->
  exists h' dst ab,
    break_time z h t = OK (mkAL (cos (t + zoff (abs_zone z) t)) (zoff (abs_zone z) t) dst ab, h')
    /\ info_of z (zid (abs_zone z) t) = OK (dst, ab).
Proof.
  intros F Ht Hext.
  destruct (b_break_noext_ok z t F Ht) as (h0 & dst & ab & HB & HI).
  assert (break_time z 0 t = break_time_noext z 0 t) as E0.
  { destruct (bf_first z F) as (f & r & Hfr & _).
    destruct (bf_last z F) as (l & Hl & _).
    assert (Hn0 : nth_error (z_trans z) 0 = Some f) by (rewrite Hfr; reflexivity).
    unfold break_time. rewrite Hl, (nth_tr_some z 0 f Hn0). cbn [bind].
    assert (negb (t <? tr_time f) && (tr_time l <=? t) && z_extended z = false) as ->; [|reflexivity].
    destruct Hext as [He|He].
    - rewrite He. apply andb_false_r.
    - specialize (He l Hl). destruct (Z.leb_spec (tr_time l) t); [lia|].
      rewrite andb_false_r. reflexivity. }
  pose proof (break_time_hint z h t (b_times_sorted z F)) as Hh.
  rewrite E0, HB in Hh. cbn [res_fst] in Hh.
  destruct (res_fst_OK _ _ Hh) as [h' Hr].
  exists h', dst, ab. split; [exact Hr|exact HI].
Qed.

Lemma b_zoff_bound z t : bfacts z -> -93599 <= zoff (abs_zone z) t <= 93599.
Proof.
  intros F. pose proof (b_zbreak_abs z t) as ZB.
  destruct (upper_idx (absl z) t) as [|k].
  - apply pair_equal_spec in ZB. destruct ZB as [<- _]. apply b_off_bound; [exact F|exact (bf_dflt z F)].
  - rewrite absl_nth in ZB. destruct (nth_error (z_trans z) k) as [tr|] eqn:E; cbn [option_map] in ZB.
    + apply pair_equal_spec in ZB. destruct ZB as [<- _]. cbn [absf zt_off].
      destruct (b_tr_facts z k tr F E) as (_ & _ & H & _). exact H.
    + apply pair_equal_spec in ZB. destruct ZB as [<- _]. apply b_off_bound; [exact F|exact (bf_dflt z F)].
Qed.

Ltac zi'' := unfold int64, min64, max64, SB in *; lia.

Lemma b_break_ext_core z t l f q : bfacts z -> z_extended z = true ->
  last_opt (z_trans z) = Some l -> nth_error (z_trans z) 0 = Some f -> tr_time f < 0 ->
  12622780800 <= tr_time l -> tr_time l <= 1152921504606846976 -> int64 t -> tr_time l <= t ->
  Z.quot (t - tr_time l) 12622780800 = q ->
  12622780800 * q <= t - tr_time l < 12622780800 * q + 12622780800 ->
  exists h' dst ab,
    break_time z 0 t = OK (mkAL (cos (t + zoff (abs_zone z) (t - (q + 1) * 12622780800)))
                                (zoff (abs_zone z) (t - (q + 1) * 12622780800)) dst ab, h')
    /\ info_of z (zid (abs_zone z) (t - (q + 1) * 12622780800)) = OK (dst, ab).
Proof.
  intros F Hext Hl Hn0 Hf0 HP HT Ht Hge Hq Hdiv.
  set (t' := t - (q + 1) * 12622780800) in *.
  assert (Ht' : int64 t') by zi''.
  destruct (b_break_noext_ok z t' F Ht') as (h0 & dst & ab & HB & HI).
  pose proof (b_zoff_bound z t' F) as HO.
  set (off := zoff (abs_zone z) t') in *.
  exists h0, dst, ab. split; [|exact HI].
  unfold break_time. rewrite Hl, (nth_tr_some z 0 f Hn0). cbn [bind].
  replace (negb (t <? tr_time f) && (tr_time l <=? t) && z_extended z) with true by (rewrite Hext; lia).
  rewrite k400_val.
  rewrite sub64_ok by zi''. cbn [bind].
  rewrite Hq.
  rewrite add64_ok by zi''. cbn [bind].
  rewrite mul64_ok by zi''. cbn [bind].
  rewrite sub64_ok by zi''. cbn [bind]. fold t'.
  replace (negb (t' <? tr_time f) && (tr_time l <=? t')) with false by (unfold t'; lia).
  rewrite HB. cbn [bind]. cbv beta iota.
  rewrite mul64_ok by zi''. cbn [bind al_cs al_off al_dst al_abbr].
  replace ((q + 1) * 400) with (400 * (q + 1)) by lia.
  pose proof (cos_period (t' + off) (q + 1)) as CP. cbv zeta in CP.
  replace (t' + off + 146097 * 86400 * (q + 1)) with (t + off) in CP by (unfold t'; lia).
  rewrite year_shift_ok.
  - cbn [bind]. rewrite CP. reflexivity.
  - apply valid_cos.
  - assert (int64 (fy (cos (t + off)))) as Y by (apply year_ok; zi'').
    rewrite CP in Y. cbn [fy] in Y. exact Y.
Qed.

Lemma b_break_future z h t l : bfacts z -> z_extended z = true -> last_opt (z_trans z) = Some l ->
  P400 <= tr_time l -> int64 t -> tr_time l <= t ->
  let k := (t - tr_time l) / P400 + 1 in
  exists h' dst ab,
    break_time z h t = OK (mkAL (cos (t + zoff (abs_zone z) (t - k * P400)))
                                (zoff (abs_zone z) (t - k * P400)) dst ab, h')
    /\ info_of z (zid (abs_zone z) (t - k * P400)) = OK (dst, ab)
    /\ tr_time l - P400 <= t - k * P400 < tr_time l.
Proof.
  intros F Hext Hl HP Ht Hge. rewrite P400_val in *. intros k.
  destruct (bf_first z F) as (f & r & Hfr & Hf0).
  assert (Hn0 : nth_error (z_trans z) 0 = Some f) by (rewrite Hfr; reflexivity).
  destruct (last_opt_nth _ _ Hl) as [Hln _].
  destruct (b_tr_facts z _ l F Hln) as (_ & HT & _).
  assert (2 ^ 60 = 1152921504606846976) as E60 by reflexivity. rewrite E60 in HT.
  assert (Hk : k = (t - tr_time l) / 12622780800 + 1) by reflexivity. clearbody k.
  assert (Hq : Z.quot (t - tr_time l) 12622780800 = (t - tr_time l) / 12622780800)
    by (apply Z.quot_div_nonneg; lia).
  pose proof (Z.mul_div_le (t - tr_time l) 12622780800 ltac:(lia)) as D1.
  pose proof (Z.mul_succ_div_gt (t - tr_time l) 12622780800 ltac:(lia)) as D2.
  set (q := (t - tr_time l) / 12622780800) in *. clearbody q. subst k.
  destruct (b_break_ext_core z t l f q F Hext Hl Hn0 Hf0 HP ltac:(lia) Ht Hge Hq ltac:(lia))
    as (h0 & dst & ab & HB & HI).
  pose proof (break_time_hint z h t (b_times_sorted z F)) as Hh.
  rewrite HB in Hh. cbn [res_fst] in Hh.
  destruct (res_fst_OK _ _ Hh) as [h' Hr].
  exists h', dst, ab. split; [exact Hr|]. split; [exact HI|]. lia.
Qed.


(* ================================================================== *)
(* Part 2.  The two readers decode the same bytes                       *)

Definition mk_types0 (tys : list (Z * bool * Z)) : list ttype :=
  map (fun ty => mkTT (fst (fst ty)) epoch epoch (snd (fst ty)) (snd ty)) tys.

(* Load() from the point where the data block has been decoded *)
Definition load_tail (hdr : header) (times idxs : list Z) (types0 : list ttype) (abbrs : list Z)
           (footer : option (list Z)) : res (option zone) :=
  if negb (strictly_increasing times) || negb (forallb time_in_range times) then OK None else
  if negb (forallb (fun i => i <? h_typecnt hdr) idxs) then OK None else
  let seen_type_0 := existsb (fun i => i =? 0) idxs in
  if negb (forallb (fun ty => (tt_off ty <? src_kSecsPerDay) && (- src_kSecsPerDay <? tt_off ty)
                              && (tt_abbr ty <? h_charcnt hdr)) types0)
  then OK None else
  do dflt <-
    (if seen_type_0 && negb (h_timecnt hdr =? 0) then
       do t0 <- nth_res types0 0 ;;
       do i1 <- (if tt_isdst t0 then dflt_down 257 types0 (nthZ idxs 0) else OK 0) ;;
       do i2 <- dflt_up (S (length types0)) types0 (h_typecnt hdr) i1 ;;
       OK (if negb (i2 =? h_typecnt hdr) && (i2 <=? 255) then i2 else 0)
     else OK 0) ;;
  match footer with
  | None => OK None
  | Some future =>
    let trans0 := map (fun '(t, i) => mkTr t i epoch epoch) (combine times idxs) in
    let trans1 :=
      match trans0 with
      | [] => [mkTr big_bang dflt epoch epoch]
      | tr :: _ => if 0 <=? tr_time tr then mkTr big_bang dflt epoch epoch :: trans0 else trans0
      end in
    do ext <- extend_transitions trans1 types0 abbrs future ;;
    match ext with
    | None => OK None
    | Some (trans2, types1, abbrs1, extended, last_year) =>
      do last <- match last_opt trans2 with Some x => OK x | None => Err OOB end ;;
      let trans3 :=
        if tr_time last <? 0 then trans2 ++ [mkTr src_second_half_sentinel (tr_type last) epoch epoch]
        else trans2 in
      do dtt <- nth_res types1 dflt ;;
      do cp <- civil_pass abbrs1 types1 dtt None trans3 [] ;;
      match cp with
      | None => OK None
      | Some trans4 =>
        do types2 <- set_civil_limits abbrs1 types1 ;;
        OK (Some (mkZone trans4 types2 dflt abbrs1 future extended last_year))
      end
    end
  end.

Definition load_checked (hdr : header) (a : ast) : res (option zone) :=
  if h_typecnt hdr =? 0 then OK None
  else if negb (h_leapcnt hdr =? 0) then OK None
  else if negb (h_isstdcnt hdr =? 0) && negb (h_isstdcnt hdr =? h_typecnt hdr) then OK None
  else if negb (h_isutcnt hdr =? 0) && negb (h_isutcnt hdr =? h_typecnt hdr) then OK None
  else load_tail hdr (a_times a) (a_idx a) (mk_types0 (a_types a)) (a_abbr a) (Some (a_footer a)).

Lemma nth_firstn_lt {A} (d : A) : forall n i (l : list A), (i < n)%nat -> nth i (firstn n l) d = nth i l d.
Proof.
  induction n as [|n IH]; intros i l H; [lia|].
  destruct l as [|x l]; [destruct i; reflexivity|].
  destruct i as [|i]; [reflexivity|]. cbn [firstn nth]. apply IH. lia.
Qed.

Lemma read_n_version src tzh rest : read_n 44 src = Some (tzh, rest) -> version_of tzh = nthZ src 4.
Proof.
  intros H. destruct (read_n_inv _ _ _ _ H) as (E1 & _ & _). subst tzh. unfold version_of, nthZ.
  generalize (Z.to_nat 44) (eq_refl : (4 <? Z.to_nat 44)%nat = true). intros n Hn.
  apply Nat.ltb_lt in Hn. apply nth_firstn_lt. exact Hn.
Qed.

Lemma skip_z_read_n n src a b : read_n n src = Some (a, b) -> skip_z n src = b.
Proof.
  intros H. destruct (read_n_inv _ _ _ _ H) as (_ & E2 & _). subst b.
  unfold read_n in H. destruct (Z.ltb_spec (Z.of_nat (length src)) n); [discriminate|].
  unfold skip_z.
  destruct (Z.leb_spec (Z.of_nat (length src)) n); [|reflexivity].
  symmetry. apply skipn_all2. lia.
Qed.

Lemma mk_types0_chunks (l : list (list Z)) :
  mk_types0 (map (fun c => (decode32 (firstn 4 c), negb (nthZ c 4 =? 0), nthZ c 5)) l)
  = map (fun c => mkTT (decode32 (firstn 4 c)) epoch epoch (negb (nthZ c 4 =? 0)) (nthZ c 5)) l.
Proof. unfold mk_types0. rewrite map_map. reflexivity. Qed.

Lemma load_parse_bytes bs h a : parse_ast bs = Some (h, a) -> load_bytes bs = load_checked h a.
Proof.
  unfold parse_ast. intros H.
  destruct (Z.eqb_spec (nthZ bs 4) 0) as [V|V].
  - (* version 1 *)
    destruct (parse_block bs 4) as [[[[[[h1 times] idx] types] abbr] rest]|] eqn:PB; [|discriminate].
    inversion H; subst h a. clear H.
    unfold parse_block in PB.
    destruct (read_n 44 bs) as [[tzh src1]|] eqn:R1; [|discriminate].
    destruct (magic_ok tzh) eqn:M1; cbn [negb] in PB; [|discriminate].
    destruct (header_build tzh) as [hh|] eqn:HB; [|discriminate].
    destruct (read_n (data_length hh 4) src1) as [[buf rest']|] eqn:R2; [|discriminate].
    cbv zeta in PB. inversion PB; subst h1 times idx types abbr rest. clear PB.
    unfold load_bytes. rewrite R1, M1. cbn [negb]. rewrite HB.
    rewrite (read_n_version _ _ _ R1), V. cbn [Z.eqb negb].
    unfold load_checked.
    destruct (h_typecnt hh =? 0); [reflexivity|].
    destruct (negb (h_leapcnt hh =? 0)); [reflexivity|].
    destruct (negb (h_isstdcnt hh =? 0) && negb (h_isstdcnt hh =? h_typecnt hh)); [reflexivity|].
    destruct (negb (h_isutcnt hh =? 0) && negb (h_isutcnt hh =? h_typecnt hh)); [reflexivity|].
    rewrite R2. cbn [a_times a_idx a_types a_abbr a_footer].
    rewrite mk_types0_chunks. reflexivity.
  - destruct (parse_block bs 4) as [[[[[[h1 times1] idx1] types1] abbr1] rest]|] eqn:PB1; [|discriminate].
    destruct (parse_block rest 8) as [[[[[[h2 times] idx] types] abbr] rest2]|] eqn:PB2; [|discriminate].
    destruct (Z.eqb_spec (nthZ rest 4) 0) as [V2|V2]; [discriminate|].
    destruct (footer_read rest2) as [f|] eqn:FR; [|discriminate].
    inversion H; subst h a. clear H.
    unfold parse_block in PB1.
    destruct (read_n 44 bs) as [[tzh src1]|] eqn:R1; [|discriminate].
    destruct (magic_ok tzh) eqn:M1; cbn [negb] in PB1; [|discriminate].
    destruct (header_build tzh) as [hh1|] eqn:HB1; [|discriminate].
    destruct (read_n (data_length hh1 4) src1) as [[buf1 rest1']|] eqn:R2; [|discriminate].
    cbv zeta in PB1. inversion PB1; subst h1 times1 idx1 types1 abbr1 rest. clear PB1.
    unfold parse_block in PB2.
    destruct (read_n 44 rest1') as [[tzh2 src3]|] eqn:R3; [|discriminate].
    destruct (magic_ok tzh2) eqn:M2; cbn [negb] in PB2; [|discriminate].
    destruct (header_build tzh2) as [hh2|] eqn:HB2; [|discriminate].
    destruct (read_n (data_length hh2 8) src3) as [[buf2 rest2']|] eqn:R4; [|discriminate].
    cbv zeta in PB2. inversion PB2; subst h2 times idx types abbr rest2. clear PB2.
    unfold load_bytes. rewrite R1, M1. cbn [negb]. rewrite HB1.
    rewrite (read_n_version _ _ _ R1).
    destruct (Z.eqb_spec (nthZ bs 4) 0) as [X|_]; [contradiction|]. cbn [negb].
    rewrite (skip_z_read_n _ _ _ _ R2), R3, M2. cbn [negb].
    rewrite (read_n_version _ _ _ R3).
    destruct (Z.eqb_spec (nthZ rest1' 4) 0) as [X|_]; [contradiction|].
    rewrite HB2.
    unfold load_checked.
    destruct (h_typecnt hh2 =? 0); [reflexivity|].
    destruct (negb (h_leapcnt hh2 =? 0)); [reflexivity|].
    destruct (negb (h_isstdcnt hh2 =? 0) && negb (h_isstdcnt hh2 =? h_typecnt hh2)); [reflexivity|].
    destruct (negb (h_isutcnt hh2 =? 0) && negb (h_isutcnt hh2 =? h_typecnt hh2)); [reflexivity|].
    rewrite R4. cbn [a_times a_idx a_types a_abbr a_footer].
    rewrite mk_types0_chunks.
    destruct (Z.eqb_spec (nthZ rest1' 4) 0) as [X|_]; [contradiction|]. cbn [negb].
    rewrite FR. reflexivity.
Qed.


(* ================================================================== *)
(* Part 3.  Type tables: the designation (utoff, isdst, abbreviation) of
   a type index, on both sides; GetTransitionType                        *)

Definition tinf (abbrs : list Z) (ty : ttype) : tinfo :=
  (tt_off ty, tt_isdst ty, c_str (skipn (Z.to_nat (tt_abbr ty)) abbrs)).

Definition tyinfo (types : list ttype) (abbrs : list Z) (i : Z) : option tinfo :=
  match (if i <? 0 then None else nth_error types (Z.to_nat i)) with
  | Some ty => Some (tinf abbrs ty)
  | None => None
  end.

Lemma tyinfo_types0 a i : tyinfo (mk_types0 (a_types a)) (a_abbr a) i = type_info a i.
Proof.
  unfold tyinfo, type_info, mk_types0. destruct (i <? 0); [reflexivity|].
  rewrite nth_error_map. destruct (nth_error (a_types a) (Z.to_nat i)) as [[[o d] ai]|]; reflexivity.
Qed.

Lemma tyinfo_nth types abbrs i ty : 0 <= i -> nth_error types (Z.to_nat i) = Some ty ->
  tyinfo types abbrs i = Some (tinf abbrs ty).
Proof. intros H E. unfold tyinfo. destruct (Z.ltb_spec i 0); [lia|]. rewrite E. reflexivity. Qed.

Lemma tyinfo_inv types abbrs i x : tyinfo types abbrs i = Some x ->
  0 <= i < Z.of_nat (length types) /\ exists ty, nth_error types (Z.to_nat i) = Some ty /\ x = tinf abbrs ty.
Proof.
  unfold tyinfo. destruct (Z.ltb_spec i 0); [discriminate|].
  destruct (nth_error types (Z.to_nat i)) as [ty|] eqn:E; [|discriminate].
  intros Hx. inversion Hx; subst. pose proof (nth_some_lt _ _ _ E). split; [lia|]. eauto.
Qed.

(* ---- c_str and extension of the abbreviation table ---- *)
Lemma c_str_app_nul u x : c_str ((u ++ [0]) ++ x) = c_str (u ++ [0]).
Proof.
  induction u as [|c u IH]; [reflexivity|]. cbn [app c_str]. rewrite IH. reflexivity.
Qed.

Lemma skipn_app_le {A} (l1 l2 : list A) n : (n <= length l1)%nat -> skipn n (l1 ++ l2) = skipn n l1 ++ l2.
Proof.
  intros H. rewrite skipn_app. replace (n - length l1)%nat with 0%nat by lia. reflexivity.
Qed.

Lemma c_str_skipn_ext s x i : (i <= length s)%nat ->
  c_str (skipn i ((s ++ [0]) ++ x)) = c_str (skipn i (s ++ [0])).
Proof.
  intros H. rewrite skipn_app_le by (rewrite app_length; cbn [length]; lia).
  rewrite (skipn_app_le s [0]) by lia. apply c_str_app_nul.
Qed.

Lemma c_str_new abbrs abbr : PosixSpec.nul_free abbr = true ->
  c_str (skipn (length abbrs) (abbrs ++ abbr ++ [0])) = abbr.
Proof.
  intros H. rewrite skipn_app, skipn_all, Nat.sub_diag. cbn [app skipn].
  apply c_str_app0. exact H.
Qed.

Definition tab_ok (types : list ttype) (abbrs : list Z) : Prop :=
  Forall (fun ty => 0 <= tt_abbr ty < Z.of_nat (length abbrs)) types /\
  (exists s, abbrs = s ++ [0]) /\ Forall off_ok types.

Definition aidx_ok (abbrs abbr : list Z) (ai : Z) : Prop :=
  ai = Z.of_nat (length abbrs) \/
  (0 <= ai < Z.of_nat (length abbrs) /\ c_str (skipn (Z.to_nat ai) abbrs) = abbr).

Lemma gtt_scan_char abbrs off isdst abbr : forall types ti ai,
  Forall (fun ty => 0 <= tt_abbr ty < Z.of_nat (length abbrs)) types -> aidx_ok abbrs abbr ai ->
  exists ti' ai', gtt_scan types abbrs off isdst abbr ti ai = OK (ti', ai') /\ aidx_ok abbrs abbr ai' /\
    ((exists k ty, nth_error types k = Some ty /\ ti' = ti + Z.of_nat k /\
        tinf abbrs ty = (off, isdst, abbr) /\ ai' = tt_abbr ty /\
        (forall k' ty', (k' < k)%nat -> nth_error types k' = Some ty' -> tinf abbrs ty' <> (off, isdst, abbr)))
     \/ (ti' = ti + Z.of_nat (length types) /\
         forall ty', In ty' types -> tinf abbrs ty' <> (off, isdst, abbr))).
Proof.
  induction types as [|ty rest IH]; intros ti ai F A.
  - exists ti, ai. split; [reflexivity|]. split; [exact A|]. right. cbn [length]. split; [lia|].
    intros ty' [].
  - inversion F as [|? ? Hty F']; subst. cbn [gtt_scan].
    rewrite cstr_from_ok by lia. cbn [bind].
    set (str := c_str (skipn (Z.to_nat (tt_abbr ty)) abbrs)).
    set (ai1 := if list_eqb str abbr then tt_abbr ty else ai).
    assert (A1 : aidx_ok abbrs abbr ai1).
    { unfold ai1. destruct (list_eqb str abbr) eqn:E; [|exact A].
      apply list_eqb_eq in E. right. split; [lia|exact E]. }
    assert (Hstr : ai1 = tt_abbr ty -> str = abbr).
    { unfold ai1. destruct (list_eqb str abbr) eqn:E; [intros _; apply list_eqb_eq; exact E|].
      intros Ea. destruct A as [A|[_ A]]; [lia|]. rewrite Ea in A. exact A. }
    destruct ((tt_off ty =? off) && Bool.eqb (tt_isdst ty) isdst && (ai1 =? tt_abbr ty)) eqn:C.
    + apply andb_true_iff in C. destruct C as [C C3]. apply andb_true_iff in C. destruct C as [C1 C2].
      apply Z.eqb_eq in C1, C3. apply Bool.eqb_prop in C2.
      exists ti, ai1. split; [reflexivity|]. split; [exact A1|]. left.
      exists 0%nat, ty. split; [reflexivity|]. split; [lia|]. split.
      * unfold tinf. fold str. rewrite C1, C2, (Hstr C3). reflexivity.
      * split; [exact C3|]. intros k' ty' Hk. exfalso. lia.
    + assert (Nty : tinf abbrs ty <> (off, isdst, abbr)).
      { intros E. unfold tinf in E. fold str in E. inversion E as [[E1 E2 E3]].
        assert (ai1 = tt_abbr ty) as Ea.
        { unfold ai1. rewrite E3. replace (list_eqb abbr abbr) with true; [reflexivity|].
          symmetry. apply list_eqb_eq. reflexivity. }
        rewrite E1, E2, Ea, !Z.eqb_refl, Bool.eqb_reflx in C. discriminate C. }
      destruct (IH (ti + 1) ai1 F' A1) as (ti' & ai' & E & A' & D).
      exists ti', ai'. split; [exact E|]. split; [exact A'|].
      destruct D as [(k & ty0 & Hn & Et & Ei & Ea & Hm)|[Et Hall]].
      * left. exists (S k), ty0. split; [exact Hn|]. split; [lia|]. split; [exact Ei|].
        split; [exact Ea|]. intros k' ty' Hk Hn'. destruct k' as [|k'].
        -- cbn [nth_error] in Hn'. inversion Hn'; subst. exact Nty.
        -- apply (Hm k' ty'); [lia|exact Hn'].
      * right. split; [cbn [length]; lia|]. intros ty' [<-|Hin]; [exact Nty|apply Hall; exact Hin].
Qed.

Lemma tab_ok_abbr_ok types abbrs : tab_ok types abbrs -> Forall (abbr_ok abbrs) types.
Proof.
  intros (F & _ & _). eapply Forall_impl; [|exact F]. intros ty H. cbv beta in H. unfold abbr_ok. lia.
Qed.

(* GetTransitionType: finds the first type with the wanted designation, or appends one *)
Lemma gtt_char types abbrs off isdst abbr :
  tab_ok types abbrs -> PosixSpec.nul_free abbr = true -> -100000 <= off <= 100000 ->
  Z.of_nat (length types) <= 255 -> Z.of_nat (length abbrs) <= 255 ->
  exists types' abbrs' ti,
    get_transition_type types abbrs off isdst abbr = OK (Some (types', abbrs', ti)) /\
    tab_ok types' abbrs' /\
    (length types' <= S (length types))%nat /\
    (length abbrs' <= length abbrs + length abbr + 1)%nat /\
    (exists ex, types' = types ++ ex) /\
    tyinfo types' abbrs' ti = Some (off, isdst, abbr) /\
    (forall i, 0 <= i < Z.of_nat (length types) -> tyinfo types' abbrs' i = tyinfo types abbrs i) /\
    (forall j, tyinfo types abbrs j = Some (off, isdst, abbr) ->
       types' = types /\ abbrs' = abbrs /\ 0 <= ti <= j).
Proof.
  intros (F & (s & Es) & Fo) Hnf Hoff HL1 HL2.
  unfold get_transition_type.
  destruct (gtt_scan_char abbrs off isdst abbr types 0 (Z.of_nat (length abbrs)) F
              (or_introl eq_refl)) as (ti' & ai' & E & A' & D).
  rewrite E. cbn [bind].
  assert (Hai : 0 <= ai' <= Z.of_nat (length abbrs)) by (destruct A' as [->|[? _]]; lia).
  destruct D as [(k & ty & Hn & Et & Ei & Ea & Hm)|[Et Hall]].
  - (* found *)
    pose proof (nth_some_lt _ _ _ Hn) as Hk.
    replace ((255 <? ti') || (255 <? ai')) with false by lia.
    replace (ti' =? Z.of_nat (length types)) with false by lia.
    exists types, abbrs, ti'. split; [reflexivity|]. split; [repeat split; eauto|].
    split; [lia|]. split; [lia|]. split; [exists []; rewrite app_nil_r; reflexivity|]. split.
    + rewrite (tyinfo_nth types abbrs ti' ty) by (try lia; replace (Z.to_nat ti') with k by lia; exact Hn).
      rewrite Ei. reflexivity.
    + split; [intros; reflexivity|].
      intros j Hj. split; [reflexivity|]. split; [reflexivity|].
      destruct (tyinfo_inv _ _ _ _ Hj) as (Rj & tyj & Hnj & Ej).
      destruct (Z_lt_le_dec j ti') as [L|L]; [|lia]. exfalso.
      apply (Hm (Z.to_nat j) tyj); [lia|exact Hnj|]. symmetry. exact Ej.
  - (* not found: a new type (and possibly a new abbreviation) *)
    replace ((255 <? ti') || (255 <? ai')) with false by lia.
    replace (ti' =? Z.of_nat (length types)) with true by lia.
    set (abbrs' := if ai' =? Z.of_nat (length abbrs) then abbrs ++ abbr ++ [0] else abbrs).
    set (nt := mkTT off epoch epoch isdst ai').
    assert (Hext : exists ax, abbrs' = abbrs ++ ax /\ (length ax <= length abbr + 1)%nat).
    { unfold abbrs'. destruct (ai' =? Z.of_nat (length abbrs)).
      - exists (abbr ++ [0]). split; [reflexivity|]. rewrite app_length. cbn [length]. lia.
      - exists []. rewrite app_nil_r. split; [reflexivity|cbn [length]; lia]. }
    destruct Hext as (ax & Eax & Lax).
    assert (Hold : forall i, (i <= length s)%nat -> c_str (skipn i abbrs') = c_str (skipn i abbrs)).
    { intros i Hi. rewrite Eax, Es. apply c_str_skipn_ext. exact Hi. }
    assert (Hlen : length abbrs = S (length s)) by (rewrite Es, app_length; cbn [length]; lia).
    assert (Hnew : c_str (skipn (Z.to_nat ai') abbrs') = abbr /\ 0 <= ai' < Z.of_nat (length abbrs')).
    { unfold abbrs'. destruct (Z.eqb_spec ai' (Z.of_nat (length abbrs))) as [Eq|Ne].
      - rewrite Eq, Nat2Z.id. split; [apply c_str_new; exact Hnf|].
        rewrite !app_length. cbn [length]. lia.
      - destruct A' as [A'|[A1 A2]]; [lia|]. split; [exact A2|lia]. }
    exists (types ++ [nt]), abbrs', ti'. split; [reflexivity|].
    split.
    { split; [|split].
      - apply Forall_app. split.
        + eapply Forall_impl; [|exact F]. intros ty Hty. cbv beta in *. rewrite Eax, app_length. lia.
        + constructor; [|constructor]. unfold nt. cbn [tt_abbr]. tauto.
      - unfold abbrs'. destruct (ai' =? Z.of_nat (length abbrs)).
        + exists (abbrs ++ abbr). rewrite <- app_assoc. reflexivity.
        + exists s. exact Es.
      - apply Forall_app. split; [exact Fo|]. constructor; [|constructor].
        unfold off_ok, nt. cbn [tt_off]. lia. }
    split; [rewrite app_length; cbn [length]; lia|].
    split; [rewrite Eax, app_length; lia|].
    split; [exists [nt]; reflexivity|].
    split.
    { rewrite (tyinfo_nth _ _ ti' nt) by
        (try lia; rewrite Et; replace (Z.to_nat (0 + Z.of_nat (length types))) with (length types) by lia;
         rewrite nth_error_app2, Nat.sub_diag by lia; reflexivity).
      unfold tinf, nt. cbn [tt_off tt_isdst tt_abbr]. rewrite (proj1 Hnew). reflexivity. }
    split.
    { intros i Hi. unfold tyinfo. destruct (Z.ltb_spec i 0); [lia|].
      rewrite nth_error_app1 by lia.
      destruct (nth_error types (Z.to_nat i)) as [ty|] eqn:En; [|reflexivity].
      unfold tinf. rewrite Hold; [reflexivity|].
      rewrite Forall_forall in F. pose proof (F ty (nth_error_In _ _ En)). cbv beta in *. lia. }
    intros j Hj. exfalso.
    destruct (tyinfo_inv _ _ _ _ Hj) as (Rj & tyj & Hnj & Ej).
    apply (Hall tyj (nth_error_In _ _ Hnj)). symmetry. exact Ej.
Qed.


(* ================================================================== *)
(* Part 4a.  The abbreviations a grammatical footer yields are made of
   the footer's own characters (hence NUL-free)                          *)

Lemma take_until_gt_incl : forall s a rest, take_until_gt s = Some (a, rest) -> incl a s /\ incl rest s.
Proof.
  induction s as [|c s IH]; intros a rest H; [discriminate|]. cbn [take_until_gt] in H.
  destruct (c =? 62).
  - inversion H; subst. split; [intros x []|apply incl_tl, incl_refl].
  - destruct (take_until_gt s) as [[a0 r0]|]; [|discriminate]. inversion H; subst.
    destruct (IH _ _ eq_refl) as [I1 I2]. split.
    + intros x [<-|Hx]; [left; reflexivity|right; apply I1; exact Hx].
    + apply incl_tl. exact I2.
Qed.

Lemma take_while_incl f : forall s a rest, take_while f s = (a, rest) -> incl a s /\ incl rest s.
Proof.
  induction s as [|c s IH]; intros a rest H; cbn [take_while] in H.
  - inversion H; subst. split; apply incl_refl.
  - destruct (f c).
    + destruct (take_while f s) as [a0 r0]. inversion H; subst.
      destruct (IH _ _ eq_refl) as [I1 I2]. split.
      * intros x [<-|Hx]; [left; reflexivity|right; apply I1; exact Hx].
      * apply incl_tl. exact I2.
    + inversion H; subst. split; [intros x []|apply incl_refl].
Qed.

Lemma g_abbr_incl s a rest : g_abbr s = Some (a, rest) -> incl a s /\ incl rest s.
Proof.
  unfold g_abbr. rewrite m60.
  assert (D : (let '(a0, rest0) := take_while abbr_char s in
               if 3 <=? Z.of_nat (length a0) then Some (a0, rest0) else None) = Some (a, rest) ->
              incl a s /\ incl rest s).
  { destruct (take_while abbr_char s) as [a0 r0] eqn:E.
    destruct (3 <=? Z.of_nat (length a0)); [|discriminate]. intros H; inversion H; subst.
    exact (take_while_incl _ _ _ _ E). }
  destruct s as [|c r]; [exact D|].
  destruct (c =? 60); [|exact D].
  intros H. destruct (take_until_gt_incl _ _ _ H) as [I1 I2].
  split; apply incl_tl; assumption.
Qed.

Lemma take_digits_incl : forall s ds rest, take_digits s = (ds, rest) -> incl rest s.
Proof.
  induction s as [|c s IH]; intros ds rest H; cbn [take_digits] in H.
  - inversion H; subst. apply incl_refl.
  - destruct (is_digit c).
    + destruct (take_digits s) as [d0 r0]. inversion H; subst. apply incl_tl. exact (IH _ _ eq_refl).
    + inversion H; subst. apply incl_refl.
Qed.

Lemma g_num_incl s lo hi v rest : g_num s lo hi = Some (v, rest) -> incl rest s.
Proof.
  unfold g_num. destruct (take_digits s) as [ds r0] eqn:E. destruct ds as [|d ds]; [discriminate|].
  destruct ((lo <=? _) && (_ <=? hi)); [|discriminate]. intros H; inversion H; subst.
  exact (take_digits_incl _ _ _ E).
Qed.

Lemma g_hms_incl s hmax sign v rest : g_hms s hmax sign = Some (v, rest) -> incl rest s.
Proof.
  unfold g_hms. rewrite m43_45.
  set (P := match s with [] => _ | c :: r0 => _ end).
  assert (HP : incl (snd P) s).
  { unfold P. destruct s as [|c r0]; [apply incl_refl|].
    destruct (c =? 43); [apply incl_tl, incl_refl|].
    destruct (c =? 45); [apply incl_tl, incl_refl|apply incl_refl]. }
  destruct P as [sg s1]. cbn [snd] in HP.
  destruct (g_num s1 0 hmax) as [[hh s2]|] eqn:E1; [|discriminate].
  apply g_num_incl in E1. rewrite m58.
  assert (I2 : incl s2 s) by (eapply incl_tran; eassumption).
  destruct s2 as [|c2 r2]; [intros H; inversion H; subst; exact I2|].
  destruct (c2 =? 58); [|intros H; inversion H; subst; exact I2].
  destruct (g_num r2 0 59) as [[mm s3]|] eqn:E2; [|discriminate].
  apply g_num_incl in E2. rewrite m58.
  assert (I3 : incl s3 s).
  { eapply incl_tran; [exact E2|]. eapply incl_tran; [|exact I2]. apply incl_tl, incl_refl. }
  destruct s3 as [|c3 r3]; [intros H; inversion H; subst; exact I3|].
  destruct (c3 =? 58); [|intros H; inversion H; subst; exact I3].
  destruct (g_num r3 0 59) as [[ss s4]|] eqn:E3; [|discriminate].
  apply g_num_incl in E3.
  intros H; inversion H; subst.
  eapply incl_tran; [exact E3|]. eapply incl_tran; [|exact I3]. apply incl_tl, incl_refl.
Qed.

Lemma nul_free_incl a s : incl a s -> PosixSpec.nul_free s = true -> PosixSpec.nul_free a = true.
Proof.
  unfold PosixSpec.nul_free. rewrite !forallb_forall. intros I H x Hx. apply H, I, Hx.
Qed.

Lemma posix_abbr_nul_free f p : PosixSpec.nul_free f = true -> posix_spec f = Some p ->
  PosixSpec.nul_free (std_abbr p) = true /\ PosixSpec.nul_free (dst_abbr p) = true.
Proof.
  intros NF. rewrite posix_spec_unf. destruct (deref f =? 58); [discriminate|].
  unfold spec_body.
  destruct (g_abbr f) as [[sa s1]|] eqn:A1; [|discriminate].
  destruct (g_abbr_incl _ _ _ A1) as [Ia I1].
  destruct (g_hms s1 24 (-1)) as [[so s2]|] eqn:SO; [|discriminate].
  pose proof (g_hms_incl _ _ _ _ _ SO) as I2.
  destruct s2 as [|c2 r2].
  - intros H; inversion H. cbn [std_abbr dst_abbr]. split; [|reflexivity].
    exact (nul_free_incl _ _ Ia NF).
  - destruct (g_abbr (c2 :: r2)) as [[da s3]|] eqn:A2; [|discriminate].
    destruct (g_abbr_incl _ _ _ A2) as [Id _].
    destruct (spec_off so s3) as [[dof s4]|]; [|discriminate].
    destruct (g_rule s4) as [[r1 s5]|]; [|discriminate].
    destruct (g_rule s5) as [[r2' s6]|]; [|discriminate].
    destruct s6; [|discriminate].
    intros H; inversion H. cbn [std_abbr dst_abbr]. split.
    + exact (nul_free_incl _ _ Ia NF).
    + apply (nul_free_incl da f); [|exact NF].
      eapply incl_tran; [exact Id|]. eapply incl_tran; [exact I2|exact I1].
Qed.

(* ---- AllYearDST = its specification on every determined rule ---- *)
Lemma all_year_dst_agrees p so dof : pt_ok (dst_start p) -> pt_ok (dst_end p) ->
  std_offset p = Some so -> dst_offset p = Some dof ->
  all_year_dst p = OK (all_year_dst_spec p).
Proof.
  intros (d1 & t1 & E1 & _) (d2 & t2 & E2 & _) Eso Edo.
  unfold all_year_dst, all_year_dst_spec. rewrite E1, E2, Eso, Edo. cbn [pt_date pt_time get_opt bind].
  destruct d1 as [n|n|m w wd]; try reflexivity.
  destruct (Z.eqb_spec n 0) as [->|Nn]; cbn [negb].
  2:{ destruct n as [|q|q]; try reflexivity; contradiction. }
  destruct (Z.eqb_spec t1 0) as [->|Nt]; cbn [negb].
  2:{ destruct t1 as [|q|q]; try reflexivity; contradiction. }
  destruct d2 as [j|j|m w wd]; try reflexivity.
  change (nthZ src_kDaysPerYear 0) with 365. change src_kSecsPerDay with 86400.
  destruct (Z.eqb_spec j 365) as [->|Nj]; cbn [negb]; [reflexivity|].
  destruct j as [|q|q]; try reflexivity.
  do 9 (destruct q as [q|q|]; try reflexivity). contradiction.
Qed.


(* ================================================================== *)
(* Part 5.  What the parse and wf_ast give                              *)

Lemma parse_block_len src tl h times idx types abbr rest : tl = 4 \/ tl = 8 ->
  parse_block src tl = Some (h, times, idx, types, abbr, rest) ->
  hdr_ok h /\ length times = Z.to_nat (h_timecnt h) /\ length idx = Z.to_nat (h_timecnt h) /\
  length types = Z.to_nat (h_typecnt h) /\ length abbr = Z.to_nat (h_charcnt h).
Proof.
  intros Htl. unfold parse_block.
  destruct (read_n 44 src) as [[tzh src1]|]; [|discriminate].
  destruct (negb (magic_ok tzh)); [discriminate|].
  destruct (header_build tzh) as [hh|] eqn:HB; [|discriminate].
  destruct (read_n (data_length hh tl) src1) as [[buf rest']|] eqn:R; [|discriminate].
  cbv zeta. intros H. inversion H; subst h times idx types abbr rest. clear H.
  pose proof (header_build_inv _ _ HB) as HO. split; [exact HO|].
  destruct (read_n_inv _ _ _ _ R) as (_ & _ & LB).
  unfold hdr_ok in HO. unfold data_length in LB.
  rewrite !map_length, !chunks_length, !firstn_length, !skipn_length, LB.
  destruct Htl as [-> | ->].
  - change (Z.to_nat 4) with 4%nat. lia.
  - change (Z.to_nat 8) with 8%nat. lia.
Qed.

Lemma parse_ast_len bs h a : parse_ast bs = Some (h, a) ->
  hdr_ok h /\ length (a_times a) = Z.to_nat (h_timecnt h) /\ length (a_idx a) = Z.to_nat (h_timecnt h) /\
  length (a_types a) = Z.to_nat (h_typecnt h) /\ length (a_abbr a) = Z.to_nat (h_charcnt h).
Proof.
  unfold parse_ast. destruct (nthZ bs 4 =? 0).
  - destruct (parse_block bs 4) as [[[[[[h1 times] idx] types] abbr] rest]|] eqn:PB; [|discriminate].
    intros H; inversion H; subst. cbn [a_times a_idx a_types a_abbr].
    exact (parse_block_len _ _ _ _ _ _ _ _ (or_introl eq_refl) PB).
  - destruct (parse_block bs 4) as [[[[[[h1 times1] idx1] types1] abbr1] rest]|]; [|discriminate].
    destruct (parse_block rest 8) as [[[[[[h2 times] idx] types] abbr] rest2]|] eqn:PB; [|discriminate].
    destruct (nthZ rest 4 =? 0); [discriminate|].
    destruct (footer_read rest2); [|discriminate].
    intros H; inversion H; subst. cbn [a_times a_idx a_types a_abbr].
    exact (parse_block_len _ _ _ _ _ _ _ _ (or_intror eq_refl) PB).
Qed.

(* ---- the domain of the whole-file theorem beyond wf_ast ---- *)


(* ---- wf_ast, unpacked ---- *)
Record wfp (h : header) (a : ast) : Prop := mkWFP {
  w_ty1 : 1 <= h_typecnt h <= 256;
  w_leap : h_leapcnt h = 0;
  w_std : h_isstdcnt h = 0 \/ h_isstdcnt h = h_typecnt h;
  w_ut : h_isutcnt h = 0 \/ h_isutcnt h = h_typecnt h;
  w_inc : strictly_increasing (a_times a) = true;
  w_lo : forall t, In t (a_times a) -> big_bang <= t;
  w_hi : forall t, In t (a_times a) -> t <= 2 ^ 59;
  w_idx : forall i, In i (a_idx a) -> 0 <= i < h_typecnt h;
  w_types : forall o d ai, In (o, d, ai) (a_types a) -> -86400 < o < 86400 /\ 0 <= ai < h_charcnt h;
  w_fc : footer_consistent (szone_of a) = true;
  w_fr : footer_rule_ok (szone_of a) = true;
  w_dflt : existsb (fun i => i =? 0) (a_idx a) = false \/ default_type_spec a = 0;
  w_nul : exists s, a_abbr a = s ++ [0];
  w_bb : match a_times a, a_idx a with
         | t0 :: _, i0 :: _ =>
             if t0 =? big_bang then
               match type_info a i0, type_info a (sz_default (szone_of a)) with
               | Some x, Some y => tinfo_eqb x y
               | _, _ => false
               end
             else true
         | _, _ => true
         end = true;
  w_gaps : gaps_ok (szone_of a) (a_times a) = true
}.

Lemma wf_wfp h a : wf_ast h a = true -> wfp h a.
Proof.
  unfold wf_ast. cbv zeta. rewrite !andb_true_iff.
  intros [[[[[[[[[[[[[[[H1 H2] H3] H4] H5] H6] H7] H8] H9] H10] H11] H12] H13] H14] H15] H16].
  split; try assumption.
  - lia.
  - lia.
  - lia.
  - lia.
  - rewrite forallb_forall in H7. intros t Ht. specialize (H7 t Ht). lia.
  - rewrite forallb_forall in H8. intros t Ht. specialize (H8 t Ht). lia.
  - rewrite forallb_forall in H9. intros i Hi. specialize (H9 i Hi). lia.
  - rewrite forallb_forall in H10. intros o d ai Hi. specialize (H10 _ Hi). cbv beta iota in H10. lia.
  - apply orb_true_iff in H13. destruct H13 as [H13|H13]; [left; apply negb_true_iff; exact H13|right; lia].
  - destruct (rev (a_abbr a)) as [|c r] eqn:E; [discriminate|].
    exists (rev r). rewrite <- (rev_involutive (a_abbr a)), E. cbn [rev].
    replace c with 0 by lia. reflexivity.
Qed.

Lemma default_zero h a : wfp h a -> default_type_spec a = 0.
Proof.
  intros W. destruct (w_dflt h a W) as [D|D]; [|exact D].
  unfold default_type_spec. rewrite D. reflexivity.
Qed.


(* ================================================================== *)
(* Part 6.  The default type: cctz's search agrees with the designated type 0 *)

Lemma types0_nth a k : 0 <= k < Z.of_nat (length (a_types a)) ->
  exists ty, nth_res (mk_types0 (a_types a)) k = OK ty /\ tt_isdst ty = is_dst_type a k.
Proof.
  intros H. unfold nth_res, is_dst_type, type_info, mk_types0.
  destruct (Z.ltb_spec k 0); [lia|]. rewrite nth_error_map.
  destruct (nth_error (a_types a) (Z.to_nat k)) as [[[o d] ai]|] eqn:E.
  - eexists. split; [reflexivity|]. reflexivity.
  - apply nth_error_None in E. lia.
Qed.

Lemma search_down_std a : forall n i, search_down a n = Some i -> is_dst_type a i = false.
Proof.
  induction n as [|n IH]; intros i H; [discriminate|]. cbn [search_down] in H.
  destruct (is_dst_type a (Z.of_nat n)) eqn:E; [apply IH; exact H|]. inversion H; subst. exact E.
Qed.

Lemma search_up_std a : forall n i j, search_up a i n = Some j -> is_dst_type a j = false.
Proof.
  induction n as [|n IH]; intros i j H; [discriminate|]. cbn [search_up] in H.
  destruct (is_dst_type a i) eqn:E; [eapply IH; exact H|]. inversion H; subst. exact E.
Qed.

Lemma search_up_none a : forall n i, search_up a i n = None ->
  forall k, i <= k < i + Z.of_nat n -> is_dst_type a k = true.
Proof.
  induction n as [|n IH]; intros i H k Hk; [lia|]. cbn [search_up] in H.
  destruct (is_dst_type a i) eqn:E; [|discriminate].
  destruct (Z.eq_dec k i) as [->|Ne]; [exact E|]. apply (IH (i + 1) H). lia.
Qed.

Lemma dflt_down_all_dst types : forall fuel index,
  (forall k, 0 < k <= index -> exists ty, nth_res types k = OK ty /\ tt_isdst ty = true) ->
  0 <= index < Z.of_nat fuel -> dflt_down fuel types index = OK 0.
Proof.
  induction fuel as [|fuel IH]; intros index H Hi; [lia|]. cbn [dflt_down].
  destruct (Z.eqb_spec index 0) as [->|Ne]; [reflexivity|].
  destruct (H index ltac:(lia)) as (ty & E & D). rewrite E. cbn [bind]. rewrite D.
  apply IH; [|lia]. intros k Hk. apply H. lia.
Qed.

Lemma dflt_up_all_dst types typecnt : forall fuel index,
  (forall k, index <= k < typecnt -> exists ty, nth_res types k = OK ty /\ tt_isdst ty = true) ->
  index <= typecnt < index + Z.of_nat fuel -> dflt_up fuel types typecnt index = OK typecnt.
Proof.
  induction fuel as [|fuel IH]; intros index H Hi; [lia|]. cbn [dflt_up].
  destruct (Z.eqb_spec index typecnt) as [->|Ne]; [reflexivity|].
  destruct (H index ltac:(lia)) as (ty & E & D). rewrite E. cbn [bind]. rewrite D.
  apply IH; [|lia]. intros k Hk. apply H. lia.
Qed.

Lemma dflt_run h a : wfp h a -> length (a_types a) = Z.to_nat (h_typecnt h) ->
  (if existsb (fun i => i =? 0) (a_idx a) && negb (h_timecnt h =? 0) then
     do t0 <- nth_res (mk_types0 (a_types a)) 0 ;;
     do i1 <- (if tt_isdst t0 then dflt_down 257 (mk_types0 (a_types a)) (nthZ (a_idx a) 0) else OK 0) ;;
     do i2 <- dflt_up (S (length (mk_types0 (a_types a)))) (mk_types0 (a_types a)) (h_typecnt h) i1 ;;
     OK (if negb (i2 =? h_typecnt h) && (i2 <=? 255) then i2 else 0)
   else OK 0) = OK 0.
Proof.
  intros W LT. pose proof (w_ty1 h a W) as T1.
  destruct (existsb (fun i => i =? 0) (a_idx a)) eqn:SE; [|reflexivity]. cbn [andb].
  destruct (negb (h_timecnt h =? 0)); [|reflexivity].
  assert (D0 : default_type_spec a = 0) by (destruct (w_dflt h a W) as [D|D]; [congruence|exact D]).
  assert (Len : Z.of_nat (length (a_types a)) = h_typecnt h) by lia.
  destruct (types0_nth a 0 ltac:(lia)) as (t0 & E0 & Dst0). rewrite E0. cbn [bind].
  assert (Lm : length (mk_types0 (a_types a)) = length (a_types a)) by (unfold mk_types0; apply map_length).
  destruct (tt_isdst t0) eqn:Dt.
  - (* type 0 is DST: the designated default is 0 only if every type is DST *)
    unfold default_type_spec in D0. rewrite SE in D0. cbn [negb] in D0.
    set (first := nthZ (a_idx a) 0) in *.
    assert (Hfirst : 0 <= first < h_typecnt h).
    { unfold first, nthZ. destruct (a_idx a) as [|i0 r] eqn:Ei; [discriminate SE|]. cbn [nth].
      apply (w_idx h a W). rewrite Ei. left. reflexivity. }
    assert (All : forall k, 0 <= k < h_typecnt h -> is_dst_type a k = true).
    { destruct (if is_dst_type a first then search_down a (Z.to_nat first) else None) as [i|] eqn:Dn.
      - exfalso. subst i. destruct (is_dst_type a first); [|discriminate Dn].
        apply search_down_std in Dn. congruence.
      - destruct (search_up a 0 (length (a_types a))) as [i|] eqn:Up.
        + exfalso. subst i. apply search_up_std in Up. congruence.
        + intros k Hk. apply (search_up_none a _ _ Up). lia. }
    assert (AllT : forall k, 0 <= k < h_typecnt h ->
              exists ty, nth_res (mk_types0 (a_types a)) k = OK ty /\ tt_isdst ty = true).
    { intros k Hk. destruct (types0_nth a k ltac:(lia)) as (ty & E & D). exists ty. split; [exact E|].
      rewrite D. apply All. exact Hk. }
    rewrite dflt_down_all_dst.
    2:{ intros k Hk. apply AllT. lia. }
    2:{ change (Z.of_nat 257) with 257. lia. }
    cbn [bind]. rewrite dflt_up_all_dst.
    2:{ intros k Hk. apply AllT. lia. }
    2:{ rewrite Lm. lia. }
    cbn [bind]. rewrite Z.eqb_refl. reflexivity.
  - cbn [bind]. cbn [dflt_up].
    destruct (Z.eqb_spec 0 (h_typecnt h)) as [E|_]; [lia|].
    rewrite E0. cbn [bind]. rewrite Dt. cbn [bind].
    destruct (negb (0 =? h_typecnt h) && (0 <=? 255)); reflexivity.
Qed.


(* ================================================================== *)
(* Part 7.  ExtendTransitions on a well-formed file                     *)

Definition tr_pair (tr : transition) : Z * Z := (tr_time tr, tr_type tr).
Definition mk_tr0 (p : Z * Z) : transition := mkTr (fst p) (snd p) epoch epoch.

Lemma tr_pair_mk_tr0 l : map tr_pair (map mk_tr0 l) = l.
Proof.
  rewrite map_map. rewrite <- (map_id l) at 2. apply map_ext. intros [t i]. reflexivity.
Qed.

Lemma last_opt_cons2 {A} (x y : A) r : last_opt (x :: y :: r) = last_opt (y :: r).
Proof.
  unfold last_opt. cbn [rev]. destruct (rev r) as [|z r']; reflexivity.
Qed.

Lemma last_opt_single {A} (x : A) : last_opt [x] = Some x.
Proof. reflexivity. Qed.

Lemma last_opt_combine : forall (l1 l2 : list Z), length l1 = length l2 ->
  last_opt (combine l1 l2) =
  match last_opt l1, last_opt l2 with Some x, Some y => Some (x, y) | _, _ => None end.
Proof.
  induction l1 as [|x l1 IH]; intros [|y l2] H; try discriminate; [reflexivity|].
  destruct l1 as [|x' l1]; destruct l2 as [|y' l2]; try discriminate; [reflexivity|].
  cbn [combine]. rewrite !last_opt_cons2. apply (IH (y' :: l2)). cbn [length] in *. lia.
Qed.

Lemma last_opt_rev {A} (l : list A) : last_opt l = match rev l with x :: _ => Some x | [] => None end.
Proof. reflexivity. Qed.

Lemma last_opt_cons_some {A} (x : A) l : exists y, last_opt (x :: l) = Some y.
Proof. apply last_opt_nonempty. discriminate. Qed.

Lemma last_opt_cons_ne {A} (x : A) l y : last_opt l = Some y -> last_opt (x :: l) = Some y.
Proof.
  destruct l as [|z l]; [discriminate|]. rewrite last_opt_cons2. auto.
Qed.

(* the last transition of the file, or the big-bang entry *)
Definition last_pair (a : ast) : Z * Z :=
  match last_opt (a_times a), last_opt (a_idx a) with
  | Some t, Some i => (t, i)
  | _, _ => (big_bang, 0)
  end.


Definition trans1_of (a : ast) : list transition := map mk_tr0 (bb_pairs a ++ file_pairs a).

Lemma trans1_eq a : length (a_times a) = length (a_idx a) ->
  (let trans0 := map (fun '(t, i) => mkTr t i epoch epoch) (combine (a_times a) (a_idx a)) in
   match trans0 with
   | [] => [mkTr big_bang 0 epoch epoch]
   | tr :: _ => if 0 <=? tr_time tr then mkTr big_bang 0 epoch epoch :: trans0 else trans0
   end) = trans1_of a.
Proof.
  intros L. cbv zeta. unfold trans1_of, bb_pairs, file_pairs.
  assert (E : map (fun '(t, i) => mkTr t i epoch epoch) (combine (a_times a) (a_idx a))
              = map mk_tr0 (combine (a_times a) (a_idx a))).
  { apply map_ext. intros [t i]. reflexivity. }
  rewrite E. destruct (a_times a) as [|t0 ts]; destruct (a_idx a) as [|i0 is]; try discriminate; [reflexivity|].
  cbn [combine map mk_tr0 fst snd tr_time].
  destruct (0 <=? t0); reflexivity.
Qed.

Lemma trans1_last a : length (a_times a) = length (a_idx a) ->
  exists last1, last_opt (trans1_of a) = Some last1 /\ tr_pair last1 = last_pair a.
Proof.
  intros L. unfold trans1_of, last_pair.
  rewrite last_opt_map.
  assert (LC := last_opt_combine _ _ L). fold (file_pairs a) in LC.
  destruct (file_pairs a) as [|p ps] eqn:EF.
  - (* no transitions *)
    assert (a_times a = []) as Et.
    { unfold file_pairs in EF. destruct (a_times a); [reflexivity|]. destruct (a_idx a); discriminate. }
    unfold bb_pairs. rewrite Et. cbn [app last_opt rev option_map].
    eexists. split; [reflexivity|]. reflexivity.
  - destruct (last_opt_cons_some p ps) as [y Ey]. rewrite Ey in LC.
    assert (last_opt (bb_pairs a ++ p :: ps) = Some y) as El.
    { unfold bb_pairs. destruct (a_times a) as [|t0 ts]; [|destruct (0 <=? t0)]; cbn [app];
        try exact Ey; apply last_opt_cons_ne; exact Ey. }
    rewrite El. cbn [option_map]. eexists. split; [reflexivity|].
    destruct (last_opt (a_times a)) as [t|]; [|discriminate].
    destruct (last_opt (a_idx a)) as [i|]; [|discriminate].
    inversion LC; subst. reflexivity.
Qed.

Lemma trans1_pairs a : map tr_pair (trans1_of a) = bb_pairs a ++ file_pairs a.
Proof. unfold trans1_of. apply tr_pair_mk_tr0. Qed.

(* ---- the type table Load() builds from a well-formed file ---- *)
Lemma types0_tab h a : wfp h a ->
  length (a_types a) = Z.to_nat (h_typecnt h) -> length (a_abbr a) = Z.to_nat (h_charcnt h) ->
  tab_ok (mk_types0 (a_types a)) (a_abbr a).
Proof.
  intros W LT LA. split; [|split].
  - unfold mk_types0. apply Forall_map. apply Forall_forall. intros [[o d] ai] Hin.
    cbn [tt_abbr fst snd]. destruct (w_types h a W _ _ _ Hin) as [_ H]. lia.
  - exact (w_nul h a W).
  - unfold mk_types0. apply Forall_map. apply Forall_forall. intros [[o d] ai] Hin.
    unfold off_ok. cbn [tt_off fst snd]. destruct (w_types h a W _ _ _ Hin) as [H _]. lia.
Qed.

(* ---- the tail of ExtendTransitions, with the generated list made explicit ---- *)
Lemma ext_tail_gen r std_ti dst_ti last_time ly :
  pdate_ok' (r_start_date r) = true -> pdate_ok' (r_end_date r) = true ->
  -604799 <= r_start_time r <= 604799 -> -604799 <= r_end_time r <= 604799 ->
  -100000 <= fst (fst (r_std r)) <= 100000 -> -100000 <= fst (fst (r_dst r)) <= 100000 ->
  -20000000000 <= ly <= 20000000000 ->
  exists st,
    (forall A (k : ext_state -> res A),
       ext_tail (mkPT (Some (r_start_date r)) (Some (r_start_time r)))
                (mkPT (Some (r_end_date r)) (Some (r_end_time r)))
                (fst (fst (r_std r))) (fst (fst (r_dst r))) std_ti dst_ti last_time ly k = k st) /\
    es_year st = ly + 401 /\
    map tr_pair (es_acc st) = rule_gen' r std_ti dst_ti last_time ly 402.
Proof.
  intros Hd1 Hd2 Ht1 Ht2 Hso Hdo Hly.
  destruct (extend_loop_matches_rule_lemma r std_ti dst_ti last_time ly) as (st & E & Ey & Em);
    auto; try lia.
  exists st. split; [|split; [exact Ey|exact Em]].
  intros A k. unfold ext_tail. cbv zeta.
  change (construct64 0 ly 1 1 0 0 0) with (OK (mkF ly 1 1 0 0 0)). cbn [bind].
  pose proof (dfc_jan1_bound ly ltac:(lia)) as HD.
  assert (V : valid_fields (mkF ly 1 1 0 0 0) = true) by reflexivity.
  assert (T : (0 <= 5)%nat) by (apply Nat.leb_le; reflexivity).
  assert (S1 : sec_of (mkF ly 1 1 0 0 0) = 86400 * days_from_civil ly 1 1)
    by (unfold sec_of; cbn [fy fm fd fhh fmm fss]; lia).
  assert (S0 : sec_of epoch = 0)
    by (unfold sec_of, epoch; cbn [fy fm fd fhh fmm fss]; rewrite dfc_epoch; reflexivity).
  pose proof (difference_refines_lemma 0 (mkF ly 1 1 0 0 0) epoch T V eq_refl eq_refl eq_refl) as K.
  cbn [ord_spec] in K. rewrite S1, S0, Z.sub_0_r in K.
  rewrite K; [|cbn [fy]; unfold int64, min64, max64; lia
              |unfold epoch; cbn [fy]; unfold int64, min64, max64; lia
              |unfold int64, min64, max64; lia].
  cbn [bind].
  rewrite (weekday_spec_lemma (mkF ly 1 1 0 0 0) V) by (cbn [fy]; unfold int64, min64, max64; lia).
  cbn [bind fy fm fd].
  unfold add64, src_extend_years. rewrite chk64_in by (unfold int64, min64, max64; lia).
  cbn [bind].
  replace (to_posix_weekday (weekday_of_days (days_from_civil ly 1 1)))
    with (posix_wd_of_days (days_from_civil ly 1 1)).
  2:{ unfold to_posix_weekday, posix_wd_of_days, weekday_of_days.
      set (D := days_from_civil ly 1 1). clearbody D.
      destruct (Z.eqb_spec ((D + 3) mod 7) 6) as [e|e]; [rewrite e; reflexivity|].
      pose proof (Z.mod_pos_bound (D + 3) 7 ltac:(lia)).
      rewrite Z.mod_small; lia. }
  rewrite E. reflexivity.
Qed.


(* ================================================================== *)
(* Part 8.  ExtendTransitions on a well-formed file (continued)          *)

Lemma tinfo_eqb_eq x y : tinfo_eqb x y = true <-> x = y.
Proof.
  destruct x as [[o1 d1] s1], y as [[o2 d2] s2]. unfold tinfo_eqb.
  rewrite !andb_true_iff, Z.eqb_eq, list_eqb_eq. split.
  - intros [[-> D] ->]. apply Bool.eqb_prop in D. subst. reflexivity.
  - intros H. inversion H; subst. repeat split. apply Bool.eqb_reflx.
Qed.

(* the last transition on the specification side *)
Lemma last_spec a : length (a_times a) = length (a_idx a) ->
  (match rev (a_idx a) with i :: _ => type_info a i | [] => type_info a 0 end) = type_info a (snd (last_pair a)) /\
  (default_type_spec a = 0 ->
   last_info_year (szone_of a) =
   match type_info a (snd (last_pair a)) with
   | Some (o, _, _) => Some (fst (last_pair a), fy (cos (fst (last_pair a) + o)))
   | None => None
   end).
Proof.
  intros L. unfold last_pair, last_info_year, last_opt. cbn [szone_of sz_ast sz_default].
  assert (L' : length (rev (a_times a)) = length (rev (a_idx a))) by (rewrite !rev_length; exact L).
  destruct (rev (a_times a)) as [|t ts]; destruct (rev (a_idx a)) as [|i is]; try discriminate L'.
  - cbn [fst snd]. split; [reflexivity|]. intros ->. destruct (type_info a 0) as [[[o d] s]|]; reflexivity.
  - cbn [fst snd]. split; [reflexivity|]. intros _. destruct (type_info a i) as [[[o d] s]|]; reflexivity.
Qed.

Lemma nth_res_of_nth {A} (l : list A) i x : 0 <= i -> nth_error l (Z.to_nat i) = Some x -> nth_res l i = OK x.
Proof. intros H E. unfold nth_res. destruct (Z.ltb_spec i 0); [lia|]. rewrite E. reflexivity. Qed.

(* EquivTransitions (after the C11 fix: abbreviation TEXT, not index): two types with the same
   designation are equivalent, whatever their abbreviation indices *)
Lemma equiv_same_info types abbrs i j v : tab_ok types abbrs ->
  tyinfo types abbrs i = Some v -> tyinfo types abbrs j = Some v ->
  equiv_transitions abbrs types i j = OK true.
Proof.
  intros (F & _ & _) Hi Hj.
  destruct (tyinfo_inv _ _ _ _ Hi) as (Ri & tyi & Ni & Ei).
  destruct (tyinfo_inv _ _ _ _ Hj) as (Rj & tyj & Nj & Ej).
  unfold equiv_transitions. destruct (i =? j); [reflexivity|].
  rewrite (nth_res_of_nth _ i tyi) by (try lia; exact Ni).
  rewrite (nth_res_of_nth _ j tyj) by (try lia; exact Nj).
  cbn [bind].
  rewrite Forall_forall in F.
  pose proof (F _ (nth_error_In _ _ Ni)) as Bi. pose proof (F _ (nth_error_In _ _ Nj)) as Bj.
  cbv beta in Bi, Bj.
  rewrite Ei in Ej. unfold tinf in Ej. inversion Ej as [[E1 E2 E3]].
  rewrite Z.eqb_refl, Bool.eqb_reflx. cbn [negb].
  destruct (tt_abbr tyi =? tt_abbr tyj); [reflexivity|].
  rewrite !cstr_from_ok by lia. cbn [bind]. rewrite E3.
  replace (list_eqb _ _) with true; [reflexivity|]. symmetry. apply list_eqb_eq. reflexivity.
Qed.

(* what the footer adds to the table *)
Definition footer_out (a : ast) (types1 : list ttype) (abbrs1 : list Z) (tailp : list (Z * Z))
           (ext : bool) (ly : Z) : Prop :=
  match footer_kind_of a with
  | FNone => ext = false /\ tailp = []
  | FFixed _ => ext = false /\ tailp = []
  | FBad => False
  | FRule r =>
      ext = true /\ exists std_ti dst_ti lt y0,
        last_info_year (szone_of a) = Some (lt, y0) /\
        tyinfo types1 abbrs1 std_ti = Some (r_std r) /\ tyinfo types1 abbrs1 dst_ti = Some (r_dst r) /\
        tailp = rule_gen' r std_ti dst_ti lt y0 402 /\ ly = y0 + 401
  end.

Lemma pt_ok_inv t : pt_ok t -> exists d tm, t = mkPT (Some d) (Some tm) /\ pdate_ok' d = true /\ -604799 <= tm <= 604799.
Proof. intros H. exact H. Qed.

Lemma extend_run h a : wfp h a ->
  length (a_times a) = length (a_idx a) ->
  length (a_types a) = Z.to_nat (h_typecnt h) -> length (a_abbr a) = Z.to_nat (h_charcnt h) ->
  index_space_ok h a = true ->
  exists types1 abbrs1 tail ext ly,
    extend_transitions (trans1_of a) (mk_types0 (a_types a)) (a_abbr a) (a_footer a)
      = OK (Some (trans1_of a ++ tail, types1, abbrs1, ext, ly)) /\
    tab_ok types1 abbrs1 /\ (length (a_types a) <= length types1)%nat /\
    (forall i, 0 <= i < Z.of_nat (length (a_types a)) -> tyinfo types1 abbrs1 i = type_info a i) /\
    footer_out a types1 abbrs1 (map tr_pair tail) ext ly.
Proof.
  intros W LTI LT LA IS.
  pose proof (types0_tab h a W LT LA) as TAB.
  pose proof (w_ty1 h a W) as T1.
  pose proof (default_zero h a W) as D0.
  destruct (trans1_last a LTI) as (last1 & EL & EP).
  destruct (last_spec a LTI) as [LS1 LS2]. specialize (LS2 D0).
  set (types0 := mk_types0 (a_types a)) in *. set (abbrs := a_abbr a) in *.
  assert (Lt0 : length types0 = length (a_types a)) by (unfold types0, mk_types0; apply map_length).
  assert (Info0 : forall i, tyinfo types0 abbrs i = type_info a i) by (intros; apply tyinfo_types0).
  pose proof (w_fc h a W) as FC. unfold footer_consistent in FC.
  cbn [szone_of sz_footer sz_ast sz_default] in FC. rewrite D0, LS1 in FC.
  assert (Elt : tr_type last1 = snd (last_pair a)) by (rewrite <- EP; reflexivity).
  assert (Ett : tr_time last1 = fst (last_pair a)) by (rewrite <- EP; reflexivity).
  set (li := snd (last_pair a)) in *. set (T := fst (last_pair a)) in *.
  unfold extend_transitions.
  destruct (a_footer a) as [|c0 fut] eqn:EF.
  { exists types0, abbrs, [], false, 0. rewrite app_nil_r. split; [reflexivity|].
    split; [exact TAB|]. split; [lia|]. split; [intros; apply Info0|].
    unfold footer_out, footer_kind_of. rewrite EF. split; reflexivity. }
  unfold index_space_ok in IS. rewrite EF in IS. cbv iota in IS.
  set (f := c0 :: fut) in *.
  assert (FKeq : footer_kind_of a =
    if negb (PosixSpec.nul_free f) then FBad else
    match posix_spec f with
    | None => FBad
    | Some p =>
      match std_offset p with
      | None => FBad
      | Some so =>
        let std := (so, false, std_abbr p) in
        match dst_abbr p with
        | [] => FFixed std
        | da =>
          match dst_offset p, pt_date (dst_start p), pt_time (dst_start p), pt_date (dst_end p), pt_time (dst_end p) with
          | Some dof, Some sd, Some st, Some ed, Some et =>
              let dst := (dof, true, da) in
              if all_year_dst_spec p then FFixed dst
              else FRule (mkRule std dst sd st ed et)
          | _, _, _, _, _ => FBad
          end
        end
      end
    end).
  { unfold footer_kind_of. rewrite EF. reflexivity. }
  destruct (PosixSpec.nul_free f) eqn:NF; cbn [negb] in FKeq.
  2:{ rewrite FKeq in FC. discriminate FC. }
  destruct (posix_spec f) as [p|] eqn:PS.
  2:{ rewrite FKeq in FC. discriminate FC. }
  destruct (std_offset p) as [so|] eqn:SO.
  2:{ rewrite FKeq in FC. discriminate FC. }
  cbv zeta in FKeq.
  rewrite (posix_iff_lemma f NF), PS. rewrite SO. cbn [get_opt bind].
  destruct (posix_spec_ok _ _ PS) as (so' & Eso & Hso & D). rewrite SO in Eso. inversion Eso; subst so'. clear Eso.
  destruct (posix_abbr_nul_free f p NF PS) as [NS NDs].
  apply andb_true_iff in IS. destruct IS as [IS1 IS2].
  assert (Hlen0 : Z.of_nat (length types0) <= 254) by lia.
  assert (Hlena : Z.of_nat (length abbrs) + Z.of_nat (length (std_abbr p)) + 1 <= 255).
  { destruct (w_nul h a W) as [s0 Es0]. fold abbrs in Es0.
    assert (1 <= length abbrs)%nat by (rewrite Es0, app_length; cbn [length]; lia). lia. }
  destruct (gtt_char types0 abbrs so false (std_abbr p) TAB NS ltac:(lia) ltac:(lia) ltac:(lia))
    as (types1 & abbrs1 & std_ti & G1 & TAB1 & L1 & LA1 & (ex1 & Ex1) & I1 & P1 & M1).
  rewrite G1. cbn [bind]. rewrite EL. cbn [bind].
  destruct (dst_abbr p) as [|dc dr] eqn:DA.
  - (* standard time only *)
    rewrite FKeq in FC.
    destruct (type_info a li) as [l|] eqn:Eli; [|discriminate FC].
    apply tinfo_eqb_eq in FC. subst l.
    destruct (M1 li ltac:(rewrite Info0; exact Eli)) as (-> & -> & Hti).
    rewrite Elt.
    assert (I1' : tyinfo types0 abbrs std_ti = Some (so, false, std_abbr p)) by exact I1.
    assert (EQ : equiv_transitions abbrs types0 li std_ti = OK true).
    { exact (equiv_same_info types0 abbrs li std_ti (so, false, std_abbr p) TAB
               ltac:(rewrite <- Eli; apply Info0) I1'). }
    rewrite EQ. cbn [bind].
    exists types0, abbrs, [], false, 0. rewrite app_nil_r. split; [reflexivity|].
    split; [exact TAB|]. split; [lia|]. split; [intros; apply Info0|].
    unfold footer_out. rewrite FKeq. split; reflexivity.
  - destruct D as [Dn | (dof & Edo & Hdo & PO1 & PO2)]; [discriminate Dn|].
    rewrite Edo. cbn [get_opt bind].
    rewrite Edo in FKeq.
    destruct (pt_ok_inv _ PO1) as (d1 & t1 & Ep1 & Hd1 & Ht1).
    destruct (pt_ok_inv _ PO2) as (d2 & t2 & Ep2 & Hd2 & Ht2).
    rewrite Ep1, Ep2 in FKeq. cbn [pt_date pt_time] in FKeq.
    assert (Hl1 : Z.of_nat (length types1) <= 255) by lia.
    assert (Hla1 : Z.of_nat (length abbrs1) <= 255) by lia.
    destruct (gtt_char types1 abbrs1 dof true (dc :: dr) TAB1 NDs ltac:(lia) Hl1 Hla1)
      as (types2 & abbrs2 & dst_ti & G2 & TAB2 & L2 & LA2 & (ex2 & Ex2) & I2 & P2 & M2).
    rewrite G2. cbn [bind].
    rewrite (all_year_dst_agrees p so dof PO1 PO2 SO Edo). cbn [bind].
    assert (Ll1 : (length types0 <= length types1)%nat) by (rewrite Ex1, app_length; lia).
    assert (Ll2 : (length types1 <= length types2)%nat) by (rewrite Ex2, app_length; lia).
    assert (Info2 : forall i, 0 <= i < Z.of_nat (length (a_types a)) -> tyinfo types2 abbrs2 i = type_info a i).
    { intros i Hi. rewrite P2 by lia. rewrite P1 by lia. apply Info0. }
    destruct (all_year_dst_spec p) eqn:AY.
    + (* all-year DST *)
      rewrite FKeq in FC.
      destruct (type_info a li) as [l|] eqn:Eli; [|discriminate FC].
      apply tinfo_eqb_eq in FC. subst l.
      assert (Rli : 0 <= li < Z.of_nat (length types0)).
      { rewrite <- Info0 in Eli. destruct (tyinfo_inv _ _ _ _ Eli) as [R _]. exact R. }
      destruct (M2 li ltac:(rewrite P1 by lia; rewrite Info0; exact Eli)) as (E2t & E2a & Hti).
      clear Ex2. subst types2 abbrs2. rewrite Elt.
      assert (Id0 : tyinfo types0 abbrs dst_ti = Some (dof, true, dc :: dr)).
      { rewrite <- P1 by lia. exact I2. }
      assert (EQ : equiv_transitions abbrs1 types1 li dst_ti = OK true).
      { exact (equiv_same_info types1 abbrs1 li dst_ti (dof, true, dc :: dr) TAB1
                 ltac:(rewrite P1 by lia; rewrite <- Eli; apply Info0) I2). }
      rewrite EQ. cbn [bind].
      exists types1, abbrs1, [], false, 0. rewrite app_nil_r. split; [reflexivity|].
      split; [exact TAB1|]. split; [lia|]. split; [intros i Hi; rewrite P1 by lia; apply Info0|].
      unfold footer_out. rewrite FKeq. split; reflexivity.
    + (* a DST rule: 402 generated years *)
      rewrite FKeq in FC.
      destruct (type_info a li) as [[[lo ld] ls]|] eqn:Eli; [|discriminate FC].
      assert (Rli : 0 <= li < Z.of_nat (length types0)).
      { rewrite <- Info0 in Eli. destruct (tyinfo_inv _ _ _ _ Eli) as [R _]. exact R. }
      pose proof (Info2 li ltac:(lia)) as Eli2. rewrite Eli in Eli2.
      destruct (tyinfo_inv _ _ _ _ Eli2) as (_ & ltt & Nl & El).
      rewrite Elt. rewrite (nth_res_of_nth _ li ltt ltac:(lia) Nl). cbn [bind].
      assert (Hoff : tt_off ltt = lo) by (unfold tinf in El; congruence).
      destruct TAB2 as (TA2 & TS2 & TO2).
      assert (O5 : off_ok ltt) by (rewrite Forall_forall in TO2; apply TO2; eapply nth_error_In; exact Nl).
      assert (A5 : abbr_ok abbrs2 ltt).
      { rewrite Forall_forall in TA2. pose proof (TA2 _ (nth_error_In _ _ Nl)) as X. cbv beta in X.
        unfold abbr_ok. lia. }
      assert (HT : - 2 ^ 59 <= T <= 2 ^ 59).
      { unfold T, last_pair. destruct (last_opt (a_times a)) as [t|] eqn:Et.
        - destruct (last_opt (a_idx a)); cbn [fst].
          + apply last_opt_In in Et. pose proof (w_lo h a W t Et). pose proof (w_hi h a W t Et).
            unfold big_bang, src_big_bang_shift in *. lia.
          + unfold big_bang, src_big_bang_shift. change (2 ^ 59) with 576460752303423488. lia.
        - cbn [fst]. unfold big_bang, src_big_bang_shift. change (2 ^ 59) with 576460752303423488. lia. }
      assert (I64 : int64 T).
      { unfold int64, min64, max64. change (2 ^ 59) with 576460752303423488 in HT. lia. }
      rewrite Ett.
      destruct (local_time_tt_total abbrs2 T ltt I64 O5 A5) as [ab Eal].
      rewrite Eal. cbn [bind al_cs]. rewrite Hoff.
      assert (Hlo : -86400 < lo < 86400).
      { unfold type_info in Eli. destruct (li <? 0); [discriminate|].
        destruct (nth_error (a_types a) (Z.to_nat li)) as [[[o d] ai]|] eqn:En; [|discriminate].
        inversion Eli; subst. exact (proj1 (w_types h a W _ _ _ (nth_error_In _ _ En))). }
      assert (YB := cos_year_small (T + lo) ltac:(lia)).
      set (y0 := fy (cos (T + lo))) in *.
      set (r := mkRule (so, false, std_abbr p) (dof, true, dc :: dr) d1 t1 d2 t2) in *.
      destruct (ext_tail_gen r std_ti dst_ti T y0) as (st & K & Ey & Em);
        cbn [r r_start_date r_end_date r_start_time r_end_time r_std r_dst fst]; auto; try lia.
      cbn [r r_start_date r_end_date r_start_time r_end_time r_std r_dst fst] in K.
      rewrite Ep1, Ep2.
      exists types2, abbrs2, (es_acc st), true, (es_year st).
      split.
      { exact (K _ (fun st => OK (Some (trans1_of a ++ es_acc st, types2, abbrs2, true, es_year st)))). }
      split; [repeat split; assumption|]. split; [lia|]. split; [exact Info2|].
      unfold footer_out. rewrite FKeq. split; [reflexivity|].
      exists std_ti, dst_ti, T, y0. split.
      { rewrite LS2. reflexivity. }
      split.
      { assert (Rs : 0 <= std_ti < Z.of_nat (length types1)).
        { destruct (tyinfo_inv _ _ _ _ I1) as [R _]. exact R. }
        rewrite P2 by lia. exact I1. }
      split; [exact I2|]. split; [exact Em|exact Ey].
Qed.


(* ================================================================== *)
(* Part 9.  The civil-second pass succeeds on a table in civil order     *)

Definition step_ok (offs : Z -> Z) (x y : Z * Z) : Prop :=
  fst x < fst y /\ fst x + offs (snd x) < fst y + offs (snd y).

Fixpoint chain_ok (offs : Z -> Z) (l : list (Z * Z)) : Prop :=
  match l with
  | x :: ((y :: _) as r) => step_ok offs x y /\ chain_ok offs r
  | _ => True
  end.

Lemma civil_pass_run abbrs types : Forall off_ok types -> Forall (abbr_ok abbrs) types ->
  forall trans ttp prev acc, off_ok ttp -> abbr_ok abbrs ttp ->
  Forall (tr_ok (length types)) trans ->
  chain_ok (offl types) (map tr_pair trans) ->
  match prev, trans with
  | Some (pc, pt), tr :: _ =>
      exists pl, pc = cos pl /\ pl < tr_time tr + offl types (tr_type tr) /\ pt < tr_time tr
  | _, _ => True
  end ->
  exists out, civil_pass abbrs types ttp prev trans acc = OK (Some (rev acc ++ out)) /\
              map tr_pair out = map tr_pair trans.
Proof.
  intros Fo Fa. induction trans as [|tr rest IH]; intros ttp prev acc O A F CH PV.
  - exists []. rewrite app_nil_r. split; reflexivity.
  - inversion F as [|? ? [T1 T2] F']; subst. cbn [civil_pass].
    assert (I64 : int64 (tr_time tr)).
    { unfold int64, min64, max64. change (2 ^ 59) with 576460752303423488 in T1.
      change (2 ^ 60) with 1152921504606846976 in T1. lia. }
    destruct (local_time_tt_total abbrs (tr_time tr) ttp I64 O A) as [ab Ea]. rewrite Ea. cbn [bind al_cs].
    rewrite minus64_sec.
    2: apply valid_cos.
    2:{ pose proof (cos_year_int64 (tr_time tr + tt_off ttp)
                     ltac:(unfold off_ok in O; unfold int64, min64, max64 in *; lia)).
        unfold int64, min64, max64. lia. }
    2:{ unfold int64, min64, max64. lia. }
    2:{ rewrite sec_of_cos. unfold off_ok in O; unfold int64, min64, max64 in *. lia. }
    cbn [bind].
    destruct (nth_res_ok types (tr_type tr) T2) as [ttp' Et]. rewrite Et. cbn [bind].
    destruct (nth_res_inv _ _ _ Et) as [Int _].
    assert (O' : off_ok ttp') by (rewrite Forall_forall in Fo; auto).
    assert (A' : abbr_ok abbrs ttp') by (rewrite Forall_forall in Fa; auto).
    destruct (local_time_tt_total abbrs (tr_time tr) ttp' I64 O' A') as [ab' Eb]. rewrite Eb. cbn [bind al_cs].
    pose proof (offl_nth_res _ _ _ Et) as Eo.
    set (tr' := mkTr (tr_time tr) (tr_type tr) (cos (tr_time tr + tt_off ttp'))
                     (cos (sec_of (cos (tr_time tr + tt_off ttp)) - 1))).
    assert (NX : exists out, civil_pass abbrs types ttp' (Some (cos (tr_time tr + tt_off ttp'), tr_time tr))
                               rest (tr' :: acc) = OK (Some (rev (tr' :: acc) ++ out)) /\
                             map tr_pair out = map tr_pair rest).
    { apply IH; auto.
      - cbn [map] in CH. destruct (map tr_pair rest); [exact I|exact (proj2 CH)].
      - destruct rest as [|tr2 rest']; [exact I|].
        cbn [map chain_ok] in CH. destruct CH as [[S1 S2] _]. unfold tr_pair in S1, S2. cbn [fst snd] in S1, S2.
        exists (tr_time tr + tt_off ttp'). split; [reflexivity|]. rewrite <- Eo. split; [exact S2|exact S1]. }
    destruct NX as (out & E & M).
    exists (tr' :: out). split.
    + assert (K : civil_pass abbrs types ttp' (Some (cos (tr_time tr + tt_off ttp'), tr_time tr))
                    rest (tr' :: acc) = OK (Some (rev acc ++ tr' :: out))).
      { rewrite E. cbn [rev]. rewrite <- app_assoc. reflexivity. }
      destruct prev as [[pc pt]|]; [|exact K].
      destruct PV as (pl & -> & P1 & P2). rewrite <- Eo, lt_cc.
      replace (pl <? tr_time tr + offl types (tr_type tr)) with true by lia.
      replace (pt <? tr_time tr) with true by lia. cbn [negb]. rewrite Eo. exact K.
    + cbn [map]. rewrite M. reflexivity.
Qed.

Lemma scl_info abbrs : forall types out, set_civil_limits abbrs types = OK out ->
  forall i, tyinfo out abbrs i = tyinfo types abbrs i.
Proof.
  induction types as [|ty rest IH]; intros out H i.
  - cbn [set_civil_limits] in H. inversion H; subst. reflexivity.
  - cbn [set_civil_limits] in H.
    destruct (local_time_tt abbrs max64 ty) as [mx|]; [|discriminate H]. cbn [bind] in H.
    destruct (local_time_tt abbrs min64 ty) as [mn|]; [|discriminate H]. cbn [bind] in H.
    destruct (set_civil_limits abbrs rest) as [r|] eqn:ER; [|discriminate H]. cbn [bind] in H.
    inversion H; subst out. clear H. specialize (IH r eq_refl).
    unfold tyinfo in *. destruct (Z.ltb_spec i 0); [reflexivity|].
    destruct (Z.to_nat i) as [|n] eqn:En; cbn [nth_error]; [reflexivity|].
    specialize (IH (Z.of_nat n)). destruct (Z.ltb_spec (Z.of_nat n) 0); [lia|].
    rewrite Nat2Z.id in IH. exact IH.
Qed.

(* the tail of Load(): sentinel, civil pass, civil limits *)
Definition sentinel_pairs (pairs2 : list (Z * Z)) : list (Z * Z) :=
  match last_opt pairs2 with
  | Some p => if fst p <? 0 then [(src_second_half_sentinel, snd p)] else []
  | None => []
  end.

Lemma load_finish trans2 types1 abbrs1 future ext ly :
  trans2 <> [] -> tab_ok types1 abbrs1 -> (0 < length types1)%nat ->
  let pairs3 := map tr_pair trans2 ++ sentinel_pairs (map tr_pair trans2) in
  Forall (fun p => - 2 ^ 59 <= fst p <= 2 ^ 60 /\ 0 <= snd p < Z.of_nat (length types1)) pairs3 ->
  chain_ok (offl types1) pairs3 ->
  exists z,
    (do last <- match last_opt trans2 with Some x => OK x | None => Err OOB end ;;
     let trans3 :=
       if tr_time last <? 0 then trans2 ++ [mkTr src_second_half_sentinel (tr_type last) epoch epoch]
       else trans2 in
     do dtt <- nth_res types1 0 ;;
     do cp <- civil_pass abbrs1 types1 dtt None trans3 [] ;;
     match cp with
     | None => OK None
     | Some trans4 =>
       do types2 <- set_civil_limits abbrs1 types1 ;;
       OK (Some (mkZone trans4 types2 0 abbrs1 future ext ly))
     end) = OK (Some z) /\
    map tr_pair (z_trans z) = pairs3 /\ z_default z = 0 /\ z_abbrs z = abbrs1 /\
    z_extended z = ext /\ z_last_year z = ly /\
    (forall i, tyinfo (z_types z) (z_abbrs z) i = tyinfo types1 abbrs1 i).
Proof.
  intros Hne TAB Hlen pairs3 FP CH.
  destruct (last_opt_nonempty trans2 Hne) as [last EL]. rewrite EL. cbn [bind].
  pose proof (tab_ok_abbr_ok _ _ TAB) as Fa. destruct TAB as (_ & _ & Fo).
  set (trans3 := if tr_time last <? 0 then trans2 ++ [mkTr src_second_half_sentinel (tr_type last) epoch epoch]
                 else trans2).
  assert (E3 : map tr_pair trans3 = pairs3).
  { unfold pairs3, sentinel_pairs, trans3. rewrite last_opt_map, EL. cbn [option_map].
    unfold tr_pair at 3 4. cbn [fst snd].
    destruct (tr_time last <? 0); [|rewrite app_nil_r; reflexivity].
    rewrite map_app. reflexivity. }
  destruct (nth_res_ok types1 0 ltac:(lia)) as [dtt Ed]. rewrite Ed. cbn [bind].
  destruct (nth_res_inv _ _ _ Ed) as [Ind _].
  assert (Od : off_ok dtt) by (rewrite Forall_forall in Fo; auto).
  assert (Ad : abbr_ok abbrs1 dtt) by (rewrite Forall_forall in Fa; auto).
  destruct (civil_pass_run abbrs1 types1 Fo Fa trans3 dtt None [] Od Ad) as (out & E & M).
  - apply (Forall_map tr_pair (fun p => - 2 ^ 59 <= fst p <= 2 ^ 60 /\ 0 <= snd p < Z.of_nat (length types1))).
    rewrite E3. exact FP.
  - rewrite E3. exact CH.
  - exact I.
  - rewrite E. cbn [bind rev app].
    destruct (set_civil_limits_total abbrs1 types1 Fo Fa) as [types2 E2]. rewrite E2. cbn [bind].
    eexists. split; [reflexivity|]. cbn [z_trans z_default z_abbrs z_extended z_last_year z_types].
    split; [rewrite M; exact E3|]. repeat split.
    intros i. exact (scl_info _ _ _ E2 i).
Qed.


(* ================================================================== *)
(* Part 10.  Specification-side facts: the transition list, the rule     *)

Lemma si_tail x r : strictly_increasing (x :: r) = true -> strictly_increasing r = true.
Proof.
  destruct r as [|y r]; [reflexivity|]. intros H.
  change (((x <? y) && strictly_increasing (y :: r)) = true) in H.
  apply andb_true_iff in H. tauto.
Qed.

Lemma si_head_lt x r : strictly_increasing (x :: r) = true -> forall y, In y r -> x < y.
Proof.
  revert x. induction r as [|z r IH]; intros x H y Hy; [destruct Hy|].
  change (((x <? z) && strictly_increasing (z :: r)) = true) in H.
  apply andb_true_iff in H. destruct H as [H1 H2]. apply Z.ltb_lt in H1.
  destruct Hy as [<-|Hy]; [exact H1|]. pose proof (IH z H2 y Hy). lia.
Qed.

Lemma count_le_split l t : strictly_increasing l = true ->
  (forall x, In x (firstn (count_le l t) l) -> x <= t) /\
  (forall x, In x (skipn (count_le l t) l) -> t < x) /\ (count_le l t <= length l)%nat.
Proof.
  induction l as [|x r IH]; intros H.
  - cbn. split; [intros x []|]. split; [intros x []|lia].
  - cbn [count_le]. destruct (Z.leb_spec x t) as [L|L].
    + destruct (IH (si_tail _ _ H)) as (I1 & I2 & I3). cbn [firstn skipn length].
      split; [intros y [<-|Hy]; [exact L|apply I1; exact Hy]|]. split; [exact I2|lia].
    + cbn [firstn skipn length]. split; [intros y []|]. split; [|lia].
      intros y [<-|Hy]; [exact L|]. pose proof (si_head_lt _ _ H y Hy). lia.
Qed.

Lemma count_le_nth : forall l k t, strictly_increasing l = true -> nth_error l k = Some t -> count_le l t = S k.
Proof.
  induction l as [|x r IH]; intros k t H E; [destruct k; discriminate|].
  cbn [count_le]. destruct k as [|k]; cbn [nth_error] in E.
  - inversion E; subst. rewrite Z.leb_refl. f_equal.
    destruct r as [|y r]; [reflexivity|]. cbn [count_le].
    pose proof (si_head_lt _ _ H y (or_introl eq_refl)). destruct (Z.leb_spec y t); [lia|reflexivity].
  - pose proof (si_head_lt _ _ H t (nth_error_In _ _ E)).
    destruct (Z.leb_spec x t); [|lia]. f_equal. apply IH; [exact (si_tail _ _ H)|exact E].
Qed.

Lemma ll_none lo t : forall c best, fold_left (ll_step lo t) c best = None ->
  best = None /\ forall e, In e c -> ~ (lo < fst e <= t).
Proof.
  induction c as [|a r IH]; intros best H.
  - cbn [fold_left] in H. split; [exact H|intros e []].
  - cbn [fold_left] in H. destruct (IH _ H) as [I1 I2]. unfold ll_step in I1.
    destruct (Z.ltb_spec lo (fst a)); destruct (Z.leb_spec (fst a) t); cbn [andb] in I1.
    + destruct best as [b|]; [destruct (fst b <? fst a); discriminate|discriminate].
    + split; [exact I1|]. intros e [<-|He]; [lia|apply I2; exact He].
    + split; [exact I1|]. intros e [<-|He]; [lia|apply I2; exact He].
    + split; [exact I1|]. intros e [<-|He]; [lia|apply I2; exact He].
Qed.

Lemma latest_le_none c lo t : latest_le c lo t = None -> forall e, In e c -> ~ (lo < fst e <= t).
Proof. rewrite latest_le_fold. intros H. exact (proj2 (ll_none lo t c None H)). Qed.

Lemma latest_le_empty c lo t : t <= lo -> latest_le c lo t = None.
Proof.
  intros H. destruct (latest_le c lo t) as [e|] eqn:E; [|reflexivity].
  destruct (latest_le_spec _ _ _ _ E) as (_ & W & _). lia.
Qed.

Lemma latest_le_some c lo t e : In e c -> lo < fst e <= t -> exists e', latest_le c lo t = Some e'.
Proof.
  intros Hin W. destruct (latest_le c lo t) as [e'|] eqn:E; [eauto|].
  exfalso. exact (latest_le_none _ _ _ E e Hin W).
Qed.

Lemma nthZ_nth_error l k x : nth_error l k = Some x -> nthZ l k = x.
Proof. intros H. unfold nthZ. apply nth_error_nth. exact H. Qed.

(* the type designated at a transition instant is the transition's own *)
Lemma spec_info_at_nth a k t : strictly_increasing (a_times a) = true ->
  nth_error (a_times a) k = Some t ->
  spec_info (szone_of a) t = type_info a (nthZ (a_idx a) k).
Proof.
  intros SI E. unfold spec_info. cbn [szone_of sz_ast sz_footer sz_default].
  rewrite (count_le_nth _ _ _ SI E).
  destruct (Nat.eqb (S k) (length (a_times a))); [|reflexivity].
  destruct (footer_kind_of a); try reflexivity.
  rewrite (nthZ_nth_error _ _ _ E). rewrite latest_le_empty by lia. reflexivity.
Qed.

Definition aoff (a : ast) (i : Z) : Z := match type_info a i with Some (o, _, _) => o | None => 0 end.

Lemma off_at_nth a k t : strictly_increasing (a_times a) = true ->
  nth_error (a_times a) k = Some t ->
  forall o, off_at (szone_of a) t = Some o -> o = aoff a (nthZ (a_idx a) k).
Proof.
  intros SI E o. unfold off_at, aoff. rewrite (spec_info_at_nth a k t SI E).
  destruct (type_info a (nthZ (a_idx a) k)) as [[[o' d] s]|]; [|discriminate].
  intros H; inversion H; reflexivity.
Qed.

Lemma gaps_ok_cons2 z x y r : gaps_ok z (x :: y :: r) =
  match off_at z (x - 1), off_at z x, off_at z y with
  | Some a, Some b, Some c => (Z.abs (b - a) + Z.abs (c - b) <? y - x) && gaps_ok z (y :: r)
  | _, _, _ => false
  end.
Proof. reflexivity. Qed.

Lemma gaps_ok_adj z : forall l, gaps_ok z l = true -> forall k t1 t2,
  nth_error l k = Some t1 -> nth_error l (S k) = Some t2 ->
  exists b c, off_at z t1 = Some b /\ off_at z t2 = Some c /\ t1 + b < t2 + c.
Proof.
  induction l as [|x r IH]; intros H k t1 t2 E1 E2; [destruct k; discriminate|].
  destruct r as [|y r]; [destruct k as [|[|k]]; discriminate|].
  rewrite gaps_ok_cons2 in H.
  destruct (off_at z (x - 1)) as [a0|]; [|discriminate].
  destruct (off_at z x) as [b0|] eqn:Eb; [|discriminate].
  destruct (off_at z y) as [c0|] eqn:Ec; [|discriminate].
  apply andb_true_iff in H. destruct H as [H1 H2].
  destruct k as [|k].
  - cbn [nth_error] in E1, E2. inversion E1; inversion E2; subst.
    exists b0, c0. rewrite Eb, Ec. repeat split. lia.
  - cbn [nth_error] in E1. apply (IH H2 k); assumption.
Qed.

Lemma combine_nth_error : forall (l1 l2 : list Z) k x y,
  nth_error l1 k = Some x -> nth_error l2 k = Some y -> nth_error (combine l1 l2) k = Some (x, y).
Proof.
  induction l1 as [|a l1 IH]; intros l2 k x y E1 E2; [destruct k; discriminate|].
  destruct l2 as [|b l2]; [destruct k; discriminate|].
  destruct k as [|k]; cbn [nth_error combine] in *; [congruence|]. apply IH; assumption.
Qed.

Lemma combine_nth_inv : forall (l1 l2 : list Z) k p,
  nth_error (combine l1 l2) k = Some p -> nth_error l1 k = Some (fst p) /\ nth_error l2 k = Some (snd p).
Proof.
  induction l1 as [|a l1 IH]; intros l2 k p E; [destruct k; discriminate|].
  destruct l2 as [|b l2]; [destruct k; discriminate|].
  destruct k as [|k]; cbn [nth_error combine] in *.
  - inversion E; subst. split; reflexivity.
  - apply IH; assumption.
Qed.

Lemma chain_ok_adj offs : forall l,
  (forall k x y, nth_error l k = Some x -> nth_error l (S k) = Some y -> step_ok offs x y) -> chain_ok offs l.
Proof.
  induction l as [|x r IH]; intros H; [exact I|]. destruct r as [|y r]; [exact I|].
  split; [exact (H 0%nat x y eq_refl eq_refl)|]. apply IH. intros k u v Eu Ev. exact (H (S k) u v Eu Ev).
Qed.

Lemma chain_ok_tail offs x r : chain_ok offs (x :: r) -> chain_ok offs r.
Proof. destruct r as [|y r]; [intros; exact I|]. intros [_ H]. exact H. Qed.

Lemma chain_ok_app offs : forall l1 l2, chain_ok offs l1 -> chain_ok offs l2 ->
  (forall x y, last_opt l1 = Some x -> hd_error l2 = Some y -> step_ok offs x y) ->
  chain_ok offs (l1 ++ l2).
Proof.
  induction l1 as [|x r IH]; intros l2 H1 H2 H; [exact H2|].
  destruct r as [|y r].
  - cbn [app]. destruct l2 as [|z l2]; [exact I|]. split; [apply H; reflexivity|exact H2].
  - cbn [app]. split; [exact (proj1 H1)|]. apply (IH l2 (proj2 H1) H2).
    intros u v Eu Ev. apply H; [|exact Ev]. rewrite last_opt_cons2. exact Eu.
Qed.

Lemma nth_error_skipn' {A} : forall n (l : list A) k, nth_error (skipn n l) k = nth_error l (n + k).
Proof.
  induction n as [|n IH]; intros l k; [reflexivity|].
  destruct l as [|x l]; [destruct k; reflexivity|]. cbn [skipn Nat.add nth_error]. apply IH.
Qed.

(* file transitions are in civil order (gaps_ok) *)
Lemma file_chain h a offs : wfp h a -> length (a_times a) = length (a_idx a) ->
  (forall i, In i (a_idx a) -> offs i = aoff a i) ->
  chain_ok offs (file_pairs a).
Proof.
  intros W L Ho. apply chain_ok_adj. intros k [t1 i1] [t2 i2] E1 E2.
  unfold file_pairs in E1, E2.
  destruct (combine_nth_inv _ _ _ _ E1) as [T1 I1]. destruct (combine_nth_inv _ _ _ _ E2) as [T2 I2].
  cbn [fst snd] in *.
  destruct (gaps_ok_adj _ _ (w_gaps h a W) k t1 t2 T1 T2) as (b & c & Eb & Ec & Hlt).
  pose proof (off_at_nth a k t1 (w_inc h a W) T1 b Eb) as Hb.
  pose proof (off_at_nth a (S k) t2 (w_inc h a W) T2 c Ec) as Hc.
  rewrite (nthZ_nth_error _ _ _ I1) in Hb. rewrite (nthZ_nth_error _ _ _ I2) in Hc.
  unfold step_ok. cbn [fst snd].
  rewrite (Ho i1 (nth_error_In _ _ I1)), (Ho i2 (nth_error_In _ _ I2)). split; [|lia].
  pose proof (count_le_nth _ _ _ (w_inc h a W) T1) as C1.
  pose proof (count_le_split (a_times a) t1 (w_inc h a W)) as (_ & S2 & _). rewrite C1 in S2.
  apply S2. apply (nth_error_In _ 0%nat).
  rewrite nth_error_skipn'. replace (S k + 0)%nat with (S k) by lia. exact T2.
Qed.


(* ================================================================== *)
(* Part 11.  The footer rule: what the grammar, rule_ok and rule_tame give *)

Lemma frule_facts a r : footer_kind_of a = FRule r ->
  pdate_ok' (r_start_date r) = true /\ pdate_ok' (r_end_date r) = true /\
  -604799 <= r_start_time r <= 604799 /\ -604799 <= r_end_time r <= 604799 /\
  -89999 <= fst (fst (r_std r)) <= 89999 /\ -93599 <= fst (fst (r_dst r)) <= 93599.
Proof.
  unfold footer_kind_of. destruct (a_footer a) as [|c0 fut]; [discriminate|].
  set (f := c0 :: fut).
  destruct (negb (PosixSpec.nul_free f)); [discriminate|].
  destruct (posix_spec f) as [p|] eqn:PS; [|discriminate].
  destruct (posix_spec_ok _ _ PS) as (so & Eso & Hso & D). rewrite Eso. cbv zeta.
  destruct (dst_abbr p) as [|dc dr] eqn:DA; [discriminate|].
  destruct D as [Dn | (dof & Edo & Hdo & (d1 & t1 & Ep1 & Hd1 & Ht1) & (d2 & t2 & Ep2 & Hd2 & Ht2))];
    [discriminate Dn|].
  rewrite Edo, Ep1, Ep2. cbn [pt_date pt_time].
  destruct (all_year_dst_spec p); [discriminate|].
  intros H. inversion H; subst r. cbn [r_start_date r_end_date r_start_time r_end_time r_std r_dst fst].
  repeat split; auto; lia.
Qed.

Section RuleG.
Variable r : rule.

Definition gap_r : Z := 2 * Z.abs (fst (fst (r_std r)) - fst (fst (r_dst r))).

(* the two instants of a year are more than gap_r apart, and both precede those of the next year by more *)
Definition radj_g (y : Z) : Prop :=
  (inst r y true + gap_r < inst r y false \/ inst r y false + gap_r < inst r y true) /\
  forall b b', inst r y b + gap_r < inst r (y + 1) b'.

Lemma radj_g_period y k : radj_g y -> radj_g (y + 400 * k).
Proof.
  intros [A1 A2]. split.
  - rewrite !inst_period. lia.
  - intros b b'. replace (y + 400 * k + 1) with (y + 1 + 400 * k) by lia.
    rewrite !inst_period. specialize (A2 b b'). lia.
Qed.

Lemma mg_adj_g g k Y : 0 <= g -> min_gap_ok (rule_seq r Y (S (S k))) g = true ->
  ((inst r Y true + g < inst r Y false \/ inst r Y false + g < inst r Y true) /\
   forall b b', inst r Y b + g < inst r (Y + 1) b') /\
  min_gap_ok (rule_seq r (Y + 1) (S k)) g = true.
Proof.
  intros Hg H. cbn [rule_seq] in H |- *. cbv zeta in H |- *.
  set (rest := rule_seq r (Y + 1 + 1) k) in *. clearbody rest.
  unfold inst.
  set (a := rule_start r Y) in *. set (b := rule_end r Y) in *.
  set (a' := rule_start r (Y + 1)) in *. set (b' := rule_end r (Y + 1)) in *.
  clearbody a b a' b'.
  destruct (Z.ltb_spec a b) as [C|C]; destruct (Z.ltb_spec a' b') as [C'|C'];
    cbn [app min_gap_ok] in H |- *;
    apply andb_true_iff in H; destruct H as [H1 H];
    apply andb_true_iff in H; destruct H as [H2 H3];
    pose proof H3 as H4; apply andb_true_iff in H4; destruct H4 as [H4 _];
    apply Z.ltb_lt in H1, H2, H4;
    (split; [split; [lia|intros [|] [|]; lia]|exact H3]).
Qed.

Lemma mg_adj_g_n g : 0 <= g -> forall i k Y, min_gap_ok (rule_seq r Y (S (S (i + k)))) g = true ->
  (inst r (Y + Z.of_nat i) true + g < inst r (Y + Z.of_nat i) false \/
   inst r (Y + Z.of_nat i) false + g < inst r (Y + Z.of_nat i) true) /\
  forall b b', inst r (Y + Z.of_nat i) b + g < inst r (Y + Z.of_nat i + 1) b'.
Proof.
  intros Hg. induction i as [|i IH]; intros k Y H.
  - replace (Y + Z.of_nat 0) with Y by lia. exact (proj1 (mg_adj_g g _ Y Hg H)).
  - replace (Y + Z.of_nat (S i)) with (Y + 1 + Z.of_nat i) by lia.
    apply (IH k). exact (proj2 (mg_adj_g g _ Y Hg H)).
Qed.

Lemma rule_ok_radj_g : rule_ok r = true -> forall y, radj_g y.
Proof.
  intros H y. unfold rule_ok in H. cbv zeta in H. fold gap_r in H.
  assert (Hg : 0 <= gap_r) by (unfold gap_r; lia).
  pose proof (Z.div_mod (y - 2000) 400 ltac:(lia)) as DM.
  pose proof (Z.mod_pos_bound (y - 2000) 400 ltac:(lia)) as MB.
  set (q := (y - 2000) / 400) in *. set (m := (y - 2000) mod 400) in *. clearbody q m.
  replace y with (2000 + m + 400 * q) by lia. apply radj_g_period.
  replace m with (Z.of_nat (Z.to_nat m)) by lia.
  apply (mg_adj_g_n gap_r Hg (Z.to_nat m) (400 - Z.to_nat m)%nat 2000).
  replace (S (S (Z.to_nat m + (400 - Z.to_nat m))))%nat with 402%nat by lia.
  exact H.
Qed.

Hypothesis Hg : forall y, radj_g y.

Lemma gap_r_nonneg : 0 <= gap_r.
Proof. unfold gap_r. lia. Qed.

Lemma inst_g_n : forall n y b b', inst r y b + gap_r < inst r (y + 1 + Z.of_nat n) b'.
Proof.
  pose proof gap_r_nonneg as G0.
  induction n as [|n IH]; intros y b b'.
  - replace (y + 1 + Z.of_nat 0) with (y + 1) by lia. apply (proj2 (Hg y)).
  - replace (y + 1 + Z.of_nat (S n)) with (y + 1 + Z.of_nat n + 1) by lia.
    pose proof (IH y b true). pose proof (proj2 (Hg (y + 1 + Z.of_nat n)) true b'). lia.
Qed.

Lemma inst_lt_g y y' b b' : y < y' -> inst r y b + gap_r < inst r y' b'.
Proof.
  intros H. pose proof (inst_g_n (Z.to_nat (y' - y - 1)) y b b') as M.
  replace (y + 1 + Z.of_nat (Z.to_nat (y' - y - 1))) with y' in M by lia. exact M.
Qed.

Lemma radj_of_g y : radj r y.
Proof.
  pose proof gap_r_nonneg as G0. destruct (Hg y) as [A1 A2]. split; [lia|].
  intros b b'. specialize (A2 b b'). lia.
Qed.

(* distinct rule instants: equal instants are the same (year, kind) *)
Lemma inst_inj y y' b b' : inst r y b = inst r y' b' -> y = y' /\ b = b'.
Proof.
  pose proof gap_r_nonneg as G0. intros E.
  destruct (Z.lt_trichotomy y y') as [L|[->|L]].
  - pose proof (inst_lt_g y y' b b' L). lia.
  - split; [reflexivity|]. destruct (Hg y') as [A1 _]. destruct b, b'; try reflexivity; lia.
  - pose proof (inst_lt_g y' y b' b L). lia.
Qed.

(* ---- the generated list ---- *)
Variables (std_ti dst_ti last_time : Z).
Local Notation tyof := (tyof std_ti dst_ti).
Local Notation gen := (rule_gen' r std_ti dst_ti last_time).

Lemma gen_in' : forall n Y e, In e (gen Y n) ->
  exists y b, Y <= y < Y + Z.of_nat n /\ e = (inst r y b, tyof b) /\ last_time < inst r y b.
Proof.
  induction n as [|n IH]; intros Y e H; [destruct H|].
  rewrite rule_gen'_step in H. apply in_app_or in H. destruct H as [H|H].
  - destruct (stepl_in r std_ti dst_ti last_time Y e H) as (b & -> & Hl).
    exists Y, b. split; [lia|]. split; [reflexivity|exact Hl].
  - destruct (IH _ _ H) as (y & b & Hy & E & Hl). exists y, b. split; [lia|]. split; assumption.
Qed.

(* every rule instant of the window's years after last_time is generated *)
Lemma gen_complete : forall n Y y b, Y <= y < Y + Z.of_nat n -> last_time < inst r y b ->
  In (inst r y b, tyof b) (gen Y n).
Proof.
  induction n as [|n IH]; intros Y y b Hy Hl; [lia|].
  rewrite rule_gen'_step. apply in_or_app.
  destruct (Z.eq_dec y Y) as [->|Ne]; [left|right; apply IH; [lia|exact Hl]].
  unfold stepl, FutureProofs.tyof. cbn [fst]. unfold inst in Hl |- *.
  set (s := rule_start r Y) in *. set (e := rule_end r Y) in *. clearbody s e.
  destruct b; destruct (Z.ltb_spec s e); cbn [fst];
    repeat match goal with |- context [last_time <? ?x] => destruct (Z.ltb_spec last_time x) end;
    cbn [In]; try lia; auto.
Qed.

Variable offs : Z -> Z.
Hypothesis Hstd : offs std_ti = fst (fst (r_std r)).
Hypothesis Hdst : offs dst_ti = fst (fst (r_dst r)).

Lemma offs_tyof b : offs (tyof b) = if b then fst (fst (r_dst r)) else fst (fst (r_std r)).
Proof. unfold FutureProofs.tyof. destruct b; assumption. Qed.

Lemma step_ok_inst y b y' b' : inst r y b + gap_r < inst r y' b' ->
  step_ok offs (inst r y b, tyof b) (inst r y' b', tyof b').
Proof.
  intros H. pose proof gap_r_nonneg. unfold step_ok. cbn [fst snd]. rewrite !offs_tyof.
  unfold gap_r in *. destruct b, b'; lia.
Qed.

Lemma stepl_chain Y : chain_ok offs (stepl r std_ti dst_ti last_time Y).
Proof.
  destruct (Hg Y) as [A1 _].
  unfold stepl. cbn [fst].
  change (rule_start r Y) with (inst r Y true). change (rule_end r Y) with (inst r Y false).
  change dst_ti with (tyof true) at 1 2. change std_ti with (tyof false) at 1 2.
  destruct (Z.ltb_spec (inst r Y true) (inst r Y false)); cbn [fst];
    repeat match goal with |- context [last_time <? ?x] => destruct (Z.ltb_spec last_time x) end;
    cbn [chain_ok]; auto; (split; [|exact I]); apply step_ok_inst; pose proof gap_r_nonneg; lia.
Qed.

Lemma gen_chain : forall n Y, chain_ok offs (gen Y n).
Proof.
  induction n as [|n IH]; intros Y; [exact I|].
  rewrite rule_gen'_step. apply chain_ok_app; [apply stepl_chain|apply IH|].
  intros x y Ex Ey. apply last_opt_In in Ex.
  destruct (stepl_in r std_ti dst_ti last_time Y x Ex) as (b & -> & _).
  assert (Hy : In y (gen (Y + 1) n)).
  { destruct (gen (Y + 1) n) as [|z l]; [discriminate|]. inversion Ey; subst. left. reflexivity. }
  destruct (gen_in' _ _ _ Hy) as (y' & b' & Hy' & -> & _).
  apply step_ok_inst. apply inst_lt_g. lia.
Qed.

End RuleG.

(* ---- rule_tame for every year ---- *)
Definition tameP (r : rule) : Prop := forall y b,
  86400 * days_from_civil y 1 1 + 86400 <= inst r y b <= 86400 * days_from_civil (y + 1) 1 1 - 86400.

Lemma tame_all r : forallb (rule_tame_y r) (zrange 2000 400) = true -> tameP r.
Proof.
  intros H y b. rewrite forallb_forall in H.
  pose proof (Z.div_mod (y - 2000) 400 ltac:(lia)) as DM.
  pose proof (Z.mod_pos_bound (y - 2000) 400 ltac:(lia)) as MB.
  set (q := (y - 2000) / 400) in *. set (m := (y - 2000) mod 400) in *. clearbody q m.
  replace y with (2000 + m + 400 * q) by lia.
  replace (2000 + m + 400 * q + 1) with (2000 + m + 1 + 400 * q) by lia.
  rewrite inst_period, !dfc_period.
  assert (Hin : In (2000 + m) (zrange 2000 400)).
  { apply zrange_In. change (Z.of_nat 400) with 400. lia. }
  specialize (H _ Hin). unfold rule_tame_y in H.
  change (rule_start r (2000 + m)) with (inst r (2000 + m) true) in H.
  change (rule_end r (2000 + m)) with (inst r (2000 + m) false) in H.
  destruct b; lia.
Qed.

Lemma instant_after_year_start t : 86400 * days_from_civil (year_of_instant t) 1 1 <= t.
Proof.
  unfold year_of_instant.
  pose proof (valid_cos t) as V. pose proof (sec_of_cos t) as E.
  set (f := cos t) in *. clearbody f.
  apply valid_fields_inv in V. destruct V as (Vd & Hh & Hm & Hs).
  assert (days_from_civil (fy f) 1 1 <= days_from_civil (fy f) (fm f) (fd f)).
  { destruct (valid_date_inv _ _ _ Vd) as [Hmo Hd].
    destruct (Z.eq_dec (fm f) 1) as [E1|N1].
    - destruct (Z.eq_dec (fd f) 1) as [E2|N2]; [rewrite E1, E2; lia|].
      pose proof (dfc_lt_of_lex (fy f) 1 1 (fy f) (fm f) (fd f) (valid_first _ 1 ltac:(lia)) Vd ltac:(lia)). lia.
    - pose proof (dfc_lt_of_lex (fy f) 1 1 (fy f) (fm f) (fd f) (valid_first _ 1 ltac:(lia)) Vd ltac:(lia)). lia. }
  unfold sec_of in E. lia.
Qed.

Lemma year_of_ge Y s : 86400 * days_from_civil Y 1 1 <= s -> Y <= year_of_instant s.
Proof.
  intros H. unfold year_of_instant.
  pose proof (cos_year_mono _ _ H) as M.
  assert (E : cos (86400 * days_from_civil Y 1 1) = mkF Y 1 1 0 0 0).
  { rewrite <- (cos_sec_of (mkF Y 1 1 0 0 0)) by reflexivity. f_equal.
    unfold sec_of. cbn [fy fm fd fhh fmm fss]. lia. }
  rewrite E in M. exact M.
Qed.

Lemma year_of_lt Y s : s < 86400 * days_from_civil (Y + 1) 1 1 -> year_of_instant s <= Y.
Proof.
  intros H. destruct (Z_le_gt_dec (year_of_instant s) Y) as [L|G]; [exact L|exfalso].
  pose proof (instant_after_year_start s) as A.
  assert (days_from_civil (Y + 1) 1 1 <= days_from_civil (year_of_instant s) 1 1).
  { destruct (Z.eq_dec (year_of_instant s) (Y + 1)) as [->|Ne]; [lia|].
    pose proof (dfc_lt_of_lex (Y + 1) 1 1 (year_of_instant s) 1 1 (valid_first _ 1 ltac:(lia))
                  (valid_first _ 1 ltac:(lia)) ltac:(lia)). lia. }
  lia.
Qed.

(* under rule_tame a rule instant of year y lies in UTC year y *)
Lemma tame_year r y b : tameP r -> year_of_instant (inst r y b) = y.
Proof.
  intros T. specialize (T y b).
  pose proof (year_of_ge y (inst r y b) ltac:(lia)). pose proof (year_of_lt y (inst r y b) ltac:(lia)). lia.
Qed.

Lemma dfc_year_mono y y' : y <= y' -> days_from_civil y 1 1 + 365 * (y' - y) <= days_from_civil y' 1 1.
Proof.
  intros H. replace y' with (y + Z.of_nat (Z.to_nat (y' - y))) by lia.
  replace (y + Z.of_nat (Z.to_nat (y' - y)) - y) with (Z.of_nat (Z.to_nat (y' - y))) by lia.
  generalize (Z.to_nat (y' - y)) as n. clear H y'.
  induction n as [|n IH]; [replace (y + Z.of_nat 0) with y by lia; lia|].
  replace (y + Z.of_nat (S n)) with (y + Z.of_nat n + 1) by lia.
  rewrite dfc_year_step. pose proof (diy_ge (y + Z.of_nat n)). lia.
Qed.


(* ================================================================== *)
(* Part 12.  The whole table is in civil order; Load() accepts           *)

Lemma tyinfo_offl types abbrs i x : tyinfo types abbrs i = Some x -> offl types i = fst (fst x).
Proof.
  unfold tyinfo, offl. destruct (i <? 0); [discriminate|].
  destruct (nth_error types (Z.to_nat i)); [|discriminate]. intros H; inversion H; reflexivity.
Qed.

Lemma type_info_some h a i : wfp h a -> length (a_types a) = Z.to_nat (h_typecnt h) ->
  0 <= i < h_typecnt h -> exists o d s, type_info a i = Some (o, d, s) /\ -86400 < o < 86400.
Proof.
  intros W LT Hi. unfold type_info. destruct (Z.ltb_spec i 0); [lia|].
  destruct (nth_error (a_types a) (Z.to_nat i)) as [[[o d] ai]|] eqn:E.
  - exists o, d, (c_str (skipn (Z.to_nat ai) (a_abbr a))). split; [reflexivity|].
    exact (proj1 (w_types h a W _ _ _ (nth_error_In _ _ E))).
  - apply nth_error_None in E. lia.
Qed.

Lemma aoff_bound h a i : wfp h a -> length (a_types a) = Z.to_nat (h_typecnt h) ->
  0 <= i < h_typecnt h -> -86400 < aoff a i < 86400.
Proof.
  intros W LT Hi. destruct (type_info_some h a i W LT Hi) as (o & d & s & E & B).
  unfold aoff. rewrite E. exact B.
Qed.

Lemma pairs_last a : length (a_times a) = length (a_idx a) ->
  last_opt (bb_pairs a ++ file_pairs a) = Some (last_pair a).
Proof.
  intros L. destruct (trans1_last a L) as (last1 & EL & EP).
  rewrite <- trans1_pairs, last_opt_map, EL. cbn [option_map]. rewrite EP. reflexivity.
Qed.

Lemma last_pair_times a lt : length (a_times a) = length (a_idx a) ->
  last_opt (a_times a) = Some lt -> fst (last_pair a) = lt /\ In (snd (last_pair a)) (a_idx a).
Proof.
  intros L E. unfold last_pair. rewrite E.
  destruct (last_opt (a_idx a)) as [i|] eqn:Ei.
  - split; [reflexivity|]. cbn [snd]. apply last_opt_In. exact Ei.
  - exfalso. unfold last_opt in E, Ei.
    assert (L' : length (rev (a_times a)) = length (rev (a_idx a))) by (rewrite !rev_length; exact L).
    destruct (rev (a_times a)); [discriminate|]. destruct (rev (a_idx a)); discriminate.
Qed.

Lemma last_pair_idx h a : wfp h a -> 0 <= snd (last_pair a) < h_typecnt h.
Proof.
  intros W. pose proof (w_ty1 h a W). unfold last_pair.
  destruct (last_opt (a_times a)); [|cbn [snd]; lia].
  destruct (last_opt (a_idx a)) as [i|] eqn:Ei; [|cbn [snd]; lia].
  cbn [snd]. apply (w_idx h a W). apply last_opt_In. exact Ei.
Qed.

Lemma last_pair_time h a : wfp h a -> - 2 ^ 59 <= fst (last_pair a) <= 2 ^ 59.
Proof.
  intros W. unfold last_pair.
  assert (B : - 2 ^ 59 <= big_bang <= 2 ^ 59).
  { unfold big_bang, src_big_bang_shift. change (2 ^ 59) with 576460752303423488. lia. }
  destruct (last_opt (a_times a)) as [t|] eqn:Et; [|exact B].
  destruct (last_opt (a_idx a)); [|exact B]. cbn [fst].
  apply last_opt_In in Et. pose proof (w_lo h a W t Et). pose proof (w_hi h a W t Et).
  unfold big_bang, src_big_bang_shift in *. lia.
Qed.

Lemma last_opt_app2 {A} (l1 l2 : list A) :
  last_opt (l1 ++ l2) = match last_opt l2 with Some x => Some x | None => last_opt l1 end.
Proof.
  unfold last_opt. rewrite rev_app_distr. destruct (rev l2); reflexivity.
Qed.

(* seam: every generated instant is more than two days after the last transition *)
Lemma seam_far h a r std_ti dst_ti lt y0 : wfp h a ->
  length (a_times a) = length (a_idx a) -> length (a_types a) = Z.to_nat (h_typecnt h) ->
  footer_kind_of a = FRule r -> tameP r ->
  last_opt (a_times a) = Some lt ->
  last_info_year (szone_of a) = Some (lt, y0) ->
  forall e, In e (rule_gen' r std_ti dst_ti lt y0 402) -> lt + 172800 < fst e.
Proof.
  intros W L LT FK TM Elt LIY e He.
  destruct (gen_in' r std_ti dst_ti lt _ _ _ He) as (y & b & Hy & -> & Hgt). cbn [fst].
  set (Yt := year_of_instant lt).
  (* the local year of lt is at least Yt - 1 *)
  assert (Hy0 : Yt - 1 <= y0).
  { destruct (last_spec a L) as [_ LS2]. specialize (LS2 (default_zero h a W)).
    destruct (last_pair_times a lt L Elt) as [Ef Ei].
    pose proof (last_pair_idx h a W) as Ri.
    destruct (type_info_some h a _ W LT Ri) as (o & d & s & Eo & Bo).
    rewrite Eo, Ef in LS2. rewrite LS2 in LIY. inversion LIY; subst y0.
    apply year_of_ge. pose proof (instant_after_year_start lt) as A. fold Yt in A.
    pose proof (dfc_year_mono (Yt - 1) Yt ltac:(lia)). lia. }
  destruct (Z_le_gt_dec y (Yt + 1)) as [Le|Gt].
  - (* a candidate of the seam check *)
    pose proof (w_fr h a W) as FR. unfold footer_rule_ok in FR. cbn [szone_of sz_footer] in FR.
    rewrite FK in FR. apply andb_true_iff in FR. destruct FR as [_ SO].
    unfold seam_ok in SO. cbn [sz_ast szone_of] in SO.
    unfold last_opt in Elt. destruct (rev (a_times a)) as [|lt' rs]; [discriminate|].
    inversion Elt; subst lt'. rewrite forallb_forall in SO.
    specialize (SO _ (cand_in r Yt y b ltac:(lia))). cbn [fst] in SO. lia.
  - pose proof (TM y b) as Ty. pose proof (instant_before_next_year lt) as Nx. fold Yt in Nx.
    pose proof (dfc_year_mono (Yt + 1) y ltac:(lia)). lia.
Qed.

Lemma rule_gen_bounds a r std_ti dst_ti lt y0 : footer_kind_of a = FRule r ->
  -20000000000 <= y0 <= 20000000000 ->
  forall e, In e (rule_gen' r std_ti dst_ti lt y0 402) ->
  lt < fst e <= 2 ^ 60 /\ (snd e = std_ti \/ snd e = dst_ti).
Proof.
  intros FK Hy e He.
  destruct (frule_facts a r FK) as (Hd1 & Hd2 & Ht1 & Ht2 & Hso & Hdo).
  pose proof (rule_gen_ok r std_ti dst_ti lt Hd1 Hd2 ltac:(lia) ltac:(lia) ltac:(lia) ltac:(lia)
                402%nat y0 ltac:(lia)) as G.
  assert (L : y0 + Z.of_nat 402 <= 20000000402) by (change (Z.of_nat 402) with 402; lia).
  specialize (G L). rewrite Forall_forall in G. exact (G e He).
Qed.

(* the table Load() hands to the civil pass *)
Definition table_pairs (a : ast) (tailp : list (Z * Z)) : list (Z * Z) :=
  ((bb_pairs a ++ file_pairs a) ++ tailp) ++ sentinel_pairs ((bb_pairs a ++ file_pairs a) ++ tailp).

Lemma file_pairs_in a p : In p (file_pairs a) -> In (fst p) (a_times a) /\ In (snd p) (a_idx a).
Proof.
  intros H. destruct p as [t i]. unfold file_pairs in H. cbn [fst snd].
  split; [eapply in_combine_l; exact H|eapply in_combine_r; exact H].
Qed.

Lemma table_ok h a types1 abbrs1 tailp ext ly : wfp h a ->
  length (a_times a) = length (a_idx a) -> length (a_types a) = Z.to_nat (h_typecnt h) ->
  not_f9 a = true -> footer_offsets_ok a = true -> rule_tame a = true ->
  (length (a_types a) <= length types1)%nat ->
  (forall i, 0 <= i < Z.of_nat (length (a_types a)) -> tyinfo types1 abbrs1 i = type_info a i) ->
  footer_out a types1 abbrs1 tailp ext ly ->
  Forall (fun p => - 2 ^ 59 <= fst p <= 2 ^ 60 /\ 0 <= snd p < Z.of_nat (length types1)) (table_pairs a tailp) /\
  chain_ok (offl types1) (table_pairs a tailp).
Proof.
  intros W L LT NF9 FO TM Ll Info FOut.
  pose proof (w_ty1 h a W) as T1.
  assert (E59 : 2 ^ 59 = 576460752303423488) by reflexivity.
  assert (E60 : 2 ^ 60 = 1152921504606846976) by reflexivity.
  assert (Hoff : forall i, 0 <= i < h_typecnt h -> offl types1 i = aoff a i).
  { intros i Hi. destruct (type_info_some h a i W LT Hi) as (o & d & s & E & _).
    pose proof (Info i ltac:(lia)) as X. rewrite E in X. rewrite (tyinfo_offl _ _ _ _ X).
    unfold aoff. rewrite E. reflexivity. }
  assert (Hoffb : forall i, 0 <= i < h_typecnt h -> -86400 < offl types1 i < 86400).
  { intros i Hi. rewrite (Hoff i Hi). exact (aoff_bound h a i W LT Hi). }
  (* bounds and order of [bb] ++ file *)
  assert (Bbf : Forall (fun p => - 2 ^ 59 <= fst p <= 2 ^ 59 /\ 0 <= snd p < h_typecnt h)
                       (bb_pairs a ++ file_pairs a)).
  { apply Forall_app. split.
    - unfold bb_pairs. destruct (a_times a) as [|t0 ts]; [|destruct (0 <=? t0)];
        repeat constructor; cbn [fst snd]; unfold big_bang, src_big_bang_shift; lia.
    - apply Forall_forall. intros p Hp. destruct (file_pairs_in a p Hp) as [Ht Hi].
      pose proof (w_lo h a W _ Ht). pose proof (w_hi h a W _ Ht). pose proof (w_idx h a W _ Hi).
      unfold big_bang, src_big_bang_shift in *. lia. }
  assert (Cbf : chain_ok (offl types1) (bb_pairs a ++ file_pairs a)).
  { apply chain_ok_app.
    - unfold bb_pairs. destruct (a_times a) as [|t0 ts]; [|destruct (0 <=? t0)]; exact I.
    - apply (file_chain h a); auto. intros i Hi. apply Hoff. exact (w_idx h a W i Hi).
    - intros x y Ex Ey. unfold bb_pairs in Ex. unfold file_pairs in Ey.
      destruct (a_times a) as [|t0 ts] eqn:Et; [discriminate Ey|].
      destruct (a_idx a) as [|i0 is] eqn:Ei; [discriminate Ey|].
      cbn [combine hd_error] in Ey. inversion Ey; subst y.
      destruct (Z.leb_spec 0 t0) as [P|P]; [|discriminate Ex].
      inversion Ex; subst x. unfold step_ok. cbn [fst snd].
      pose proof (Hoffb 0 ltac:(lia)).
      pose proof (Hoffb i0 (w_idx h a W i0 ltac:(rewrite Ei; left; reflexivity))).
      unfold big_bang, src_big_bang_shift. lia. }
  pose proof (pairs_last a L) as PL.
  pose proof (last_pair_idx h a W) as Rli. pose proof (last_pair_time h a W) as Rlt.
  unfold footer_out in FOut. unfold not_f9 in NF9. unfold footer_offsets_ok in FO. unfold rule_tame in TM.
  unfold table_pairs.
  destruct (footer_kind_of a) as [| |x|r] eqn:FK; try contradiction.
  1,2: destruct FOut as [_ ->]; rewrite app_nil_r; unfold sentinel_pairs; rewrite PL;
       (destruct (Z.ltb_spec (fst (last_pair a)) 0) as [Neg|Pos];
        [|rewrite app_nil_r; split;
          [eapply Forall_impl; [|exact Bbf]; intros p Hp; cbv beta in *; lia|exact Cbf]]);
       (split;
        [apply Forall_app; split;
          [eapply Forall_impl; [|exact Bbf]; intros p Hp; cbv beta in *; lia
          |constructor; [|constructor]; cbn [fst snd]; unfold src_second_half_sentinel; lia]
        |apply chain_ok_app; [exact Cbf|exact I|];
         intros x0 y Ex Ey; rewrite PL in Ex; inversion Ex; subst x0;
         cbn [hd_error] in Ey; inversion Ey; subst y;
         unfold step_ok; cbn [fst snd]; unfold src_second_half_sentinel; lia]).
  (* a DST rule *)
  destruct FOut as (_ & std_ti & dst_ti & lt & y0 & LIY & Is & Id & -> & _).
  destruct (frule_facts a r FK) as (Hd1 & Hd2 & Ht1 & Ht2 & Hso & Hdo).
  assert (Elt : exists lt', last_opt (a_times a) = Some lt' /\ 0 <= lt').
  { unfold last_opt. destruct (rev (a_times a)) as [|lt' rs]; [discriminate NF9|].
    exists lt'. split; [reflexivity|lia]. }
  destruct Elt as (lt' & Elt & Hpos).
  destruct (last_pair_times a lt' L Elt) as [Ef Ei].
  (* lt' = lt and y0's range *)
  destruct (last_spec a L) as [_ LS2]. specialize (LS2 (default_zero h a W)).
  destruct (type_info_some h a _ W LT Rli) as (o & d & s & Eo & Bo).
  rewrite Eo, Ef in LS2.
  assert (lt = lt' /\ y0 = fy (cos (lt' + o))) as [-> Ey0] by (split; congruence).
  assert (Hy0 : -20000000000 <= y0 <= 20000000000).
  { rewrite Ey0. apply cos_year_small. rewrite Ef in Rlt. lia. }
  pose proof (tame_all r TM) as TP.
  pose proof (w_fr h a W) as FR. unfold footer_rule_ok in FR. cbn [szone_of sz_footer] in FR.
  rewrite FK in FR. apply andb_true_iff in FR. destruct FR as [RO _].
  pose proof (rule_ok_radj_g r RO) as HG.
  set (genp := rule_gen' r std_ti dst_ti lt' y0 402) in *.
  pose proof (seam_far h a r std_ti dst_ti lt' y0 W L LT FK TP Elt LIY) as SF. fold genp in SF.
  pose proof (rule_gen_bounds a r std_ti dst_ti lt' y0 FK Hy0) as GB. fold genp in GB.
  destruct (tyinfo_inv _ _ _ _ Is) as (Rs & _). destruct (tyinfo_inv _ _ _ _ Id) as (Rd & _).
  pose proof (tyinfo_offl _ _ _ _ Is) as Os. pose proof (tyinfo_offl _ _ _ _ Id) as Od.
  apply andb_true_iff in FO. destruct FO as [FO1 FO2].
  (* no sentinel: the last entry is at or after lt' >= 0 *)
  assert (NoS : sentinel_pairs ((bb_pairs a ++ file_pairs a) ++ genp) = []).
  { unfold sentinel_pairs. rewrite last_opt_app2.
    destruct (last_opt genp) as [p|] eqn:El.
    - apply last_opt_In in El. pose proof (SF p El). destruct (Z.ltb_spec (fst p) 0); [lia|reflexivity].
    - rewrite PL, Ef. destruct (Z.ltb_spec lt' 0); [lia|reflexivity]. }
  rewrite NoS, app_nil_r. split.
  - apply Forall_app. split.
    + eapply Forall_impl; [|exact Bbf]. intros p Hp. cbv beta in *. lia.
    + apply Forall_forall. intros e He. destruct (GB e He) as [G1 G2].
      split; [lia|]. destruct G2 as [-> | ->]; assumption.
  - apply chain_ok_app; [exact Cbf|exact (gen_chain r HG std_ti dst_ti lt' (offl types1) Os Od 402 y0)|].
    intros x y Ex Ey. rewrite PL in Ex. inversion Ex; subst x. fold genp in Ey.
    assert (Hy : In y genp) by (destruct genp as [|g0 gs]; [discriminate Ey|inversion Ey; left; reflexivity]).
    pose proof (SF y Hy) as S1.
    destruct (gen_in' r std_ti dst_ti lt' _ _ _ Hy) as (yy & b & _ & -> & _).
    unfold step_ok. cbn [fst snd] in *. rewrite Ef.
    rewrite (offs_tyof r std_ti dst_ti (offl types1) Os Od b).
    pose proof (Hoffb _ Rli). destruct b; lia.
Qed.


(* ================================================================== *)
(* Part 13.  STAGE A: a well-formed file loads, and the zone is the file's *)

Lemma footer_out_ext a t1 b1 t2 b2 tailp ext ly :
  (forall i, tyinfo t2 b2 i = tyinfo t1 b1 i) ->
  footer_out a t1 b1 tailp ext ly -> footer_out a t2 b2 tailp ext ly.
Proof.
  intros E. unfold footer_out. destruct (footer_kind_of a); auto.
  intros (H0 & s & d & lt & y0 & H1 & H2 & H3 & H4). split; [exact H0|].
  exists s, d, lt, y0. rewrite !E. auto.
Qed.

Theorem load_parse_agree : forall bs h a,
  parse_ast bs = Some (h, a) -> wf_ast h a = true -> c01_domain h a = true ->
  exists z tailp,
    load_bytes bs = OK (Some z) /\
    map tr_pair (z_trans z) = table_pairs a tailp /\
    z_default z = 0 /\
    (forall i, 0 <= i < Z.of_nat (length (a_types a)) -> tyinfo (z_types z) (z_abbrs z) i = type_info a i) /\
    footer_out a (z_types z) (z_abbrs z) tailp (z_extended z) (z_last_year z).
Proof.
  intros bs h a PA WF DOM.
  pose proof (wf_wfp h a WF) as W.
  destruct (parse_ast_len bs h a PA) as (HO & Lt & Li & Lty & Lab).
  assert (L : length (a_times a) = length (a_idx a)) by lia.
  unfold c01_domain in DOM. rewrite !andb_true_iff in DOM.
  destruct DOM as [[[NF9 IS] FO] TM].
  pose proof (w_ty1 h a W) as T1.
  rewrite (load_parse_bytes bs h a PA). unfold load_checked.
  replace (h_typecnt h =? 0) with false by lia.
  rewrite (w_leap h a W). cbn [Z.eqb negb].
  replace (negb (h_isstdcnt h =? 0) && negb (h_isstdcnt h =? h_typecnt h)) with false
    by (destruct (w_std h a W); lia).
  replace (negb (h_isutcnt h =? 0) && negb (h_isutcnt h =? h_typecnt h)) with false
    by (destruct (w_ut h a W); lia).
  unfold load_tail.
  rewrite (w_inc h a W). cbn [negb orb].
  replace (forallb time_in_range (a_times a)) with true.
  2:{ symmetry. apply forallb_forall. intros t Ht. unfold time_in_range.
      pose proof (w_lo h a W t Ht). pose proof (w_hi h a W t Ht). lia. }
  cbn [negb].
  replace (forallb (fun i => i <? h_typecnt h) (a_idx a)) with true.
  2:{ symmetry. apply forallb_forall. intros i Hi. pose proof (w_idx h a W i Hi). lia. }
  cbn [negb].
  replace (forallb (fun ty => (tt_off ty <? src_kSecsPerDay) && (- src_kSecsPerDay <? tt_off ty)
                              && (tt_abbr ty <? h_charcnt h)) (mk_types0 (a_types a))) with true.
  2:{ symmetry. apply forallb_forall. intros ty Hty. unfold mk_types0 in Hty. apply in_map_iff in Hty.
      destruct Hty as ([[o d] ai] & <- & Hin). cbn [tt_off tt_abbr fst snd].
      destruct (w_types h a W o d ai Hin). unfold src_kSecsPerDay. lia. }
  cbn [negb]. cbv zeta.
  rewrite (dflt_run h a W Lty). cbn [bind].
  pose proof (trans1_eq a L) as TE. cbv zeta in TE. rewrite TE. clear TE.
  destruct (extend_run h a W L Lty Lab IS) as (types1 & abbrs1 & tail & ext & ly & EX & TAB & Ll & Info & FOut).
  rewrite EX. cbn [bind].
  destruct (table_ok h a types1 abbrs1 (map tr_pair tail) ext ly W L Lty NF9 FO TM Ll Info FOut) as [FB CH].
  assert (Ep : map tr_pair (trans1_of a ++ tail) = (bb_pairs a ++ file_pairs a) ++ map tr_pair tail).
  { rewrite map_app, trans1_pairs. reflexivity. }
  destruct (load_finish (trans1_of a ++ tail) types1 abbrs1 (a_footer a) ext ly) as (z & EZ & Z1 & Z2 & Z3 & Z4 & Z5 & Z6).
  - unfold trans1_of. destruct (bb_pairs a ++ file_pairs a) as [|p ps] eqn:E.
    + exfalso. pose proof (pairs_last a L) as PL. rewrite E in PL. discriminate PL.
    + discriminate.
  - exact TAB.
  - lia.
  - rewrite Ep. exact FB.
  - rewrite Ep. exact CH.
  - exists z, (map tr_pair tail). split; [exact EZ|]. split; [rewrite Z1, Ep; reflexivity|].
    split; [exact Z2|]. split.
    + intros i Hi. rewrite Z6. apply Info. exact Hi.
    + rewrite Z4, Z5. apply (footer_out_ext a types1 abbrs1); [exact Z6|exact FOut].
Qed.


(* ================================================================== *)
(* Part 14.  The type index in force, from the table of pairs           *)

Lemma zid_pairs z t : zid (abs_zone z) t = lastle (map tr_pair (z_trans z)) (z_default z) t.
Proof.
  rewrite abs_zone_eq. unfold zid. cbn [zz_tr zz_did]. rewrite zid_lastle. unfold absl.
  rewrite map_map. reflexivity.
Qed.

Lemma zoff_zid_list z : forall l c t,
  zoff_list (map (absf z) l) (off_of z c) t = off_of z (zid_list (map (absf z) l) c t).
Proof.
  induction l as [|tr r IH]; intros c t; [reflexivity|].
  cbn [map zoff_list zid_list absf zt_time zt_off zt_id].
  destruct (tr_time tr <=? t); [apply IH|reflexivity].
Qed.

Lemma zoff_zid z t : zoff (abs_zone z) t = off_of z (zid (abs_zone z) t).
Proof. rewrite abs_zone_eq. unfold zoff, zid. cbn [zz_tr zz_doff zz_did]. apply zoff_zid_list. Qed.

Lemma info_tyinfo z i dst ab : info_of z i = OK (dst, ab) ->
  tyinfo (z_types z) (z_abbrs z) i = Some (off_of z i, dst, ab).
Proof.
  unfold info_of, tyinfo, off_of, nth_res. destruct (i <? 0); [discriminate|].
  destruct (nth_error (z_types z) (Z.to_nat i)) as [ty|]; [|discriminate]. cbn [bind].
  unfold cstr_from. destruct ((tt_abbr ty <? 0) || (Z.of_nat (length (z_abbrs z)) <? tt_abbr ty)); [discriminate|].
  cbn [bind]. intros H. inversion H; subst. reflexivity.
Qed.

(* lastle over the file's transitions follows count_le *)
Lemma lastle_file rest t : forall times idx cur, length times = length idx ->
  lastle (combine times idx ++ rest) cur t =
  let c := match count_le times t with O => cur | S k' => nthZ idx k' end in
  if Nat.eqb (count_le times t) (length times) then lastle rest c t else c.
Proof.
  induction times as [|x r IH]; intros idx cur L.
  - destruct idx; [|discriminate]. reflexivity.
  - destruct idx as [|i is]; [discriminate|]. cbn [combine app lastle fst snd count_le].
    destruct (x <=? t).
    + rewrite (IH is i ltac:(cbn [length] in L; lia)). cbv zeta. cbn [length Nat.eqb].
      destruct (count_le r t) as [|k']; reflexivity.
    + reflexivity.
Qed.

Lemma lastle_bb a X t : (t < big_bang -> lastle X 0 t = 0) ->
  lastle (bb_pairs a ++ X) 0 t = lastle X 0 t.
Proof.
  intros H. unfold bb_pairs.
  assert (K : lastle ([(big_bang, 0)] ++ X) 0 t = lastle X 0 t).
  { cbn [app lastle fst snd]. destruct (Z.leb_spec big_bang t); [reflexivity|]. symmetry. apply H. lia. }
  destruct (a_times a) as [|t0 ts]; [exact K|]. destruct (0 <=? t0); [exact K|reflexivity].
Qed.

(* the index of the last file transition *)
Lemma last_pair_snd a : length (a_times a) = length (a_idx a) ->
  snd (last_pair a) = match length (a_times a) with O => 0 | S k' => nthZ (a_idx a) k' end.
Proof.
  intros L. unfold last_pair.
  destruct (last_opt (a_times a)) as [t|] eqn:Et.
  - destruct (last_opt (a_idx a)) as [i|] eqn:Ei.
    + cbn [snd]. destruct (last_opt_nth _ _ Ei) as [Hn Hl]. rewrite L.
      destruct (length (a_idx a)) as [|k']; [lia|].
      replace (S k' - 1)%nat with k' in Hn by lia. symmetry. apply nthZ_nth_error. exact Hn.
    + exfalso. destruct (last_opt_nth _ _ Et) as [_ Hl]. rewrite L in Hl.
      destruct (a_idx a); [cbn in Hl; lia|]. destruct (last_opt_cons_some z l) as [y Ey]. congruence.
  - cbn [snd]. destruct (a_times a) as [|t0 ts]; [reflexivity|].
    destruct (last_opt_cons_some t0 ts) as [y Ey]. congruence.
Qed.

Lemma last_pair_fst a k' : length (a_times a) = length (a_idx a) -> length (a_times a) = S k' ->
  fst (last_pair a) = nthZ (a_times a) k'.
Proof.
  intros L Hn. unfold last_pair.
  destruct (last_opt (a_times a)) as [t|] eqn:Et.
  - destruct (last_opt_nth _ _ Et) as [Hnt _]. rewrite Hn in Hnt.
    replace (S k' - 1)%nat with k' in Hnt by lia.
    destruct (last_opt (a_idx a)) as [i|] eqn:Ei.
    + cbn [fst]. symmetry. apply nthZ_nth_error. exact Hnt.
    + exfalso. destruct (a_idx a); [cbn in L; lia|]. destruct (last_opt_cons_some z l) as [y Ey]. congruence.
  - exfalso. destruct (a_times a) as [|t0 ts]; [discriminate|].
    destruct (last_opt_cons_some t0 ts) as [y Ey]. congruence.
Qed.

(* ---- the generated window carries the kind the specification names ---- *)
Section Window.
Variable r : rule.
Hypothesis HG : forall y, radj_g r y.
Hypothesis TP : tameP r.
Variables (std_ti dst_ti lt y0 : Z).
Hypothesis Hy0 : 86400 * days_from_civil y0 1 1 - 86400 <= lt.
Local Notation gen := (rule_gen' r std_ti dst_ti lt y0 402).

Lemma inst_le_mono y y' b b' : y < y' -> inst r y b < inst r y' b'.
Proof. intros H. pose proof (inst_lt_g r HG y y' b b' H). pose proof (gap_r_nonneg r). lia. Qed.

Lemma after_next_next t y b : year_of_instant t + 1 < y -> t < inst r y b.
Proof.
  intros H. pose proof (TP y b) as Ty. pose proof (instant_before_next_year t) as Nx.
  pose proof (dfc_year_mono (year_of_instant t + 1) y ltac:(lia)). lia.
Qed.

Lemma window_lookup t cur : lt <= t -> (exists eL, In eL gen /\ t < fst eL) ->
  lastle gen cur t =
  match latest_le (rule_candidates r (year_of_instant t)) lt t with
  | Some (_, b) => tyof std_ti dst_ti b
  | None => cur
  end.
Proof.
  intros Hlt (eL & HeL & HtL).
  assert (Hadj : forall y, radj r y) by (intros y; apply radj_of_g; exact HG).
  set (Yt := year_of_instant t).
  destruct (latest_le (rule_candidates r Yt) lt t) as [[x b]|] eqn:E.
  - destruct (latest_le_spec _ _ _ _ E) as (Hin & Hw & Hmax). cbn [fst] in Hw.
    destruct (cand_inv r Yt x b Hin) as (yx & Hyx & ->).
    assert (Core : lastle (map (liftg Z (fun v => v)) gen) cur t = tyof std_ti dst_ti b).
    { apply (gen_core r Hadj Z (fun v => v) std_ti dst_ti lt t 402 y0 cur yx b).
      - split.
        + destruct (Z_le_gt_dec y0 yx) as [Le|Gt]; [exact Le|exfalso].
          pose proof (TP yx b) as Ty. pose proof (dfc_year_mono (yx + 1) y0 ltac:(lia)). lia.
        + destruct (gen_in' r std_ti dst_ti lt _ _ _ HeL) as (yL & bL & HyL & -> & _). cbn [fst] in HtL.
          change (Z.of_nat 402) with 402 in *.
          destruct (Z_lt_le_dec yx (y0 + 402)) as [Lt|Ge]; [exact Lt|exfalso].
          pose proof (inst_le_mono yL yx bL b ltac:(lia)). lia.
      - lia.
      - lia.
      - intros y b'.
        destruct (Z_lt_le_dec y (Yt - 1)) as [L1|L1].
        { left. pose proof (inst_le_mono y yx b' b ltac:(lia)). lia. }
        destruct (Z_lt_le_dec (Yt + 1) y) as [G|G].
        { right. apply after_next_next. exact G. }
        destruct (Z_lt_le_dec t (inst r y b')) as [T|T]; [right; exact T|left].
        destruct (Z_lt_le_dec lt (inst r y b')) as [W|W].
        + exact (Hmax _ (cand_in r Yt y b' ltac:(lia)) ltac:(cbn [fst]; lia)).
        + lia. }
    rewrite <- Core. f_equal.
    rewrite <- (map_id gen) at 1. apply map_ext. intros [p q]. reflexivity.
  - apply lastle_gt. intros e He.
    destruct (gen_in' r std_ti dst_ti lt _ _ _ He) as (y & b & Hy & -> & Hl). cbn [fst].
    destruct (Z_lt_le_dec t (inst r y b)) as [T|T]; [exact T|exfalso].
    destruct (Z_lt_le_dec (Yt + 1) y) as [G|G].
    { pose proof (after_next_next t y b G). lia. }
    destruct (Z_lt_le_dec y (Yt - 1)) as [L1|L1].
    + (* an earlier year: the instants of year Yt - 1 are then in the window too *)
      pose proof (inst_le_mono y (Yt - 1) b true L1) as M.
      pose proof (TP (Yt - 1) true) as Ty. pose proof (instant_after_year_start t) as A. fold Yt in A.
      replace (Yt - 1 + 1) with Yt in Ty by lia.
      exact (latest_le_none _ _ _ E _ (cand_in r Yt (Yt - 1) true ltac:(lia)) ltac:(cbn [fst]; lia)).
    + exact (latest_le_none _ _ _ E _ (cand_in r Yt y b ltac:(lia)) ltac:(cbn [fst]; lia)).
Qed.

End Window.


(* ================================================================== *)
(* Part 15.  STAGE B and the generated window: inside the table the type in
   force is the one the file designates                                  *)

(* everything known about a zone with a DST-rule footer *)
Record rule_shape (h : header) (a : ast) (r : rule) (types1 : list ttype) (abbrs1 : list Z)
       (tailp : list (Z * Z)) (std_ti dst_ti lt y0 : Z) : Prop := mkRS {
  rs_tail : tailp = rule_gen' r std_ti dst_ti lt y0 402;
  rs_lt : last_opt (a_times a) = Some lt;
  rs_pos : 0 <= lt;
  rs_fst : fst (last_pair a) = lt;
  rs_y0 : 86400 * days_from_civil y0 1 1 <= lt + aoff a (snd (last_pair a)) < 86400 * days_from_civil (y0 + 1) 1 1;
  rs_off : -86400 < aoff a (snd (last_pair a)) < 86400;
  rs_tame : tameP r;
  rs_g : forall y, radj_g r y;
  rs_std : tyinfo types1 abbrs1 std_ti = Some (r_std r);
  rs_dst : tyinfo types1 abbrs1 dst_ti = Some (r_dst r);
  rs_far : forall e, In e tailp -> lt + 172800 < fst e;
  rs_nos : sentinel_pairs ((bb_pairs a ++ file_pairs a) ++ tailp) = []
}.

Lemma frule_shape h a r types1 abbrs1 tailp ext ly : wfp h a ->
  length (a_times a) = length (a_idx a) -> length (a_types a) = Z.to_nat (h_typecnt h) ->
  not_f9 a = true -> rule_tame a = true ->
  footer_kind_of a = FRule r -> footer_out a types1 abbrs1 tailp ext ly ->
  ext = true /\ exists std_ti dst_ti lt y0, rule_shape h a r types1 abbrs1 tailp std_ti dst_ti lt y0.
Proof.
  intros W L LT NF9 TM FK FOut.
  unfold footer_out in FOut. unfold not_f9 in NF9. unfold rule_tame in TM. rewrite FK in *.
  destruct FOut as (Hext & std_ti & dst_ti & lt & y0 & LIY & Is & Id & Etail & _).
  split; [exact Hext|]. exists std_ti, dst_ti.
  assert (Elt : exists lt', last_opt (a_times a) = Some lt' /\ 0 <= lt').
  { unfold last_opt. destruct (rev (a_times a)) as [|lt' rs]; [discriminate NF9|].
    exists lt'. split; [reflexivity|lia]. }
  destruct Elt as (lt' & Elt & Hpos).
  destruct (last_pair_times a lt' L Elt) as [Ef Ei].
  pose proof (last_pair_idx h a W) as Rli. pose proof (last_pair_time h a W) as Rlt.
  destruct (last_spec a L) as [_ LS2]. specialize (LS2 (default_zero h a W)).
  destruct (type_info_some h a _ W LT Rli) as (o & d & s & Eo & Bo).
  assert (Eao : aoff a (snd (last_pair a)) = o) by (unfold aoff; rewrite Eo; reflexivity).
  rewrite Eo, Ef in LS2.
  assert (lt = lt' /\ y0 = fy (cos (lt' + o))) as [-> Ey0] by (split; congruence).
  exists lt', y0.
  pose proof (tame_all r TM) as TP.
  pose proof (w_fr h a W) as FR. unfold footer_rule_ok in FR. cbn [szone_of sz_footer] in FR.
  rewrite FK in FR. apply andb_true_iff in FR. destruct FR as [RO _].
  pose proof (rule_ok_radj_g r RO) as HG.
  pose proof (seam_far h a r std_ti dst_ti lt' y0 W L LT FK TP Elt LIY) as SF.
  pose proof (pairs_last a L) as PL.
  split; auto.
  - rewrite Eao. pose proof (instant_after_year_start (lt' + o)) as A1.
    pose proof (instant_before_next_year (lt' + o)) as A2.
    unfold year_of_instant in A1, A2. rewrite <- Ey0 in A1, A2. lia.
  - rewrite Eao. exact Bo.
  - rewrite Etail. exact SF.
  - unfold sentinel_pairs. rewrite last_opt_app2.
    destruct (last_opt tailp) as [p|] eqn:El.
    + apply last_opt_In in El. rewrite Etail in El. pose proof (SF p El).
      destruct (Z.ltb_spec (fst p) 0); [lia|reflexivity].
    + rewrite PL, Ef. destruct (Z.ltb_spec lt' 0); [lia|reflexivity].
Qed.

Lemma nthZ_in l k : (k < length l)%nat -> In (nthZ l k) l.
Proof. intros H. unfold nthZ. apply nth_In. exact H. Qed.

Lemma lastle_single (s c : Z) t : lastle [(s, c)] c t = c.
Proof. cbn [lastle fst snd]. destruct (s <=? t); reflexivity. Qed.

Lemma tyinfo_len_le a types abbrs :
  (forall i, 0 <= i < Z.of_nat (length (a_types a)) -> tyinfo types abbrs i = type_info a i) ->
  (forall i, 0 <= i < Z.of_nat (length (a_types a)) -> exists x, type_info a i = Some x) ->
  (length (a_types a) <= length types)%nat.
Proof.
  intros Info Some_. destruct (le_lt_dec (length (a_types a)) (length types)) as [Le|Gt]; [exact Le|exfalso].
  destruct (Some_ (Z.of_nat (length types)) ltac:(lia)) as [x Ex].
  pose proof (Info (Z.of_nat (length types)) ltac:(lia)) as E. rewrite Ex in E.
  destruct (tyinfo_inv _ _ _ _ E) as [R _]. lia.
Qed.

(* the setting shared by stages B, C, D *)
Record loaded (h : header) (a : ast) (z : zone) (tailp : list (Z * Z)) : Prop := mkLD {
  ld_w : wfp h a;
  ld_len : length (a_times a) = length (a_idx a);
  ld_lty : length (a_types a) = Z.to_nat (h_typecnt h);
  ld_nf9 : not_f9 a = true;
  ld_tame : rule_tame a = true;
  ld_bf : bfacts z;
  ld_pairs : map tr_pair (z_trans z) = table_pairs a tailp;
  ld_dflt : z_default z = 0;
  ld_info : forall i, 0 <= i < Z.of_nat (length (a_types a)) ->
            tyinfo (z_types z) (z_abbrs z) i = type_info a i;
  ld_fout : footer_out a (z_types z) (z_abbrs z) tailp (z_extended z) (z_last_year z)
}.

Lemma table_lookup h a z tailp t : loaded h a z tailp ->
  (z_extended z = false \/ (forall l, last_opt (z_trans z) = Some l -> t < tr_time l)) ->
  tyinfo (z_types z) (z_abbrs z) (zid (abs_zone z) t) = spec_info (szone_of a) t.
Proof.
  intros LD Hreg.
  destruct LD as [W L LT NF9 TM BF PAIRS DFLT Info FOut].
  pose proof (w_ty1 h a W) as T1. pose proof (default_zero h a W) as D0.
  rewrite zid_pairs, PAIRS, DFLT. unfold table_pairs.
  rewrite <- !app_assoc.
  rewrite lastle_bb.
  2:{ intros Hbb. apply lastle_gt. intros e He.
      assert (Hin : In e (table_pairs a tailp)).
      { unfold table_pairs. rewrite <- !app_assoc. apply in_or_app. right. exact He. }
      rewrite <- PAIRS in Hin. apply in_map_iff in Hin. destruct Hin as (tr & <- & Htr).
      destruct (bf_trs z BF tr Htr) as [_ B]. cbn [tr_pair fst].
      unfold big_bang, src_big_bang_shift in Hbb. lia. }
  unfold file_pairs at 1. rewrite (lastle_file _ t _ _ 0 L). cbv zeta.
  destruct (count_le_split (a_times a) t (w_inc h a W)) as (CS1 & CS2 & CS3).
  set (k := count_le (a_times a) t) in *. set (n := length (a_times a)) in *.
  (* the type in force inside the file part, and its designation *)
  set (c := match k with O => 0 | S k' => nthZ (a_idx a) k' end).
  assert (Hc : 0 <= c < h_typecnt h).
  { unfold c. destruct k as [|k']; [lia|]. apply (w_idx h a W). apply nthZ_in. fold n in L. lia. }
  assert (Tc : tyinfo (z_types z) (z_abbrs z) c = type_info a c) by (apply Info; lia).
  (* what the specification says below the end of the file's transitions *)
  assert (Sfile : (k < n)%nat -> spec_info (szone_of a) t = type_info a c).
  { intros Hk. unfold spec_info. cbn [szone_of sz_ast sz_default sz_footer]. fold k. fold n. rewrite D0.
    unfold c. destruct k as [|k'].
    - destruct (a_times a) as [|t0 ts] eqn:Et; [exfalso; unfold n in Hk; cbn [length] in Hk; lia|reflexivity].
    - replace (Nat.eqb (S k') n) with false by (symmetry; apply Nat.eqb_neq; lia). reflexivity. }
  destruct (Nat.eqb_spec k n) as [Ekn|Nkn].
  2:{ rewrite Tc. symmetry. apply Sfile. lia. }
  (* at or after the last transition of the file *)
  assert (Eli : snd (last_pair a) = c).
  { rewrite (last_pair_snd a L). fold n. unfold c. rewrite Ekn. reflexivity. }
  destruct (footer_kind_of a) as [| |x|r] eqn:FK.
  - (* no footer *)
    unfold footer_out in FOut. rewrite FK in FOut. destruct FOut as [_ ->]. cbn [app].
    unfold sentinel_pairs. rewrite app_nil_r, (pairs_last a L), Eli.
    assert (K : lastle (if fst (last_pair a) <? 0 then [(src_second_half_sentinel, c)] else []) c t = c)
      by (destruct (fst (last_pair a) <? 0); [apply lastle_single|reflexivity]).
    rewrite K, Tc.
    unfold spec_info. cbn [szone_of sz_ast sz_default sz_footer]. fold k. fold n. rewrite D0, FK.
    unfold c. destruct k as [|k'].
    + destruct (a_times a); reflexivity.
    + destruct (Nat.eqb (S k') n); reflexivity.
  - unfold footer_out in FOut. rewrite FK in FOut. contradiction.
  - (* fixed footer *)
    unfold footer_out in FOut. rewrite FK in FOut. destruct FOut as [_ ->]. cbn [app].
    unfold sentinel_pairs. rewrite app_nil_r, (pairs_last a L), Eli.
    assert (K : lastle (if fst (last_pair a) <? 0 then [(src_second_half_sentinel, c)] else []) c t = c)
      by (destruct (fst (last_pair a) <? 0); [apply lastle_single|reflexivity]).
    rewrite K, Tc.
    unfold spec_info. cbn [szone_of sz_ast sz_default sz_footer]. fold k. fold n. rewrite D0, FK.
    unfold c. destruct k as [|k'].
    + destruct (a_times a); reflexivity.
    + destruct (Nat.eqb (S k') n); reflexivity.
  - (* a DST rule: the generated window *)
    destruct (frule_shape h a r _ _ tailp _ _ W L LT NF9 TM FK FOut) as (Hext & std_ti & dst_ti & lt & y0 & RS).
    destruct RS as [Etail Elt Hpos Ef Hy0 Hoff TP HG Is Id SF NoS].
    pose proof NoS as NoS'. rewrite <- app_assoc in NoS'. rewrite NoS', app_nil_r.
    (* n > 0 and t >= lt *)
    assert (En : exists k', length (a_times a) = S k').
    { destruct (a_times a); [discriminate Elt|eexists; reflexivity]. }
    destruct En as [k' En].
    assert (Elt' : lt = nthZ (a_times a) k').
    { rewrite <- Ef. apply last_pair_fst; [exact L|exact En]. }
    fold n in En.
    assert (Hge : lt <= t).
    { apply CS1. rewrite Ekn, En.
      replace (firstn (S k') (a_times a)) with (a_times a).
      - rewrite Elt'. apply nthZ_in. lia.
      - symmetry. apply firstn_all2. lia. }
    (* the table does not end at lt *)
    destruct Hreg as [Hne|Hreg]; [congruence|].
    assert (HeL : exists eL, In eL (rule_gen' r std_ti dst_ti lt y0 402) /\ t < fst eL).
    { destruct (bf_last z BF) as (l & Hl & _). specialize (Hreg l Hl).
      assert (PL : last_opt (table_pairs a tailp) = Some (tr_pair l)).
      { rewrite <- PAIRS, last_opt_map, Hl. reflexivity. }
      unfold table_pairs in PL. rewrite NoS, app_nil_r, last_opt_app2 in PL.
      destruct (last_opt tailp) as [p|] eqn:Ep.
      - inversion PL; subst p. apply last_opt_In in Ep. rewrite Etail in Ep.
        exists (tr_pair l). split; [exact Ep|exact Hreg].
      - rewrite (pairs_last a L) in PL. inversion PL as [E1]. exfalso.
        assert (tr_time l = lt) by (rewrite <- Ef, E1; reflexivity). lia. }
    rewrite Etail.
    rewrite (window_lookup r HG TP std_ti dst_ti lt y0 ltac:(lia) t c Hge HeL).
    unfold spec_info. cbn [szone_of sz_ast sz_default sz_footer]. fold k. rewrite Ekn, FK.
    fold n. rewrite En, Nat.eqb_refl, <- Elt'.
    destruct (latest_le (rule_candidates r (year_of_instant t)) lt t) as [[x [|]]|].
    + exact Id.
    + exact Is.
    + rewrite Tc. unfold c. rewrite Ekn, En. reflexivity.
Qed.


(* ================================================================== *)
(* Part 16.  STAGE C (beyond the table) and STAGE D (the whole theorem)  *)

Lemma count_le_all : forall l t, (forall x, In x l -> x <= t) -> count_le l t = length l.
Proof.
  induction l as [|x r IH]; intros t H; [reflexivity|]. cbn [count_le length].
  pose proof (H x (or_introl eq_refl)). destruct (Z.leb_spec x t); [|lia].
  f_equal. apply IH. intros y Hy. apply H. right; exact Hy.
Qed.

Lemma si_last_max : forall l m, strictly_increasing l = true -> last_opt l = Some m ->
  forall x, In x l -> x <= m.
Proof.
  induction l as [|y r IH]; intros m SI E x Hx; [destruct Hx|].
  destruct r as [|y' r'].
  - inversion E; subst. destruct Hx as [<-|[]]. lia.
  - rewrite last_opt_cons2 in E. pose proof (IH m (si_tail _ _ SI) E) as I1.
    destruct Hx as [<-|Hx]; [|apply I1; exact Hx].
    pose proof (si_head_lt _ _ SI y' (or_introl eq_refl)). pose proof (I1 y' (or_introl eq_refl)). lia.
Qed.

(* the designation at or after the last transition of a file with a DST rule *)
Lemma spec_info_after a r k' lt t : strictly_increasing (a_times a) = true ->
  footer_kind_of a = FRule r -> length (a_times a) = S k' -> last_opt (a_times a) = Some lt ->
  lt <= t ->
  spec_info (szone_of a) t =
  match latest_le (rule_candidates r (year_of_instant t)) lt t with
  | Some (_, true) => Some (r_dst r)
  | Some (_, false) => Some (r_std r)
  | None => type_info a (nthZ (a_idx a) k')
  end.
Proof.
  intros SI FK En Elt Hge. unfold spec_info. cbn [szone_of sz_ast sz_default sz_footer].
  rewrite (count_le_all (a_times a) t).
  2:{ intros x Hx. pose proof (si_last_max _ _ SI Elt x Hx). lia. }
  rewrite En, Nat.eqb_refl, FK.
  destruct (last_opt_nth _ _ Elt) as [Hn _]. rewrite En in Hn.
  replace (S k' - 1)%nat with k' in Hn by lia. rewrite (nthZ_nth_error _ _ _ Hn). reflexivity.
Qed.

Section Far.
Variable r : rule.
Hypothesis HG : forall y, radj_g r y.
Hypothesis TP : tameP r.

(* lowering the lower end of the window does not change the kind of the latest instant *)
Lemma ll_lower Y lo lo' t e : lo' <= lo ->
  latest_le (rule_candidates r Y) lo t = Some e ->
  exists e', latest_le (rule_candidates r Y) lo' t = Some e' /\ snd e' = snd e.
Proof.
  intros Hlo E.
  destruct (latest_le_spec _ _ _ _ E) as (Hin & Hw & Hmax).
  destruct (latest_le_some (rule_candidates r Y) lo' t e Hin ltac:(lia)) as [e' E'].
  exists e'. split; [exact E'|].
  destruct (latest_le_spec _ _ _ _ E') as (Hin' & Hw' & Hmax').
  pose proof (Hmax' e Hin ltac:(lia)) as M1.
  pose proof (Hmax e' Hin' ltac:(lia)) as M2.
  destruct e as [x b], e' as [x' b']. cbn [fst snd] in *.
  destruct (cand_inv r Y x b Hin) as (y & _ & Ex). destruct (cand_inv r Y x' b' Hin') as (y' & _ & Ex').
  assert (x = x') by lia. subst x x'.
  destruct (inst_inj r HG y' y b' b ltac:(congruence)) as [_ Eb]. exact Eb.
Qed.

(* the kind of the latest instant is 400-year periodic once an instant lies in the window *)
Lemma ll_period lt t' k : 0 <= k ->
  (exists e0, In e0 (rule_candidates r (year_of_instant t')) /\ lt < fst e0 <= t') ->
  exists x b x' b',
    latest_le (rule_candidates r (year_of_instant t')) lt t' = Some (x', b') /\
    latest_le (rule_candidates r (year_of_instant (t' + P400 * k))) lt (t' + P400 * k) = Some (x, b) /\
    b = b'.
Proof.
  intros Hk (e0 & Hin0 & Hw0).
  destruct (latest_le_some _ lt t' e0 Hin0 Hw0) as [[x' b'] E'].
  assert (0 <= P400 * k) by (rewrite P400_val; lia).
  destruct (ll_lower _ lt (lt - P400 * k) t' _ ltac:(lia) E') as ([x2 b2] & E2 & Eb). cbn [snd] in Eb.
  exists (x2 + P400 * k), b2, x', b'. split; [exact E'|]. split; [|exact Eb].
  rewrite year_of_instant_period, rule_candidates_period.
  replace lt with (lt - P400 * k + P400 * k) at 1 by lia.
  rewrite latest_le_shift, E2. reflexivity.
Qed.

End Far.

Lemma dfc_1970_le y : 0 <= days_from_civil y 1 1 -> 1970 <= y.
Proof.
  intros H. destruct (Z_le_gt_dec 1970 y) as [L|G]; [exact L|exfalso].
  pose proof (dfc_year_mono y 1970 ltac:(lia)) as M. rewrite dfc_epoch in M. lia.
Qed.

Lemma far_lookup h a z tailp t l : loaded h a z tailp ->
  z_extended z = true -> last_opt (z_trans z) = Some l -> tr_time l <= t ->
  P400 <= tr_time l /\
  forall k, 1 <= k -> tr_time l - P400 <= t - k * P400 < tr_time l ->
    tyinfo (z_types z) (z_abbrs z) (zid (abs_zone z) (t - k * P400)) = spec_info (szone_of a) t.
Proof.
  intros LD Hext Hl Hge. pose proof LD as LD0.
  destruct LD as [W L LT NF9 TM BF PAIRS DFLT Info FOut].
  destruct (footer_kind_of a) as [| |x|r] eqn:FK;
    try (unfold footer_out in FOut; rewrite FK in FOut; destruct FOut as [F1 _]; congruence);
    try (unfold footer_out in FOut; rewrite FK in FOut; contradiction).
  destruct (frule_shape h a r _ _ tailp _ _ W L LT NF9 TM FK FOut) as (_ & std_ti & dst_ti & lt & y0 & RS).
  destruct RS as [Etail Elt Hpos Ef Hy0 Hoff TP HG Is Id SF NoS].
  rewrite P400_val.
  set (o := aoff a (snd (last_pair a))) in *.
  set (gen := rule_gen' r std_ti dst_ti lt y0 402) in *.
  assert (Hadj : forall y, radj r y) by (intros y; apply radj_of_g; exact HG).
  (* the instants of the last generated year are in the table *)
  assert (Hlast_year : forall b, In (inst r (y0 + 401) b, tyof std_ti dst_ti b) gen).
  { intros b. apply gen_complete; [change (Z.of_nat 402) with 402; lia|].
    pose proof (TP (y0 + 401) b). pose proof (dfc_year_mono (y0 + 1) (y0 + 401) ltac:(lia)). lia. }
  (* the last entry of the table is a generated instant ... *)
  assert (PL : last_opt gen = Some (tr_pair l)).
  { assert (P0 : last_opt (table_pairs a tailp) = Some (tr_pair l)).
    { rewrite <- PAIRS, last_opt_map, Hl. reflexivity. }
    unfold table_pairs in P0. rewrite NoS, app_nil_r, last_opt_app2, Etail in P0. fold gen in P0.
    destruct (last_opt gen) as [p|] eqn:Ep; [exact P0|].
    exfalso. pose proof (Hlast_year true) as X. unfold last_opt in Ep.
    destruct (rev gen) as [|q qs] eqn:Er; [|discriminate Ep].
    assert (gen = []) by (rewrite <- (rev_involutive gen), Er; reflexivity).
    rewrite H in X. destruct X. }
  pose proof (last_opt_In _ _ PL) as InL.
  destruct (gen_in' r std_ti dst_ti lt _ _ _ InL) as (yL & bL & HyL & EL & HltL).
  change (Z.of_nat 402) with 402 in HyL.
  assert (ELt : tr_time l = inst r yL bL) by (unfold tr_pair in EL; congruence).
  (* ... of the last generated year *)
  assert (EyL : yL = y0 + 401).
  { destruct (Z.eq_dec yL (y0 + 401)) as [E|N]; [exact E|exfalso].
    (* the table is sorted, so its last entry is the largest *)
    assert (Hin : In (inst r (y0 + 401) true, tyof std_ti dst_ti true) (map tr_pair (z_trans z))).
    { rewrite PAIRS. unfold table_pairs. rewrite NoS, app_nil_r. apply in_or_app. right.
      rewrite Etail. apply Hlast_year. }
    apply in_map_iff in Hin. destruct Hin as (tr & Etr & Htr).
    apply In_nth_error in Htr. destruct Htr as [i Hi].
    destruct (last_opt_nth _ _ Hl) as [Hn Hlen].
    destruct (b_tr_facts z i tr BF Hi) as (_ & _ & _ & _ & Na).
    destruct (b_tr_facts z _ l BF Hn) as (_ & _ & _ & _ & Nl).
    pose proof (nth_some_lt _ _ _ Hi) as Hilt.
    pose proof (sortedK_le zt_time (absl z) i (length (z_trans z) - 1) _ _ (bf_st z BF) ltac:(lia) Na Nl) as Le.
    cbn [absf zt_time] in Le.
    assert (tr_time tr = inst r (y0 + 401) true) by (unfold tr_pair in Etr; congruence).
    pose proof (inst_le_mono r HG yL (y0 + 401) bL true ltac:(lia)). lia. }
  subst yL.
  (* it lies beyond the year 2370 *)
  assert (H1970 : 1970 <= y0 + 1) by (apply dfc_1970_le; lia).
  assert (HP : 12622780800 <= tr_time l).
  { pose proof (TP (y0 + 401) bL) as T1.
    pose proof (dfc_year_mono 2370 (y0 + 401) ltac:(lia)) as M.
    assert (days_from_civil 2370 1 1 = 146097).
    { replace 2370 with (1970 + 400 * 1) by lia. rewrite dfc_period, dfc_epoch. lia. }
    lia. }
  split; [exact HP|].
  intros k Hk Ht'. set (t' := t - k * 12622780800) in *.
  (* the shifted instant is inside the generated window, after lt *)
  assert (EM1 : tr_time l - 12622780800 = inst r (y0 + 1) bL).
  { rewrite ELt. replace (y0 + 401) with (y0 + 1 + 400 * 1) by lia. rewrite inst_period. lia. }
  pose proof (TP (y0 + 1) bL) as TM1.
  assert (Hlt' : lt < t') by lia.
  rewrite (table_lookup h a z tailp t' LD0).
  2:{ right. intros l0 Hl0. assert (l0 = l) by congruence. subst l0. lia. }
  assert (En : exists k', length (a_times a) = S k').
  { destruct (a_times a); [discriminate Elt|eexists; reflexivity]. }
  destruct En as [k' En].
  rewrite (spec_info_after a r k' lt t' (w_inc h a W) FK En Elt ltac:(lia)).
  rewrite (spec_info_after a r k' lt t (w_inc h a W) FK En Elt ltac:(lia)).
  (* a candidate in (lt, t'] *)
  assert (Hc : exists e0, In e0 (rule_candidates r (year_of_instant t')) /\ lt < fst e0 <= t').
  { set (Yt := year_of_instant t').
    assert (HY : y0 + 1 <= Yt).
    { unfold Yt. rewrite <- (tame_year r (y0 + 1) bL TP). unfold year_of_instant. apply cos_year_mono. lia. }
    destruct (Z.eq_dec Yt (y0 + 1)) as [E|N].
    - exists (inst r (y0 + 1) bL, bL). split; [apply cand_in; lia|]. cbn [fst]. lia.
    - exists (inst r (Yt - 1) true, true). split; [apply cand_in; lia|]. cbn [fst].
      pose proof (TP (Yt - 1) true) as T2. replace (Yt - 1 + 1) with Yt in T2 by lia.
      pose proof (instant_after_year_start t') as A. fold Yt in A.
      pose proof (dfc_year_mono (y0 + 1) (Yt - 1) ltac:(lia)). lia. }
  destruct (ll_period r HG lt t' k ltac:(lia) Hc) as (x & b & x' & b' & E1 & E2 & Eb).
  rewrite P400_val in E2.
  replace (t' + 12622780800 * k) with t in E2 by (unfold t'; lia).
  rewrite E1, E2, Eb. reflexivity.
Qed.


(* ================================================================== *)
(* Part 17.  STAGE D: the whole-file theorem                            *)

Lemma loaded_of bs h a z tailp :
  parse_ast bs = Some (h, a) -> wf_ast h a = true -> c01_domain h a = true ->
  load_bytes bs = OK (Some z) ->
  map tr_pair (z_trans z) = table_pairs a tailp -> z_default z = 0 ->
  (forall i, 0 <= i < Z.of_nat (length (a_types a)) -> tyinfo (z_types z) (z_abbrs z) i = type_info a i) ->
  footer_out a (z_types z) (z_abbrs z) tailp (z_extended z) (z_last_year z) ->
  loaded h a z tailp.
Proof.
  intros PA WF DOM LB PAIRS DFLT Info FOut.
  destruct (parse_ast_len bs h a PA) as (HO & Lt & Li & Lty & Lab).
  unfold c01_domain in DOM. rewrite !andb_true_iff in DOM.
  destruct DOM as [[[NF9 IS] FO] TM].
  split; auto.
  - exact (wf_wfp h a WF).
  - lia.
  - exact (accepted_bfacts bs z LB).
Qed.

(* the lookup at t reports the designation of the type in force at tau (= t inside the table,
   t moved back by whole 400-year periods beyond it) *)
Lemma lookup_from_info z t tau dst ab (a : ast) :
  info_of z (zid (abs_zone z) tau) = OK (dst, ab) ->
  tyinfo (z_types z) (z_abbrs z) (zid (abs_zone z) tau) = spec_info (szone_of a) t ->
  spec_lookup (szone_of a) t =
    Some (mkSL (cos (t + zoff (abs_zone z) tau)) (zoff (abs_zone z) tau) dst ab).
Proof.
  intros HI HS. apply info_tyinfo in HI. rewrite HS, <- zoff_zid in HI.
  unfold spec_lookup. rewrite HI. reflexivity.
Qed.

Theorem c01_whole : forall bs h a,
  parse_ast bs = Some (h, a) -> wf_ast h a = true -> c01_domain h a = true ->
  exists z, load_bytes bs = OK (Some z) /\
    forall hint t, int64 t ->
      exists al hint',
        break_time z hint t = OK (al, hint') /\
        spec_lookup (szone_of a) t = Some (mkSL (al_cs al) (al_off al) (al_dst al) (al_abbr al)).
Proof.
  intros bs h a PA WF DOM.
  destruct (load_parse_agree bs h a PA WF DOM) as (z & tailp & LB & PAIRS & DFLT & Info & FOut).
  exists z. split; [exact LB|].
  pose proof (loaded_of bs h a z tailp PA WF DOM LB PAIRS DFLT Info FOut) as LD.
  pose proof (ld_bf h a z tailp LD) as BF.
  intros hint t Ht.
  destruct (bf_last z BF) as (l & Hl & _).
  assert (Reg : (z_extended z = false \/ (forall l0, last_opt (z_trans z) = Some l0 -> t < tr_time l0))
                \/ (z_extended z = true /\ tr_time l <= t)).
  { destruct (z_extended z) eqn:E; [|left; left; reflexivity].
    destruct (Z_lt_le_dec t (tr_time l)) as [Lt|Ge]; [|right; split; [reflexivity|exact Ge]].
    left. right. intros l0 Hl0. assert (l0 = l) by congruence. subst l0. exact Lt. }
  destruct Reg as [Reg|[Hext Hge]].
  - (* inside the table *)
    destruct (b_break_table z hint t BF Ht Reg) as (h' & dst & ab & HB & HI).
    eexists _, h'. split; [exact HB|]. cbn [al_cs al_off al_dst al_abbr].
    apply (lookup_from_info z t t dst ab a HI).
    exact (table_lookup h a z tailp t LD Reg).
  - (* beyond the table of an extended zone *)
    destruct (far_lookup h a z tailp t l LD Hext Hl Hge) as [HP HF].
    destruct (b_break_future z hint t l BF Hext Hl HP Ht Hge) as (h' & dst & ab & HB & HI & HR).
    cbv zeta in HB, HI, HR.
    set (k := (t - tr_time l) / P400 + 1) in *.
    assert (Hk : 1 <= k).
    { unfold k. rewrite P400_val. pose proof (Z.div_pos (t - tr_time l) 12622780800 ltac:(lia) ltac:(lia)). lia. }
    eexists _, h'. split; [exact HB|]. cbn [al_cs al_off al_dst al_abbr].
    apply (lookup_from_info z t (t - k * P400) dst ab a HI).
    exact (HF k Hk HR).
Qed.

(* the same, for the zone the loader returns *)
Corollary c01_whole_loaded : forall bs h a z,
  parse_ast bs = Some (h, a) -> wf_ast h a = true -> c01_domain h a = true ->
  load_bytes bs = OK (Some z) ->
  forall hint t, int64 t ->
    exists al hint',
      break_time z hint t = OK (al, hint') /\
      spec_lookup (szone_of a) t = Some (mkSL (al_cs al) (al_off al) (al_dst al) (al_abbr al)).
Proof.
  intros bs h a z PA WF DOM LB.
  destruct (c01_whole bs h a PA WF DOM) as (z' & LB' & H).
  assert (z' = z) by congruence. subst z'. exact H.
Qed.


(* ================================================================== *)
(* Part 18.  The side conditions of c01_domain are needed: machine-checked
   witnesses (each file is wf_ast and satisfies every OTHER clause), and a
   non-vacuity witness                                                   *)

Definition be_bytes' (n : nat) (v : Z) : list Z :=
  (fix go (n : nat) (v : Z) (acc : list Z) :=
     match n with O => acc | S n' => go n' (v / 256) (v mod 256 :: acc) end) n v [].
Definition hdr' (timecnt typecnt charcnt : Z) : list Z :=
  [84; 90; 105; 102; 50] ++ repeat 0 15 ++ be_bytes' 4 0 ++ be_bytes' 4 0 ++ be_bytes' 4 0
  ++ be_bytes' 4 timecnt ++ be_bytes' 4 typecnt ++ be_bytes' 4 charcnt.
Definition tt' (off dst ab : Z) : list Z := be_bytes' 4 (if off <? 0 then off + 4294967296 else off) ++ [dst; ab].
Definition t64' (t : Z) : list Z := be_bytes' 8 (if t <? 0 then t + 18446744073709551616 else t).

Definition dom_clauses (h : header) (a : ast) : list bool :=
  [not_f9 a; index_space_ok h a; footer_offsets_ok a; rule_tame a].

Fixpoint bools_eqb (x y : list bool) : bool :=
  match x, y with
  | [], [] => true
  | a :: x', b :: y' => Bool.eqb a b && bools_eqb x' y'
  | _, _ => false
  end.
Lemma bools_eqb_eq x y : bools_eqb x y = true -> x = y.
Proof.
  revert y. induction x as [|a x IH]; intros [|b y] H; try discriminate; [reflexivity|].
  cbn [bools_eqb] in H. apply andb_true_iff in H. destruct H as [H1 H2].
  apply Bool.eqb_prop in H1. subst. f_equal. apply IH. exact H2.
Qed.

(* a file that is well-formed, fails exactly the named clauses, and is REJECTED by Load() *)
Definition rejected_witness (bs : list Z) (clauses : list bool) : bool :=
  match parse_ast bs, load_bytes bs with
  | Some (h, a), OK None => wf_ast h a && bools_eqb (dom_clauses h a) clauses
  | _, _ => false
  end.

Lemma rejected_witness_sound bs clauses : rejected_witness bs clauses = true ->
  exists h a, parse_ast bs = Some (h, a) /\ wf_ast h a = true /\
    dom_clauses h a = clauses /\ load_bytes bs = OK None.
Proof.
  unfold rejected_witness. destruct (parse_ast bs) as [[h a]|]; [|discriminate].
  destruct (load_bytes bs) as [[z|]|]; try discriminate.
  intros H. apply andb_true_iff in H. destruct H as [H1 H2]. apply bools_eqb_eq in H2.
  exists h, a. auto.
Qed.

(* R1 (the former clause no_dup_info, now unnecessary): types 0 and 1 both "UTC"/0/std through
   different abbreviation indices, footer UTC0: GetTransitionType returns type 0 and
   EquivTransitions(1, 0) used to compare the indices 4 and 0 => Load() REJECTED the file.
   With the abbreviation TEXT compared (C11 fix) the same bytes are in the domain, are ACCEPTED,
   and BreakTime agrees with spec_lookup (checked by computation at six instants, and at
   every int64 instant by c01_whole_loaded). *)
Definition r1_file : list Z :=
  hdr' 0 0 0 ++ hdr' 1 2 8 ++ t64' 0 ++ [1]
  ++ tt' 0 0 0 ++ tt' 0 0 4 ++ [85;84;67;0;85;84;67;0] ++ [10] ++ [85;84;67;48] ++ [10].

(* types 0 and 1 of the file: the same designation under different abbreviation indices *)
Definition dup_designation (a : ast) : bool :=
  match a_types a with
  | (_, _, i1) :: (_, _, i2) :: _ =>
      negb (i1 =? i2) &&
      match type_info a 0, type_info a 1 with
      | Some x, Some y => tinfo_eqb x y
      | _, _ => false
      end
  | _ => false
  end.

Definition agree_at (z : zone) (a : ast) (t : Z) : bool :=
  match break_time z 0 t, spec_lookup (szone_of a) t with
  | OK (al, _), Some sl =>
      fields_eqb (al_cs al) (sl_cs sl) && (al_off al =? sl_off sl) &&
      Bool.eqb (al_dst al) (sl_dst sl) && list_eqb (al_abbr al) (sl_abbr sl)
  | _, _ => false
  end.

Lemma agree_at_sound z a t : agree_at z a t = true ->
  exists al hint', break_time z 0 t = OK (al, hint') /\
    spec_lookup (szone_of a) t = Some (mkSL (al_cs al) (al_off al) (al_dst al) (al_abbr al)).
Proof.
  unfold agree_at. destruct (break_time z 0 t) as [[al hint']|]; [|discriminate].
  destruct (spec_lookup (szone_of a) t) as [[cs o d ab]|]; [|discriminate].
  cbn [sl_cs sl_off sl_dst sl_abbr]. rewrite !andb_true_iff.
  intros [[[H1 H2] H3] H4].
  apply fields_eqb_eq in H1. apply Z.eqb_eq in H2. apply Bool.eqb_prop in H3. apply list_eqb_eq in H4.
  subst. exists al, hint'. split; reflexivity.
Qed.

(* a file that is well-formed, has the named clause values, satisfies `extra`, is ACCEPTED by
   Load(), and on which BreakTime agrees with spec_lookup at each listed instant *)
Definition accepted_witness (bs : list Z) (clauses : list bool) (extra : ast -> bool) (ts : list Z) : bool :=
  match parse_ast bs, load_bytes bs with
  | Some (h, a), OK (Some z) =>
      wf_ast h a && bools_eqb (dom_clauses h a) clauses && extra a && forallb (agree_at z a) ts
  | _, _ => false
  end.

Lemma accepted_witness_sound bs clauses extra ts : accepted_witness bs clauses extra ts = true ->
  exists h a z, parse_ast bs = Some (h, a) /\ wf_ast h a = true /\
    dom_clauses h a = clauses /\ extra a = true /\ load_bytes bs = OK (Some z) /\
    forall t, In t ts -> exists al hint', break_time z 0 t = OK (al, hint') /\
      spec_lookup (szone_of a) t = Some (mkSL (al_cs al) (al_off al) (al_dst al) (al_abbr al)).
Proof.
  unfold accepted_witness. destruct (parse_ast bs) as [[h a]|]; [|discriminate].
  destruct (load_bytes bs) as [[z|]|]; try discriminate.
  intros H. rewrite !andb_true_iff in H. destruct H as [[[H1 H2] H3] H4].
  apply bools_eqb_eq in H2. rewrite forallb_forall in H4.
  exists h, a, z. repeat split; try assumption.
  intros t Ht. apply agree_at_sound. apply H4. exact Ht.
Qed.

Lemma dom_clauses_all h a : dom_clauses h a = [true; true; true; true] -> c01_domain h a = true.
Proof.
  unfold dom_clauses, c01_domain. intros H. injection H as H1 H2 H3 H4.
  rewrite H1, H2, H3, H4. reflexivity.
Qed.

Lemma r1_duplicate_designation_now_accepted :
  exists h a z, parse_ast r1_file = Some (h, a) /\ wf_ast h a = true /\
    c01_domain h a = true /\ dup_designation a = true /\
    load_bytes r1_file = OK (Some z) /\
    (forall t, In t [min64; -1; 0; 1; 946684800; max64] ->
       exists al hint', break_time z 0 t = OK (al, hint') /\
         spec_lookup (szone_of a) t = Some (mkSL (al_cs al) (al_off al) (al_dst al) (al_abbr al))) /\
    (forall hint t, int64 t -> exists al hint', break_time z hint t = OK (al, hint') /\
         spec_lookup (szone_of a) t = Some (mkSL (al_cs al) (al_off al) (al_dst al) (al_abbr al))).
Proof.
  destruct (accepted_witness_sound r1_file [true; true; true; true] dup_designation
              [min64; -1; 0; 1; 946684800; max64]) as (h & a & z & PA & WF & DC & DD & LB & AG).
  { vm_compute. reflexivity. }
  pose proof (dom_clauses_all h a DC) as DOM.
  exists h, a, z. repeat split; try assumption.
  exact (c01_whole_loaded r1_file h a z PA WF DOM LB).
Qed.

(* R2 (footer_offsets_ok): last transition to +23:59:59, footer AAA24:59:59BBB,M3.2.0,M11.1.0,
   first rule instant two days and one second later: the civil seconds go backwards, Load() rejects *)
Definition r2_footer : list Z :=
  [65;65;65;50;52;58;53;57;58;53;57;66;66;66;44;77;51;46;50;46;48;44;77;49;49;46;49;46;48].
Definition r2_file : list Z :=
  hdr' 0 0 0 ++ hdr' 1 2 2 ++ t64' (973475999 - 172801) ++ [1]
  ++ tt' (-86399) 0 0 ++ tt' 86399 0 0 ++ [65;0] ++ [10] ++ r2_footer ++ [10].

Lemma r2_two_day_seam_rejected :
  exists h a, parse_ast r2_file = Some (h, a) /\ wf_ast h a = true /\
    dom_clauses h a = [true; true; false; true] /\
    load_bytes r2_file = OK None.
Proof. apply rejected_witness_sound. vm_compute. reflexivity. Qed.

(* R3 (rule_tame): footer AAA0BBB,J363/167,J365/167 - the rule instants of year Y fall in
   January of Y+1; last transition 2000-01-01T00:00:00Z.  ExtendTransitions starts with the
   instants of "year 2000" (January 2001); the specification also counts those of year 1999
   (4 and 6 January 2000).  At 2000-01-06T12:00:00Z: cctz AAA/+0, specification BBB/+1h *)
Definition r3_footer : list Z :=
  [65;65;65;48;66;66;66;44;74;51;54;51;47;49;54;55;44;74;51;54;53;47;49;54;55].
Definition r3_file : list Z :=
  hdr' 0 0 0 ++ hdr' 1 2 8 ++ t64' 946684800 ++ [0]
  ++ tt' 0 0 0 ++ tt' 3600 1 4 ++ [65;65;65;0;66;66;66;0] ++ [10] ++ r3_footer ++ [10].

Definition disagree_witness (bs : list Z) (clauses : list bool) (t o_impl o_spec : Z) : bool :=
  match parse_ast bs, load_bytes bs with
  | Some (h, a), OK (Some z) =>
      wf_ast h a && bools_eqb (dom_clauses h a) clauses &&
      match break_time z 0 t, spec_lookup (szone_of a) t with
      | OK (al, _), Some sl => (al_off al =? o_impl) && (sl_off sl =? o_spec)
      | _, _ => false
      end
  | _, _ => false
  end.

Lemma disagree_witness_sound bs clauses t o1 o2 : disagree_witness bs clauses t o1 o2 = true ->
  exists h a z al hint' sl, parse_ast bs = Some (h, a) /\ wf_ast h a = true /\
    dom_clauses h a = clauses /\ load_bytes bs = OK (Some z) /\
    break_time z 0 t = OK (al, hint') /\ spec_lookup (szone_of a) t = Some sl /\
    al_off al = o1 /\ sl_off sl = o2.
Proof.
  unfold disagree_witness. destruct (parse_ast bs) as [[h a]|]; [|discriminate].
  destruct (load_bytes bs) as [[z|]|]; try discriminate.
  destruct (break_time z 0 t) as [[al hint']|] eqn:EB; [|rewrite andb_false_r; discriminate].
  destruct (spec_lookup (szone_of a) t) as [sl|] eqn:ES; [|rewrite andb_false_r; discriminate].
  intros H. rewrite !andb_true_iff in H. destruct H as [[H1 H2] [H3 H4]].
  apply bools_eqb_eq in H2. apply Z.eqb_eq in H3, H4.
  exists h, a, z, al, hint', sl. repeat split; try assumption; reflexivity.
Qed.

Lemma r3_rule_spill_disagrees :
  exists h a z al hint' sl, parse_ast r3_file = Some (h, a) /\ wf_ast h a = true /\
    dom_clauses h a = [true; true; true; false] /\
    load_bytes r3_file = OK (Some z) /\
    break_time z 0 947160000 = OK (al, hint') /\ spec_lookup (szone_of a) 947160000 = Some sl /\
    al_off al = 0 /\ sl_off sl = 3600.
Proof. apply disagree_witness_sound. vm_compute. reflexivity. Qed.

(* R5 (rule_tame, lower margin): footer AAA0BBB,J1/0,J1/4 (DST for the first hours of 1 January),
   last transition 2000-01-01T05:00:00Z shown as 1999-12-31T23:00 (-6h): the local year is 1999, so the
   window ends with the instants of year 2400; at the last of them, 2400-01-01T03:00:00Z, BreakTime maps
   back 400 years to 2000-01-01T03:00:00Z, BEFORE the file's last transition, and reports the file's
   earlier type CCC/-6h; the footer rule designates AAA/+0 *)
Definition r5_footer : list Z := [65;65;65;48;66;66;66;44;74;49;47;48;44;74;49;47;52].
Definition r5_file : list Z :=
  hdr' 0 0 0 ++ hdr' 1 2 8 ++ t64' 946702800 ++ [1]
  ++ tt' (-21600) 0 0 ++ tt' (-21600) 0 4 ++ [67;67;67;0;68;68;68;0] ++ [10] ++ r5_footer ++ [10].

Lemma r5_back_mapping_before_seam_disagrees :
  exists h a z al hint' sl, parse_ast r5_file = Some (h, a) /\ wf_ast h a = true /\
    dom_clauses h a = [true; true; true; false] /\
    load_bytes r5_file = OK (Some z) /\
    break_time z 0 13569476400 = OK (al, hint') /\ spec_lookup (szone_of a) 13569476400 = Some sl /\
    al_off al = -21600 /\ sl_off sl = 0.
Proof. apply disagree_witness_sound. vm_compute. reflexivity. Qed.

(* R4 (index_space_ok): 255 types, none of them the footer's: the DST type would get index 256 *)
Definition r4_types : list Z := flat_map (fun i => tt' i 0 0) (zrange 1 255).
Definition r4_footer : list Z := [65;65;65;48;66;66;66;44;77;51;46;50;46;48;44;77;49;49;46;49;46;48].
Definition r4_file : list Z :=
  hdr' 0 0 0 ++ hdr' 1 255 4 ++ t64' 946684800 ++ [0]
  ++ r4_types ++ [88;88;88;0] ++ [10] ++ r4_footer ++ [10].

Lemma r4_index_space_rejected :
  exists h a, parse_ast r4_file = Some (h, a) /\ wf_ast h a = true /\
    dom_clauses h a = [true; false; true; true] /\
    load_bytes r4_file = OK None.
Proof. apply rejected_witness_sound. vm_compute. reflexivity. Qed.

(* non-vacuity: a New-York-like file (EST/EDT, one transition on 2007-03-11, footer
   EST5EDT,M3.2.0,M11.1.0) is in the theorem's domain *)
Definition nyc_footer : list Z := [69;83;84;53;69;68;84;44;77;51;46;50;46;48;44;77;49;49;46;49;46;48].
Definition nyc_file : list Z :=
  hdr' 0 0 0 ++ hdr' 1 2 8 ++ t64' 1173596400 ++ [1]
  ++ tt' (-18000) 0 0 ++ tt' (-14400) 1 4 ++ [69;83;84;0;69;68;84;0] ++ [10] ++ nyc_footer ++ [10].

Definition in_domain_rule (bs : list Z) : bool :=
  match parse_ast bs with
  | Some (h, a) => wf_ast h a && c01_domain h a && match footer_kind_of a with FRule _ => true | _ => false end
  | None => false
  end.

Lemma c01_whole_nonvacuous :
  exists h a, parse_ast nyc_file = Some (h, a) /\ wf_ast h a = true /\ c01_domain h a = true /\
    exists r, footer_kind_of a = FRule r.
Proof.
  assert (H : in_domain_rule nyc_file = true) by (vm_compute; reflexivity).
  unfold in_domain_rule in H. destruct (parse_ast nyc_file) as [[h a]|]; [|discriminate].
  rewrite !andb_true_iff in H. destruct H as [[H1 H2] H3].
  exists h, a. repeat split; auto. destruct (footer_kind_of a); try discriminate. eauto.
Qed.

Print Assumptions load_parse_bytes.
Print Assumptions load_parse_agree.
Print Assumptions b_break_table.
Print Assumptions b_break_future.
Print Assumptions table_lookup.
Print Assumptions far_lookup.
Print Assumptions c01_whole.
Print Assumptions c01_whole_loaded.
Print Assumptions r1_duplicate_designation_now_accepted.
Print Assumptions r2_two_day_seam_rejected.
Print Assumptions r3_rule_spill_disagrees.
Print Assumptions r4_index_space_rejected.
Print Assumptions r5_back_mapping_before_seam_disagrees.
Print Assumptions c01_whole_nonvacuous.
