(* Properties_C04.v — C04: civil-time construction normalises exactly. *)
From CCTZ Require Import Base Cal CivilImpl CalProofs CivilProofs.
Local Open Scope Z_scope.

(* The spec's target is a genuine calendar: a bijection valid dates <-> Z. *)
Theorem calendar_bijection :
  (forall z, let '(y, m, d) := civil_of_days z in valid_date y m d = true /\ days_from_civil y m d = z) /\
  (forall y m d, valid_date y m d = true -> civil_of_days (days_from_civil y m d) = (y, m, d)).
Proof. exact calendar_bijection_lemma. Qed.
Print Assumptions calendar_bijection.

(* the day count is the calendar's: epoch 0, successor day = +1 *)
Theorem calendar_successor : forall y m d, valid_date y m d = true ->
  days_from_civil 1970 1 1 = 0 /\
  (d < days_in_month y m -> days_from_civil y m (d + 1) = days_from_civil y m d + 1) /\
  (d = days_in_month y m -> m < 12 -> days_from_civil y (m + 1) 1 = days_from_civil y m d + 1) /\
  (d = days_in_month y m -> m = 12 -> days_from_civil (y + 1) 1 1 = days_from_civil y m d + 1).
Proof. exact calendar_successor_lemma. Qed.
Print Assumptions calendar_successor.

(* Accessors: the normalised value is always a valid date-time, and it is THE
   valid date-time at that position of the civil time line. *)
Theorem norm_valid_unique : forall y m d hh mm ss,
  valid_fields (norm_spec y m d hh mm ss) = true /\
  sec_of (norm_spec y m d hh mm ss) = norm_sec y m d hh mm ss /\
  (forall f, valid_fields f = true -> sec_of f = norm_sec y m d hh mm ss -> f = norm_spec y m d hh mm ss).
Proof. exact norm_valid_unique_lemma. Qed.
Print Assumptions norm_valid_unique.

(* THE refinement: exact, no intermediate overflow, under exactly the
   property's representability bound. *)
Theorem n_sec_refines : forall y m d hh mm ss,
  int64 y -> int64 m -> int64 d -> int64 hh -> int64 mm -> int64 ss ->
  int64 (carry_year y m) -> int64 (fy (norm_spec y m d hh mm ss)) ->
  n_sec64 y m d hh mm ss = OK (norm_spec y m d hh mm ss).
Proof. exact n_sec_refines_lemma. Qed.
Print Assumptions n_sec_refines.

Theorem construct_refines : forall tag y m d hh mm ss,
  int64 y -> int64 m -> int64 d -> int64 hh -> int64 mm -> int64 ss ->
  int64 (carry_year y m) -> int64 (fy (norm_spec y m d hh mm ss)) ->
  construct64 tag y m d hh mm ss = OK (align_spec tag (norm_spec y m d hh mm ss)).
Proof. exact construct_refines_lemma. Qed.
Print Assumptions construct_refines.

(* Alignment only truncates: valid stays valid, never later than the original,
   idempotent, and conversion to any alignment keeps all fields at or above it. *)
Theorem align_truncates : forall tag f, valid_fields f = true ->
  valid_fields (align_spec tag f) = true /\
  sec_of (align_spec tag f) <= sec_of f /\
  align_spec tag (align_spec tag f) = align_spec tag f /\
  convert64 tag f = align_spec tag f /\
  fy (align_spec tag f) = fy f.
Proof. exact align_truncates_lemma. Qed.
Print Assumptions align_truncates.

Example c04_nonvacuous :
  n_sec64 2016 1 32 25 61 (-1) = OK (mkF 2016 2 2 2 0 59) /\
  n_sec64 (max64 - 1) 24 1 0 0 0 = OK (mkF max64 12 1 0 0 0).
Proof. vm_compute. split; reflexivity. Qed.

(* ---- tie to the CURRENT source: the functions below are translated from clang's AST
   of /repo on every run (coq/Translated.v); the model computes exactly them ---- *)
From CCTZ Require Import Translated TranslatedProofs.
Theorem src_tie_year_index : forall y m r, year_index64 y m = OK r -> r = tr_year_index y m.
Proof. exact tr_year_index_eq. Qed.
Print Assumptions src_tie_year_index.
Theorem src_tie_days_per_century : forall yi, tr_days_per_century yi = days_per_century64 yi.
Proof. exact tr_days_per_century_eq. Qed.
Print Assumptions src_tie_days_per_century.
Theorem src_tie_days_per_4years : forall yi, tr_days_per_4years yi = days_per_4years64 yi.
Proof. exact tr_days_per_4years_eq. Qed.
Print Assumptions src_tie_days_per_4years.
Theorem src_tie_days_per_year : forall y m r, days_per_year64 y m = OK r -> r = tr_days_per_year y m.
Proof. exact tr_days_per_year_eq. Qed.
Print Assumptions src_tie_days_per_year.
Theorem src_tie_days_per_month : forall y m r, days_per_month64 y m = OK r -> r = tr_days_per_month y m.
Proof. exact tr_days_per_month_eq. Qed.
Print Assumptions src_tie_days_per_month.

From CCTZ Require Import Source64 Source64Proofs Source64Cor.

(* SOURCE-DERIVED checked functions (Source64.v, regenerated from clang's AST of the current
   civil_time_detail.h on every run): the normalising constructor as the header composes it meets the calendar spec;
   tie lemmas: hand-written model OK r => source-derived function OK r *)
Theorem src64_construct_meets_spec : forall tag y m d hh mm ss, (tag <= 5)%nat ->
  int64 y -> int64 m -> int64 d -> int64 hh -> int64 mm -> int64 ss ->
  int64 (carry_year y m) -> int64 (fy (norm_spec y m d hh mm ss)) ->
  s64_construct tag y m d hh mm ss = OK (align_spec tag (norm_spec y m d hh mm ss)).
Proof. exact src64_construct_meets_spec_lemma. Qed.
Print Assumptions src64_construct_meets_spec.

Theorem src64_tie_n_sec y m d hh mm ss r :
  n_sec64 y m d hh mm ss = OK r -> s64_n_sec s64_fuel y m d hh mm ss = OK r.
Proof. exact (s64_n_sec_tie y m d hh mm ss r). Qed.
Print Assumptions src64_tie_n_sec.

Theorem src64_tie_n_day y m d cd hh mm ss r :
  n_day64 y m d cd hh mm ss = OK r -> s64_n_day s64_fuel y m d cd hh mm ss = OK r.
Proof. exact (s64_n_day_tie y m d cd hh mm ss r). Qed.
Print Assumptions src64_tie_n_day.


From CCTZ Require Import Source64 Source64Proofs Source64MoreProofs.
(* MORE OF civil_time_detail.h AS CLANG READS IT NOW (Source64.v, regenerated every run; templates read through their
   instantiations in a probe translation unit, overloads resolved by clang): the civil_time constructors, conversions,
   operators and next/prev_weekday.  Source64MoreProofs.v ties each to the hand-written model and composes with the
   refinement theorems: the CURRENT source meets the calendar specification, with no intermediate overflow. *)
Theorem src64m_construct_meets_spec : forall tag y m d hh mm ss, (tag <= 5)%nat ->
  int64 y -> int64 m -> int64 d -> int64 hh -> int64 mm -> int64 ss ->
  int64 (carry_year y m) -> int64 (fy (norm_spec y m d hh mm ss)) ->
  s64m_construct tag y m d hh mm ss = OK (align_spec tag (norm_spec y m d hh mm ss)).
Proof. exact Source64MoreProofs.src64m_construct_meets_spec. Qed.
Print Assumptions src64m_construct_meets_spec.
Theorem src64m_convert_meets_spec : forall from to f, (from <= 5)%nat -> (to <= 5)%nat -> from <> to ->
  s64m_convert from to f = OK (align_spec to f).
Proof. exact Source64MoreProofs.src64m_convert_meets_spec. Qed.
Print Assumptions src64m_convert_meets_spec.
