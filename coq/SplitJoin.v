(* SplitJoin.v — C18: detail::split_seconds / join_seconds (include/cctz/time_zone.h
   :383-447) and the <chrono> casts they perform, for a duration type given by
   its period num/den (seconds per tick) and the bit width of its signed rep.
   Model and spec; proofs in SplitJoinProofs.v. *)
From CCTZ Require Import Base.
Local Open Scope Z_scope.

Definition rep_min (bits : Z) : Z := - 2 ^ (bits - 1).
Definition rep_max (bits : Z) : Z := 2 ^ (bits - 1) - 1.
Definition chk_rep (bits : Z) (v : Z) : res Z :=
  if (rep_min bits <=? v) && (v <=? rep_max bits) then OK v else Err Overflow.

(* ---- IMPL: split_seconds<D>(time_point<D>) with D = duration<Rep, ratio<num,den>>,
   num/den in lowest terms, (num, den) <> (1, 1).  The common type of D and
   seconds has period 1/den.  Returns (whole seconds, remainder in ticks of D). *)
Definition split_seconds (num den c : Z) : res (Z * Z) :=
  do cn <- mul64 c num ;;                       (* count in units of 1/den s *)
  let sec0 := Z.quot cn den in                   (* time_point_cast<seconds>: truncation *)
  do sd <- mul64 sec0 den ;;
  do sub0 <- sub64 cn sd ;;                      (* tp - sec *)
  do '(sec, sub) <- (if sub0 <? 0 then (do s <- sub64 sec0 1 ;; do u <- add64 sub0 den ;; OK (s, u))
                     else OK (sec0, sub0)) ;;
  OK (sec, Z.quot sub num).                      (* duration_cast<D>(sub) *)

(* format(): duration_cast<femtoseconds>(sub ticks) *)
Definition to_femto (num den ticks : Z) : res Z :=
  (* ratio_divide<ratio<num,den>, femto> = num * 10^15 / den, reduced by the gcd *)
  let g := Z.gcd (num * 10 ^ 15) den in
  do m <- mul64 ticks (num * 10 ^ 15 / g) ;;
  OK (Z.quot m (den / g)).

(* ---- IMPL: join_seconds overloads.  [None] = returns false. ---- *)
(* (a) sub-second targets, ratio<1, Denom>: no range check in the source (TODO #199) *)
Definition join_subsecond (bits denom sec fs : Z) : res (option Z) :=
  do a <- mul64 sec denom ;;                               (* time_point_cast<D>(sec) *)
  let g := Z.gcd denom (10 ^ 15) in
  do m <- mul64 fs (denom / g) ;;                           (* duration_cast<D>(fs) *)
  let b := Z.quot m (10 ^ 15 / g) in
  do s <- add64 a b ;;
  do r <- chk_rep bits s ;; OK (Some r).
(* (b) coarser than seconds, ratio<Num, 1>, Num > 1: floor, then range check *)
Definition join_coarse (bits num sec : Z) : option Z :=
  let count := if (0 <=? sec) || (Z.rem sec num =? 0) then Z.quot sec num else Z.quot sec num - 1 in
  if rep_max bits <? count then None
  else if count <? rep_min bits then None
  else Some count.
(* (c) whole seconds in another rep *)
Definition join_seconds_rep (bits sec : Z) : option Z :=
  if rep_max bits <? sec then None else if sec <? rep_min bits then None else Some sec.

(* ---- SPEC: floor toward the past ---- *)
Definition split_spec (num den c : Z) : Z * Z :=
  let sec := (c * num) / den in                  (* floor *)
  (sec, (c * num - sec * den) / num).

