(* SourceNamesProofs.v - ties between the source-derived name-resolution functions (SourceNames.v, regenerated from
   clang's AST on every run) and the hand-written models (ZoneLoad.v, NameRes.v). *)
From CCTZ Require Import Base SrcConstants Cal CivilImpl FixedImpl PosixImpl ZoneLoad ZoneImpl SourceZone SourceLoad SourceNames.
From CCTZ Require SourceZoneProofs SourceLoadProofs SourceFixed SourceFixedProofs.
Require Import Lia ZifyBool.
Local Open Scope Z_scope.

Lemma nth_res_0 {A} (x : A) l : nth_res (x :: l) 0 = OK x.
Proof. reflexivity. Qed.
Lemma vec_set_0 {A} (x y : A) l : vec_set (x :: l) 0 y = OK (y :: l).
Proof. unfold vec_set, vec_size. cbn [length]. replace ((0 <=? 0) && (0 <? Z.of_nat (S (length l)))) with true by lia. reflexivity. Qed.

Theorem sn_ResetToBuiltinUTC_tie tr0 d0 f0 e0 ly0 offset z :
  reset_to_builtin_utc offset = OK z ->
  sn_ResetToBuiltinUTC (mkZone tr0 [] d0 [] f0 e0 ly0) offset
  = OK (true, mkZone (z_trans z) (z_types z) (z_default z) (z_abbrs z) (z_future z) (z_extended z) ly0).
Proof.
  intros H. unfold reset_to_builtin_utc in H.
  apply bind_ok in H as (off32 & N & H). apply bind_ok in H as (trans & BT & H). apply bind_ok in H as (ab & AB & H).
  apply bind_ok in H as (mx & MX & H). apply bind_ok in H as (mn & MN & H). inversion H; subst z. clear H.
  cbn [z_trans z_types z_default z_abbrs z_future z_extended].
  unfold builtin_times in BT. cbn [builtin_trans] in BT.
  repeat match goal with E : bind _ _ = OK _ |- _ => apply bind_ok in E as (? & ? & E) end.
  repeat match goal with E : OK _ = OK _ |- _ => inversion E; clear E end. subst.
  unfold sn_ResetToBuiltinUTC. cbn [z_trans z_types z_default z_abbrs z_future z_extended z_last_year].
  change big_bang with (-576460752303423488) in *. unfold epoch in *.
  match goal with |- context [vec_resize [] 1 ?d] => change (vec_resize [] 1 d) with [d] end.
  cbv zeta. unfold vec_back, vec_size at 1. cbn [last_opt rev app length Z.of_nat Pos.of_succ_nat bind].
  change (Z.pos 1 - 1) with 0.
  rewrite N. cbn [bind]. unfold vec_size.
  Ltac norm := repeat (first [ rewrite SourceLoadProofs.nth_res_last | rewrite SourceLoadProofs.vec_set_last | rewrite nth_res_0 | rewrite vec_set_0
                | rewrite SourceZoneProofs.sz_LocalTime_tt_tie
                | match goal with E : local_time_tt _ _ _ = OK _ |- _ => rewrite E; clear E end
                | match goal with E : minus64 _ _ _ = OK _ |- _ => rewrite E; clear E end ];
          cbn [bind tt_off tt_cmax tt_cmin tt_isdst tt_abbr tr_time tr_type tr_cs tr_pcs z_abbrs]).
  norm.
  rewrite SourceFixedProofs.so_FixedOffsetToAbbr_tie, AB. cbn [bind].
  change (repeat 0 (Z.to_nat 1)) with [0]. norm.
  change 9223372036854775807 with max64. rewrite MX. cbn [bind tt_off tt_cmax tt_cmin tt_isdst tt_abbr]. norm.
  match goal with |- context [local_time_tt ?a ?t ?ty'] =>
    replace (local_time_tt a t ty') with (local_time_tt (ab ++ [0]) min64 (mkTT off32 (mkF 1970 1 1 0 0 0) (mkF 1970 1 1 0 0 0) false 0))
      by (apply SourceLoadProofs.local_time_tt_fields; reflexivity) end.
  rewrite MN. cbn [bind tt_off tt_cmax tt_cmin tt_isdst tt_abbr]. norm.
  cbn [app]. reflexivity.
Qed.


(* ------------------------------------------------------------------ *)
(* Load(name): the fixed-offset short-circuit, then the source the factory oracle hands out, then Load(source).
   The object on entry is a fresh TimeZoneInfo.  [factory] is universally quantified; what it delivers must be
   bytes, shorter than 2^62, and the fuel must cover it. *)
Theorem sn_LoadName_tie (factory : list Z -> option (list Z * list Z)) name ver d0 f0 e0 ly0 fuel :
  (forall bs v, factory name = Some (bs, v) ->
     SourceDecodeProofs.bytes_ok bs /\ Z.of_nat (length bs) < 2 ^ 62 /\ (length bs + 1300 <= fuel)%nat) ->
  match load_name (fun n => option_map fst (factory n)) name with
  | OK (Some z) => exists ver',
      sn_LoadName fuel (mkZone [] [] d0 [] f0 e0 ly0) ver factory name = OK (true, SourceLoadProofs.load_result ly0 z, ver')
  | OK None => exists z' ver', sn_LoadName fuel (mkZone [] [] d0 [] f0 e0 ly0) ver factory name = OK (false, z', ver')
  | Err _ => True
  end.
Proof.
  intros HF. unfold load_name, sn_LoadName.
  cbn [z_trans z_types z_default z_abbrs z_future z_extended z_last_year]. cbv zeta.
  rewrite SourceFixedProofs.so_FixedOffsetFromName_tie. unfold SourceFixedProofs.from_name_result.
  destruct (FixedOffsetFromName name) as [off|]; cbn [bind].
  - destruct (reset_to_builtin_utc off) as [z|] eqn:R; cbn [bind]; [|exact I].
    rewrite (sn_ResetToBuiltinUTC_tie [] d0 f0 e0 ly0 off z R). cbn [bind z_trans z_types z_default z_abbrs z_future z_extended z_last_year].
    eexists. unfold SourceLoadProofs.load_result.
    assert (E : z_extended z = false).
    { unfold reset_to_builtin_utc in R. repeat (apply bind_ok in R as (? & ? & R)). inversion R; reflexivity. }
    rewrite E. reflexivity.
  - destruct (factory name) as [[bs v]|] eqn:Fn; cbn [option_map fst snd get_opt bind].
    + destruct (HF bs v eq_refl) as (B & S & F).
      pose proof (SourceLoadProofs.sl_Load_tie bs ver v d0 [] f0 e0 ly0 fuel B S F) as T. unfold SourceLoadProofs.agree in T.
      destruct (load_bytes bs) as [[z|]|]; [| |exact I].
      * destruct T as (ver' & rest & T). rewrite T. cbn [bind]. eexists. reflexivity.
      * destruct T as (z' & ver' & rest & T). rewrite T. cbn [bind]. do 2 eexists. reflexivity.
    + do 2 eexists. reflexivity.
Qed.


(* ------------------------------------------------------------------ *)
(* FileZoneInfoSource::Open: the path logic.  getenv and fopen are oracles (universally quantified); the environment
   of the model is the one getenv reports; environment values are C strings (no NUL). *)
From CCTZ Require Import NameRes.

Lemma has_prefix_firstn p s : has_prefix p s = list_eqb (firstn (length p) s) p.
Proof.
  revert s. induction p as [|x p IH]; intros s; [reflexivity|]. destruct s as [|y s]; [reflexivity|].
  cbn [has_prefix length firstn list_eqb]. rewrite IH. rewrite (Z.eqb_sym x y). reflexivity.
Qed.

Lemma match_slash {A} (rest : list Z) (a b : A) :
  match rest with 47 :: _ => a | _ => b end = if (match rest with x :: _ => x =? 47 | [] => false end) then a else b.
Proof.
  destruct rest as [|x r]; [reflexivity|]. destruct (Z.eqb_spec x 47) as [->|N]; [reflexivity|].
  destruct x as [|p|p]; try reflexivity.
  destruct p as [p|p|]; try reflexivity. destruct p as [p|p|]; try reflexivity. destruct p as [p|p|]; try reflexivity.
  destruct p as [p|p|]; try reflexivity. destruct p as [p|p|]; try reflexivity. destruct p as [p|p|]; try reflexivity. contradiction.
Qed.

Theorem sn_FileOpen_tie (getenv fopen : list Z -> option (list Z)) name e :
  e_tzdir e = getenv [84; 90; 68; 73; 82] -> (forall v, e_tzdir e = Some v -> ~ In 0 v) ->
  Z.of_nat (length name) < 2 ^ 64 ->
  sn_FileOpen getenv fopen name = OK (option_map (fun b => (b, [])) (fopen (zone_path e name))).
Proof.
  intros He Hc Sz. unfold sn_FileOpen, zone_path.
  unfold str_compare_eq, vec_size. replace ((0 <=? 0) && (0 <=? Z.of_nat (length name))) with true by lia. cbn [bind].
  change (Z.to_nat 0) with 0%nat. change (Z.to_nat 5) with 5%nat. cbn [skipn].
  rewrite (has_prefix_firstn str_file name). change (length str_file) with 5%nat. change str_file with [102; 105; 108; 101; 58].
  set (pf := list_eqb (firstn 5 name) [102; 105; 108; 101; 58]).
  assert (Lp : pf = true -> (5 <= length name)%nat).
  { unfold pf. intros H. apply list_eqb_eq in H. apply (f_equal (@length Z)) in H. rewrite firstn_length in H. cbn [length] in H. lia. }
  cbv zeta.
  set (pos := if pf then 5%nat else 0%nat).
  replace (u64 (if pf then 5 else 0)) with (Z.of_nat pos) by (unfold pos, u64; destruct pf; reflexivity).
  assert (Pl : (pos <= length name)%nat) by (unfold pos; destruct pf; [apply Lp; reflexivity|lia]).
  set (rest := skipn pos name).
  assert (Lr : length rest = (length name - pos)%nat) by (unfold rest; apply skipn_length).
  unfold str_from, vec_size. replace ((0 <=? Z.of_nat pos) && (Z.of_nat pos <=? Z.of_nat (length name))) with true by lia.
  rewrite Nat2Z.id. fold rest.
  rewrite match_slash.
  assert (T3 : (if Z.of_nat pos =? Z.of_nat (length name) then OK true
                else do t2 <- str_at name (Z.of_nat pos) ;; OK (negb (t2 =? 47)))
               = OK (negb (match rest with x :: _ => x =? 47 | [] => false end))).
  { destruct rest as [|x r] eqn:Er.
    - cbn [length] in Lr. replace (Z.of_nat pos =? Z.of_nat (length name)) with true by lia. reflexivity.
    - cbn [length] in Lr. replace (Z.of_nat pos =? Z.of_nat (length name)) with false by lia.
      unfold str_at. replace (Z.of_nat pos <? 0) with false by lia. rewrite Nat2Z.id. unfold cstr_at.
      assert (N : nth_error name pos = Some x).
      { replace pos with (pos + 0)%nat by lia. rewrite <- SourceZoneProofs.nth_skipn. fold rest. rewrite Er. reflexivity. }
      rewrite N. reflexivity. }
  rewrite T3. cbn [bind]. clear T3.
  destruct (match rest with x :: _ => x =? 47 | [] => false end); cbn [negb bind app].
  - destruct (fopen (c_str rest)); reflexivity.
  - rewrite <- He.
    assert (T5 : (if match e_tzdir e with Some _ => true | None => false end
                  then do t4 <- get_opt (e_tzdir e) ;; OK (negb (hd 0 t4 =? 0)) else OK false)
                 = OK (match e_tzdir e with Some (_ :: _) => true | _ => false end)).
    { destruct (e_tzdir e) as [[|c d]|] eqn:Ee; try reflexivity. cbn [get_opt bind hd].
      assert (c <> 0) by (intros ->; apply (Hc (0 :: d) eq_refl); left; reflexivity).
      replace (c =? 0) with false by lia. reflexivity. }
    rewrite T5. cbn [bind]. clear T5.
    destruct (e_tzdir e) as [[|c d]|]; cbn [bind get_opt]; rewrite <- ?app_assoc; unfold default_tzdir; cbn [app];
      match goal with |- context [fopen ?p] => destruct (fopen p) end; reflexivity.
Qed.

Print Assumptions sn_FileOpen_tie.
Print Assumptions sn_ResetToBuiltinUTC_tie.
Print Assumptions sn_LoadName_tie.

(* ------------------------------------------------------------------ *)
(* local_time_zone(): $TZ, the leading ':', "localtime" and $LOCALTIME.  getenv and load_time_zone are oracles. *)
Lemma match_colon {A} (s : list Z) (f : list Z -> A) (b : A) :
  match s with 58 :: r => f r | _ => b end = if (hd 0 s =? 58) then f (List.tl s) else b.
Proof.
  destruct s as [|x r]; [reflexivity|]. cbn [hd List.tl]. destruct (Z.eqb_spec x 58) as [->|N]; [reflexivity|].
  destruct x as [|p|p]; try reflexivity.
  destruct p as [p|p|]; try reflexivity. destruct p as [p|p|]; try reflexivity. destruct p as [p|p|]; try reflexivity.
  destruct p as [p|p|]; try reflexivity. destruct p as [p|p|]; try reflexivity. destruct p as [p|p|]; try reflexivity. contradiction.
Qed.

Theorem sn_local_time_zone_tie (getenv : list Z -> option (list Z)) (TZ : Type) (d : TZ) (load : list Z -> TZ -> bool * TZ) e :
  e_tz e = getenv [84; 90] -> e_localtime e = getenv [76; 79; 67; 65; 76; 84; 73; 77; 69] ->
  sn_local_time_zone getenv TZ d load = OK (snd (load (local_zone_name e) d)).
Proof.
  intros Ht Hl. unfold sn_local_time_zone, local_zone_name. rewrite <- Ht, <- Hl. cbv zeta.
  set (zone0 := match e_tz e with Some v => v | None => colon_localtime end).
  replace (if match e_tz e with Some _ => true | None => false end then OK (e_tz e) else OK (Some [58; 108; 111; 99; 97; 108; 116; 105; 109; 101]))
    with (OK (A:=option (list Z)) (Some zone0)) by (unfold zone0; destruct (e_tz e); reflexivity).
  cbn [bind get_opt].
  rewrite (match_colon zone0 (fun r => r) zone0).
  set (zone1 := if hd 0 zone0 =? 58 then List.tl zone0 else zone0).
  assert (Z1 : (if hd 0 zone0 =? 58 then do t3 <- cstr_next zone0 ;; OK (Some t3) else OK (Some zone0)) = OK (Some zone1)).
  { unfold zone1. destruct zone0 as [|x r]; [reflexivity|]. cbn [hd List.tl cstr_next bind]. destruct (x =? 58); reflexivity. }
  rewrite Z1. cbn [bind get_opt]. change str_localtime with [108; 111; 99; 97; 108; 116; 105; 109; 101].
  destruct (list_eqb zone1 [108; 111; 99; 97; 108; 116; 105; 109; 101]); cbn [bind get_opt].
  - destruct (e_localtime e); cbn [bind get_opt]; destruct (load _ d); reflexivity.
  - destruct (load zone1 d); reflexivity.
Qed.

Print Assumptions sn_local_time_zone_tie.
