(* CivilImpl.v — IMPL64 layer: transcription of include/cctz/civil_time_detail.h
   in the checked-int64 monad.  Same branches in the same order as the C++.
   year_t = diff_t = int_fast64_t (64 bits); month_t..second_t = int_fast8_t
   (8 bits on x86-64 glibc); int is 32 bits. *)
From CCTZ Require Import Base Cal SrcConstants.
Local Open Scope Z_scope.

(* ---- impl:: helpers (civil_time_detail.h:78-99) ---- *)

(* y % 4 == 0 && (y % 100 != 0 || y % 400 == 0)   (truncating %) *)
Definition is_leap_year64 (y : Z) : bool :=
  (Z.rem y 4 =? 0) && (negb (Z.rem y 100 =? 0) || (Z.rem y 400 =? 0)).

Definition b2z (b : bool) : Z := if b then 1 else 0.

(* static_cast<int>((y + (m > 2)) % 400); yi < 0 ? yi + 400 : yi *)
Definition year_index64 (y m : Z) : res Z :=
  do t <- add64 y (b2z (2 <? m)) ;;
  let yi := Z.rem t 400 in
  OK (if yi <? 0 then yi + 400 else yi).

Definition days_per_century64 (yi : Z) : Z :=
  src_days_per_century_base + b2z ((yi =? 0) || (300 <? yi)).
Definition days_per_4years64 (yi : Z) : Z :=
  src_days_per_4years_base + b2z ((yi =? 0) || (300 <? yi) || (Z.rem (yi - 1) 100 <? 96)).
Definition days_per_year64 (y m : Z) : res Z :=
  do t <- add64 y (b2z (2 <? m)) ;;
  OK (if is_leap_year64 t then 366 else 365).
(* k_days_per_month[m] + (m == 2 && is_leap_year(y)); table read is checked *)
Definition days_per_month64 (y m : Z) : res Z :=
  match (if m <? 0 then None else nth_error src_k_days_per_month (Z.to_nat m)) with
  | None => Err OOB
  | Some k => OK (k + b2z ((m =? 2) && is_leap_year64 y))
  end.

(* ---- n_day (civil_time_detail.h:101-166) ---- *)

Fixpoint century_loop (fuel : nat) (d ey yi : Z) : res (Z * Z * Z) :=
  match fuel with
  | O => Err Fuel
  | S f =>
      let n := days_per_century64 yi in
      if d <=? n then OK (d, ey, yi)
      else
        do d' <- sub64 d n ;;
        do ey' <- add64 ey 100 ;;
        let yi1 := yi + 100 in
        let yi2 := if 400 <=? yi1 then yi1 - 400 else yi1 in
        century_loop f d' ey' yi2
  end.

Fixpoint years4_loop (fuel : nat) (d ey yi : Z) : res (Z * Z * Z) :=
  match fuel with
  | O => Err Fuel
  | S f =>
      let n := days_per_4years64 yi in
      if d <=? n then OK (d, ey, yi)
      else
        do d' <- sub64 d n ;;
        do ey' <- add64 ey 4 ;;
        let yi1 := yi + 4 in
        let yi2 := if 400 <=? yi1 then yi1 - 400 else yi1 in
        years4_loop f d' ey' yi2
  end.

Fixpoint year_loop (fuel : nat) (d ey m : Z) : res (Z * Z) :=
  match fuel with
  | O => Err Fuel
  | S f =>
      do n <- days_per_year64 ey m ;;
      if d <=? n then OK (d, ey)
      else
        do d' <- sub64 d n ;;
        do ey' <- add64 ey 1 ;;
        year_loop f d' ey' m
  end.

Fixpoint month_loop (fuel : nat) (d ey m : Z) : res (Z * Z * Z) :=
  match fuel with
  | O => Err Fuel
  | S f =>
      do n <- days_per_month64 ey m ;;
      if d <=? n then OK (d, ey, m)
      else
        do d' <- sub64 d n ;;
        do m1 <- narrow8 (m + 1) ;;
        if 12 <? m1 then (do ey' <- add64 ey 1 ;; month_loop f d' ey' 1)
        else month_loop f d' ey m1
  end.

Definition fuel_century : nat := 5.
Definition fuel_4years : nat := 26.
Definition fuel_year : nat := 5.
Definition fuel_month : nat := 13.

Definition n_day64 (y m d cd hh mm ss : Z) : res fields :=
  let ey0 := Z.rem y 400 in
  let oey := ey0 in
  do t1 <- mul64 (Z.quot cd 146097) 400 ;;
  do ey1 <- add64 ey0 t1 ;;
  let cd1 := Z.rem cd 146097 in
  do '(ey2, cd2) <- (if cd1 <? 0
                     then (do e <- sub64 ey1 400 ;; do c <- add64 cd1 146097 ;; OK (e, c))
                     else OK (ey1, cd1)) ;;
  do t2 <- mul64 (Z.quot d 146097) 400 ;;
  do ey3 <- add64 ey2 t2 ;;
  do d1 <- add64 (Z.rem d 146097) cd2 ;;
  do '(ey4, d2) <-
     (if 0 <? d1 then
        (if 146097 <? d1
         then (do e <- add64 ey3 400 ;; do dd <- sub64 d1 146097 ;; OK (e, dd))
         else OK (ey3, d1))
      else
        (if -365 <? d1
         then (do e <- sub64 ey3 1 ;;
               do n <- days_per_year64 e m ;;
               do dd <- add64 d1 n ;; OK (e, dd))
         else (do e <- sub64 ey3 400 ;; do dd <- add64 d1 146097 ;; OK (e, dd)))) ;;
  do '(d3, ey5) <-
     (if 365 <? d2 then
        (do yi <- year_index64 ey4 m ;;
         do '(da, ea, yia) <- century_loop fuel_century d2 ey4 yi ;;
         do '(db, eb, yib) <- years4_loop fuel_4years da ea yia ;;
         year_loop fuel_year db eb m)
      else OK (d2, ey4)) ;;
  do '(d4, ey6, m1) <-
     (if 28 <? d3 then month_loop fuel_month d3 ey5 m else OK (d3, ey5, m)) ;;
  do dy <- sub64 ey6 oey ;;
  do ry <- add64 y dy ;;
  do rd <- narrow8 d4 ;;
  OK (mkF ry m1 rd hh mm ss).

(* ---- n_mon .. n_sec (civil_time_detail.h:167-228) ---- *)

(* As in /repo after the "fix:" commit for C04 (the carry is accumulated in a
   temporary and added to y once).  The pre-fix text is kept in History.v. *)
Definition n_mon64 (y m d cd hh mm ss : Z) : res fields :=
  do '(y1, m1) <-
     (if negb (m =? 12) then
        let cy := Z.quot m 12 in
        let m' := Z.rem m 12 in
        do '(cy1, m2) <- (if m' <=? 0 then (do c <- sub64 cy 1 ;; do mm2 <- add64 m' 12 ;; OK (c, mm2))
                          else OK (cy, m')) ;;
        do y' <- add64 y cy1 ;;
        OK (y', m2)
      else OK (y, m)) ;;
  do m8 <- narrow8 m1 ;;
  n_day64 y1 m8 d cd hh mm ss.

Definition n_hour64 (y m d cd hh mm ss : Z) : res fields :=
  do cd1 <- add64 cd (Z.quot hh 24) ;;
  let hh1 := Z.rem hh 24 in
  do '(cd2, hh2) <- (if hh1 <? 0 then (do c <- sub64 cd1 1 ;; do h <- add64 hh1 24 ;; OK (c, h))
                     else OK (cd1, hh1)) ;;
  do h8 <- narrow8 hh2 ;;
  n_mon64 y m d cd2 h8 mm ss.

Definition n_min64 (y m d hh ch mm ss : Z) : res fields :=
  do ch1 <- add64 ch (Z.quot mm 60) ;;
  let mm1 := Z.rem mm 60 in
  do '(ch2, mm2) <- (if mm1 <? 0 then (do c <- sub64 ch1 1 ;; do x <- add64 mm1 60 ;; OK (c, x))
                     else OK (ch1, mm1)) ;;
  do a <- add64 (Z.quot hh 24) (Z.quot ch2 24) ;;
  do b <- add64 (Z.rem hh 24) (Z.rem ch2 24) ;;
  do m8 <- narrow8 mm2 ;;
  n_hour64 y m d a b m8 ss.

Definition n_sec64 (y m d hh mm ss : Z) : res fields :=
  if (0 <=? ss) && (ss <? 60) then
    if (0 <=? mm) && (mm <? 60) then
      if (0 <=? hh) && (hh <? 24) then
        if (1 <=? d) && (d <=? 28) && (1 <=? m) && (m <=? 12)
        then OK (mkF y m d hh mm ss)
        else n_mon64 y m d 0 hh mm ss
      else n_hour64 y m d (Z.quot hh 24) (Z.rem hh 24) mm ss
    else n_min64 y m d hh (Z.quot mm 60) (Z.rem mm 60) ss
  else
    let cm := Z.quot ss 60 in
    let ss1 := Z.rem ss 60 in
    do '(cm1, ss2) <- (if ss1 <? 0 then (do c <- sub64 cm 1 ;; do s <- add64 ss1 60 ;; OK (c, s))
                       else OK (cm, ss1)) ;;
    do a <- add64 (Z.quot mm 60) (Z.quot cm1 60) ;;
    do b <- add64 (Z.rem mm 60) (Z.rem cm1 60) ;;
    do s8 <- narrow8 ss2 ;;
    n_min64 y m d hh a b s8.

(* ---- align + the designated constructor (:320-337, :434) ---- *)

Definition align64 (tag : nat) (f : fields) : fields :=
  match tag with
  | 0%nat => f
  | 1%nat => mkF (fy f) (fm f) (fd f) (fhh f) (fmm f) 0
  | 2%nat => mkF (fy f) (fm f) (fd f) (fhh f) 0 0
  | 3%nat => mkF (fy f) (fm f) (fd f) 0 0 0
  | 4%nat => mkF (fy f) (fm f) 1 0 0 0
  | _ => mkF (fy f) 1 1 0 0 0
  end.

(* civil_time<T>(y, m, d, hh, mm, ss) *)
Definition construct64 (tag : nat) (y m d hh mm ss : Z) : res fields :=
  do f <- n_sec64 y m d hh mm ss ;; OK (align64 tag f).

(* civil_time<T>(const civil_time<U>&): re-align only *)
Definition convert64 (tag : nat) (f : fields) : fields := align64 tag f.

(* ---- step (:235-252) ---- *)

Definition step64 (tag : nat) (f : fields) (n : Z) : res fields :=
  match tag with
  | 0%nat =>
      do a <- add64 (fmm f) (Z.quot n 60) ;;
      do b <- add64 (fss f) (Z.rem n 60) ;;
      n_sec64 (fy f) (fm f) (fd f) (fhh f) a b
  | 1%nat =>
      do a <- add64 (fhh f) (Z.quot n 60) ;;
      do b <- add64 (fmm f) (Z.rem n 60) ;;
      n_min64 (fy f) (fm f) (fd f) a 0 b (fss f)
  | 2%nat =>
      do a <- add64 (fd f) (Z.quot n 24) ;;
      do b <- add64 (fhh f) (Z.rem n 24) ;;
      n_hour64 (fy f) (fm f) a 0 b (fmm f) (fss f)
  | 3%nat => n_day64 (fy f) (fm f) (fd f) n (fhh f) (fmm f) (fss f)
  | 4%nat =>
      do a <- add64 (fy f) (Z.quot n 12) ;;
      do b <- add64 (fm f) (Z.rem n 12) ;;
      n_mon64 a b (fd f) 0 (fhh f) (fmm f) (fss f)
  | _ =>
      do a <- add64 (fy f) n ;;
      OK (mkF a (fm f) (fd f) (fhh f) (fmm f) (fss f))
  end.

(* operator+(civil_time a, diff_t n) *)
Definition plus64 (tag : nat) (f : fields) (n : Z) : res fields :=
  do r <- step64 tag f n ;; OK (align64 tag r).

(* operator-(civil_time a, diff_t n) with the n == min two-step form *)
Definition minus64 (tag : nat) (f : fields) (n : Z) : res fields :=
  if negb (n =? min64) then
    (do nn <- neg64 n ;; do r <- step64 tag f nn ;; OK (align64 tag r))
  else
    (do n1 <- add64 n 1 ;; do nn <- neg64 n1 ;;
     do r1 <- step64 tag f nn ;;
     do r2 <- step64 tag r1 1 ;; OK (align64 tag r2)).

(* ---- scale_add / ymd_ord / day_difference / difference (:259-315) ---- *)

Definition scale_add64 (v f a : Z) : res Z :=
  if v <? 0 then
    (do t <- add64 v 1 ;; do u <- mul64 t f ;; do w <- add64 u a ;; sub64 w f)
  else
    (do t <- sub64 v 1 ;; do u <- mul64 t f ;; do w <- add64 u a ;; add64 w f).

Definition ymd_ord64 (y m d : Z) : res Z :=
  do eyear <- (if m <=? 2 then sub64 y 1 else OK y) ;;
  do e0 <- (if 0 <=? eyear then OK eyear else sub64 eyear 399) ;;
  let era := Z.quot e0 400 in
  do t <- mul64 era 400 ;;
  do yoe <- sub64 eyear t ;;
  let doy := Z.quot (153 * (m + (if 2 <? m then -3 else 9)) + 2) 5 + d - 1 in
  do a <- mul64 yoe 365 ;;
  do b <- add64 a (Z.quot yoe 4) ;;
  do c <- sub64 b (Z.quot yoe 100) ;;
  do doe <- add64 c doy ;;
  do e <- mul64 era 146097 ;;
  do f <- add64 e doe ;;
  sub64 f 719468.

Definition day_difference64 (y1 m1 d1 y2 m2 d2 : Z) : res Z :=
  let a_c4_off := Z.rem y1 400 in
  let b_c4_off := Z.rem y2 400 in
  do ya <- sub64 y1 a_c4_off ;;
  do yb <- sub64 y2 b_c4_off ;;
  do c4_diff <- sub64 ya yb ;;
  do oa <- ymd_ord64 a_c4_off m1 d1 ;;
  do ob <- ymd_ord64 b_c4_off m2 d2 ;;
  do delta <- sub64 oa ob ;;
  do '(delta1, c4_diff1) <-
     (if (0 <? c4_diff) && (delta <? 0) then
        (do dl <- add64 delta (2 * 146097) ;; do c <- sub64 c4_diff (2 * 400) ;; OK (dl, c))
      else if (c4_diff <? 0) && (0 <? delta) then
        (do dl <- sub64 delta (2 * 146097) ;; do c <- add64 c4_diff (2 * 400) ;; OK (dl, c))
      else OK (delta, c4_diff)) ;;
  do t <- mul64 (Z.quot c4_diff1 400) 146097 ;;
  add64 t delta1.

Definition diff_year64 (f1 f2 : fields) : res Z := sub64 (fy f1) (fy f2).
Definition diff_month64 (f1 f2 : fields) : res Z :=
  do v <- diff_year64 f1 f2 ;; scale_add64 v 12 (fm f1 - fm f2).
Definition diff_day64 (f1 f2 : fields) : res Z :=
  day_difference64 (fy f1) (fm f1) (fd f1) (fy f2) (fm f2) (fd f2).
Definition diff_hour64 (f1 f2 : fields) : res Z :=
  do v <- diff_day64 f1 f2 ;; scale_add64 v 24 (fhh f1 - fhh f2).
Definition diff_minute64 (f1 f2 : fields) : res Z :=
  do v <- diff_hour64 f1 f2 ;; scale_add64 v 60 (fmm f1 - fmm f2).
Definition diff_second64 (f1 f2 : fields) : res Z :=
  do v <- diff_minute64 f1 f2 ;; scale_add64 v 60 (fss f1 - fss f2).

Definition difference64 (tag : nat) (f1 f2 : fields) : res Z :=
  match tag with
  | 0%nat => diff_second64 f1 f2
  | 1%nat => diff_minute64 f1 f2
  | 2%nat => diff_hour64 f1 f2
  | 3%nat => diff_day64 f1 f2
  | 4%nat => diff_month64 f1 f2
  | _ => diff_year64 f1 f2
  end.

(* ---- relational operators (:455-496): always all six fields ---- *)
Definition lt64 (a b : fields) : bool := fields_ltb a b.
Definition eq64 (a b : fields) : bool := fields_eqb a b.

(* ---- get_weekday (:510-525); result 0 = monday .. 6 = sunday ---- *)

Definition get_weekday64 (f : fields) : res Z :=
  let wd0 := 2400 + Z.rem (fy f) 400 - b2z (fm f <? 3) in
  let wd1 := wd0 + (Z.quot wd0 4 - Z.quot wd0 100 + Z.quot wd0 400) in
  match (if fm f <? 0 then None else nth_error src_k_weekday_offsets (Z.to_nat (fm f))) with
  | None => Err OOB
  | Some off =>
      let wd2 := wd1 + off + fd f in
      let idx := Z.rem wd2 7 + 6 in
      match (if idx <? 0 then None else nth_error src_k_weekday_by_mon_off (Z.to_nat idx)) with
      | None => Err OOB
      | Some w => OK w
      end
  end.

(* ---- next_weekday / prev_weekday (:529-567) ---- *)

(* find first index i >= start with tbl[i] = w; reading past the table is OOB *)
Fixpoint find_from (fuel : nat) (tbl : list Z) (w : Z) (i : nat) : res nat :=
  match fuel with
  | O => Err Fuel
  | S f =>
      match nth_error tbl i with
      | None => Err OOB
      | Some x => if x =? w then OK i else find_from f tbl w (S i)
      end
  end.

Definition next_weekday64 (cd : fields) (wd : Z) : res fields :=
  do base <- get_weekday64 cd ;;
  do i <- find_from 15 src_k_weekdays_forw base 0 ;;
  do j <- find_from 15 src_k_weekdays_forw wd (S i) ;;
  plus64 3 cd (Z.of_nat j - Z.of_nat i).

Definition prev_weekday64 (cd : fields) (wd : Z) : res fields :=
  do base <- get_weekday64 cd ;;
  do i <- find_from 15 src_k_weekdays_back base 0 ;;
  do j <- find_from 15 src_k_weekdays_back wd (S i) ;;
  minus64 3 cd (Z.of_nat j - Z.of_nat i).

(* ---- get_yearday (:569-575) ---- *)
Definition get_yearday64 (f : fields) : res Z :=
  match (if fm f <? 0 then None else nth_error src_k_month_offsets (Z.to_nat (fm f))) with
  | None => Err OOB
  | Some off =>
      let feb29 := b2z ((2 <? fm f) && is_leap_year64 (fy f)) in
      OK (off + feb29 + fd f)
  end.

(* civil_second::max() / min() *)
Definition civil_max64 : fields := mkF max64 12 31 23 59 59.
Definition civil_min64 : fields := mkF min64 1 1 0 0 0.

(* ---- operator<< (src/civil_time_detail.cc:27-62) ---- *)
Definition dec_signed (v : Z) : list Z :=
  if v <? 0 then 45 :: dec_digits (- v) else dec_digits v.
Definition pad2 (v : Z) : list Z :=
  let s := dec_signed v in if Nat.ltb (length s) 2 then 48 :: s else s.
Definition stream64 (tag : nat) (f : fields) : list Z :=
  let y := dec_signed (fy f) in
  let mo := y ++ [45] ++ pad2 (fm f) in
  let da := mo ++ [45] ++ pad2 (fd f) in
  let ho := da ++ [84] ++ pad2 (fhh f) in
  let mi := ho ++ [58] ++ pad2 (fmm f) in
  let se := mi ++ [58] ++ pad2 (fss f) in
  match tag with
  | 0%nat => se | 1%nat => mi | 2%nat => ho | 3%nat => da | 4%nat => mo | _ => y
  end.
