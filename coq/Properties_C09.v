(* Properties_C09.v — C09: parse() accepts only well-formed in-range input. *)
From CCTZ Require Import Base SrcConstants Cal CivilImpl PosixImpl ZoneLoad FormatImpl ParseImpl FmtSpec ParseProofs.
Local Open Scope Z_scope.

(* ParseInt never wraps and never over-reads: a returned value is exactly the
   decimal value of the sign and digits it consumed, within [lo, hi], and it
   consumes at most `width` bytes when a width is given; "-0" is refused *)
Definition signed_value (cs : list Z) : option Z :=
  match cs with
  | 45 :: ds => if forallb is_digit ds && negb (Nat.eqb (length ds) 0) then Some (- digits_val ds) else None
  | ds => if forallb is_digit ds && negb (Nat.eqb (length ds) 0) then Some (digits_val ds) else None
  end.

Theorem parse_int_sound : forall kmin dp width lo hi v rest,
  kmin < 0 -> parse_int kmin dp width lo hi = Some (v, rest) ->
  exists cs, dp = cs ++ rest /\ signed_value cs = Some v /\ lo <= v <= hi /\
             kmin <= v <= - (kmin + 1) /\ (0 < width -> Z.of_nat (length cs) <= width).
Proof. exact parse_int_sound_lemma. Qed.
Print Assumptions parse_int_sound.

(* whenever the scanner accepts, every internally handled field is in its
   documented range (read from the source's ParseInt arguments) *)
Definition fields_in_range (s : pstate) : Prop :=
  let t := ps_tm s in
  0 <= tm_sec t <= 60 /\ 0 <= tm_min t <= 59 /\ 0 <= tm_hour t <= 23 /\
  1 <= tm_mday t <= 31 /\ 0 <= tm_mon t <= 11 /\ 0 <= tm_wday t <= 6 /\
  -1 <= ps_week_num s <= 53 /\ -86399 <= ps_offset s <= 86399 /\ 0 <= ps_subsec s < 10 ^ 15 /\
  int64 (ps_year s) /\ int64 (ps_percent_s s).

(* for formats without strftime-handled specifiers the oracle is never consulted *)
Definition no_strptime (strptime_o : list Z -> list Z -> tmrec -> option (list Z * tmrec)) : Prop :=
  forall d f t, strptime_o d f t = None.

Theorem scan_range : forall strptime_o fmt data rest s,
  no_strptime strptime_o ->
  scan_loop strptime_o (S (length fmt)) fmt data ps0 = OK (Some (rest, s)) -> fields_in_range s.
Proof. exact scan_range_lemma. Qed.
Print Assumptions scan_range.

(* the scanner itself never overflows, reads out of bounds or runs out of fuel, for ANY pair of byte strings and ANY oracle *)
Theorem scan_safe : forall strptime_o fmt data,
  exists r, scan_loop strptime_o (S (length fmt)) fmt data ps0 = OK r.
Proof. exact scan_safe_lemma. Qed.
Print Assumptions scan_safe.

From CCTZ Require Import FinishDefs FinishProofs.

(* everything parse() does after the scanning loop, when the fields are read in UTC *)
Theorem finish_utc_correct : forall tz utc data s,
  reset_to_builtin_utc 0 = OK utc ->
  (ps_saw_offset s = true \/ tz = utc) ->
  ps_saw_s s = false -> ps_week_num s = -1 ->
  skip_space data = [] ->
  0 <= tm_sec (ps_tm s) <= 60 -> 0 <= tm_min (ps_tm s) <= 59 -> 0 <= tm_hour (ps_tm s) <= 23 ->
  1 <= tm_mday (ps_tm s) <= 31 -> 0 <= tm_mon (ps_tm s) <= 11 ->
  -86399 <= ps_offset s <= 86399 -> int64 (ps_year s) -> -2147483648 <= tm_year (ps_tm s) <= 2147483647 ->
  (ps_twelve s && ps_afternoon s = false) ->
  parse_finish tz utc (Some (data, s)) = OK (finish_expected s).
Proof. exact finish_utc_correct_lemma. Qed.
Print Assumptions finish_utc_correct.

