(* Properties_C09.v — C09: parse() accepts only well-formed in-range input. *)
From CCTZ Require Import Base SrcConstants Cal CivilImpl PosixImpl ZoneLoad FormatImpl ParseImpl FmtSpec ParseProofs.
Local Open Scope Z_scope.

(* ParseInt never wraps and never over-reads: a returned value is exactly the
   decimal value of the sign and digits it consumed, within [lo, hi], and it
   consumes at most `width` bytes when a width is given; "-0" is refused *)
Definition signed_value (cs : list Z) : option Z :=
  match cs with
  | 45 :: ds => if forallb is_digit ds && negb (Nat.eqb (length ds) 0) then Some (- digits_val ds) else None
  | ds => if forallb is_digit ds && negb (Nat.eqb (length ds) 0) then Some (digits_val ds) else None
  end.

Theorem parse_int_sound : forall kmin dp width lo hi v rest,
  kmin < 0 -> parse_int kmin dp width lo hi = Some (v, rest) ->
  exists cs, dp = cs ++ rest /\ signed_value cs = Some v /\ lo <= v <= hi /\
             kmin <= v <= - (kmin + 1) /\ (0 < width -> Z.of_nat (length cs) <= width).
Proof. exact parse_int_sound_lemma. Qed.
Print Assumptions parse_int_sound.

(* whenever the scanner accepts, every internally handled field is in its
   documented range (read from the source's ParseInt arguments) *)
Definition fields_in_range (s : pstate) : Prop :=
  let t := ps_tm s in
  0 <= tm_sec t <= 60 /\ 0 <= tm_min t <= 59 /\ 0 <= tm_hour t <= 23 /\
  1 <= tm_mday t <= 31 /\ 0 <= tm_mon t <= 11 /\ 0 <= tm_wday t <= 6 /\
  -1 <= ps_week_num s <= 53 /\ -86399 <= ps_offset s <= 86399 /\ 0 <= ps_subsec s < 10 ^ 15 /\
  int64 (ps_year s) /\ int64 (ps_percent_s s).

(* for formats without strftime-handled specifiers the oracle is never consulted *)
Definition no_strptime (strptime_o : list Z -> list Z -> tmrec -> option (list Z * tmrec)) : Prop :=
  forall d f t, strptime_o d f t = None.

Theorem scan_range : forall strptime_o fmt data rest s,
  no_strptime strptime_o ->
  scan_loop strptime_o (S (length fmt)) fmt data ps0 = OK (Some (rest, s)) -> fields_in_range s.
Proof. exact scan_range_lemma. Qed.
Print Assumptions scan_range.

(* the scanner itself never overflows, reads out of bounds or runs out of fuel, for ANY pair of byte strings and ANY oracle *)
Theorem scan_safe : forall strptime_o fmt data,
  exists r, scan_loop strptime_o (S (length fmt)) fmt data ps0 = OK r.
Proof. exact scan_safe_lemma. Qed.
Print Assumptions scan_safe.

From CCTZ Require Import FinishDefs FinishProofs.

(* everything parse() does after the scanning loop, when the fields are read in UTC *)
Theorem finish_utc_correct : forall tz utc data s,
  reset_to_builtin_utc 0 = OK utc ->
  (ps_saw_offset s = true \/ tz = utc) ->
  ps_saw_s s = false -> ps_week_num s = -1 ->
  skip_space data = [] ->
  0 <= tm_sec (ps_tm s) <= 60 -> 0 <= tm_min (ps_tm s) <= 59 -> 0 <= tm_hour (ps_tm s) <= 23 ->
  1 <= tm_mday (ps_tm s) <= 31 -> 0 <= tm_mon (ps_tm s) <= 11 ->
  -86399 <= ps_offset s <= 86399 -> int64 (ps_year s) -> -2147483648 <= tm_year (ps_tm s) <= 2147483647 ->
  (ps_twelve s && ps_afternoon s = false) ->
  parse_finish tz utc (Some (data, s)) = OK (finish_expected s).
Proof. exact finish_utc_correct_lemma. Qed.
Print Assumptions finish_utc_correct.


From CCTZ Require Import ZoneLoad ZoneImpl ZoneZ ZoneRefineDefs LoadCert FinishZone.

(* the denoted instant in a GENERAL zone (no offset in the input): everything parse() does after the scanning loop
   returns lookup(civil).pre of the civil second the fields denote - leap second 60, 12-hour clock, year source,
   normalisation test and the two range checks included - for every certified zone, and for every accepted file;
   the %U/%W week-number branch against a calendar characterisation of (year, week, weekday) *)
Theorem finish_zone_correct : forall tz utc data s,
  zone_ok tz = true ->
  ps_saw_offset s = false -> ps_offset s = 0 ->
  ps_saw_s s = false -> ps_week_num s = -1 ->
  skip_space data = [] ->
  0 <= tm_sec (ps_tm s) <= 60 -> 0 <= tm_min (ps_tm s) <= 59 -> 0 <= tm_hour (ps_tm s) <= 23 ->
  1 <= tm_mday (ps_tm s) <= 31 -> 0 <= tm_mon (ps_tm s) <= 11 ->
  int64 (ps_year s) -> -2147483648 <= tm_year (ps_tm s) <= 2147483647 ->
  (z_extended tz = false \/
   (fy (civil_of_seconds (finish_zone_civil s)) <= z_last_year tz /\ z_last_year tz < YMAX)) ->
  parse_finish tz utc (Some (data, s)) = OK (finish_zone_expected tz s).
Proof. exact finish_zone_correct_lemma. Qed.
Print Assumptions finish_zone_correct.

Theorem finish_zone_every_accepted_file : forall bs tz utc data s,
  load_bytes bs = OK (Some tz) ->
  gaps_wide (zz_doff (abs_zone tz)) (zz_tr (abs_zone tz)) = true ->
  ps_saw_offset s = false -> ps_offset s = 0 ->
  ps_saw_s s = false -> ps_week_num s = -1 ->
  skip_space data = [] ->
  0 <= tm_sec (ps_tm s) <= 60 -> 0 <= tm_min (ps_tm s) <= 59 -> 0 <= tm_hour (ps_tm s) <= 23 ->
  1 <= tm_mday (ps_tm s) <= 31 -> 0 <= tm_mon (ps_tm s) <= 11 ->
  int64 (ps_year s) -> -2147483648 <= tm_year (ps_tm s) <= 2147483647 ->
  (z_extended tz = false \/
   (fy (civil_of_seconds (finish_zone_civil s)) <= z_last_year tz /\ z_last_year tz < YMAX)) ->
  parse_finish tz utc (Some (data, s)) = OK (finish_zone_expected tz s).
Proof. exact accepted_finish_zone_correct_lemma. Qed.
Print Assumptions finish_zone_every_accepted_file.

Theorem finish_zone_week : forall tz utc data s,
  zone_ok tz = true ->
  ps_saw_offset s = false -> ps_offset s = 0 ->
  ps_saw_s s = false -> 0 <= ps_week_num s <= 53 -> 0 <= ps_week_start s <= 6 ->
  skip_space data = [] ->
  0 <= tm_sec (ps_tm s) <= 60 -> 0 <= tm_min (ps_tm s) <= 59 -> 0 <= tm_hour (ps_tm s) <= 23 ->
  0 <= tm_wday (ps_tm s) <= 6 ->
  int64 (ps_year s) -> -2147483648 <= tm_year (ps_tm s) <= 2147483647 ->
  (z_extended tz = false \/
   (fy (civil_of_seconds (finish_zone_civil_week s)) <= z_last_year tz /\ z_last_year tz < YMAX)) ->
  parse_finish tz utc (Some (data, s)) = OK (finish_zone_expected_week tz s).
Proof. exact finish_zone_week_lemma. Qed.
Print Assumptions finish_zone_week.


From CCTZ Require Import SourcePosix SourcePosixProofs SourceFmtParse SourceFmtParseProofs.

(* SOURCE-DERIVED data-side helpers of parse() (SourceFmtParse.v, regenerated from clang's AST of
   src/time_zone_format.cc on every run): never err, and compute what the hand-written model computes *)
Theorem src_parse_int_tie : forall fuel buf dp width lo hi vp,
  0 <= dp <= blen buf -> (length buf < fuel)%nat -> int32 width ->
  match parse_int32 (suffix buf dp) width lo hi with
  | Some (v, rest) => exists dp',
      sf_ParseInt_int fuel buf dp width lo hi vp = OK (dp', v) /\ rest = suffix buf dp' /\
      dp < dp' <= blen buf /\ lo <= v <= hi
  | None => sf_ParseInt_int fuel buf dp width lo hi vp = OK (-1, vp)
  end.
Proof. exact sf_ParseInt_int_tie. Qed.
Print Assumptions src_parse_int_tie.

Theorem src_parse_int64_tie : forall fuel buf dp width lo hi vp,
  0 <= dp <= blen buf -> (length buf < fuel)%nat -> int32 width ->
  match parse_int64 (suffix buf dp) width lo hi with
  | Some (v, rest) => exists dp',
      sf_ParseInt_long fuel buf dp width lo hi vp = OK (dp', v) /\ rest = suffix buf dp' /\
      dp < dp' <= blen buf /\ lo <= v <= hi
  | None => sf_ParseInt_long fuel buf dp width lo hi vp = OK (-1, vp)
  end.
Proof. exact sf_ParseInt_long_tie. Qed.
Print Assumptions src_parse_int64_tie.

Theorem src_parse_offset_tie : forall fuel buf dp mode_buf mode off0,
  0 <= dp <= blen buf -> 0 <= mode <= blen mode_buf -> (length buf < fuel)%nat ->
  match fmt_parse_offset (suffix buf dp) (deref (suffix mode_buf mode)) with
  | Some (v, rest) => exists dp',
      sf_ParseOffset fuel buf dp mode_buf mode off0 = OK (dp', v) /\ rest = suffix buf dp' /\
      dp < dp' <= blen buf /\ -86399 <= v <= 86399
  | None => sf_ParseOffset fuel buf dp mode_buf mode off0 = OK (-1, off0)
  end.
Proof. exact sf_ParseOffset_tie. Qed.
Print Assumptions src_parse_offset_tie.

Theorem src_parse_subseconds_tie : forall fuel buf dp s0,
  0 <= dp <= blen buf -> (length buf < fuel)%nat ->
  match parse_subseconds (suffix buf dp) with
  | OK (Some (v, rest)) => exists dp',
      sf_ParseSubSeconds fuel buf dp s0 = OK (dp', v) /\ rest = suffix buf dp' /\
      dp < dp' <= blen buf /\ 0 <= v < 1000000000000000
  | OK None => sf_ParseSubSeconds fuel buf dp s0 = OK (-1, s0)
  | Err _ => False      (* the model itself never errs either *)
  end.
Proof. exact sf_ParseSubSeconds_tie. Qed.
Print Assumptions src_parse_subseconds_tie.


From CCTZ Require Import ScanSound.
(* "returns true only if the whole input (apart from leading, trailing and format-directed whitespace) matches the format":
   soundness of the scanner against a DECLARATIVE grammar (ScanSound.Matches: one rule per kind of format item - format
   whitespace matches any run of whitespace, a literal byte itself, %% a percent sign, each library specifier the documented
   numeral / offset / fraction forms with their ranges, anything else what strptime consumed), for EVERY pair of byte
   strings; the state the scanner returns is the fold of the events the matched text denotes.  The only premise:
   strptime returns a suffix of the text it was given.  Where the code is more liberal than time_zone.h documents
   (offsets +hh / +hhmm(ss) without colons under %Ez, an empty %E*f, leading zeros of %u %w %U %W) the grammar has explicitly
   named extra rules (off_extra_*, xf_extra_empty). *)
Theorem scan_sound : forall strptime_o fmt data rest s,
  returns_suffix strptime_o ->
  scan_loop strptime_o (S (length fmt)) fmt data ps0 = OK (Some (rest, s)) ->
  exists consumed evs, data = consumed ++ rest /\ Matches fmt consumed rest evs /\ s = apply_events strptime_o evs ps0.
Proof. exact ScanSound.scan_sound. Qed.
Print Assumptions scan_sound.
Theorem parse_sound : forall strptime_o tz utc fmt input t fs,
  returns_suffix strptime_o ->
  parse_impl strptime_o tz utc fmt input = OK (Some (t, fs)) ->
  exists lead text trail evs,
    c_str input = lead ++ text ++ trail /\ Forall space lead /\ Forall space trail /\
    Matches (c_str fmt) text trail evs /\
    parse_finish tz utc (Some (trail, apply_events strptime_o evs ps0)) = OK (Some (t, fs)).
Proof. exact ScanSound.parse_sound. Qed.
Print Assumptions parse_sound.

From CCTZ Require Import SourcePosix SourceFmtParse SourceParseLoop SourceParseLoopProofs SourceParseLoopIntProofs.
(* THE SPECIFIER LOOP OF parse() AS CLANG READS IT NOW (SourceParseLoop.v, regenerated every run: the function up to and
   including the `while (data != nullptr && *fmt != 0)` loop - white space, literal text, the switch with the ParseInt /
   ParseOffset / ParseSubSeconds calls of SourceFmtParse.v, ParseZone, the %E look-aheads, the %e blank branch, strptime
   (ParseTM) as an oracle whose result is CHECKED to be a suffix of the data).  Loop-invariant simulation: whenever the
   hand-written scan_loop returns, the source-derived loop returns the same state (every C++ local = the pstate field) and
   the same remaining input, every read in bounds - for every format of the sub-language int_fmt (all conversions except
   %p, %E#S/%E#f, %E<x>/%O<x> other than the library's own, %: not followed by z, which are covered by the 585-pair
   computational agreement parse_loop_agrees_on_pairs only). *)
Theorem src_parse_loop_tie : forall o fmt input fuel r,
  oracle_suffix o ->
  int_fmt (c_str fmt) = true -> bytes_in fmt -> bytes_in input ->
  (2 * length fmt + 2 * length input + 8 <= fuel)%nat ->
  scan_loop o (S (length (c_str fmt))) (c_str fmt) (skip_space (c_str input)) ps0 = OK r ->
  exists st, sp_parse_loop o fuel fmt input = OK st /\
    match r with
    | None => data_of24 st = -1
    | Some (rest, s) => exists zone dp, st = FINAL s zone dp /\ valid input dp /\ rest = suffix input dp
    end.
Proof. exact sp_parse_loop_tie_int. Qed.
Print Assumptions src_parse_loop_tie.
Theorem src_parse_loop_agrees_on_pairs :
  forallb (fun p => agree toy_strptime (fst p) (snd p)) pairs = true.
Proof. exact parse_loop_agrees_on_pairs. Qed.
Print Assumptions src_parse_loop_agrees_on_pairs.
