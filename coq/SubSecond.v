(* SubSecond.v - C11 for time_points FINER than seconds: the templates
     template <typename D> bool next_transition(const time_point<D>& tp, civil_transition* trans)
     template <typename D> bool prev_transition(const time_point<D>& tp, civil_transition* trans)
   of include/cctz/time_zone.h (model: split_seconds of SplitJoin.v, then the whole-second query of ZoneImpl.v).
   "Strictly after t" for an instant t = c*num/den seconds is "strictly after floor(t)" for whole-second change
   instants, but "strictly before t" is "strictly before CEIL(t)": the pre-fix code floored in both (finding F17,
   prev_sub_floor_refuted); prev_transition now rounds up when tp has a sub-second part. *)
From CCTZ Require Import Base Cal CivilImpl ZoneLoad ZoneImpl ZoneZ C11Defs SplitJoin SplitJoinProofs.
From CCTZ Require Export SubSecondDefs.
Require Import Lia ZifyBool.
Local Open Scope Z_scope.
Ltac Zify.zify_post_hook ::= Z.div_mod_to_equations.

(* a change at whole second x is strictly after / before the instant c*num/den *)
Definition after_sub (num den c x : Z) : bool := c * num <? x * den.
Definition before_sub (num den c x : Z) : bool := x * den <? c * num.

Lemma after_sub_floor num den c x : 1 <= num -> 1 <= den ->
  after_sub num den c x = ((c * num) / den <? x).
Proof.
  intros Hn Hd. unfold after_sub. apply Bool.eq_true_iff_eq. rewrite !Z.ltb_lt.
  pose proof (Z.div_mod (c * num) den ltac:(lia)). pose proof (Z.mod_pos_bound (c * num) den ltac:(lia)). nia.
Qed.

Lemma before_sub_ceil num den c x : 1 <= num -> 1 <= den ->
  before_sub num den c x =
  (x <? (if (c * num) mod den =? 0 then (c * num) / den else (c * num) / den + 1)).
Proof.
  intros Hn Hd. unfold before_sub. apply Bool.eq_true_iff_eq. rewrite !Z.ltb_lt.
  pose proof (Z.div_mod (c * num) den ltac:(lia)). pose proof (Z.mod_pos_bound (c * num) den ltac:(lia)).
  destruct ((c * num) mod den =? 0) eqn:E; nia.
Qed.

(* the first change strictly after / the last strictly before a sub-second instant *)
Definition first_after_sub (num den c : Z) (l : list ztr) : option ztr :=
  match filter (fun tr => after_sub num den c (zt_time tr)) l with x :: _ => Some x | [] => None end.
Definition last_before_sub (num den c : Z) (l : list ztr) : option ztr :=
  match rev (filter (fun tr => before_sub num den c (zt_time tr)) l) with x :: _ => Some x | [] => None end.

Lemma filter_ext' {A} (f g : A -> bool) l : (forall x, f x = g x) -> filter f l = filter g l.
Proof. intros H. induction l as [|a l IH]; [reflexivity|]. cbn [filter]. rewrite H, IH. reflexivity. Qed.

(* NEXT: the template's floor is exactly "strictly after the sub-second instant" *)
Theorem next_sub_spec : forall z num den c, 1 <= num -> 1 <= den ->
  int64 (c * num) -> int64 ((c * num) / den * den) -> int64 ((c * num) / den - 1) ->
  next_transition_sub z num den c = next_transition z ((c * num) / den) /\
  (forall l, first_after l ((c * num) / den) = first_after_sub num den c l).
Proof.
  intros z num den c Hn Hd I1 I2 I3. split.
  - unfold next_transition_sub. destruct (split_floor_lemma num den c Hn Hd I1 I2 I3) as [E _].
    rewrite E. reflexivity.
  - intros l. unfold first_after, first_after_sub.
    rewrite (filter_ext' (fun tr => after_sub num den c (zt_time tr)) (fun tr => (c * num) / den <? zt_time tr)); [reflexivity|].
    intros x. apply after_sub_floor; assumption.
Qed.

(* PREV: rounding UP when there is a sub-second part is exactly "strictly before the sub-second instant" *)
Theorem prev_sub_spec : forall z num den c, 1 <= num -> 1 <= den ->
  int64 (c * num) -> int64 ((c * num) / den * den) -> int64 ((c * num) / den - 1) ->
  (c * num) / den < max64 ->
  let up := if (c * num) mod den =? 0 then (c * num) / den else (c * num) / den + 1 in
  prev_transition_sub z num den c = prev_transition z up /\
  (forall l, last_before l up = last_before_sub num den c l).
Proof.
  intros z num den c Hn Hd I1 I2 I3 Hm up. split.
  - unfold prev_transition_sub. destruct (split_floor_lemma num den c Hn Hd I1 I2 I3) as [E R].
    rewrite E. cbn [bind]. unfold split_spec. cbn [fst snd].
    unfold mul64. rewrite (chk64_in _ I2), (chk64_in _ I1). cbn [bind]. f_equal. subst up.
    pose proof (Z.div_mod (c * num) den ltac:(lia)) as DM.
    pose proof (Z.mod_pos_bound (c * num) den ltac:(lia)) as MB.
    assert (Hx : ((c * num) / den =? max64) = false) by (apply Z.eqb_neq; lia).
    rewrite Hx. cbn [negb]. rewrite Bool.andb_true_r.
    destruct ((c * num) mod den =? 0) eqn:E0.
    + apply Z.eqb_eq in E0. assert (((c * num) / den * den <? c * num) = false) by (apply Z.ltb_ge; nia).
      rewrite H. reflexivity.
    + apply Z.eqb_neq in E0. assert (((c * num) / den * den <? c * num) = true) by (apply Z.ltb_lt; nia).
      rewrite H. reflexivity.
  - intros l. unfold last_before, last_before_sub. subst up.
    rewrite (filter_ext' (fun tr => before_sub num den c (zt_time tr))
               (fun tr => zt_time tr <? (if (c * num) mod den =? 0 then (c * num) / den else (c * num) / den + 1))); [reflexivity|].
    intros x. apply before_sub_ceil; assumption.
Qed.

(* F17: the pre-fix template floored: a change at the whole second just below a sub-second instant was not reported *)
Theorem prev_sub_floor_refuted : exists num den c x,
  1 <= num /\ 1 <= den /\ before_sub num den c x = true /\
  (* x is strictly before the instant, yet the floor-based query asks for changes strictly before x *)
  (c * num) / den = x.
Proof. exists 1, 1000, 1500, 1. repeat split; try lia; reflexivity. Qed.

Print Assumptions next_sub_spec.
Print Assumptions prev_sub_spec.
