(* Properties_C10.v — C10: conversions are total and saturate.  What is proved
   so far; the sanitizer-instrumented correspondence covers the rest (see
   DESIGN.md): *)
From CCTZ Require Import Base Cal CivilImpl ZoneLoad ZoneImpl ZoneHist ZoneSelect ZoneZ ZoneZProofs.
Local Open Scope Z_scope.

(* on every table sorted both ways (which Load establishes) no query ever
   violates the precondition of std::upper_bound / lower_bound *)
Theorem c10_searches_defined : forall z h t cs, table_sorted z = true ->
  break_time z h t <> Err Precond /\ make_time z h cs <> Err Precond /\
  next_transition z t <> Err Precond /\ prev_transition z t <> Err Precond.
Proof. exact searches_meet_precondition_lemma. Qed.
Print Assumptions c10_searches_defined.

(* saturating a monotone conversion at the ends of the range keeps it monotone
   and leaves in-range values exact *)
Theorem c10_clamp_exact_and_monotone : forall z L1 L2 lo hi, wfz z = true -> lo <= hi -> L1 < L2 ->
  Z.max lo (Z.min hi (zconvert z L1)) <= Z.max lo (Z.min hi (zconvert z L2)) /\
  (lo <= zconvert z L1 <= hi -> Z.max lo (Z.min hi (zconvert z L1)) = zconvert z L1).
Proof.
  intros z L1 L2 lo hi Hw Hl HL. split.
  - exact (zconvert_clamped_mono_lemma z L1 L2 lo hi Hw Hl HL).
  - intros H. lia.
Qed.
Print Assumptions c10_clamp_exact_and_monotone.
