(* Properties_C10.v — C10: conversions are total and saturate.  What is proved
   so far; the sanitizer-instrumented correspondence covers the rest (see
   DESIGN.md): *)
From CCTZ Require Import Base Cal CivilImpl ZoneLoad ZoneImpl ZoneHist ZoneSelect ZoneZ ZoneZProofs.
Local Open Scope Z_scope.

(* on every table sorted both ways (which Load establishes) no query ever
   violates the precondition of std::upper_bound / lower_bound *)
Theorem c10_searches_defined : forall z h t cs, table_sorted z = true ->
  break_time z h t <> Err Precond /\ make_time z h cs <> Err Precond /\
  next_transition z t <> Err Precond /\ prev_transition z t <> Err Precond.
Proof. exact searches_meet_precondition_lemma. Qed.
Print Assumptions c10_searches_defined.

(* saturating a monotone conversion at the ends of the range keeps it monotone
   and leaves in-range values exact *)
Theorem c10_clamp_exact_and_monotone : forall z L1 L2 lo hi, wfz z = true -> lo <= hi -> L1 < L2 ->
  Z.max lo (Z.min hi (zconvert z L1)) <= Z.max lo (Z.min hi (zconvert z L2)) /\
  (lo <= zconvert z L1 <= hi -> Z.max lo (Z.min hi (zconvert z L1)) = zconvert z L1).
Proof.
  intros z L1 L2 lo hi Hw Hl HL. split.
  - exact (zconvert_clamped_mono_lemma z L1 L2 lo hi Hw Hl HL).
  - intros H. lia.
Qed.
Print Assumptions c10_clamp_exact_and_monotone.

From CCTZ Require Import Base Cal CivilImpl PosixImpl FixedImpl ZoneLoad ZoneImpl ZoneZ ZoneHist ZoneRefineDefs ZoneRefine.

(* exact saturation: the implementation-level MakeTime returns the integer-level
   answer clamped to the time_point range - never a wrapped value *)
(* civil -> instant: the integer-level answer, clamped to the time_point range *)
Definition clamp (v : Z) : Z := Z.max min64 (Z.min max64 v).
Definition kind_of (k : zkind) : ckind := match k with ZU => UNIQUE | ZS => SKIPPED | ZR => REPEATED end.

Theorem c10_make_saturates : forall z h cs, zone_ok z = true -> valid_fields cs = true -> int64 (fy cs) ->
  (z_extended z = false \/ fy cs <= z_last_year z) ->
  exists h',
    let c := zmake (abs_zone z) (sec_of cs) in
    make_time z h cs = OK (mkCL (kind_of (zk c)) (clamp (zpre c)) (clamp (ztrans c)) (clamp (zpost c)), h').
Proof. exact make_refines_lemma. Qed.
Print Assumptions c10_make_saturates.

(* instant -> civil, table region (every t when the zone is not extended) *)
Theorem c10_break_total : forall z h t, zone_ok z = true -> int64 t ->
  (z_extended z = false \/ (forall l, last_opt (z_trans z) = Some l -> t < tr_time l)) ->
  exists h' dst ab,
    break_time z h t = OK (mkAL (civil_of_seconds (t + zoff (abs_zone z) t)) (zoff (abs_zone z) t) dst ab, h')
    /\ info_of z (zid (abs_zone z) t) = OK (dst, ab).
Proof. exact break_refines_lemma. Qed.
Print Assumptions c10_break_total.
