(* Properties_C10.v — C10: conversions are total and saturate.  What is proved
   so far; the sanitizer-instrumented correspondence covers the rest (see
   DESIGN.md): *)
From CCTZ Require Import Base Cal CivilImpl ZoneLoad ZoneImpl ZoneHist ZoneSelect ZoneZ ZoneZProofs.
Local Open Scope Z_scope.

(* on every table sorted both ways (which Load establishes) no query ever
   violates the precondition of std::upper_bound / lower_bound *)
Theorem c10_searches_defined : forall z h t cs, table_sorted z = true ->
  break_time z h t <> Err Precond /\ make_time z h cs <> Err Precond /\
  next_transition z t <> Err Precond /\ prev_transition z t <> Err Precond.
Proof. exact searches_meet_precondition_lemma. Qed.
Print Assumptions c10_searches_defined.

(* saturating a monotone conversion at the ends of the range keeps it monotone
   and leaves in-range values exact *)
Theorem c10_clamp_exact_and_monotone : forall z L1 L2 lo hi, wfz z = true -> lo <= hi -> L1 < L2 ->
  Z.max lo (Z.min hi (zconvert z L1)) <= Z.max lo (Z.min hi (zconvert z L2)) /\
  (lo <= zconvert z L1 <= hi -> Z.max lo (Z.min hi (zconvert z L1)) = zconvert z L1).
Proof.
  intros z L1 L2 lo hi Hw Hl HL. split.
  - exact (zconvert_clamped_mono_lemma z L1 L2 lo hi Hw Hl HL).
  - intros H. lia.
Qed.
Print Assumptions c10_clamp_exact_and_monotone.

From CCTZ Require Import Base Cal CivilImpl PosixImpl FixedImpl ZoneLoad ZoneImpl ZoneZ ZoneHist ZoneRefineDefs ZoneRefine.

(* exact saturation: the implementation-level MakeTime returns the integer-level
   answer clamped to the time_point range - never a wrapped value *)
(* civil -> instant: the integer-level answer, clamped to the time_point range *)
Definition clamp (v : Z) : Z := Z.max min64 (Z.min max64 v).
Definition kind_of (k : zkind) : ckind := match k with ZU => UNIQUE | ZS => SKIPPED | ZR => REPEATED end.

Theorem c10_make_saturates : forall z h cs, zone_ok z = true -> valid_fields cs = true -> int64 (fy cs) ->
  (z_extended z = false \/ fy cs <= z_last_year z) ->
  exists h',
    let c := zmake (abs_zone z) (sec_of cs) in
    make_time z h cs = OK (mkCL (kind_of (zk c)) (clamp (zpre c)) (clamp (ztrans c)) (clamp (zpost c)), h').
Proof. exact make_refines_lemma. Qed.
Print Assumptions c10_make_saturates.

(* instant -> civil, table region (every t when the zone is not extended) *)
Theorem c10_break_total : forall z h t, zone_ok z = true -> int64 t ->
  (z_extended z = false \/ (forall l, last_opt (z_trans z) = Some l -> t < tr_time l)) ->
  exists h' dst ab,
    break_time z h t = OK (mkAL (civil_of_seconds (t + zoff (abs_zone z) t)) (zoff (abs_zone z) t) dst ab, h')
    /\ info_of z (zid (abs_zone z) t) = OK (dst, ab).
Proof. exact break_refines_lemma. Qed.
Print Assumptions c10_break_total.

From CCTZ Require Import LoadCert C10Whole.
Local Notation cos := civil_of_seconds.
(* TOTALITY AND EXACT SATURATION FOR EVERY ACCEPTED FILE (C10Whole.v) - no zone_ok, no gaps_wide: acceptance by the loader
   itself establishes what definedness needs.  shift_safe z is the exact boolean boundary of findings F9/F9b (the table of a
   rule-extended zone ends after 2196-12-04T15:30:07Z and last_year_ >= 207): c10_shift_safe_exact shows it is NECESSARY and
   sufficient, and the unconditional statement is machine-refuted on a concrete accepted file. *)
Theorem c10_total_every_accepted_file : forall bs z,
  load_bytes bs = OK (Some z) -> shift_safe z = true ->
  (forall hint t, int64 t -> exists r, break_time z hint t = OK r) /\
  (forall hint cs, valid_fields cs = true -> int64 (fy cs) -> exists r, make_time z hint cs = OK r) /\
  (forall hint cs, valid_fields cs = true -> int64 (fy cs) -> exists r, convert_cs z hint cs = OK r) /\
  (forall t, int64 t -> exists r, next_transition z t = OK r) /\
  (forall t, int64 t -> exists r, prev_transition z t = OK r).
Proof. exact C10Whole.c10_total_every_accepted_file. Qed.
Print Assumptions c10_total_every_accepted_file.
Theorem c10_shift_safe_exact : forall bs z, load_bytes bs = OK (Some z) ->
  (shift_safe z = true <->
   (forall hint t, int64 t -> exists r, break_time z hint t = OK r) /\
   (forall hint cs, valid_fields cs = true -> int64 (fy cs) -> exists r, make_time z hint cs = OK r)).
Proof. exact C10Whole.c10_shift_safe_exact. Qed.
Print Assumptions c10_shift_safe_exact.
Theorem c10_convert_saturates_table : forall bs z h cs, load_bytes bs = OK (Some z) ->
  valid_fields cs = true -> int64 (fy cs) ->
  (z_extended z = false \/ fy cs <= z_last_year z) ->
  let v := zconvert (abs_zone z) (sec_of cs) in
  convert_cs z h cs = OK (clamp' v) /\
  (max64 <= v -> convert_cs z h cs = OK max64) /\
  (v <= min64 -> convert_cs z h cs = OK min64) /\
  (int64 v -> convert_cs z h cs = OK v).
Proof. exact C10Whole.c10_convert_saturates_table. Qed.
Print Assumptions c10_convert_saturates_table.
Theorem c10_extreme_civil_seconds : forall bs z h, load_bytes bs = OK (Some z) -> shift_safe z = true ->
  convert_cs z h civil_max64 = OK max64 /\ convert_cs z h civil_min64 = OK min64 /\
  (forall cs, valid_fields cs = true -> int64 (fy cs) -> huge_year <= fy cs -> convert_cs z h cs = OK max64) /\
  (forall cs, valid_fields cs = true -> int64 (fy cs) -> fy cs <= tiny_year -> convert_cs z h cs = OK min64).
Proof. exact C10Whole.c10_extreme_civil_seconds. Qed.
Print Assumptions c10_extreme_civil_seconds.
Theorem c10_last_civil_second_exact : forall bs z h l, load_bytes bs = OK (Some z) ->
  z_extended z = false -> last_opt (z_trans z) = Some l ->
  let off := off_of z (tr_type l) in
  let cs := cos (max64 + off) in
  (exists ty, nth_res (z_types z) (tr_type l) = OK ty /\ tt_cmax ty = cs) /\
  (exists h' dst ab, break_time z h max64 = OK (mkAL cs off dst ab, h')) /\
  zconvert (abs_zone z) (sec_of cs) = max64 /\
  convert_cs z h cs = OK max64 /\
  zconvert (abs_zone z) (sec_of (cos (max64 + off + 1))) = max64 + 1 /\
  convert_cs z h (cos (max64 + off + 1)) = OK max64.
Proof. exact C10Whole.c10_last_civil_second_exact. Qed.
Print Assumptions c10_last_civil_second_exact.
Theorem c10_total_fixed : forall off, -86400 <= off <= 86400 ->
  exists z, reset_to_builtin_utc off = OK z /\ z_extended z = false /\ shift_safe z = true /\
    (forall h t, int64 t -> exists h',
       break_time z h t = OK (mkAL (cos (t + off)) off false (fixed_abbr_spec off), h')) /\
    (forall h cs, valid_fields cs = true -> int64 (fy cs) -> exists h',
       make_time z h cs = OK (make_unique (clamp' (sec_of cs - off)), h')) /\
    (forall h cs, valid_fields cs = true -> int64 (fy cs) ->
       convert_cs z h cs = OK (clamp' (sec_of cs - off))) /\
    (forall t, next_transition z t = OK None) /\
    (forall t, prev_transition z t = OK None).
Proof. exact C10Whole.c10_total_fixed. Qed.
Print Assumptions c10_total_fixed.
Theorem c10_total_every_accepted_file_unconditional_refuted :
  ~ (forall bs z, load_bytes bs = OK (Some z) ->
       forall hint t, int64 t -> exists r, break_time z hint t = OK r).
Proof. exact C10Whole.c10_total_every_accepted_file_unconditional_refuted. Qed.
Print Assumptions c10_total_every_accepted_file_unconditional_refuted.
