(* SourceCacheProofs.v - time_zone::Impl::LoadTimeZone as translated from the AST (SourceNames.sn_LoadTimeZone)
   is the S1 | S2 | S3 structure of LoaderSM.v: the fixed-name shortcut, find under the lock, construct outside
   the lock, insert-if-absent (LoaderSM.publish) under the lock.  The contents of time_zone_map at each acquisition
   of the mutex ([world k]) and the constructed Impl ([new_impl]) are universally quantified. *)
From CCTZ Require Import Base FixedImpl ZoneLoad LoaderSM SourceNames.
From CCTZ Require SourceFixed SourceFixedProofs.
Local Open Scope Z_scope.

(* the C++ map for a LoaderSM cache: no null pointers stored *)
Definition imap_of (c : list (name * impl_id)) : imap := map (fun kv => (fst kv, Some (snd kv))) c.
(* time_zone_map: null (nothing cached yet) or pointing to such a map *)
Definition cache_rep (m : option imap) (c : list (name * impl_id)) : Prop :=
  m = Some (imap_of c) \/ (m = None /\ c = []).

(* S3 as a function of the cache: (return value, *tz, cache afterwards) *)
Definition s3_result (c : list (name * impl_id)) (n : name) (fresh : nat) (ok : bool) : bool * option nat * list (name * impl_id) :=
  match cache_find c n with
  | Some id => (negb (Nat.eqb id utc_id), Some id, c)
  | None => if ok then (true, Some fresh, (n, fresh) :: c) else (false, Some utc_id, (n, utc_id) :: c)
  end.

Lemma map_find_of c n : map_find (imap_of c) n = option_map Some (cache_find c n).
Proof. induction c as [|[k v] r IH]; [reflexivity|]. cbn. destruct (list_eqb k n); [reflexivity|apply IH]. Qed.

Lemma list_eqb_refl n : list_eqb n n = true.
Proof. apply list_eqb_eq. reflexivity. Qed.

Lemma map_set_head n v w r : map_set ((n, v) :: r) n w = (n, w) :: r.
Proof. cbn. rewrite list_eqb_refl. reflexivity. Qed.
Lemma map_find_head n v r : map_find ((n, v) :: r) n = Some v.
Proof. cbn. rewrite list_eqb_refl. reflexivity. Qed.

(* the second critical section, on the map found at the acquisition *)
Lemma s3_on_map c2 n (fresh : nat) ok :
  fresh <> utc_id ->
  let m := map_index (imap_of c2) n in
  let '(r, p, c3) := s3_result c2 n fresh ok in
  match map_find m n with
  | Some None => map_set m n (if ok then Some fresh else utc_impl_ptr) = imap_of c3 /\ cache_find c2 n = None
                 /\ p = (if ok then Some fresh else utc_impl_ptr) /\ r = negb (optnat_eqb p utc_impl_ptr)
  | Some (Some id) => m = imap_of c3 /\ p = Some id /\ r = negb (optnat_eqb p utc_impl_ptr)
  | None => False
  end.
Proof.
  intros Hf. unfold map_index, s3_result. rewrite map_find_of. destruct (cache_find c2 n) as [id|] eqn:E; cbn [option_map].
  - rewrite map_find_of, E. cbn. auto.
  - rewrite map_find_head, map_set_head. destruct ok; cbn; repeat split; try reflexivity.
    destruct (Nat.eqb_spec fresh 0); [contradiction|reflexivity].
Qed.

Lemma s3_tail (new_impl : list Z -> nat * bool) n c2 (tz1 : option nat) (trace : list lk_event) (m : imap) :
  fst (new_impl n) <> utc_id -> m = imap_of c2 ->
    (let time_zone_map := Some (map_index m n) in
     let new_impl0 := Some (new_impl n) in
     do t6 <- get_opt time_zone_map ;;
     do t7 <- get_opt (map_find t6 n) ;;
     do '(tz, time_zone_map, trace, new_impl1) <- (if optnat_eqb t7 None then
        do t8 <- get_opt new_impl0 ;;
        do '(t10, new_impl1) <- (if snd t8 then OK (option_map fst new_impl0, None) else OK (utc_impl_ptr, new_impl0)) ;;
        do t11 <- get_opt time_zone_map ;;
        OK (tz1, Some (map_set t11 n t10), trace, new_impl1)
      else OK (tz1, time_zone_map, trace, new_impl0)) ;;
     do t12 <- get_opt time_zone_map ;;
     do t13 <- get_opt (map_find t12 n) ;;
     do t14 <- get_opt time_zone_map ;;
     do t15 <- get_opt (map_find t14 n) ;;
     OK (negb (optnat_eqb t15 utc_impl_ptr), t13, time_zone_map, trace ++ [LkUnlock]))
    = let '(r, p, c3) := s3_result c2 n (fst (new_impl n)) (snd (new_impl n)) in
      OK (r, p, Some (imap_of c3), trace ++ [LkUnlock]).
Proof.
  intros Hf ->. cbv zeta. cbn [bind get_opt].
    pose proof (s3_on_map c2 n (fst (new_impl n)) (snd (new_impl n)) Hf) as S. cbv zeta in S.
    destruct (s3_result c2 n (fst (new_impl n)) (snd (new_impl n))) as [[r p] c3].
    destruct (map_find (map_index (imap_of c2) n) n) as [[id|]|] eqn:F; [| |contradiction]; cbn [get_opt bind optnat_eqb].
    - destruct S as (S1 & -> & ->). rewrite F. cbn [get_opt bind]. rewrite S1. reflexivity.
    - destruct S as (S1 & C & -> & ->).
      assert (Q : (if snd (new_impl n) then OK (A:=option nat * option (nat * bool)) (option_map fst (Some (new_impl n)), None) else OK (utc_impl_ptr, Some (new_impl n)))
               = OK ((if snd (new_impl n) then Some (fst (new_impl n)) else utc_impl_ptr), (if snd (new_impl n) then None else Some (new_impl n)))).
      { destruct (snd (new_impl n)); reflexivity. }
      rewrite Q. cbn [bind get_opt]. rewrite S1.
      assert (F2 : map_find (imap_of c3) n = Some (if snd (new_impl n) then Some (fst (new_impl n)) else utc_impl_ptr)).
      { rewrite <- S1. unfold map_index. rewrite map_find_of, C. cbn [option_map]. rewrite map_set_head, map_find_head. reflexivity. }
      rewrite F2. cbn [get_opt bind]. reflexivity.
Qed.

Theorem sn_LoadTimeZone_tie (world : nat -> option imap -> option imap) (new_impl : list Z -> nat * bool) m0 tr0 n tz0 c1 c2 :
  cache_rep (world 0%nat m0) c1 ->
  cache_rep (world 1%nat (world 0%nat m0)) c2 ->
  fst (new_impl n) <> utc_id ->
  sn_LoadTimeZone world new_impl m0 tr0 n tz0 =
  match FixedOffsetFromName n with
  | Some 0 => OK (true, Some utc_id, m0, tr0)
  | _ =>
    match cache_find c1 n with
    | Some id => OK (negb (Nat.eqb id utc_id), Some id, world 0%nat m0, tr0 ++ [LkLock; LkUnlock])
    | None =>
      let '(r, p, c3) := s3_result c2 n (fst (new_impl n)) (snd (new_impl n)) in
      OK (r, p, Some (imap_of c3), tr0 ++ [LkLock; LkUnlock; LkLock; LkUnlock])
    end
  end.
Proof.
  intros R1 R2 Hf. unfold sn_LoadTimeZone. cbv zeta.
  rewrite SourceFixedProofs.so_FixedOffsetFromName_tie. unfold SourceFixedProofs.from_name_result.
  assert (TAIL : forall tz1 : option nat,
    (let time_zone_map := world 1%nat (world 0%nat m0) in
     let trace := ((tr0 ++ [LkLock]) ++ [LkUnlock]) ++ [LkLock] in
     let new_impl0 := Some (new_impl n) in
     do '(tz, time_zone_map, trace) <- (if match time_zone_map with Some _ => false | None => true end
         then OK (tz1, Some ([] : imap), trace) else OK (tz1, time_zone_map, trace)) ;;
     do t5 <- get_opt time_zone_map ;;
     let time_zone_map := Some (map_index t5 n) in
     do t6 <- get_opt time_zone_map ;;
     do t7 <- get_opt (map_find t6 n) ;;
     do '(tz, time_zone_map, trace, new_impl1) <- (if optnat_eqb t7 None then
        do t8 <- get_opt new_impl0 ;;
        do '(t10, new_impl1) <- (if snd t8 then OK (option_map fst new_impl0, None) else OK (utc_impl_ptr, new_impl0)) ;;
        do t11 <- get_opt time_zone_map ;;
        OK (tz, Some (map_set t11 n t10), trace, new_impl1)
      else OK (tz, time_zone_map, trace, new_impl0)) ;;
     do t12 <- get_opt time_zone_map ;;
     do t13 <- get_opt (map_find t12 n) ;;
     do t14 <- get_opt time_zone_map ;;
     do t15 <- get_opt (map_find t14 n) ;;
     OK (negb (optnat_eqb t15 utc_impl_ptr), t13, time_zone_map, trace ++ [LkUnlock]))
    = let '(r, p, c3) := s3_result c2 n (fst (new_impl n)) (snd (new_impl n)) in
      OK (r, p, Some (imap_of c3), tr0 ++ [LkLock; LkUnlock; LkLock; LkUnlock])).
  { intros tz1. cbv zeta.
    destruct R2 as [E2 | [E2 ->]]; rewrite E2; cbn [bind get_opt].
    - (etransitivity; [exact (s3_tail new_impl n c2 tz1 (((tr0 ++ [LkLock]) ++ [LkUnlock]) ++ [LkLock]) _ Hf eq_refl)|]).
      destruct (s3_result _ n (fst (new_impl n)) (snd (new_impl n))) as [[r p] c3]; rewrite <- !app_assoc; reflexivity.
    - (etransitivity; [exact (s3_tail new_impl n [] tz1 (((tr0 ++ [LkLock]) ++ [LkUnlock]) ++ [LkLock]) _ Hf eq_refl)|]).
      destruct (s3_result _ n (fst (new_impl n)) (snd (new_impl n))) as [[r p] c3]; rewrite <- !app_assoc; reflexivity. }
  cbn [bind].
  destruct (FixedOffsetFromName n) as [off|] eqn:EF;
    [destruct (Z.eqb_spec off 0) as [->|N]; [reflexivity|]; destruct off; [contradiction| |] |]; cbn [andb];
    (destruct R1 as [E1 | [E1 ->]]; rewrite E1; cbn [negb get_opt bind cache_find];
     [ rewrite map_find_of; destruct (cache_find c1 n) as [id|]; cbn [option_map get_opt bind];
       [ rewrite <- !app_assoc; reflexivity | rewrite <- E1; apply TAIL ]
     | rewrite <- E1; apply TAIL ]).
Qed.

(* S3 is LoaderSM.publish: on a miss in the first critical section, whatever the other threads did to the cache
   in between (state s2), the call returns what publish records for thread t and leaves publish's cache *)
Lemma s3_result_publish s t n ok log :
  let '(r, p, c3) := s3_result (ls_cache s) n (ls_next s) ok in
  ls_cache (publish s t n ok log) = c3 /\
  exists id, p = Some id /\ ls_results (publish s t n ok log) = ls_results s ++ [(t, n, r, id)].
Proof.
  unfold s3_result, publish. destruct (cache_find (ls_cache s) n) as [id|].
  - split; [reflexivity|]. exists id. split; reflexivity.
  - destruct ok; (split; [reflexivity|]); eexists; split; reflexivity.
Qed.

Theorem sn_LoadTimeZone_publish (world : nat -> option imap -> option imap) (new_impl : list Z -> nat * bool) m0 tr0 n tz0 c1 s2 t log :
  cache_rep (world 0%nat m0) c1 ->
  cache_rep (world 1%nat (world 0%nat m0)) (ls_cache s2) ->
  fst (new_impl n) = ls_next s2 -> ls_next s2 <> utc_id ->
  FixedOffsetFromName n <> Some 0 -> cache_find c1 n = None ->
  let s3 := publish s2 t n (snd (new_impl n)) log in
  exists r id,
    sn_LoadTimeZone world new_impl m0 tr0 n tz0
      = OK (r, Some id, Some (imap_of (ls_cache s3)), tr0 ++ [LkLock; LkUnlock; LkLock; LkUnlock])
    /\ ls_results s3 = ls_results s2 ++ [(t, n, r, id)].
Proof.
  intros R1 R2 Hn Hf HF Hc. cbv zeta.
  assert (Hf' : fst (new_impl n) <> utc_id) by (rewrite Hn; exact Hf).
  rewrite (sn_LoadTimeZone_tie world new_impl m0 tr0 n tz0 c1 (ls_cache s2) R1 R2 Hf'). rewrite Hc, Hn.
  pose proof (s3_result_publish s2 t n (snd (new_impl n)) log) as P.
  destruct (s3_result (ls_cache s2) n (ls_next s2) (snd (new_impl n))) as [[r p] c3].
  destruct P as (P1 & id & -> & P2). exists r, id. rewrite P1. split; [|exact P2].
  destruct (FixedOffsetFromName n) as [[|q|q]|]; try reflexivity. contradiction HF; reflexivity.
Qed.

(* a hit in the first critical section: LoaderSM.step's cached branch *)
Theorem sn_LoadTimeZone_hit (world : nat -> option imap -> option imap) (new_impl : list Z -> nat * bool) m0 tr0 n tz0 c1 c2 id :
  cache_rep (world 0%nat m0) c1 -> cache_rep (world 1%nat (world 0%nat m0)) c2 -> fst (new_impl n) <> utc_id ->
  FixedOffsetFromName n <> Some 0 -> cache_find c1 n = Some id ->
  sn_LoadTimeZone world new_impl m0 tr0 n tz0
    = OK (negb (Nat.eqb id utc_id), Some id, world 0%nat m0, tr0 ++ [LkLock; LkUnlock]).
Proof.
  intros R1 R2 Hf HF Hc. rewrite (sn_LoadTimeZone_tie world new_impl m0 tr0 n tz0 c1 c2 R1 R2 Hf). rewrite Hc.
  destruct (FixedOffsetFromName n) as [[|q|q]|]; try reflexivity. contradiction HF; reflexivity.
Qed.

(* the UTC names never touch the mutex or the map *)
Theorem sn_LoadTimeZone_utc (world : nat -> option imap -> option imap) (new_impl : list Z -> nat * bool) m0 tr0 n tz0 :
  FixedOffsetFromName n = Some 0 ->
  sn_LoadTimeZone world new_impl m0 tr0 n tz0 = OK (true, Some utc_id, m0, tr0).
Proof.
  intros HF. unfold sn_LoadTimeZone. cbv zeta.
  rewrite SourceFixedProofs.so_FixedOffsetFromName_tie. unfold SourceFixedProofs.from_name_result. rewrite HF. reflexivity.
Qed.

(* without interference (world = identity) one call is LoaderSM's Start followed by Release of the same thread *)
Lemma get_set_thr l t x : get_thr (set_thr l t x) t = Some x.
Proof.
  induction l as [|[k v] r IH]; cbn.
  - rewrite Nat.eqb_refl. reflexivity.
  - destruct (Nat.eqb k t) eqn:E; cbn; [rewrite Nat.eqb_refl; reflexivity|rewrite E; exact IH].
Qed.

Lemma publish_done s t n ok log : exists r id, get_thr (ls_thr (publish s t n ok log)) t = Some (TDone r id).
Proof.
  unfold publish. destruct (cache_find (ls_cache s) n); [|destruct ok]; cbn [ls_thr]; rewrite get_set_thr; eauto.
Qed.

Theorem sn_LoadTimeZone_serial (data : name -> option (list Z)) (new_impl : list Z -> nat * bool) m0 tr0 n tz0 s t :
  (forall k, get_thr (ls_thr s) t <> Some (TInFactory k)) ->
  cache_rep m0 (ls_cache s) ->
  fst (new_impl n) = ls_next s -> ls_next s <> utc_id ->
  snd (new_impl n) = construct_ok data n ->
  let s' := step data (step data s (Start t n)) (Release t) in
  exists r id m' tr',
    sn_LoadTimeZone (fun _ m => m) new_impl m0 tr0 n tz0 = OK (r, Some id, m', tr')
    /\ cache_rep m' (ls_cache s') /\ ls_results s' = ls_results s ++ [(t, n, r, id)].
Proof.
  intros Hp R Hn Hf Hok. cbv zeta.
  assert (Hf' : fst (new_impl n) <> utc_id) by (rewrite Hn; exact Hf).
  assert (S1 : step data s (Start t n) =
     match FixedOffsetFromName n with
     | Some 0 => mkLS (ls_cache s) (ls_next s) (ls_impls s) (ls_log s) (set_thr (ls_thr s) t (TDone true utc_id)) (ls_results s ++ [(t, n, true, utc_id)])
     | fx => match cache_find (ls_cache s) n with
       | Some id => mkLS (ls_cache s) (ls_next s) (ls_impls s) (ls_log s) (set_thr (ls_thr s) t (TDone (negb (Nat.eqb id utc_id)) id))
                      (ls_results s ++ [(t, n, negb (Nat.eqb id utc_id), id)])
       | None => match fx with
         | Some _ => publish s t n (construct_ok data n) (ls_log s)
         | None => mkLS (ls_cache s) (ls_next s) (ls_impls s) (ls_log s ++ [FEnter t n]) (set_thr (ls_thr s) t (TInFactory n)) (ls_results s)
         end end end).
  { unfold step. destruct (get_thr (ls_thr s) t) as [[k|ok id]|] eqn:G; [exfalso; exact (Hp k eq_refl)| |]; reflexivity. }
  rewrite S1. clear S1.
  destruct (FixedOffsetFromName n) as [off|] eqn:EF.
  - destruct (Z.eq_dec off 0) as [->|N].
    + exists true, utc_id, m0, tr0. cbn [step ls_thr]. rewrite get_set_thr. cbn [ls_cache ls_results].
      split; [apply sn_LoadTimeZone_utc; exact EF|]. split; [exact R|reflexivity].
    + assert (HF : FixedOffsetFromName n <> Some 0) by (rewrite EF; intros Q; injection Q; exact N).
      assert (X : forall (A : Type) (a b : A), match off with 0 => a | _ => b end = b) by (intros; destruct off; [contradiction| |]; reflexivity).
      rewrite X. clear X.
      destruct (cache_find (ls_cache s) n) as [id|] eqn:C.
      * exists (negb (Nat.eqb id utc_id)), id, m0, (tr0 ++ [LkLock; LkUnlock]). cbn [step ls_thr]. rewrite get_set_thr. cbn [ls_cache ls_results].
        split; [|split; [exact R|reflexivity]].
        apply (sn_LoadTimeZone_hit (fun _ m => m) new_impl m0 tr0 n tz0 (ls_cache s) (ls_cache s) id R R Hf' HF C).
      * destruct (sn_LoadTimeZone_publish (fun _ m => m) new_impl m0 tr0 n tz0 (ls_cache s) s t (ls_log s) R R Hn Hf HF C) as (r & id & E & Q).
        rewrite Hok in E, Q.
        destruct (publish_done s t n (construct_ok data n) (ls_log s)) as (r' & id' & G).
        exists r, id, (Some (imap_of (ls_cache (publish s t n (construct_ok data n) (ls_log s))))), (tr0 ++ [LkLock; LkUnlock; LkLock; LkUnlock]).
        cbn [step]. rewrite G. split; [exact E|]. split; [left; reflexivity|exact Q].
  - assert (HF : FixedOffsetFromName n <> Some 0) by (rewrite EF; discriminate).
    destruct (cache_find (ls_cache s) n) as [id|] eqn:C.
    + exists (negb (Nat.eqb id utc_id)), id, m0, (tr0 ++ [LkLock; LkUnlock]). cbn [step ls_thr]. rewrite get_set_thr. cbn [ls_cache ls_results].
      split; [|split; [exact R|reflexivity]].
      apply (sn_LoadTimeZone_hit (fun _ m => m) new_impl m0 tr0 n tz0 (ls_cache s) (ls_cache s) id R R Hf' HF C).
    + set (s1 := mkLS (ls_cache s) (ls_next s) (ls_impls s) (ls_log s ++ [FEnter t n]) (set_thr (ls_thr s) t (TInFactory n)) (ls_results s)).
      destruct (sn_LoadTimeZone_publish (fun _ m => m) new_impl m0 tr0 n tz0 (ls_cache s) s1 t (ls_log s1 ++ [FExit t n]) R R Hn Hf HF C) as (r & id & E & Q).
      rewrite Hok in E, Q.
      exists r, id, (Some (imap_of (ls_cache (publish s1 t n (construct_ok data n) (ls_log s1 ++ [FExit t n]))))), (tr0 ++ [LkLock; LkUnlock; LkLock; LkUnlock]).
      cbn [step]. replace (get_thr (ls_thr s1) t) with (Some (TInFactory n)) by (unfold s1; cbn [ls_thr]; rewrite get_set_thr; reflexivity).
      split; [exact E|]. split; [left; reflexivity|exact Q].
Qed.

Print Assumptions sn_LoadTimeZone_tie.
Print Assumptions sn_LoadTimeZone_publish.
Print Assumptions sn_LoadTimeZone_hit.
Print Assumptions sn_LoadTimeZone_utc.
Print Assumptions sn_LoadTimeZone_serial.
