(* FixedImpl.v — IMPL64 layer: src/time_zone_fixed.cc on byte lists. *)
From CCTZ Require Import Base SrcConstants.
Local Open Scope Z_scope.

(* "Fixed/UTC" *)
Definition kFixedZonePrefix : list Z := [70; 105; 120; 101; 100; 47; 85; 84; 67].
Definition str_UTC : list Z := [85; 84; 67].
Definition str_UTC0 : list Z := [85; 84; 67; 48].

Definition digit_at (v : Z) : res Z :=
  match (if v <? 0 then None else nth_error kDigits (Z.to_nat v)) with
  | Some c => OK c
  | None => Err OOB
  end.

(* Format02d(p, v): kDigits[(v / 10) % 10], kDigits[v % 10] *)
Definition fixed_format02d (v : Z) : res (list Z) :=
  do a <- digit_at (Z.rem (Z.quot v 10) 10) ;;
  do b <- digit_at (Z.rem v 10) ;;
  OK [a; b].

(* Parse02d(p): as in /repo after the "fix:" commit for C15 (an index of 10,
   i.e. strchr having matched the terminating NUL of kDigits, is rejected).
   The pre-fix text is in History.v.  c1, c2 are the two bytes read. *)
Definition fixed_parse02d (c1 c2 : Z) : Z :=
  match strchr kDigits c1 with
  | Some v =>
      match strchr kDigits c2 with
      | Some w => if (v <? 10) && (w <? 10) then v * 10 + w else -1
      | None => -1
      end
  | None => -1
  end.

Fixpoint prefix_eqb (p s : list Z) : bool :=
  match p, s with
  | [], _ => true
  | x :: p', y :: s' => (x =? y) && prefix_eqb p' s'
  | _ :: _, [] => false
  end.

(* bool FixedOffsetFromName(const std::string& name, seconds* offset) *)
Definition FixedOffsetFromName (name : list Z) : option Z :=
  if list_eqb name str_UTC || list_eqb name str_UTC0 then Some 0
  else
    let prefix_len := length kFixedZonePrefix in
    if negb (Nat.eqb (length name) (prefix_len + 9)) then None
    else if negb (prefix_eqb kFixedZonePrefix name) then None
    else
      let np := skipn prefix_len name in
      let c i := nthZ np i in
      if negb ((c 0%nat =? 43) || (c 0%nat =? 45)) then None
      else if negb ((c 3%nat =? 58) && (c 6%nat =? 58)) then None
      else
        let hours := fixed_parse02d (c 1%nat) (c 2%nat) in
        if hours =? -1 then None else
        let mins := fixed_parse02d (c 4%nat) (c 5%nat) in
        if mins =? -1 then None else
        let secs := fixed_parse02d (c 7%nat) (c 8%nat) in
        if secs =? -1 then None else
        let total := secs + ((hours * 60) + mins) * 60 in
        if src_fixed_max_secs <? total then None
        else Some (total * (if c 0%nat =? 45 then -1 else 1)).

(* std::string FixedOffsetToName(const seconds& offset) *)
Definition FixedOffsetToName (offset : Z) : res (list Z) :=
  if offset =? 0 then OK str_UTC
  else if (offset <? -86400) || (86400 <? offset) then OK str_UTC
  else
    let sign := if offset <? 0 then 45 else 43 in
    let om0 := Z.quot offset 60 in
    let os0 := Z.rem offset 60 in
    let '(os1, om1) :=
      if sign =? 45 then
        let '(os', om') := if 0 <? os0 then (os0 - 60, om0 + 1) else (os0, om0) in
        (- os', - om')
      else (os0, om0) in
    let oh := Z.quot om1 60 in
    let om2 := Z.rem om1 60 in
    do hh <- fixed_format02d oh ;;
    do mm <- fixed_format02d om2 ;;
    do ss <- fixed_format02d os1 ;;
    OK (kFixedZonePrefix ++ [sign] ++ hh ++ [58] ++ mm ++ [58] ++ ss).

(* abbr.erase(pos, n) *)
Definition erase (s : list Z) (pos n : nat) : list Z := firstn pos s ++ skipn (pos + n) s.

(* std::string FixedOffsetToAbbr(const seconds& offset) *)
Definition FixedOffsetToAbbr (offset : Z) : res (list Z) :=
  do abbr <- FixedOffsetToName offset ;;
  let prefix_len := length kFixedZonePrefix in
  if Nat.eqb (length abbr) (prefix_len + 9) then
    let a1 := erase abbr 0 prefix_len in
    let a2 := erase a1 6 1 in
    let a3 := erase a2 3 1 in
    if (nthZ a3 5 =? 48) && (nthZ a3 6 =? 48) then
      let a4 := erase a3 5 2 in
      if (nthZ a4 3 =? 48) && (nthZ a4 4 =? 48) then OK (erase a4 3 2) else OK a4
    else OK a3
  else OK abbr.

(* ---- SPEC for C15: what the documentation says ---- *)

(* two-digit decimal *)
Definition two_digits (v : Z) : list Z := [48 + v / 10; 48 + v mod 10].

Definition fixed_name_spec (off : Z) : list Z :=
  if (off =? 0) || (off <? -86400) || (86400 <? off) then str_UTC
  else
    let a := Z.abs off in
    kFixedZonePrefix ++ [if off <? 0 then 45 else 43] ++ two_digits (a / 3600)
      ++ [58] ++ two_digits ((a / 60) mod 60) ++ [58] ++ two_digits (a mod 60).

Definition fixed_abbr_spec (off : Z) : list Z :=
  if (off =? 0) || (off <? -86400) || (86400 <? off) then str_UTC
  else
    let a := Z.abs off in
    let hh := a / 3600 in let mm := (a / 60) mod 60 in let ss := a mod 60 in
    [if off <? 0 then 45 else 43] ++ two_digits hh
      ++ (if (mm =? 0) && (ss =? 0) then [] else two_digits mm)
      ++ (if ss =? 0 then [] else two_digits ss).

(* Executable spec of name -> offset: "UTC", "UTC0", or exactly the shape
   Fixed/UTC(+|-)dd:dd:dd with a total of at most 24 h. *)
Definition dig (c : Z) : option Z := if is_digit c then Some (c - 48) else None.
Definition fixed_from_spec (s : list Z) : option Z :=
  if list_eqb s str_UTC || list_eqb s str_UTC0 then Some 0
  else if negb (list_eqb (firstn 9 s) kFixedZonePrefix) then None
  else match skipn 9 s with
  | [sg; h1; h2; c1; m1; m2; c2; s1; s2] =>
      match dig h1, dig h2, dig m1, dig m2, dig s1, dig s2 with
      | Some a, Some b, Some c, Some d, Some e, Some f =>
          let total := ((a * 10 + b) * 60 + (c * 10 + d)) * 60 + (e * 10 + f) in
          if ((sg =? 43) || (sg =? 45)) && (c1 =? 58) && (c2 =? 58) && (total <=? 86400)
          then Some (if sg =? 45 then - total else total) else None
      | _, _, _, _, _, _ => None
      end
  | _ => None
  end.

(* the shape "Fixed/UTC±dd:dd:dd" spelling a total of at most 24 h *)
Definition fixed_shape (s : list Z) (off : Z) : Prop :=
  exists sg h1 h2 m1 m2 s1 s2,
    s = kFixedZonePrefix ++ [sg; 48 + h1; 48 + h2; 58; 48 + m1; 48 + m2; 58; 48 + s1; 48 + s2] /\
    (sg = 43 \/ sg = 45) /\
    0 <= h1 <= 9 /\ 0 <= h2 <= 9 /\ 0 <= m1 <= 9 /\ 0 <= m2 <= 9 /\ 0 <= s1 <= 9 /\ 0 <= s2 <= 9 /\
    let total := ((h1 * 10 + h2) * 60 + (m1 * 10 + m2)) * 60 + (s1 * 10 + s2) in
    total <= 86400 /\ off = (if sg =? 45 then - total else total).
