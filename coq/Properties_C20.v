(* Properties_C20.v — C20: the custom zone-data factory: on the caller's thread,
   not for UTC / fixed-offset names, at most once per name and serially in
   executions without concurrent first loads; and what fails (F7) under
   arbitrary schedules, with what still holds there. *)
From CCTZ Require Import Base FixedImpl ZoneLoad LoaderSM LoaderProofs.
Local Open Scope Z_scope.

(* every factory invocation is on the thread that called load_time_zone *)
Theorem factory_on_caller : forall data es t n,
  In (FEnter t n) (ls_log (exec data es)) -> In (Start t n) es.
Proof. exact factory_on_caller_lemma. Qed.
Print Assumptions factory_on_caller.

(* never for UTC and fixed-offset names, under any schedule *)
Theorem factory_not_for_fixed : forall data es n,
  FixedOffsetFromName n <> None -> entries_for (ls_log (exec data es)) n = 0%nat.
Proof. exact factory_not_for_fixed_lemma. Qed.
Print Assumptions factory_not_for_fixed.

(* without concurrent first loads: at most once per name, never overlapping *)
Theorem factory_once_sequential : forall data loads n,
  (entries_for (ls_log (exec data (serial loads))) n <= 1)%nat /\
  overlapping (ls_log (exec data (serial loads))) = false.
Proof. exact factory_once_sequential_lemma. Qed.
Print Assumptions factory_once_sequential.

(* under ARBITRARY schedules: once a name is in the cache the factory is never
   consulted for it again *)
Theorem factory_calls_bounded_partial : forall data es1 es2 n,
  cache_find (ls_cache (exec data es1)) n <> None ->
  entries_for (ls_log (exec data (es1 ++ es2))) n = entries_for (ls_log (exec data es1)) n.
Proof. exact factory_calls_bounded_partial_lemma. Qed.
Print Assumptions factory_calls_bounded_partial.

(* F7: "only once for any zone name" and "serially" are FALSE of the code for
   two threads that first-load one name concurrently: both pass S1 before
   either reaches S3 *)
Theorem factory_once_refuted : forall data,
  let n := [65] in    (* "A": not a fixed-offset name *)
  let s := exec data [Start 0%nat n; Start 1%nat n] in
  entries_for (ls_log s) n = 2%nat /\ overlapping (ls_log s) = true.
Proof. intros data. vm_compute. split; reflexivity. Qed.
Print Assumptions factory_once_refuted.

From CCTZ Require Import FixedImpl ZoneLoad LoaderSM SourceNames SourceCacheProofs.
(* time_zone::Impl::LoadTimeZone AS CLANG READS IT NOW (SourceNames.v): read as a sequential function over an explicit
   cache, with `world k` standing for what other threads did to the map before the k-th lock acquisition and every
   lock/unlock recorded in a trace (the translator refuses the function if time_zone_map is touched outside a lock_guard,
   is thread_local, or is not one process-wide pointer).  The source-derived function IS the S1 | S2 | S3 structure the
   schedule model (LoaderSM.v) assumes: UTC names take no lock; a cache hit answers from the first critical section;
   otherwise the impl is constructed OUTSIDE the lock and the second critical section is exactly LoaderSM.publish
   (insert-if-absent, return the map's entry). *)
Theorem c20_src_load_time_zone_tie : forall (world : nat -> option imap -> option imap) (new_impl : list Z -> nat * bool) m0 tr0 n tz0 c1 c2,
  cache_rep (world 0%nat m0) c1 ->
  cache_rep (world 1%nat (world 0%nat m0)) c2 ->
  fst (new_impl n) <> utc_id ->
  sn_LoadTimeZone world new_impl m0 tr0 n tz0 =
  match FixedOffsetFromName n with
  | Some 0 => OK (true, Some utc_id, m0, tr0)
  | _ =>
    match cache_find c1 n with
    | Some id => OK (negb (Nat.eqb id utc_id), Some id, world 0%nat m0, tr0 ++ [LkLock; LkUnlock])
    | None =>
      let '(r, p, c3) := s3_result c2 n (fst (new_impl n)) (snd (new_impl n)) in
      OK (r, p, Some (imap_of c3), tr0 ++ [LkLock; LkUnlock; LkLock; LkUnlock])
    end
  end.
Proof. exact SourceCacheProofs.sn_LoadTimeZone_tie. Qed.
Print Assumptions c20_src_load_time_zone_tie.
Theorem c20_src_load_time_zone_publish : forall (world : nat -> option imap -> option imap) (new_impl : list Z -> nat * bool) m0 tr0 n tz0 c1 s2 t log,
  cache_rep (world 0%nat m0) c1 ->
  cache_rep (world 1%nat (world 0%nat m0)) (ls_cache s2) ->
  fst (new_impl n) = ls_next s2 -> ls_next s2 <> utc_id ->
  FixedOffsetFromName n <> Some 0 -> cache_find c1 n = None ->
  let s3 := publish s2 t n (snd (new_impl n)) log in
  exists r id,
    sn_LoadTimeZone world new_impl m0 tr0 n tz0
      = OK (r, Some id, Some (imap_of (ls_cache s3)), tr0 ++ [LkLock; LkUnlock; LkLock; LkUnlock])
    /\ ls_results s3 = ls_results s2 ++ [(t, n, r, id)].
Proof. exact SourceCacheProofs.sn_LoadTimeZone_publish. Qed.
Print Assumptions c20_src_load_time_zone_publish.
Theorem c20_src_load_time_zone_serial : forall (data : name -> option (list Z)) (new_impl : list Z -> nat * bool) m0 tr0 n tz0 s t,
  (forall k, get_thr (ls_thr s) t <> Some (TInFactory k)) ->
  cache_rep m0 (ls_cache s) ->
  fst (new_impl n) = ls_next s -> ls_next s <> utc_id ->
  snd (new_impl n) = construct_ok data n ->
  let s' := step data (step data s (Start t n)) (Release t) in
  exists r id m' tr',
    sn_LoadTimeZone (fun _ m => m) new_impl m0 tr0 n tz0 = OK (r, Some id, m', tr')
    /\ cache_rep m' (ls_cache s') /\ ls_results s' = ls_results s ++ [(t, n, r, id)].
Proof. exact SourceCacheProofs.sn_LoadTimeZone_serial. Qed.
Print Assumptions c20_src_load_time_zone_serial.
