(* Properties_C20.v — C20: the custom zone-data factory: on the caller's thread,
   not for UTC / fixed-offset names, at most once per name and serially in
   executions without concurrent first loads; and what fails (F7) under
   arbitrary schedules, with what still holds there. *)
From CCTZ Require Import Base FixedImpl ZoneLoad LoaderSM LoaderProofs.
Local Open Scope Z_scope.

(* every factory invocation is on the thread that called load_time_zone *)
Theorem factory_on_caller : forall data es t n,
  In (FEnter t n) (ls_log (exec data es)) -> In (Start t n) es.
Proof. exact factory_on_caller_lemma. Qed.
Print Assumptions factory_on_caller.

(* never for UTC and fixed-offset names, under any schedule *)
Theorem factory_not_for_fixed : forall data es n,
  FixedOffsetFromName n <> None -> entries_for (ls_log (exec data es)) n = 0%nat.
Proof. exact factory_not_for_fixed_lemma. Qed.
Print Assumptions factory_not_for_fixed.

(* without concurrent first loads: at most once per name, never overlapping *)
Theorem factory_once_sequential : forall data loads n,
  (entries_for (ls_log (exec data (serial loads))) n <= 1)%nat /\
  overlapping (ls_log (exec data (serial loads))) = false.
Proof. exact factory_once_sequential_lemma. Qed.
Print Assumptions factory_once_sequential.

(* under ARBITRARY schedules: once a name is in the cache the factory is never
   consulted for it again *)
Theorem factory_calls_bounded_partial : forall data es1 es2 n,
  cache_find (ls_cache (exec data es1)) n <> None ->
  entries_for (ls_log (exec data (es1 ++ es2))) n = entries_for (ls_log (exec data es1)) n.
Proof. exact factory_calls_bounded_partial_lemma. Qed.
Print Assumptions factory_calls_bounded_partial.

(* F7: "only once for any zone name" and "serially" are FALSE of the code for
   two threads that first-load one name concurrently: both pass S1 before
   either reaches S3 *)
Theorem factory_once_refuted : forall data,
  let n := [65] in    (* "A": not a fixed-offset name *)
  let s := exec data [Start 0%nat n; Start 1%nat n] in
  entries_for (ls_log s) n = 2%nat /\ overlapping (ls_log s) = true.
Proof. intros data. vm_compute. split; reflexivity. Qed.
Print Assumptions factory_once_refuted.
