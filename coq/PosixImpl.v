(* PosixImpl.v — IMPL64 layer: src/time_zone_posix.cc.
   A `const char*` into a NUL-terminated string is modelled as the list of the
   remaining bytes (NUL-free); `*p` at the end of the list is the terminator 0.
   A nullptr result is None.  Fields of the result struct that the C++ has not
   written are None (reading one is Uninit, see ZoneLoad.v). *)
From CCTZ Require Import Base SrcConstants.
Local Open Scope Z_scope.

Inductive pdate :=
| DJ (day : Z)                       (* Jn: day of non-leap year [1:365] *)
| DN (day : Z)                       (* n: day of year [0:365] *)
| DM (month week weekday : Z).       (* Mm.w.d *)

Record ptrans := mkPT { pt_date : option pdate; pt_time : option Z }.

Record posix_tz := mkPTZ {
  std_abbr : list Z;
  std_offset : option Z;
  dst_abbr : list Z;
  dst_offset : option Z;
  dst_start : ptrans;
  dst_end : ptrans
}.

Definition pt_unset : ptrans := mkPT None None.

(* *p *)
Definition deref (p : list Z) : Z := match p with [] => 0 | c :: _ => c end.
(* the C string seen through c_str(): everything before the first NUL *)
Fixpoint c_str (s : list Z) : list Z :=
  match s with [] => [] | c :: r => if c =? 0 then [] else c :: c_str r end.

(* ---- ParseInt (:28-43): int arithmetic with explicit overflow guards ---- *)
Definition kMaxInt : Z := 2147483647.

(* returns None when the C++ returns nullptr from inside the loop *)
Fixpoint posix_int_loop (p : list Z) (value : Z) (n : nat) : option (Z * list Z * nat) :=
  match p with
  | [] => Some (value, p, n)               (* strchr finds the NUL: d = 10, break *)
  | c :: r =>
      match strchr kDigits c with
      | None => Some (value, p, n)
      | Some d =>
          if 10 <=? d then Some (value, p, n)
          else if Z.quot kMaxInt 10 <? value then None
          else let v10 := value * 10 in
               if kMaxInt - d <? v10 then None
               else posix_int_loop r (v10 + d) (S n)
      end
  end.

Definition posix_parse_int (p : list Z) (lo hi : Z) : option (Z * list Z) :=
  match posix_int_loop p 0 0 with
  | None => None
  | Some (value, rest, n) =>
      if Nat.eqb n 0 || (value <? lo) || (hi <? value) then None else Some (value, rest)
  end.

(* ---- ParseAbbr (:46-63) ---- *)
Fixpoint abbr_bracket (p : list Z) (acc : list Z) : option (list Z * list Z) :=
  match p with
  | [] => None                                  (* hit '\0' before '>' *)
  | c :: r => if c =? 62 then Some (rev acc, r) else abbr_bracket r (c :: acc)
  end.

Definition abbr_stop (c : Z) : bool :=
  (c =? 45) || (c =? 43) || (c =? 44) || is_digit c.

Fixpoint abbr_plain (p : list Z) (acc : list Z) : list Z * list Z :=
  match p with
  | [] => (rev acc, [])
  | c :: r => if abbr_stop c then (rev acc, p) else abbr_plain r (c :: acc)
  end.

Definition posix_parse_abbr (p : list Z) : option (list Z * list Z) :=
  match p with
  | 60 :: r => abbr_bracket r []
  | _ =>
      let '(a, rest) := abbr_plain p [] in
      if Nat.ltb (length a) 3 then None else Some (a, rest)
  end.

(* ---- ParseOffset (:66-88) ---- *)
Definition posix_parse_offset (p : option (list Z)) (min_hour max_hour sign : Z)
  : option (Z * list Z) :=
  match p with
  | None => None
  | Some p0 =>
      let '(p1, sign1) :=
        match p0 with
        | 43 :: r => (r, sign)
        | 45 :: r => (r, - sign)
        | _ => (p0, sign)
        end in
      match posix_parse_int p1 min_hour max_hour with
      | None => None
      | Some (hours, p2) =>
          match p2 with
          | 58 :: r2 =>
              match posix_parse_int r2 0 59 with
              | None => None
              | Some (minutes, p3) =>
                  match p3 with
                  | 58 :: r3 =>
                      match posix_parse_int r3 0 59 with
                      | None => None
                      | Some (seconds, p4) =>
                          Some (sign1 * ((((hours * 60) + minutes) * 60) + seconds), p4)
                      end
                  | _ => Some (sign1 * ((((hours * 60) + minutes) * 60) + 0), p3)
                  end
              end
          | _ => Some (sign1 * ((((hours * 60) + 0) * 60) + 0), p2)
          end
      end
  end.

(* ---- ParseDateTime (:91-127), as in /repo after the C16 "fix:" commit ---- *)
Definition posix_parse_date (p : list Z) : option (pdate * list Z) :=
  (* p points just after the ',' *)
  match p with
  | 77 :: r =>                                   (* 'M' *)
      match posix_parse_int r 1 12 with
      | Some (month, 46 :: r1) =>
          match posix_parse_int r1 1 5 with
          | Some (week, 46 :: r2) =>
              match posix_parse_int r2 0 6 with
              | Some (weekday, r3) => Some (DM month week weekday, r3)
              | None => None
              end
          | _ => None
          end
      | _ => None
      end
  | 74 :: r =>                                   (* 'J' *)
      match posix_parse_int r (nthZ src_posix_J_range 0) (nthZ src_posix_J_range 1) with
      | Some (day, r1) => Some (DJ day, r1)
      | None => None
      end
  | _ =>
      match posix_parse_int p (nthZ src_posix_N_range 0) (nthZ src_posix_N_range 1) with
      | Some (day, r1) => Some (DN day, r1)
      | None => None
      end
  end.

Definition posix_parse_datetime (p : option (list Z)) : option (ptrans * list Z) :=
  match p with
  | Some (44 :: r) =>
      match posix_parse_date r with
      | None => None
      | Some (date0, p1) =>
          let date := Some date0 in
          match p1 with
          | 47 :: r1 =>
              match posix_parse_offset (Some r1) (nthZ src_posix_time_hours 0) (nthZ src_posix_time_hours 1) 1 with
              | None => None
              | Some (off, p2) => Some (mkPT date (Some off), p2)
              end
          | _ => Some (mkPT date (Some src_posix_default_time), p1)
          end
      end
  | _ => None                                    (* nullptr, or no ',' (post-fix) *)
  end.

(* ---- ParsePosixSpec (:131-149) ---- *)
Definition ParsePosixSpec_gen (pdt : option (list Z) -> option (ptrans * list Z)) (spec : list Z) : option posix_tz :=
  let p := c_str spec in
  if deref p =? 58 then None
  else
    let pa := posix_parse_abbr p in
    let sabbr := match pa with Some (a, _) => a | None => [] end in
    match posix_parse_offset (match pa with Some (_, r) => Some r | None => None end)
            (nthZ src_posix_offset_hours 0) (nthZ src_posix_offset_hours 1) (-1) with
    | None => None
    | Some (soff, p1) =>
        match p1 with
        | [] => Some (mkPTZ sabbr (Some soff) [] None pt_unset pt_unset)
        | _ =>
            match posix_parse_abbr p1 with
            | None => None
            | Some (dabbr, p2) =>
                let dflt := soff + src_posix_default_dst_delta in
                let r :=
                  if deref p2 =? 44 then Some (dflt, p2)
                  else posix_parse_offset (Some p2) (nthZ src_posix_offset_hours 0) (nthZ src_posix_offset_hours 1) (-1) in
                match r with
                | None =>
                    (* p = nullptr: both ParseDateTime calls pass it through *)
                    None
                | Some (doff, p3) =>
                    match pdt (Some p3) with
                    | None => None
                    | Some (t1, p4) =>
                        match pdt (Some p4) with
                        | None => None
                        | Some (t2, p5) =>
                            match p5 with
                            | [] => Some (mkPTZ sabbr (Some soff) dabbr (Some doff) t1 t2)
                            | _ => None
                            end
                        end
                    end
                end
            end
        end
    end.

Definition ParsePosixSpec (spec : list Z) : option posix_tz :=
  ParsePosixSpec_gen posix_parse_datetime spec.
