(* Properties_C07.v — C07: format then parse returns the instant: the
   component inverses (each unbounded) *)
From CCTZ Require Import Base SrcConstants Cal CivilImpl PosixImpl ZoneLoad FormatImpl ParseImpl FmtSpec ParseProofs.
Local Open Scope Z_scope.

(* a continuation that cannot extend a number *)
Definition no_digit_head (k : list Z) : Prop := match k with c :: _ => is_digit c = false | [] => True end.

(* %Y / %s: every int64, any width used by the formatter, including INT64_MIN *)
Theorem parseint_format64 : forall v k bs, int64 v -> no_digit_head k ->
  format64 0 v = OK bs -> parse_int64 (bs ++ k) 0 min64 max64 = Some (v, k).
Proof. exact parseint_format64_lemma. Qed.
Print Assumptions parseint_format64.

(* two-digit fields *)
Theorem parseint_format02d : forall v k bs lo hi, 0 <= v <= 99 -> lo <= v <= hi -> 0 <= lo ->
  format02d v = OK bs -> parse_int32 (bs ++ k) 2 lo hi = Some (v, k).
Proof. exact parseint_format02d_lemma. Qed.
Print Assumptions parseint_format02d.

(* offsets: full-resolution modes are lossless for every |off| < 24h;
   minute-resolution modes exactly when the offset has no seconds *)
Definition no_offset_cont (sep : Z) (k : list Z) : Prop :=
  match k with c :: _ => is_digit c = false /\ (sep = 0 \/ c <> sep) | [] => True end.

Theorem parseoffset_formatoffset_full : forall off k bs, -86400 < off < 86400 -> no_offset_cont 58 k ->
  format_offset off [58; 42] = OK bs -> fmt_parse_offset (bs ++ k) 58 = Some (off, k).
Proof. exact parseoffset_formatoffset_full_lemma. Qed.
Print Assumptions parseoffset_formatoffset_full.

Theorem parseoffset_formatoffset_minutes : forall off k bs mode sep, -86400 < off < 86400 ->
  (mode = [] /\ sep = 0) \/ (mode = [58] /\ sep = 58) -> no_offset_cont sep k ->
  format_offset off mode = OK bs ->
  exists off', fmt_parse_offset (bs ++ k) sep = Some (off', k) /\
               off' = Z.quot off 60 * 60 /\ (off' = off <-> Z.rem off 60 = 0).
Proof. exact parseoffset_formatoffset_minutes_lemma. Qed.
Print Assumptions parseoffset_formatoffset_minutes.

(* F6: the statement is false for |off| = 24h *)
Theorem parseoffset_24h_refuted :
  exists bs, format_offset 86400 [58; 42] = OK bs /\ fmt_parse_offset bs 58 = None.
Proof. eexists. split; [vm_compute; reflexivity|]. vm_compute; reflexivity. Qed.
Print Assumptions parseoffset_24h_refuted.

(* sub-seconds: every femtosecond count survives %E*f / %E15f *)
Theorem subsec_roundtrip : forall fs k, 0 <= fs < 10 ^ 15 -> no_digit_head k ->
  parse_subseconds (frac_digits fs 15 ++ k) = OK (Some (fs, k)) /\
  (fs <> 0 -> parse_subseconds (frac_min fs ++ k) = OK (Some (fs, k))).
Proof. exact subsec_roundtrip_lemma. Qed.
Print Assumptions subsec_roundtrip.

From CCTZ Require Import FinishDefs FinishProofs.

(* the RFC 3339 format with full sub-second precision round-trips, for every instant whose year fits *)
Theorem rfc3339_roundtrip : forall strftime_o strptime_o utc tz al fs t,
  reset_to_builtin_utc 0 = OK utc ->
  valid_fields (al_cs al) = true -> int64 (fy (al_cs al)) -> -86400 < al_off al < 86400 ->
  0 <= fs < 10 ^ 15 -> int64 t ->
  sec_of (al_cs al) = t + al_off al ->
  exists txt, format_impl strftime_o rfc3339 al fs t = OK txt /\
              parse_impl strptime_o tz utc rfc3339 txt = OK (Some (t, fs)).
Proof. exact rfc3339_roundtrip_lemma. Qed.
Print Assumptions rfc3339_roundtrip.


From CCTZ Require Import FinishDefs LastWriter FmtRTScan FmtRoundTrip LastWriterEq.
(* THE COMPOSITION, FOR EVERY LOSSLESS FORMAT (FmtRoundTrip.v): for EVERY format byte string made of literal text, %% and
   library specifiers that lossless_fmt admits (year; month+day - %d or the blank-padded %e - or week number+weekday; hour;
   minute; full-precision seconds; full-resolution offset; or %s; greedy items separated) and that passes last_writer_ok,
   every zone lookup result with |offset| < 24 h, every instant and every sub-second value: parse(format(...)) = (t, fs)
   (fs = 0 when %s is present: parse ignores everything else then) - no oracle involved, induction over the format string.
   last_writer_ok (LastWriter.v, executable, evaluated by the driver on every generated format; last_writer_ok_x_eq) is
   what finding F15 needs: parse() keeps the LAST value scanned for each field, so a lossy item AFTER the lossless one it
   duplicates defeats the round trip although the format "renders" everything. *)
Theorem lossless_roundtrip : forall strftime_o strptime_o utc tz fmt al fs t,
  reset_to_builtin_utc 0 = OK utc ->
  lossless_fmt fmt (al_off al) (fy (al_cs al)) = true ->
  last_writer_ok fmt (al_off al) (fy (al_cs al)) = true ->
  no_other fmt = true ->
  valid_fields (al_cs al) = true -> int64 (fy (al_cs al)) -> -86400 < al_off al < 86400 ->
  0 <= fs < 10 ^ 15 -> int64 t -> sec_of (al_cs al) = t + al_off al ->
  exists txt, format_impl strftime_o fmt al fs t = OK txt /\
    parse_impl strptime_o tz utc fmt txt = OK (Some (t, if has_percent_s fmt then 0 else fs)).
Proof. exact FmtRoundTrip.lossless_roundtrip_sep. Qed.
Print Assumptions lossless_roundtrip.
(* the booleans the extracted driver evaluates on every generated format (LastWriter.v) are these very ones *)
Theorem last_writer_ok_executable : forall fmt off year,
  last_writer_ok_x fmt off year = last_writer_ok fmt off year /\ no_other_x fmt = no_other fmt /\
  has_percent_s_x fmt = has_percent_s fmt.
Proof. intros. split; [apply last_writer_ok_x_eq|split; [apply no_other_x_eq|apply has_percent_s_x_eq]]. Qed.
Print Assumptions lossless_roundtrip.
(* F15, machine-checked, one witness per family: (lossless_fmt, no strftime item, last_writer_ok) = (true, true, false) and the
   round trip (format in a fixed zone of offset 3601 s, parse in UTC) returns another instant / fraction, or fails *)
Theorem c07_last_writer_refuted :
  (wit_flags fmt_bad_week 1700000000 3601 = (true, true, false) /\
   wit_rt fmt_bad_week 1700000000 3601 123 = OK (Some (1700172800, 123))) /\
  (wit_flags fmt_bad_frac 1700000000 3601 = (true, true, false) /\
   wit_rt fmt_bad_frac 1700000000 3601 123 = OK (Some (1700000000, 0))) /\
  (wit_flags fmt_bad_off 1700000000 3601 = (true, true, false) /\
   wit_rt fmt_bad_off 1700000000 3601 123 = OK (Some (1700000001, 123))) /\
  (wit_flags fmt_bad_e4y 1700000000000 3601 = (true, true, false) /\
   wit_rt fmt_bad_e4y 1700000000000 3601 123 = OK None) /\
  (wit_flags fmt_bad_e0f 1700000000 3601 = (true, true, false) /\
   wit_rt fmt_bad_e0f 1700000000 3601 123 = OK None).
Proof.
  exact (conj week_after_day_refuted (conj truncating_fraction_last_refuted (conj minute_offset_last_refuted
        (conj e4y_beside_Y_refuted e0f_before_space_refuted)))).
Qed.
Print Assumptions c07_last_writer_refuted.
From CCTZ Require FormatSpecFull FmtRTScanN FmtRoundTripNames.
(* "... or locale names instead of month/day": formats that also contain %a %A %b %B %h, under explicit premises on the two
   oracles - strftime renders runs item-wise (C08's premises) and strptime inverts strftime on those five specifiers when
   the next byte is not a letter (FmtRTScanN.oracle_names: it does NOT assume that a month name keeps tm_wday, which glibc
   recomputes; hence the extra clauses of last_writer_ok_names) *)
Theorem lossless_roundtrip_names : forall so sp strp_tm utc tz fmt al fs t,
  reset_to_builtin_utc 0 = OK utc ->
  (forall ts tm, forallb FormatSpecFull.run_ok ts = true ->
     so (flat_map FormatSpecFull.tok_raw ts) tm = flat_map (FormatSpecFull.run_render so tm) ts) ->
  (forall ts tl tm, forallb FormatSpecFull.run_ok ts = true -> FormatSpecFull.dangling tl = true ->
     so (flat_map FormatSpecFull.tok_raw ts ++ tl) tm = flat_map (FormatSpecFull.run_render so tm) ts ++ so tl tm) ->
  FmtRTScanN.oracle_names sp so (spec_tm (al_cs al) (al_dst al)) strp_tm ->
  lossless_fmt fmt (al_off al) (fy (al_cs al)) = true ->
  FmtRoundTripNames.last_writer_ok_names fmt (al_off al) (fy (al_cs al)) = true ->
  valid_fields (al_cs al) = true -> int64 (fy (al_cs al)) -> -86400 < al_off al < 86400 ->
  0 <= fs < 10 ^ 15 -> int64 t -> sec_of (al_cs al) = t + al_off al ->
  exists txt, format_impl so fmt al fs t = OK txt /\
              parse_impl sp tz utc fmt txt = OK (Some (t, if FmtRoundTripNames.has_percent_s fmt then 0 else fs)).
Proof. exact FmtRoundTripNames.lossless_roundtrip_names. Qed.
Print Assumptions lossless_roundtrip_names.
