(* Properties_C07.v — C07: format then parse returns the instant: the
   component inverses (each unbounded) *)
From CCTZ Require Import Base SrcConstants Cal CivilImpl PosixImpl ZoneLoad FormatImpl ParseImpl FmtSpec ParseProofs.
Local Open Scope Z_scope.

(* a continuation that cannot extend a number *)
Definition no_digit_head (k : list Z) : Prop := match k with c :: _ => is_digit c = false | [] => True end.

(* %Y / %s: every int64, any width used by the formatter, including INT64_MIN *)
Theorem parseint_format64 : forall v k bs, int64 v -> no_digit_head k ->
  format64 0 v = OK bs -> parse_int64 (bs ++ k) 0 min64 max64 = Some (v, k).
Proof. exact parseint_format64_lemma. Qed.
Print Assumptions parseint_format64.

(* two-digit fields *)
Theorem parseint_format02d : forall v k bs lo hi, 0 <= v <= 99 -> lo <= v <= hi -> 0 <= lo ->
  format02d v = OK bs -> parse_int32 (bs ++ k) 2 lo hi = Some (v, k).
Proof. exact parseint_format02d_lemma. Qed.
Print Assumptions parseint_format02d.

(* offsets: full-resolution modes are lossless for every |off| < 24h;
   minute-resolution modes exactly when the offset has no seconds *)
Definition no_offset_cont (sep : Z) (k : list Z) : Prop :=
  match k with c :: _ => is_digit c = false /\ (sep = 0 \/ c <> sep) | [] => True end.

Theorem parseoffset_formatoffset_full : forall off k bs, -86400 < off < 86400 -> no_offset_cont 58 k ->
  format_offset off [58; 42] = OK bs -> fmt_parse_offset (bs ++ k) 58 = Some (off, k).
Proof. exact parseoffset_formatoffset_full_lemma. Qed.
Print Assumptions parseoffset_formatoffset_full.

Theorem parseoffset_formatoffset_minutes : forall off k bs mode sep, -86400 < off < 86400 ->
  (mode = [] /\ sep = 0) \/ (mode = [58] /\ sep = 58) -> no_offset_cont sep k ->
  format_offset off mode = OK bs ->
  exists off', fmt_parse_offset (bs ++ k) sep = Some (off', k) /\
               off' = Z.quot off 60 * 60 /\ (off' = off <-> Z.rem off 60 = 0).
Proof. exact parseoffset_formatoffset_minutes_lemma. Qed.
Print Assumptions parseoffset_formatoffset_minutes.

(* F6: the statement is false for |off| = 24h *)
Theorem parseoffset_24h_refuted :
  exists bs, format_offset 86400 [58; 42] = OK bs /\ fmt_parse_offset bs 58 = None.
Proof. eexists. split; [vm_compute; reflexivity|]. vm_compute; reflexivity. Qed.
Print Assumptions parseoffset_24h_refuted.

(* sub-seconds: every femtosecond count survives %E*f / %E15f *)
Theorem subsec_roundtrip : forall fs k, 0 <= fs < 10 ^ 15 -> no_digit_head k ->
  parse_subseconds (frac_digits fs 15 ++ k) = OK (Some (fs, k)) /\
  (fs <> 0 -> parse_subseconds (frac_min fs ++ k) = OK (Some (fs, k))).
Proof. exact subsec_roundtrip_lemma. Qed.
Print Assumptions subsec_roundtrip.

From CCTZ Require Import FinishDefs FinishProofs.

(* the RFC 3339 format with full sub-second precision round-trips, for every instant whose year fits *)
Theorem rfc3339_roundtrip : forall strftime_o strptime_o utc tz al fs t,
  reset_to_builtin_utc 0 = OK utc ->
  valid_fields (al_cs al) = true -> int64 (fy (al_cs al)) -> -86400 < al_off al < 86400 ->
  0 <= fs < 10 ^ 15 -> int64 t ->
  sec_of (al_cs al) = t + al_off al ->
  exists txt, format_impl strftime_o rfc3339 al fs t = OK txt /\
              parse_impl strptime_o tz utc rfc3339 txt = OK (Some (t, fs)).
Proof. exact rfc3339_roundtrip_lemma. Qed.
Print Assumptions rfc3339_roundtrip.

