(* SourcePosixProofs.v - the source-derived POSIX-TZ parser (SourcePosix.v, generated from clang's
   AST of src/time_zone_posix.cc: pointers as indices into the buffer, every read / pointer step /
   int operation checked) computes exactly what the hand-written model (PosixImpl.v) computes, on
   EVERY byte string: it never errs (no out-of-bounds read, no null dereference, no int overflow,
   fuel S (S (length spec)) suffices), accepts exactly the strings the model accepts, and on
   acceptance every field the model determines has the model's value.  Embedded NUL bytes included:
   the model parses c_str spec, the source-derived functions read buf and stop at the first 0.

   Bridge: suffix buf p = c_str (skipn p buf) is the model's "remaining bytes" for index p;
   rd buf p = OK (deref (suffix buf p)) for 0 <= p <= length buf.
   The proofs never mention the generated temporaries (t1, t2, ...): they unfold, rewrite with the
   bridging / per-function tie lemmas and reduce with cbn [bind].

   One hypothesis beyond the target statement: length spec < 2^64.  ParseAbbr computes the
   length passed to std::string::assign in size_t arithmetic (static_cast<size_t>(p - op) - 1),
   which SourcePosix.v renders mod 2^64; for a (physically impossible) string of >= 2^64 bytes the
   wrapped length would differ from the model's.  Every std::string satisfies the bound.
   bytes_ok is not needed by the proof (sp_ParsePosixSpec_tie_any has no such hypothesis). *)
From CCTZ Require Import Base SrcConstants PosixImpl SourcePosix.
Require Import Lia ZifyBool.
Local Open Scope Z_scope.


(* ------------------------------------------------------------------ *)
(* Bridging: an index into buf  <->  the model's suffix list           *)

Definition suffix (buf : list Z) (p : Z) : list Z := c_str (skipn (Z.to_nat p) buf).
Definition valid (buf : list Z) (p : Z) : Prop := 0 <= p <= blen buf.

Ltac fin := repeat split; try assumption; try (unfold valid in *; lia).

Lemma deref_cstr_skipn : forall n buf, (n < length buf)%nat ->
  deref (c_str (skipn n buf)) = nth n buf 0.
Proof.
  induction n as [|n IH]; intros [|c r] H; cbn [length] in H; try lia.
  - cbn [skipn c_str nth]. destruct (c =? 0) eqn:E; cbn [deref]; lia.
  - cbn [skipn nth]. apply IH. lia.
Qed.

Lemma rd_suffix buf p : valid buf p -> rd buf p = OK (deref (suffix buf p)).
Proof.
  unfold valid, rd, suffix, blen. intros H.
  destruct (p <? 0) eqn:E0; [lia|].
  destruct (p <? Z.of_nat (length buf)) eqn:E1.
  - rewrite deref_cstr_skipn by lia. reflexivity.
  - destruct (p =? Z.of_nat (length buf)) eqn:E2; [|lia].
    rewrite skipn_all2 by lia. reflexivity.
Qed.

Lemma cstr_step_nat : forall n buf, deref (c_str (skipn n buf)) <> 0 ->
  (n < length buf)%nat /\
  c_str (skipn n buf) = deref (c_str (skipn n buf)) :: c_str (skipn (S n) buf).
Proof.
  induction n as [|n IH]; intros [|c r] H.
  - cbn in H. lia.
  - cbn [skipn c_str] in *. destruct (c =? 0) eqn:E; cbn [deref] in *; [lia|].
    split; [cbn [length]; lia | reflexivity].
  - cbn in H. lia.
  - cbn [skipn] in H. destruct (IH r H) as [L E]. split; [cbn [length]; lia|].
    cbn [skipn] in *. exact E.
Qed.

Lemma suffix_step buf p : valid buf p -> deref (suffix buf p) <> 0 ->
  p < blen buf /\ valid buf (p + 1) /\
  suffix buf p = deref (suffix buf p) :: suffix buf (p + 1) /\
  tl (suffix buf p) = suffix buf (p + 1).
Proof.
  unfold valid, suffix, blen. intros Hv H.
  destruct (cstr_step_nat _ _ H) as [L E].
  replace (Z.to_nat (p + 1)) with (S (Z.to_nat p)) by lia.
  repeat split; try lia; [exact E | rewrite E at 1; reflexivity].
Qed.

Lemma cstr_head_nz l c r : c_str l = c :: r -> c <> 0.
Proof.
  destruct l as [|x l]; cbn [c_str]; [discriminate|].
  destruct (x =? 0) eqn:E; [discriminate|]. intros H; inversion H; subst. lia.
Qed.

Lemma suffix_cons buf p c r : valid buf p -> suffix buf p = c :: r ->
  c <> 0 /\ p < blen buf /\ valid buf (p + 1) /\ r = suffix buf (p + 1).
Proof.
  intros Hv E. pose proof (cstr_head_nz _ _ _ E) as Hc.
  assert (D : deref (suffix buf p) <> 0) by (rewrite E; exact Hc).
  destruct (suffix_step buf p Hv D) as (L & V & _ & T).
  rewrite E in T. cbn [tl] in T. auto.
Qed.

Lemma suffix_nil buf p : deref (suffix buf p) = 0 -> suffix buf p = [].
Proof.
  destruct (suffix buf p) as [|c r] eqn:E; [reflexivity|].
  cbn [deref]. intros ->. exfalso. exact (cstr_head_nz _ _ _ E eq_refl).
Qed.

Lemma match_nil_suffix (A : Type) buf p (a b : A) :
  match suffix buf p with [] => a | _ :: _ => b end =
  if deref (suffix buf p) =? 0 then a else b.
Proof.
  destruct (suffix buf p) as [|c r] eqn:E; [reflexivity|].
  cbn [deref]. pose proof (cstr_head_nz _ _ _ E). destruct (c =? 0) eqn:E0; [lia|reflexivity].
Qed.

Lemma cstr_length l : (length (c_str l) <= length l)%nat.
Proof.
  induction l as [|c r IH]; [cbn; lia|]. cbn [c_str]. destruct (c =? 0); cbn [length]; lia.
Qed.

Lemma suffix_length buf p : valid buf p -> Z.of_nat (length (suffix buf p)) <= blen buf - p.
Proof.
  unfold valid, suffix, blen. intros H.
  pose proof (cstr_length (skipn (Z.to_nat p) buf)) as L. rewrite skipn_length in L. lia.
Qed.

Lemma suffix_fuel buf p fuel : valid buf p -> (length buf < fuel)%nat ->
  (length (suffix buf p) < fuel)%nat.
Proof. intros Hv F. pose proof (suffix_length buf p Hv). unfold valid, blen in *. lia. Qed.

Lemma cstr_prefix : forall a l b, c_str l = a ++ b ->
  firstn (length a) l = a /\ (length a <= length l)%nat.
Proof.
  induction a as [|x a IH]; intros l b H.
  - cbn. split; [reflexivity|lia].
  - destruct l as [|c r]; [discriminate|]. cbn [c_str] in H.
    destruct (c =? 0); [discriminate|]. cbn [app] in H. inversion H; subst.
    destruct (IH r b H2) as [F L]. cbn [length firstn]. rewrite F. split; [reflexivity|lia].
Qed.

Lemma substr_suffix buf p pre rest : valid buf p -> suffix buf p = pre ++ rest ->
  substr buf p (Z.of_nat (length pre)) = OK pre /\ p + Z.of_nat (length pre) <= blen buf.
Proof.
  unfold valid, suffix, substr, blen. intros Hv E.
  destruct (cstr_prefix _ _ _ E) as [F L]. rewrite skipn_length in L.
  assert (B : p + Z.of_nat (length pre) <= Z.of_nat (length buf)) by lia.
  split; [|exact B].
  destruct ((0 <=? p) && (0 <=? Z.of_nat (length pre)) && (p + Z.of_nat (length pre) <=? Z.of_nat (length buf))) eqn:C; [|lia].
  rewrite Nat2Z.id, F. reflexivity.
Qed.

Lemma padd_1 buf p : valid buf p -> padd buf p 1 = OK (p + 1).
Proof.
  unfold valid, padd. intros H. destruct (p <? 0) eqn:E0; [lia|].
  destruct ((0 <=? p + 1) && (p + 1 <=? blen buf + 1)) eqn:E1; [reflexivity|lia].
Qed.

Lemma pdiff_ok p q : 0 <= p -> 0 <= q -> pdiff p q = OK (p - q).
Proof. unfold pdiff. intros. destruct ((p <? 0) || (q <? 0)) eqn:E; [lia|reflexivity]. Qed.

(* literal head patterns of the model as tests on deref *)
Ltac head_tac :=
  intros A p; intros;
  destruct p as [|c r]; [reflexivity|]; cbn [deref tl];
  destruct c as [|q|q]; try reflexivity;
  do 7 (try (destruct q as [q|q|]; try reflexivity)).

Lemma d44 : forall A (p : list Z) (f : list Z -> A) (g : A),
  match p with 44 :: r => f r | _ => g end = if deref p =? 44 then f (tl p) else g.
Proof. head_tac. Qed.
Lemma d47 : forall A (p : list Z) (f : list Z -> A) (g : A),
  match p with 47 :: r => f r | _ => g end = if deref p =? 47 then f (tl p) else g.
Proof. head_tac. Qed.
Lemma d46 : forall A (p : list Z) (f : list Z -> A) (g : A),
  match p with 46 :: r => f r | _ => g end = if deref p =? 46 then f (tl p) else g.
Proof. head_tac. Qed.
Lemma d58 : forall A (p : list Z) (f : list Z -> A) (g : A),
  match p with 58 :: r => f r | _ => g end = if deref p =? 58 then f (tl p) else g.
Proof. head_tac. Qed.
Lemma d60 : forall A (p : list Z) (f : list Z -> A) (g : A),
  match p with 60 :: r => f r | _ => g end = if deref p =? 60 then f (tl p) else g.
Proof. head_tac. Qed.
Lemma d43_45 : forall A (p : list Z) (f1 f2 : list Z -> A) (g : A),
  match p with 43 :: r => f1 r | 45 :: r => f2 r | _ => g end =
  if deref p =? 43 then f1 (tl p) else if deref p =? 45 then f2 (tl p) else g.
Proof. head_tac. Qed.
Lemma d77_74 : forall A (p : list Z) (f1 f2 : list Z -> A) (g : A),
  match p with 77 :: r => f1 r | 74 :: r => f2 r | _ => g end =
  if deref p =? 77 then f1 (tl p) else if deref p =? 74 then f2 (tl p) else g.
Proof. head_tac. Qed.

(* strchr on the two constant tables *)
Lemma strchr_ix_digits c :
  strchr_ix [48; 49; 50; 51; 52; 53; 54; 55; 56; 57] c =
  if is_digit c then c - 48 else if c =? 0 then 10 else -1.
Proof.
  unfold strchr_ix, is_digit. cbn [strchr_from].
  repeat match goal with
  | |- context [?x =? c] => destruct (Z.eqb_spec x c); [subst; reflexivity|]
  end.
  destruct ((48 <=? c) && (c <=? 57)) eqn:E; [lia|reflexivity].
Qed.

Lemma strchr_ix_pmc c : c <> 0 ->
  (strchr_ix [45; 43; 44] c =? -1) = negb ((c =? 45) || (c =? 43) || (c =? 44)).
Proof.
  intros H. unfold strchr_ix. cbn [strchr_from].
  destruct (Z.eqb_spec 45 c); [subst; reflexivity|].
  destruct (Z.eqb_spec 43 c); [subst; reflexivity|].
  destruct (Z.eqb_spec 44 c); [subst; reflexivity|].
  destruct (c =? 0) eqn:E0; [lia|].
  destruct ((c =? 45) || (c =? 43) || (c =? 44)) eqn:E; [lia|reflexivity].
Qed.

(* ------------------------------------------------------------------ *)
(* ParseInt                                                            *)

Lemma int_loop_tie buf vp : forall l p value n fuel,
  valid buf p -> suffix buf p = l -> 0 <= value <= 2147483647 -> (length l < fuel)%nat ->
  match posix_int_loop l value n with
  | Some (v', rest, n') => exists p',
      sp_ParseInt_loop1 fuel buf vp 2147483647 p value = OK (None, (p', v')) /\
      rest = suffix buf p' /\ valid buf p' /\ p' = p + Z.of_nat (n' - n) /\ (n <= n')%nat /\
      0 <= v' <= 2147483647
  | None => exists st, sp_ParseInt_loop1 fuel buf vp 2147483647 p value = OK (Some (-1, vp), st)
  end.
Proof.
  induction l as [|c r IH]; intros p value n fuel Hv Hs Hval Hf;
    (destruct fuel as [|fuel]; [cbn [length] in Hf; lia|]);
    cbn [sp_ParseInt_loop1 posix_int_loop]; rewrite (rd_suffix buf p Hv), Hs; cbn [bind deref].
  - rewrite strchr_ix_digits. change (is_digit 0) with false. change (0 =? 0) with true.
    change (10 =? -1) with false. cbn [negb]. unfold tdiff. change (10 <? 0) with false. cbn [bind].
    unfold narrow32. rewrite chk32_in by (unfold int32, min32, max32; lia). cbn [bind].
    change (10 <=? 10) with true. cbv iota.
    exists p. fin. symmetry; exact Hs.
  - destruct (suffix_cons buf p c r Hv Hs) as (Hc & Hlt & Hv1 & Hr).
    rewrite strchr_digits, strchr_ix_digits.
    destruct (is_digit c) eqn:D.
    + unfold is_digit in D.
      destruct (c - 48 =? -1) eqn:E1; [lia|]. cbn [negb]. unfold tdiff.
      destruct (c - 48 <? 0) eqn:E2; [lia|]. cbn [bind].
      unfold narrow32. rewrite chk32_in by (unfold int32, min32, max32; lia). cbn [bind].
      destruct (10 <=? c - 48) eqn:E3; [lia|].
      unfold kMaxInt. change (Z.quot 2147483647 10) with 214748364.
      destruct (214748364 <? value) eqn:E4.
      { eexists; reflexivity. }
      unfold mul32, sub32, add32.
      rewrite (chk32_in (value * 10)) by (unfold int32, min32, max32; lia). cbn [bind].
      rewrite (chk32_in (2147483647 - (c - 48))) by (unfold int32, min32, max32; lia). cbn [bind].
      destruct (2147483647 - (c - 48) <? value * 10) eqn:E5.
      { eexists; reflexivity. }
      rewrite chk32_in by (unfold int32, min32, max32; lia). cbn [bind].
      rewrite (padd_1 buf p Hv). cbn [bind].
      assert (Hf' : (length r < fuel)%nat) by (cbn [length] in Hf; lia).
      assert (Hval' : 0 <= value * 10 + (c - 48) <= 2147483647) by lia.
      specialize (IH (p + 1) (value * 10 + (c - 48)) (S n) fuel Hv1 (eq_sym Hr) Hval' Hf').
      destruct (posix_int_loop r (value * 10 + (c - 48)) (S n)) as [[[v' rest] n']|].
      * destruct IH as (p' & E & R & V & P & N & B). exists p'.
        fin.
      * exact IH.
    + destruct (c =? 0) eqn:E0; [lia|]. change (-1 =? -1) with true. cbn [negb].
      exists p. fin. symmetry; exact Hs.
Qed.

Lemma ParseInt_tie buf fuel p lo hi vp : valid buf p -> (length buf < fuel)%nat ->
  match posix_parse_int (suffix buf p) lo hi with
  | Some (v, rest) => exists p',
      sp_ParseInt fuel buf p lo hi vp = OK (p', v) /\ rest = suffix buf p' /\ valid buf p' /\
      p < p' /\ lo <= v <= hi /\ 0 <= v <= 2147483647
  | None => sp_ParseInt fuel buf p lo hi vp = OK (-1, vp)
  end.
Proof.
  intros Hv Hf. unfold sp_ParseInt, posix_parse_int.
  pose proof (int_loop_tie buf vp (suffix buf p) p 0 0%nat fuel Hv eq_refl ltac:(lia)
                (suffix_fuel buf p fuel Hv Hf)) as T.
  destruct (posix_int_loop (suffix buf p) 0 0) as [[[v rest] n]|].
  - destruct T as (p' & E & R & V & P & N & B). rewrite E. cbn [bind].
    assert (Q : (p' =? p) = Nat.eqb n 0).
    { destruct (Nat.eqb_spec n 0); lia. }
    rewrite Q.
    destruct (Nat.eqb n 0 || (v <? lo) || (hi <? v)) eqn:C; [reflexivity|].
    exists p'. destruct (Nat.eqb_spec n 0); [discriminate|].
    fin.
  - destruct T as (st & E). rewrite E. destruct st. reflexivity.
Qed.


(* ------------------------------------------------------------------ *)
(* ParseAbbr                                                           *)

Lemma abbr_loop1_tie buf abbr : forall l p c acc fuel,
  valid buf p -> suffix buf p = c :: l -> (length l < fuel)%nat ->
  match abbr_bracket l acc with
  | Some (a, rest) => exists p' pre,
      sp_ParseAbbr_loop1 fuel buf abbr p = OK (None, p') /\
      a = rev acc ++ pre /\ suffix buf (p + 1) = pre ++ suffix buf p' /\
      p' = p + 1 + Z.of_nat (length pre) /\ valid buf p' /\ suffix buf p' = 62 :: rest
  | None => exists p', sp_ParseAbbr_loop1 fuel buf abbr p = OK (Some (-1, abbr), p')
  end.
Proof.
  induction l as [|x r IH]; intros p c acc fuel Hv Hs Hf;
    (destruct fuel as [|fuel]; [cbn [length] in Hf; lia|]);
    destruct (suffix_cons buf p c _ Hv Hs) as (Hc & Hlt & Hv1 & Hr);
    cbn [sp_ParseAbbr_loop1 abbr_bracket]; rewrite (padd_1 buf p Hv); cbn [bind];
    rewrite !(rd_suffix buf (p + 1) Hv1), <- Hr; cbn [bind deref].
  - change (0 =? 62) with false. change (0 =? 0) with true. cbn [negb]. eexists; reflexivity.
  - symmetry in Hr. destruct (suffix_cons buf (p + 1) x r Hv1 Hr) as (Hx & Hlt1 & Hv2 & Hr2).
    destruct (x =? 62) eqn:E; cbn [negb].
    + assert (x = 62) by lia; subst x. exists (p + 1), [].
      rewrite app_nil_r. cbn [app length]. fin. symmetry; exact Hr.
    + destruct (x =? 0) eqn:E0; [lia|].
      assert (Hf' : (length r < fuel)%nat) by (cbn [length] in Hf; lia).
      specialize (IH (p + 1) x (x :: acc) fuel Hv1 Hr Hf').
      destruct (abbr_bracket r (x :: acc)) as [[a rest]|]; [|exact IH].
      destruct IH as (p' & pre & E1 & A & S & P & V & T).
      exists p', (x :: pre). cbn [rev] in A. rewrite <- app_assoc in A. cbn [app] in A.
      cbn [app length]. rewrite <- S, <- Hr2. fin.
Qed.

Lemma abbr_loop2_tie buf : forall l p acc fuel,
  valid buf p -> suffix buf p = l -> (length l < fuel)%nat ->
  exists p' pre, sp_ParseAbbr_loop2 fuel buf p = OK (None, p') /\
    abbr_plain l acc = (rev acc ++ pre, suffix buf p') /\
    l = pre ++ suffix buf p' /\ p' = p + Z.of_nat (length pre) /\ valid buf p'.
Proof.
  induction l as [|c r IH]; intros p acc fuel Hv Hs Hf;
    (destruct fuel as [|fuel]; [cbn [length] in Hf; lia|]);
    cbn [sp_ParseAbbr_loop2 abbr_plain]; rewrite !(rd_suffix buf p Hv), Hs; cbn [bind deref].
  - change (0 =? 0) with true. cbn [negb]. exists p, []. rewrite app_nil_r, Hs. cbn [app length]. fin.
  - destruct (suffix_cons buf p c r Hv Hs) as (Hc & Hlt & Hv1 & Hr).
    destruct (c =? 0) eqn:E0; [lia|]. cbn [negb].
    rewrite (strchr_ix_pmc c Hc), strchr_ix_digits. unfold abbr_stop.
    destruct ((c =? 45) || (c =? 43) || (c =? 44)) eqn:S1; cbn [negb orb].
    { exists p, []. rewrite app_nil_r, Hs. cbn [app length]. fin. }
    destruct (is_digit c) eqn:D.
    { unfold is_digit in D. destruct (c - 48 =? -1) eqn:E1; [lia|]. cbn [negb].
      exists p, []. rewrite app_nil_r, Hs. cbn [app length]. fin. }
    rewrite E0. change (-1 =? -1) with true. cbn [negb].
    rewrite (padd_1 buf p Hv). cbn [bind].
    assert (Hf' : (length r < fuel)%nat) by (cbn [length] in Hf; lia).
    destruct (IH (p + 1) (c :: acc) fuel Hv1 (eq_sym Hr) Hf') as (p' & pre & E1 & A & S & P & V).
    exists p', (c :: pre). cbn [rev] in A. rewrite <- app_assoc in A. cbn [app] in A.
    cbn [app length]. rewrite <- S. fin.
Qed.

Lemma wrap_sub1 x : 1 <= x < 2 ^ 64 -> ((x mod 2 ^ 64) - 1) mod 2 ^ 64 = x - 1.
Proof.
  intros H. rewrite (Z.mod_small x) by lia. apply Z.mod_small. lia.
Qed.

Lemma ParseAbbr_tie buf fuel p abbr : valid buf p -> (length buf < fuel)%nat -> blen buf < 2 ^ 64 ->
  match posix_parse_abbr (suffix buf p) with
  | Some (a, rest) => exists p',
      sp_ParseAbbr fuel buf p abbr = OK (p', a) /\ rest = suffix buf p' /\ valid buf p'
  | None => sp_ParseAbbr fuel buf p abbr = OK (-1, abbr)
  end.
Proof.
  intros Hv Hf Hb. unfold sp_ParseAbbr, posix_parse_abbr.
  rewrite d60, (rd_suffix buf p Hv). cbn [bind].
  destruct (deref (suffix buf p) =? 60) eqn:E.
  - assert (D : deref (suffix buf p) <> 0) by lia.
    destruct (suffix_step buf p Hv D) as (Hlt & Hv1 & Hs & Ht).
    pose proof (suffix_fuel buf (p + 1) fuel Hv1 Hf) as Hf1.
    rewrite Ht.
    pose proof (abbr_loop1_tie buf abbr _ p _ [] fuel Hv Hs Hf1) as T.
    destruct (abbr_bracket (suffix buf (p + 1)) []) as [[a rest]|].
    + destruct T as (p' & pre & E1 & A & S & P & V & T). rewrite E1. cbn [bind].
      rewrite (padd_1 buf p Hv). cbn [bind].
      rewrite pdiff_ok by (unfold valid in *; lia). cbn [bind].
      destruct (substr_suffix buf (p + 1) pre _ Hv1 S) as [Sub Bd].
      rewrite wrap_sub1 by (unfold valid in *; lia).
      replace (p' - p - 1) with (Z.of_nat (length pre)) by lia.
      rewrite Sub. cbn [bind]. rewrite (padd_1 buf p' V). cbn [bind].
      destruct (suffix_cons buf p' _ _ V T) as (_ & Hlt' & Hv' & Hr').
      exists (p' + 1). cbn [rev app] in A. subst a. fin.
    + destruct T as (p' & E1). rewrite E1. reflexivity.
  - destruct (abbr_loop2_tie buf _ p [] fuel Hv eq_refl (suffix_fuel buf p fuel Hv Hf))
      as (p' & pre & E1 & A & S & P & V).
    rewrite E1, A. cbn [bind rev app].
    rewrite !pdiff_ok by (unfold valid in *; lia). cbn [bind].
    assert (Q : (p' - p <? 3) = Nat.ltb (length pre) 3).
    { destruct (Nat.ltb_spec (length pre) 3); lia. }
    rewrite Q. destruct (Nat.ltb (length pre) 3) eqn:L; [reflexivity|].
    destruct (substr_suffix buf p pre _ Hv S) as [Sub Bd].
    rewrite Z.mod_small by (unfold valid in *; lia).
    replace (p' - p) with (Z.of_nat (length pre)) by lia.
    rewrite Sub. cbn [bind]. exists p'. fin.
Qed.

(* ------------------------------------------------------------------ *)
(* ParseOffset                                                         *)

Lemma ParseOffset_null fuel buf lo hi sign off :
  sp_ParseOffset fuel buf (-1) lo hi sign off = OK (-1, off).
Proof. reflexivity. Qed.

Ltac off_arith :=
  unfold mul32, add32;
  repeat (rewrite chk32_in by (unfold int32, min32, max32; lia); cbn [bind]).

(* the part of ParseOffset after the optional sign; run on a goal generalised to
   forall p1 s1, valid buf p1 -> -1 <= s1 <= 1 -> ... *)
Ltac off_tail buf fuel lo hi Hf :=
  let p1 := fresh "p1" in let s1 := fresh "s1" in
  let Hv1 := fresh "Hv1" in let Hs1 := fresh "Hs1" in
  intros p1 s1 Hv1 Hs1;
  assert (Hc : s1 = -1 \/ s1 = 0 \/ s1 = 1) by lia;
  let T1 := fresh "T1" in
  pose proof (ParseInt_tie buf fuel p1 lo hi 0 Hv1 Hf) as T1;
  destruct (posix_parse_int (suffix buf p1) lo hi) as [[hours p2]|];
  [ destruct T1 as (q1 & E1 & R1 & V1 & L1 & B1 & N1); rewrite E1; cbn [bind];
    (destruct (q1 =? -1) eqn:Eq1; [unfold valid in V1; lia|]); subst p2;
    rewrite d58, (rd_suffix buf q1 V1); cbn [bind];
    destruct (deref (suffix buf q1) =? 58) eqn:E58;
    [ assert (D1 : deref (suffix buf q1) <> 0) by lia;
      destruct (suffix_step buf q1 V1 D1) as (_ & V1' & _ & T1'); rewrite T1';
      rewrite (padd_1 buf q1 V1); cbn [bind];
      pose proof (ParseInt_tie buf fuel (q1 + 1) 0 59 0 V1' Hf) as T2;
      destruct (posix_parse_int (suffix buf (q1 + 1)) 0 59) as [[minutes p3]|];
      [ destruct T2 as (q2 & E2 & R2 & V2 & L2 & B2 & N2); rewrite E2; cbn [bind];
        (destruct (q2 =? -1) eqn:Eq2; [unfold valid in V2; lia|]); subst p3;
        rewrite d58, (rd_suffix buf q2 V2); cbn [bind];
        destruct (deref (suffix buf q2) =? 58) eqn:E58b;
        [ assert (D2 : deref (suffix buf q2) <> 0) by lia;
          destruct (suffix_step buf q2 V2 D2) as (_ & V2' & _ & T2'); rewrite T2';
          rewrite (padd_1 buf q2 V2); cbn [bind];
          pose proof (ParseInt_tie buf fuel (q2 + 1) 0 59 0 V2' Hf) as T3;
          destruct (posix_parse_int (suffix buf (q2 + 1)) 0 59) as [[seconds p4]|];
          [ destruct T3 as (q3 & E3 & R3 & V3 & L3 & B3 & N3); rewrite E3; cbn [bind];
            (destruct (q3 =? -1) eqn:Eq3; [unfold valid in V3; lia|]); subst p4;
            destruct Hc as [ -> | [ -> | -> ] ]; off_arith; exists q3; fin
          | rewrite T3; cbn [bind]; reflexivity ]
        | destruct Hc as [ -> | [ -> | -> ] ]; off_arith; exists q2; fin ]
      | rewrite T2; cbn [bind]; reflexivity ]
    | destruct Hc as [ -> | [ -> | -> ] ]; off_arith; exists q1; fin ]
  | rewrite T1; cbn [bind]; reflexivity ].

Lemma ParseOffset_tie buf fuel p lo hi sign off :
  valid buf p -> (length buf < fuel)%nat -> hi <= 1000 -> -1 <= sign <= 1 ->
  match posix_parse_offset (Some (suffix buf p)) lo hi sign with
  | Some (v, rest) => exists p',
      sp_ParseOffset fuel buf p lo hi sign off = OK (p', v) /\ rest = suffix buf p' /\
      valid buf p' /\ -3603599 <= v <= 3603599
  | None => sp_ParseOffset fuel buf p lo hi sign off = OK (-1, off)
  end.
Proof.
  intros Hv Hf Hhi Hsg. unfold sp_ParseOffset, posix_parse_offset.
  destruct (p =? -1) eqn:Em; [unfold valid in Hv; lia|].
  rewrite d43_45. cbn [bind]. rewrite !(rd_suffix buf p Hv). cbn [bind].
  destruct (deref (suffix buf p) =? 43) eqn:E43; cbn [bind];
  [ | destruct (deref (suffix buf p) =? 45) eqn:E45; cbn [bind] ].
  - destruct (deref (suffix buf p) =? 45) eqn:E45; [lia|].
    assert (D : deref (suffix buf p) <> 0) by lia.
    destruct (suffix_step buf p Hv D) as (_ & Hv' & _ & Ht). rewrite Ht.
    rewrite (padd_1 buf p Hv). cbn [bind].
    revert Hv' Hsg. generalize (p + 1), sign. off_tail buf fuel lo hi Hf.
  - assert (D : deref (suffix buf p) <> 0) by lia.
    destruct (suffix_step buf p Hv D) as (_ & Hv' & _ & Ht). rewrite Ht.
    rewrite (padd_1 buf p Hv). cbn [bind].
    unfold neg32. rewrite chk32_in by (unfold int32, min32, max32; lia). cbn [bind].
    assert (Hsg' : -1 <= - sign <= 1) by lia.
    revert Hv' Hsg'. generalize (p + 1), (- sign). off_tail buf fuel lo hi Hf.
  - revert Hv Hsg. clear Em E43 E45. generalize p, sign. off_tail buf fuel lo hi Hf.
Qed.

(* ------------------------------------------------------------------ *)
(* ParseDateTime                                                       *)

Definition fmt_code (d : pdate) : Z := match d with DJ _ => 0 | DN _ => 1 | DM _ _ _ => 2 end.
Definition agrees_trans (pt : ptrans) (fmt jday mmonth mweek mweekday nday toff : Z) : Prop :=
  match pt_date pt, pt_time pt with
  | Some (DJ d), Some t => fmt = 0 /\ jday = d /\ toff = t
  | Some (DN d), Some t => fmt = 1 /\ nday = d /\ toff = t
  | Some (DM m w k), Some t => fmt = 2 /\ mmonth = m /\ mweek = w /\ mweekday = k /\ toff = t
  | _, _ => False
  end.

Definition model_time (date0 : pdate) (p1 : list Z) : option (ptrans * list Z) :=
  if deref p1 =? 47 then
    match posix_parse_offset (Some (tl p1)) (-167) 167 1 with
    | None => None
    | Some (off, p2) => Some (mkPT (Some date0) (Some off), p2)
    end
  else Some (mkPT (Some date0) (Some 7200), p1).

Lemma datetime_unfold l :
  posix_parse_datetime (Some l) =
  if deref l =? 44 then
    match posix_parse_date (tl l) with
    | None => None
    | Some (d, p1) => model_time d p1
    end
  else None.
Proof.
  unfold posix_parse_datetime, model_time. rewrite d44.
  destruct (deref l =? 44); [|reflexivity].
  destruct (posix_parse_date (tl l)) as [[d p1]|]; [|reflexivity].
  cbv zeta. rewrite d47. reflexivity.
Qed.

Lemma ParseDateTime_null fuel buf f j mm mw mwd n t :
  sp_ParseDateTime fuel buf (-1) f j mm mw mwd n t = OK (-1, f, j, mm, mw, mwd, n, t).
Proof. reflexivity. Qed.


Definition dt_rel (buf : list Z) (m : option (ptrans * list Z)) (r : res (Z * Z * Z * Z * Z * Z * Z * Z)) : Prop :=
  match m with
  | Some (pt, rest) => exists p' f' j' mm' mw' mwd' n' t',
      r = OK (p', f', j', mm', mw', mwd', n', t') /\
      rest = suffix buf p' /\ valid buf p' /\ agrees_trans pt f' j' mm' mw' mwd' n' t'
  | None => exists f' j' mm' mw' mwd' n' t', r = OK (-1, f', j', mm', mw', mwd', n', t')
  end.

Ltac dt_fail := change (-1 =? -1) with true; cbn [negb bind]; do 7 eexists; reflexivity.

(* the "[ / offset ]" part, once the date part has produced a valid position q *)
Ltac dt_time buf fuel q Vq Hf :=
  unfold model_time;
  (destruct (q =? -1) eqn:?; [unfold valid in Vq; lia|]); cbn [negb bind];
  unfold mul32; repeat (rewrite chk32_in by (unfold int32, min32, max32; lia); cbn [bind]);
  rewrite (rd_suffix buf q Vq); cbn [bind];
  let E47 := fresh "E47" in
  destruct (deref (suffix buf q) =? 47) eqn:E47; cbn [bind];
  [ let D := fresh "D" in let V' := fresh "V'" in let T' := fresh "T'" in let TO := fresh "TO" in
    assert (D : deref (suffix buf q) <> 0) by lia;
    destruct (suffix_step buf q Vq D) as (_ & V' & _ & T'); rewrite T';
    rewrite (padd_1 buf q Vq); cbn [bind];
    match goal with |- context [sp_ParseOffset fuel buf (q + 1) (-167) 167 1 ?o] =>
      pose proof (ParseOffset_tie buf fuel (q + 1) (-167) 167 1 o V' Hf ltac:(lia) ltac:(lia)) as TO
    end;
    destruct (posix_parse_offset (Some (suffix buf (q + 1))) (-167) 167 1) as [[toff rest]|];
    [ let q' := fresh "q'" in
      destruct TO as (q' & ? & ? & ? & ?);
      match goal with H : sp_ParseOffset _ _ _ _ _ _ _ = _ |- _ => rewrite H end; cbn [bind];
      unfold dt_rel; do 8 eexists; split; [reflexivity|];
      cbn [agrees_trans pt_date pt_time]; fin
    | rewrite TO; cbn [bind]; unfold dt_rel; do 7 eexists; reflexivity ]
  | unfold dt_rel; do 8 eexists; split; [reflexivity|];
    cbn [agrees_trans pt_date pt_time]; fin ].

Lemma ParseDateTime_tie buf fuel p f j mm mw mwd n t :
  valid buf p -> (length buf < fuel)%nat ->
  dt_rel buf (posix_parse_datetime (Some (suffix buf p)))
             (sp_ParseDateTime fuel buf p f j mm mw mwd n t).
Proof.
  intros Hv Hf. rewrite datetime_unfold. unfold sp_ParseDateTime.
  destruct (p =? -1) eqn:Em; [unfold valid in Hv; lia|]. cbn [negb bind].
  rewrite !(rd_suffix buf p Hv). cbn [bind].
  destruct (deref (suffix buf p) =? 44) eqn:E44; cbn [bind].
  2:{ unfold dt_rel. dt_fail. }
  assert (D : deref (suffix buf p) <> 0) by lia.
  destruct (suffix_step buf p Hv D) as (_ & Hv1 & _ & Ht). rewrite Ht.
  rewrite (padd_1 buf p Hv). cbn [bind]. rewrite !(rd_suffix buf (p + 1) Hv1). cbn [bind].
  unfold posix_parse_date. rewrite d77_74.
  change (nthZ src_posix_J_range 0) with 1. change (nthZ src_posix_J_range 1) with 365.
  change (nthZ src_posix_N_range 0) with 0. change (nthZ src_posix_N_range 1) with 365.
  destruct (deref (suffix buf (p + 1)) =? 77) eqn:E77; cbn [bind];
  [ | destruct (deref (suffix buf (p + 1)) =? 74) eqn:E74; cbn [bind] ].
  - (* Mm.w.d *)
    assert (D1 : deref (suffix buf (p + 1)) <> 0) by lia.
    destruct (suffix_step buf (p + 1) Hv1 D1) as (_ & Hv2 & _ & Ht2). rewrite Ht2.
    rewrite (padd_1 buf (p + 1) Hv1). cbn [bind].
    pose proof (ParseInt_tie buf fuel (p + 1 + 1) 1 12 0 Hv2 Hf) as T1.
    destruct (posix_parse_int (suffix buf (p + 1 + 1)) 1 12) as [[month l1]|].
    2:{ rewrite T1. cbn [bind]. unfold dt_rel. change (-1 =? -1) with true. cbn [negb bind]. dt_fail. }
    destruct T1 as (q1 & E1 & R1 & V1 & L1 & B1 & N1). rewrite E1. cbn [bind]. subst l1.
    destruct (q1 =? -1) eqn:Eq1; [unfold valid in V1; lia|]. cbn [negb].
    rewrite d46, (rd_suffix buf q1 V1). cbn [bind].
    destruct (deref (suffix buf q1) =? 46) eqn:E46; cbn [bind].
    2:{ unfold dt_rel. dt_fail. }
    assert (Dq1 : deref (suffix buf q1) <> 0) by lia.
    destruct (suffix_step buf q1 V1 Dq1) as (_ & V1' & _ & Tq1). rewrite Tq1.
    rewrite (padd_1 buf q1 V1). cbn [bind].
    pose proof (ParseInt_tie buf fuel (q1 + 1) 1 5 0 V1' Hf) as T2.
    destruct (posix_parse_int (suffix buf (q1 + 1)) 1 5) as [[week l2]|].
    2:{ rewrite T2. cbn [bind]. unfold dt_rel. change (-1 =? -1) with true. cbn [negb bind]. dt_fail. }
    destruct T2 as (q2 & E2 & R2 & V2 & L2 & B2 & N2). rewrite E2. cbn [bind]. subst l2.
    destruct (q2 =? -1) eqn:Eq2; [unfold valid in V2; lia|]. cbn [negb].
    rewrite d46, (rd_suffix buf q2 V2). cbn [bind].
    destruct (deref (suffix buf q2) =? 46) eqn:E46b; cbn [bind].
    2:{ unfold dt_rel. dt_fail. }
    assert (Dq2 : deref (suffix buf q2) <> 0) by lia.
    destruct (suffix_step buf q2 V2 Dq2) as (_ & V2' & _ & Tq2). rewrite Tq2.
    rewrite (padd_1 buf q2 V2). cbn [bind].
    pose proof (ParseInt_tie buf fuel (q2 + 1) 0 6 0 V2' Hf) as T3.
    destruct (posix_parse_int (suffix buf (q2 + 1)) 0 6) as [[weekday l3]|].
    2:{ rewrite T3. cbn [bind]. unfold dt_rel. change (-1 =? -1) with true. cbn [negb bind]. dt_fail. }
    destruct T3 as (q3 & E3 & R3 & V3 & L3 & B3 & N3). rewrite E3. cbn [bind]. subst l3.
    destruct (q3 =? -1) eqn:Eq3; [unfold valid in V3; lia|]. cbn [negb].
    unfold narrow8.
    destruct ((-128 <=? month) && (month <=? 127)) eqn:C1; [|lia].
    destruct ((-128 <=? week) && (week <=? 127)) eqn:C2; [|lia].
    destruct ((-128 <=? weekday) && (weekday <=? 127)) eqn:C3; [|lia].
    cbn [bind]. rewrite Eq3. dt_time buf fuel q3 V3 Hf.
  - (* Jn *)
    assert (D1 : deref (suffix buf (p + 1)) <> 0) by lia.
    destruct (suffix_step buf (p + 1) Hv1 D1) as (_ & Hv2 & _ & Ht2). rewrite Ht2.
    rewrite (padd_1 buf (p + 1) Hv1). cbn [bind].
    pose proof (ParseInt_tie buf fuel (p + 1 + 1) 1 365 0 Hv2 Hf) as T1.
    destruct (posix_parse_int (suffix buf (p + 1 + 1)) 1 365) as [[day l1]|].
    2:{ rewrite T1. cbn [bind]. unfold dt_rel. change (-1 =? -1) with true. cbn [negb bind]. dt_fail. }
    destruct T1 as (q1 & E1 & R1 & V1 & L1 & B1 & N1). rewrite E1. cbn [bind]. subst l1.
    destruct (q1 =? -1) eqn:Eq1; [unfold valid in V1; lia|]. cbn [negb bind]. rewrite Eq1.
    dt_time buf fuel q1 V1 Hf.
  - (* n *)
    pose proof (ParseInt_tie buf fuel (p + 1) 0 365 0 Hv1 Hf) as T1.
    destruct (posix_parse_int (suffix buf (p + 1)) 0 365) as [[day l1]|].
    2:{ rewrite T1. cbn [bind]. unfold dt_rel. change (-1 =? -1) with true. cbn [negb bind]. dt_fail. }
    destruct T1 as (q1 & E1 & R1 & V1 & L1 & B1 & N1). rewrite E1. cbn [bind]. subst l1.
    destruct (q1 =? -1) eqn:Eq1; [unfold valid in V1; lia|]. cbn [negb bind]. rewrite Eq1.
    dt_time buf fuel q1 V1 Hf.
Qed.

(* ------------------------------------------------------------------ *)
(* ParsePosixSpec                                                      *)

Definition bytes_ok (s : list Z) : Prop := Forall (fun c => 0 <= c <= 255) s.
Definition sp_fuel (s : list Z) : nat := S (S (length s)).

Definition top_rel (m : option posix_tz)
  (r : res (bool * list Z * Z * Z * Z * Z * Z * Z * Z * Z * Z * Z * Z * Z * Z * Z * Z * list Z * Z)) : Prop :=
  exists ok dabbr e_fmt e_j e_mm e_mw e_mwd e_n e_t doff s_fmt s_j s_mm s_mw s_mwd s_n s_t sabbr soff,
    r = OK (ok, dabbr, e_fmt, e_j, e_mm, e_mw, e_mwd, e_n, e_t, doff, s_fmt, s_j, s_mm, s_mw, s_mwd, s_n, s_t, sabbr, soff) /\
    match m with
    | None => ok = false
    | Some z => ok = true /\ sabbr = std_abbr z /\ std_offset z = Some soff /\
        (dst_abbr z = [] \/
         (dabbr = dst_abbr z /\ dst_offset z = Some doff /\
          agrees_trans (dst_start z) s_fmt s_j s_mm s_mw s_mwd s_n s_t /\
          agrees_trans (dst_end z) e_fmt e_j e_mm e_mw e_mwd e_n e_t))
    end.

Ltac top_false := unfold top_rel; do 19 eexists; split; reflexivity.

(* the two ParseDateTime calls and the final test, from a valid position q *)
Ltac top_dt spec fuel q Vq Hf :=
  let T1 := fresh "T1" in
  match goal with |- context [sp_ParseDateTime fuel spec q ?a ?b ?c ?d ?e ?f ?g] =>
    pose proof (ParseDateTime_tie spec fuel q a b c d e f g Vq Hf) as T1 end;
  unfold dt_rel in T1;
  destruct (posix_parse_datetime (Some (suffix spec q))) as [[ts r5]|];
  [ let q5 := fresh "q5" in let E5 := fresh "E5" in let V5 := fresh "V5" in let A5 := fresh "A5" in
    destruct T1 as (q5 & ? & ? & ? & ? & ? & ? & ? & E5 & ? & V5 & A5); rewrite E5; cbn [bind]; subst r5;
    let T2 := fresh "T2" in
    match goal with |- context [sp_ParseDateTime fuel spec q5 ?a ?b ?c ?d ?e ?f ?g] =>
      pose proof (ParseDateTime_tie spec fuel q5 a b c d e f g V5 Hf) as T2 end;
    unfold dt_rel in T2;
    destruct (posix_parse_datetime (Some (suffix spec q5))) as [[te r6]|];
    [ let q6 := fresh "q6" in let E6 := fresh "E6" in let V6 := fresh "V6" in let A6 := fresh "A6" in
      destruct T2 as (q6 & ? & ? & ? & ? & ? & ? & ? & E6 & ? & V6 & A6); rewrite E6; cbn [bind]; subst r6;
      (destruct (q6 =? -1) eqn:?; [unfold valid in V6; lia|]); cbn [negb];
      rewrite match_nil_suffix, (rd_suffix spec q6 V6); cbn [bind];
      destruct (deref (suffix spec q6) =? 0);
      [ unfold top_rel; do 19 eexists; split; [reflexivity|];
        cbn [std_abbr std_offset dst_abbr dst_offset dst_start dst_end];
        split; [reflexivity|]; split; [reflexivity|]; split; [reflexivity|];
        right; split; [reflexivity|]; split; [reflexivity|]; split; assumption
      | top_false ]
    | destruct T2 as (? & ? & ? & ? & ? & ? & ? & E6); rewrite E6; cbn [bind];
      change (-1 =? -1) with true; cbn [negb bind]; top_false ]
  | destruct T1 as (? & ? & ? & ? & ? & ? & ? & E5); rewrite E5; cbn [bind];
    rewrite ParseDateTime_null; cbn [bind];
    change (-1 =? -1) with true; cbn [negb bind]; top_false ].

Lemma top_tie spec : blen spec < 2 ^ 64 ->
  forall (i_dabbr : list Z) (i1 i2 i3 i4 i5 i6 i7 i8 i9 i10 i11 i12 i13 i14 i15 : Z) (i_sabbr : list Z) (i16 : Z),
  top_rel (ParsePosixSpec spec)
    (sp_ParsePosixSpec (sp_fuel spec) spec i_dabbr i1 i2 i3 i4 i5 i6 i7 i8 i9 i10 i11 i12 i13 i14 i15 i_sabbr i16).
Proof.
  intros Hb. intros.
  assert (Hf : (length spec < sp_fuel spec)%nat) by (unfold sp_fuel; lia).
  generalize dependent (sp_fuel spec). intros fuel Hf.
  assert (V0 : valid spec 0) by (unfold valid, blen; lia).
  unfold ParsePosixSpec, ParsePosixSpec_gen, sp_ParsePosixSpec. cbv zeta.
  change (c_str spec) with (suffix spec 0).
  change (nthZ src_posix_offset_hours 0) with 0. change (nthZ src_posix_offset_hours 1) with 24.
  rewrite (rd_suffix spec 0 V0). cbn [bind].
  destruct (deref (suffix spec 0) =? 58) eqn:E58; [top_false|].
  pose proof (ParseAbbr_tie spec fuel 0 i_sabbr V0 Hf Hb) as TA.
  destruct (posix_parse_abbr (suffix spec 0)) as [[sabbr r1]|].
  2:{ rewrite TA. cbn [bind]. rewrite ParseOffset_null. cbn [bind].
      change (-1 =? -1) with true. unfold posix_parse_offset. top_false. }
  destruct TA as (q1 & E1 & R1 & V1). rewrite E1. cbn [bind]. subst r1. cbv iota.
  pose proof (ParseOffset_tie spec fuel q1 0 24 (-1) i16 V1 Hf ltac:(lia) ltac:(lia)) as TO.
  destruct (posix_parse_offset (Some (suffix spec q1)) 0 24 (-1)) as [[soff r2]|].
  2:{ rewrite TO. cbn [bind]. change (-1 =? -1) with true. top_false. }
  destruct TO as (q2 & E2 & R2 & V2 & B2). rewrite E2. cbn [bind]. subst r2.
  destruct (q2 =? -1) eqn:Eq2; [unfold valid in V2; lia|].
  rewrite match_nil_suffix, (rd_suffix spec q2 V2). cbn [bind].
  destruct (deref (suffix spec q2) =? 0) eqn:E0.
  { unfold top_rel. do 19 eexists. split; [reflexivity|].
    cbn [std_abbr std_offset dst_abbr]. repeat split. left. reflexivity. }
  pose proof (ParseAbbr_tie spec fuel q2 i_dabbr V2 Hf Hb) as TB.
  destruct (posix_parse_abbr (suffix spec q2)) as [[dabbr r3]|].
  2:{ rewrite TB. cbn [bind]. change (-1 =? -1) with true. top_false. }
  destruct TB as (q3 & E3 & R3 & V3). rewrite E3. cbn [bind]. subst r3.
  destruct (q3 =? -1) eqn:Eq3; [unfold valid in V3; lia|].
  unfold mul32. rewrite chk32_in by (unfold int32, min32, max32; lia). cbn [bind].
  unfold add64. rewrite chk64_in by (unfold int64, min64, max64; lia). cbn [bind].
  rewrite (rd_suffix spec q3 V3). cbn [bind].
  change src_posix_default_dst_delta with (60 * 60).
  destruct (deref (suffix spec q3) =? 44) eqn:E44; cbn [negb bind].
  - top_dt spec fuel q3 V3 Hf.
  - match goal with |- context [sp_ParseOffset fuel spec q3 0 24 (-1) ?o] =>
      pose proof (ParseOffset_tie spec fuel q3 0 24 (-1) o V3 Hf ltac:(lia) ltac:(lia)) as TO end.
    destruct (posix_parse_offset (Some (suffix spec q3)) 0 24 (-1)) as [[doff r4]|].
    + destruct TO as (q4 & E4 & R4 & V4 & B4). rewrite E4. cbn [bind]. subst r4.
      top_dt spec fuel q4 V4 Hf.
    + rewrite TO. cbn [bind]. rewrite !ParseDateTime_null. cbn [bind].
      change (-1 =? -1) with true. cbn [negb bind]. top_false.
Qed.

(* for every list of integers shorter than 2^64 (no byte-range hypothesis needed) *)
Theorem sp_ParsePosixSpec_tie_any : forall spec, Z.of_nat (length spec) < 2 ^ 64 ->
  forall (i_dabbr : list Z) (i1 i2 i3 i4 i5 i6 i7 i8 i9 i10 i11 i12 i13 i14 i15 : Z) (i_sabbr : list Z) (i16 : Z),
  exists ok dabbr e_fmt e_j e_mm e_mw e_mwd e_n e_t doff s_fmt s_j s_mm s_mw s_mwd s_n s_t sabbr soff,
    sp_ParsePosixSpec (sp_fuel spec) spec i_dabbr i1 i2 i3 i4 i5 i6 i7 i8 i9 i10 i11 i12 i13 i14 i15 i_sabbr i16
      = OK (ok, dabbr, e_fmt, e_j, e_mm, e_mw, e_mwd, e_n, e_t, doff, s_fmt, s_j, s_mm, s_mw, s_mwd, s_n, s_t, sabbr, soff) /\
    match ParsePosixSpec spec with
    | None => ok = false
    | Some z => ok = true /\ sabbr = std_abbr z /\ std_offset z = Some soff /\
        (dst_abbr z = [] \/
         (dabbr = dst_abbr z /\ dst_offset z = Some doff /\
          agrees_trans (dst_start z) s_fmt s_j s_mm s_mw s_mwd s_n s_t /\
          agrees_trans (dst_end z) e_fmt e_j e_mm e_mw e_mwd e_n e_t))
    end.
Proof. intros spec Hb. intros. apply top_tie. exact Hb. Qed.

Theorem sp_ParsePosixSpec_tie : forall spec, bytes_ok spec -> Z.of_nat (length spec) < 2 ^ 64 ->
  forall (i_dabbr : list Z) (i1 i2 i3 i4 i5 i6 i7 i8 i9 i10 i11 i12 i13 i14 i15 : Z) (i_sabbr : list Z) (i16 : Z),
  exists ok dabbr e_fmt e_j e_mm e_mw e_mwd e_n e_t doff s_fmt s_j s_mm s_mw s_mwd s_n s_t sabbr soff,
    sp_ParsePosixSpec (sp_fuel spec) spec i_dabbr i1 i2 i3 i4 i5 i6 i7 i8 i9 i10 i11 i12 i13 i14 i15 i_sabbr i16
      = OK (ok, dabbr, e_fmt, e_j, e_mm, e_mw, e_mwd, e_n, e_t, doff, s_fmt, s_j, s_mm, s_mw, s_mwd, s_n, s_t, sabbr, soff) /\
    match ParsePosixSpec spec with
    | None => ok = false
    | Some z => ok = true /\ sabbr = std_abbr z /\ std_offset z = Some soff /\
        (dst_abbr z = [] \/
         (dabbr = dst_abbr z /\ dst_offset z = Some doff /\
          agrees_trans (dst_start z) s_fmt s_j s_mm s_mw s_mwd s_n s_t /\
          agrees_trans (dst_end z) e_fmt e_j e_mm e_mw e_mwd e_n e_t))
    end.
Proof. intros spec _. apply sp_ParsePosixSpec_tie_any. Qed.

(* the source-derived parser never errs *)
Corollary sp_ParsePosixSpec_total : forall spec, Z.of_nat (length spec) < 2 ^ 64 ->
  forall (i_dabbr : list Z) (i1 i2 i3 i4 i5 i6 i7 i8 i9 i10 i11 i12 i13 i14 i15 : Z) (i_sabbr : list Z) (i16 : Z),
  is_ok (sp_ParsePosixSpec (sp_fuel spec) spec i_dabbr i1 i2 i3 i4 i5 i6 i7 i8 i9 i10 i11 i12 i13 i14 i15 i_sabbr i16) = true.
Proof.
  intros spec Hb. intros.
  destruct (sp_ParsePosixSpec_tie_any spec Hb i_dabbr i1 i2 i3 i4 i5 i6 i7 i8 i9 i10 i11 i12 i13 i14 i15 i_sabbr i16)
    as (ok & ? & ? & ? & ? & ? & ? & ? & ? & ? & ? & ? & ? & ? & ? & ? & ? & ? & ? & E & _).
  rewrite E. reflexivity.
Qed.

(* ------------------------------------------------------------------ *)
(* Sanity: concrete strings, both sides computed (regression for the reading of the tuple order). *)

(* "EST5EDT,M3.2.0/2,M11.1.0" *)
Example tie_ex_full :
  let s := [69;83;84;53;69;68;84;44;77;51;46;50;46;48;47;50;44;77;49;49;46;49;46;48] in
  sp_ParsePosixSpec (sp_fuel s) s [] 9 9 9 9 9 9 9 9 9 9 9 9 9 9 9 [] 9 =
    OK (true, [69;68;84], 2, 9, 11, 1, 0, 9, 7200, -14400, 2, 9, 3, 2, 0, 9, 7200, [69;83;84], -18000) /\
  ParsePosixSpec s =
    Some (mkPTZ [69;83;84] (Some (-18000)) [69;68;84] (Some (-14400))
            (mkPT (Some (DM 3 2 0)) (Some 7200)) (mkPT (Some (DM 11 1 0)) (Some 7200))).
Proof. vm_compute. split; reflexivity. Qed.

(* "<+03>-3<+04>,J60/0,300" *)
Example tie_ex_bracket :
  let s := [60;43;48;51;62;45;51;60;43;48;52;62;44;74;54;48;47;48;44;51;48;48] in
  sp_ParsePosixSpec (sp_fuel s) s [] 9 9 9 9 9 9 9 9 9 9 9 9 9 9 9 [] 9 =
    OK (true, [43;48;52], 1, 9, 9, 9, 9, 300, 7200, 14400, 0, 60, 9, 9, 9, 9, 0, [43;48;51], 10800) /\
  ParsePosixSpec s =
    Some (mkPTZ [43;48;51] (Some 10800) [43;48;52] (Some 14400)
            (mkPT (Some (DJ 60)) (Some 0)) (mkPT (Some (DN 300)) (Some 7200))).
Proof. vm_compute. split; reflexivity. Qed.

(* embedded NUL: "UTC0\0junk" is accepted as "UTC0"; "<+03\0>-3" is rejected *)
Example tie_ex_nul :
  let s := [85;84;67;48;0;106;117;110;107] in
  sp_ParsePosixSpec (sp_fuel s) s [] 9 9 9 9 9 9 9 9 9 9 9 9 9 9 9 [] 9 =
    OK (true, [], 9, 9, 9, 9, 9, 9, 9, 9, 9, 9, 9, 9, 9, 9, 9, [85;84;67], 0) /\
  ParsePosixSpec s = Some (mkPTZ [85;84;67] (Some 0) [] None pt_unset pt_unset) /\
  let s' := [60;43;48;51;0;62;45;51] in
  sp_ParsePosixSpec (sp_fuel s') s' [] 9 9 9 9 9 9 9 9 9 9 9 9 9 9 9 [] 9 =
    OK (false, [], 9, 9, 9, 9, 9, 9, 9, 9, 9, 9, 9, 9, 9, 9, 9, [], 9) /\
  ParsePosixSpec s' = None.
Proof. vm_compute. repeat split; reflexivity. Qed.

Print Assumptions sp_ParsePosixSpec_tie.
