(* FinishProofs.v — (1) parse()'s post-processing (ParseImpl.parse_finish)
   returns exactly the instant the scanned fields denote (FinishDefs.finish_expected)
   whenever an offset was parsed or the zone is UTC; (2) the RFC 3339 family
   format "%Y-%m-%dT%H:%M:%E*S%E*z" round-trips through format_impl / parse_impl
   for every instant and every femtosecond value. *)
From CCTZ Require Import Base SrcConstants Cal CivilImpl PosixImpl FixedImpl ZoneLoad ZoneImpl
  ZoneZ ZoneHist ZoneRefineDefs FormatImpl ParseImpl FinishDefs.
From CCTZ Require Import CalProofs CivilNorm CivilDiff ZoneZProofs ZoneRefine.
Require Import Lia ZifyBool.
Local Open Scope Z_scope.
Local Ltac Zify.zify_post_hook ::= idtac.

Local Notation cos := civil_of_seconds.

(* ================================================================== *)
(* A zone whose offset is identically zero: MakeTime is the identity   *)

Lemma zmake_const_zero z L : wfz z = true -> (forall t, zoff z t = 0) ->
  zk (zmake z L) = ZU /\ zpre (zmake z L) = L.
Proof.
  intros Hwf H0. pose proof (zmake_spec_lemma z L Hwf) as S. cbv zeta in S.
  destruct (zk (zmake z L)).
  - destruct S as (_ & _ & D & _). unfold displays in D. rewrite H0 in D. split; [reflexivity|lia].
  - destruct S as (N & _). exfalso. apply (N L). unfold displays. rewrite H0. lia.
  - destruct S as (_ & _ & _ & _ & N & _). exfalso. apply N. rewrite !H0. reflexivity.
Qed.

(* ================================================================== *)
(* Normalisation of in-range fields                                    *)

Lemma norm_sec_plain y m d hh mm ss : 1 <= m <= 12 ->
  norm_sec y m d hh mm ss = days_from_civil y m d * 86400 + hh * 3600 + mm * 60 + ss.
Proof.
  intros Hm. unfold norm_sec. destruct (carry_id y m Hm) as [-> ->].
  rewrite (dfc_day y m d). reflexivity.
Qed.

Lemma norm_valid y m d hh mm ss : 1 <= m <= 12 -> 0 <= hh <= 23 -> 0 <= mm <= 59 -> 0 <= ss <= 59 ->
  valid_date y m d = true -> norm_spec y m d hh mm ss = mkF y m d hh mm ss.
Proof.
  intros Hm Hh Hmi Hs V. unfold norm_spec. rewrite norm_sec_plain by assumption.
  apply cos_split; try lia. apply cod_dfc. exact V.
Qed.

Lemma norm_invalid y m d hh mm ss : 1 <= m <= 12 -> 1 <= d <= 31 ->
  0 <= hh <= 23 -> 0 <= mm <= 59 -> 0 <= ss <= 59 ->
  valid_date y m d = false ->
  m < 12 /\ norm_spec y m d hh mm ss = mkF y (m + 1) (d - days_in_month y m) hh mm ss.
Proof.
  intros Hm Hd Hh Hmi Hs V.
  pose proof (dim_range y m) as R.
  assert (days_in_month y m < d) as Hgt.
  { destruct (Z_lt_le_dec (days_in_month y m) d) as [G|G]; [exact G|].
    rewrite (valid_date_intro y m d) in V by lia. discriminate. }
  assert (m < 12) as Hlt.
  { destruct (Z.eq_dec m 12) as [->|]; [|lia]. change (days_in_month y 12) with 31 in Hgt. lia. }
  split; [exact Hlt|].
  unfold norm_spec. rewrite norm_sec_plain by assumption.
  assert (days_from_civil y m d = days_from_civil y (m + 1) (d - days_in_month y m)) as ->.
  { rewrite (dfc_day y m d), (dfc_day y (m + 1) (d - days_in_month y m)).
    rewrite dfc_month_step by lia. lia. }
  apply cos_split; try lia. apply cod_dfc.
  pose proof (dim_range y (m + 1)). apply valid_date_intro; lia.
Qed.

(* ================================================================== *)
(* civil_second::max() / min() on the integer civil time line           *)

Definition MX : Z := sec_of civil_max64.
Definition MN : Z := sec_of civil_min64.

Lemma valid_cmax : valid_fields civil_max64 = true.
Proof. vm_compute. reflexivity. Qed.
Lemma valid_cmin : valid_fields civil_min64 = true.
Proof. vm_compute. reflexivity. Qed.
Lemma cos_MX : cos MX = civil_max64.
Proof. apply cos_sec_of. exact valid_cmax. Qed.
Lemma cos_MN : cos MN = civil_min64.
Proof. apply cos_sec_of. exact valid_cmin. Qed.
Lemma MX_big : max64 + 86400 < MX.
Proof. apply Z.ltb_lt. vm_compute. reflexivity. Qed.
Lemma MN_small : MN < min64 - 86400.
Proof. apply Z.ltb_lt. vm_compute. reflexivity. Qed.

Lemma year_between s : MN <= s <= MX -> int64 (fy (cos s)).
Proof.
  intros H.
  pose proof (cos_year_mono MN s ltac:(lia)) as L1.
  pose proof (cos_year_mono s MX ltac:(lia)) as L2.
  rewrite cos_MN in L1. rewrite cos_MX in L2. cbn [fy civil_min64 civil_max64] in L1, L2.
  unfold int64. lia.
Qed.

Lemma i64_min : int64 min64. Proof. unfold int64, min64, max64; lia. Qed.
Lemma i64_max : int64 max64. Proof. unfold int64, min64, max64; lia. Qed.

Lemma plus_cmax off : int64 off -> int64 (fy (cos (MX + off))) ->
  plus64 0 civil_max64 off = OK (cos (MX + off)).
Proof.
  intros Io IY.
  pose proof (plus_refines_lemma 0 civil_max64 off ltac:(lia) valid_cmax (align0 _) i64_max Io) as P.
  rewrite ord0, oford0 in P. exact (P IY).
Qed.
Lemma plus_cmin off : int64 off -> int64 (fy (cos (MN + off))) ->
  plus64 0 civil_min64 off = OK (cos (MN + off)).
Proof.
  intros Io IY.
  pose proof (plus_refines_lemma 0 civil_min64 off ltac:(lia) valid_cmin (align0 _) i64_min Io) as P.
  rewrite ord0, oford0 in P. exact (P IY).
Qed.

(* ================================================================== *)
(* The tail of parse_finish, from the civil_second constructor on      *)

Definition finish_tail (ptz : zone) (year month mday hh mi ss offset subsec : Z) : res (option (Z * Z)) :=
  do cs <- construct64 0 year month mday hh mi ss ;;
  if negb (fm cs =? month) || negb (fd cs =? mday) then OK None
  else
    do guard <-
      (if offset <? 0 then (do lim <- plus64 0 civil_max64 offset ;; OK (lt64 lim cs))
       else if 0 <? offset then (do lim <- plus64 0 civil_min64 offset ;; OK (lt64 cs lim))
       else OK false) ;;
    if guard then OK None
    else
      do cs' <- minus64 0 cs offset ;;
      do '(cl, _) <- make_time ptz 0 cs' ;;
      let tp := cl_pre cl in
      do over <-
        (if tp =? max64 then
           (do '(al, _) <- break_time ptz 0 max64 ;; OK (lt64 (al_cs al) cs'))
         else OK false) ;;
      do under <-
        (if tp =? min64 then
           (do '(al, _) <- break_time ptz 0 min64 ;; OK (lt64 cs' (al_cs al)))
         else OK false) ;;
      if over || under then OK None else OK (Some (tp, subsec)).

Lemma finish_tail_correct utc y m d hh mm ss off sub :
  reset_to_builtin_utc 0 = OK utc ->
  int64 y -> 1 <= m <= 12 -> 1 <= d <= 31 -> 0 <= hh <= 23 -> 0 <= mm <= 59 -> 0 <= ss <= 59 ->
  -86400 <= off <= 86400 ->
  finish_tail utc y m d hh mm ss off sub =
  OK (let t := days_from_civil y m d * 86400 + hh * 3600 + mm * 60 + ss - off in
      if valid_date y m d && in64 t then Some (t, sub) else None).
Proof.
  intros Hutc Hy Hm Hd Hh Hmi Hs Hoff.
  destruct (fixed_zone_ok_lemma 0 ltac:(lia)) as (z & Hz & Hok & Hext & Hzoff & _).
  rewrite Hutc in Hz. inversion Hz; subst z. clear Hz.
  assert (Hwf : wfz (abs_zone utc) = true).
  { unfold zone_ok in Hok. rewrite !andb_true_iff in Hok. tauto. }
  cbv zeta. unfold finish_tail.
  assert (I8 : forall v, -128 <= v <= 127 -> int64 v) by (unfold int64, min64, max64; lia).
  destruct (valid_date y m d) eqn:V.
  2:{ (* the date does not exist: the constructor normalises into the next month *)
    destruct (norm_invalid y m d hh mm ss Hm Hd Hh Hmi Hs V) as [Hlt E].
    rewrite (construct_refines_lemma 0 y m d hh mm ss); try (apply I8; lia); try assumption.
    - rewrite E. cbn [bind align_spec fm fd].
      destruct (Z.eqb_spec (m + 1) m) as [X|_]; [lia|]. reflexivity.
    - destruct (carry_id y m Hm) as [-> _]. exact Hy.
    - rewrite E. exact Hy. }
  pose proof (norm_valid y m d hh mm ss Hm Hh Hmi Hs V) as E.
  rewrite (construct_refines_lemma 0 y m d hh mm ss); try (apply I8; lia); try assumption.
  2:{ destruct (carry_id y m Hm) as [-> _]. exact Hy. }
  2:{ rewrite E. exact Hy. }
  rewrite E. cbn [bind align_spec fm fd]. rewrite !Z.eqb_refl. cbn [negb orb].
  set (f := mkF y m d hh mm ss).
  assert (Vf : valid_fields f = true) by (apply valid_fields_intro; cbn [f fy fm fd fhh fmm fss]; auto).
  assert (Yf : int64 (fy f)) by exact Hy.
  change (days_from_civil y m d * 86400 + hh * 3600 + mm * 60 + ss) with (sec_of f).
  set (Lc := sec_of f).
  assert (Ef : cos Lc = f) by (apply cos_sec_of; exact Vf).
  assert (Io : int64 off) by (unfold int64, min64, max64; lia).
  pose proof MX_big as BX. pose proof MN_small as BN. unfold min64, max64 in BX, BN.
  cbn [andb].
  (* the guard *)
  assert (G : exists g,
     (if off <? 0 then (do lim <- plus64 0 civil_max64 off ;; OK (lt64 lim f))
      else if 0 <? off then (do lim <- plus64 0 civil_min64 off ;; OK (lt64 f lim))
      else OK false) = OK g /\
     (g = true -> in64 (Lc - off) = false) /\
     (g = false -> int64 (fy (cos (Lc - off))))).
  { destruct (Z.ltb_spec off 0) as [O1|O1].
    - assert (int64 (fy (cos (MX + off)))) as IY by (apply year_between; lia).
      rewrite (plus_cmax off Io IY). cbn [bind].
      rewrite lt_r by exact Vf. fold Lc.
      eexists; split; [reflexivity|]. split; intros Hg.
      + apply Z.ltb_lt in Hg. unfold in64. lia.
      + apply Z.ltb_ge in Hg.
        pose proof (cos_year_mono Lc (Lc - off) ltac:(lia)) as M1.
        pose proof (cos_year_mono (Lc - off) MX ltac:(lia)) as M2.
        rewrite Ef in M1. rewrite cos_MX in M2. cbn [fy civil_max64 f] in M1, M2.
        unfold int64 in *. lia.
    - destruct (Z.ltb_spec 0 off) as [O2|O2].
      + assert (int64 (fy (cos (MN + off)))) as IY by (apply year_between; lia).
        rewrite (plus_cmin off Io IY). cbn [bind].
        rewrite lt_l by exact Vf. fold Lc.
        eexists; split; [reflexivity|]. split; intros Hg.
        * apply Z.ltb_lt in Hg. unfold in64. lia.
        * apply Z.ltb_ge in Hg.
          pose proof (cos_year_mono (Lc - off) Lc ltac:(lia)) as M1.
          pose proof (cos_year_mono MN (Lc - off) ltac:(lia)) as M2.
          rewrite Ef in M1. rewrite cos_MN in M2. cbn [fy civil_min64 f] in M1, M2.
          unfold int64 in *. lia.
      + eexists; split; [reflexivity|]. split; [discriminate|]. intros _.
        assert (off = 0) as -> by lia. rewrite Z.sub_0_r, Ef. exact Hy. }
  destruct G as (g & -> & Gt & Gf). cbn [bind].
  destruct g.
  { rewrite (Gt eq_refl). reflexivity. }
  specialize (Gf eq_refl).
  pose proof (minus_refines_lemma 0 f off ltac:(lia) Vf (align0 _) Yf Io) as P.
  rewrite ord0, oford0 in P. fold Lc in P. rewrite (P Gf). cbn [bind]. clear P.
  set (s' := Lc - off) in *.
  destruct (make_refines_lemma utc 0 (cos s') Hok (valid_cos s') Gf (or_introl Hext)) as (h' & HM).
  cbv zeta in HM. rewrite sec_of_cos in HM.
  destruct (zmake_const_zero (abs_zone utc) s' Hwf Hzoff) as [_ Zp].
  rewrite HM, Zp. cbn [bind cl_pre]. clear HM.
  destruct (break_refines_lemma utc 0 max64 Hok i64_max (or_introl Hext)) as (h1 & d1 & a1 & B1 & _).
  destruct (break_refines_lemma utc 0 min64 Hok i64_min (or_introl Hext)) as (h2 & d2 & a2 & B2 & _).
  rewrite Hzoff in B1, B2. rewrite B1, B2. cbn [bind al_cs]. rewrite !lt_cc.
  unfold clamp', in64.
  destruct (Z.eqb_spec (Z.max min64 (Z.min max64 s')) max64) as [E1|E1];
  destruct (Z.eqb_spec (Z.max min64 (Z.min max64 s')) min64) as [E2|E2]; cbn [bind].
  - unfold min64, max64 in *. lia.
  - destruct (Z.ltb_spec (max64 + 0) s') as [C|C]; cbn [orb].
    + replace (s' <=? max64) with false by lia. rewrite andb_false_r. reflexivity.
    + replace (Z.max min64 (Z.min max64 s')) with s' by (unfold min64, max64 in *; lia).
      replace (s' <=? max64) with true by lia.
      replace (min64 <=? s') with true by (unfold min64, max64 in *; lia). reflexivity.
  - destruct (Z.ltb_spec s' (min64 + 0)) as [C|C]; cbn [orb].
    + replace (min64 <=? s') with false by lia. reflexivity.
    + replace (Z.max min64 (Z.min max64 s')) with s' by (unfold min64, max64 in *; lia).
      replace (s' <=? max64) with true by (unfold min64, max64 in *; lia).
      replace (min64 <=? s') with true by lia. reflexivity.
  - cbn [orb].
    replace (Z.max min64 (Z.min max64 s')) with s' by (unfold min64, max64 in *; lia).
    replace (s' <=? max64) with true by (unfold min64, max64 in *; lia).
    replace (min64 <=? s') with true by (unfold min64, max64 in *; lia). reflexivity.
Qed.
