(* FinishProofs.v — (1) parse()'s post-processing (ParseImpl.parse_finish)
   returns exactly the instant the scanned fields denote (FinishDefs.finish_expected)
   whenever an offset was parsed or the zone is UTC; (2) the RFC 3339 family
   format "%Y-%m-%dT%H:%M:%E*S%E*z" round-trips through format_impl / parse_impl
   for every instant and every femtosecond value. *)
From CCTZ Require Import Base SrcConstants Cal CivilImpl PosixImpl FixedImpl ZoneLoad ZoneImpl
  ZoneZ ZoneHist ZoneRefineDefs FormatImpl ParseImpl FinishDefs.
From CCTZ Require Import CalProofs CivilNorm CivilDiff ZoneZProofs ZoneRefine.
From CCTZ Require Import FmtSpec ParseProofs FmtProofs.
Require Import Lia ZifyBool.
Local Open Scope Z_scope.
Local Ltac Zify.zify_post_hook ::= idtac.

Local Notation cos := civil_of_seconds.

(* ================================================================== *)
(* A zone whose offset is identically zero: MakeTime is the identity   *)

Lemma zmake_const_zero z L : wfz z = true -> (forall t, zoff z t = 0) ->
  zk (zmake z L) = ZU /\ zpre (zmake z L) = L.
Proof.
  intros Hwf H0. pose proof (zmake_spec_lemma z L Hwf) as S. cbv zeta in S.
  destruct (zk (zmake z L)).
  - destruct S as (_ & _ & D & _). unfold displays in D. rewrite H0 in D. split; [reflexivity|lia].
  - destruct S as (N & _). exfalso. apply (N L). unfold displays. rewrite H0. lia.
  - destruct S as (_ & _ & _ & _ & N & _). exfalso. apply N. rewrite !H0. reflexivity.
Qed.

(* ================================================================== *)
(* Normalisation of in-range fields                                    *)

Lemma norm_sec_plain y m d hh mm ss : 1 <= m <= 12 ->
  norm_sec y m d hh mm ss = days_from_civil y m d * 86400 + hh * 3600 + mm * 60 + ss.
Proof.
  intros Hm. unfold norm_sec. destruct (carry_id y m Hm) as [-> ->].
  rewrite (dfc_day y m d). reflexivity.
Qed.

Lemma norm_valid y m d hh mm ss : 1 <= m <= 12 -> 0 <= hh <= 23 -> 0 <= mm <= 59 -> 0 <= ss <= 59 ->
  valid_date y m d = true -> norm_spec y m d hh mm ss = mkF y m d hh mm ss.
Proof.
  intros Hm Hh Hmi Hs V. unfold norm_spec. rewrite norm_sec_plain by assumption.
  apply cos_split; try lia. apply cod_dfc. exact V.
Qed.

Lemma norm_invalid y m d hh mm ss : 1 <= m <= 12 -> 1 <= d <= 31 ->
  0 <= hh <= 23 -> 0 <= mm <= 59 -> 0 <= ss <= 59 ->
  valid_date y m d = false ->
  m < 12 /\ norm_spec y m d hh mm ss = mkF y (m + 1) (d - days_in_month y m) hh mm ss.
Proof.
  intros Hm Hd Hh Hmi Hs V.
  pose proof (dim_range y m) as R.
  assert (days_in_month y m < d) as Hgt.
  { destruct (Z_lt_le_dec (days_in_month y m) d) as [G|G]; [exact G|].
    rewrite (valid_date_intro y m d) in V by lia. discriminate. }
  assert (m < 12) as Hlt.
  { destruct (Z.eq_dec m 12) as [->|]; [|lia]. change (days_in_month y 12) with 31 in Hgt. lia. }
  split; [exact Hlt|].
  unfold norm_spec. rewrite norm_sec_plain by assumption.
  assert (days_from_civil y m d = days_from_civil y (m + 1) (d - days_in_month y m)) as ->.
  { rewrite (dfc_day y m d), (dfc_day y (m + 1) (d - days_in_month y m)).
    rewrite dfc_month_step by lia. lia. }
  apply cos_split; try lia. apply cod_dfc.
  pose proof (dim_range y (m + 1)). apply valid_date_intro; lia.
Qed.

(* ================================================================== *)
(* civil_second::max() / min() on the integer civil time line           *)

Definition MX : Z := 291061508645168328976559999.
Definition MN : Z := -291061508645168453310998400.

Lemma valid_cmax : valid_fields civil_max64 = true.
Proof. vm_compute. reflexivity. Qed.
Lemma valid_cmin : valid_fields civil_min64 = true.
Proof. vm_compute. reflexivity. Qed.
Lemma MX_eq : sec_of civil_max64 = MX. Proof. vm_compute. reflexivity. Qed.
Lemma MN_eq : sec_of civil_min64 = MN. Proof. vm_compute. reflexivity. Qed.
Lemma cos_MX : cos MX = civil_max64.
Proof. rewrite <- MX_eq. apply cos_sec_of. exact valid_cmax. Qed.
Lemma cos_MN : cos MN = civil_min64.
Proof. rewrite <- MN_eq. apply cos_sec_of. exact valid_cmin. Qed.
Lemma MX_big : max64 + 86400 < MX.
Proof. apply Z.ltb_lt. vm_compute. reflexivity. Qed.
Lemma MN_small : MN < min64 - 86400.
Proof. apply Z.ltb_lt. vm_compute. reflexivity. Qed.
Global Opaque MX MN.

Lemma year_between s : MN <= s <= MX -> int64 (fy (cos s)).
Proof.
  intros H.
  pose proof (cos_year_mono MN s ltac:(lia)) as L1.
  pose proof (cos_year_mono s MX ltac:(lia)) as L2.
  rewrite cos_MN in L1. rewrite cos_MX in L2. cbn [fy civil_min64 civil_max64] in L1, L2.
  unfold int64. lia.
Qed.

Lemma i64_min : int64 min64. Proof. unfold int64, min64, max64; lia. Qed.
Lemma i64_max : int64 max64. Proof. unfold int64, min64, max64; lia. Qed.

Lemma plus_cmax off : int64 off -> int64 (fy (cos (MX + off))) ->
  plus64 0 civil_max64 off = OK (cos (MX + off)).
Proof.
  intros Io IY.
  pose proof (plus_refines_lemma 0 civil_max64 off ltac:(lia) valid_cmax (align0 _) i64_max Io) as P.
  rewrite ord0, oford0, MX_eq in P. exact (P IY).
Qed.
Lemma plus_cmin off : int64 off -> int64 (fy (cos (MN + off))) ->
  plus64 0 civil_min64 off = OK (cos (MN + off)).
Proof.
  intros Io IY.
  pose proof (plus_refines_lemma 0 civil_min64 off ltac:(lia) valid_cmin (align0 _) i64_min Io) as P.
  rewrite ord0, oford0, MN_eq in P. exact (P IY).
Qed.

(* ================================================================== *)
(* The tail of parse_finish, from the civil_second constructor on      *)

Definition finish_tail (ptz : zone) (year month mday hh mi ss offset subsec : Z) : res (option (Z * Z)) :=
  do cs <- construct64 0 year month mday hh mi ss ;;
  if negb (fm cs =? month) || negb (fd cs =? mday) then OK None
  else
    do guard <-
      (if offset <? 0 then (do lim <- plus64 0 civil_max64 offset ;; OK (lt64 lim cs))
       else if 0 <? offset then (do lim <- plus64 0 civil_min64 offset ;; OK (lt64 cs lim))
       else OK false) ;;
    if guard then OK None
    else
      do cs' <- minus64 0 cs offset ;;
      do '(cl, _) <- make_time ptz 0 cs' ;;
      let tp := cl_pre cl in
      do over <-
        (if tp =? max64 then
           (do '(al, _) <- break_time ptz 0 max64 ;; OK (lt64 (al_cs al) cs'))
         else OK false) ;;
      do under <-
        (if tp =? min64 then
           (do '(al, _) <- break_time ptz 0 min64 ;; OK (lt64 cs' (al_cs al)))
         else OK false) ;;
      if over || under then OK None else OK (Some (tp, subsec)).

Lemma finish_tail_correct utc y m d hh mm ss off sub :
  reset_to_builtin_utc 0 = OK utc ->
  int64 y -> 1 <= m <= 12 -> 1 <= d <= 31 -> 0 <= hh <= 23 -> 0 <= mm <= 59 -> 0 <= ss <= 59 ->
  -86400 <= off <= 86400 ->
  finish_tail utc y m d hh mm ss off sub =
  OK (let t := days_from_civil y m d * 86400 + hh * 3600 + mm * 60 + ss - off in
      if valid_date y m d && in64 t then Some (t, sub) else None).
Proof.
  intros Hutc Hy Hm Hd Hh Hmi Hs Hoff.
  destruct (fixed_zone_ok_lemma 0 ltac:(lia)) as (z & Hz & Hok & Hext & Hzoff & _).
  rewrite Hutc in Hz. inversion Hz; subst z. clear Hz.
  assert (Hwf : wfz (abs_zone utc) = true).
  { unfold zone_ok in Hok. rewrite !andb_true_iff in Hok. tauto. }
  cbv zeta. unfold finish_tail.
  assert (I8 : forall v, -128 <= v <= 127 -> int64 v) by (unfold int64, min64, max64; lia).
  destruct (valid_date y m d) eqn:V.
  2:{ (* the date does not exist: the constructor normalises into the next month *)
    destruct (norm_invalid y m d hh mm ss Hm Hd Hh Hmi Hs V) as [Hlt E].
    rewrite (construct_refines_lemma 0 y m d hh mm ss); try (apply I8; lia); try assumption.
    - rewrite E. cbn [bind align_spec fm fd].
      destruct (Z.eqb_spec (m + 1) m) as [X|_]; [lia|]. reflexivity.
    - destruct (carry_id y m Hm) as [-> _]. exact Hy.
    - rewrite E. exact Hy. }
  pose proof (norm_valid y m d hh mm ss Hm Hh Hmi Hs V) as E.
  rewrite (construct_refines_lemma 0 y m d hh mm ss); try (apply I8; lia); try assumption.
  2:{ destruct (carry_id y m Hm) as [-> _]. exact Hy. }
  2:{ rewrite E. exact Hy. }
  rewrite E. cbn [bind align_spec fm fd]. rewrite !Z.eqb_refl. cbn [negb orb].
  set (f := mkF y m d hh mm ss).
  assert (Vf : valid_fields f = true) by (apply valid_fields_intro; cbn [f fy fm fd fhh fmm fss]; auto).
  assert (Yf : int64 (fy f)) by exact Hy.
  change (days_from_civil y m d * 86400 + hh * 3600 + mm * 60 + ss) with (sec_of f).
  set (Lc := sec_of f).
  assert (Ef : cos Lc = f) by (apply cos_sec_of; exact Vf).
  assert (Io : int64 off) by (unfold int64, min64, max64; lia).
  pose proof MX_big as BX. pose proof MN_small as BN. unfold min64, max64 in BX, BN.
  cbn [andb].
  (* the guard *)
  assert (G : exists g,
     (if off <? 0 then (do lim <- plus64 0 civil_max64 off ;; OK (lt64 lim f))
      else if 0 <? off then (do lim <- plus64 0 civil_min64 off ;; OK (lt64 f lim))
      else OK false) = OK g /\
     (g = true -> in64 (Lc - off) = false) /\
     (g = false -> int64 (fy (cos (Lc - off))))).
  { destruct (Z.ltb_spec off 0) as [O1|O1].
    - assert (int64 (fy (cos (MX + off)))) as IY by (apply year_between; lia).
      rewrite (plus_cmax off Io IY). cbn [bind].
      rewrite lt_r by exact Vf. fold Lc.
      eexists; split; [reflexivity|]. split; intros Hg.
      + apply Z.ltb_lt in Hg. unfold in64, min64, max64. lia.
      + apply Z.ltb_ge in Hg.
        pose proof (cos_year_mono Lc (Lc - off) ltac:(lia)) as M1.
        pose proof (cos_year_mono (Lc - off) MX ltac:(lia)) as M2.
        rewrite Ef in M1. rewrite cos_MX in M2. cbn [fy civil_max64 f] in M1, M2.
        unfold int64 in *. lia.
    - destruct (Z.ltb_spec 0 off) as [O2|O2].
      + assert (int64 (fy (cos (MN + off)))) as IY by (apply year_between; lia).
        rewrite (plus_cmin off Io IY). cbn [bind].
        rewrite lt_l by exact Vf. fold Lc.
        eexists; split; [reflexivity|]. split; intros Hg.
        * apply Z.ltb_lt in Hg. unfold in64, min64, max64. lia.
        * apply Z.ltb_ge in Hg.
          pose proof (cos_year_mono (Lc - off) Lc ltac:(lia)) as M1.
          pose proof (cos_year_mono MN (Lc - off) ltac:(lia)) as M2.
          rewrite Ef in M1. rewrite cos_MN in M2. cbn [fy civil_min64 f] in M1, M2.
          unfold int64 in *. lia.
      + eexists; split; [reflexivity|]. split; [discriminate|]. intros _.
        assert (off = 0) as -> by lia. rewrite Z.sub_0_r, Ef. exact Hy. }
  destruct G as (g & -> & Gt & Gf). cbn [bind].
  destruct g.
  { rewrite (Gt eq_refl). reflexivity. }
  specialize (Gf eq_refl).
  pose proof (minus_refines_lemma 0 f off ltac:(lia) Vf (align0 _) Yf Io) as P.
  rewrite ord0, oford0 in P. fold Lc in P. rewrite (P Gf). cbn [bind]. clear P.
  set (s' := Lc - off) in *.
  destruct (make_refines_lemma utc 0 (cos s') Hok (valid_cos s') Gf (or_introl Hext)) as (h' & HM).
  cbv zeta in HM. rewrite sec_of_cos in HM.
  destruct (zmake_const_zero (abs_zone utc) s' Hwf Hzoff) as [_ Zp].
  rewrite HM, Zp. cbn [bind cl_pre]. clear HM.
  destruct (break_refines_lemma utc 0 max64 Hok i64_max (or_introl Hext)) as (h1 & d1 & a1 & B1 & _).
  destruct (break_refines_lemma utc 0 min64 Hok i64_min (or_introl Hext)) as (h2 & d2 & a2 & B2 & _).
  rewrite Hzoff in B1, B2. rewrite B1, B2. cbn [bind al_cs]. rewrite !lt_cc.
  unfold clamp', in64.
  destruct (Z.eqb_spec (Z.max min64 (Z.min max64 s')) max64) as [E1|E1];
  destruct (Z.eqb_spec (Z.max min64 (Z.min max64 s')) min64) as [E2|E2]; cbn [bind].
  - unfold min64, max64 in *. lia.
  - destruct (Z.ltb_spec (max64 + 0) s') as [C|C]; cbn [orb].
    + replace (s' <=? max64) with false by lia. rewrite andb_false_r. reflexivity.
    + replace (Z.max min64 (Z.min max64 s')) with s' by (unfold min64, max64 in *; lia).
      replace (s' <=? max64) with true by lia.
      replace (min64 <=? s') with true by (unfold min64, max64 in *; lia). reflexivity.
  - destruct (Z.ltb_spec s' (min64 + 0)) as [C|C]; cbn [orb].
    + replace (min64 <=? s') with false by lia. reflexivity.
    + replace (Z.max min64 (Z.min max64 s')) with s' by (unfold min64, max64 in *; lia).
      replace (s' <=? max64) with true by (unfold min64, max64 in *; lia).
      replace (min64 <=? s') with true by lia. reflexivity.
  - cbn [orb].
    replace (Z.max min64 (Z.min max64 s')) with s' by (unfold min64, max64 in *; lia).
    replace (s' <=? max64) with true by (unfold min64, max64 in *; lia).
    replace (min64 <=? s') with true by (unfold min64, max64 in *; lia). reflexivity.
Qed.

(* ================================================================== *)
(* Goal 1 (C09)                                                        *)

Lemma finish_utc_correct_lemma : forall tz utc data s,
  reset_to_builtin_utc 0 = OK utc ->
  (ps_saw_offset s = true \/ tz = utc) ->
  ps_saw_s s = false -> ps_week_num s = -1 ->
  skip_space data = [] ->
  0 <= tm_sec (ps_tm s) <= 60 -> 0 <= tm_min (ps_tm s) <= 59 -> 0 <= tm_hour (ps_tm s) <= 23 ->
  1 <= tm_mday (ps_tm s) <= 31 -> 0 <= tm_mon (ps_tm s) <= 11 ->
  -86399 <= ps_offset s <= 86399 -> int64 (ps_year s) -> -2147483648 <= tm_year (ps_tm s) <= 2147483647 ->
  (ps_twelve s && ps_afternoon s = false) ->
  parse_finish tz utc (Some (data, s)) = OK (finish_expected s).
Proof.
  intros tz utc data s Hutc Hz Hs Hw Hsp Rs Rmi Rh Rd Rmo Ro Ry Rty H12.
  unfold parse_finish, finish_expected. rewrite Hsp, Hs, Hw, H12. cbv zeta.
  cbn [andb]. change (negb (-1 =? -1)) with false. cbv iota.
  assert (Ep : (if ps_saw_offset s then utc else tz) = utc).
  { destruct Hz as [->| ->]; [reflexivity|]. destruct (ps_saw_offset s); reflexivity. }
  rewrite Ep. clear Ep.
  set (tm := ps_tm s) in *.
  assert (Iy : int64 (if ps_saw_year s then ps_year s else tm_year tm + 1900)).
  { destruct (ps_saw_year s); [exact Ry|]. unfold int64, min64, max64. lia. }
  destruct (Z.eqb_spec (tm_sec tm) 60) as [E60|N60].
  - (* ":60": second 59, offset - 1, zero fraction *)
    cbn [tm_with tm_year tm_sec tm_min tm_hour tm_mday tm_mon].
    assert (EY : (if ps_saw_year s then OK (Some (ps_year s))
                  else if max64 - 1900 <? tm_year tm then OK None else OK (Some (tm_year tm + 1900)))
                 = OK (Some (if ps_saw_year s then ps_year s else tm_year tm + 1900))).
    { destruct (ps_saw_year s); [reflexivity|].
      destruct (Z.ltb_spec (max64 - 1900) (tm_year tm)) as [C|C]; [unfold max64 in C; lia|reflexivity]. }
    rewrite EY. cbn [bind]. clear EY.
    cbn [tm_with tm_year tm_sec tm_min tm_hour tm_mday tm_mon].
    pose proof (finish_tail_correct utc _ (tm_mon tm + 1) (tm_mday tm) (tm_hour tm) (tm_min tm) 59
                  (ps_offset s - 1) 0 Hutc Iy ltac:(lia) Rd Rh Rmi ltac:(lia) ltac:(lia)) as T.
    unfold finish_tail in T. rewrite T. clear T. cbv zeta.
    replace (days_from_civil (if ps_saw_year s then ps_year s else tm_year tm + 1900) (tm_mon tm + 1) (tm_mday tm) * 86400 +
             tm_hour tm * 3600 + tm_min tm * 60 + 59 - (ps_offset s - 1))
      with (days_from_civil (if ps_saw_year s then ps_year s else tm_year tm + 1900) (tm_mon tm + 1) (tm_mday tm) * 86400 +
             tm_hour tm * 3600 + tm_min tm * 60 + 59 - ps_offset s + 1) by lia.
    reflexivity.
  - cbn [tm_with tm_year tm_sec tm_min tm_hour tm_mday tm_mon].
    assert (EY : (if ps_saw_year s then OK (Some (ps_year s))
                  else if max64 - 1900 <? tm_year tm then OK None else OK (Some (tm_year tm + 1900)))
                 = OK (Some (if ps_saw_year s then ps_year s else tm_year tm + 1900))).
    { destruct (ps_saw_year s); [reflexivity|].
      destruct (Z.ltb_spec (max64 - 1900) (tm_year tm)) as [C|C]; [unfold max64 in C; lia|reflexivity]. }
    rewrite EY. cbn [bind]. clear EY.
    pose proof (finish_tail_correct utc _ (tm_mon tm + 1) (tm_mday tm) (tm_hour tm) (tm_min tm) (tm_sec tm)
                  (ps_offset s) (ps_subsec s) Hutc Iy ltac:(lia) Rd Rh Rmi ltac:(lia) ltac:(lia)) as T.
    unfold finish_tail in T. rewrite T. clear T. cbv zeta.
    rewrite Z.add_0_r. reflexivity.
Qed.

(* ================================================================== *)
(* Goal 2 (C07): "%Y-%m-%dT%H:%M:%E*S%E*z" round-trips                 *)

Local Ltac Zify.zify_post_hook ::= Z.to_euclidean_division_equations.

Definition rfc3339 : list Z := (* "%Y-%m-%dT%H:%M:%E*S%E*z" *)
  [37;89;45;37;109;45;37;100;84;37;72;58;37;77;58;37;69;42;83;37;69;42;122].

(* ---- the rendered text ---- *)

Definition frac_part (fs : Z) : list Z := match frac_min fs with [] => [] | d => 46 :: d end.

Definition rfc_text (cs : fields) (off fs : Z) : list Z :=
  dec (fy cs) ++ 45 :: dec2 (fm cs) ++ 45 :: dec2 (fd cs) ++ 84 :: dec2 (fhh cs) ++ 58 :: dec2 (fmm cs) ++ 58 ::
  dec2 (fss cs) ++ frac_part fs ++ render_offset off [58] true false.

Lemma lib_only_rfc :
  forallb (fun c => negb (c =? 0)) rfc3339 &&
  forallb (fun t => match t with FLit _ | FPct | FLib _ => true | _ => false end) (lex rfc3339) = true.
Proof. vm_compute. reflexivity. Qed.

Lemma lex_rfc : lex rfc3339 =
  [FLib LY; FLit 45; FLib Lm; FLit 45; FLib Ld; FLit 84; FLib LH; FLit 58; FLib LM; FLit 58; FLib LEsS; FLib LEsz].
Proof. vm_compute. reflexivity. Qed.

Lemma render_rfc so cs off ab fs t tm :
  render_spec so rfc3339 cs off ab fs t tm = rfc_text cs off fs.
Proof.
  unfold render_spec. rewrite lex_rfc. cbn [flat_map render_tok render_lib].
  rewrite app_nil_r. rewrite <- (app_assoc (dec2 (fss cs))). reflexivity.
Qed.

(* ---- every byte of the text is non-NUL, and it does not start with a space ---- *)

Definition nz (c : Z) : bool := negb (c =? 0).

Lemma c_str_id s : forallb nz s = true -> c_str s = s.
Proof.
  induction s as [|c r IH]; intros H; [reflexivity|].
  cbn [forallb] in H. apply andb_true_iff in H. destruct H as [H1 H2].
  cbn [c_str]. unfold nz in H1. destruct (c =? 0); [discriminate|]. rewrite IH; auto.
Qed.

Lemma digits_nz l : forallb is_digit l = true -> forallb nz l = true.
Proof.
  induction l as [|c r IH]; intros H; [reflexivity|].
  cbn [forallb] in *. apply andb_true_iff in H. destruct H as [H1 H2].
  rewrite IH by exact H2. apply is_digit_range in H1. unfold nz.
  destruct (Z.eqb_spec c 0); [lia|reflexivity].
Qed.

Lemma dec2_eq v : 0 <= v <= 99 -> dec2 v = [48 + v / 10; 48 + v mod 10].
Proof.
  intros H. pose proof (format02d_ok v H) as A. rewrite pp_format02d in A by lia. congruence.
Qed.

Lemma dec2_nz v : 0 <= v <= 99 -> forallb nz (dec2 v) = true.
Proof.
  intros H. rewrite dec2_eq by lia. apply digits_nz. cbn [forallb].
  rewrite !is_digit_48 by lia. reflexivity.
Qed.

Lemma pow40 : 9223372036854775808 < 10 ^ Z.of_nat 40.
Proof. vm_compute. reflexivity. Qed.

Lemma dec_digits_shape v : 0 <= v <= 9223372036854775808 ->
  exists c r, dec_digits v = c :: r /\ forallb is_digit (c :: r) = true.
Proof.
  intros H. pose proof pow40 as P. unfold dec_digits.
  destruct (pp_dec_digits_fuel 40 v [] ltac:(lia)) as (ds & E & Hd & _).
  pose proof (ddf_nonempty 39 v []) as N. rewrite E in *. rewrite app_nil_r in *.
  destruct ds as [|c r]; [cbn [length] in N; lia|]. eauto.
Qed.

Lemma dec_shape v : int64 v ->
  exists c r, dec v = c :: r /\ is_space c = false /\ forallb nz (c :: r) = true.
Proof.
  intros H. unfold int64, min64, max64 in H. unfold dec.
  destruct (Z.ltb_spec v 0) as [N|N].
  - destruct (dec_digits_shape (- v) ltac:(lia)) as (c & r & E & D).
    exists 45, (dec_digits (- v)). split; [reflexivity|]. split; [reflexivity|].
    cbn [forallb]. change (nz 45) with true. cbn [andb]. rewrite E. apply digits_nz. exact D.
  - destruct (dec_digits_shape v ltac:(lia)) as (c & r & E & D).
    exists c, r. split; [exact E|]. split; [|apply digits_nz; exact D].
    cbn [forallb] in D. apply andb_true_iff in D. destruct D as [D _].
    apply is_digit_range in D. unfold is_space.
    destruct (Z.eqb_spec c 32); [lia|]. destruct (Z.leb_spec 9 c); destruct (Z.leb_spec c 13); try reflexivity; lia.
Qed.

Lemma frac_min_digits fs : 0 <= fs < 10 ^ 15 -> forallb is_digit (frac_min fs) = true.
Proof.
  intros H. destruct (pp_pad15 fs H) as (_ & Hd & _). unfold frac_min.
  destruct (pp_strip (pad_left 15 48 (dec_digits fs))) as [j Hj].
  set (P := pad_left 15 48 (dec_digits fs)) in *. clearbody P.
  set (Q := rev (strip_zeros_r (rev P))) in *. clearbody Q. subst P.
  rewrite forallb_app in Hd. apply andb_true_iff in Hd. tauto.
Qed.

Lemma frac_min_0 : frac_min 0 = [].
Proof. vm_compute. reflexivity. Qed.

Lemma frac_min_nil fs : 0 <= fs < 10 ^ 15 -> frac_min fs = [] -> fs = 0.
Proof.
  intros H E. destruct (Z.eq_dec fs 0) as [|N]; [assumption|]. exfalso.
  destruct (subsec_roundtrip_lemma fs [] H I) as [_ R]. specialize (R N).
  rewrite E in R. vm_compute in R. discriminate.
Qed.

Lemma frac_part_nz fs : 0 <= fs < 10 ^ 15 -> forallb nz (frac_part fs) = true.
Proof.
  intros H. unfold frac_part. pose proof (frac_min_digits fs H) as D.
  destruct (frac_min fs) as [|c q]; [reflexivity|].
  change (forallb nz (46 :: c :: q)) with (nz 46 && forallb nz (c :: q)).
  rewrite digits_nz by exact D. reflexivity.
Qed.

Lemma offset_text off : -86400 < off < 86400 ->
  exists rest, render_offset off [58] true false = (if off <? 0 then 45 else 43) :: rest /\
               forallb nz rest = true.
Proof.
  intros H. unfold render_offset, off_parts. cbn [app].
  eexists. split; [reflexivity|].
  assert (Ha : 0 <= Z.abs off < 86400) by lia. set (a := Z.abs off) in *. clearbody a.
  rewrite !forallb_app. cbn [forallb]. change (nz 58) with true. cbn [andb].
  rewrite !forallb_app. cbn [forallb]. change (nz 58) with true. cbn [andb].
  rewrite !dec2_nz by lia. reflexivity.
Qed.

Lemma rfc_text_shape cs off fs : valid_fields cs = true -> int64 (fy cs) -> -86400 < off < 86400 ->
  0 <= fs < 10 ^ 15 ->
  c_str (rfc_text cs off fs) = rfc_text cs off fs /\ skip_space (rfc_text cs off fs) = rfc_text cs off fs.
Proof.
  intros V Iy Ho Hfs.
  apply valid_fields_inv in V. destruct V as (V & Hh & Hmi & Hs).
  pose proof (valid_date_inv _ _ _ V) as [Hm Hd]. pose proof (dim_range (fy cs) (fm cs)) as R.
  destruct (dec_shape (fy cs) Iy) as (c & r & E & Hsp & Hnz).
  destruct (offset_text off Ho) as (rest & EK & NK).
  split.
  - apply c_str_id. unfold rfc_text. rewrite E.
    rewrite forallb_app, Hnz. cbn [andb forallb]. change (nz 45) with true. cbn [andb].
    rewrite forallb_app, dec2_nz by lia. cbn [andb forallb]. change (nz 45) with true. cbn [andb].
    rewrite forallb_app, dec2_nz by lia. cbn [andb forallb]. change (nz 84) with true. cbn [andb].
    rewrite forallb_app, dec2_nz by lia. cbn [andb forallb]. change (nz 58) with true. cbn [andb].
    rewrite forallb_app, dec2_nz by lia. cbn [andb forallb]. change (nz 58) with true. cbn [andb].
    rewrite forallb_app, dec2_nz by lia. cbn [andb].
    rewrite forallb_app, frac_part_nz by exact Hfs. cbn [andb].
    rewrite EK. cbn [forallb]. rewrite NK. destruct (off <? 0); reflexivity.
  - unfold rfc_text. rewrite E. cbn [app skip_space]. rewrite Hsp. reflexivity.
Qed.

(* ---- the scanning loop, one format item at a time ---- *)

Section Scan3339.
Variable so : list Z -> list Z -> tmrec -> option (list Z * tmrec).

Lemma scan_loop_S n c f data s :
  scan_loop so (S n) (c :: f) data s =
  (do '(fmt', r) <- scan_step so (c :: f) data s ;;
   match r with None => OK None | Some (data', s') => scan_loop so n fmt' data' s' end).
Proof. reflexivity. Qed.

Lemma step_Y f data s : scan_step so (37 :: 89 :: f) data s =
  match parse_int64 data 0 min64 max64 with
  | Some (v, d1) => OK (f, Some (d1, set_year s v))
  | None => OK (f, None)
  end.
Proof. reflexivity. Qed.
Lemma step_m f data s : scan_step so (37 :: 109 :: f) data s =
  match parse_int32 data 2 1 12 with
  | Some (v, d1) => OK (f, Some (d1, set_week (set_tm s (tm_with (ps_tm s) 4 (v - 1))) (-1) (ps_week_start s)))
  | None => OK (f, None)
  end.
Proof. reflexivity. Qed.
Lemma step_d f data s : scan_step so (37 :: 100 :: f) data s =
  match parse_int32 data 2 1 31 with
  | Some (v, d1) => OK (f, Some (d1, set_week (set_tm s (tm_with (ps_tm s) 3 v)) (-1) (ps_week_start s)))
  | None => OK (f, None)
  end.
Proof. reflexivity. Qed.
Lemma step_H f data s : scan_step so (37 :: 72 :: f) data s =
  match parse_int32 data 2 0 23 with
  | Some (v, d1) => OK (f, Some (d1, set_twelve (set_tm s (tm_with (ps_tm s) 2 v)) false))
  | None => OK (f, None)
  end.
Proof. reflexivity. Qed.
Lemma step_M f data s : scan_step so (37 :: 77 :: f) data s =
  match parse_int32 data 2 0 59 with
  | Some (v, d1) => OK (f, Some (d1, set_tm s (tm_with (ps_tm s) 1 v)))
  | None => OK (f, None)
  end.
Proof. reflexivity. Qed.
Lemma step_ES f data s : scan_step so (37 :: 69 :: 42 :: 83 :: f) data s =
  (do r <- parse_ext_seconds data s ;; OK (f, r)).
Proof. reflexivity. Qed.
Lemma step_Ez f data s : scan_step so (37 :: 69 :: 42 :: 122 :: f) data s =
  match fmt_parse_offset data 58 with
  | Some (o, d1) => OK (f, Some (d1, set_offset s o))
  | None => OK (f, None)
  end.
Proof. reflexivity. Qed.
Lemma step_lit c f k s : is_space c = false -> c <> 37 ->
  scan_step so (c :: f) (c :: k) s = OK (f, Some (k, s)).
Proof.
  intros H1 H2. unfold scan_step. rewrite H1.
  destruct (Z.eqb_spec c 37) as [|_]; [contradiction|]. cbn [negb]. rewrite Z.eqb_refl. reflexivity.
Qed.

Lemma p2 v k lo hi : 0 <= v <= 99 -> lo <= v <= hi -> 0 <= lo ->
  parse_int32 (dec2 v ++ k) 2 lo hi = Some (v, k).
Proof. intros. apply parseint_format02d_lemma; auto. apply format02d_ok; lia. Qed.

Lemma loop_lit n c f k s : is_space c = false -> c <> 37 ->
  scan_loop so (S n) (c :: f) (c :: k) s = scan_loop so n f k s.
Proof. intros H1 H2. rewrite scan_loop_S, step_lit by assumption. reflexivity. Qed.

Lemma loop_Y n f v k s : int64 v -> no_digit_head' k ->
  scan_loop so (S n) (37 :: 89 :: f) (dec v ++ k) s = scan_loop so n f k (set_year s v).
Proof.
  intros Hv Hk. rewrite scan_loop_S, step_Y.
  rewrite (parseint_format64_lemma v k (dec v) Hv Hk (format64_0 v Hv)). reflexivity.
Qed.
Lemma loop_m n f v k s : 1 <= v <= 12 ->
  scan_loop so (S n) (37 :: 109 :: f) (dec2 v ++ k) s =
  scan_loop so n f k (set_week (set_tm s (tm_with (ps_tm s) 4 (v - 1))) (-1) (ps_week_start s)).
Proof. intros H. rewrite scan_loop_S, step_m, p2 by lia. reflexivity. Qed.
Lemma loop_d n f v k s : 1 <= v <= 31 ->
  scan_loop so (S n) (37 :: 100 :: f) (dec2 v ++ k) s =
  scan_loop so n f k (set_week (set_tm s (tm_with (ps_tm s) 3 v)) (-1) (ps_week_start s)).
Proof. intros H. rewrite scan_loop_S, step_d, p2 by lia. reflexivity. Qed.
Lemma loop_H n f v k s : 0 <= v <= 23 ->
  scan_loop so (S n) (37 :: 72 :: f) (dec2 v ++ k) s =
  scan_loop so n f k (set_twelve (set_tm s (tm_with (ps_tm s) 2 v)) false).
Proof. intros H. rewrite scan_loop_S, step_H, p2 by lia. reflexivity. Qed.
Lemma loop_M n f v k s : 0 <= v <= 59 ->
  scan_loop so (S n) (37 :: 77 :: f) (dec2 v ++ k) s =
  scan_loop so n f k (set_tm s (tm_with (ps_tm s) 1 v)).
Proof. intros H. rewrite scan_loop_S, step_M, p2 by lia. reflexivity. Qed.

Lemma loop_ES n f v fs sg rest s : 0 <= v <= 59 -> 0 <= fs < 10 ^ 15 -> sg = 43 \/ sg = 45 ->
  scan_loop so (S n) (37 :: 69 :: 42 :: 83 :: f) (dec2 v ++ frac_part fs ++ sg :: rest) s =
  scan_loop so n f (sg :: rest)
    (if fs =? 0 then set_tm s (tm_with (ps_tm s) 0 v)
     else set_subsec (set_tm s (tm_with (ps_tm s) 0 v)) fs).
Proof.
  intros Hv Hfs Hsg. rewrite scan_loop_S, step_ES, pes_unf.
  change (rng src_parse_range_S 0) with 0. change (rng src_parse_range_S 1) with 60.
  rewrite p2 by lia. unfold frac_part.
  destruct (frac_min fs) as [|c q] eqn:EF.
  - rewrite (frac_min_nil fs Hfs EF). cbn [app]. change (0 =? 0) with true. cbv iota.
    destruct Hsg as [-> | ->]; reflexivity.
  - assert (N : fs <> 0) by (intros ->; rewrite frac_min_0 in EF; discriminate).
    assert (K : no_digit_head' (sg :: rest)) by (destruct Hsg as [-> | ->]; reflexivity).
    destruct (subsec_roundtrip_lemma fs (sg :: rest) Hfs K) as [_ R]. specialize (R N).
    rewrite EF in R. cbn [app] in R |- *. change (46 =? 46) with true. cbv iota.
    rewrite R. cbn [bind]. destruct (Z.eqb_spec fs 0) as [|_]; [contradiction|]. reflexivity.
Qed.

Lemma loop_Ez n off K6 s : -86400 < off < 86400 -> format_offset off [58; 42] = OK K6 ->
  scan_loop so (S (S n)) [37; 69; 42; 122] K6 s = OK (Some ([], set_offset s off)).
Proof.
  intros Ho HF. rewrite scan_loop_S, step_Ez.
  pose proof (parseoffset_formatoffset_full_lemma off [] K6 Ho I HF) as P.
  rewrite app_nil_r in P. rewrite P. reflexivity.
Qed.

Definition rfc_state (cs : fields) (off fs : Z) : pstate :=
  mkPS (fy cs) true (mkTM (fss cs) (fmm cs) (fhh cs) (fd cs) (fm cs - 1) 70 4 0 0) fs true off
       false false (-1) 6 false 0.

Lemma scan_rfc cs off fs : valid_fields cs = true -> int64 (fy cs) -> -86400 < off < 86400 ->
  0 <= fs < 10 ^ 15 ->
  scan_loop so 24 rfc3339 (rfc_text cs off fs) ps0 = OK (Some ([], rfc_state cs off fs)).
Proof.
  intros V Iy Ho Hfs.
  apply valid_fields_inv in V. destruct V as (V & Hh & Hmi & Hs).
  pose proof (valid_date_inv _ _ _ V) as [Hm Hd]. pose proof (dim_range (fy cs) (fm cs)) as R.
  destruct (offset_text off Ho) as (rest & EK & _).
  unfold rfc3339, rfc_text.
  rewrite loop_Y by (auto; reflexivity).
  rewrite loop_lit by (first [reflexivity | discriminate]).
  rewrite loop_m by lia.
  rewrite loop_lit by (first [reflexivity | discriminate]).
  rewrite loop_d by lia.
  rewrite loop_lit by (first [reflexivity | discriminate]).
  rewrite loop_H by lia.
  rewrite loop_lit by (first [reflexivity | discriminate]).
  rewrite loop_M by lia.
  rewrite loop_lit by (first [reflexivity | discriminate]).
  rewrite EK.
  rewrite loop_ES by (try lia; destruct (off <? 0); auto).
  rewrite <- EK.
  rewrite (loop_Ez _ off) by (try lia; apply format_offset_ccz; lia).
  unfold rfc_state, ps0, tm0.
  destruct (Z.eqb_spec fs 0) as [->|_]; reflexivity.
Qed.
End Scan3339.

Lemma rfc3339_roundtrip_lemma : forall strftime_o strptime_o utc tz al fs t,
  reset_to_builtin_utc 0 = OK utc ->
  valid_fields (al_cs al) = true -> int64 (fy (al_cs al)) -> -86400 < al_off al < 86400 ->
  0 <= fs < 10 ^ 15 -> int64 t ->
  sec_of (al_cs al) = t + al_off al ->
  exists txt, format_impl strftime_o rfc3339 al fs t = OK txt /\
              parse_impl strptime_o tz utc rfc3339 txt = OK (Some (t, fs)).
Proof.
  intros sf sp utc tz al fs t Hutc V Iy Ho Hfs It Hsec.
  assert (Ho' : -93599 <= al_off al <= 93599) by lia.
  pose proof (format_lib_only_lemma sf rfc3339 al fs t (mkTM 0 0 0 0 0 0 0 0 0) lib_only_rfc
                (conj V (conj Iy Ho')) Hfs It) as HF.
  rewrite render_rfc in HF.
  exists (rfc_text (al_cs al) (al_off al) fs). split; [exact HF|].
  destruct (rfc_text_shape (al_cs al) (al_off al) fs V Iy Ho Hfs) as [E1 E2].
  unfold parse_impl. rewrite E1, E2.
  change (c_str rfc3339) with rfc3339. change (S (length rfc3339)) with 24%nat.
  rewrite (scan_rfc sp (al_cs al) (al_off al) fs V Iy Ho Hfs). cbn [bind].
  pose proof V as V'. apply valid_fields_inv in V'. destruct V' as (Vd & Hh & Hmi & Hs).
  pose proof (valid_date_inv _ _ _ Vd) as [Hm Hd].
  pose proof (dim_range (fy (al_cs al)) (fm (al_cs al))) as R.
  rewrite (finish_utc_correct_lemma tz utc [] (rfc_state (al_cs al) (al_off al) fs) Hutc
             (or_introl eq_refl) eq_refl eq_refl eq_refl);
    try (cbn [rfc_state ps_tm ps_offset ps_year tm_sec tm_min tm_hour tm_mday tm_mon tm_year]; lia);
    try exact Iy; try reflexivity.
  f_equal. unfold finish_expected.
  cbn [rfc_state ps_tm ps_offset ps_year ps_saw_year ps_twelve ps_afternoon ps_subsec
       tm_sec tm_min tm_hour tm_mday tm_mon tm_year andb].
  destruct (Z.eqb_spec (fss (al_cs al)) 60) as [C|_]; [lia|].
  replace (fm (al_cs al) - 1 + 1) with (fm (al_cs al)) by lia.
  rewrite Vd. cbn [andb].
  change (days_from_civil (fy (al_cs al)) (fm (al_cs al)) (fd (al_cs al)) * 86400 + fhh (al_cs al) * 3600 +
          fmm (al_cs al) * 60 + fss (al_cs al)) with (sec_of (al_cs al)).
  rewrite Hsec. replace (t + al_off al - al_off al + 0) with t by lia.
  apply in64_spec in It. rewrite It. reflexivity.
Qed.

(* Status: finish_utc_correct_lemma (Goal 1, C09) and rfc3339_roundtrip_lemma
   (Goal 2, C07) are proved exactly as stated, with no additional hypotheses;
   nothing in this file is left unproved.  Note for maintainers: MX / MN are the
   literal values of sec_of civil_max64 / civil_min64 (MX_eq / MN_eq, by
   vm_compute) and are Opaque: letting the unifier or `fold` convert
   `sec_of civil_max64` by lazy reduction does not terminate in reasonable time. *)
