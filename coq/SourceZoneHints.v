(* SourceZoneHints.v - C14 at the level of the SOURCE-DERIVED zone queries (SourceZone.v): whatever value the hint cell
   holds (any size_t - e.g. left behind by any earlier call, or stored by another thread), the BreakTime / MakeTime that
   clang reads in the current time_zone_info.cc return the answer of the hand-written model started from ANY other
   hint.  Composition of ZoneSelect's hint-irrelevance with the SourceZone tie theorems. *)
From CCTZ Require Import Base Cal CivilImpl ZoneLoad ZoneImpl ZoneHist ZoneSelect SourceZone SourceZoneProofs.
Local Open Scope Z_scope.

Lemma res_fst_ok {A B} (r : res (A * B)) a b : r = OK (a, b) -> res_fst r = OK a.
Proof. intros ->. reflexivity. Qed.

Lemma res_fst_inv {A B} (r : res (A * B)) a : res_fst r = OK a -> exists b, r = OK (a, b).
Proof. destruct r as [[x y]|e]; cbn; intros H; [inversion H; subst; eauto|discriminate]. Qed.

Theorem src_hint_irrelevant_break_lemma : forall z h1 h2 t al h1' fuel,
  table_sorted z = true -> size_t (vec_size (z_trans z)) -> size_t h2 -> (2 <= fuel)%nat ->
  break_time z h1 t = OK (al, h1') ->
  exists h2', sz_BreakTime fuel z h2 t = OK (al, h2').
Proof.
  intros z h1 h2 t al h1' fuel Hs Sz Sh Hf H.
  pose proof (hint_irrelevant_break_lemma z h1 h2 t Hs) as E.
  rewrite (res_fst_ok _ _ _ H) in E. symmetry in E.
  destruct (res_fst_inv _ _ E) as (h2' & H2).
  exists h2'. exact (sz_BreakTime_tie z h2 t _ Sz Sh H2 fuel Hf).
Qed.

Theorem src_hint_irrelevant_make_lemma : forall z h1 h2 cs cl h1' fuel,
  table_sorted z = true -> size_t (vec_size (z_trans z)) -> size_t h2 ->
  valid_fields cs = true -> int64 (z_last_year z - 400) -> (3 <= fuel)%nat ->
  make_time z h1 cs = OK (cl, h1') ->
  exists h2', sz_MakeTime fuel z h2 cs = OK (cl, h2').
Proof.
  intros z h1 h2 cs cl h1' fuel Hs Sz Sh V I Hf H.
  pose proof (hint_irrelevant_make_lemma z h1 h2 cs Hs) as E.
  rewrite (res_fst_ok _ _ _ H) in E. symmetry in E.
  destruct (res_fst_inv _ _ E) as (h2' & H2).
  exists h2'. exact (sz_MakeTime_tie z h2 cs _ Sz Sh V I H2 fuel Hf).
Qed.
Print Assumptions src_hint_irrelevant_break_lemma.
Print Assumptions src_hint_irrelevant_make_lemma.
