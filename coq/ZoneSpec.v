(* ZoneSpec.v — SPEC layer for zones: an independent reading of the TZif data.
   Nothing here looks at cctz's transition table: the file is parsed into an
   AST (RFC 8536 layout), the footer by the PosixSpec grammar, and a footer
   rule is evaluated directly on the proleptic Gregorian calendar for any
   year of Z.  lookup / preimages / change points are defined from that. *)
From CCTZ Require Import Base Cal PosixImpl PosixSpec ZoneLoad.
Local Open Scope Z_scope.

Record ast := mkAst {
  a_version : Z;
  a_times : list Z;
  a_idx : list Z;
  a_types : list (Z * bool * Z);     (* utoff, isdst, abbrind *)
  a_abbr : list Z;
  a_footer : list Z
}.

(* one data block: header at the front of [src]; returns the block's pieces and the rest *)
Definition parse_block (src : list Z) (time_len : Z) : option (header * list Z * list Z * list (Z * bool * Z) * list Z * list Z) :=
  match read_n 44 src with
  | None => None
  | Some (tzh, rest) =>
    if negb (magic_ok tzh) then None else
    match header_build tzh with
    | None => None
    | Some h =>
      match read_n (data_length h time_len) rest with
      | None => None
      | Some (buf, rest') =>
        let nt := Z.to_nat (h_timecnt h) in
        let ny := Z.to_nat (h_typecnt h) in
        let tl := Z.to_nat time_len in
        let times := map (if time_len =? 4 then decode32 else decode64) (chunks nt tl buf) in
        let b1 := skipn (nt * tl) buf in
        let idx := firstn nt b1 in
        let b2 := skipn nt b1 in
        let types := map (fun c => (decode32 (firstn 4 c), negb (nthZ c 4 =? 0), nthZ c 5)) (chunks ny 6 b2) in
        let b3 := skipn (ny * 6) b2 in
        let abbr := firstn (Z.to_nat (h_charcnt h)) b3 in
        Some (h, times, idx, types, abbr, rest')
      end
    end
  end.

Definition parse_ast (src : list Z) : option (header * ast) :=
  let v := nthZ src 4 in
  if v =? 0 then
    match parse_block src 4 with
    | Some (h, times, idx, types, abbr, _) => Some (h, mkAst 0 times idx types abbr [])
    | None => None
    end
  else
    match parse_block src 4 with
    | None => None
    | Some (_, _, _, _, _, rest) =>
      match parse_block rest 8 with
      | None => None
      | Some (h, times, idx, types, abbr, rest') =>
        if nthZ rest 4 =? 0 then None else
        match footer_read rest' with
        | None => None
        | Some f => Some (h, mkAst (nthZ rest 4) times idx types abbr f)
        end
      end
    end.

Definition tinfo := (Z * bool * list Z)%type.

Definition type_info (a : ast) (i : Z) : option tinfo :=
  match (if i <? 0 then None else nth_error (a_types a) (Z.to_nat i)) with
  | Some (off, dst, ai) => Some (off, dst, c_str (skipn (Z.to_nat ai) (a_abbr a)))
  | None => None
  end.

Definition tinfo_eqb (x y : tinfo) : bool :=
  let '(o1, d1, s1) := x in let '(o2, d2, s2) := y in
  (o1 =? o2) && Bool.eqb d1 d2 && list_eqb s1 s2.

(* The type for times before the first transition: type 0 when no transition
   refers to type 0 (every file written by current zic).  Otherwise the rule of
   tzcode's localtime.c for old files: if the first transition is to a DST
   type, the nearest standard type below that type; failing that, the first
   standard type; type 0 if there is none. *)
Definition is_dst_type (a : ast) (i : Z) : bool :=
  match type_info a i with Some (_, d, _) => d | None => false end.
Fixpoint search_down (a : ast) (n : nat) : option Z :=   (* largest i < n that is standard *)
  match n with
  | O => None
  | S k => if is_dst_type a (Z.of_nat k) then search_down a k else Some (Z.of_nat k)
  end.
Fixpoint search_up (a : ast) (i : Z) (n : nat) : option Z :=
  match n with
  | O => None
  | S k => if is_dst_type a i then search_up a (i + 1) k else Some i
  end.
Definition default_type_spec (a : ast) : Z :=
  if negb (existsb (fun i => i =? 0) (a_idx a)) then 0
  else
    let first := nthZ (a_idx a) 0 in
    let down := if is_dst_type a first then search_down a (Z.to_nat first) else None in
    match down with
    | Some i => i
    | None => match search_up a 0 (length (a_types a)) with Some i => i | None => 0 end
    end.

(* ---- footer rule on the calendar ---- *)
Record rule := mkRule {
  r_std : tinfo; r_dst : tinfo;
  r_start_date : pdate; r_start_time : Z;
  r_end_date : pdate; r_end_time : Z
}.

(* POSIX weekday (0 = Sunday) of a day number *)
Definition posix_wd_of_days (z : Z) : Z := (weekday_of_days z + 1) mod 7.

(* 0-based day of the year of the date a POSIX date form designates in year Y *)
Definition date_yday (d : pdate) (Y : Z) : Z :=
  match d with
  | DJ n => if is_leap Y && (60 <=? n) then n else n - 1          (* Feb 29 is never counted *)
  | DN n => n
  | DM m w wd =>
      let first := days_from_civil Y m 1 in
      let day :=
        if w =? 5 then
          let dim := days_in_month Y m in
          let lastwd := posix_wd_of_days (first + dim - 1) in
          dim - (lastwd - wd) mod 7                                 (* the last such weekday of the month *)
        else
          let firstwd := posix_wd_of_days first in
          1 + (wd - firstwd) mod 7 + 7 * (w - 1) in                 (* the w-th such weekday *)
      days_from_civil Y m day - days_from_civil Y 1 1
  end.

(* instants (UTC seconds) at which DST starts / ends in year Y *)
Definition rule_start (r : rule) (Y : Z) : Z :=
  86400 * (days_from_civil Y 1 1 + date_yday (r_start_date r) Y) + r_start_time r - fst (fst (r_std r)).
Definition rule_end (r : rule) (Y : Z) : Z :=
  86400 * (days_from_civil Y 1 1 + date_yday (r_end_date r) Y) + r_end_time r - fst (fst (r_dst r)).

Definition all_year_dst_spec (p : posix_tz) : bool :=
  match pt_date (dst_start p), pt_time (dst_start p), pt_date (dst_end p), pt_time (dst_end p),
        std_offset p, dst_offset p with
  | Some (DN 0), Some 0, Some (DJ 365), Some et, Some so, Some dof => et + (so - dof) =? 86400
  | _, _, _, _, _, _ => false
  end.

Inductive footer_kind :=
| FNone                       (* no footer / empty *)
| FBad                        (* does not parse *)
| FFixed (i : tinfo)          (* std only, or all-year DST *)
| FRule (r : rule).

Definition footer_kind_of (a : ast) : footer_kind :=
  match a_footer a with
  | [] => FNone
  | f =>
    if negb (nul_free f) then FBad else
    match posix_spec f with
    | None => FBad
    | Some p =>
      match std_offset p with
      | None => FBad
      | Some so =>
        let std := (so, false, std_abbr p) in
        match dst_abbr p with
        | [] => FFixed std
        | da =>
          match dst_offset p, pt_date (dst_start p), pt_time (dst_start p), pt_date (dst_end p), pt_time (dst_end p) with
          | Some dof, Some sd, Some st, Some ed, Some et =>
              let dst := (dof, true, da) in
              if all_year_dst_spec p then FFixed dst
              else FRule (mkRule std dst sd st ed et)
          | _, _, _, _, _ => FBad
          end
        end
      end
    end
  end.

Record szone := mkSZ { sz_ast : ast; sz_default : Z; sz_footer : footer_kind }.
Definition szone_of (a : ast) : szone := mkSZ a (default_type_spec a) (footer_kind_of a).

(* index of the last element <= t in an increasing list (as count of elements <= t) *)
Fixpoint count_le (l : list Z) (t : Z) : nat :=
  match l with
  | x :: r => if x <=? t then S (count_le r t) else O
  | [] => O
  end.

(* latest rule instant in (lo, t], as (instant, is_start) ; [None] if there is none.
   Rule instants of year Y lie within Y-1 .. Y+1 of their civil year. *)
Definition rule_candidates (r : rule) (Y : Z) : list (Z * bool) :=
  [(rule_start r (Y - 1), true); (rule_end r (Y - 1), false);
   (rule_start r Y, true); (rule_end r Y, false);
   (rule_start r (Y + 1), true); (rule_end r (Y + 1), false)].
Definition latest_le (c : list (Z * bool)) (lo t : Z) : option (Z * bool) :=
  fold_left (fun best x =>
               if (lo <? fst x) && (fst x <=? t) then
                 match best with
                 | Some b => if fst b <? fst x then Some x else best
                 | None => Some x
                 end
               else best) c None.

Definition year_of_instant (t : Z) : Z := fy (civil_of_seconds t).

(* the local-time type in force at instant t, as (utoff, isdst, abbreviation) *)
Definition spec_info (z : szone) (t : Z) : option tinfo :=
  let a := sz_ast z in
  let k := count_le (a_times a) t in
  let n := length (a_times a) in
  match k with
  | O =>
      match a_times a, sz_footer z with
      | [], FRule r =>
          (* no transitions at all: the footer alone describes the zone *)
          if t <? big_bang then type_info a (sz_default z) else
          match latest_le (rule_candidates r (year_of_instant t)) big_bang t with
          | Some (_, true) => Some (r_dst r)
          | Some (_, false) => Some (r_std r)
          | None => type_info a (sz_default z)
          end
      | _, _ => type_info a (sz_default z)
      end
  | S k' =>
      let table := type_info a (nthZ (a_idx a) k') in
      if Nat.eqb k n then
        match sz_footer z with
        | FRule r =>
            let last_time := nthZ (a_times a) k' in
            match latest_le (rule_candidates r (year_of_instant t)) last_time t with
            | Some (_, true) => Some (r_dst r)
            | Some (_, false) => Some (r_std r)
            | None => table
            end
        | _ => table
        end
      else table
  end.

Record slookup := mkSL { sl_cs : fields; sl_off : Z; sl_dst : bool; sl_abbr : list Z }.

Definition spec_lookup (z : szone) (t : Z) : option slookup :=
  match spec_info z t with
  | Some (off, dst, ab) => Some (mkSL (civil_of_seconds (t + off)) off dst ab)
  | None => None
  end.

(* ---- civil -> instant ---- *)
Definition all_offsets (z : szone) : list Z :=
  let tys := map (fun x => fst (fst x)) (a_types (sz_ast z)) in
  match sz_footer z with
  | FRule r => fst (fst (r_std r)) :: fst (fst (r_dst r)) :: tys
  | FFixed i => fst (fst i) :: tys
  | _ => tys
  end.

Fixpoint dedup (l : list Z) : list Z :=
  match l with
  | [] => []
  | x :: r => if existsb (fun y => y =? x) r then dedup r else x :: dedup r
  end.

Definition off_at (z : szone) (t : Z) : option Z :=
  match spec_info z t with Some (o, _, _) => Some o | None => None end.

(* all instants that display civil second L (given as seconds on the civil line) *)
Definition preimages (z : szone) (L : Z) : list Z :=
  filter (fun t => match off_at z t with Some o => t + o =? L | None => false end)
         (map (fun o => L - o) (dedup (all_offsets z))).

Fixpoint insert_sorted (x : Z) (l : list Z) : list Z :=
  match l with
  | [] => [x]
  | y :: r => if x <=? y then x :: l else y :: insert_sorted x r
  end.
Definition sort_z (l : list Z) : list Z := fold_right insert_sorted [] l.

(* change points near a civil second: every table time and the rule instants of
   the surrounding years *)
Definition change_candidates (z : szone) (L : Z) : list Z :=
  let a := sz_ast z in
  match sz_footer z with
  | FRule r => a_times a ++ map fst (rule_candidates r (fy (civil_of_seconds L)))
  | _ => a_times a
  end.

Definition clamp64z (v : Z) : Z := if v <? min64 then min64 else if max64 <? v then max64 else v.

Inductive skind := SU | SS | SR | SX.     (* SX: outside the spec's domain *)
Record scl := mkSCL { s_kind : skind; s_pre : Z; s_trans : Z; s_post : Z }.

(* For a skipped or repeated civil second: the responsible change point T with
   the offsets o1 before and o2 after it. *)
Definition responsible (z : szone) (L : Z) (skipped : bool) : option (Z * Z * Z) :=
  fold_left (fun acc T =>
     match acc with
     | Some _ => acc
     | None =>
       match off_at z (T - 1), off_at z T with
       | Some o1, Some o2 =>
           if skipped then (if (T + o1 <=? L) && (L <? T + o2) then Some (T, o1, o2) else None)
           else (if (T + o2 <=? L) && (L <? T + o1) then Some (T, o1, o2) else None)
       | _, _ => None
       end
     end) (change_candidates z L) None.

Definition spec_civil (z : szone) (L : Z) : scl :=
  match sort_z (preimages z L) with
  | [t] => mkSCL SU (clamp64z t) (clamp64z t) (clamp64z t)
  | [] =>
      match responsible z L true with
      | Some (T, o1, o2) => mkSCL SS (clamp64z (L - o1)) (clamp64z T) (clamp64z (L - o2))
      | None => mkSCL SX 0 0 0
      end
  | [t1; t2] =>
      match responsible z L false with
      | Some (T, o1, o2) => mkSCL SR (clamp64z (L - o1)) (clamp64z T) (clamp64z (L - o2))
      | None => mkSCL SX 0 0 0
      end
  | _ => mkSCL SX 0 0 0
  end.

Definition spec_convert (z : szone) (L : Z) : option Z :=
  let r := spec_civil z L in
  match s_kind r with
  | SS => Some (s_trans r)
  | SU | SR => Some (s_pre r)
  | SX => None
  end.

(* ---- the zone's real changes (C11) ---- *)
Definition info_changes_at (z : szone) (T : Z) : bool :=
  match spec_info z (T - 1), spec_info z T with
  | Some x, Some y => negb (tinfo_eqb x y)
  | _, _ => false
  end.

(* candidate change instants: file transitions (a first entry at or below
   -2^59 is a sentinel, not a transition) and, for a rule footer, the rule
   instants of the 402 years starting with the year of the last transition *)
Fixpoint rule_years (r : rule) (Y : Z) (n : nat) : list Z :=
  match n with
  | O => []
  | S k => rule_start r Y :: rule_end r Y :: rule_years r (Y + 1) k
  end.

Definition last_info_year (z : szone) : option (Z * Z) :=  (* last time, its local year *)
  let a := sz_ast z in
  match rev (a_times a), rev (a_idx a) with
  | t :: _, i :: _ =>
      match type_info a i with
      | Some (o, _, _) => Some (t, fy (civil_of_seconds (t + o)))
      | None => None
      end
  | [], _ =>
      (* no transitions: the rule applies from the earliest time cctz represents *)
      match type_info a (sz_default z) with
      | Some (o, _, _) => Some (big_bang, fy (civil_of_seconds (big_bang + o)))
      | None => None
      end
  | _, _ => None
  end.

Definition all_changes (z : szone) : list Z :=
  let a := sz_ast z in
  let file := filter (fun T => big_bang <? T) (a_times a) in
  let gen :=
    match sz_footer z, last_info_year z with
    | FRule r, Some (lt, ly) => filter (fun T => lt <? T) (rule_years r ly 402)
    | _, _ => []
    end in
  filter (info_changes_at z) (sort_z (file ++ gen)).

Definition spec_next (z : szone) (t : Z) : option Z :=
  match filter (fun T => t <? T) (all_changes z) with
  | T :: _ => Some T
  | [] => None
  end.
Definition spec_prev (z : szone) (t : Z) : option Z :=
  match rev (filter (fun T => T <? t) (all_changes z)) with
  | T :: _ => Some T
  | [] => None
  end.

(* civil_transition of a change point: from = one more than the second shown
   just before it, to = the second shown at it *)
Definition spec_transition (z : szone) (T : Z) : option (fields * fields) :=
  match off_at z (T - 1), off_at z T with
  | Some o1, Some o2 => Some (civil_of_seconds (T - 1 + o1 + 1), civil_of_seconds (T + o2))
  | _, _ => None
  end.

(* ---- well-formedness: the certificate under which the zone theorems hold and
   under which a file "of the kind zic produces" must load ---- *)
Fixpoint gaps_ok (z : szone) (times : list Z) : bool :=
  match times with
  | t1 :: ((t2 :: _) as r) =>
      match off_at z (t1 - 1), off_at z t1, off_at z t2 with
      | Some a, Some b, Some c => (Z.abs (b - a) + Z.abs (c - b) <? t2 - t1) && gaps_ok z r
      | _, _, _ => false
      end
  | _ => true
  end.

Definition footer_consistent (z : szone) : bool :=
  let a := sz_ast z in
  let last := match rev (a_idx a) with i :: _ => type_info a i | [] => type_info a (sz_default z) end in
  match sz_footer z, last with
  | FNone, _ => true
  | FBad, _ => false
  | FFixed i, Some l => tinfo_eqb i l
  | FRule _, Some _ => true
  | _, None => false
  end.

(* A rule footer is usable when, listing start/end instants year by year, the
   sequence is strictly increasing and consecutive instants are farther apart
   than the offset change (so that generated transitions never cross).  By
   rule_periodic it suffices to look at 401 consecutive years. *)
Fixpoint rule_seq (r : rule) (Y : Z) (n : nat) : list Z :=
  match n with
  | O => []
  | S k => let a := rule_start r Y in let b := rule_end r Y in
           (if a <? b then [a; b] else [b; a]) ++ rule_seq r (Y + 1) k
  end.
Fixpoint min_gap_ok (l : list Z) (g : Z) : bool :=
  match l with
  | a :: ((b :: _) as r) => (g <? b - a) && min_gap_ok r g
  | _ => true
  end.
Definition rule_ok (r : rule) : bool :=
  let d := Z.abs (fst (fst (r_std r)) - fst (fst (r_dst r))) in
  min_gap_ok (rule_seq r 2000 402) (2 * d).

(* ... and the first generated instant keeps a two-day distance from the last
   transition of the file (the seam) *)
Definition seam_ok (z : szone) (r : rule) : bool :=
  match rev (a_times (sz_ast z)) with
  | [] => true
  | lt :: _ =>
      forallb (fun c => negb ((lt <? fst c) && (fst c <=? lt + 172800)))
              (rule_candidates r (year_of_instant lt))
  end.

Definition footer_rule_ok (z : szone) : bool :=
  match sz_footer z with
  | FRule r => rule_ok r && seam_ok z r
  | _ => true
  end.

Definition wf_ast (h : header) (a : ast) : bool :=
  let z := szone_of a in
  (1 <=? h_typecnt h) && (h_typecnt h <=? 256) && (h_leapcnt h =? 0)
  && ((h_isstdcnt h =? 0) || (h_isstdcnt h =? h_typecnt h))
  && ((h_isutcnt h =? 0) || (h_isutcnt h =? h_typecnt h))
  && strictly_increasing (a_times a)
  && forallb (fun t => big_bang <=? t) (a_times a)
  && forallb (fun t => t <=? 2 ^ 59) (a_times a)
  && forallb (fun i => (0 <=? i) && (i <? h_typecnt h)) (a_idx a)
  && forallb (fun ty => let '(o, _, ai) := ty in (-86400 <? o) && (o <? 86400) && (0 <=? ai) && (ai <? h_charcnt h)) (a_types a)
  && footer_consistent z && footer_rule_ok z
  (* the type before the first transition must be unambiguous: either no
     transition refers to type 0 (every file written by current zic; RFC 8536
     then designates type 0), or the rule tzcode applies to old files also
     yields type 0 *)
  && (negb (existsb (fun i => i =? 0) (a_idx a)) || (default_type_spec a =? 0))
  (* every abbreviation is NUL-terminated inside the table (RFC 8536) *)
  && (match rev (a_abbr a) with c :: _ => c =? 0 | [] => false end)
  (* a first entry at -2^59 (pre-2018 zic "big bang") is a sentinel, not a
     change: its type must be equivalent to the default type *)
  && (match a_times a, a_idx a with
      | t0 :: _, i0 :: _ =>
          if t0 =? big_bang then
            match type_info a i0, type_info a (sz_default z) with
            | Some x, Some y => tinfo_eqb x y
            | _, _ => false
            end
          else true
      | _, _ => true
      end)
  && gaps_ok z (a_times a).
