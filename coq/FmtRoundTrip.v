(* FmtRoundTrip.v — C07, the general theorem: for EVERY format string that
   FmtSpec.lossless_fmt accepts and that is made of literal bytes, "%%" and
   library-defined specifiers, parse(fmt, format(fmt, t, fs, tz), any zone)
   returns exactly (t, fs) — (t, 0) when the format contains %s — provided the
   boolean side condition [last_writer_ok] holds.  [last_writer_ok] names the
   formats that lossless_fmt accepts although a LATER specifier overrides what
   an earlier lossless one parsed (parse() keeps the last value of every
   field); each excluded family has a machine-checked witness below
   (..._refuted), so the side condition is necessary, not a proof artefact.

   The proof is an induction over the format string (FmtRTScan.scan_lex): after
   scanning the rendering of the tokens so far, the parser state is the fold
   of FmtRTScan.upd_lib over those tokens and the remaining input is the
   rendering of the remaining tokens.  The final state is then analysed field
   by field ("who wrote it last") and handed to FinishProofs.finish_utc_correct_lemma;
   dates given by week number and weekday go through FinishZone.from_week_correct. *)
From CCTZ Require Import Base SrcConstants Cal CivilImpl PosixImpl FixedImpl ZoneLoad ZoneImpl
  FormatImpl ParseImpl FinishDefs FmtSpec.
From CCTZ Require Import CalProofs CivilNorm ParseProofs FmtProofs FinishProofs FinishZone FmtRTParse FmtRTScan.
From Coq Require Import Lia ZifyBool.
Local Open Scope Z_scope.
Local Ltac Zify.zify_post_hook ::= Z.to_euclidean_division_equations.
Local Strategy 200 [lex_fuel fmt_loop].

(* ================================================================== *)
(* The statement's booleans                                            *)

(* no strftime/strptime-delegated specifier *)
Definition no_other (fmt : list Z) : bool :=
  forallb (fun t => match t with FOther _ => false | _ => true end) (lex fmt).

(* lossless_fmt of FmtSpec.v restricted to library-only formats *)
Definition lossless_lib (fmt : list Z) (off year : Z) : bool :=
  lossless_fmt fmt off year && no_other fmt.

Definition is_LE4Y (k : libspec) : bool := match k with LE4Y => true | _ => false end.
Definition is_wday_name (t : ftok) : bool :=
  match t with FOther [37; c] => (c =? 97) || (c =? 65) | _ => false end.
Definition has_percent_s (fmt : list Z) : bool := existsb (libp is_Ls) (lex fmt).

(* parse() keeps the LAST value scanned for every field.  A format is excluded when
   - "%E0f" (empty rendering) is followed by a white-space literal;
   - %E4Y occurs and the year is outside -999..9999 (even next to a %Y);
   and, unless it contains %s (which overrides everything),
   - the last sub-second-writing specifier (%E*S %E*f %E#S %E#f, # > 0) truncates (# < 15);
   - the last offset specifier has minute resolution (%z %:z %Ez) while off mod 60 <> 0;
   - a week number (%U %W) comes after the last %m / %d and no weekday (%u %w %a %A)
     is given: FromWeek then uses the default weekday (Thursday). *)
Definition last_writer_ok (fmt : list Z) (off year : Z) : bool :=
  let l := lex fmt in
  e0f_ok l
  && (negb (existsb (libp is_LE4Y) l) || ((-999 <=? year) && (year <=? 9999)))
  && (existsb (libp is_Ls) l
      || (match last_tok (libp writes_subsec) l with Some t => libp full_subsec t | None => true end
          && match last_tok (libp is_offset) l with
             | Some t => libp full_offset t || (off mod 60 =? 0) | None => true end
          && match last_tok (libp date_writer) l with
             | Some (FLib LU) | Some (FLib LW) => existsb (libp is_wday) l || existsb is_wday_name l
             | _ => true end)).

(* ================================================================== *)
(* List facts                                                          *)

Lemma has_mono l (p q : libspec -> bool) : (forall k, p k = true -> q k = true) ->
  has l p = true -> existsb (libp q) l = true.
Proof.
  intros H. unfold has. rewrite !existsb_exists. intros (t & Hin & Ht). exists t. split; [exact Hin|].
  destruct t; try discriminate. cbn in *. auto.
Qed.

Lemma last_tok_some wr l : existsb wr l = true -> exists t, last_tok wr l = Some t.
Proof.
  induction l as [|t l IH]; [discriminate|]. unfold last_tok in *. rewrite lastw_cons. cbn [existsb].
  intros H. destruct (lastw _ l) as [t'|]; [eauto|].
  destruct (wr t) eqn:E; [eauto|]. cbn [orb] in H. destruct (IH H) as (x & Hx). discriminate.
Qed.

Lemma last_tok_in wr l t : last_tok wr l = Some t -> In t l /\ wr t = true.
Proof.
  induction l as [|a l IH]; [discriminate|]. unfold last_tok in *. rewrite lastw_cons.
  destruct (lastw _ l) as [t'|].
  - intros [= <-]. destruct (IH eq_refl). split; [right|]; assumption.
  - destruct (wr a) eqn:E; [|discriminate]. intros [= <-]. split; [left; reflexivity|exact E].
Qed.

Lemma last_tok_none wr l : last_tok wr l = None -> existsb wr l = false.
Proof.
  intros H. destruct (existsb wr l) eqn:E; [|reflexivity].
  destruct (last_tok_some wr l E) as (t & Ht). congruence.
Qed.

Lemma in_existsb {A} (p : A -> bool) l x : In x l -> p x = true -> existsb p l = true.
Proof. intros. apply existsb_exists. eauto. Qed.

Lemma wkp_none s : wkp s = None -> ps_week_num s = -1.
Proof. unfold wkp. destruct (Z.eqb_spec (ps_week_num s) (-1)); [auto|discriminate]. Qed.
Lemma wkp_some s a b : wkp s = Some (a, b) -> ps_week_num s = a /\ ps_week_start s = b.
Proof. unfold wkp. destruct (ps_week_num s =? -1); [discriminate|]. intros [= <- <-]. auto. Qed.

(* ================================================================== *)
(* parse()'s post-processing on the scanned fields                      *)

Section Finish.
Variables (tz utc : zone) (cs : fields) (off fs t : Z).
Hypothesis Hutc : reset_to_builtin_utc 0 = OK utc.
Hypothesis Vcs : valid_fields cs = true.
Hypothesis Iy : int64 (fy cs).
Hypothesis Hoff : -86400 < off < 86400.
Hypothesis It : int64 t.
Hypothesis Hsec : sec_of cs = t + off.

(* month and day scanned *)
Lemma finish_md ws yd dst pcs wd :
  parse_finish tz utc (Some ([],
     mkPS (fy cs) true (mkTM (fss cs) (fmm cs) (fhh cs) (fd cs) (fm cs - 1) 70 wd yd dst) fs true off
          false false (-1) ws false pcs)) = OK (Some (t, fs)).
Proof.
  pose proof Vcs as V'. apply valid_fields_inv in V'. destruct V' as (Vd & Hh & Hmi & Hs).
  pose proof (valid_date_inv _ _ _ Vd) as [Hm Hd]. pose proof (dim_range (fy cs) (fm cs)) as R.
  match goal with |- parse_finish tz utc (Some ([], ?S)) = _ =>
    rewrite (finish_utc_correct_lemma tz utc [] S Hutc (or_introl eq_refl) eq_refl eq_refl eq_refl) end;
    try (cbn [ps_tm ps_offset ps_year tm_sec tm_min tm_hour tm_mday tm_mon tm_year]; lia);
    try exact Iy; try reflexivity.
  f_equal. unfold finish_expected.
  cbn [ps_tm ps_offset ps_year ps_saw_year ps_twelve ps_afternoon ps_subsec
       tm_sec tm_min tm_hour tm_mday tm_mon tm_year andb].
  destruct (Z.eqb_spec (fss cs) 60) as [C|_]; [lia|].
  replace (fm cs - 1 + 1) with (fm cs) by lia.
  rewrite Vd. cbn [andb].
  change (days_from_civil (fy cs) (fm cs) (fd cs) * 86400 + fhh cs * 3600 + fmm cs * 60 + fss cs) with (sec_of cs).
  rewrite Hsec. replace (t + off - off + 0) with t by lia.
  apply in64_spec in It. rewrite It. reflexivity.
Qed.

(* week number and weekday scanned: FromWeek finds the date *)
Lemma wdn_date wn ws :
  (wn = week_U cs /\ ws = 6) \/ (wn = week_W cs /\ ws = 0) ->
  week_day_number (fy cs) wn ws (wday_sun0 cs) = days_from_civil (fy cs) (fm cs) (fd cs).
Proof.
  intros Hw. pose proof (wday_sun0_range cs) as Wr.
  assert (Hws : 0 <= ws <= 6) by (destruct Hw as [[_ ->]|[_ ->]]; lia).
  pose proof (week_day_number_char (fy cs) wn ws (wday_sun0 cs) Hws Wr) as (_ & _ & U).
  symmetry. apply U.
  - unfold wday_sun0, from_tm_wday, weekday_of_days.
    set (D := days_from_civil (fy cs) (fm cs) (fd cs)). clearbody D.
    destruct (Z.eqb_spec (((D + 3) mod 7 + 1) mod 7) 0); lia.
  - unfold week_U, week_W, yday0, wday_sun0, from_tm_wday, weekday_of_days in *.
    set (D := days_from_civil (fy cs) (fm cs) (fd cs)) in *. set (J := days_from_civil (fy cs) 1 1) in *.
    clearbody D J.
    destruct Hw as [[-> ->]|[-> ->]]; destruct (Z.eqb_spec (((D + 3) mod 7 + 1) mod 7) 0); lia.
Qed.

Lemma finish_week wn ws md mo yd dst pcs :
  (wn = week_U cs /\ ws = 6) \/ (wn = week_W cs /\ ws = 0) ->
  parse_finish tz utc (Some ([],
     mkPS (fy cs) true (mkTM (fss cs) (fmm cs) (fhh cs) md mo 70 (wday_sun0 cs) yd dst) fs true off
          false false wn ws false pcs)) = OK (Some (t, fs)).
Proof.
  intros Hw.
  pose proof Vcs as V'. apply valid_fields_inv in V'. destruct V' as (Vd & Hh & Hmi & Hs).
  pose proof (wday_sun0_range cs) as Wr.
  assert (Hwn : 0 <= wn <= 53).
  { destruct Hw as [[-> _]|[-> _]]; [apply (to_week_U cs Vcs Iy)|apply (to_week_W cs Vcs Iy)]. }
  assert (Hws : 0 <= ws <= 6) by (destruct Hw as [[_ ->]|[_ ->]]; lia).
  rewrite <- (finish_md ws yd dst pcs (wday_sun0 cs)).
  unfold parse_finish.
  cbn [skip_space ps_tm ps_twelve ps_afternoon ps_saw_s ps_saw_offset ps_offset ps_subsec ps_saw_year ps_year
       ps_week_num ps_week_start andb tm_sec tm_hour].
  destruct (Z.eqb_spec (fss cs) 60) as [C|_]; [lia|].
  cbn [bind].
  destruct (Z.eqb_spec wn (-1)) as [C|_]; [lia|].
  change (negb (-1 =? -1)) with false. cbn [negb]. cbv iota.
  rewrite from_week_correct by (cbn [tm_wday]; auto).
  unfold fw_expected. cbn [tm_wday]. rewrite (wdn_date wn ws Hw), (cod_dfc _ _ _ Vd).
  apply in64_spec in Iy. rewrite Iy. cbn [bind].
  cbn [tm_with tm_sec tm_min tm_hour tm_mday tm_mon tm_year tm_wday tm_yday tm_isdst].
  reflexivity.
Qed.
End Finish.

(* ================================================================== *)
(* The theorem                                                         *)

Local Ltac hm := let k := fresh "k" in let E := fresh "E" in
  intros k; destruct k; cbn; intros E; try discriminate E; try reflexivity; try lia.

Lemma toks_ok_of (sp : list Z -> list Z -> tmrec -> option (list Z * tmrec)) (so : list Z -> tmrec -> list Z)
  (tm : tmrec) fmt cs off (abbr : list Z) fs :
  -86400 < off < 86400 -> 0 <= fs < 10 ^ 15 ->
  clean_fmt fmt = true -> no_other fmt = true ->
  forallb (fun t => match t with FOther raw => locale_name_spec raw | FLib LZ => false | _ => true end)
          (lex fmt) = true ->
  negb (existsb (libp is_LE4Y) (lex fmt)) || ((-999 <=? fy cs) && (fy cs <=? 9999)) = true ->
  forallb (tok_ok cs) (lex fmt) = true /\ forallb nzb fmt = true /\
  forallb (fun c => negb (c =? 0)) fmt &&
  forallb (fun t => match t with FLit _ | FPct | FLib _ => true | _ => false end) (lex fmt) = true.
Proof.
  intros Ho Hfs Hclean Hno Hrestr HE4.
  unfold clean_fmt in Hclean. apply andb_true_iff in Hclean. destruct Hclean as [Hnz Hq].
  unfold no_other in Hno.
  pose proof (lex_lits_nz sp so tm cs off abbr fs Ho Hfs (S (length fmt)) fmt (S (length fmt))
                ltac:(lia) ltac:(lia) Hnz) as Hlit.
  change (lex_fuel (S (length fmt)) fmt) with (lex fmt) in Hlit.
  set (l := lex fmt) in *. clearbody l.
  assert (Hgood : forallb FmtProofs.good l = true).
  { rewrite forallb_forall in *. intros t Ht. specialize (Hq t Ht). specialize (Hno t Ht).
    destruct t; try discriminate; reflexivity. }
  specialize (Hlit Hgood).
  split; [|split; [exact Hnz|]].
  - rewrite forallb_forall in *. intros t Ht.
    specialize (Hq t Ht). specialize (Hno t Ht). specialize (Hlit t Ht). specialize (Hrestr t Ht).
    destruct t as [c| |k|raw|raw]; try discriminate; try reflexivity.
    + exact Hlit.
    + cbn [tok_ok]. destruct k; try discriminate; try reflexivity.
      cbn [lib_ok]. apply orb_true_iff in HE4. destruct HE4 as [H|H]; [|exact H].
      apply negb_true_iff in H. rewrite (in_existsb (libp is_LE4Y) _ _ Ht eq_refl) in H. discriminate.
  - rewrite Hnz. cbn [andb]. exact Hgood.
Qed.

Theorem lossless_roundtrip : forall strftime_o strptime_o utc tz fmt al fs t,
  reset_to_builtin_utc 0 = OK utc ->
  lossless_lib fmt (al_off al) (fy (al_cs al)) = true ->
  last_writer_ok fmt (al_off al) (fy (al_cs al)) = true ->
  valid_fields (al_cs al) = true -> int64 (fy (al_cs al)) -> -86400 < al_off al < 86400 ->
  0 <= fs < 10 ^ 15 -> int64 t ->
  sec_of (al_cs al) = t + al_off al ->
  exists txt, format_impl strftime_o fmt al fs t = OK txt /\
              parse_impl strptime_o tz utc fmt txt = OK (Some (t, if has_percent_s fmt then 0 else fs)).
Proof.
  intros so sp utc tz fmt al fs t Hutc HL HW V Iy Ho Hfs It Hsec.
  set (cs := al_cs al) in *. set (off := al_off al) in *. set (abbr := al_abbr al).
  pose (tm := mkTM 0 0 0 0 0 0 0 0 0).
  pose proof (finish_md tz utc cs off fs t Hutc V Iy Ho It Hsec) as FMD.
  pose proof (finish_week tz utc cs off fs t Hutc V Iy Ho It Hsec) as FWK.
  clear Hutc Hsec.
  unfold lossless_lib in HL. apply andb_true_iff in HL. destruct HL as [HL Hno].
  unfold lossless_fmt in HL. cbv zeta in HL.
  apply andb_true_iff in HL. destruct HL as [HL Hbody].
  apply andb_true_iff in HL. destruct HL as [HL Hrestr].
  apply andb_true_iff in HL. destruct HL as [Hclean Hsep].
  unfold last_writer_ok in HW. cbv zeta in HW.
  apply andb_true_iff in HW. destruct HW as [HW Hlw].
  apply andb_true_iff in HW. destruct HW as [He0 HE4].
  destruct (toks_ok_of sp so tm fmt cs off abbr fs Ho Hfs Hclean Hno Hrestr HE4) as (Hok & Hnz & Hlib).
  unfold no_other in Hno.
  set (l := lex fmt) in *.
  (* format *)
  assert (Ho' : -93599 <= off <= 93599) by lia.
  pose proof (format_lib_only_lemma so fmt al fs t tm Hlib (conj V (conj Iy Ho')) Hfs It) as HF.
  change (render_spec so fmt (al_cs al) (al_off al) (al_abbr al) fs t tm)
    with (render so tm cs off abbr fs t l) in HF.
  exists (render so tm cs off abbr fs t l). split; [exact HF|].
  (* parse: the scanning loop *)
  pose proof (render_nz sp so tm cs off abbr fs t V Iy Ho Hfs It l Hok) as Hrnz.
  unfold parse_impl. rewrite (c_str_id _ Hrnz), (c_str_id fmt Hnz).
  rewrite (scan_lex sp so tm cs off abbr fs t V Iy Ho Hfs It (S (length fmt)) fmt (S (length fmt)) ps0
             (skip_space (render so tm cs off abbr fs t l)) ltac:(lia) ltac:(lia) Hok Hsep He0 (or_intror eq_refl)).
  cbn [bind]. change (lex_fuel (S (length fmt)) fmt) with l.
  unfold has_percent_s. fold l.
  clear HF Hrnz Hlib. clearbody l.
  set (S := fold_left (upd cs off fs t) l ps0).
  destruct (existsb (libp is_Ls) l) eqn:Es.
  { (* %s overrides everything *)
    assert (E1 : ps_saw_s S = true) by (unfold S; rewrite fin_saw_s, Es; reflexivity).
    assert (E2 : ps_percent_s S = t) by (unfold S; rewrite fin_percent_s, Es; reflexivity).
    unfold parse_finish. cbn [skip_space]. rewrite E1, E2. reflexivity. }
  (* the fields *)
  cbn [orb] in Hlw.
  apply andb_true_iff in Hlw. destruct Hlw as [Hlw Hlw_date].
  apply andb_true_iff in Hlw. destruct Hlw as [Hlw_sub Hlw_off].
  change (has l (fun k => match k with Ls => true | _ => false end)) with (existsb (libp is_Ls) l) in Hbody.
  rewrite Es in Hbody. cbn [orb] in Hbody.
  apply andb_true_iff in Hbody. destruct Hbody as [Hbody Hoffs].
  apply andb_true_iff in Hbody. destruct Hbody as [Hbody Hsecs].
  apply andb_true_iff in Hbody. destruct Hbody as [Hbody HM].
  apply andb_true_iff in Hbody. destruct Hbody as [Hbody HH].
  apply andb_true_iff in Hbody. destruct Hbody as [Hyear Hdate].
  assert (Xyear : existsb (libp is_year) l = true).
  { apply orb_true_iff in Hyear. destruct Hyear as [H|H].
    - apply (has_mono l _ is_year) in H; [exact H|hm].
    - apply andb_true_iff in H. destruct H as [H _]. apply andb_true_iff in H. destruct H as [H _].
      apply (has_mono l _ is_year) in H; [exact H|hm]. }
  assert (XH : existsb (libp is_LH) l = true) by (apply (has_mono l _ is_LH) in HH; [exact HH|hm]).
  assert (XM : existsb (libp is_LM) l = true) by (apply (has_mono l _ is_LM) in HM; [exact HM|hm]).
  assert (Xsec : existsb (libp sets_sec) l = true /\ existsb (libp writes_subsec) l = true).
  { apply orb_true_iff in Hsecs. destruct Hsecs as [H|H].
    - split; [apply (has_mono l _ sets_sec) in H|apply (has_mono l _ writes_subsec) in H]; try exact H; hm.
    - apply andb_true_iff in H. destruct H as [H1 H2].
      split; [apply (has_mono l _ sets_sec) in H1|apply (has_mono l _ writes_subsec) in H2]; try assumption; hm. }
  destruct Xsec as [Xsec Xsub].
  assert (Xoff : existsb (libp is_offset) l = true).
  { apply orb_true_iff in Hoffs. destruct Hoffs as [H|H].
    - apply (has_mono l _ is_offset) in H; [exact H|hm].
    - apply andb_true_iff in H. destruct H as [H _]. apply (has_mono l _ is_offset) in H; [exact H|hm]. }
  (* field values of the final state *)
  assert (Esec : tm_sec (ps_tm S) = fss cs) by (unfold S; rewrite fin_sec, Xsec; reflexivity).
  assert (Emin : tm_min (ps_tm S) = fmm cs) by (unfold S; rewrite fin_min, XM; reflexivity).
  assert (Ehour : tm_hour (ps_tm S) = fhh cs) by (unfold S; rewrite fin_hour, XH; reflexivity).
  assert (Etmy : tm_year (ps_tm S) = 70) by (unfold S; rewrite fin_tmyear; reflexivity).
  assert (E12 : ps_twelve S = false) by (unfold S; rewrite fin_twelve, XH; reflexivity).
  assert (Eaft : ps_afternoon S = false) by (unfold S; rewrite fin_afternoon; reflexivity).
  assert (Esy : ps_saw_year S = true) by (unfold S; rewrite fin_saw_year, Xyear; reflexivity).
  assert (Ey : ps_year S = fy cs) by (unfold S; rewrite fin_year, Xyear; reflexivity).
  assert (Eso : ps_saw_offset S = true) by (unfold S; rewrite fin_saw_offset, Xoff; reflexivity).
  assert (Ess : ps_saw_s S = false) by (unfold S; rewrite fin_saw_s, Es; reflexivity).
  assert (Eoff : ps_offset S = off).
  { unfold S. apply (fin_offset sp so tm cs off abbr fs t).
    destruct (last_tok_some _ _ Xoff) as (x & Hx). rewrite Hx in *. exact Hlw_off. }
  assert (Esub : ps_subsec S = fs).
  { unfold S. apply (fin_subsec sp so tm cs off abbr fs t Hfs); [reflexivity|].
    destruct (last_tok_some _ _ Xsub) as (x & Hx). rewrite Hx in *. exact Hlw_sub. }
  assert (Nmn : existsb is_month_name l = false).
  { destruct (existsb is_month_name l) eqn:E; [|reflexivity]. apply existsb_exists in E.
    destruct E as (x & Hin & Hx). rewrite forallb_forall in Hno. specialize (Hno x Hin).
    destruct x; discriminate. }
  assert (Nwn : existsb is_wday_name l = false).
  { destruct (existsb is_wday_name l) eqn:E; [|reflexivity]. apply existsb_exists in E.
    destruct E as (x & Hin & Hx). rewrite forallb_forall in Hno. specialize (Hno x Hin).
    destruct x; discriminate. }
  rewrite Nmn in Hdate. rewrite Nwn in Hlw_date. rewrite orb_false_r in Hdate, Hlw_date.
  (* the date: who wrote it last *)
  destruct (last_tok (libp date_writer) l) as [x|] eqn:Elast.
  2:{ exfalso. apply last_tok_none in Elast.
      apply orb_true_iff in Hdate. destruct Hdate as [H|H].
      - apply andb_true_iff in H. destruct H as [_ H].
        apply (has_mono l _ date_writer) in H; [rewrite Elast in H; discriminate H|hm].
      - rewrite !andb_true_iff in H. destruct H as (((H & _) & _) & _).
        apply (has_mono l _ date_writer) in H; [rewrite Elast in H; discriminate H|hm]. }
  destruct (last_tok_in _ _ _ Elast) as [Hin Hwr].
  assert (Hxok : tok_ok cs x = true) by (rewrite forallb_forall in Hok; apply Hok; exact Hin).
  destruct x as [c| |k|raw|raw]; try discriminate.
  assert (Hcases : (k = LU \/ k = LW) \/ (k = Lm \/ k = Ld \/ k = Le)).
  { destruct k; try discriminate; auto. }
  destruct Hcases as [Hk|Hk].
  - (* a week number decides: FromWeek *)
    assert (Xwd : existsb (libp is_wday) l = true) by (destruct Hk as [->| ->]; exact Hlw_date).
    assert (Ewd : tm_wday (ps_tm S) = wday_sun0 cs) by (unfold S; rewrite fin_wday, Xwd; reflexivity).
    assert (Ewk : (ps_week_num S = week_U cs /\ ps_week_start S = 6) \/
                  (ps_week_num S = week_W cs /\ ps_week_start S = 0)).
    { destruct Hk as [->| ->]; [left|right]; apply wkp_some; unfold S.
      - apply (fin_week_U sp so tm cs off abbr fs t V Iy). rewrite Elast. reflexivity.
      - apply (fin_week_W sp so tm cs off abbr fs t V Iy). rewrite Elast. reflexivity. }
    clearbody S. destruct S as [yr sy tmS sub sof of_ tw af wn ws ss pcs].
    destruct tmS as [sec mi hr md mo ty wd yd dst].
    cbn [ps_tm ps_year ps_saw_year ps_subsec ps_saw_offset ps_offset ps_twelve ps_afternoon ps_week_num
         ps_week_start ps_saw_s tm_sec tm_min tm_hour tm_year tm_wday] in *.
    subst sec mi hr ty wd yr sy sub sof of_ tw af ss.
    apply FWK. exact Ewk.
  - (* month and day *)
    assert (Xmd : existsb (libp is_Lm) l = true /\ existsb (libp is_Ld) l = true).
    { apply orb_true_iff in Hdate. destruct Hdate as [H|H].
      - apply andb_true_iff in H. destruct H as [H1 H2].
        split; [apply (has_mono l _ is_Lm) in H1|apply (has_mono l _ is_Ld) in H2]; try assumption; hm.
      - exfalso. rewrite !andb_true_iff in H. destruct H as ((_ & H) & _). apply negb_true_iff in H.
        assert (X : has l (fun k => match k with Lm | Ld | Le => true | _ => false end) = true).
        { unfold has. apply (in_existsb _ _ _ Hin). destruct Hk as [->|[->| ->]]; reflexivity. }
        rewrite X in H. discriminate H. }
    destruct Xmd as [Xm Xd].
    assert (Emon : tm_mon (ps_tm S) = fm cs - 1) by (unfold S; rewrite fin_mon, Xm; reflexivity).
    assert (Emday : tm_mday (ps_tm S) = fd cs) by (unfold S; rewrite fin_mday, Xd; reflexivity).
    assert (Ewn : ps_week_num S = -1).
    { apply wkp_none. unfold S. apply fin_week_md. rewrite Elast. destruct Hk as [->|[->| ->]]; reflexivity. }
    clearbody S. destruct S as [yr sy tmS sub sof of_ tw af wn ws ss pcs].
    destruct tmS as [sec mi hr md mo ty wd yd dst].
    cbn [ps_tm ps_year ps_saw_year ps_subsec ps_saw_offset ps_offset ps_twelve ps_afternoon ps_week_num
         ps_week_start ps_saw_s tm_sec tm_min tm_hour tm_year tm_wday tm_mon tm_mday] in *.
    subst sec mi hr ty md mo yr sy sub sof of_ tw af ss wn.
    apply FMD.
Qed.
Print Assumptions lossless_roundtrip.

(* the same theorem with the three booleans as separate hypotheses *)
Corollary lossless_roundtrip_sep : forall strftime_o strptime_o utc tz fmt al fs t,
  reset_to_builtin_utc 0 = OK utc ->
  lossless_fmt fmt (al_off al) (fy (al_cs al)) = true ->
  last_writer_ok fmt (al_off al) (fy (al_cs al)) = true ->
  no_other fmt = true ->
  valid_fields (al_cs al) = true -> int64 (fy (al_cs al)) -> -86400 < al_off al < 86400 ->
  0 <= fs < 10 ^ 15 -> int64 t ->
  sec_of (al_cs al) = t + al_off al ->
  exists txt, format_impl strftime_o fmt al fs t = OK txt /\
              parse_impl strptime_o tz utc fmt txt = OK (Some (t, if has_percent_s fmt then 0 else fs)).
Proof.
  intros so sp utc tz fmt al fs t Hutc HL HW HN. apply lossless_roundtrip; auto.
  unfold lossless_lib. rewrite HL, HN. reflexivity.
Qed.
Print Assumptions lossless_roundtrip_sep.

(* ================================================================== *)
(* Witnesses: each clause of last_writer_ok excludes formats that       *)
(* lossless_fmt accepts and that do NOT round-trip (model = cctz)       *)

Definition wit_so (_ : list Z) (_ : tmrec) : list Z := [].
Definition wit_sp (_ _ : list Z) (_ : tmrec) : option (list Z * tmrec) := None.
Definition wit_utc : zone :=
  match reset_to_builtin_utc 0 with OK z => z | Err _ => mkZone [] [] 0 [] [] false 0 end.
Definition wit_al (t off : Z) : alookup := mkAL (civil_of_seconds (t + off)) off false [85; 84; 67].

(* format at (t, fs) in the fixed zone of offset off, then parse in UTC *)
Definition wit_rt (fmt : list Z) (t off fs : Z) : res (option (Z * Z)) :=
  do txt <- format_impl wit_so fmt (wit_al t off) fs t ;; parse_impl wit_sp wit_utc wit_utc fmt txt.
Definition wit_flags (fmt : list Z) (t off : Z) : bool * bool * bool :=
  let y := fy (al_cs (wit_al t off)) in
  (lossless_fmt fmt off y, no_other fmt, last_writer_ok fmt off y).

Lemma wit_utc_ok : reset_to_builtin_utc 0 = OK wit_utc.
Proof. vm_compute. reflexivity. Qed.

(* the hypotheses of the theorem are satisfiable, and its conclusion is what the model computes:
   "%E4Y%%%W/%w %H:%M:%S.%E15f%:::z", year -27, offset -30 s *)
Definition fmt_ok1 : list Z :=
  [37;69;52;89;37;37;37;87;47;37;119;32;37;72;58;37;77;58;37;83;46;37;69;49;53;102;37;58;58;58;122].
Example roundtrip_nonvacuous :
  wit_flags fmt_ok1 (-63000000000) (-30) = (true, true, true) /\
  valid_fields (al_cs (wit_al (-63000000000) (-30))) = true /\
  wit_rt fmt_ok1 (-63000000000) (-30) 999999999999999 = OK (Some (-63000000000, 999999999999999)).
Proof. vm_compute. repeat split; reflexivity. Qed.

(* "%Y-%m-%e %H:%M:%E*S %E*z" with a one-digit day (blank-padded %e) *)
Definition fmt_ok2 : list Z :=
  [37;89;45;37;109;45;37;101;32;37;72;58;37;77;58;37;69;42;83;32;37;69;42;122].
Example roundtrip_e_day :
  wit_flags fmt_ok2 1699000000 (-3601) = (true, true, true) /\
  wit_rt fmt_ok2 1699000000 (-3601) 1 = OK (Some (1699000000, 1)).
Proof. vm_compute. repeat split; reflexivity. Qed.

(* (1) "%Y-%m-%d %U %H:%M:%E*S%E*z": a week number after the day, no weekday:
       FromWeek uses Thursday and overrides month and day *)
Definition fmt_bad_week : list Z :=
  [37;89;45;37;109;45;37;100;32;37;85;32;37;72;58;37;77;58;37;69;42;83;37;69;42;122].
Example week_after_day_refuted :
  wit_flags fmt_bad_week 1700000000 3601 = (true, true, false) /\
  wit_rt fmt_bad_week 1700000000 3601 123 = OK (Some (1700172800, 123)).
Proof. vm_compute. split; reflexivity. Qed.

(* (2) "%Y-%m-%d %H:%M:%E*S %E3f %E*z": a truncating fraction after the full one *)
Definition fmt_bad_frac : list Z :=
  [37;89;45;37;109;45;37;100;32;37;72;58;37;77;58;37;69;42;83;32;37;69;51;102;32;37;69;42;122].
Example truncating_fraction_last_refuted :
  wit_flags fmt_bad_frac 1700000000 3601 = (true, true, false) /\
  wit_rt fmt_bad_frac 1700000000 3601 123 = OK (Some (1700000000, 0)).
Proof. vm_compute. split; reflexivity. Qed.

(* (3) "%Y-%m-%d %H:%M:%E*S %E*z %z": a minute-resolution offset after the full one *)
Definition fmt_bad_off : list Z :=
  [37;89;45;37;109;45;37;100;32;37;72;58;37;77;58;37;69;42;83;32;37;69;42;122;32;37;122].
Example minute_offset_last_refuted :
  wit_flags fmt_bad_off 1700000000 3601 = (true, true, false) /\
  wit_rt fmt_bad_off 1700000000 3601 123 = OK (Some (1700000001, 123)).
Proof. vm_compute. split; reflexivity. Qed.

(* (4) "%Y %E4Y-%m-%d %H:%M:%E*S %E*z" in year 55840: %E4Y renders five digits, parse reads four *)
Definition fmt_bad_e4y : list Z :=
  [37;89;32;37;69;52;89;45;37;109;45;37;100;32;37;72;58;37;77;58;37;69;42;83;32;37;69;42;122].
Example e4y_beside_Y_refuted :
  wit_flags fmt_bad_e4y 1700000000000 3601 = (true, true, false) /\
  wit_rt fmt_bad_e4y 1700000000000 3601 123 = OK None.
Proof. vm_compute. split; reflexivity. Qed.
(*     "%s %E4Y" likewise *)
Example e4y_beside_s_refuted :
  wit_flags [37;115;32;37;69;52;89] 1700000000000 3601 = (true, true, false) /\
  wit_rt [37;115;32;37;69;52;89] 1700000000000 3601 0 = OK None.
Proof. vm_compute. split; reflexivity. Qed.

(* (5) "%Y %E0f %m-%d %H:%M:%E*S%E*z": the white space after the empty "%E0f" is skipped with the
       white space before it, and %E0f then swallows the month *)
Definition fmt_bad_e0f : list Z :=
  [37;89;32;37;69;48;102;32;37;109;45;37;100;32;37;72;58;37;77;58;37;69;42;83;37;69;42;122].
Example e0f_before_space_refuted :
  wit_flags fmt_bad_e0f 1700000000 3601 = (true, true, false) /\
  wit_rt fmt_bad_e0f 1700000000 3601 123 = OK None.
Proof. vm_compute. split; reflexivity. Qed.

(* (6) %s denotes whole seconds: the fraction comes back as zero *)
Example percent_s_drops_fraction :
  wit_flags [37;115] 1700000000 3601 = (true, true, true) /\
  wit_rt [37;115] 1700000000 3601 123 = OK (Some (1700000000, 0)).
Proof. vm_compute. split; reflexivity. Qed.
