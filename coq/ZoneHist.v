(* ZoneHist.v — the hidden state of a TimeZoneInfo (the two search hints) made
   explicit: a history of operations threads the hints; C14 says the answers
   do not depend on them. *)
From CCTZ Require Import Base Cal CivilImpl ZoneLoad ZoneImpl.
Local Open Scope Z_scope.

Inductive zop :=
| OpBreak (t : Z)
| OpMake (cs : fields)
| OpNext (t : Z)
| OpPrev (t : Z).

Inductive zans :=
| ABreak (r : res alookup)
| AMake (r : res clookup)
| ATrans (r : res (option (fields * fields))).

Definition res_fst {A B} (r : res (A * B)) : res A :=
  match r with OK (a, _) => OK a | Err e => Err e end.
Definition res_snd_or {A} (r : res (A * Z)) (dflt : Z) : Z :=
  match r with OK (_, h) => h | Err _ => dflt end.

(* one operation from hidden state (local_time_hint_, time_local_hint_) *)
Definition step_op (z : zone) (st : Z * Z) (o : zop) : (Z * Z) * zans :=
  match o with
  | OpBreak t => let r := break_time z (fst st) t in ((res_snd_or r (fst st), snd st), ABreak (res_fst r))
  | OpMake cs => let r := make_time z (snd st) cs in ((fst st, res_snd_or r (snd st)), AMake (res_fst r))
  | OpNext t => (st, ATrans (next_transition z t))
  | OpPrev t => (st, ATrans (prev_transition z t))
  end.

Fixpoint run_ops (z : zone) (st : Z * Z) (ops : list zop) : list zans :=
  match ops with
  | [] => []
  | o :: r => let '(st', a) := step_op z st o in a :: run_ops z st' r
  end.

(* the sortedness facts that Load establishes (civil-order check at
   time_zone_info.cc:801-807; unix-time order for file transitions at :684) *)
Fixpoint times_sorted_l (l : list transition) : bool :=
  match l with
  | a :: ((b :: _) as r) => (tr_time a <? tr_time b) && times_sorted_l r
  | _ => true
  end.
Fixpoint civil_sorted_l (l : list transition) : bool :=
  match l with
  | a :: ((b :: _) as r) => lt64 (tr_cs a) (tr_cs b) && civil_sorted_l r
  | _ => true
  end.
Definition table_sorted (z : zone) : bool :=
  times_sorted_l (z_trans z) && civil_sorted_l (z_trans z).
