(* Properties_C15z.v — C15 (zone part), C10 and the table part of C01/C02:
   the implementation-level functions (six-field civil seconds, checked int64
   arithmetic) compute exactly the integer-level functions about which the
   property theorems are proved, on every zone satisfying the certificate
   zone_ok; and every built-in fixed-offset zone satisfies it. *)
From CCTZ Require Import Base Cal CivilImpl PosixImpl FixedImpl ZoneLoad ZoneImpl ZoneZ ZoneHist ZoneRefineDefs ZoneRefine.
Local Open Scope Z_scope.

(* instant -> civil, table region (every t when the zone is not extended) *)
Theorem break_refines : forall z h t, zone_ok z = true -> int64 t ->
  (z_extended z = false \/ (forall l, last_opt (z_trans z) = Some l -> t < tr_time l)) ->
  exists h' dst ab,
    break_time z h t = OK (mkAL (civil_of_seconds (t + zoff (abs_zone z) t)) (zoff (abs_zone z) t) dst ab, h')
    /\ info_of z (zid (abs_zone z) t) = OK (dst, ab).
Proof. exact break_refines_lemma. Qed.
Print Assumptions break_refines.

(* civil -> instant: the integer-level answer, clamped to the time_point range *)
Definition clamp (v : Z) : Z := Z.max min64 (Z.min max64 v).
Definition kind_of (k : zkind) : ckind := match k with ZU => UNIQUE | ZS => SKIPPED | ZR => REPEATED end.

Theorem make_refines : forall z h cs, zone_ok z = true -> valid_fields cs = true -> int64 (fy cs) ->
  (z_extended z = false \/ fy cs <= z_last_year z) ->
  exists h',
    let c := zmake (abs_zone z) (sec_of cs) in
    make_time z h cs = OK (mkCL (kind_of (zk c)) (clamp (zpre c)) (clamp (ztrans c)) (clamp (zpost c)), h').
Proof. exact make_refines_lemma. Qed.
Print Assumptions make_refines.

(* every built-in fixed-offset zone (|off| <= 24h, including exactly 24h)
   satisfies the certificate, is not extended, and has the documented
   abbreviation: with break_refines / make_refines this is "lookup reports
   exactly that offset, no DST and the numeric abbreviation at EVERY instant,
   without overflow" *)
Theorem fixed_zone_ok : forall off, -86400 <= off <= 86400 ->
  exists z, reset_to_builtin_utc off = OK z /\ zone_ok z = true /\ z_extended z = false /\
    (forall t, zoff (abs_zone z) t = off) /\
    (forall t, info_of z (zid (abs_zone z) t) = OK (false, fixed_abbr_spec off)).
Proof. exact fixed_zone_ok_lemma. Qed.
Print Assumptions fixed_zone_ok.
