(* FormatImpl.v — IMPL64 layer: format() and its helpers from
   src/time_zone_format.cc (:108-225, :329-572).  strftime(3) is a Section
   variable (an oracle), never an axiom: [strftime_o fmt tm] is the complete
   rendering libc would produce given unlimited space. *)
From CCTZ Require Import Base SrcConstants Cal CivilImpl PosixImpl ZoneLoad.
Local Open Scope Z_scope.

Record tmrec := mkTM {
  tm_sec : Z; tm_min : Z; tm_hour : Z; tm_mday : Z; tm_mon : Z; tm_year : Z;
  tm_wday : Z; tm_yday : Z; tm_isdst : Z
}.

(* ToTmWday: cctz weekday (monday = 0) -> tm_wday (sunday = 0) *)
Definition to_tm_wday (w : Z) : Z := if w =? 6 then 0 else w + 1.
Definition from_tm_wday (w : Z) : Z := if w =? 0 then 6 else w - 1.

(* ToTM (:108-129): tm_year saturates *)
Definition to_tm (al : alookup) : res tmrec :=
  let cs := al_cs al in
  let y := fy cs in
  let tm_year :=
    if y <? min32 + 1900 then min32
    else if max32 <? y - 1900 then max32   (* y - 1900 cannot overflow here: y >= min32 + 1900 *)
    else y - 1900 in
  do wd <- get_weekday64 cs ;;
  do yd <- get_yearday64 cs ;;
  OK (mkTM (fss cs) (fmm cs) (fhh cs) (fd cs) (fm cs - 1) tm_year (to_tm_wday wd) (yd - 1)
           (if al_dst al then 1 else 0)).

(* ToWeek (:133-136) *)
Definition to_week (cd : fields) (week_start : Z) : res Z :=
  do d <- construct64 3 (Z.rem (fy cd) 400) (fm cd) (fd cd) 0 0 0 ;;
  let y := align64 5 d in
  do p <- prev_weekday64 y week_start ;;
  do diff <- difference64 3 d p ;;
  OK (Z.quot diff 7).

(* the scratch buffer: char buf[3 + kDigits10_64]; a conversion that would
   write more bytes than that before ep is an out-of-bounds write *)
Definition scratch_size : Z := src_fmt_scratch_extra + src_kDigits10_64.
Definition fits (bs : list Z) : res (list Z) :=
  if Z.of_nat (length bs) <=? scratch_size then OK bs else Err OOB.

Definition digit_char (d : Z) : res Z :=
  match (if d <? 0 then None else nth_error kDigits (Z.to_nat d)) with
  | Some c => OK c
  | None => Err OOB
  end.

(* do { *--ep = kDigits[v % 10]; } while (v /= 10);   for v >= 0 *)
Fixpoint fmt_digits (fuel : nat) (v : Z) (acc : list Z) : res (list Z) :=
  match fuel with
  | O => Err Fuel
  | S f =>
      do c <- digit_char (Z.rem v 10) ;;
      let acc' := c :: acc in
      let v' := Z.quot v 10 in
      if v' =? 0 then OK acc' else fmt_digits f v' acc'
  end.

(* Format64 (:143-168): the bytes written, most significant first *)
Definition format64 (width : Z) (v : Z) : res (list Z) :=
  let neg := v <? 0 in
  do '(v1, last, w1) <-
     (if neg then
        if v =? min64 then
          (* avoid negating the minimum value: peel the last digit first *)
          let ld := - (Z.rem v 10) in
          let vq := Z.quot v 10 in
          let '(vq2, ld2) := if ld <? 0 then (vq + 1, ld + 10) else (vq, ld) in
          do c <- digit_char ld2 ;;
          do nv <- neg64 vq2 ;;
          OK (nv, [c], width - 2)
        else (do nv <- neg64 v ;; OK (nv, [], width - 1))
      else OK (v, [], width)) ;;
  do ds <- fmt_digits 25 v1 last ;;
  let ndig := Z.of_nat (length ds) - Z.of_nat (length last) in
  let pad := Z.to_nat (w1 - ndig) in
  let body := repeat 48 pad ++ ds in
  fits (if neg then 45 :: body else body).

(* Format02d (:171-175) *)
Definition format02d (v : Z) : res (list Z) :=
  do a <- digit_char (Z.rem (Z.quot v 10) 10) ;;
  do b <- digit_char (Z.rem v 10) ;;
  OK [a; b].

(* FormatOffset (:178-208); mode is "" , ":" , ":*" or ":*:" *)
Definition format_offset (offset : Z) (mode : list Z) : res (list Z) :=
  do '(off, sign0) <- (if offset <? 0 then (do o <- neg32 offset ;; OK (o, 45)) else OK (offset, 43)) ;;
  let seconds := Z.rem off 60 in
  let off1 := Z.quot off 60 in
  let minutes := Z.rem off1 60 in
  let hours := Z.quot off1 60 in
  let sep := nthZ mode 0 in
  let ext := negb (sep =? 0) && (nthZ mode 1 =? 42) in
  let ccc := ext && (nthZ mode 2 =? 58) in
  do ss <- format02d seconds ;;
  do mm <- format02d minutes ;;
  do hh <- format02d hours ;;
  let with_sec := ext && (negb ccc || negb (seconds =? 0)) in
  let sign := if with_sec then sign0
              else if (hours =? 0) && (minutes =? 0) then 43 else sign0 in
  let tail_sec := if with_sec then sep :: ss else [] in
  let tail_min := if negb ccc || negb (minutes =? 0) || negb (seconds =? 0)
                  then (if negb (sep =? 0) then sep :: mm else mm) else [] in
  fits (sign :: hh ++ tail_min ++ tail_sec).

(* ParseInt<int>(dp, width, min, max, &v) (:228-277) on a NUL-terminated
   string given as the remaining bytes.  Returns None for nullptr. *)
Section ParseIntSec.
Variable kmin : Z.      (* std::numeric_limits<T>::min() *)

Fixpoint parse_int_loop (p : list Z) (width : Z) (value : Z) (n : nat) : (Z * list Z * nat * bool) :=
  (* returns (value, rest, digits consumed, erange) *)
  match p with
  | [] => (value, p, n, false)
  | c :: r =>
      match strchr kDigits c with
      | None => (value, p, n, false)
      | Some d =>
          if 10 <=? d then (value, p, n, false)
          else if value <? Z.quot kmin 10 then (value, p, n, true)
          else let v10 := value * 10 in
               if v10 <? kmin + d then (v10, p, n, true)
               else
                 let v' := v10 - d in
                 if (0 <? width) && (width - 1 =? 0) then (v', r, S n, false)
                 else parse_int_loop r (if 0 <? width then width - 1 else width) v' (S n)
      end
  end.

Definition parse_int (dp : list Z) (width lo hi : Z) : option (Z * list Z) :=
  let '(neg, start, w1) :=
    match dp with
    | 45 :: r =>
        if (width <=? 0) || negb (width - 1 =? 0) then (true, Some r, if width <=? 0 then width else width - 1)
        else (true, None, width - 1)
    | _ => (false, Some dp, width)
    end in
  match start with
  | None => None
  | Some bp =>
      let '(value, rest, n, erange) := parse_int_loop bp w1 0 0 in
      if negb (Nat.eqb n 0) && negb erange && (neg || negb (value =? kmin)) then
        if negb neg || negb (value =? 0) then
          let v := if neg then value else - value in
          if (lo <=? v) && (v <=? hi) then Some (v, rest) else None
        else None
      else None
  end.
End ParseIntSec.

Definition parse_int32 := parse_int min32.
Definition parse_int64 := parse_int min64.

Definition kExp10 (i : Z) : res Z :=
  match (if i <? 0 then None else nth_error src_kExp10 (Z.to_nat i)) with
  | Some v => OK v
  | None => Err OOB
  end.

Section Format.
Variable strftime_o : list Z -> tmrec -> list Z.

(* FormatTM (:211-225): buffer sizes fmt.size() * {2,4,8,16}; strftime returns 0
   when the rendering plus NUL does not fit (and for an empty rendering) *)
Definition format_tm (fmt : list Z) (tm : tmrec) : list Z :=
  let r := strftime_o (c_str fmt) tm in
  if Z.of_nat (length r) + 1 <=? 16 * Z.of_nat (length fmt) then r else [].

Fixpoint span_while (f : Z -> bool) (l : list Z) : list Z * list Z :=
  match l with
  | c :: r => if f c then let '(a, b) := span_while f r in (c :: a, b) else ([], l)
  | [] => ([], [])
  end.

Definition simple_set : list Z := [89;109;100;101;85;117;87;119;72;77;83;122;90;115;37]. (* "YmdeUuWwHMSzZs%" *)

Record fctx := mkFC { fc_al : alookup; fc_tm : tmrec; fc_fs : Z; fc_unix : Z }.

(* the "simple specifiers that we handle ourselves" switch *)
Definition simple_spec (cx : fctx) (c : Z) : res (list Z) :=
  let cs := al_cs (fc_al cx) in
  if c =? 89 then format64 0 (fy cs)
  else if c =? 109 then format02d (fm cs)
  else if c =? 100 then format02d (fd cs)
  else if c =? 101 then
    (do b <- format02d (fd cs) ;;
     OK (match b with 48 :: r => 32 :: r | _ => b end))
  else if c =? 85 then (do w <- to_week (align64 3 cs) 6 ;; format02d w)
  else if c =? 117 then format64 0 (if negb (tm_wday (fc_tm cx) =? 0) then tm_wday (fc_tm cx) else 7)
  else if c =? 87 then (do w <- to_week (align64 3 cs) 0 ;; format02d w)
  else if c =? 119 then format64 0 (tm_wday (fc_tm cx))
  else if c =? 72 then format02d (fhh cs)
  else if c =? 77 then format02d (fmm cs)
  else if c =? 83 then format02d (fss cs)
  else if c =? 122 then format_offset (al_off (fc_al cx)) []
  else if c =? 90 then OK (al_abbr (fc_al cx))
  else if c =? 115 then format64 0 (fc_unix cx)
  else if c =? 37 then OK [37]
  else OK [].     (* '\0' matched by strchr: no case in the switch *)

Fixpoint strip_trailing_zeros_rev (r : list Z) : list Z :=
  match r with
  | 48 :: t => strip_trailing_zeros_rev t
  | _ => r
  end.

(* %E*S / %E*f (:514-533) *)
Definition ext_star (cx : fctx) (which : Z) : res (list Z) :=
  do d15 <- format64 15 (fc_fs cx) ;;
  let sig := rev (strip_trailing_zeros_rev (rev d15)) in   (* cp moved left over '0's *)
  if which =? 83 then
    do ss <- format02d (fss (al_cs (fc_al cx))) ;;
    fits (ss ++ (match sig with [] => [] | _ => 46 :: sig end))
  else
    OK (match sig with [] => [48] | _ => sig end).

(* %E#S / %E#f (:542-562) *)
Definition ext_num (cx : fctx) (n0 : Z) (which : Z) : res (list Z) :=
  do frac <-
    (if 0 <? n0 then
       let n := if src_kDigits10_64 <? n0 then src_kDigits10_64 else n0 in
       do v <- (if 15 <? n then (do e <- kExp10 (n - 15) ;; mul64 (fc_fs cx) e)
                else (do e <- kExp10 (15 - n) ;; OK (Z.quot (fc_fs cx) e))) ;;
       do ds <- format64 n v ;;
       OK (if which =? 83 then 46 :: ds else ds)
     else OK []) ;;
  if which =? 83 then
    (do ss <- format02d (fss (al_cs (fc_al cx))) ;; fits (ss ++ frac))
  else fits frac.

Definition flush (pre : list Z) (tm : tmrec) : list Z :=
  match pre with [] => [] | _ => format_tm pre tm end.

Definition is_pct (c : Z) : bool := c =? 37.

(* One pass of the while loop of format().  [pend] is the text between
   `pending` and `cur` (not yet rendered), [rest] the unexamined text. *)
Fixpoint fmt_loop (fuel : nat) (cx : fctx) (rest pend result : list Z) : res (list Z) :=
  match fuel with
  | O => Err Fuel
  | S f =>
    match rest with
    | [] => OK (result ++ flush pend (fc_tm cx))
    | _ =>
      let '(lit, r1) := span_while (fun c => negb (is_pct c)) rest in
      (* ordinary text: copied out only when nothing is pending *)
      let '(result1, pend1) :=
        match lit, pend with
        | _ :: _, [] => (result ++ lit, [])
        | _, _ => (result, pend ++ lit)
        end in
      let '(pcs, r2) := span_while is_pct r1 in
      let p := Z.of_nat (length pcs) in
      let at_end := match r2 with [] => true | _ => false end in
      let '(result2, pend2) :=
        match pcs, pend1 with
        | _ :: _, [] =>
            let escaped := Z.to_nat (Z.quot p 2) in
            let odd := negb (Z.rem p 2 =? 0) in
            if odd && at_end then (result1 ++ repeat 37 escaped ++ [37], [])
            else (result1 ++ repeat 37 escaped, if odd then [37] else [])
        | _, _ => (result1, pend1 ++ pcs)
        end in
      match r2 with
      | [] => OK (result2 ++ flush pend2 (fc_tm cx))
      | c :: r3 =>
        if Z.rem p 2 =? 0 then fmt_loop f cx r2 pend2 result2
        else
          (* an unescaped percent: pend2 ends with it *)
          let pre := removelast pend2 in
          match strchr simple_set c with
          | Some _ =>
              do s <- simple_spec cx c ;;
              fmt_loop f cx r3 [] (result2 ++ flush pre (fc_tm cx) ++ s)
          | None =>
            let colon_case : option (list Z * list Z) :=   (* (mode, rest after the spec) *)
              if c =? 58 then
                match r3 with
                | 122 :: r4 => Some ([58], r4)
                | 58 :: 122 :: r4 => Some ([58; 42], r4)
                | 58 :: 58 :: 122 :: r4 => Some ([58; 42; 58], r4)
                | _ => None
                end
              else None in
            match colon_case with
            | Some (mode, r4) =>
                do s <- format_offset (al_off (fc_al cx)) mode ;;
                fmt_loop f cx r4 [] (result2 ++ flush pre (fc_tm cx) ++ s)
            | None =>
              if negb (c =? 69) then fmt_loop f cx r2 pend2 result2
              else
                match r3 with
                | [] => fmt_loop f cx [] (pend2 ++ [69]) result2      (* "%E" at the end *)
                | d :: r4 =>
                  let pendE := pend2 ++ [69] in
                  let done (s : list Z) (rr : list Z) :=
                    fmt_loop f cx rr [] (result2 ++ flush pre (fc_tm cx) ++ s) in
                  if d =? 84 then done [84] r4
                  else if d =? 122 then
                    (do s <- format_offset (al_off (fc_al cx)) [58] ;; done s r4)
                  else
                    match d, r4 with
                    | 42, 122 :: r5 =>
                        do s <- format_offset (al_off (fc_al cx)) [58; 42] ;; done s r5
                    | 42, 83 :: r5 => do s <- ext_star cx 83 ;; done s r5
                    | 42, 102 :: r5 => do s <- ext_star cx 102 ;; done s r5
                    | 52, 89 :: r5 =>
                        do s <- format64 4 (fy (al_cs (fc_al cx))) ;; done s r5
                    | _, _ =>
                        if is_digit d then
                          match parse_int32 r3 0 0 1024 with
                          | Some (n, 83 :: r5) => do s <- ext_num cx n 83 ;; done s r5
                          | Some (n, 102 :: r5) => do s <- ext_num cx n 102 ;; done s r5
                          | _ => fmt_loop f cx r3 pendE result2
                          end
                        else fmt_loop f cx r3 pendE result2
                    end
                end
            end
          end
      end
    end
  end.

(* format(fmt, tp, fs, tz) given the lookup result *)
Definition format_impl (fmt : list Z) (al : alookup) (fs : Z) (unix : Z) : res (list Z) :=
  do tm <- to_tm al ;;
  fmt_loop (2 * length fmt + 2) (mkFC al tm fs unix) fmt [] [].

End Format.
