(* SubSecondDefs.v - MODEL of the next_transition / prev_transition templates of include/cctz/time_zone.h for time_points
   finer (or coarser) than seconds: split_seconds (SplitJoin.v), then the whole-second query (ZoneImpl.v).  Proofs in SubSecond.v. *)
From CCTZ Require Import Base Cal CivilImpl ZoneLoad ZoneImpl SplitJoin.
Local Open Scope Z_scope.

Definition next_transition_sub (z : zone) (num den c : Z) : res (option (fields * fields)) :=
  do sp <- split_seconds num den c ;; next_transition z (fst sp).

(* time_zone.h after the fix: a transition at the whole second at or below tp is strictly before tp when tp has a
   sub-second part (`sec < tp`, compared by <chrono> in the common type of period 1/den), so round up - unless that
   would leave the range *)
Definition prev_transition_sub (z : zone) (num den c : Z) : res (option (fields * fields)) :=
  do sp <- split_seconds num den c ;;
  do a <- mul64 (fst sp) den ;;
  do b <- mul64 c num ;;
  prev_transition z (if (a <? b) && negb (fst sp =? max64) then fst sp + 1 else fst sp).

(* the pre-fix template (kept for the refutation) *)
Definition prev_transition_sub_floor (z : zone) (num den c : Z) : res (option (fields * fields)) :=
  do sp <- split_seconds num den c ;; prev_transition z (fst sp).

