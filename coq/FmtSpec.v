(* FmtSpec.v — SPEC layer for C08 (and the composition C07): the documented
   rendering of each library-defined specifier as a function of the civil
   fields, UTC offset, abbreviation, sub-second value and unix time, written
   with plain decimal arithmetic on Z; and a lexer that splits a format string
   into literal bytes, library specifiers and strftime specifiers. *)
From CCTZ Require Import Base Cal CivilImpl PosixImpl ZoneLoad FormatImpl.
Local Open Scope Z_scope.

Inductive libspec :=
| LY | Lm | Ld | Le | LU | Lu | LW | Lw | LH | LM | LS | Lz | LZ | Ls
| Lcz | Lccz | Lcccz              (* %:z %::z %:::z *)
| LEz | LEsz                      (* %Ez %E*z *)
| LEnS (n : Z) | LEsS | LEnf (n : Z) | LEsf
| LE4Y | LET.

Inductive ftok :=
| FLit (c : Z)
| FPct
| FLib (k : libspec)
| FOther (raw : list Z)           (* "%x", "%Ex", "%Ox": strftime's business *)
| FQuirk (raw : list Z).          (* dangling '%', "%E", embedded NUL: outside the spec *)

Fixpoint take_digits_f (l : list Z) : list Z * list Z :=
  match l with
  | c :: r => if is_digit c then let '(a, b) := take_digits_f r in (c :: a, b) else ([], l)
  | [] => ([], [])
  end.
Definition is_alpha (c : Z) : bool := ((65 <=? c) && (c <=? 90)) || ((97 <=? c) && (c <=? 122)).
Definition is_flag (c : Z) : bool := (c =? 95) || (c =? 45) || (c =? 48) || (c =? 94) || (c =? 35) || (c =? 43).
Fixpoint take_while_f (p : Z -> bool) (l : list Z) : list Z * list Z :=
  match l with
  | c :: r => if p c then let '(a, b) := take_while_f p r in (c :: a, b) else ([], l)
  | [] => ([], [])
  end.
Definition digits_val (ds : list Z) : Z := fold_left (fun a c => a * 10 + (c - 48)) ds 0.

Fixpoint lex_fuel (fuel : nat) (l : list Z) : list ftok :=
  match fuel with
  | O => []
  | S f =>
    match l with
    | [] => []
    | 37 :: r =>
        match r with
        | [] => [FQuirk [37]]
        | 37 :: r' => FPct :: lex_fuel f r'
        | 58 :: 122 :: r' => FLib Lcz :: lex_fuel f r'
        | 58 :: 58 :: 122 :: r' => FLib Lccz :: lex_fuel f r'
        | 58 :: 58 :: 58 :: 122 :: r' => FLib Lcccz :: lex_fuel f r'
        | 69 :: r' =>
            match r' with
            | [] => [FQuirk [37; 69]]
            | 84 :: r2 => FLib LET :: lex_fuel f r2
            | 122 :: r2 => FLib LEz :: lex_fuel f r2
            | 42 :: 122 :: r2 => FLib LEsz :: lex_fuel f r2
            | 42 :: 83 :: r2 => FLib LEsS :: lex_fuel f r2
            | 42 :: 102 :: r2 => FLib LEsf :: lex_fuel f r2
            | 52 :: 89 :: r2 => FLib LE4Y :: lex_fuel f r2
            | d :: r2 =>
                if is_digit d then
                  let '(ds, r3) := take_digits_f r' in
                  match r3 with
                  | 83 :: r4 => if digits_val ds <=? 1024 then FLib (LEnS (digits_val ds)) :: lex_fuel f r4
                                else FQuirk (37 :: 69 :: ds) :: lex_fuel f r3
                  | 102 :: r4 => if digits_val ds <=? 1024 then FLib (LEnf (digits_val ds)) :: lex_fuel f r4
                                 else FQuirk (37 :: 69 :: ds) :: lex_fuel f r3
                  | _ => FQuirk (37 :: 69 :: ds) :: lex_fuel f r3
                  end
                else if negb (is_alpha d) then FQuirk [37; 69] :: lex_fuel f r'
                else FOther [37; 69; d] :: lex_fuel f r2
            end
        | 79 :: d :: r2 => if negb (is_alpha d) then FQuirk [37; 79] :: lex_fuel f (d :: r2) else FOther [37; 79; d] :: lex_fuel f r2
        | c :: r' =>
            if c =? 89 then FLib LY :: lex_fuel f r'
            else if c =? 109 then FLib Lm :: lex_fuel f r'
            else if c =? 100 then FLib Ld :: lex_fuel f r'
            else if c =? 101 then FLib Le :: lex_fuel f r'
            else if c =? 85 then FLib LU :: lex_fuel f r'
            else if c =? 117 then FLib Lu :: lex_fuel f r'
            else if c =? 87 then FLib LW :: lex_fuel f r'
            else if c =? 119 then FLib Lw :: lex_fuel f r'
            else if c =? 72 then FLib LH :: lex_fuel f r'
            else if c =? 77 then FLib LM :: lex_fuel f r'
            else if c =? 83 then FLib LS :: lex_fuel f r'
            else if c =? 122 then FLib Lz :: lex_fuel f r'
            else if c =? 90 then FLib LZ :: lex_fuel f r'
            else if c =? 115 then FLib Ls :: lex_fuel f r'
            else if (c =? 0) || (c =? 58) || (c =? 79) then FQuirk [37; c] :: lex_fuel f r'
            else if is_flag c || is_digit c then
              (* glibc: % flags* width* [E|O] conversion *)
              let '(fl, r1) := take_while_f is_flag r in
              let '(wd, r2) := take_digits_f r1 in
              match r2 with
              | 69 :: x :: r3 | 79 :: x :: r3 =>
                  if negb (is_alpha x) then FQuirk (37 :: fl ++ wd) :: lex_fuel f r2
                  else FOther (37 :: fl ++ wd ++ [nthZ r2 0; x]) :: lex_fuel f r3
              | x :: r3 =>
                  if negb (is_alpha x) then FQuirk (37 :: fl ++ wd) :: lex_fuel f r2
                  else FOther (37 :: fl ++ wd ++ [x]) :: lex_fuel f r3
              | [] => [FQuirk (37 :: fl ++ wd)]
              end
            else if negb (is_alpha c) then FQuirk [37; c] :: lex_fuel f r'
            else FOther [37; c] :: lex_fuel f r'
        end
    | c :: r => FLit c :: lex_fuel f r
    end
  end.
Definition lex (l : list Z) : list ftok := lex_fuel (S (length l)) l.

(* ---- documented renderings ---- *)
Definition dec (v : Z) : list Z := if v <? 0 then 45 :: dec_digits (- v) else dec_digits v.
Definition pad_left (w : nat) (c : Z) (s : list Z) : list Z := repeat c (w - length s) ++ s.
Definition dec2 (v : Z) : list Z := pad_left 2 48 (dec_digits v).

(* a value in a field of [w] characters, zero padded, sign included in the width *)
Definition dec_width (w : nat) (v : Z) : list Z :=
  if v <? 0 then 45 :: pad_left (w - 1) 48 (dec_digits (- v)) else pad_left w 48 (dec_digits v).

(* +hh / mm / ss of an offset *)
Definition off_parts (off : Z) : Z * Z * Z * Z :=
  let a := Z.abs off in (if off <? 0 then 45 else 43, a / 3600, (a / 60) mod 60, a mod 60).

Definition render_offset (off : Z) (sep : list Z) (show_sec : bool) (elide : bool) : list Z :=
  let '(sg, hh, mm, ss) := off_parts off in
  if elide then
    (* %:::z : +hh[:mm[:ss]] with minimal precision *)
    [sg] ++ dec2 hh ++ (if (mm =? 0) && (ss =? 0) then [] else sep ++ dec2 mm)
         ++ (if ss =? 0 then [] else sep ++ dec2 ss)
  else if show_sec then [sg] ++ dec2 hh ++ sep ++ dec2 mm ++ sep ++ dec2 ss
  else
    (* seconds are dropped (rounding toward zero); an offset that becomes zero is "+" *)
    [if (hh =? 0) && (mm =? 0) then 43 else sg] ++ dec2 hh ++ sep ++ dec2 mm.

(* first n digits of the 15-digit femtosecond fraction, zero-extended beyond 15 (n capped at 18) *)
Definition frac_digits (fs : Z) (n : Z) : list Z :=
  let n' := if 18 <? n then 18 else n in
  if n' <=? 15 then pad_left (Z.to_nat n') 48 (dec_digits (fs / 10 ^ (15 - n')))
  else pad_left 15 48 (dec_digits fs) ++ repeat 48 (Z.to_nat (n' - 15)).
Fixpoint strip_zeros_r (r : list Z) : list Z := match r with 48 :: t => strip_zeros_r t | _ => r end.
Definition frac_min (fs : Z) : list Z := rev (strip_zeros_r (rev (pad_left 15 48 (dec_digits fs)))).

(* weekday numbers from the calendar *)
Definition wday_sun0 (f : fields) : Z := (weekday_of_days (days_from_civil (fy f) (fm f) (fd f)) + 1) mod 7.
Definition yday0 (f : fields) : Z := days_from_civil (fy f) (fm f) (fd f) - days_from_civil (fy f) 1 1.

Definition render_lib (k : libspec) (cs : fields) (off : Z) (abbr : list Z) (fs : Z) (unix : Z) : list Z :=
  match k with
  | LY => dec (fy cs)
  | Lm => dec2 (fm cs)
  | Ld => dec2 (fd cs)
  | Le => pad_left 2 32 (dec_digits (fd cs))
  | LU => dec2 ((yday0 cs + 7 - wday_sun0 cs) / 7)
  | LW => dec2 ((yday0 cs + 7 - (wday_sun0 cs + 6) mod 7) / 7)
  | Lu => dec (if wday_sun0 cs =? 0 then 7 else wday_sun0 cs)
  | Lw => dec (wday_sun0 cs)
  | LH => dec2 (fhh cs)
  | LM => dec2 (fmm cs)
  | LS => dec2 (fss cs)
  | Lz => render_offset off [] false false
  | LZ => abbr
  | Ls => dec unix
  | Lcz | LEz => render_offset off [58] false false
  | Lccz | LEsz => render_offset off [58] true false
  | Lcccz => render_offset off [58] true true
  | LEnS n => dec2 (fss cs) ++ (if 0 <? n then 46 :: frac_digits fs n else [])
  | LEsS => dec2 (fss cs) ++ (match frac_min fs with [] => [] | d => 46 :: d end)
  | LEnf n => if 0 <? n then frac_digits fs n else []
  | LEsf => match frac_min fs with [] => [48] | d => d end
  | LE4Y => dec_width 4 (fy cs)
  | LET => [84]
  end.

Section Render.
Variable strftime_o : list Z -> tmrec -> list Z.

Definition render_tok (t : ftok) (cs : fields) (off : Z) (abbr : list Z) (fs unix : Z) (tm : tmrec) : list Z :=
  match t with
  | FLit c => [c]
  | FPct => [37]
  | FLib k => render_lib k cs off abbr fs unix
  | FOther raw => strftime_o raw tm
  | FQuirk raw => raw
  end.

Definition render_spec (fmt : list Z) (cs : fields) (off : Z) (abbr : list Z) (fs unix : Z) (tm : tmrec) : list Z :=
  flat_map (fun t => render_tok t cs off abbr fs unix tm) (lex fmt).
End Render.

(* the formats the C08 spec speaks about: no dangling / quirky pieces *)
Definition clean_fmt (fmt : list Z) : bool :=
  forallb (fun c => negb (c =? 0)) fmt &&   (* an embedded NUL cuts strftime runs short *)
  forallb (fun t => match t with FQuirk _ => false | _ => true end) (lex fmt).

(* tm the spec hands to strftime: the documented broken-down fields *)
Definition spec_tm (cs : fields) (isdst : bool) : tmrec :=
  let y := fy cs in
  mkTM (fss cs) (fmm cs) (fhh cs) (fd cs) (fm cs - 1)
       (if y <? min32 + 1900 then min32 else if max32 + 1900 <? y then max32 else y - 1900)
       (wday_sun0 cs) (yday0 cs) (if isdst then 1 else 0).

(* ---- C07: lossless formats ---- *)
(* A token list is lossless when it renders year, month+day (or week+weekday),
   hour, minute, full-precision seconds and the full-resolution offset (or is
   %s), and every greedy numeric token is followed by a byte that cannot
   continue it. *)
Definition tok_is (t : ftok) (k : libspec -> bool) : bool := match t with FLib x => k x | _ => false end.
Definition has (l : list ftok) (k : libspec -> bool) : bool := existsb (fun t => tok_is t k) l.

Definition starts_digit (t : ftok) : bool :=
  match t with
  | FLit c => is_digit c
  | FPct => false
  | FLib k => match k with LZ | LET | Lz | Lcz | Lccz | Lcccz | LEz | LEsz => false | _ => true end
  | _ => true
  end.
(* greedy tokens must be followed by a separator that is not a digit (and for
   %Y/%s not a sign-free continuation) *)
Fixpoint separated (l : list ftok) : bool :=
  match l with
  | a :: ((b :: _) as r) =>
      let greedy := match a with
                    | FLib LY | FLib Ls | FLib LEsS | FLib LEsf | FLib (LEnS _) | FLib (LEnf _)
                    | FLib Lu | FLib Lw | FLib LU | FLib LW | FLib LE4Y | FLib Le => true
                    | FLib Lz | FLib Lcz | FLib Lccz | FLib Lcccz | FLib LEz | FLib LEsz => true
                    | _ => false
                    end in
      (* an offset may go on reading ":dd"; seconds may go on reading ".ddd" *)
      let colon_after_offset :=
        match a, b with
        | FLib Lcz, FLit 58 | FLib Lccz, FLit 58 | FLib Lcccz, FLit 58 | FLib LEz, FLit 58 | FLib LEsz, FLit 58 => true
        | _, _ => false
        end in
      let dot_after_seconds :=
        match a, b with
        | FLib LEsS, FLit 46 | FLib (LEnS _), FLit 46 => true
        | _, _ => false
        end in
      (negb greedy || negb (starts_digit b)) && negb colon_after_offset && negb dot_after_seconds && separated r
  | _ => true
  end.

(* "... or locale names instead of month/day": the month by name (%b %B %h) and, harmlessly, the weekday by
   name (%a %A); these go through strftime/strptime (the C locale's names) *)
Definition locale_name_spec (raw : list Z) : bool :=
  match raw with
  | [37; c] => (c =? 98) || (c =? 66) || (c =? 104) || (c =? 97) || (c =? 65)
  | _ => false
  end.
Definition is_month_name (t : ftok) : bool :=
  match t with
  | FOther [37; c] => (c =? 98) || (c =? 66) || (c =? 104)
  | _ => false
  end.

Definition lossless_fmt (fmt : list Z) (off : Z) (year : Z) : bool :=
  let l := lex fmt in
  clean_fmt fmt && separated l
  && forallb (fun t => match t with FOther raw => locale_name_spec raw | FLib LZ => false | _ => true end) l
  && (has l (fun k => match k with Ls => true | _ => false end)
      || ((has l (fun k => match k with LY => true | _ => false end)
           || (has l (fun k => match k with LE4Y => true | _ => false end) && (-999 <=? year) && (year <=? 9999)))
          && (((has l (fun k => match k with Lm => true | _ => false end) || existsb is_month_name l)
               && has l (fun k => match k with Ld | Le => true | _ => false end))
              (* "dates expressed through week numbers": a week number and a weekday with no month/day token
                 (a later %m or %d would make parse() forget the week number) *)
              || (has l (fun k => match k with LU | LW => true | _ => false end)
                  && has l (fun k => match k with Lu | Lw => true | _ => false end)
                  && negb (has l (fun k => match k with Lm | Ld | Le => true | _ => false end))
                  && negb (existsb is_month_name l)))
          && has l (fun k => match k with LH => true | _ => false end)
          && has l (fun k => match k with LM => true | _ => false end)
          && (has l (fun k => match k with LEsS => true | LEnS n => 15 <=? n | _ => false end)
              || (has l (fun k => match k with LS => true | _ => false end)
                  && has l (fun k => match k with LEsf => true | LEnf n => 15 <=? n | _ => false end)))
          && (has l (fun k => match k with Lccz | LEsz | Lcccz => true | _ => false end)
              || (has l (fun k => match k with Lz | Lcz | LEz => true | _ => false end) && (off mod 60 =? 0))))).
