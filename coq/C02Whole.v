(* C02Whole.v - property C02 of google/cctz (civil -> instant: TimeZoneInfo::MakeTime) as ONE end-to-end
   theorem against the TZif specification (ZoneSpec.v), as C01Whole.v does for C01; with the round trip
   (C03) and the monotonicity of convert() (C06) as corollaries against the same specification.

   Theorem c02_whole (Part 7):
     forall bs h a, parse_ast bs = Some (h, a) -> wf_ast h a = true -> c01_domain h a = true ->
       footer_below_day a = true ->
     exists z, load_bytes bs = OK (Some z) /\
       (gaps_wide (zz_doff (abs_zone z)) (zz_tr (abs_zone z)) = true ->
        forall hint cs, valid_fields cs = true -> int64 (fy cs) ->
          exists cl hint', make_time z hint cs = OK (cl, hint') /\ c02_post a cs cl).
   c02_post a cs cl, by the kind MakeTime reports (spec_displays a t cs := the file's data, read by
   ZoneSpec.spec_lookup, shows civil second cs at instant t):
     UNIQUE    exactly one instant t displays cs, and pre = trans = post = clamp t;
     SKIPPED   no instant displays cs; there are T, o1, o2 with off_at (T-1) = o1 <> o2 = off_at T (T is an
               offset change of the zone) and cs - o1 >= T > cs - o2 (cs lies in T's gap), and
               pre = clamp (cs - o1), trans = clamp T, post = clamp (cs - o2);
     REPEATED  such T, o1, o2 with cs - o1 < T <= cs - o2; cs - o1 and cs - o2 display cs and no other instant
               does; pre = clamp (cs - o1), trans = clamp T, post = clamp (cs - o2).
   Instants range over ALL integers (spec_lookup is defined on Z): an instant outside the time_point<seconds>
   range still displays its civil second and the reported fields are the clamped values (clamp = clamp64z);
   inside the range nothing is clamped (clamp64z_id).  The statement holds for EVERY valid civil second with
   an int64 year: inside the table, in the generated 401 years, and beyond last_year_ (400-year re-dating,
   saturation at max()), whatever the hint.

   Theorem c02_whole_ast (Part 7b): the same with EVERY hypothesis a boolean on the parsed file:
     ... -> footer_below_day a = true -> table_gaps_ok a = true ->
     exists z, load_bytes bs = OK (Some z) /\ forall hint cs, valid_fields cs = true -> int64 (fy cs) ->
       exists cl hint', make_time z hint cs = OK (cl, hint') /\ c02_post a cs cl.

   Hypotheses.  parse_ast / wf_ast / c01_domain: exactly those of c01_whole (F9-family files are outside
   c01_domain).  The property's own side condition ("offset changes farther apart than the sum of their
   sizes") in two interchangeable forms: gaps_wide on the table the loader returns (as in
   Properties_C02.c02_every_accepted_file), or table_gaps_ok a := ZoneSpec.gaps_ok (the clause wf_ast applies
   to a_times) over table_times a - big-bang entry, the file's transitions, the rule instants of the 402
   generated years after the last one (or the 2^31-1 sentinel) - with the SPECIFICATION's offsets (off_at);
   table_gaps_wide proves that on a loaded file the second implies the first.
   footer_below_day (NEW, a boolean on the AST): the footer's two
   offsets are below +24h, as wf_ast demands of the file's own types (c01_domain's footer_offsets_ok is the
   lower half).  With rule_tame it puts the last generated transition, and the civil second before it, in
   local year last_year_ - the seam hypotheses of FutureProofs.make_future_lemma, which are DERIVED here
   (make_time_shape), not assumed.  It is a limit of the proof, not a defect: Part 10 gives a file violating
   only it on which MakeTime (model and C++) still agrees with ZoneSpec.spec_civil around the seam.

   Corollaries (same hypotheses; c03_whole_ast / c06_whole_ast with table_gaps_ok):
     c03_whole  for every int64 t: BreakTime reports the designated civil second (C01) and MakeTime of it is
                UNIQUE with pre = t or REPEATED with pre = t or post = t - also beyond the table, WITHOUT the
                periodic-tail hypothesis of ImplRoundTrip.c03_roundtrip_future_lemma (discharged here);
     c06_whole  convert_cs z hint cs = clamp c where c is the EARLIEST instant (of Z) at which the zone shows
                cs or a later civil second (spec_earliest); hence convert is monotone over the whole civil
                line, without the year restriction / tail hypothesis of c06_convert_mono_future.

   Route.  soff a t := the offset ZoneSpec.spec_info designates at t (total on a loaded file: sinfo_total).
     Part 2  ideal F L K p T q: the integer-level statement of C02 for an offset function F;
             ZoneZProofs.zmake_spec_lemma gives it for zoff (abs_zone z) (ideal_zmake); ideal_shift moves it
             along a shift s to any F that agrees with it within a day of the civil second.
     Part 3-5  from C01Whole's table_lookup / far_lookup: soff = the table's offset up to a day past the New
             Year after last_year_ (sinfo_low; needs the END of the generated window: ext_facts, latest_at_last),
             soff is 400-year periodic from 400 years before the last transition on (sinfo_period), all
             offsets are within a day (soff_bound, zoff_day_bound), the last transition is a rule instant of
             UTC year last_year_ (last_time_facts).
     Part 6  make_time_shape (ZoneRefine.make_refines_lemma inside, FutureProofs.make_future_lemma beyond
             last_year_, its seam hypotheses derived), ideal_table / ideal_future, shaped_earliest.
   c02_whole_nonvacuous: the New-York-like file of C01Whole.v satisfies every hypothesis; UNIQUE / SKIPPED /
   REPEATED civil seconds inside the table (2030), beyond last_year_ = 2408 (2900), and a clamped one.
   Everything is proved, nothing is left open; Print Assumptions: closed under the global context. *)
From CCTZ Require Import Base SrcConstants Cal CivilImpl FixedImpl PosixImpl PosixSpec ZoneLoad ZoneImpl ZoneZ ZoneHist
  ZoneRefineDefs ZoneSpec.
From CCTZ Require Import CalProofs WeekdayProofs CivilNorm CivilDiff ZoneSelect ZoneZProofs PosixProofs RuleProofs LoadSafe ZoneRefine
  LoadCert FutureDefs FutureProofs ImplRoundTrip C01Whole.
Require Import Lia ZifyBool.
Local Open Scope Z_scope.

Local Ltac Zify.zify_post_hook ::= idtac.
Local Notation cos := civil_of_seconds.
Local Strategy 100 [civil_of_seconds civil_of_days days_from_civil].

(* ================================================================== *)
(* Part 1.  Vocabulary                                                  *)

(* instant t (ANY integer, not only an int64) displays civil second cs in the zone the file describes *)
Definition spec_displays (a : ast) (t : Z) (cs : fields) : Prop :=
  exists sl, spec_lookup (szone_of a) t = Some sl /\ sl_cs sl = cs.

(* the upper half of the day bound that wf_ast puts on the file's types, for the footer's two offsets
   (c01_domain's footer_offsets_ok is the lower half) *)

(* the first second of UTC year y *)
Definition NY (y : Z) : Z := 86400 * days_from_civil y 1 1.

Lemma NY_mono y y' : y <= y' -> NY y + 86400 * 365 * (y' - y) <= NY y'.
Proof. intros H. unfold NY. pose proof (dfc_year_mono y y' H). lia. Qed.

Lemma NY_lt_inv y y' : NY y < NY y' -> y < y'.
Proof.
  intros H. destruct (Z_lt_le_dec y y') as [L|G]; [exact L|exfalso].
  pose proof (NY_mono y' y G). lia.
Qed.

Lemma NY_period y k : NY (y + 400 * k) = NY y + P400 * k.
Proof. unfold NY. rewrite dfc_period, P400_val. lia. Qed.

Lemma NY_1970 : NY 1970 = 0.
Proof. unfold NY. rewrite dfc_epoch. reflexivity. Qed.

Lemma NY_2370 : NY 2370 = P400.
Proof. replace 2370 with (1970 + 400 * 1) by lia. rewrite NY_period, NY_1970. lia. Qed.

Definition Yc (s : Z) : Z := fy (cos s).

Lemma Yc_lo s : NY (Yc s) <= s.
Proof. exact (instant_after_year_start s). Qed.

Lemma Yc_hi s : s < NY (Yc s + 1).
Proof. exact (instant_before_next_year s). Qed.

Lemma Yc_ge Y s : NY Y <= s -> Y <= Yc s.
Proof. exact (year_of_ge Y s). Qed.

Lemma Yc_le Y s : s < NY (Y + 1) -> Yc s <= Y.
Proof. exact (year_of_lt Y s). Qed.

Lemma Yc_NY_le Y s : Y <= Yc s -> NY Y <= s.
Proof. intros H. pose proof (Yc_lo s). pose proof (NY_mono Y (Yc s) H). lia. Qed.

Lemma Yc_NY_lt Y s : Yc s <= Y -> s < NY (Y + 1).
Proof. intros H. pose proof (Yc_hi s). pose proof (NY_mono (Yc s + 1) (Y + 1) ltac:(lia)). lia. Qed.

(* ================================================================== *)
(* Part 2.  The integer-level statement of C02 for an offset function, and its transport *)

(* the "ideal" answer (unclamped) for civil second L under the offset function F *)
Definition ideal (F : Z -> Z) (L : Z) (K : zkind) (p T q : Z) : Prop :=
  match K with
  | ZU => p = T /\ T = q /\ p + F p = L /\ (forall t, t + F t = L -> t = p)
  | ZS => (forall t, t + F t <> L) /\ F (T - 1) <> F T /\
          p = L - F (T - 1) /\ q = L - F T /\ p >= T /\ T > q
  | ZR => p + F p = L /\ q + F q = L /\ p <> q /\ (forall t, t + F t = L -> t = p \/ t = q) /\
          F (T - 1) <> F T /\ p = L - F (T - 1) /\ q = L - F T /\ p < T /\ T <= q
  end.

Lemma ideal_zmake z L : wfz z = true ->
  let c := zmake z L in ideal (zoff z) L (zk c) (zpre c) (ztrans c) (zpost c).
Proof.
  intros Hwf. pose proof (zmake_spec_lemma z L Hwf) as S. cbv zeta in S |- *.
  unfold ideal. unfold displays in S.
  destruct (zk (zmake z L)).
  - destruct S as (A & B & C & D). repeat split; auto.
  - destruct S as (A & B & C & D & E & G). repeat split; auto.
  - destruct S as (A & B & C & D & E & G & H & I & J). repeat split; auto.
Qed.

(* if F, moved back by s, agrees with G within a day of L', and both stay below a day,
   the ideal answer for G at L' moved forward by s is the ideal answer for F at L' + s *)
Lemma ideal_shift (F G : Z -> Z) (L' s : Z) :
  (forall t, -86400 < F t < 86400) -> (forall t, -86400 < G t < 86400) ->
  (forall t', L' - 86400 <= t' <= L' + 86400 -> F (t' + s) = G t') ->
  forall K p T q, ideal G L' K p T q -> ideal F (L' + s) K (p + s) (T + s) (q + s).
Proof.
  intros BF BG AG K p T q I.
  assert (FW : forall t, t + F t = L' + s -> (t - s) + G (t - s) = L').
  { intros t Ht. pose proof (BF t). rewrite <- (AG (t - s)) by lia.
    replace (t - s + s) with t by lia. lia. }
  assert (BW : forall t', t' + G t' = L' -> (t' + s) + F (t' + s) = L' + s).
  { intros t' Ht. pose proof (BG t'). rewrite (AG t') by lia. lia. }
  destruct K; unfold ideal in *.
  - destruct I as (-> & -> & D & U). repeat split; auto.
    intros t Ht. pose proof (U _ (FW t Ht)). lia.
  - destruct I as (N & C & Ep & Eq & H1 & H2).
    pose proof (BG (T - 1)). pose proof (BG T).
    replace (T + s - 1) with (T - 1 + s) by lia.
    rewrite (AG (T - 1)) by lia. rewrite (AG T) by lia.
    split; [intros t Ht; exact (N _ (FW t Ht))|].
    split; [exact C|]. lia.
  - destruct I as (D1 & D2 & Ne & U & C & Ep & Eq & H1 & H2).
    pose proof (BG (T - 1)). pose proof (BG T).
    replace (T + s - 1) with (T - 1 + s) by lia.
    rewrite (AG (T - 1)) by lia. rewrite (AG T) by lia.
    split; [exact (BW _ D1)|]. split; [exact (BW _ D2)|]. split; [lia|].
    split; [intros t Ht; pose proof (U _ (FW t Ht)); lia|].
    split; [exact C|]. lia.
Qed.

(* ================================================================== *)
(* Part 3.  The type in force at the integer level always has a designation *)

Lemma zid_list_idx z : forall l c t, idx_ok z c = true ->
  (forall tr, In tr l -> idx_ok z (tr_type tr) = true) ->
  idx_ok z (zid_list (map (absf z) l) c t) = true.
Proof.
  induction l as [|tr r IH]; intros c t Hc Hl; [exact Hc|].
  cbn [map zid_list absf zt_time zt_id].
  destruct (tr_time tr <=? t); [|exact Hc].
  apply IH; [apply Hl; left; reflexivity|intros x Hx; apply Hl; right; exact Hx].
Qed.

Lemma zid_idx z t : bfacts z -> idx_ok z (zid (abs_zone z) t) = true.
Proof.
  intros F. rewrite abs_zone_eq. unfold zid. cbn [zz_tr zz_did]. unfold absl.
  apply zid_list_idx; [exact (bf_dflt z F)|].
  intros tr Hin. exact (proj1 (bf_trs z F tr Hin)).
Qed.

Lemma tyinfo_zid z t : bfacts z -> exists d ab,
  tyinfo (z_types z) (z_abbrs z) (zid (abs_zone z) t) = Some (zoff (abs_zone z) t, d, ab).
Proof.
  intros F. pose proof (zid_idx z t F) as Hi. rewrite zoff_zid.
  set (i := zid (abs_zone z) t) in *. clearbody i.
  unfold idx_ok in Hi. rewrite andb_true_iff, Z.leb_le, Z.ltb_lt in Hi.
  unfold tyinfo, off_of. destruct (Z.ltb_spec i 0); [lia|].
  destruct (nth_error (z_types z) (Z.to_nat i)) as [ty|] eqn:E.
  - unfold tinf. eexists _, _. reflexivity.
  - apply nth_error_None in E. lia.
Qed.

(* every designation the specification yields has an offset strictly within a day, once the
   footer's offsets have *)
Lemma type_info_bound h a i o d s : wfp h a -> type_info a i = Some (o, d, s) -> -86400 < o < 86400.
Proof.
  intros W. unfold type_info.
  destruct (if i <? 0 then None else nth_error (a_types a) (Z.to_nat i)) as [[[o' d'] ai]|] eqn:E; [|discriminate].
  intros H. inversion H; subst o' d' s.
  destruct (i <? 0); [discriminate|]. apply nth_error_In in E.
  exact (proj1 (w_types h a W _ _ _ E)).
Qed.

Lemma spec_info_bound h a t o d s : wfp h a -> footer_offsets_ok a = true -> footer_below_day a = true ->
  spec_info (szone_of a) t = Some (o, d, s) -> -86400 < o < 86400.
Proof.
  intros W FO FB. unfold footer_offsets_ok in FO. unfold footer_below_day in FB.
  assert (TB : forall i, type_info a i = Some (o, d, s) -> -86400 < o < 86400)
    by (intros i; apply (type_info_bound h a i o d s W)).
  unfold spec_info. cbn [szone_of sz_ast sz_default sz_footer].
  destruct (footer_kind_of a) as [| |x|r].
  - destruct (count_le (a_times a) t) as [|k'].
    + destruct (a_times a); apply TB.
    + destruct (Nat.eqb (S k') (length (a_times a))); apply TB.
  - destruct (count_le (a_times a) t) as [|k'].
    + destruct (a_times a); apply TB.
    + destruct (Nat.eqb (S k') (length (a_times a))); apply TB.
  - destruct (count_le (a_times a) t) as [|k'].
    + destruct (a_times a); apply TB.
    + destruct (Nat.eqb (S k') (length (a_times a))); apply TB.
  - rewrite !andb_true_iff, !Z.ltb_lt in FO, FB.
    assert (RB : forall x : option (Z * bool),
              match x with
              | Some (_, true) => Some (r_dst r)
              | Some (_, false) => Some (r_std r)
              | None => type_info a (default_type_spec a)
              end = Some (o, d, s) -> -86400 < o < 86400).
    { intros [[x [|]]|] H; [| |exact (TB _ H)]; injection H as H; rewrite H in FO, FB; cbn [fst] in FO, FB; lia. }
    destruct (count_le (a_times a) t) as [|k'].
    + destruct (a_times a) as [|t0 ts]; [|apply TB].
      destruct (t <? big_bang); [apply TB|]. apply RB.
    + destruct (Nat.eqb (S k') (length (a_times a))); [|apply TB].
      intros H.
      destruct (latest_le (rule_candidates r (year_of_instant t)) (nthZ (a_times a) k') t) as [[x [|]]|];
        [| |exact (TB _ H)]; injection H as H; rewrite H in FO, FB; cbn [fst] in FO, FB; lia.
Qed.

(* ================================================================== *)
(* Part 4.  The end of the generated window                             *)

(* frule_shape, keeping the value of last_year_ *)
Lemma frule_shape_ly h a r types1 abbrs1 tailp ext ly : wfp h a ->
  length (a_times a) = length (a_idx a) -> length (a_types a) = Z.to_nat (h_typecnt h) ->
  not_f9 a = true -> rule_tame a = true ->
  footer_kind_of a = FRule r -> footer_out a types1 abbrs1 tailp ext ly ->
  ext = true /\ exists std_ti dst_ti lt y0,
    rule_shape h a r types1 abbrs1 tailp std_ti dst_ti lt y0 /\ ly = y0 + 401.
Proof.
  intros W L LT NF9 TM FK FOut.
  unfold footer_out in FOut. unfold not_f9 in NF9. unfold rule_tame in TM. rewrite FK in *.
  destruct FOut as (Hext & std_ti & dst_ti & lt & y0 & LIY & Is & Id & Etail & Ely).
  split; [exact Hext|]. exists std_ti, dst_ti.
  assert (Elt : exists lt', last_opt (a_times a) = Some lt' /\ 0 <= lt').
  { unfold last_opt. destruct (rev (a_times a)) as [|lt' rs]; [discriminate NF9|].
    exists lt'. split; [reflexivity|lia]. }
  destruct Elt as (lt' & Elt & Hpos).
  destruct (last_pair_times a lt' L Elt) as [Ef Ei].
  pose proof (last_pair_idx h a W) as Rli. pose proof (last_pair_time h a W) as Rlt.
  destruct (last_spec a L) as [_ LS2]. specialize (LS2 (default_zero h a W)).
  destruct (type_info_some h a _ W LT Rli) as (o & d & s & Eo & Bo).
  assert (Eao : aoff a (snd (last_pair a)) = o) by (unfold aoff; rewrite Eo; reflexivity).
  rewrite Eo, Ef in LS2.
  assert (lt = lt' /\ y0 = fy (cos (lt' + o))) as [-> Ey0] by (split; congruence).
  exists lt', y0.
  pose proof (tame_all r TM) as TP.
  pose proof (w_fr h a W) as FR. unfold footer_rule_ok in FR. cbn [szone_of sz_footer] in FR.
  rewrite FK in FR. apply andb_true_iff in FR. destruct FR as [RO _].
  pose proof (rule_ok_radj_g r RO) as HG.
  pose proof (seam_far h a r std_ti dst_ti lt' y0 W L LT FK TP Elt LIY) as SF.
  pose proof (pairs_last a L) as PL.
  split; [|exact Ely].
  split; auto.
  - rewrite Eao. pose proof (instant_after_year_start (lt' + o)) as A1.
    pose proof (instant_before_next_year (lt' + o)) as A2.
    unfold year_of_instant in A1, A2. rewrite <- Ey0 in A1, A2. lia.
  - rewrite Eao. exact Bo.
  - rewrite Etail. exact SF.
  - unfold sentinel_pairs. rewrite last_opt_app2.
    destruct (last_opt tailp) as [p|] eqn:El.
    + apply last_opt_In in El. rewrite Etail in El. pose proof (SF p El).
      destruct (Z.ltb_spec (fst p) 0); [lia|reflexivity].
    + rewrite PL, Ef. destruct (Z.ltb_spec lt' 0); [lia|reflexivity].
Qed.

Section LastInstant.
Variable r : rule.
Hypothesis HG : forall y, radj_g r y.
Hypothesis TP : tameP r.

(* from the later instant of year yl up to a day past the next New Year, the latest rule instant is that one *)
Lemma latest_at_last lt yl bL t :
  lt < inst r yl bL -> (forall b, inst r yl b <= inst r yl bL) ->
  inst r yl bL <= t < NY (yl + 1) + 86400 ->
  latest_le (rule_candidates r (year_of_instant t)) lt t = Some (inst r yl bL, bL).
Proof.
  intros Hlt Hmax Ht.
  pose proof (TP yl bL) as Tl. fold (NY yl) (NY (yl + 1)) in Tl.
  set (Y := year_of_instant t).
  assert (HY1 : yl <= Y) by (apply (Yc_ge yl t); lia).
  assert (HY2 : Y <= yl + 1).
  { apply (Yc_le (yl + 1) t). pose proof (NY_mono (yl + 1) (yl + 1 + 1) ltac:(lia)). lia. }
  pose proof (cand_in r Y yl bL ltac:(lia)) as Hin.
  destruct (latest_le_some _ lt t _ Hin ltac:(cbn [fst]; lia)) as [[x b'] E].
  rewrite E. f_equal.
  destruct (latest_le_spec _ _ _ _ E) as (Hin' & Hw & Hm). cbn [fst] in Hw.
  pose proof (Hm _ Hin ltac:(cbn [fst]; lia)) as M1. cbn [fst] in M1.
  destruct (cand_inv r Y x b' Hin') as (y' & _ & ->).
  pose proof (TP y' b') as T'. fold (NY y') (NY (y' + 1)) in T'.
  assert (Hy' : y' <= yl).
  { assert (y' < yl + 1); [|lia]. apply NY_lt_inv. lia. }
  assert (y' = yl).
  { destruct (Z.eq_dec y' yl) as [e|n]; [exact e|exfalso].
    pose proof (inst_le_mono r HG y' yl b' bL ltac:(lia)). lia. }
  subst y'. pose proof (Hmax b').
  destruct (inst_inj r HG yl yl b' bL ltac:(lia)) as [_ ->]. reflexivity.
Qed.

End LastInstant.

(* ================================================================== *)
(* Part 5.  The designation at EVERY integer instant, from the loaded table *)

Lemma b_zoff_after_last z l t : bfacts z -> last_opt (z_trans z) = Some l -> tr_time l <= t ->
  zoff (abs_zone z) t = off_of z (tr_type l).
Proof.
  intros F Hl Ht.
  destruct (last_opt_nth _ _ Hl) as [Hln Hlen].
  destruct (b_tr_facts z _ l F Hln) as (_ & _ & _ & _ & Na).
  pose proof (bf_st z F) as ST.
  rewrite zoff_abs.
  assert (Hn : S (length (z_trans z) - 1) = length (absl z)) by (rewrite absl_length; lia).
  rewrite (f_seg (doff z) (absl z) (length (absl z)) t ST).
  - rewrite <- Hn. rewrite (ob_S _ _ _ _ Na). reflexivity.
  - split; [lia|]. split.
    + intros j a0 Hj Ha. assert (j = (length (z_trans z) - 1)%nat) by lia. subst j.
      rewrite Na in Ha. inversion Ha; subst a0. cbn [absf zt_time]. exact Ht.
    + intros a0 Ha. apply nth_some_lt in Ha. lia.
Qed.

Section Loaded.
Variables (h : header) (a : ast) (z : zone) (tailp : list (Z * Z)).
Hypothesis LD : loaded h a z tailp.
Hypothesis FO : footer_offsets_ok a = true.
Hypothesis FB : footer_below_day a = true.

Definition sinfo (t : Z) : option tinfo := spec_info (szone_of a) t.
Definition soff (t : Z) : Z := match sinfo t with Some (o, _, _) => o | None => 0 end.

Lemma sinfo_table t :
  (z_extended z = false \/ (forall l, last_opt (z_trans z) = Some l -> t < tr_time l)) ->
  exists d ab, sinfo t = Some (zoff (abs_zone z) t, d, ab).
Proof.
  intros R. unfold sinfo. rewrite <- (table_lookup h a z tailp t LD R).
  apply tyinfo_zid. exact (ld_bf h a z tailp LD).
Qed.

Lemma soff_bound t : -86400 < soff t < 86400.
Proof.
  unfold soff. destruct (sinfo t) as [[[o d] s]|] eqn:E; [|lia].
  exact (spec_info_bound h a t o d s (ld_w h a z tailp LD) FO FB E).
Qed.

Section Ext.
Hypothesis Hext : z_extended z = true.
Variable l : transition.
Hypothesis Hl : last_opt (z_trans z) = Some l.

Lemma below_last t : t < tr_time l ->
  (z_extended z = false \/ (forall l0, last_opt (z_trans z) = Some l0 -> t < tr_time l0)).
Proof. intros H. right. intros l0 Hl0. assert (l0 = l) by congruence. subst l0. exact H. Qed.

(* beyond the table: the designation 400*k years earlier *)
Lemma sinfo_red t : tr_time l <= t ->
  tr_time l - P400 <= t - ((t - tr_time l) / P400 + 1) * P400 < tr_time l /\
  sinfo t = sinfo (t - ((t - tr_time l) / P400 + 1) * P400).
Proof.
  intros Hge. destruct (far_lookup h a z tailp t l LD Hext Hl Hge) as [HP HF].
  rewrite P400_val in *.
  pose proof (Z.div_mod (t - tr_time l) 12622780800 ltac:(lia)) as DM.
  pose proof (Z.mod_pos_bound (t - tr_time l) 12622780800 ltac:(lia)) as MB.
  pose proof (Z.div_pos (t - tr_time l) 12622780800 ltac:(lia) ltac:(lia)) as DP.
  set (q := (t - tr_time l) / 12622780800) in *. set (m := (t - tr_time l) mod 12622780800) in *.
  clearbody q m.
  assert (Hw : tr_time l - 12622780800 <= t - (q + 1) * 12622780800 < tr_time l) by lia.
  split; [exact Hw|].
  unfold sinfo. rewrite <- (HF (q + 1) ltac:(lia) Hw).
  apply (table_lookup h a z tailp _ LD). apply below_last. lia.
Qed.

Lemma sinfo_period t' k : 0 <= k -> tr_time l - P400 <= t' -> sinfo (t' + k * P400) = sinfo t'.
Proof.
  intros Hk Hlo.
  destruct (Z.eq_dec k 0) as [->|Nk]; [f_equal; lia|].
  assert (Hge : tr_time l <= t' + k * P400) by (rewrite P400_val in *; lia).
  destruct (sinfo_red _ Hge) as [_ E]. rewrite E. clear E.
  destruct (Z_lt_le_dec t' (tr_time l)) as [Lt|Ge].
  - assert (Eq : (t' + k * P400 - tr_time l) / P400 = k - 1).
    { symmetry. rewrite P400_val in *.
      apply (Z.div_unique_pos _ 12622780800 (k - 1) (t' - tr_time l + 12622780800)); lia. }
    rewrite Eq. f_equal. lia.
  - destruct (sinfo_red _ Ge) as [_ E]. rewrite E. clear E.
    replace (t' + k * P400 - tr_time l) with (t' - tr_time l + k * P400) by lia.
    rewrite Z.div_add by (rewrite P400_val; lia).
    f_equal. lia.
Qed.

(* the table ends with the later rule instant of the last generated year *)
Lemma ext_facts : exists r std_ti dst_ti lt y0 bL,
  footer_kind_of a = FRule r /\
  rule_shape h a r (z_types z) (z_abbrs z) tailp std_ti dst_ti lt y0 /\
  z_last_year z = y0 + 401 /\
  tr_time l = inst r (y0 + 401) bL /\ tr_type l = tyof std_ti dst_ti bL /\
  (forall b, inst r (y0 + 401) b <= tr_time l).
Proof.
  destruct LD as [W L LT NF9 TM BF PAIRS DFLT Info FOut].
  destruct (footer_kind_of a) as [| |x|r] eqn:FK;
    try (unfold footer_out in FOut; rewrite FK in FOut; destruct FOut as [F1 _]; congruence);
    try (unfold footer_out in FOut; rewrite FK in FOut; contradiction).
  destruct (frule_shape_ly h a r _ _ tailp _ _ W L LT NF9 TM FK FOut) as (_ & std_ti & dst_ti & lt & y0 & RS & Ely).
  exists r, std_ti, dst_ti, lt, y0.
  pose proof RS as RS0.
  destruct RS as [Etail Elt Hpos Ef Hy0 Hoff TP HG Is Id SF NoS].
  set (gen := rule_gen' r std_ti dst_ti lt y0 402) in *.
  assert (Hlast_year : forall b, In (inst r (y0 + 401) b, tyof std_ti dst_ti b) gen).
  { intros b. apply gen_complete; [change (Z.of_nat 402) with 402; lia|].
    pose proof (TP (y0 + 401) b). pose proof (dfc_year_mono (y0 + 1) (y0 + 401) ltac:(lia)). lia. }
  assert (PL : last_opt gen = Some (tr_pair l)).
  { assert (P0 : last_opt (table_pairs a tailp) = Some (tr_pair l)).
    { rewrite <- PAIRS, last_opt_map, Hl. reflexivity. }
    unfold table_pairs in P0. rewrite NoS, app_nil_r, last_opt_app2, Etail in P0. fold gen in P0.
    destruct (last_opt gen) as [p|] eqn:Ep; [exact P0|].
    exfalso. pose proof (Hlast_year true) as X. unfold last_opt in Ep.
    destruct (rev gen) as [|q qs] eqn:Er; [|discriminate Ep].
    assert (gen = []) by (rewrite <- (rev_involutive gen), Er; reflexivity).
    rewrite H in X. destruct X. }
  pose proof (last_opt_In _ _ PL) as InL.
  destruct (gen_in' r std_ti dst_ti lt _ _ _ InL) as (yL & bL & HyL & EL & HltL).
  change (Z.of_nat 402) with 402 in HyL.
  assert (ELt : tr_time l = inst r yL bL) by (unfold tr_pair in EL; congruence).
  assert (ELy : tr_type l = tyof std_ti dst_ti bL) by (unfold tr_pair in EL; congruence).
  (* the table is sorted, so its last entry is the largest *)
  assert (Hmax : forall b, inst r (y0 + 401) b <= tr_time l).
  { intros b.
    assert (Hin : In (inst r (y0 + 401) b, tyof std_ti dst_ti b) (map tr_pair (z_trans z))).
    { rewrite PAIRS. unfold table_pairs. rewrite NoS, app_nil_r. apply in_or_app. right.
      rewrite Etail. apply Hlast_year. }
    apply in_map_iff in Hin. destruct Hin as (tr & Etr & Htr).
    apply In_nth_error in Htr. destruct Htr as [i Hi].
    destruct (last_opt_nth _ _ Hl) as [Hn Hlen].
    destruct (b_tr_facts z i tr BF Hi) as (_ & _ & _ & _ & Na).
    destruct (b_tr_facts z _ l BF Hn) as (_ & _ & _ & _ & Nl).
    pose proof (nth_some_lt _ _ _ Hi) as Hilt.
    pose proof (sortedK_le zt_time (absl z) i (length (z_trans z) - 1) _ _ (bf_st z BF) ltac:(lia) Na Nl) as Le.
    cbn [absf zt_time] in Le.
    assert (tr_time tr = inst r (y0 + 401) b) by (unfold tr_pair in Etr; congruence).
    lia. }
  assert (EyL : yL = y0 + 401).
  { destruct (Z.eq_dec yL (y0 + 401)) as [E|N]; [exact E|exfalso].
    pose proof (inst_le_mono r HG yL (y0 + 401) bL true ltac:(lia)). pose proof (Hmax true). lia. }
  subst yL. exists bL.
  split; [reflexivity|]. split; [exact RS0|]. split; [exact Ely|]. split; [exact ELt|]. split; [exact ELy|exact Hmax].
Qed.

(* ... which lies a day clear of both New Years of UTC year last_year, beyond 2370 *)
Lemma last_time_facts :
  NY (z_last_year z) + 86400 <= tr_time l <= NY (z_last_year z + 1) - 86400 /\ P400 <= tr_time l.
Proof.
  destruct ext_facts as (r & std_ti & dst_ti & lt & y0 & bL & FK & RS & Ely & Etl & Ety & Hmax).
  pose proof (rs_tame _ _ _ _ _ _ _ _ _ _ RS (y0 + 401) bL) as T.
  rewrite Ely, Etl. unfold NY. split; [exact T|].
  rewrite <- Etl. exact (proj1 (far_lookup h a z tailp (tr_time l) l LD Hext Hl ltac:(lia))).
Qed.

(* up to a day past the New Year after last_year the designation is the table's *)
Lemma sinfo_low t : t < NY (z_last_year z + 1) + 86400 ->
  exists d ab, sinfo t = Some (zoff (abs_zone z) t, d, ab).
Proof.
  intros Ht. destruct (Z_lt_le_dec t (tr_time l)) as [Lt|Ge].
  { apply sinfo_table. apply below_last. exact Lt. }
  destruct ext_facts as (r & std_ti & dst_ti & lt & y0 & bL & FK & RS & Ely & Etl & Ety & Hmax).
  pose proof (ld_bf h a z tailp LD) as BF.
  rewrite (b_zoff_after_last z l t BF Hl Ge).
  destruct RS as [Etail Elt Hpos Ef Hy0 Hoff TP HG Is Id SF NoS].
  assert (Hlt : lt < tr_time l).
  { assert (In (tr_pair l) tailp).
    { unfold tr_pair. rewrite Etail, Etl, Ety. apply gen_complete; [change (Z.of_nat 402) with 402; lia|].
      pose proof (TP (y0 + 401) bL). pose proof (dfc_year_mono (y0 + 1) (y0 + 401) ltac:(lia)). lia. }
    pose proof (SF _ H). unfold tr_pair in H0. cbn [fst] in H0. lia. }
  assert (En : exists k', length (a_times a) = S k').
  { destruct (a_times a); [discriminate Elt|eexists; reflexivity]. }
  destruct En as [k' En].
  unfold sinfo.
  rewrite (spec_info_after a r k' lt t (w_inc h a (ld_w h a z tailp LD)) FK En Elt ltac:(lia)).
  rewrite Etl in Ge, Hlt, Hmax. rewrite Ely in Ht.
  rewrite (latest_at_last r HG TP lt (y0 + 401) bL t Hlt Hmax ltac:(lia)).
  rewrite Ety, off_of_offl.
  destruct bL; cbn [tyof].
  - rewrite (tyinfo_offl _ _ _ _ Id). destruct (r_dst r) as [[o d] s]. cbn [fst]. eauto.
  - rewrite (tyinfo_offl _ _ _ _ Is). destruct (r_std r) as [[o d] s]. cbn [fst]. eauto.
Qed.

End Ext.

(* every instant has a designation, and its offset is the table's offset at some instant *)
Lemma sinfo_total t : exists d ab, sinfo t = Some (soff t, d, ab).
Proof.
  assert (exists o d ab, sinfo t = Some (o, d, ab)) as (o & d & ab & E).
  { destruct (bf_last z (ld_bf h a z tailp LD)) as (l & Hl & _).
    destruct (z_extended z) eqn:Hext.
    2:{ destruct (sinfo_table t (or_introl Hext)) as (d & ab & E). eauto. }
    destruct (Z_lt_le_dec t (tr_time l)) as [Lt|Ge].
    - destruct (sinfo_table t (below_last l Hl t Lt)) as (d & ab & E). eauto.
    - destruct (sinfo_red Hext l Hl t Ge) as [Hw E]. rewrite E.
      destruct (sinfo_table _ (below_last l Hl _ (proj2 Hw))) as (d & ab & E'). eauto. }
  exists d, ab. unfold soff. rewrite E. reflexivity.
Qed.

Lemma zoff_day_bound t : -86400 < zoff (abs_zone z) t < 86400.
Proof.
  pose proof (ld_bf h a z tailp LD) as BF.
  assert (K : forall u d ab, sinfo u = Some (zoff (abs_zone z) u, d, ab) -> -86400 < zoff (abs_zone z) u < 86400).
  { intros u d ab E. exact (spec_info_bound h a u _ d ab (ld_w h a z tailp LD) FO FB E). }
  destruct (bf_last z BF) as (l & Hl & _).
  destruct (z_extended z) eqn:Hext.
  2:{ destruct (sinfo_table t (or_introl Hext)) as (d & ab & E). exact (K _ _ _ E). }
  destruct (Z_lt_le_dec t (tr_time l)) as [Lt|Ge].
  - destruct (sinfo_table t (below_last l Hl t Lt)) as (d & ab & E). exact (K _ _ _ E).
  - rewrite (b_zoff_after_last z l t BF Hl Ge), <- (b_zoff_after_last z l (tr_time l) BF Hl ltac:(lia)).
    pose proof (last_time_facts Hext l Hl) as [T _].
    destruct (sinfo_low Hext l Hl (tr_time l) ltac:(lia)) as (d & ab & E). exact (K _ _ _ E).
Qed.

End Loaded.

(* ================================================================== *)
(* Part 6.  MakeTime's answer is the ideal answer for the specification's offsets, clamped *)

Lemma clamp'_64 v : clamp' v = clamp64z v.
Proof.
  unfold clamp', clamp64z.
  destruct (Z.ltb_spec v min64); destruct (Z.ltb_spec max64 v); unfold min64, max64 in *; lia.
Qed.

Lemma min_clamp v : min64 <= v -> Z.min max64 v = clamp64z v.
Proof.
  intros H. unfold clamp64z.
  destruct (Z.ltb_spec v min64); destruct (Z.ltb_spec max64 v); unfold min64, max64 in *; lia.
Qed.

Lemma Yc_period s k : Yc (s + k * P400) = Yc s + 400 * k.
Proof.
  unfold Yc. replace (s + k * P400) with (s + 146097 * 86400 * k) by (rewrite P400_val; lia).
  rewrite cos_period. reflexivity.
Qed.

Lemma sec_of_year_shift cs k :
  sec_of (mkF (fy cs - 400 * k) (fm cs) (fd cs) (fhh cs) (fmm cs) (fss cs)) = sec_of cs - k * P400.
Proof.
  unfold sec_of. cbn [fy fm fd fhh fmm fss].
  replace (fy cs - 400 * k) with (fy cs + 400 * (- k)) by lia.
  rewrite dfc_period, P400_val. lia.
Qed.

Section Answer.
Variables (h : header) (a : ast) (z : zone) (tailp : list (Z * Z)).
Hypothesis LD : loaded h a z tailp.
Hypothesis FO : footer_offsets_ok a = true.
Hypothesis FB : footer_below_day a = true.
Hypothesis Hok : zone_ok z = true.

(* (1) civil seconds up to the end of local year last_year_ (every civil second when the zone is not extended) *)
Lemma ideal_table L : (z_extended z = false \/ Yc L <= z_last_year z) ->
  let c := zmake (abs_zone z) L in ideal (soff a) L (zk c) (zpre c) (ztrans c) (zpost c).
Proof.
  intros R. cbv zeta.
  pose proof (ideal_zmake (abs_zone z) L (zone_ok_wfz z Hok)) as I. cbv zeta in I.
  pose proof (ideal_shift (soff a) (zoff (abs_zone z)) L 0
                (soff_bound h a z tailp LD FO FB) (zoff_day_bound h a z tailp LD FO FB)) as S.
  rewrite <- (Z.add_0_r L) at 1.
  rewrite <- (Z.add_0_r (zpre _)), <- (Z.add_0_r (ztrans _)), <- (Z.add_0_r (zpost _)).
  apply S; [|exact I].
  intros t' Ht'. rewrite Z.add_0_r.
  assert (exists d ab, sinfo a t' = Some (zoff (abs_zone z) t', d, ab)) as (d & ab & E).
  { destruct R as [Hne|HY]; [apply (sinfo_table h a z tailp LD); left; exact Hne|].
    destruct (z_extended z) eqn:Hext; [|apply (sinfo_table h a z tailp LD); left; exact Hext].
    destruct (bf_last z (ld_bf h a z tailp LD)) as (l & Hl & _).
    apply (sinfo_low h a z tailp LD Hext l Hl).
    pose proof (Yc_NY_lt _ _ HY). lia. }
  unfold soff. rewrite E. reflexivity.
Qed.

(* (2) civil years beyond last_year_: the table's answer 400*k years earlier, moved forward *)
Lemma ideal_future L k : z_extended z = true -> 1 <= k ->
  z_last_year z + 400 * (k - 1) < Yc L <= z_last_year z + 400 * k ->
  let c := zmake (abs_zone z) (L - k * P400) in
  ideal (soff a) L (zk c) (zpre c + k * P400) (ztrans c + k * P400) (zpost c + k * P400).
Proof.
  intros Hext Hk HY. cbv zeta.
  set (L' := L - k * P400).
  pose proof (ideal_zmake (abs_zone z) L' (zone_ok_wfz z Hok)) as I. cbv zeta in I.
  pose proof (ideal_shift (soff a) (zoff (abs_zone z)) L' (k * P400)
                (soff_bound h a z tailp LD FO FB) (zoff_day_bound h a z tailp LD FO FB)) as S.
  replace L with (L' + k * P400) at 1 by (unfold L'; lia).
  apply S; [|exact I].
  intros t' Ht'.
  destruct (bf_last z (ld_bf h a z tailp LD)) as (l & Hl & _).
  pose proof (last_time_facts h a z tailp LD Hext l Hl) as [TL _].
  assert (YL' : z_last_year z - 400 < Yc L' <= z_last_year z).
  { unfold L'. replace (L - k * P400) with (L + (- k) * P400) by lia. rewrite Yc_period. lia. }
  pose proof (Yc_NY_le (z_last_year z - 399) L' ltac:(lia)) as B1.
  pose proof (Yc_NY_lt (z_last_year z) L' ltac:(lia)) as B2.
  pose proof (NY_period (z_last_year z - 399) 1) as NP.
  replace (z_last_year z - 399 + 400 * 1) with (z_last_year z + 1) in NP by lia.
  unfold soff. rewrite (sinfo_period h a z tailp LD Hext l Hl t' k ltac:(lia) ltac:(lia)).
  destruct (sinfo_low h a z tailp LD Hext l Hl t' ltac:(lia)) as (d & ab & E).
  rewrite E. reflexivity.
Qed.

(* the shape of MakeTime's result: zmake of the abstracted table at the civil second re-dated k blocks of
   400 years earlier (k = 0: not re-dated), moved forward again, clamped *)
Definition shaped (cs : fields) (k : Z) (cl : clookup) : Prop :=
  ((k = 0 /\ (z_extended z = false \/ Yc (sec_of cs) <= z_last_year z)) \/
   (1 <= k /\ z_extended z = true /\
    z_last_year z + 400 * (k - 1) < Yc (sec_of cs) <= z_last_year z + 400 * k)) /\
  let c := zmake (abs_zone z) (sec_of cs - k * P400) in
  cl = mkCL (kind_of' (zk c)) (clamp64z (zpre c + k * P400)) (clamp64z (ztrans c + k * P400))
            (clamp64z (zpost c + k * P400)).

Lemma make_time_shape hint cs : valid_fields cs = true -> int64 (fy cs) ->
  exists cl hint' k, make_time z hint cs = OK (cl, hint') /\ shaped cs k cl.
Proof.
  intros V I.
  assert (EY : Yc (sec_of cs) = fy cs) by (unfold Yc; rewrite (cos_sec_of cs V); reflexivity).
  assert (Reg : (z_extended z = false \/ fy cs <= z_last_year z) \/
                (z_extended z = true /\ z_last_year z < fy cs)).
  { destruct (z_extended z); [|left; left; reflexivity].
    destruct (Z_le_gt_dec (fy cs) (z_last_year z)); [left; right; assumption|right; split; [reflexivity|lia]]. }
  destruct Reg as [Reg|[Hext Hly]].
  - destruct (make_refines_lemma z hint cs Hok V I Reg) as (h' & HM). cbv zeta in HM.
    eexists _, h', 0. split; [exact HM|]. split.
    + left. split; [reflexivity|]. rewrite EY. exact Reg.
    + cbv zeta. replace (sec_of cs - 0 * P400) with (sec_of cs) by lia.
      rewrite !Z.add_0_r, !clamp'_64. reflexivity.
  - destruct (bf_last z (ld_bf h a z tailp LD)) as (l & Hl & _).
    pose proof (last_time_facts h a z tailp LD Hext l Hl) as [TL HP].
    pose proof (zone_ok_facts z Hok) as F.
    pose proof (ld_bf h a z tailp LD) as BF.
    destruct (last_facts z l F Hl) as (Na & _ & Ccs & Cpcs & Hn).
    pose proof (zoff_day_bound h a z tailp LD FO FB) as ZB.
    (* the hypotheses of make_future_lemma *)
    assert (H1 : forall l0, last_opt (z_trans z) = Some l0 ->
                   fy (tr_cs l0) = z_last_year z /\ P400 <= tr_time l0).
    { intros l0 Hl0. assert (l0 = l) by congruence. subst l0. split; [|exact HP].
      rewrite Ccs, <- (b_zoff_after_last z l (tr_time l) BF Hl ltac:(lia)).
      pose proof (ZB (tr_time l)). fold (Yc (tr_time l + zoff (abs_zone z) (tr_time l))).
      pose proof (Yc_ge (z_last_year z) (tr_time l + zoff (abs_zone z) (tr_time l)) ltac:(lia)).
      pose proof (Yc_le (z_last_year z) (tr_time l + zoff (abs_zone z) (tr_time l)) ltac:(lia)). lia. }
    assert (H2 : forall l0, last_opt (z_trans z) = Some l0 -> fy (tr_pcs l0) <= z_last_year z).
    { intros l0 Hl0. assert (l0 = l) by congruence. subst l0.
      rewrite Cpcs.
      destruct (zoff_at_trans (doff z) (absl z) _ _ (bf_st z BF) Na) as [EO _].
      cbn [absf zt_time] in EO. rewrite <- EO, <- zoff_abs.
      pose proof (ZB (tr_time l - 1)).
      apply (Yc_le (z_last_year z)). lia. }
    pose proof (make_future_lemma z hint cs Hok Hext V I Hly H1 H2) as MF. cbv zeta in MF.
    set (k := (fy cs - z_last_year z - 1) / 400 + 1) in *.
    pose proof (Z.mul_div_le (fy cs - z_last_year z - 1) 400 ltac:(lia)) as D1.
    pose proof (Z.mul_succ_div_gt (fy cs - z_last_year z - 1) 400 ltac:(lia)) as D2.
    pose proof (Z.div_pos (fy cs - z_last_year z - 1) 400 ltac:(lia) ltac:(lia)) as D3.
    assert (Hk : 1 <= k) by (unfold k; lia).
    assert (HYk : z_last_year z + 400 * (k - 1) < fy cs <= z_last_year z + 400 * k) by (unfold k; lia).
    clearbody k.
    rewrite sec_of_year_shift in MF. destruct MF as (h' & HM).
    eexists _, h', k. split; [exact HM|]. split.
    + right. rewrite EY. auto.
    + cbv zeta.
      pose proof (zmake_bounds z (sec_of cs - k * P400) F) as B. cbv zeta in B.
      (* the shifted civil second is after 1970, so nothing is clamped from below *)
      assert (0 <= sec_of cs - k * P400).
      { assert (Yc (sec_of cs - k * P400) = fy cs - 400 * k).
        { replace (sec_of cs - k * P400) with (sec_of cs + (- k) * P400) by lia. rewrite Yc_period, EY. lia. }
        pose proof (NY_lt_inv 2370 (z_last_year z + 1) ltac:(rewrite NY_2370; lia)).
        pose proof (Yc_NY_le 1971 (sec_of cs - k * P400) ltac:(lia)).
        pose proof (NY_mono 1970 1971 ltac:(lia)). rewrite NY_1970 in *. lia. }
      assert (0 <= k * P400) by (rewrite P400_val; lia).
      rewrite !min_clamp by (unfold min64; lia).
      destruct (zk (zmake (abs_zone z) (sec_of cs - k * P400))); reflexivity.
Qed.

(* the answer as a property of the returned lookup *)
Definition answers (cs : fields) (cl : clookup) : Prop :=
  exists K p T q, ideal (soff a) (sec_of cs) K p T q /\
    cl = mkCL (kind_of' K) (clamp64z p) (clamp64z T) (clamp64z q).

Lemma shaped_answers cs k cl : shaped cs k cl -> answers cs cl.
Proof.
  intros [Hk E]. cbv zeta in E.
  eexists _, _, _, _. split; [|exact E].
  destruct Hk as [[-> R]|(Hk & Hext & HY)].
  - replace (sec_of cs - 0 * P400) with (sec_of cs) by lia. rewrite !Z.add_0_r.
    apply ideal_table. exact R.
  - apply ideal_future; assumption.
Qed.

Lemma make_time_answers hint cs : valid_fields cs = true -> int64 (fy cs) ->
  exists cl hint', make_time z hint cs = OK (cl, hint') /\ answers cs cl.
Proof.
  intros V I. destruct (make_time_shape hint cs V I) as (cl & h' & k & HM & S).
  exists cl, h'. split; [exact HM|]. exact (shaped_answers cs k cl S).
Qed.

(* convert(): the earliest instant whose civil second is not before cs *)
Definition earliest (F : Z -> Z) (L c : Z) : Prop :=
  c + F c >= L /\ (forall t, t < c -> t + F t < L).

Lemma earliest_mono F L1 L2 c1 c2 : L1 <= L2 -> earliest F L1 c1 -> earliest F L2 c2 -> c1 <= c2.
Proof.
  intros HL [A1 B1] [A2 B2].
  destruct (Z_le_gt_dec c1 c2) as [Le|Gt]; [exact Le|]. specialize (B1 c2 ltac:(lia)). lia.
Qed.

Lemma shaped_earliest cs k cl : shaped cs k cl ->
  earliest (soff a) (sec_of cs) (zconvert (abs_zone z) (sec_of cs - k * P400) + k * P400).
Proof.
  intros [Hk _].
  pose proof (zoff_day_bound h a z tailp LD FO FB) as ZB.
  pose proof (soff_bound h a z tailp LD FO FB) as SB'.
  set (L := sec_of cs) in *.
  destruct (zconvert_char (abs_zone z) (L - k * P400) (zone_ok_wfz z Hok)) as [A B].
  set (c' := zconvert (abs_zone z) (L - k * P400)) in *.
  assert (Hc' : L - k * P400 - 86400 < c' <= L - k * P400 + 86400).
  { pose proof (ZB c'). pose proof (ZB (c' - 1)). pose proof (B (c' - 1) ltac:(lia)). lia. }
  clearbody c'.
  destruct Hk as [[-> R]|(Hk & Hext & HY)].
  - replace (L - 0 * P400) with L in * by lia. rewrite Z.add_0_r.
    assert (AG : forall t, t <= c' -> soff a t = zoff (abs_zone z) t).
    { intros t Ht.
      assert (exists d ab, sinfo a t = Some (zoff (abs_zone z) t, d, ab)) as (d & ab & E).
      { destruct R as [Hne|HYL]; [apply (sinfo_table h a z tailp LD); left; exact Hne|].
        destruct (z_extended z) eqn:Hext; [|apply (sinfo_table h a z tailp LD); left; exact Hext].
        destruct (bf_last z (ld_bf h a z tailp LD)) as (l & Hl & _).
        apply (sinfo_low h a z tailp LD Hext l Hl).
        pose proof (Yc_NY_lt _ _ HYL). lia. }
      unfold soff. rewrite E. reflexivity. }
    split.
    + rewrite (AG c') by lia. exact A.
    + intros t Ht. rewrite (AG t) by lia. exact (B t Ht).
  - set (L' := L - k * P400) in *.
    destruct (bf_last z (ld_bf h a z tailp LD)) as (l & Hl & _).
    pose proof (last_time_facts h a z tailp LD Hext l Hl) as [TL _].
    assert (YL' : z_last_year z - 400 < Yc L' <= z_last_year z).
    { unfold L'. replace (L - k * P400) with (L + (- k) * P400) by lia. rewrite Yc_period. lia. }
    pose proof (Yc_NY_le (z_last_year z - 399) L' ltac:(lia)) as B1.
    pose proof (Yc_NY_lt (z_last_year z) L' ltac:(lia)) as B2.
    pose proof (NY_period (z_last_year z - 399) 1) as NP.
    replace (z_last_year z - 399 + 400 * 1) with (z_last_year z + 1) in NP by lia.
    assert (AG : forall t', tr_time l - P400 <= t' <= c' -> soff a (t' + k * P400) = zoff (abs_zone z) t').
    { intros t' Ht'. unfold soff.
      rewrite (sinfo_period h a z tailp LD Hext l Hl t' k ltac:(lia) ltac:(lia)).
      destruct (sinfo_low h a z tailp LD Hext l Hl t' ltac:(lia)) as (d & ab & E).
      rewrite E. reflexivity. }
    split.
    + rewrite (AG c') by lia. lia.
    + intros t Ht.
      destruct (Z_lt_le_dec (t - k * P400) (tr_time l - P400)) as [Lo|Hi].
      * pose proof (SB' t). lia.
      * pose proof (AG (t - k * P400) ltac:(lia)) as E.
        replace (t - k * P400 + k * P400) with t in E by lia. rewrite E.
        pose proof (B (t - k * P400) ltac:(lia)). lia.
Qed.

Lemma shaped_convert cs k cl : shaped cs k cl ->
  match cl_kind cl with SKIPPED => cl_trans cl | _ => cl_pre cl end
  = clamp64z (zconvert (abs_zone z) (sec_of cs - k * P400) + k * P400).
Proof.
  intros [_ E]. cbv zeta in E. rewrite E. unfold zconvert. cbn [cl_kind cl_pre cl_trans].
  destruct (zk (zmake (abs_zone z) (sec_of cs - k * P400))); reflexivity.
Qed.

Lemma convert_earliest hint cs : valid_fields cs = true -> int64 (fy cs) ->
  exists c, convert_cs z hint cs = OK (clamp64z c) /\ earliest (soff a) (sec_of cs) c.
Proof.
  intros V I. destruct (make_time_shape hint cs V I) as (cl & h' & k & HM & S).
  eexists. split; [|exact (shaped_earliest cs k cl S)].
  unfold convert_cs. rewrite HM. cbn [bind]. rewrite (shaped_convert cs k cl S). reflexivity.
Qed.

End Answer.

(* ================================================================== *)
(* Part 7.  C02 against the specification                               *)

(* what property C02 says about the lookup returned for civil second cs, in the specification's terms.
   Instants range over ALL integers: an instant outside the time_point<seconds> range still "displays"
   its civil second, and the three reported fields are the clamped values. *)
Definition c02_post (a : ast) (cs : fields) (cl : clookup) : Prop :=
  match cl_kind cl with
  | UNIQUE =>
      (* exactly one instant displays cs; all three fields are that instant *)
      exists t, spec_displays a t cs /\ (forall t', spec_displays a t' cs -> t' = t) /\
        cl_pre cl = clamp64z t /\ cl_trans cl = clamp64z t /\ cl_post cl = clamp64z t
  | SKIPPED =>
      (* no instant displays cs; T is an offset change (o1 before, o2 from T on) whose gap contains cs:
         T + o1 <= cs < T + o2, i.e. pre >= trans > post; pre / post = cs read with o1 / o2 *)
      (forall t, ~ spec_displays a t cs) /\
      exists T o1 o2,
        off_at (szone_of a) (T - 1) = Some o1 /\ off_at (szone_of a) T = Some o2 /\ o1 <> o2 /\
        sec_of cs - o1 >= T /\ T > sec_of cs - o2 /\
        cl_pre cl = clamp64z (sec_of cs - o1) /\ cl_trans cl = clamp64z T /\
        cl_post cl = clamp64z (sec_of cs - o2)
  | REPEATED =>
      (* exactly two instants display cs: cs read with o1 (before the change T) and with o2 (after it) *)
      exists T o1 o2,
        off_at (szone_of a) (T - 1) = Some o1 /\ off_at (szone_of a) T = Some o2 /\ o1 <> o2 /\
        spec_displays a (sec_of cs - o1) cs /\ spec_displays a (sec_of cs - o2) cs /\
        sec_of cs - o1 < T /\ T <= sec_of cs - o2 /\
        (forall t, spec_displays a t cs -> t = sec_of cs - o1 \/ t = sec_of cs - o2) /\
        cl_pre cl = clamp64z (sec_of cs - o1) /\ cl_trans cl = clamp64z T /\
        cl_post cl = clamp64z (sec_of cs - o2)
  end.

Section Post.
Variables (h : header) (a : ast) (z : zone) (tailp : list (Z * Z)).
Hypothesis LD : loaded h a z tailp.

Lemma off_at_soff t : off_at (szone_of a) t = Some (soff a t).
Proof.
  destruct (sinfo_total h a z tailp LD t) as (d & ab & E). unfold off_at. unfold sinfo in E.
  rewrite E. reflexivity.
Qed.

Lemma displays_soff t cs : valid_fields cs = true ->
  (spec_displays a t cs <-> t + soff a t = sec_of cs).
Proof.
  intros V. destruct (sinfo_total h a z tailp LD t) as (d & ab & E). unfold sinfo in E.
  unfold spec_displays, spec_lookup. rewrite E. split.
  - intros (sl & Hs & Hc). inversion Hs; subst sl. cbn [sl_cs] in Hc.
    rewrite <- Hc. rewrite sec_of_cos. reflexivity.
  - intros Ht. eexists. split; [reflexivity|]. cbn [sl_cs]. rewrite Ht. apply cos_sec_of. exact V.
Qed.

Lemma answers_post cs cl : valid_fields cs = true -> answers a cs cl -> c02_post a cs cl.
Proof.
  intros V (K & p & T & q & I & ->). unfold c02_post. cbn [cl_kind cl_pre cl_trans cl_post].
  destruct K; cbn [kind_of' ideal] in *.
  - destruct I as (-> & -> & D & U). exists q. split; [apply (displays_soff q cs V); exact D|].
    split; [|auto]. intros t' Ht'. apply U. apply (displays_soff t' cs V). exact Ht'.
  - destruct I as (N & C & -> & -> & H1 & H2). split.
    + intros t Ht. apply (N t). apply (displays_soff t cs V). exact Ht.
    + exists T, (soff a (T - 1)), (soff a T). rewrite !off_at_soff. repeat split; auto.
  - destruct I as (D1 & D2 & Ne & U & C & -> & -> & H1 & H2).
    exists T, (soff a (T - 1)), (soff a T). rewrite !off_at_soff.
    split; [reflexivity|]. split; [reflexivity|]. split; [exact C|].
    split; [apply (displays_soff _ cs V); exact D1|].
    split; [apply (displays_soff _ cs V); exact D2|].
    split; [exact H1|]. split; [exact H2|].
    split; [|auto]. intros t Ht. apply U. apply (displays_soff t cs V). exact Ht.
Qed.

End Post.

(* C02 AS ONE STATEMENT.  For every byte string that the specification's own reader parses into a
   well-formed file inside the C01 domain whose footer offsets are below a day (like the file's types),
   the loader accepts it, and - when the loaded table satisfies the property's own side condition
   (gaps_wide: adjacent offset changes are farther apart than the sum of their sizes) - for EVERY valid
   civil second with an int64 year and every hint, MakeTime returns the kind, and the pre / trans / post
   instants, that the file's data designates (spec_lookup), clamped to the time_point range. *)
Theorem c02_whole : forall bs h a,
  parse_ast bs = Some (h, a) -> wf_ast h a = true -> c01_domain h a = true ->
  footer_below_day a = true ->
  exists z, load_bytes bs = OK (Some z) /\
    (gaps_wide (zz_doff (abs_zone z)) (zz_tr (abs_zone z)) = true ->
     forall hint cs, valid_fields cs = true -> int64 (fy cs) ->
       exists cl hint', make_time z hint cs = OK (cl, hint') /\ c02_post a cs cl).
Proof.
  intros bs h a PA WF DOM FB.
  destruct (load_parse_agree bs h a PA WF DOM) as (z & tailp & LB & PAIRS & DFLT & Info & FOut).
  exists z. split; [exact LB|]. intros GW hint cs V I.
  pose proof (loaded_of bs h a z tailp PA WF DOM LB PAIRS DFLT Info FOut) as LD.
  pose proof (load_establishes_certificate_lemma bs z LB GW) as Hok.
  assert (FO : footer_offsets_ok a = true).
  { unfold c01_domain in DOM. rewrite !andb_true_iff in DOM. tauto. }
  destruct (make_time_answers h a z tailp LD FO FB Hok hint cs V I) as (cl & h' & HM & HA).
  exists cl, h'. split; [exact HM|]. exact (answers_post h a z tailp LD cs cl V HA).
Qed.

Corollary c02_whole_loaded : forall bs h a z,
  parse_ast bs = Some (h, a) -> wf_ast h a = true -> c01_domain h a = true ->
  footer_below_day a = true -> load_bytes bs = OK (Some z) ->
  gaps_wide (zz_doff (abs_zone z)) (zz_tr (abs_zone z)) = true ->
  forall hint cs, valid_fields cs = true -> int64 (fy cs) ->
    exists cl hint', make_time z hint cs = OK (cl, hint') /\ c02_post a cs cl.
Proof.
  intros bs h a z PA WF DOM FB LB.
  destruct (c02_whole bs h a PA WF DOM FB) as (z' & LB' & H).
  assert (z' = z) by congruence. subst z'. exact H.
Qed.


(* inside the time_point range nothing is clamped: e.g. a UNIQUE answer whose instant is an int64 IS that instant *)
Lemma clamp64z_id v : int64 v -> clamp64z v = v.
Proof.
  unfold int64, clamp64z. intros H.
  destruct (Z.ltb_spec v min64); destruct (Z.ltb_spec max64 v); lia.
Qed.

(* ================================================================== *)
(* Part 7b.  The side condition as a boolean on the AST                  *)

(* the instants of the loaded table, from the AST alone: the big-bang entry, the file's transitions, the
   rule instants of the 402 generated years that lie after the last one (or the 2^31-1 sentinel) *)

Lemma gen_times_indep r s d s' d' lt : forall n Y,
  map fst (rule_gen' r s d lt Y n) = map fst (rule_gen' r s' d' lt Y n).
Proof.
  induction n as [|n IH]; intros Y; [reflexivity|].
  rewrite !rule_gen'_step, !map_app, (IH (Y + 1)). f_equal.
  unfold stepl. cbn [fst].
  destruct (rule_start r Y <? rule_end r Y); cbn [fst];
    repeat match goal with |- context [if ?c then _ else _] => destruct c end; reflexivity.
Qed.

Lemma table_times_eq a types1 abbrs1 tailp ext ly : footer_out a types1 abbrs1 tailp ext ly ->
  map fst (table_pairs a tailp) = table_times a.
Proof.
  intros FOut. unfold table_pairs, table_times. cbv zeta.
  assert (E : map fst tailp = gen_times a).
  { unfold footer_out in FOut. unfold gen_times.
    destruct (footer_kind_of a) as [| |x|r].
    - destruct FOut as [_ ->]. reflexivity.
    - contradiction.
    - destruct FOut as [_ ->]. reflexivity.
    - destruct FOut as (_ & std_ti & dst_ti & lt & y0 & LIY & _ & _ & -> & _). rewrite LIY.
      apply gen_times_indep. }
  rewrite !map_app, E. f_equal.
  unfold sentinel_pairs.
  rewrite <- E, <- !map_app, last_opt_map.
  destruct (last_opt ((bb_pairs a ++ file_pairs a) ++ tailp)) as [p|]; [|reflexivity].
  cbn [option_map]. destruct (fst p <? 0); reflexivity.
Qed.

Lemma gaps_ok_adj' z : forall l, gaps_ok z l = true -> forall k t1 t2,
  nth_error l k = Some t1 -> nth_error l (S k) = Some t2 ->
  exists a b c, off_at z (t1 - 1) = Some a /\ off_at z t1 = Some b /\ off_at z t2 = Some c /\
    Z.abs (b - a) + Z.abs (c - b) < t2 - t1.
Proof.
  induction l as [|x r IH]; intros H k t1 t2 E1 E2; [destruct k; discriminate|].
  destruct r as [|y r]; [destruct k as [|[|k]]; discriminate|].
  rewrite gaps_ok_cons2 in H.
  destruct (off_at z (x - 1)) as [a0|] eqn:Ea; [|discriminate].
  destruct (off_at z x) as [b0|] eqn:Eb; [|discriminate].
  destruct (off_at z y) as [c0|] eqn:Ec; [|discriminate].
  apply andb_true_iff in H. destruct H as [H1 H2].
  destruct k as [|k].
  - cbn [nth_error] in E1, E2. inversion E1; inversion E2; subst.
    exists a0, b0, c0. rewrite Ea, Eb, Ec. repeat split. lia.
  - cbn [nth_error] in E1. apply (IH H2 k); assumption.
Qed.

Lemma gapP_gw : forall l po, gapP po l -> gaps_wide po l = true.
Proof.
  induction l as [|x r IH]; intros po H; [reflexivity|].
  destruct r as [|y r']; [reflexivity|].
  rewrite gw_cons2. apply andb_true_iff. split.
  - pose proof (H O x y eq_refl eq_refl) as H0. cbn [ob] in H0. lia.
  - apply IH. intros i a0 b0 Ha Hb.
    pose proof (H (S i) a0 b0 Ha Hb) as Hi.
    rewrite ob_cons in Hi; [exact Hi|]. apply nth_some_lt in Ha. lia.
Qed.

(* on a loaded file the AST-level condition IS the table's gaps_wide *)
Lemma table_gaps_wide h a z tailp : loaded h a z tailp -> table_gaps_ok a = true ->
  gaps_wide (zz_doff (abs_zone z)) (zz_tr (abs_zone z)) = true.
Proof.
  intros LD TG. pose proof (ld_bf h a z tailp LD) as BF.
  rewrite abs_zone_eq. cbn [zz_doff zz_tr]. apply gapP_gw.
  unfold table_gaps_ok in TG.
  rewrite <- (table_times_eq a _ _ tailp _ _ (ld_fout h a z tailp LD)), <- (ld_pairs h a z tailp LD), map_map in TG.
  pose proof (bf_st z BF) as ST.
  destruct (bf_last z BF) as (l & Hl & _).
  destruct (last_opt_nth _ _ Hl) as [Hln Hlen].
  destruct (b_tr_facts z _ l BF Hln) as (_ & _ & _ & _ & Nl).
  (* every table instant, and the second before it, has the table's offset as its designated offset *)
  assert (SO : forall i x, nth_error (absl z) i = Some x -> forall t, t <= zt_time x ->
                 off_at (szone_of a) t = Some (zoff (abs_zone z) t)).
  { intros i x Hx t Ht.
    assert (exists d ab, sinfo a t = Some (zoff (abs_zone z) t, d, ab)) as (d & ab & E).
    { destruct (z_extended z) eqn:Hext; [|apply (sinfo_table h a z tailp LD); left; exact Hext].
      pose proof (nth_some_lt _ _ _ Hx) as Hi. rewrite absl_length in Hi.
      pose proof (sortedK_le zt_time (absl z) i (length (z_trans z) - 1) _ _ ST ltac:(lia) Hx Nl) as Le.
      cbn [absf zt_time] in Le.
      pose proof (last_time_facts h a z tailp LD Hext l Hl) as [TL _].
      apply (sinfo_low h a z tailp LD Hext l Hl). lia. }
    unfold off_at. unfold sinfo in E. rewrite E. reflexivity. }
  intros i x y Hx Hy.
  assert (T1 : nth_error (map (fun tr => fst (tr_pair tr)) (z_trans z)) i = Some (zt_time x)).
  { rewrite absl_nth in Hx. rewrite nth_error_map.
    destruct (nth_error (z_trans z) i) as [tr|]; [|discriminate]. cbn [option_map] in *.
    inversion Hx. reflexivity. }
  assert (T2 : nth_error (map (fun tr => fst (tr_pair tr)) (z_trans z)) (S i) = Some (zt_time y)).
  { rewrite absl_nth in Hy. rewrite nth_error_map.
    destruct (nth_error (z_trans z) (S i)) as [tr|]; [|discriminate]. cbn [option_map] in *.
    inversion Hy. reflexivity. }
  destruct (gaps_ok_adj' _ _ TG i _ _ T1 T2) as (a0 & b0 & c0 & Ea & Eb & Ec & Hlt).
  pose proof (ST i (S i) x y ltac:(lia) Hx Hy) as Hxy.
  rewrite (SO i x Hx (zt_time x - 1) ltac:(lia)) in Ea.
  rewrite (SO i x Hx (zt_time x) ltac:(lia)) in Eb.
  rewrite (SO (S i) y Hy (zt_time y) ltac:(lia)) in Ec.
  inversion Ea; inversion Eb; inversion Ec; subst a0 b0 c0. clear Ea Eb Ec.
  destruct (zoff_at_trans (doff z) (absl z) i x ST Hx) as [Z1 Z2].
  destruct (zoff_at_trans (doff z) (absl z) (S i) y ST Hy) as [_ Z3].
  rewrite !zoff_abs, Z1, Z2, Z3 in Hlt. exact Hlt.
Qed.

(* C02 with every hypothesis a boolean on the parsed file *)
Theorem c02_whole_ast : forall bs h a,
  parse_ast bs = Some (h, a) -> wf_ast h a = true -> c01_domain h a = true ->
  footer_below_day a = true -> table_gaps_ok a = true ->
  exists z, load_bytes bs = OK (Some z) /\
    forall hint cs, valid_fields cs = true -> int64 (fy cs) ->
      exists cl hint', make_time z hint cs = OK (cl, hint') /\ c02_post a cs cl.
Proof.
  intros bs h a PA WF DOM FB TG.
  destruct (load_parse_agree bs h a PA WF DOM) as (z & tailp & LB & PAIRS & DFLT & Info & FOut).
  exists z. split; [exact LB|].
  pose proof (loaded_of bs h a z tailp PA WF DOM LB PAIRS DFLT Info FOut) as LD.
  exact (c02_whole_loaded bs h a z PA WF DOM FB LB (table_gaps_wide h a z tailp LD TG)).
Qed.

(* ================================================================== *)
(* Part 8.  Corollary C03: instant -> civil -> instant, against the specification *)

(* For every int64 instant t: BreakTime reports the civil second the file designates for t (C01), and
   MakeTime on that civil second is UNIQUE with pre = t, or REPEATED with pre = t or post = t -
   inside the table AND beyond it, without the periodic-tail hypotheses of c03_roundtrip_future. *)
Theorem c03_whole : forall bs h a,
  parse_ast bs = Some (h, a) -> wf_ast h a = true -> c01_domain h a = true ->
  footer_below_day a = true ->
  exists z, load_bytes bs = OK (Some z) /\
    (gaps_wide (zz_doff (abs_zone z)) (zz_tr (abs_zone z)) = true ->
     forall hint hint2 t, int64 t ->
       exists al h' cl h'',
         break_time z hint t = OK (al, h') /\
         spec_lookup (szone_of a) t = Some (mkSL (al_cs al) (al_off al) (al_dst al) (al_abbr al)) /\
         make_time z hint2 (al_cs al) = OK (cl, h'') /\
         ((cl_kind cl = UNIQUE /\ cl_pre cl = t) \/
          (cl_kind cl = REPEATED /\ (cl_pre cl = t \/ cl_post cl = t)))).
Proof.
  intros bs h a PA WF DOM FB.
  destruct (load_parse_agree bs h a PA WF DOM) as (z & tailp & LB & PAIRS & DFLT & Info & FOut).
  exists z. split; [exact LB|]. intros GW hint hint2 t Ht.
  pose proof (loaded_of bs h a z tailp PA WF DOM LB PAIRS DFLT Info FOut) as LD.
  assert (FO : footer_offsets_ok a = true).
  { unfold c01_domain in DOM. rewrite !andb_true_iff in DOM. tauto. }
  destruct (c01_whole_loaded bs h a z PA WF DOM LB hint t Ht) as (al & h' & HB & HS).
  (* the civil second reported is a valid one with an int64 year *)
  assert (Ecs : al_cs al = cos (t + soff a t)).
  { destruct (sinfo_total h a z tailp LD t) as (d & ab & E). unfold sinfo in E.
    unfold spec_lookup in HS. rewrite E in HS. inversion HS. reflexivity. }
  pose proof (soff_bound h a z tailp LD FO FB t) as OB.
  assert (V : valid_fields (al_cs al) = true) by (rewrite Ecs; apply valid_cos).
  assert (I : int64 (fy (al_cs al))).
  { rewrite Ecs. apply year_ok. unfold int64, min64, max64, SB in *. lia. }
  assert (D : spec_displays a t (al_cs al)).
  { eexists. split; [exact HS|reflexivity]. }
  assert (EL : sec_of (al_cs al) = t + soff a t) by (rewrite Ecs; apply sec_of_cos).
  destruct (c02_whole_loaded bs h a z PA WF DOM FB LB GW hint2 (al_cs al) V I) as (cl & h'' & HM & HP).
  exists al, h', cl, h''. split; [exact HB|]. split; [exact HS|]. split; [exact HM|].
  unfold c02_post in HP. destruct (cl_kind cl).
  - left. split; [reflexivity|].
    destruct HP as (u & _ & U & Ep & _). rewrite Ep, <- (U t D). apply clamp64z_id. exact Ht.
  - exfalso. destruct HP as (N & _). exact (N t D).
  - right. split; [reflexivity|].
    destruct HP as (T & o1 & o2 & _ & _ & _ & _ & _ & _ & _ & U & Ep & _ & Eq).
    destruct (U t D) as [E|E]; [left; rewrite Ep, <- E|right; rewrite Eq, <- E]; apply clamp64z_id; exact Ht.
Qed.

(* ================================================================== *)
(* Part 8b.  Corollary C06: convert() against the specification         *)

(* c is the earliest instant (of ALL integers) whose displayed civil second is not before cs *)
Definition spec_earliest (a : ast) (cs : fields) (c : Z) : Prop :=
  (exists o, off_at (szone_of a) c = Some o /\ c + o >= sec_of cs) /\
  (forall t o, t < c -> off_at (szone_of a) t = Some o -> t + o < sec_of cs).

Lemma clamp64z_mono x y : x <= y -> clamp64z x <= clamp64z y.
Proof.
  intros H. unfold clamp64z.
  destruct (Z.ltb_spec x min64); destruct (Z.ltb_spec max64 x);
  destruct (Z.ltb_spec y min64); destruct (Z.ltb_spec max64 y); unfold min64, max64 in *; lia.
Qed.

(* convert(cs) (time_zone.h: trans when skipped, pre otherwise) is, clamped, the earliest instant at which the
   zone the file describes shows cs or a later civil second - for every civil second, inside the table and
   beyond it; hence convert is monotone over the WHOLE civil line (no condition on the years, no tail
   hypothesis as in c06_convert_mono_future) *)
Theorem c06_whole : forall bs h a,
  parse_ast bs = Some (h, a) -> wf_ast h a = true -> c01_domain h a = true ->
  footer_below_day a = true ->
  exists z, load_bytes bs = OK (Some z) /\
    (gaps_wide (zz_doff (abs_zone z)) (zz_tr (abs_zone z)) = true ->
     (forall hint cs, valid_fields cs = true -> int64 (fy cs) ->
        exists c, convert_cs z hint cs = OK (clamp64z c) /\ spec_earliest a cs c) /\
     (forall h1 h2 cs1 cs2, valid_fields cs1 = true -> valid_fields cs2 = true ->
        int64 (fy cs1) -> int64 (fy cs2) -> sec_of cs1 <= sec_of cs2 ->
        exists x y, convert_cs z h1 cs1 = OK x /\ convert_cs z h2 cs2 = OK y /\ x <= y)).
Proof.
  intros bs h a PA WF DOM FB.
  destruct (load_parse_agree bs h a PA WF DOM) as (z & tailp & LB & PAIRS & DFLT & Info & FOut).
  exists z. split; [exact LB|]. intros GW.
  pose proof (loaded_of bs h a z tailp PA WF DOM LB PAIRS DFLT Info FOut) as LD.
  pose proof (load_establishes_certificate_lemma bs z LB GW) as Hok.
  assert (FO : footer_offsets_ok a = true).
  { unfold c01_domain in DOM. rewrite !andb_true_iff in DOM. tauto. }
  split.
  - intros hint cs V I.
    destruct (convert_earliest h a z tailp LD FO FB Hok hint cs V I) as (c & HC & [A B]).
    exists c. split; [exact HC|]. split.
    + exists (soff a c). split; [apply (off_at_soff h a z tailp LD)|exact A].
    + intros t o Ht Ho. rewrite (off_at_soff h a z tailp LD) in Ho. inversion Ho; subst o. exact (B t Ht).
  - intros h1 h2 cs1 cs2 V1 V2 I1 I2 HL.
    destruct (convert_earliest h a z tailp LD FO FB Hok h1 cs1 V1 I1) as (c1 & HC1 & E1).
    destruct (convert_earliest h a z tailp LD FO FB Hok h2 cs2 V2 I2) as (c2 & HC2 & E2).
    exists (clamp64z c1), (clamp64z c2). split; [exact HC1|]. split; [exact HC2|].
    apply clamp64z_mono. eapply earliest_mono; eassumption.
Qed.

(* ================================================================== *)
(* Part 8c.  C03 and C06 with every hypothesis on the parsed file        *)

Lemma ast_gaps_wide bs h a z : parse_ast bs = Some (h, a) -> wf_ast h a = true -> c01_domain h a = true ->
  table_gaps_ok a = true -> load_bytes bs = OK (Some z) ->
  gaps_wide (zz_doff (abs_zone z)) (zz_tr (abs_zone z)) = true.
Proof.
  intros PA WF DOM TG LB.
  destruct (load_parse_agree bs h a PA WF DOM) as (z' & tailp & LB' & PAIRS & DFLT & Info & FOut).
  assert (z' = z) by congruence. subst z'.
  exact (table_gaps_wide h a z tailp (loaded_of bs h a z tailp PA WF DOM LB PAIRS DFLT Info FOut) TG).
Qed.

Theorem c03_whole_ast : forall bs h a,
  parse_ast bs = Some (h, a) -> wf_ast h a = true -> c01_domain h a = true ->
  footer_below_day a = true -> table_gaps_ok a = true ->
  exists z, load_bytes bs = OK (Some z) /\
    forall hint hint2 t, int64 t ->
      exists al h' cl h'',
        break_time z hint t = OK (al, h') /\
        spec_lookup (szone_of a) t = Some (mkSL (al_cs al) (al_off al) (al_dst al) (al_abbr al)) /\
        make_time z hint2 (al_cs al) = OK (cl, h'') /\
        ((cl_kind cl = UNIQUE /\ cl_pre cl = t) \/
         (cl_kind cl = REPEATED /\ (cl_pre cl = t \/ cl_post cl = t))).
Proof.
  intros bs h a PA WF DOM FB TG.
  destruct (c03_whole bs h a PA WF DOM FB) as (z & LB & H).
  exists z. split; [exact LB|]. exact (H (ast_gaps_wide bs h a z PA WF DOM TG LB)).
Qed.

Theorem c06_whole_ast : forall bs h a,
  parse_ast bs = Some (h, a) -> wf_ast h a = true -> c01_domain h a = true ->
  footer_below_day a = true -> table_gaps_ok a = true ->
  exists z, load_bytes bs = OK (Some z) /\
    (forall hint cs, valid_fields cs = true -> int64 (fy cs) ->
       exists c, convert_cs z hint cs = OK (clamp64z c) /\ spec_earliest a cs c) /\
    (forall h1 h2 cs1 cs2, valid_fields cs1 = true -> valid_fields cs2 = true ->
       int64 (fy cs1) -> int64 (fy cs2) -> sec_of cs1 <= sec_of cs2 ->
       exists x y, convert_cs z h1 cs1 = OK x /\ convert_cs z h2 cs2 = OK y /\ x <= y).
Proof.
  intros bs h a PA WF DOM FB TG.
  destruct (c06_whole bs h a PA WF DOM FB) as (z & LB & H).
  exists z. split; [exact LB|]. exact (H (ast_gaps_wide bs h a z PA WF DOM TG LB)).
Qed.

(* ================================================================== *)
(* Part 9.  Non-vacuity: the New-York-like file of C01Whole.v (one transition in 2007, footer
   EST5EDT,M3.2.0,M11.1.0) satisfies every hypothesis; MakeTime evaluated on it *)

Definition c02_hyps (bs : list Z) : bool :=
  match parse_ast bs with
  | Some (h, a) =>
      wf_ast h a && c01_domain h a && footer_below_day a && table_gaps_ok a &&
      match load_bytes bs with
      | OK (Some z) => gaps_wide (zz_doff (abs_zone z)) (zz_tr (abs_zone z)) && z_extended z && (z_last_year z =? 2408)
      | _ => false
      end
  | None => false
  end.

Definition make_of (bs : list Z) (cs : fields) : option clookup :=
  match load_bytes bs with
  | OK (Some z) => match make_time z 0 cs with OK (cl, _) => Some cl | Err _ => None end
  | _ => None
  end.

Example c02_whole_nonvacuous :
  (exists h a z, parse_ast nyc_file = Some (h, a) /\ wf_ast h a = true /\ c01_domain h a = true /\
     footer_below_day a = true /\ table_gaps_ok a = true /\ load_bytes nyc_file = OK (Some z) /\
     gaps_wide (zz_doff (abs_zone z)) (zz_tr (abs_zone z)) = true /\
     z_extended z = true /\ z_last_year z = 2408) /\
  (* inside the table *)
  make_of nyc_file (mkF 2030 7 1 12 0 0) = Some (mkCL UNIQUE 1909152000 1909152000 1909152000) /\
  make_of nyc_file (mkF 2030 3 10 2 30 0) = Some (mkCL SKIPPED 1899358200 1899356400 1899354600) /\
  make_of nyc_file (mkF 2030 11 3 1 30 0) = Some (mkCL REPEATED 1919914200 1919916000 1919917800) /\
  (* beyond last_year_ = 2408 *)
  make_of nyc_file (mkF 2900 7 1 12 0 0) = Some (mkCL UNIQUE 29363702400 29363702400 29363702400) /\
  make_of nyc_file (mkF 2900 3 14 2 30 0) = Some (mkCL SKIPPED 29354254200 29354252400 29354250600) /\
  make_of nyc_file (mkF 2900 11 7 1 30 0) = Some (mkCL REPEATED 29374810200 29374812000 29374813800) /\
  (* clamped *)
  make_of nyc_file (mkF 292277026596 12 4 15 30 8) = Some (mkCL UNIQUE max64 max64 max64).
Proof.
  split.
  - assert (H : c02_hyps nyc_file = true) by (vm_compute; reflexivity).
    unfold c02_hyps in H. destruct (parse_ast nyc_file) as [[h a]|]; [|discriminate].
    destruct (load_bytes nyc_file) as [[z|]|]; try (rewrite andb_false_r in H; discriminate).
    rewrite !andb_true_iff, Z.eqb_eq in H. destruct H as [[[[H1 H2] H3] H3'] [[H4 H5] H6]].
    exists h, a, z. repeat split; auto.
  - vm_compute. repeat split; reflexivity.
Qed.

(* ================================================================== *)
(* Part 10.  About the added hypothesis footer_below_day                 *)

(* footer_below_day (footer offsets < +24h; ParsePosixSpec accepts up to +25:59:59) is what makes the
   hypotheses of FutureProofs.make_future_lemma (the last transition and the civil second before it lie in
   local year last_year_) derivable from rule_tame, and what lets a one-day window around a civil second
   contain its instants.  It is NOT shown necessary.  Witness: footer AAA-24BBB,J100/0,J365/24:30 (std +24h,
   dst +25h, fall-back at UTC Dec 30 23:30: the civil second before the last transition is Jan 1 00:29:59 of
   year last_year_ + 1, so make_future_lemma's hypothesis fails).  The file satisfies every other hypothesis
   of c02_whole, and at civil seconds around that seam (years 2408/2409 and 400 years later) MakeTime still
   agrees with the executable specification ZoneSpec.spec_civil; the C++ (cctz built from /repo, TZDIR
   pointing at these bytes) returns the same nine answers.  So this is a limit of the proof, not a defect. *)
Definition wide_footer : list Z :=
  [65;65;65;45;50;52;66;66;66;44;74;49;48;48;47;48;44;74;51;54;53;47;50;52;58;51;48].
Definition wide_file : list Z :=
  hdr' 0 0 0 ++ hdr' 1 2 8 ++ t64' 1173596400 ++ [1]
  ++ tt' 0 0 0 ++ tt' 3600 0 4 ++ [65;65;65;0;67;67;67;0] ++ [10] ++ wide_footer ++ [10].

Definition kind_agrees (k : ckind) (s : skind) : bool :=
  match k, s with UNIQUE, SU => true | SKIPPED, SS => true | REPEATED, SR => true | _, _ => false end.

Definition agrees_with_spec_civil (bs : list Z) (cs : fields) : bool :=
  match parse_ast bs, load_bytes bs with
  | Some (h, a), OK (Some z) =>
      match make_time z 0 cs with
      | OK (cl, _) =>
          let r := spec_civil (szone_of a) (sec_of cs) in
          kind_agrees (cl_kind cl) (s_kind r) && (cl_pre cl =? s_pre r) && (cl_trans cl =? s_trans r)
          && (cl_post cl =? s_post r)
      | Err _ => false
      end
  | _, _ => false
  end.

Definition other_hyps (bs : list Z) : bool :=
  match parse_ast bs with
  | Some (h, a) =>
      wf_ast h a && c01_domain h a && negb (footer_below_day a) &&
      match load_bytes bs with
      | OK (Some z) => gaps_wide (zz_doff (abs_zone z)) (zz_tr (abs_zone z)) && z_extended z && (z_last_year z =? 2408)
      | _ => false
      end
  | None => false
  end.

Example below_day_not_shown_necessary :
  other_hyps wide_file = true /\
  forallb (agrees_with_spec_civil wide_file)
    [mkF 2409 1 1 0 10 0; mkF 2409 1 1 0 40 0; mkF 2408 12 31 23 40 0; mkF 2408 12 31 23 20 0;
     mkF 2409 1 1 2 0 0; mkF 2809 1 1 0 10 0; mkF 2808 12 31 23 40 0; mkF 2809 4 10 0 30 0;
     mkF 2809 4 11 0 30 0] = true /\
  make_of wide_file (mkF 2409 1 1 0 10 0) = Some (mkCL REPEATED 13853459400 13853460600 13853463000).
Proof. vm_compute. repeat split; reflexivity. Qed.

Print Assumptions c02_whole.
Print Assumptions c02_whole_loaded.
Print Assumptions c02_whole_ast.
Print Assumptions c03_whole.
Print Assumptions c06_whole.
Print Assumptions c03_whole_ast.
Print Assumptions c06_whole_ast.
Print Assumptions c02_whole_nonvacuous.
Print Assumptions below_day_not_shown_necessary.
