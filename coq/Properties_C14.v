(* Properties_C14.v — C14: results never depend on call history. *)
From CCTZ Require Import Base Cal CivilImpl ZoneLoad ZoneImpl ZoneHist ZoneSelect.
Local Open Scope Z_scope.

(* every hint value (including negative / out of range) gives the same answer *)
Theorem hint_irrelevant_break : forall z h1 h2 t, table_sorted z = true ->
  res_fst (break_time z h1 t) = res_fst (break_time z h2 t).
Proof. exact hint_irrelevant_break_lemma. Qed.
Print Assumptions hint_irrelevant_break.

Theorem hint_irrelevant_make : forall z h1 h2 cs, table_sorted z = true ->
  res_fst (make_time z h1 cs) = res_fst (make_time z h2 cs).
Proof. exact hint_irrelevant_make_lemma. Qed.
Print Assumptions hint_irrelevant_make.

(* any history, from any hidden state, answers position by position what each
   operation answers alone from the fresh state *)
Theorem history_independent : forall z st ops, table_sorted z = true ->
  run_ops z st ops = map (fun o => snd (step_op z (0, 0) o)) ops.
Proof. exact history_independent_lemma. Qed.
Print Assumptions history_independent.

(* the searches the implementation performs meet std::upper_bound's
   precondition: never Precond on a sorted table *)
Theorem searches_meet_precondition : forall z h t cs, table_sorted z = true ->
  break_time z h t <> Err Precond /\ make_time z h cs <> Err Precond /\
  next_transition z t <> Err Precond /\ prev_transition z t <> Err Precond.
Proof. exact searches_meet_precondition_lemma. Qed.
Print Assumptions searches_meet_precondition.

From CCTZ Require Import SourceZone SourceZoneProofs SourceZoneHints.
(* the same at the level of the SOURCE-DERIVED queries (SourceZone.v, regenerated from clang's AST of the current
   time_zone_info.cc on every run): whatever size_t value the hint cell holds - left by any earlier call, or stored by
   another thread - the BreakTime / MakeTime the source contains now return the answer the model gives from any other hint *)
Theorem src_hint_irrelevant_break : forall z h1 h2 t al h1' fuel,
  table_sorted z = true -> size_t (vec_size (z_trans z)) -> size_t h2 -> (2 <= fuel)%nat ->
  break_time z h1 t = OK (al, h1') ->
  exists h2', sz_BreakTime fuel z h2 t = OK (al, h2').
Proof. exact src_hint_irrelevant_break_lemma. Qed.
Print Assumptions src_hint_irrelevant_break.
Theorem src_hint_irrelevant_make : forall z h1 h2 cs cl h1' fuel,
  table_sorted z = true -> size_t (vec_size (z_trans z)) -> size_t h2 ->
  valid_fields cs = true -> int64 (z_last_year z - 400) -> (3 <= fuel)%nat ->
  make_time z h1 cs = OK (cl, h1') ->
  exists h2', sz_MakeTime fuel z h2 cs = OK (cl, h2').
Proof. exact src_hint_irrelevant_make_lemma. Qed.
Print Assumptions src_hint_irrelevant_make.
