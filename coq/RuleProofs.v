(* RuleProofs.v — C01, footer part: TransOffset equals the calendar reading of
   a POSIX date form in every year, the rule instants are 400-year periodic,
   and ExtendTransitions' loop generates exactly the rule instants.
   The statements are packaged for Properties_C01.v (which defines pdate_ok and
   rule_gen; they are reproduced here, syntactically identical, as pdate_ok'
   and rule_gen'). *)
From CCTZ Require Import Base SrcConstants Cal CivilImpl PosixImpl ZoneLoad ZoneSpec CalProofs WeekdayProofs.
From CCTZ Require Export WholeDomain.
Require Import ZifyBool.
Local Open Scope Z_scope.
Ltac Zify.zify_post_hook ::= Z.to_euclidean_division_equations.

Definition pdate_ok' (d : pdate) : bool :=
  match d with
  | DJ n => (1 <=? n) && (n <=? 365)
  | DN n => (0 <=? n) && (n <=? 365)
  | DM m w wd => (1 <=? m) && (m <=? 12) && (1 <=? w) && (w <=? 5) && (0 <=? wd) && (wd <=? 6)
  end.


(* ------------------------------------------------------------------ *)
(* date_yday depends on the year only through (leap, weekday of Jan 1)  *)

Lemma pwd_add z k : posix_wd_of_days (z + k) = (posix_wd_of_days z + k) mod 7.
Proof. unfold posix_wd_of_days, weekday_of_days. lia. Qed.

Lemma pwd_range z : 0 <= posix_wd_of_days z <= 6.
Proof. unfold posix_wd_of_days. lia. Qed.

Definition spec_yday (leap : bool) (jw : Z) (d : pdate) : Z :=
  match d with
  | DJ n => if leap && (60 <=? n) then n else n - 1
  | DN n => n
  | DM m w wd =>
      let first := doyb leap m 1 in
      let day :=
        if w =? 5 then
          let dim := dimb leap m in
          let lastwd := (jw + (first + dim - 1)) mod 7 in
          dim - (lastwd - wd) mod 7
        else
          let firstwd := (jw + first) mod 7 in
          1 + (wd - firstwd) mod 7 + 7 * (w - 1) in
      first + (day - 1)
  end.

Lemma dfc_rel Y m d : days_from_civil Y m d = days_from_civil Y 1 1 + doyb (is_leap Y) m d.
Proof. rewrite !dfc_doyb, doyb_first. lia. Qed.

Lemma date_yday_spec_yday Y d :
  date_yday d Y = spec_yday (is_leap Y) (posix_wd_of_days (days_from_civil Y 1 1)) d.
Proof.
  destruct d as [n|n|m w wd]; cbn [date_yday spec_yday]; try reflexivity.
  cbv zeta.
  rewrite (dfc_rel Y m 1), dim_dimb.
  set (J := days_from_civil Y 1 1).
  set (F := doyb (is_leap Y) m 1).
  set (DIM := dimb (is_leap Y) m).
  replace (J + F + DIM - 1) with (J + (F + DIM - 1)) by lia.
  rewrite !pwd_add.
  set (jw := posix_wd_of_days J).
  match goal with |- days_from_civil Y m ?day - J = _ => rewrite (dfc_rel Y m day) end.
  fold J. rewrite doyb_day. fold F.
  destruct (w =? 5); lia.
Qed.

(* ------------------------------------------------------------------ *)
(* the day computation of TransOffset, as a function of (leap, jw)      *)

Definition impl_days (leap : bool) (jan1_weekday : Z) (date : pdate) : res Z :=
  match date with
  | DJ day =>
      do mo3 <- nth_res src_kMonthOffsets1 3 ;;
      OK (if negb leap || (day <? mo3) then day - 1 else day)
  | DN day => OK day
  | DM month week weekday =>
      let last_week := week =? 5 in
      do days0 <- nth_res (month_offsets leap) (month + b2z last_week) ;;
      let wd := Z.rem (jan1_weekday + days0) 7 in
      if last_week then
        OK (days0 - (Z.rem (wd + 7 - 1 - weekday) 7 + 1))
      else
        OK (days0 + Z.rem (weekday + 7 - wd) 7 + (week - 1) * 7)
  end.

Lemma trans_offset_impl_days leap jw d time :
  trans_offset leap jw (mkPT (Some d) (Some time)) =
  (do days <- impl_days leap jw d ;;
   do a <- mul64 days src_kSecsPerDay ;;
   add64 a time).
Proof. reflexivity. Qed.

Definition dm_ok (leap : bool) (jw m w wd : Z) : bool :=
  match impl_days leap jw (DM m w wd) with
  | OK v => (v =? spec_yday leap jw (DM m w wd)) && (0 <=? v) && (v <=? 365)
  | Err _ => false
  end.

Lemma dm_sweep :
  forallb (fun leap => forallb (fun jw => forallb (fun m => forallb (fun w =>
    forallb (fun wd => dm_ok leap jw m w wd)
      (zrange 0 7)) (zrange 1 5)) (zrange 1 12)) (zrange 0 7)) [true; false] = true.
Proof. vm_compute. reflexivity. Qed.

Lemma dm_ok_all leap jw m w wd :
  0 <= jw <= 6 -> 1 <= m <= 12 -> 1 <= w <= 5 -> 0 <= wd <= 6 -> dm_ok leap jw m w wd = true.
Proof.
  intros Hj Hm Hw Hd. pose proof dm_sweep as S.
  rewrite forallb_forall in S.
  assert (I0 : In leap [true; false]) by (destruct leap; simpl; auto).
  specialize (S leap I0). rewrite forallb_forall in S.
  assert (I1 : In jw (zrange 0 7)) by (apply zrange_In; lia).
  specialize (S jw I1). rewrite forallb_forall in S.
  assert (I2 : In m (zrange 1 12)) by (apply zrange_In; lia).
  specialize (S m I2). rewrite forallb_forall in S.
  assert (I3 : In w (zrange 1 5)) by (apply zrange_In; lia).
  specialize (S w I3). rewrite forallb_forall in S.
  assert (I4 : In wd (zrange 0 7)) by (apply zrange_In; lia).
  exact (S wd I4).
Qed.

Lemma impl_days_spec leap jw d :
  pdate_ok' d = true -> 0 <= jw <= 6 ->
  impl_days leap jw d = OK (spec_yday leap jw d) /\ 0 <= spec_yday leap jw d <= 365.
Proof.
  intros Hd Hj. destruct d as [n|n|m w wd].
  - cbn [pdate_ok'] in Hd. cbn [impl_days spec_yday].
    change (nth_res src_kMonthOffsets1 3) with (OK (A := Z) 60). cbn [bind].
    destruct leap; cbn [negb orb andb].
    + destruct (Z.ltb_spec n 60); destruct (Z.leb_spec 60 n); try lia; split; try reflexivity; lia.
    + split; [reflexivity|lia].
  - cbn [pdate_ok'] in Hd. cbn [impl_days spec_yday]. split; [reflexivity|lia].
  - cbn [pdate_ok'] in Hd.
    assert (H := dm_ok_all leap jw m w wd Hj ltac:(lia) ltac:(lia) ltac:(lia)).
    unfold dm_ok in H.
    destruct (impl_days leap jw (DM m w wd)) as [v|e]; [|discriminate].
    assert (v = spec_yday leap jw (DM m w wd) /\ 0 <= v <= 365) as [E R] by lia.
    rewrite <- E. split; [reflexivity|exact R].
Qed.

Lemma trans_offset_matches_calendar_lemma : forall Y d time,
  pdate_ok' d = true -> -1000000 <= time <= 1000000 ->
  trans_offset (is_leap_year64 Y) (posix_wd_of_days (days_from_civil Y 1 1)) (mkPT (Some d) (Some time))
  = OK (date_yday d Y * 86400 + time).
Proof.
  intros Y d time Hd Ht.
  rewrite trans_offset_impl_days, date_yday_spec_yday, is_leap_year64_spec.
  destruct (impl_days_spec (is_leap Y) (posix_wd_of_days (days_from_civil Y 1 1)) d Hd
              (pwd_range _)) as [E R].
  rewrite E. cbn [bind]. set (v := spec_yday _ _ _) in *. clearbody v.
  unfold mul64, add64, src_kSecsPerDay.
  rewrite chk64_in by (unfold int64, min64, max64; lia). cbn [bind].
  rewrite chk64_in by (unfold int64, min64, max64; lia). reflexivity.
Qed.

Lemma date_yday_range_lemma : forall Y d, pdate_ok' d = true -> 0 <= date_yday d Y <= 365.
Proof.
  intros Y d Hd. rewrite date_yday_spec_yday.
  exact (proj2 (impl_days_spec _ _ d Hd (pwd_range _))).
Qed.

(* ------------------------------------------------------------------ *)
(* 400-year periodicity                                                 *)

Lemma date_yday_period d Y k : date_yday d (Y + 400 * k) = date_yday d Y.
Proof.
  rewrite !date_yday_spec_yday, is_leap_period, dfc_period, pwd_add.
  f_equal. unfold posix_wd_of_days, weekday_of_days. lia.
Qed.

Lemma rule_periodic_lemma : forall r Y k,
  rule_start r (Y + 400 * k) = rule_start r Y + 146097 * 86400 * k /\
  rule_end r (Y + 400 * k) = rule_end r Y + 146097 * 86400 * k.
Proof.
  intros r Y k. unfold rule_start, rule_end.
  rewrite !date_yday_period, dfc_period. split; ring.
Qed.

(* ------------------------------------------------------------------ *)
(* ExtendTransitions' loop                                              *)

Lemma dfc_jan1_bound y : -20000000000 <= y <= 20000000401 ->
  -8000000000000 <= days_from_civil y 1 1 <= 8000000000000.
Proof.
  intros H. unfold days_from_civil.
  change (cum_days 1) with 0. change ((2 <? 1) && is_leap y) with false. cbv iota.
  change (days_before_year 1970) with 719528.
  unfold days_before_year, leaps_before. lia.
Qed.

Lemma no_consecutive_leap y : is_leap y = true -> is_leap (y + 1) = false.
Proof. unfold is_leap. lia. Qed.

Lemma next_leap_flag y :
  negb (is_leap_year64 y) && is_leap_year64 (y + 1) = is_leap_year64 (y + 1).
Proof.
  rewrite !is_leap_year64_spec. destruct (is_leap y) eqn:E; cbn [negb andb]; [|reflexivity].
  symmetry. apply no_consecutive_leap. exact E.
Qed.

(* the transitions one iteration appends *)
Definition step_trs (r : rule) (std_ti dst_ti last_time y : Z) : list transition :=
  let dst := mkTr (rule_start r y) dst_ti epoch epoch in
  let std := mkTr (rule_end r y) std_ti epoch epoch in
  let '(ta, tb) := if rule_start r y <? rule_end r y then (dst, std) else (std, dst) in
  if last_time <? tr_time tb then (if last_time <? tr_time ta then [ta; tb] else [tb]) else [].

Definition tr_pair (tr : transition) : Z * Z := (tr_time tr, tr_type tr).

Lemma rule_gen'_S r std_ti dst_ti last_time Y k :
  rule_gen' r std_ti dst_ti last_time Y (S k) =
  map tr_pair (step_trs r std_ti dst_ti last_time Y) ++ rule_gen' r std_ti dst_ti last_time (Y + 1) k.
Proof.
  cbn [rule_gen']. cbv zeta. unfold step_trs. cbn [fst]. f_equal.
  destruct (rule_start r Y <? rule_end r Y); cbn [fst tr_time];
    repeat match goal with |- context [if ?c then _ else _] => destruct c end; reflexivity.
Qed.

Lemma acc_shape (acc : list transition) (c1 c2 : bool) ta tb :
  (if c1 then (if c2 then acc ++ [ta] else acc) ++ [tb] else acc) =
  acc ++ (if c1 then (if c2 then [ta; tb] else [tb]) else []).
Proof. destruct c1, c2; rewrite <- ?app_assoc, ?app_nil_r; reflexivity. Qed.

Lemma nth_res_b2z2 {A} (a b : A) (leap : bool) :
  nth_res [a; b] (b2z leap) = OK (if leap then b else a).
Proof. destruct leap; reflexivity. Qed.

Definition canon (y : Z) (acc : list transition) : ext_state :=
  mkES y (is_leap_year64 y) (86400 * days_from_civil y 1 1)
       (posix_wd_of_days (days_from_civil y 1 1)) acc.

Section Loop.
Variables (r : rule) (std_ti dst_ti last_time y0 : Z).
Hypothesis Hsd : pdate_ok' (r_start_date r) = true.
Hypothesis Hed : pdate_ok' (r_end_date r) = true.
Hypothesis Hst : -1000000 <= r_start_time r <= 1000000.
Hypothesis Het : -1000000 <= r_end_time r <= 1000000.
Hypothesis Hso : -100000 <= fst (fst (r_std r)) <= 100000.
Hypothesis Hdo : -100000 <= fst (fst (r_dst r)) <= 100000.
Hypothesis Hy0 : -20000000000 <= y0 <= 20000000000.

Let ps := mkPT (Some (r_start_date r)) (Some (r_start_time r)).
Let pe := mkPT (Some (r_end_date r)) (Some (r_end_time r)).
Let so := fst (fst (r_std r)).
Let dof := fst (fst (r_dst r)).

Lemma loop_step f y acc : y0 <= y <= y0 + 401 ->
  extend_loop (S f) ps pe so dof std_ti dst_ti last_time (y0 + 401) (canon y acc) =
  if y =? y0 + 401 then OK (canon y (acc ++ step_trs r std_ti dst_ti last_time y))
  else extend_loop f ps pe so dof std_ti dst_ti last_time (y0 + 401)
         (canon (y + 1) (acc ++ step_trs r std_ti dst_ti last_time y)).
Proof.
  intros Hy.
  assert (HD := dfc_jan1_bound y ltac:(lia)).
  assert (R1 := date_yday_range_lemma y _ Hsd).
  assert (R2 := date_yday_range_lemma y _ Hed).
  assert (NL := next_leap_flag y).
  assert (Eleap := is_leap_year64_spec y).
  assert (Estep := dfc_year_step y). unfold days_in_year in Estep.
  unfold canon, ps, pe.
  cbn [extend_loop es_year es_leap es_jan1_time es_jan1_wd es_acc].
  rewrite (trans_offset_matches_calendar_lemma y _ _ Hsd Hst). cbn [bind].
  rewrite (trans_offset_matches_calendar_lemma y _ _ Hed Het). cbn [bind].
  unfold add64, sub64, so, dof.
  set (D := days_from_civil y 1 1) in *.
  set (y1 := date_yday (r_start_date r) y) in *.
  set (y2 := date_yday (r_end_date r) y) in *.
  rewrite (chk64_in (86400 * D + (y1 * 86400 + r_start_time r))) by (unfold int64, min64, max64; lia).
  cbn [bind].
  rewrite (chk64_in (86400 * D + (y1 * 86400 + r_start_time r) - fst (fst (r_std r))))
    by (unfold int64, min64, max64; lia).
  cbn [bind].
  rewrite (chk64_in (86400 * D + (y2 * 86400 + r_end_time r))) by (unfold int64, min64, max64; lia).
  cbn [bind].
  rewrite (chk64_in (86400 * D + (y2 * 86400 + r_end_time r) - fst (fst (r_dst r))))
    by (unfold int64, min64, max64; lia).
  cbn [bind].
  replace (86400 * D + (y1 * 86400 + r_start_time r) - fst (fst (r_std r))) with (rule_start r y)
    by (unfold rule_start; fold D; fold y1; ring).
  replace (86400 * D + (y2 * 86400 + r_end_time r) - fst (fst (r_dst r))) with (rule_end r y)
    by (unfold rule_end; fold D; fold y2; ring).
  unfold step_trs.
  destruct (rule_start r y <? rule_end r y) eqn:Eord.
  all: cbv beta iota zeta; cbn [tr_time]; rewrite !acc_shape.
  all: destruct (Z.eqb_spec y (y0 + 401)) as [Ey|Ny]; [reflexivity|].
  all: unfold src_kSecsPerDay, src_kDaysPerYear, add64.
  all: rewrite nth_res_b2z2; cbn [bind].
  all: rewrite chk64_in by (unfold int64, min64, max64; destruct (is_leap_year64 y); lia); cbn [bind].
  all: rewrite nth_res_b2z2; cbn [bind].
  all: rewrite chk64_in by (unfold int64, min64, max64; lia); cbn [bind].
  all: rewrite NL.
  all: f_equal; f_equal.
  all: destruct (is_leap_year64 y); rewrite <- Eleap in Estep.
  all: try (rewrite Estep; ring).
  all: rewrite Estep, pwd_add; pose proof (pwd_range D); lia.
Qed.

Lemma loop_inv : forall n fuel y acc,
  (n < fuel)%nat -> y + Z.of_nat n = y0 + 401 -> y0 <= y ->
  exists st,
    extend_loop fuel ps pe so dof std_ti dst_ti last_time (y0 + 401) (canon y acc) = OK st /\
    es_year st = y0 + 401 /\
    map tr_pair (es_acc st) = map tr_pair acc ++ rule_gen' r std_ti dst_ti last_time y (S n).
Proof.
  induction n as [|n IH]; intros fuel y acc Hf Hy Hlo.
  - destruct fuel as [|f]; [lia|].
    rewrite loop_step by lia.
    replace (y =? y0 + 401) with true by lia.
    eexists; split; [reflexivity|]. cbn [canon es_year es_acc]. split; [lia|].
    rewrite map_app, rule_gen'_S. cbn [rule_gen']. rewrite app_nil_r. reflexivity.
  - destruct fuel as [|f]; [lia|].
    rewrite loop_step by lia.
    replace (y =? y0 + 401) with false by lia.
    destruct (IH f (y + 1) (acc ++ step_trs r std_ti dst_ti last_time y) ltac:(lia) ltac:(lia) ltac:(lia))
      as [st [E [Ey Em]]].
    exists st. split; [exact E|]. split; [exact Ey|].
    rewrite Em, map_app, <- app_assoc. f_equal.
    symmetry. apply rule_gen'_S.
Qed.

End Loop.

Lemma extend_loop_matches_rule_lemma : forall r std_ti dst_ti last_time y0,
  pdate_ok' (r_start_date r) = true -> pdate_ok' (r_end_date r) = true ->
  -1000000 <= r_start_time r <= 1000000 -> -1000000 <= r_end_time r <= 1000000 ->
  -100000 <= fst (fst (r_std r)) <= 100000 -> -100000 <= fst (fst (r_dst r)) <= 100000 ->
  -20000000000 <= y0 <= 20000000000 ->
  exists st,
    extend_loop 403 (mkPT (Some (r_start_date r)) (Some (r_start_time r)))
                    (mkPT (Some (r_end_date r)) (Some (r_end_time r)))
                    (fst (fst (r_std r))) (fst (fst (r_dst r))) std_ti dst_ti last_time (y0 + 401)
                    (mkES y0 (is_leap_year64 y0) (86400 * days_from_civil y0 1 1)
                          (posix_wd_of_days (days_from_civil y0 1 1)) [])
    = OK st /\
    es_year st = y0 + 401 /\
    map (fun tr => (tr_time tr, tr_type tr)) (es_acc st) = rule_gen' r std_ti dst_ti last_time y0 402.
Proof.
  intros r std_ti dst_ti last_time y0 Hsd Hed Hst Het Hso Hdo Hy0.
  assert (F : (401 < 403)%nat) by (apply Nat.ltb_lt; vm_compute; reflexivity).
  assert (Y : y0 + Z.of_nat 401 = y0 + 401) by (f_equal).
  exact (loop_inv r std_ti dst_ti last_time y0 Hsd Hed Hst Het Hso Hdo Hy0 401%nat 403%nat y0 [] F Y (Z.le_refl y0)).
Qed.

Print Assumptions trans_offset_matches_calendar_lemma.
Print Assumptions date_yday_range_lemma.
Print Assumptions rule_periodic_lemma.
Print Assumptions extend_loop_matches_rule_lemma.

(* Status: all four packaged lemmas (trans_offset_matches_calendar_lemma,
   date_yday_range_lemma, rule_periodic_lemma, extend_loop_matches_rule_lemma)
   are proved; nothing is left unproved in this file. *)
