(* Properties_C05.v — C05: arithmetic and difference are exact inverses. *)
From CCTZ Require Import Base Cal CivilImpl CalProofs CivilProofs.
Local Open Scope Z_scope.

Definition aligned (tag : nat) (f : fields) : Prop := align_spec tag f = f.

(* ordinals: of_ord and ord are mutually inverse on aligned valid values *)
Theorem ord_inverse : forall tag, (tag <= 5)%nat ->
  (forall n, ord_spec tag (of_ord_spec tag n) = n /\ valid_fields (of_ord_spec tag n) = true /\ aligned tag (of_ord_spec tag n)) /\
  (forall f, valid_fields f = true -> aligned tag f -> of_ord_spec tag (ord_spec tag f) = f).
Proof. exact ord_inverse_lemma. Qed.
Print Assumptions ord_inverse.

Theorem plus_refines : forall tag f n, (tag <= 5)%nat ->
  valid_fields f = true -> aligned tag f -> int64 (fy f) -> int64 n ->
  int64 (fy (of_ord_spec tag (ord_spec tag f + n))) ->
  plus64 tag f n = OK (of_ord_spec tag (ord_spec tag f + n)).
Proof. exact plus_refines_lemma. Qed.
Print Assumptions plus_refines.

Theorem minus_refines : forall tag f n, (tag <= 5)%nat ->
  valid_fields f = true -> aligned tag f -> int64 (fy f) -> int64 n ->
  int64 (fy (of_ord_spec tag (ord_spec tag f - n))) ->
  minus64 tag f n = OK (of_ord_spec tag (ord_spec tag f - n)).
Proof. exact minus_refines_lemma. Qed.
Print Assumptions minus_refines.

Theorem difference_refines : forall tag f1 f2, (tag <= 5)%nat ->
  valid_fields f1 = true -> valid_fields f2 = true -> aligned tag f1 -> aligned tag f2 ->
  int64 (fy f1) -> int64 (fy f2) ->
  int64 (ord_spec tag f1 - ord_spec tag f2) ->
  difference64 tag f1 f2 = OK (ord_spec tag f1 - ord_spec tag f2).
Proof. exact difference_refines_lemma. Qed.
Print Assumptions difference_refines.

(* comparison: lexicographic order on six fields = order of the time line,
   across alignments (all six fields are always compared) *)
Theorem order_agrees : forall a b, valid_fields a = true -> valid_fields b = true ->
  lt64 a b = (sec_of a <? sec_of b) /\ eq64 a b = (sec_of a =? sec_of b).
Proof. exact order_agrees_lemma. Qed.
Print Assumptions order_agrees.

Theorem lt_iff_difference_negative : forall tag a b, (tag <= 5)%nat ->
  valid_fields a = true -> valid_fields b = true -> aligned tag a -> aligned tag b ->
  (lt64 a b = true <-> ord_spec tag a - ord_spec tag b < 0).
Proof. exact lt_iff_difference_negative_lemma. Qed.
Print Assumptions lt_iff_difference_negative.

Example c05_nonvacuous :
  plus64 3 (mkF 2024 2 28 0 0 0) 2 = OK (mkF 2024 3 1 0 0 0) /\
  difference64 0 (mkF max64 12 31 23 59 59) (mkF (max64 - 200) 1 1 0 0 0) = OK 6342883199.
Proof. vm_compute. split; reflexivity. Qed.

(* ---- tie to the CURRENT source: the functions below are translated from clang's AST
   of /repo on every run (coq/Translated.v); the model computes exactly them ---- *)
From CCTZ Require Import Translated TranslatedProofs.
Theorem src_tie_scale_add : forall v f a r, scale_add64 v f a = OK r -> r = tr_scale_add v f a.
Proof. exact tr_scale_add_eq. Qed.
Print Assumptions src_tie_scale_add.
Theorem src_tie_ymd_ord : forall y m d r, ymd_ord64 y m d = OK r -> r = tr_ymd_ord y m d.
Proof. exact tr_ymd_ord_eq. Qed.
Print Assumptions src_tie_ymd_ord.

From CCTZ Require Import Source64 Source64Proofs Source64Cor.

(* SOURCE-DERIVED checked functions (Source64.v, regenerated from clang's AST of the current
   civil_time_detail.h on every run): operator+ and difference meet the ordinal spec *)
Theorem src64_plus_meets_spec : forall tag f n, (tag <= 5)%nat ->
  valid_fields f = true -> align_spec tag f = f -> int64 (fy f) -> int64 n ->
  int64 (fy (of_ord_spec tag (ord_spec tag f + n))) ->
  s64_plus tag f n = OK (of_ord_spec tag (ord_spec tag f + n)).
Proof. exact src64_plus_meets_spec_lemma. Qed.
Print Assumptions src64_plus_meets_spec.

Theorem src64_difference_meets_spec : forall tag f1 f2, (tag <= 5)%nat ->
  valid_fields f1 = true -> valid_fields f2 = true -> align_spec tag f1 = f1 -> align_spec tag f2 = f2 ->
  int64 (fy f1) -> int64 (fy f2) ->
  int64 (ord_spec tag f1 - ord_spec tag f2) ->
  s64_difference tag f1 f2 = OK (ord_spec tag f1 - ord_spec tag f2).
Proof. exact src64_difference_meets_spec_lemma. Qed.
Print Assumptions src64_difference_meets_spec.

Theorem src64_tie_day_difference y1 m1 d1 y2 m2 d2 r :
  -128 <= m1 <= 127 -> -128 <= d1 <= 127 -> -128 <= m2 <= 127 -> -128 <= d2 <= 127 ->
  day_difference64 y1 m1 d1 y2 m2 d2 = OK r -> s64_day_difference y1 m1 d1 y2 m2 d2 = OK r.
Proof. exact (s64_day_difference_tie y1 m1 d1 y2 m2 d2 r). Qed.
Print Assumptions src64_tie_day_difference.


From CCTZ Require Import Source64 Source64Proofs Source64MoreProofs.
(* MORE OF civil_time_detail.h AS CLANG READS IT NOW (Source64.v, regenerated every run; templates read through their
   instantiations in a probe translation unit, overloads resolved by clang): the civil_time constructors, conversions,
   operators and next/prev_weekday.  Source64MoreProofs.v ties each to the hand-written model and composes with the
   refinement theorems: the CURRENT source meets the calendar specification, with no intermediate overflow. *)
Theorem src64m_plus_meets_spec : forall tag f n, (tag <= 5)%nat ->
  valid_fields f = true -> align_spec tag f = f -> int64 (fy f) -> int64 n ->
  int64 (fy (of_ord_spec tag (ord_spec tag f + n))) ->
  s64m_plus tag f n = OK (of_ord_spec tag (ord_spec tag f + n)) /\
  s64m_plus_rev tag n f = OK (of_ord_spec tag (ord_spec tag f + n)).
Proof. exact Source64MoreProofs.src64m_plus_meets_spec. Qed.
Print Assumptions src64m_plus_meets_spec.
Theorem src64m_minus_meets_spec : forall tag f n, (tag <= 5)%nat ->
  valid_fields f = true -> align_spec tag f = f -> int64 (fy f) -> int64 n ->
  int64 (fy (of_ord_spec tag (ord_spec tag f - n))) ->
  s64m_minus tag f n = OK (of_ord_spec tag (ord_spec tag f - n)).
Proof. exact Source64MoreProofs.src64m_minus_meets_spec. Qed.
Print Assumptions src64m_minus_meets_spec.
Theorem src64m_diff_meets_spec : forall tag f1 f2, (tag <= 5)%nat ->
  valid_fields f1 = true -> valid_fields f2 = true -> align_spec tag f1 = f1 -> align_spec tag f2 = f2 ->
  int64 (fy f1) -> int64 (fy f2) ->
  int64 (ord_spec tag f1 - ord_spec tag f2) ->
  s64m_diff tag f1 f2 = OK (ord_spec tag f1 - ord_spec tag f2).
Proof. exact Source64MoreProofs.src64m_diff_meets_spec. Qed.
Print Assumptions src64m_diff_meets_spec.
Theorem src64m_assign_meets_spec : forall tag f n, (tag <= 5)%nat ->
  valid_fields f = true -> align_spec tag f = f -> int64 (fy f) -> int64 n ->
  (int64 (fy (of_ord_spec tag (ord_spec tag f + n))) ->
   s64m_add_assign tag f n = OK (of_ord_spec tag (ord_spec tag f + n))) /\
  (int64 (fy (of_ord_spec tag (ord_spec tag f - n))) ->
   s64m_sub_assign tag f n = OK (of_ord_spec tag (ord_spec tag f - n))).
Proof. exact Source64MoreProofs.src64m_assign_meets_spec. Qed.
Print Assumptions src64m_assign_meets_spec.
Theorem src64m_inc_dec_meets_spec : forall tag f, (tag <= 5)%nat ->
  valid_fields f = true -> align_spec tag f = f -> int64 (fy f) ->
  (int64 (fy (of_ord_spec tag (ord_spec tag f + 1))) ->
   s64m_pre_inc tag f = OK (of_ord_spec tag (ord_spec tag f + 1)) /\
   s64m_post_inc tag f = OK (f, of_ord_spec tag (ord_spec tag f + 1))) /\
  (int64 (fy (of_ord_spec tag (ord_spec tag f - 1))) ->
   s64m_pre_dec tag f = OK (of_ord_spec tag (ord_spec tag f - 1)) /\
   s64m_post_dec tag f = OK (f, of_ord_spec tag (ord_spec tag f - 1))).
Proof. exact Source64MoreProofs.src64m_inc_dec_meets_spec. Qed.
Print Assumptions src64m_inc_dec_meets_spec.
Theorem src64m_order_agrees : forall a b, valid_fields a = true -> valid_fields b = true ->
  s64_lt a b = OK (sec_of a <? sec_of b) /\ s64_le a b = OK (sec_of a <=? sec_of b) /\
  s64_gt a b = OK (sec_of b <? sec_of a) /\ s64_ge a b = OK (sec_of b <=? sec_of a) /\
  s64_eq a b = OK (sec_of a =? sec_of b) /\ s64_ne a b = OK (negb (sec_of a =? sec_of b)).
Proof. exact Source64MoreProofs.src64m_order_agrees. Qed.
Print Assumptions src64m_order_agrees.
Theorem src64m_lt_iff_difference_negative : forall tag a b, (tag <= 5)%nat ->
  valid_fields a = true -> valid_fields b = true -> align_spec tag a = a -> align_spec tag b = b ->
  (s64_lt a b = OK true <-> ord_spec tag a - ord_spec tag b < 0).
Proof. exact Source64MoreProofs.src64m_lt_iff_difference_negative. Qed.
Print Assumptions src64m_lt_iff_difference_negative.
