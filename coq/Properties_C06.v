(* Properties_C06.v — C06: convert(civil) preserves order, for ALL pairs. *)
From CCTZ Require Import Base ZoneZ ZoneZProofs.
Local Open Scope Z_scope.

Theorem zconvert_mono : forall z L1 L2, wfz z = true -> L1 < L2 -> zconvert z L1 <= zconvert z L2.
Proof. exact zconvert_mono_lemma. Qed.
Print Assumptions zconvert_mono.

(* saturation (clamping to the time_point range) is monotone, so the clamped
   conversion is monotone too *)
Theorem zconvert_clamped_mono : forall z L1 L2 lo hi, wfz z = true -> lo <= hi -> L1 < L2 ->
  Z.max lo (Z.min hi (zconvert z L1)) <= Z.max lo (Z.min hi (zconvert z L2)).
Proof. exact zconvert_clamped_mono_lemma. Qed.
Print Assumptions zconvert_clamped_mono.

From CCTZ Require Import Base Cal CivilImpl ZoneLoad ZoneImpl ZoneZ ZoneRefineDefs ZoneRefine FutureDefs LoadCert ImplRoundTrip.

(* IMPLEMENTATION LEVEL: convert() (trans for SKIPPED, pre otherwise) preserves order; `pre` alone does not
   (ImplRoundTrip.pre_not_monotone) *)
Theorem c06_convert_mono_impl : forall z h1 h2 cs1 cs2,
  zone_ok z = true -> valid_fields cs1 = true -> valid_fields cs2 = true ->
  int64 (fy cs1) -> int64 (fy cs2) ->
  (z_extended z = false \/ fy cs2 <= z_last_year z) ->
  sec_of cs1 < sec_of cs2 ->
  exists a b, convert_cs z h1 cs1 = OK a /\ convert_cs z h2 cs2 = OK b /\ a <= b.
Proof. exact c06_convert_mono_impl_lemma. Qed.
Print Assumptions c06_convert_mono_impl.

Theorem c06_convert_mono_future : forall z h1 h2 cs1 cs2 l,
  zone_ok z = true -> z_extended z = true -> last_opt (z_trans z) = Some l ->
  P400 <= tr_time l -> fy (tr_cs l) = z_last_year z -> fy (tr_pcs l) <= z_last_year z ->
  (* the table's tail is consistent where the 400-year blocks meet (the end of local year last_year) *)
  (forall E, fy (civil_of_seconds E) <= z_last_year z -> z_last_year z < fy (civil_of_seconds (E + 1)) ->
     zconvert (abs_zone z) E <= zconvert (abs_zone z) (E + 1 - P400) + P400) ->
  valid_fields cs1 = true -> valid_fields cs2 = true -> int64 (fy cs1) -> int64 (fy cs2) ->
  sec_of cs1 < sec_of cs2 ->
  exists a b, convert_cs z h1 cs1 = OK a /\ convert_cs z h2 cs2 = OK b /\ a <= b.
Proof. exact c06_convert_mono_future_lemma. Qed.
Print Assumptions c06_convert_mono_future.

Theorem c06_every_accepted_file : forall bs z h1 h2 cs1 cs2,
  load_bytes bs = OK (Some z) ->
  gaps_wide (zz_doff (abs_zone z)) (zz_tr (abs_zone z)) = true ->
  valid_fields cs1 = true -> valid_fields cs2 = true ->
  int64 (fy cs1) -> int64 (fy cs2) ->
  (z_extended z = false \/ fy cs2 <= z_last_year z) ->
  sec_of cs1 < sec_of cs2 ->
  exists a b, convert_cs z h1 cs1 = OK a /\ convert_cs z h2 cs2 = OK b /\ a <= b.
Proof. exact accepted_c06_convert_mono_lemma. Qed.
Print Assumptions c06_every_accepted_file.

