(* Properties_C06.v — C06: convert(civil) preserves order, for ALL pairs. *)
From CCTZ Require Import Base ZoneZ ZoneZProofs.
Local Open Scope Z_scope.

Theorem zconvert_mono : forall z L1 L2, wfz z = true -> L1 < L2 -> zconvert z L1 <= zconvert z L2.
Proof. exact zconvert_mono_lemma. Qed.
Print Assumptions zconvert_mono.

(* saturation (clamping to the time_point range) is monotone, so the clamped
   conversion is monotone too *)
Theorem zconvert_clamped_mono : forall z L1 L2 lo hi, wfz z = true -> lo <= hi -> L1 < L2 ->
  Z.max lo (Z.min hi (zconvert z L1)) <= Z.max lo (Z.min hi (zconvert z L2)).
Proof. exact zconvert_clamped_mono_lemma. Qed.
Print Assumptions zconvert_clamped_mono.
