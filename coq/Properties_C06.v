(* Properties_C06.v — C06: convert(civil) preserves order, for ALL pairs. *)
From CCTZ Require Import Base ZoneZ ZoneZProofs.
Local Open Scope Z_scope.

Theorem zconvert_mono : forall z L1 L2, wfz z = true -> L1 < L2 -> zconvert z L1 <= zconvert z L2.
Proof. exact zconvert_mono_lemma. Qed.
Print Assumptions zconvert_mono.

(* saturation (clamping to the time_point range) is monotone, so the clamped
   conversion is monotone too *)
Theorem zconvert_clamped_mono : forall z L1 L2 lo hi, wfz z = true -> lo <= hi -> L1 < L2 ->
  Z.max lo (Z.min hi (zconvert z L1)) <= Z.max lo (Z.min hi (zconvert z L2)).
Proof. exact zconvert_clamped_mono_lemma. Qed.
Print Assumptions zconvert_clamped_mono.

From CCTZ Require Import Base Cal CivilImpl ZoneLoad ZoneImpl ZoneZ ZoneRefineDefs ZoneRefine FutureDefs LoadCert ImplRoundTrip.

(* IMPLEMENTATION LEVEL: convert() (trans for SKIPPED, pre otherwise) preserves order; `pre` alone does not
   (ImplRoundTrip.pre_not_monotone) *)
Theorem c06_convert_mono_impl : forall z h1 h2 cs1 cs2,
  zone_ok z = true -> valid_fields cs1 = true -> valid_fields cs2 = true ->
  int64 (fy cs1) -> int64 (fy cs2) ->
  (z_extended z = false \/ fy cs2 <= z_last_year z) ->
  sec_of cs1 < sec_of cs2 ->
  exists a b, convert_cs z h1 cs1 = OK a /\ convert_cs z h2 cs2 = OK b /\ a <= b.
Proof. exact c06_convert_mono_impl_lemma. Qed.
Print Assumptions c06_convert_mono_impl.

Theorem c06_convert_mono_future : forall z h1 h2 cs1 cs2 l,
  zone_ok z = true -> z_extended z = true -> last_opt (z_trans z) = Some l ->
  P400 <= tr_time l -> fy (tr_cs l) = z_last_year z -> fy (tr_pcs l) <= z_last_year z ->
  (* the table's tail is consistent where the 400-year blocks meet (the end of local year last_year) *)
  (forall E, fy (civil_of_seconds E) <= z_last_year z -> z_last_year z < fy (civil_of_seconds (E + 1)) ->
     zconvert (abs_zone z) E <= zconvert (abs_zone z) (E + 1 - P400) + P400) ->
  valid_fields cs1 = true -> valid_fields cs2 = true -> int64 (fy cs1) -> int64 (fy cs2) ->
  sec_of cs1 < sec_of cs2 ->
  exists a b, convert_cs z h1 cs1 = OK a /\ convert_cs z h2 cs2 = OK b /\ a <= b.
Proof. exact c06_convert_mono_future_lemma. Qed.
Print Assumptions c06_convert_mono_future.

Theorem c06_every_accepted_file : forall bs z h1 h2 cs1 cs2,
  load_bytes bs = OK (Some z) ->
  gaps_wide (zz_doff (abs_zone z)) (zz_tr (abs_zone z)) = true ->
  valid_fields cs1 = true -> valid_fields cs2 = true ->
  int64 (fy cs1) -> int64 (fy cs2) ->
  (z_extended z = false \/ fy cs2 <= z_last_year z) ->
  sec_of cs1 < sec_of cs2 ->
  exists a b, convert_cs z h1 cs1 = OK a /\ convert_cs z h2 cs2 = OK b /\ a <= b.
Proof. exact accepted_c06_convert_mono_lemma. Qed.
Print Assumptions c06_every_accepted_file.


From CCTZ Require Import ZoneSpec WholeDomain C01Whole.
From CCTZ Require C02Whole.
(* END TO END against the TZif specification: convert(cs) is, clamped to the time_point range, the EARLIEST instant (of Z)
   at which the zone the file describes shows cs or a later civil second - for every civil second, across gaps and
   overlaps, across the recorded/generated seam, in years reached through the 400-year shift and at the saturated
   ends; hence convert is monotone over the WHOLE civil line (no condition on the years). *)
Definition spec_earliest (a : ast) (cs : fields) (c : Z) : Prop :=
  (exists o, off_at (szone_of a) c = Some o /\ c + o >= sec_of cs) /\
  (forall t o, t < c -> off_at (szone_of a) t = Some o -> t + o < sec_of cs).
Theorem c06_whole : forall bs h a,
  parse_ast bs = Some (h, a) -> wf_ast h a = true -> c01_domain h a = true ->
  footer_below_day a = true -> table_gaps_ok a = true ->
  exists z, load_bytes bs = OK (Some z) /\
    (forall hint cs, valid_fields cs = true -> int64 (fy cs) ->
       exists c, convert_cs z hint cs = OK (clamp64z c) /\ spec_earliest a cs c) /\
    (forall h1 h2 cs1 cs2, valid_fields cs1 = true -> valid_fields cs2 = true ->
       int64 (fy cs1) -> int64 (fy cs2) -> sec_of cs1 <= sec_of cs2 ->
       exists x y, convert_cs z h1 cs1 = OK x /\ convert_cs z h2 cs2 = OK y /\ x <= y).
Proof. exact C02Whole.c06_whole_ast. Qed.
Print Assumptions c06_whole.
