(* CalProofs.v — proofs about the SPEC calendar (Cal.v): days_from_civil is a
   bijection between valid dates and Z, monotone, 400-year periodic; the
   civil-second encoding inherits all of it.  INTERFACE FILE: the statements
   below are what the other proof files rely on. *)
From CCTZ Require Import Base Cal.
Require Import ZifyBool.
Local Open Scope Z_scope.
Ltac Zify.zify_post_hook ::= Z.div_mod_to_equations.

(* ------------------------------------------------------------------ *)
(* Helpers                                                             *)

Ltac month_cases m :=
  let H := fresh "Hm" in
  assert (H : m = 1 \/ m = 2 \/ m = 3 \/ m = 4 \/ m = 5 \/ m = 6 \/
              m = 7 \/ m = 8 \/ m = 9 \/ m = 10 \/ m = 11 \/ m = 12) by lia;
  repeat (destruct H as [H|H]); subst m.

Ltac cum_eval :=
  repeat match goal with
  | |- context [cum_days ?k] =>
      let v := eval vm_compute in (cum_days k) in change (cum_days k) with v
  end.

(* days_in_month / day-of-year with the leap flag abstracted to a boolean *)
Definition dimb (b : bool) (m : Z) : Z :=
  if m =? 2 then (if b then 29 else 28)
  else if (m =? 4) || (m =? 6) || (m =? 9) || (m =? 11) then 30
  else 31.

Definition doyb (b : bool) (m d : Z) : Z :=
  cum_days m + (if (2 <? m) && b then 1 else 0) + (d - 1).

Lemma dim_dimb y m : days_in_month y m = dimb (is_leap y) m.
Proof. reflexivity. Qed.

Lemma dfc_doyb y m d :
  days_from_civil y m d =
  days_before_year y - days_before_year 1970 + doyb (is_leap y) m d.
Proof. unfold days_from_civil, doyb. lia. Qed.

Lemma valid_date_iff y m d :
  valid_date y m d = true <-> 1 <= m <= 12 /\ 1 <= d <= dimb (is_leap y) m.
Proof. unfold valid_date. rewrite dim_dimb. lia. Qed.

Lemma doyb_day b m d : doyb b m d = doyb b m 1 + (d - 1).
Proof. unfold doyb. lia. Qed.

Ltac ev_closed :=
  repeat match goal with
  | |- context [doyb ?b ?m 1] =>
      let v := eval vm_compute in (doyb b m 1) in change (doyb b m 1) with v
  | |- context [dimb ?b ?m] =>
      let v := eval vm_compute in (dimb b m) in change (dimb b m) with v
  end.

Lemma doyb_first b : doyb b 1 1 = 0.
Proof. destruct b; reflexivity. Qed.

Lemma doyb_month_step b m : 1 <= m < 12 -> doyb b (m + 1) 1 = doyb b m 1 + dimb b m.
Proof.
  intros H.
  month_cases m; try lia; destruct b; reflexivity.
Qed.

Lemma doyb_bound b m d : 1 <= m <= 12 -> 1 <= d <= dimb b m ->
  0 <= doyb b m d < (if b then 366 else 365).
Proof.
  intros Hm Hd. rewrite (doyb_day b m d). revert Hd.
  month_cases m; destruct b; ev_closed; lia.
Qed.

Lemma doyb_mono_month b m1 d1 m2 d2 :
  1 <= m1 <= 12 -> 1 <= m2 <= 12 ->
  1 <= d1 <= dimb b m1 -> 1 <= d2 <= dimb b m2 -> m1 < m2 ->
  doyb b m1 d1 < doyb b m2 d2.
Proof.
  intros H1 H2 Hd1 Hd2 Hlt.
  rewrite (doyb_day b m1 d1), (doyb_day b m2 d2). revert Hd1 Hd2.
  month_cases m1; month_cases m2; try lia; destruct b; ev_closed; lia.
Qed.

Lemma dby_step y : days_before_year (y + 1) = days_before_year y + days_in_year y.
Proof.
  unfold days_before_year, leaps_before, days_in_year.
  destruct (is_leap y) eqn:E; unfold is_leap in E; lia.
Qed.

Lemma diy_ge y : 365 <= days_in_year y <= 366.
Proof. unfold days_in_year. destruct (is_leap y); lia. Qed.

Lemma dby_mono_nat y n :
  days_before_year y + 365 * Z.of_nat n <= days_before_year (y + Z.of_nat n).
Proof.
  induction n as [|n IH].
  - replace (y + Z.of_nat 0) with y by lia. lia.
  - rewrite Nat2Z.inj_succ.
    replace (y + Z.succ (Z.of_nat n)) with (y + Z.of_nat n + 1) by lia.
    rewrite dby_step. pose proof (diy_ge (y + Z.of_nat n)). lia.
Qed.

Lemma dby_lt y1 y2 : y1 < y2 ->
  days_before_year y1 + days_in_year y1 <= days_before_year y2.
Proof.
  intros H.
  pose proof (dby_mono_nat (y1 + 1) (Z.to_nat (y2 - y1 - 1))) as M.
  replace (y1 + 1 + Z.of_nat (Z.to_nat (y2 - y1 - 1))) with y2 in M by lia.
  rewrite dby_step in M. lia.
Qed.

(* one direction of the order isomorphism *)
Lemma dfc_lt_of_lex y1 m1 d1 y2 m2 d2 :
  valid_date y1 m1 d1 = true -> valid_date y2 m2 d2 = true ->
  (y1 < y2 \/ (y1 = y2 /\ (m1 < m2 \/ (m1 = m2 /\ d1 < d2)))) ->
  days_from_civil y1 m1 d1 < days_from_civil y2 m2 d2.
Proof.
  intros V1 V2 L. apply valid_date_iff in V1, V2.
  destruct V1 as [Hm1 Hd1], V2 as [Hm2 Hd2].
  rewrite !dfc_doyb.
  pose proof (doyb_bound _ _ _ Hm1 Hd1) as B1.
  pose proof (doyb_bound _ _ _ Hm2 Hd2) as B2.
  destruct L as [L | [-> [L | [-> L]]]].
  - pose proof (dby_lt _ _ L) as M. unfold days_in_year in M.
    destruct (is_leap y1); lia.
  - pose proof (doyb_mono_month _ _ _ _ _ Hm1 Hm2 Hd1 Hd2 L). lia.
  - unfold doyb. lia.
Qed.

(* ------------------------------------------------------------------ *)
(* Interface lemmas                                                    *)

Lemma dfc_epoch : days_from_civil 1970 1 1 = 0.
Proof. reflexivity. Qed.

Lemma is_leap_period y k : is_leap (y + 400 * k) = is_leap y.
Proof.
  unfold is_leap.
  assert (H4 : (y + 400 * k) mod 4 = y mod 4) by lia.
  assert (H100 : (y + 400 * k) mod 100 = y mod 100) by lia.
  assert (H400 : (y + 400 * k) mod 400 = y mod 400) by lia.
  rewrite H4, H100, H400. reflexivity.
Qed.

Lemma dim_period y m k : days_in_month (y + 400 * k) m = days_in_month y m.
Proof. unfold days_in_month. rewrite is_leap_period. reflexivity. Qed.

Lemma valid_date_period y m d k : valid_date (y + 400 * k) m d = valid_date y m d.
Proof. unfold valid_date. rewrite dim_period. reflexivity. Qed.

Lemma dby_period y k : days_before_year (y + 400 * k) = days_before_year y + 146097 * k.
Proof. unfold days_before_year, leaps_before. lia. Qed.

Lemma dfc_period y m d k :
  days_from_civil (y + 400 * k) m d = days_from_civil y m d + 146097 * k.
Proof.
  unfold days_from_civil. rewrite is_leap_period, dby_period. lia.
Qed.

Lemma cod_period z k :
  civil_of_days (z + 146097 * k) =
  let '(y, m, d) := civil_of_days z in (y + 400 * k, m, d).
Proof.
  cbv beta zeta delta [civil_of_days].
  replace (z + 146097 * k + 719468) with (z + 719468 + k * 146097) by lia.
  rewrite Z.div_add by lia.
  set (z' := z + 719468).
  set (era := z' / 146097).
  replace (z' + k * 146097 - (era + k) * 146097) with (z' - era * 146097) by lia.
  set (doe := z' - era * 146097).
  set (yoe := (doe - doe / 1460 + doe / 36524 - doe / 146096) / 365).
  match goal with |- context [if ?c then _ else _] => destruct c end;
    f_equal; f_equal; lia.
Qed.

Definition cod_ok (z : Z) : bool :=
  let '(y, m, d) := civil_of_days z in
  valid_date y m d && (days_from_civil y m d =? z).

Lemma cod_sweep : forallb cod_ok (zrange 0 (Z.to_nat 146097)) = true.
Proof. vm_compute. reflexivity. Qed.

Lemma dfc_cod z :
  let '(y, m, d) := civil_of_days z in
  valid_date y m d = true /\ days_from_civil y m d = z.
Proof.
  pose (k := z / 146097). pose (z0 := z mod 146097).
  assert (Hz : z = z0 + 146097 * k) by (unfold z0, k; lia).
  assert (Hr : 0 <= z0 < 146097) by (unfold z0; lia).
  clearbody z0 k. subst z.
  rewrite cod_period.
  pose proof cod_sweep as S. rewrite forallb_forall in S.
  specialize (S z0).
  assert (Hin : In z0 (zrange 0 (Z.to_nat 146097))) by (apply zrange_In; lia).
  specialize (S Hin). unfold cod_ok in S.
  destruct (civil_of_days z0) as [[y m] d].
  apply andb_true_iff in S. destruct S as [S1 S2]. apply Z.eqb_eq in S2.
  rewrite valid_date_period, dfc_period. split; [assumption | lia].
Qed.

Lemma dfc_lt_iff y1 m1 d1 y2 m2 d2 :
  valid_date y1 m1 d1 = true -> valid_date y2 m2 d2 = true ->
  (days_from_civil y1 m1 d1 < days_from_civil y2 m2 d2 <->
   (y1 < y2 \/ (y1 = y2 /\ (m1 < m2 \/ (m1 = m2 /\ d1 < d2))))).
Proof.
  intros V1 V2. split.
  - intros H.
    assert (T : (y1 < y2 \/ (y1 = y2 /\ (m1 < m2 \/ (m1 = m2 /\ d1 < d2)))) \/
                (y1 = y2 /\ m1 = m2 /\ d1 = d2) \/
                (y2 < y1 \/ (y2 = y1 /\ (m2 < m1 \/ (m2 = m1 /\ d2 < d1))))) by lia.
    destruct T as [T | [(-> & -> & ->) | T]].
    + exact T.
    + lia.
    + pose proof (dfc_lt_of_lex _ _ _ _ _ _ V2 V1 T). lia.
  - apply dfc_lt_of_lex; assumption.
Qed.

Lemma dfc_inj y1 m1 d1 y2 m2 d2 :
  valid_date y1 m1 d1 = true -> valid_date y2 m2 d2 = true ->
  days_from_civil y1 m1 d1 = days_from_civil y2 m2 d2 ->
  y1 = y2 /\ m1 = m2 /\ d1 = d2.
Proof.
  intros V1 V2 E.
  pose proof (dfc_lt_iff _ _ _ _ _ _ V1 V2) as A.
  pose proof (dfc_lt_iff _ _ _ _ _ _ V2 V1) as B.
  rewrite E in A, B. lia.
Qed.

Lemma cod_dfc y m d :
  valid_date y m d = true -> civil_of_days (days_from_civil y m d) = (y, m, d).
Proof.
  intros V. pose proof (dfc_cod (days_from_civil y m d)) as H.
  destruct (civil_of_days (days_from_civil y m d)) as [[y' m'] d'].
  destruct H as [V' E].
  destruct (dfc_inj _ _ _ _ _ _ V' V E) as (-> & -> & ->). reflexivity.
Qed.

Lemma dfc_day y m d : days_from_civil y m d = days_from_civil y m 1 + (d - 1).
Proof. unfold days_from_civil. lia. Qed.

Lemma dfc_month_step y m : 1 <= m < 12 ->
  days_from_civil y (m + 1) 1 = days_from_civil y m 1 + days_in_month y m.
Proof.
  intros H. rewrite !dfc_doyb, dim_dimb, (doyb_month_step _ _ H). lia.
Qed.

Lemma dfc_year_step y :
  days_from_civil (y + 1) 1 1 = days_from_civil y 1 1 + days_in_year y.
Proof. rewrite !dfc_doyb, !doyb_first, dby_step. lia. Qed.

Lemma dfc_dec_jan y : days_from_civil (y + 1) 1 1 = days_from_civil y 12 1 + 31.
Proof.
  rewrite !dfc_doyb, doyb_first, dby_step. unfold days_in_year.
  destruct (is_leap y); ev_closed; lia.
Qed.

Lemma dfc_year_step_m y m : 1 <= m <= 12 ->
  days_from_civil (y + 1) m 1 =
  days_from_civil y m 1 + (if m <=? 2 then days_in_year y else days_in_year (y + 1)).
Proof.
  intros H. rewrite !dfc_doyb, dby_step. unfold days_in_year, doyb.
  destruct (is_leap y), (is_leap (y + 1));
    destruct (Z.leb_spec m 2); destruct (Z.ltb_spec 2 m); cbn [andb]; lia.
Qed.

Lemma sec_of_cos s : sec_of (civil_of_seconds s) = s.
Proof.
  unfold civil_of_seconds. pose proof (dfc_cod (s / 86400)) as H.
  destruct (civil_of_days (s / 86400)) as [[y m] d]. destruct H as [_ H].
  unfold sec_of; cbn [fy fm fd fhh fmm fss]. rewrite H.
  assert (Hs : s = 86400 * (s / 86400) + s mod 86400) by lia.
  assert (Hr : 0 <= s mod 86400 < 86400) by lia.
  set (r := s mod 86400) in *. set (q := s / 86400) in *. clearbody r q.
  lia.
Qed.

Lemma valid_cos s : valid_fields (civil_of_seconds s) = true.
Proof.
  unfold civil_of_seconds. pose proof (dfc_cod (s / 86400)) as H.
  destruct (civil_of_days (s / 86400)) as [[y m] d]. destruct H as [H _].
  unfold valid_fields; cbn [fy fm fd fhh fmm fss]. rewrite H.
  assert (Hr : 0 <= s mod 86400 < 86400) by lia.
  set (r := s mod 86400) in *. clearbody r.
  lia.
Qed.

Lemma valid_fields_iff f :
  valid_fields f = true <->
  valid_date (fy f) (fm f) (fd f) = true /\
  0 <= fhh f <= 23 /\ 0 <= fmm f <= 59 /\ 0 <= fss f <= 59.
Proof.
  unfold valid_fields. destruct (valid_date (fy f) (fm f) (fd f)); lia.
Qed.

Lemma cos_sec_of f : valid_fields f = true -> civil_of_seconds (sec_of f) = f.
Proof.
  intros V. apply valid_fields_iff in V. destruct V as (V & Hh & Hm & Hs).
  destruct f as [y m d hh mm ss]. cbn [fy fm fd fhh fmm fss] in *.
  unfold civil_of_seconds, sec_of; cbn [fy fm fd fhh fmm fss].
  set (D := days_from_civil y m d).
  assert (Q : (D * 86400 + hh * 3600 + mm * 60 + ss) / 86400 = D) by lia.
  assert (R : (D * 86400 + hh * 3600 + mm * 60 + ss) mod 86400 = hh * 3600 + mm * 60 + ss) by lia.
  rewrite Q, R. unfold D. rewrite (cod_dfc _ _ _ V).
  f_equal; lia.
Qed.

Lemma cos_period s k :
  civil_of_seconds (s + 146097 * 86400 * k) =
  let f := civil_of_seconds s in
  mkF (fy f + 400 * k) (fm f) (fd f) (fhh f) (fmm f) (fss f).
Proof.
  unfold civil_of_seconds.
  assert (Q : (s + 146097 * 86400 * k) / 86400 = s / 86400 + 146097 * k) by lia.
  assert (R : (s + 146097 * 86400 * k) mod 86400 = s mod 86400) by lia.
  rewrite Q, R, cod_period.
  destruct (civil_of_days (s / 86400)) as [[y m] d]. reflexivity.
Qed.

Lemma fields_eqb_eq a b : fields_eqb a b = true <-> a = b.
Proof.
  destruct a as [y1 m1 d1 h1 n1 s1], b as [y2 m2 d2 h2 n2 s2]. unfold fields_eqb; cbn [fy fm fd fhh fmm fss].
  rewrite !andb_true_iff, !Z.eqb_eq. split.
  - intros [[[[[-> ->] ->] ->] ->] ->]. reflexivity.
  - intros H. inversion H. subst. tauto.
Qed.

Lemma fields_ltb_sec a b :
  valid_fields a = true -> valid_fields b = true ->
  fields_ltb a b = (sec_of a <? sec_of b).
Proof.
  intros Va Vb. apply valid_fields_iff in Va, Vb.
  destruct Va as (Va & Ha1 & Ha2 & Ha3), Vb as (Vb & Hb1 & Hb2 & Hb3).
  pose proof (dfc_lt_iff _ _ _ _ _ _ Va Vb) as A.
  pose proof (dfc_lt_iff _ _ _ _ _ _ Vb Va) as B.
  pose proof (dfc_inj _ _ _ _ _ _ Va Vb) as C.
  unfold fields_ltb, sec_of.
  set (Da := days_from_civil (fy a) (fm a) (fd a)) in *.
  set (Db := days_from_civil (fy b) (fm b) (fd b)) in *.
  clearbody Da Db. clear Va Vb.
  destruct a as [y1 m1 d1 h1 n1 s1], b as [y2 m2 d2 h2 n2 s2].
  cbn [fy fm fd fhh fmm fss] in *.
  apply eq_true_iff_eq.
  rewrite Z.ltb_lt.
  assert (E : Da = Db <-> (y1 = y2 /\ m1 = m2 /\ d1 = d2)) by lia.
  clear C. split; intros H; lia.
Qed.

Lemma fields_eqb_sec a b :
  valid_fields a = true -> valid_fields b = true ->
  fields_eqb a b = (sec_of a =? sec_of b).
Proof.
  intros Va Vb. apply eq_true_iff_eq. rewrite fields_eqb_eq, Z.eqb_eq. split.
  - intros ->. reflexivity.
  - intros E. rewrite <- (cos_sec_of a Va), <- (cos_sec_of b Vb), E. reflexivity.
Qed.

Lemma weekday_period z k : weekday_of_days (z + 146097 * k) = weekday_of_days z.
Proof. unfold weekday_of_days. lia. Qed.

(* the packaged statements Properties_C04.v uses *)
Lemma calendar_bijection_lemma :
  (forall z, let '(y, m, d) := civil_of_days z in
             valid_date y m d = true /\ days_from_civil y m d = z) /\
  (forall y m d, valid_date y m d = true ->
                 civil_of_days (days_from_civil y m d) = (y, m, d)).
Proof. split; [exact dfc_cod | exact cod_dfc]. Qed.

Lemma calendar_successor_lemma : forall y m d, valid_date y m d = true ->
  days_from_civil 1970 1 1 = 0 /\
  (d < days_in_month y m -> days_from_civil y m (d + 1) = days_from_civil y m d + 1) /\
  (d = days_in_month y m -> m < 12 -> days_from_civil y (m + 1) 1 = days_from_civil y m d + 1) /\
  (d = days_in_month y m -> m = 12 -> days_from_civil (y + 1) 1 1 = days_from_civil y m d + 1).
Proof.
  intros y m d V. apply valid_date_iff in V. destruct V as [Hm Hd].
  split; [exact dfc_epoch|]. split; [|split].
  - intros _. rewrite (dfc_day y m (d + 1)), (dfc_day y m d). lia.
  - intros -> Hlt. rewrite dfc_month_step by lia. rewrite (dfc_day y m (days_in_month y m)). lia.
  - intros -> ->. rewrite dfc_dec_jan, (dfc_day y 12 (days_in_month y 12)).
    change (days_in_month y 12) with 31. lia.
Qed.

Lemma norm_valid_unique_lemma : forall y m d hh mm ss,
  valid_fields (norm_spec y m d hh mm ss) = true /\
  sec_of (norm_spec y m d hh mm ss) = norm_sec y m d hh mm ss /\
  (forall f, valid_fields f = true -> sec_of f = norm_sec y m d hh mm ss ->
             f = norm_spec y m d hh mm ss).
Proof.
  intros y m d hh mm ss. unfold norm_spec. split; [apply valid_cos|].
  split; [apply sec_of_cos|].
  intros f V E. rewrite <- E. symmetry. apply cos_sec_of. exact V.
Qed.
