(* ImplRoundTrip.v — C03 (instant -> civil -> instant round trip) and C06
   (convert(civil) preserves order) stated about the IMPLEMENTATION-level
   functions of ZoneImpl.v (break_time / make_time / convert_cs on checked int64
   and six-field civil seconds), for every zone satisfying the certificate
   zone_ok and for every accepted file.  They are obtained by composing the
   integer-level theorems (ZoneZProofs.v) with the refinement theorems
   (ZoneRefine.v, FutureProofs.v, LoadCert.v). *)
From CCTZ Require Import Base Cal CivilImpl PosixImpl FixedImpl ZoneLoad ZoneImpl ZoneZ ZoneHist ZoneRefineDefs.
From CCTZ Require Import CalProofs CivilNorm CivilDiff ZoneSelect ZoneZProofs FixedProofs ZoneRefine.
From CCTZ Require Import FutureDefs FutureProofs LoadCert.
Require Import Lia ZifyBool.
Local Open Scope Z_scope.

(* no division reaches lia in this file *)
Local Ltac Zify.zify_post_hook ::= idtac.

Local Notation cos := civil_of_seconds.

(* the round-trip verdict on a civil lookup *)
Definition round_trips (cl : clookup) (t : Z) : Prop :=
  (cl_kind cl = UNIQUE /\ cl_pre cl = t) \/
  (cl_kind cl = REPEATED /\ (cl_pre cl = t \/ cl_post cl = t)).

(* ================================================================== *)
(* helpers                                                              *)

Lemma zone_ok_wfz z : zone_ok z = true -> wfz (abs_zone z) = true.
Proof.
  intros H. rewrite zone_ok_split in H. apply andb_true_iff in H. tauto.
Qed.

Lemma zoff_abs z t : zoff (abs_zone z) t = zoff_list (absl z) (doff z) t.
Proof. reflexivity. Qed.

(* the last transition, seen at both levels *)
Lemma last_facts z l : zfacts z -> last_opt (z_trans z) = Some l ->
  let n := (length (z_trans z) - 1)%nat in
  nth_error (absl z) n = Some (absf z l) /\
  - 2 ^ 59 <= tr_time l <= 2 ^ 60 /\
  tr_cs l = cos (tr_time l + off_of z (tr_type l)) /\
  tr_pcs l = cos (tr_time l - 1 + ob (doff z) (absl z) n) /\
  S n = length (absl z).
Proof.
  intros F Hl. cbv zeta.
  destruct (last_opt_nth _ _ Hl) as [Hln Hlen].
  destruct (tr_facts z _ l F Hln) as (_ & HT & _ & Ccs & Cpcs & Na).
  repeat split; auto; try lia. rewrite absl_length. lia.
Qed.

(* an instant before the last transition shows a civil second no later than
   the last transition's prev_civil_sec *)
Lemma before_last_pcs z l t : zfacts z -> last_opt (z_trans z) = Some l -> t < tr_time l ->
  exists b, tr_pcs l = cos b /\ t + zoff (abs_zone z) t <= b.
Proof.
  intros F Hl Ht.
  destruct (last_facts z l F Hl) as (Na & _ & _ & Cpcs & _).
  destruct (zf_wf z F) as (ST & _ & GP & _).
  eexists. split; [exact Cpcs|].
  pose proof (f_upper (doff z) (absl z) ST GP _ (absf z l) t Na) as U.
  cbn [absf zt_time] in U. specialize (U Ht). unfold pre_ in U. cbn [zt_time] in U.
  rewrite zoff_abs. exact U.
Qed.

(* from the last transition on the offset is the last transition's *)
Lemma zoff_after_last z l t : zfacts z -> last_opt (z_trans z) = Some l -> tr_time l <= t ->
  zoff (abs_zone z) t = off_of z (tr_type l).
Proof.
  intros F Hl Ht.
  destruct (last_facts z l F Hl) as (Na & _ & _ & _ & Hn).
  destruct (zf_wf z F) as (ST & _).
  rewrite zoff_abs.
  rewrite (f_seg (doff z) (absl z) (length (absl z)) t ST).
  - rewrite <- Hn. rewrite (ob_S _ _ _ _ Na). reflexivity.
  - split; [lia|]. split.
    + intros j a Hj Ha. assert (j = (length (z_trans z) - 1)%nat) by lia. subst j.
      rewrite Na in Ha. inversion Ha; subst a. cbn [absf zt_time]. exact Ht.
    + intros a Ha. apply nth_some_lt in Ha. lia.
Qed.

(* make_refines_lemma with a wider region: MakeTime also stays in the table
   when cs is not after the last transition's prev_civil_sec, whatever its year *)
Lemma make_refines_region z h cs : zone_ok z = true -> valid_fields cs = true -> int64 (fy cs) ->
  (z_extended z = false \/ fy cs <= z_last_year z \/
   (forall l, last_opt (z_trans z) = Some l -> lt64 (tr_pcs l) cs = false)) ->
  exists h', make_time z h cs = OK (cl_of (zmake (abs_zone z) (sec_of cs)), h').
Proof.
  intros Hok V I Hext. pose proof (zone_ok_facts z Hok) as F.
  destruct (make_noext_ok z cs F V I) as (h0 & HM).
  assert (make_time z 0 cs = make_time_noext z 0 cs) as E0.
  { destruct (zf_first z F) as (f & r & Hfr & _).
    destruct (zf_last z F) as (l & Hl & _).
    assert (Hn0 : nth_error (z_trans z) 0 = Some f) by (rewrite Hfr; reflexivity).
    unfold make_time. rewrite Hl, (nth_tr_some z 0 f Hn0). cbn [bind].
    assert (negb (lt64 cs (tr_cs f)) && le64 (tr_cs l) cs && lt64 (tr_pcs l) cs
            && z_extended z && (z_last_year z <? fy cs) = false) as ->; [|reflexivity].
    destruct Hext as [He|[He|He]].
    - rewrite He, andb_false_r. reflexivity.
    - destruct (Z.ltb_spec (z_last_year z) (fy cs)); [lia|]. apply andb_false_r.
    - rewrite (He l Hl), andb_false_r. reflexivity. }
  pose proof (make_time_hint z h cs (zf_civil_sorted z F)) as Hh.
  rewrite E0, HM in Hh. cbn [res_fst] in Hh.
  destruct (res_fst_OK _ _ Hh) as [h' Hr].
  exists h'. exact Hr.
Qed.

(* the integer-level round trip read through the saturating image cl_of *)
Lemma round_trips_cl_of z t : wfz z = true -> int64 t ->
  round_trips (cl_of (zmake z (t + zoff z t))) t.
Proof.
  intros Hwf Ht. pose proof (zroundtrip_lemma z t Hwf) as R. cbv zeta in R.
  unfold round_trips, cl_of. cbn [cl_kind cl_pre cl_post].
  destruct R as [[K P]|[K [P|P]]]; rewrite K, P; cbn [kind_of'].
  - left. split; [reflexivity|apply clamp_id; exact Ht].
  - right. split; [reflexivity|left; apply clamp_id; exact Ht].
  - right. split; [reflexivity|right; apply clamp_id; exact Ht].
Qed.

(* ================================================================== *)
(* C03 at the implementation level, table region                        *)

Lemma c03_roundtrip_impl_lemma : forall z h h2 t al h',
  zone_ok z = true -> int64 t ->
  (z_extended z = false \/ (forall l, last_opt (z_trans z) = Some l -> t < tr_time l)) ->
  break_time z h t = OK (al, h') ->
  exists cl h'', make_time z h2 (al_cs al) = OK (cl, h'') /\
    ((cl_kind cl = UNIQUE /\ cl_pre cl = t) \/
     (cl_kind cl = REPEATED /\ (cl_pre cl = t \/ cl_post cl = t))).
Proof.
  intros z h h2 t al h' Hok Ht Hreg HB.
  pose proof (zone_ok_facts z Hok) as F.
  destruct (break_refines_lemma z h t Hok Ht Hreg) as (h1 & dst & ab & HB' & _).
  rewrite HB in HB'. apply OK_inj in HB'. apply pair_equal_spec in HB'. destruct HB' as [Eal _].
  subst al. cbn [al_cs].
  pose proof (zoff_bound z t F) as HO.
  set (L := t + zoff (abs_zone z) t) in *.
  assert (HL : - SB <= L <= SB) by (unfold L, SB, int64, min64, max64 in *; lia).
  destruct (make_refines_region z h2 (cos L) Hok (valid_cos L) (year_ok L HL)) as (h'' & HM).
  { destruct Hreg as [He|He]; [left; exact He|]. right; right. intros l Hl.
    destruct (before_last_pcs z l t F Hl (He l Hl)) as (b & Eb & Hb).
    rewrite Eb, lt_r by apply valid_cos. rewrite sec_of_cos. fold L in Hb.
    destruct (Z.ltb_spec b L); [lia|reflexivity]. }
  rewrite sec_of_cos in HM.
  exists (cl_of (zmake (abs_zone z) L)), h''. split; [exact HM|].
  exact (round_trips_cl_of (abs_zone z) t (zone_ok_wfz z Hok) Ht).
Qed.

(* ================================================================== *)
(* C06 at the implementation level, table region                        *)

(* convert() picks trans for SKIPPED and pre otherwise: on the saturating
   image this is the clamped integer-level conversion *)
Lemma convert_cl_of z L :
  match cl_kind (cl_of (zmake z L)) with
  | SKIPPED => cl_trans (cl_of (zmake z L))
  | _ => cl_pre (cl_of (zmake z L))
  end = Z.max min64 (Z.min max64 (zconvert z L)).
Proof.
  unfold zconvert, cl_of. cbn [cl_kind cl_pre cl_trans].
  destruct (zk (zmake z L)); reflexivity.
Qed.

Lemma convert_refines z h cs : zone_ok z = true -> valid_fields cs = true -> int64 (fy cs) ->
  (z_extended z = false \/ fy cs <= z_last_year z) ->
  convert_cs z h cs = OK (Z.max min64 (Z.min max64 (zconvert (abs_zone z) (sec_of cs)))).
Proof.
  intros Hok V I Hreg.
  destruct (make_refines_region z h cs Hok V I) as (h' & HM).
  { destruct Hreg as [He|He]; [left; exact He|right; left; exact He]. }
  unfold convert_cs. rewrite HM. cbn [bind]. rewrite convert_cl_of. reflexivity.
Qed.

Lemma c06_convert_mono_impl_lemma : forall z h1 h2 cs1 cs2,
  zone_ok z = true -> valid_fields cs1 = true -> valid_fields cs2 = true ->
  int64 (fy cs1) -> int64 (fy cs2) ->
  (z_extended z = false \/ fy cs2 <= z_last_year z) ->
  sec_of cs1 < sec_of cs2 ->
  exists a b, convert_cs z h1 cs1 = OK a /\ convert_cs z h2 cs2 = OK b /\ a <= b.
Proof.
  intros z h1 h2 cs1 cs2 Hok V1 V2 I1 I2 Hreg Hlt.
  assert (Hreg1 : z_extended z = false \/ fy cs1 <= z_last_year z).
  { destruct Hreg as [He|He]; [left; exact He|right].
    pose proof (cos_year_mono (sec_of cs1) (sec_of cs2) ltac:(lia)) as M.
    rewrite !cos_sec_of in M by assumption. lia. }
  do 2 eexists. split; [apply convert_refines; assumption|].
  split; [apply convert_refines; assumption|].
  apply zconvert_clamped_mono_lemma.
  - exact (zone_ok_wfz z Hok).
  - unfold min64, max64. lia.
  - exact Hlt.
Qed.

(* the same with the order read on the fields (civil_second's operator<) *)
Lemma c06_convert_mono_impl_lt64_lemma : forall z h1 h2 cs1 cs2,
  zone_ok z = true -> valid_fields cs1 = true -> valid_fields cs2 = true ->
  int64 (fy cs1) -> int64 (fy cs2) ->
  (z_extended z = false \/ fy cs2 <= z_last_year z) ->
  lt64 cs1 cs2 = true ->
  exists a b, convert_cs z h1 cs1 = OK a /\ convert_cs z h2 cs2 = OK b /\ a <= b.
Proof.
  intros z h1 h2 cs1 cs2 Hok V1 V2 I1 I2 Hreg Hlt.
  apply c06_convert_mono_impl_lemma; auto.
  destruct (order_agrees_lemma cs1 cs2 V1 V2) as [E _]. rewrite E in Hlt.
  apply Z.ltb_lt. exact Hlt.
Qed.

(* The `pre` component alone is NOT monotone (convert() must and does pick
   `trans` for a SKIPPED civil second): a two-transition zone with a one-hour
   gap at instant 1000000.  The last second of the gap has pre = 1003599, the
   first second after it has pre = 1000000. *)
Definition gap_zone : zone :=
  mkZone [mkTr (-1000000) 0 (cos (-1000000)) (cos (-1000001));
          mkTr 1000000 1 (cos 1003600) (cos 999999)]
         [mkTT 0 (cos max64) (cos min64) false 0;
          mkTT 3600 (cos (max64 + 3600)) (cos (min64 + 3600)) true 0]
         0 [0] [] false 0.

Example pre_not_monotone :
  zone_ok gap_zone = true /\
  sec_of (cos 1003599) < sec_of (cos 1003600) /\
  res_fst (make_time gap_zone 0 (cos 1003599)) = OK (mkCL SKIPPED 1003599 1000000 999999) /\
  res_fst (make_time gap_zone 0 (cos 1003600)) = OK (mkCL UNIQUE 1000000 1000000 1000000) /\
  convert_cs gap_zone 0 (cos 1003599) = OK 1000000 /\
  convert_cs gap_zone 0 (cos 1003600) = OK 1000000.
Proof. vm_compute. repeat split; reflexivity. Qed.

(* ================================================================== *)
(* The same for every accepted file                                     *)

Lemma accepted_c03_roundtrip_lemma : forall bs z h h2 t al h',
  load_bytes bs = OK (Some z) ->
  gaps_wide (zz_doff (abs_zone z)) (zz_tr (abs_zone z)) = true ->
  int64 t ->
  (z_extended z = false \/ (forall l, last_opt (z_trans z) = Some l -> t < tr_time l)) ->
  break_time z h t = OK (al, h') ->
  exists cl h'', make_time z h2 (al_cs al) = OK (cl, h'') /\
    ((cl_kind cl = UNIQUE /\ cl_pre cl = t) \/
     (cl_kind cl = REPEATED /\ (cl_pre cl = t \/ cl_post cl = t))).
Proof.
  intros bs z h h2 t al h' H G. apply c03_roundtrip_impl_lemma.
  exact (load_establishes_certificate_lemma _ _ H G).
Qed.

Lemma accepted_c06_convert_mono_lemma : forall bs z h1 h2 cs1 cs2,
  load_bytes bs = OK (Some z) ->
  gaps_wide (zz_doff (abs_zone z)) (zz_tr (abs_zone z)) = true ->
  valid_fields cs1 = true -> valid_fields cs2 = true ->
  int64 (fy cs1) -> int64 (fy cs2) ->
  (z_extended z = false \/ fy cs2 <= z_last_year z) ->
  sec_of cs1 < sec_of cs2 ->
  exists a b, convert_cs z h1 cs1 = OK a /\ convert_cs z h2 cs2 = OK b /\ a <= b.
Proof.
  intros bs z h1 h2 cs1 cs2 H G. apply c06_convert_mono_impl_lemma.
  exact (load_establishes_certificate_lemma _ _ H G).
Qed.

(* ================================================================== *)
(* C03 beyond the table of an extended zone                             *)

Ltac zj := unfold int64, min64, max64, SB in *; lia.

(* the core: an instant s whose civil second L lies in the last 400 civil years
   of the table, re-dated j*400 years later, converts back to s + j*P400 *)
Lemma future_rt_core z h2 s j :
  zone_ok z = true -> z_extended z = true ->
  (forall l, last_opt (z_trans z) = Some l -> fy (tr_cs l) = z_last_year z /\ P400 <= tr_time l) ->
  (forall l, last_opt (z_trans z) = Some l -> fy (tr_pcs l) <= z_last_year z) ->
  0 <= j -> int64 s -> int64 (s + j * P400) ->
  z_last_year z - 400 < fy (cos (s + zoff (abs_zone z) s)) <= z_last_year z ->
  exists cl h'',
    make_time z h2 (cos (s + zoff (abs_zone z) s + 146097 * 86400 * j)) = OK (cl, h'')
    /\ round_trips cl (s + j * P400).
Proof.
  intros Hok Hext H1 H2 Hj Hs Hsj HY. rewrite P400_val in *.
  pose proof (zone_ok_facts z Hok) as F.
  pose proof (zone_ok_wfz z Hok) as Hwf.
  pose proof (zoff_bound z s F) as HO.
  pose proof (round_trips_cl_of (abs_zone z) s Hwf Hs) as RT.
  set (L := s + zoff (abs_zone z) s) in *.
  pose proof (cos_period L j) as CP. cbv zeta in CP.
  assert (HLj : - SB <= L + 146097 * 86400 * j <= SB) by (unfold L; zj).
  pose proof (year_ok _ HLj) as I. pose proof (valid_cos (L + 146097 * 86400 * j)) as V.
  set (cs := cos (L + 146097 * 86400 * j)) in *.
  assert (Ey : fy cs = fy (cos L) + 400 * j) by (rewrite CP; reflexivity).
  destruct (Z.eq_dec j 0) as [E0|N0].
  - (* not re-dated: the table branch *)
    destruct (make_refines_region z h2 cs Hok V I) as (h'' & HM); [right; left; lia|].
    assert (Ec : cs = cos L) by (unfold cs; f_equal; lia).
    rewrite Ec in HM |- *. rewrite sec_of_cos in HM.
    eexists _, h''. split; [exact HM|]. replace (s + j * 12622780800) with s by lia. exact RT.
  - (* the extended_ branch *)
    assert (Hly : z_last_year z < fy cs) by lia.
    pose proof (make_future_lemma z h2 cs Hok Hext V I Hly H1 H2) as MF. cbv zeta in MF.
    assert (Ek : (fy cs - z_last_year z - 1) / 400 + 1 = j).
    { assert (j - 1 = (fy cs - z_last_year z - 1) / 400); [|lia].
      apply (Z.div_unique_pos _ 400 (j - 1) (fy (cos L) - z_last_year z - 1 + 400)); lia. }
    rewrite Ek in MF.
    assert (Ecs' : mkF (fy cs - 400 * j) (fm cs) (fd cs) (fhh cs) (fmm cs) (fss cs) = cos L).
    { rewrite CP. cbn [fy fm fd fhh fmm fss].
      destruct (cos L) as [y m d hh mm ss]. cbn [fy fm fd fhh fmm fss]. f_equal. lia. }
    rewrite Ecs', sec_of_cos, P400_val in MF.
    destruct MF as (h'' & HM).
    eexists _, h''. split; [exact HM|].
    pose proof (zroundtrip_lemma (abs_zone z) s Hwf) as R. cbv zeta in R. fold L in R.
    unfold round_trips. cbn [cl_kind cl_pre cl_post].
    destruct R as [[K P]|[K [P|P]]]; rewrite K, P.
    + left. split; [reflexivity|zj].
    + right. split; [reflexivity|left; zj].
    + right. split; [reflexivity|right; zj].
Qed.

Lemma c03_roundtrip_future_lemma : forall z h h2 t l al h',
  zone_ok z = true -> z_extended z = true -> last_opt (z_trans z) = Some l ->
  P400 <= tr_time l ->
  (* the table's last transition is in local year last_year, and so is the civil second before it
     (the hypotheses of make_future_lemma) *)
  fy (tr_cs l) = z_last_year z -> fy (tr_pcs l) <= z_last_year z ->
  (* the table's tail is periodic where BreakTime and MakeTime re-date differently: from 400
     years before the last transition to the end of that civil year the offset is the final one *)
  (forall t', tr_time l - P400 <= t' < tr_time l ->
     fy (civil_of_seconds (t' + zoff (abs_zone z) t')) <= z_last_year z - 400 ->
     zoff (abs_zone z) t' = zoff (abs_zone z) (tr_time l)) ->
  int64 t -> tr_time l <= t ->
  break_time z h t = OK (al, h') ->
  exists cl h'', make_time z h2 (al_cs al) = OK (cl, h'') /\
    ((cl_kind cl = UNIQUE /\ cl_pre cl = t) \/
     (cl_kind cl = REPEATED /\ (cl_pre cl = t \/ cl_post cl = t))).
Proof.
  intros z h h2 t l al h' Hok Hext Hl HP HY HPY Hper Ht Hge HB.
  pose proof (zone_ok_facts z Hok) as F.
  pose proof (break_future_lemma z h t l Hok Hext Hl HP Ht Hge) as BF. cbv zeta in BF.
  set (k := (t - tr_time l) / P400 + 1) in BF. clearbody k.
  destruct BF as (h1 & dst & ab & HB' & _ & Hr).
  rewrite HB in HB'. apply OK_inj in HB'. apply pair_equal_spec in HB'. destruct HB' as [Eal _].
  subst al. cbn [al_cs].
  assert (H1 : forall l0, last_opt (z_trans z) = Some l0 ->
                 fy (tr_cs l0) = z_last_year z /\ P400 <= tr_time l0).
  { intros l0 Hl0. rewrite Hl in Hl0. inversion Hl0; subst l0. auto. }
  assert (H2 : forall l0, last_opt (z_trans z) = Some l0 -> fy (tr_pcs l0) <= z_last_year z).
  { intros l0 Hl0. rewrite Hl in Hl0. inversion Hl0; subst l0. auto. }
  rewrite P400_val in HP, Hper, Hr |- *.
  remember (t - k * 12622780800) as t' eqn:Et'.
  remember (zoff (abs_zone z) t') as off eqn:Eoff.
  pose proof (zoff_bound z t' F) as HO. rewrite <- Eoff in HO.
  destruct (last_facts z l F Hl) as (_ & HT & Ccs & _ & _).
  assert (2 ^ 59 = 576460752303423488) as E59 by reflexivity.
  assert (2 ^ 60 = 1152921504606846976) as E60 by reflexivity.
  rewrite E59, E60 in HT. clear E59 E60.
  assert (Hk : 1 <= k) by lia.
  destruct (before_last_pcs z l t' F Hl ltac:(lia)) as (b & Eb & Hb). rewrite <- Eoff in Hb.
  assert (YU : fy (cos (t' + off)) <= z_last_year z).
  { pose proof (cos_year_mono _ _ Hb) as M. rewrite <- Eb in M. lia. }
  destruct (Z_lt_le_dec (z_last_year z - 400) (fy (cos (t' + off)))) as [A|B].
  - (* BreakTime and MakeTime re-date by the same number of 400-year blocks *)
    destruct (future_rt_core z h2 t' k Hok Hext H1 H2 ltac:(lia)) as (cl & h'' & HM & RT).
    + zj.
    + rewrite P400_val. replace (t' + k * 12622780800) with t by lia. exact Ht.
    + rewrite <- Eoff. lia.
    + exists cl, h''. rewrite <- Eoff in HM. rewrite P400_val in RT.
      replace (t' + off + 146097 * 86400 * k) with (t + off) in HM by lia.
      replace (t' + k * 12622780800) with t in RT by lia.
      split; [exact HM|exact RT].
  - (* the civil second lies in year last_year - 400: MakeTime re-dates one block less *)
    assert (Eo : off = zoff (abs_zone z) (tr_time l)).
    { rewrite Eoff. apply Hper; [lia|]. rewrite <- Eoff. exact B. }
    pose proof (zoff_after_last z l (tr_time l) F Hl ltac:(lia)) as EoT.
    pose proof (zoff_after_last z l (t' + 12622780800) F Hl ltac:(lia)) as Eo2.
    rewrite EoT in Eo.
    pose proof (cos_period (tr_time l + off_of z (tr_type l)) (-1)) as CPm. cbv zeta in CPm.
    assert (YL : z_last_year z - 400 <= fy (cos (t' + off))).
    { pose proof (cos_year_mono (tr_time l + off_of z (tr_type l) + 146097 * 86400 * -1) (t' + off)
                    ltac:(lia)) as M.
      rewrite CPm in M. cbn [fy] in M. rewrite <- Ccs, HY in M. lia. }
    pose proof (cos_period (t' + off) 1) as CP1. cbv zeta in CP1.
    destruct (future_rt_core z h2 (t' + 12622780800) (k - 1) Hok Hext H1 H2 ltac:(lia))
      as (cl & h'' & HM & RT).
    + zj.
    + rewrite P400_val. replace (t' + 12622780800 + (k - 1) * 12622780800) with t by lia. exact Ht.
    + rewrite Eo2, <- Eo.
      replace (t' + 12622780800 + off) with (t' + off + 146097 * 86400 * 1) by lia.
      rewrite CP1. cbn [fy]. lia.
    + exists cl, h''. rewrite Eo2, <- Eo in HM. rewrite P400_val in RT.
      replace (t' + 12622780800 + off + 146097 * 86400 * (k - 1)) with (t + off) in HM by lia.
      replace (t' + 12622780800 + (k - 1) * 12622780800) with t in RT by lia.
      split; [exact HM|exact RT].
Qed.

(* ================================================================== *)
(* C06 over the whole civil line of an extended zone                    *)

(* number of 400-year blocks MakeTime re-dates a civil second by: 0 up to local
   year last_year, then 1 for the next 400 civil years, ... *)
Definition Yr (L : Z) : Z := fy (cos L).
Definition kb (ly L : Z) : Z := if Yr L <=? ly then 0 else (Yr L - ly - 1) / 400 + 1.

(* convert() of an extended zone at the integer level *)
Definition zconvert_ext (Zt : zz) (ly L : Z) : Z :=
  zconvert Zt (L - kb ly L * P400) + kb ly L * P400.

Lemma kb_spec ly L :
  (kb ly L = 0 /\ Yr L <= ly) \/
  (1 <= kb ly L /\ ly + 400 * (kb ly L - 1) < Yr L <= ly + 400 * kb ly L).
Proof.
  unfold kb. destruct (Z.leb_spec (Yr L) ly); [left; lia|right].
  pose proof (Z.mul_div_le (Yr L - ly - 1) 400 ltac:(lia)) as D1.
  pose proof (Z.mul_succ_div_gt (Yr L - ly - 1) 400 ltac:(lia)) as D2.
  assert (0 <= (Yr L - ly - 1) / 400) by (apply Z.div_pos; lia).
  set (q := (Yr L - ly - 1) / 400) in *. clearbody q. lia.
Qed.

Lemma Yr_period L k : Yr (L + k * P400) = Yr L + 400 * k.
Proof.
  unfold Yr. replace (L + k * P400) with (L + 146097 * 86400 * k) by (rewrite P400_val; lia).
  rewrite cos_period. reflexivity.
Qed.

(* what the table must satisfy where the blocks meet: across the end of local
   year last_year, converting the first second of the next year (read 400 years
   earlier and re-dated) does not go back *)
Definition year_end_ok (Zt : zz) (ly : Z) : Prop :=
  forall E, Yr E <= ly -> ly < Yr (E + 1) ->
    zconvert Zt E <= zconvert Zt (E + 1 - P400) + P400.

Lemma zconvert_ext_step Zt ly L : wfz Zt = true -> year_end_ok Zt ly ->
  zconvert_ext Zt ly L <= zconvert_ext Zt ly (L + 1).
Proof.
  intros Hwf HB. unfold zconvert_ext.
  pose proof (kb_spec ly L) as S1. pose proof (kb_spec ly (L + 1)) as S2.
  pose proof (cos_year_mono L (L + 1) ltac:(lia)) as M. fold (Yr L) (Yr (L + 1)) in M.
  set (j := kb ly L) in *. set (k := kb ly (L + 1)) in *. clearbody j k.
  destruct (Z.eq_dec j k) as [E|N].
  - subst k. pose proof (zconvert_mono_lemma Zt (L - j * P400) (L + 1 - j * P400) Hwf ltac:(lia)). lia.
  - assert (Hjk : j < k) by lia.
    pose proof (Yr_period L (- (k - 1))) as P1. pose proof (Yr_period (L + 1) (- (k - 1))) as P2.
    pose proof (Yr_period (L + - (k - 1) * P400) 1) as P3.
    pose proof (cos_year_mono (L + 1 + - (k - 1) * P400) (L + - (k - 1) * P400 + 1 * P400)
                  ltac:(rewrite P400_val; lia)) as M2.
    fold (Yr (L + 1 + - (k - 1) * P400)) (Yr (L + - (k - 1) * P400 + 1 * P400)) in M2.
    assert (Ej : j = k - 1) by lia.
    pose proof (HB (L + - (k - 1) * P400)) as B.
    replace (L + - (k - 1) * P400 + 1) with (L + 1 + - (k - 1) * P400) in B by lia.
    specialize (B ltac:(lia) ltac:(lia)).
    subst j.
    replace (L - (k - 1) * P400) with (L + - (k - 1) * P400) by lia.
    replace (L + 1 - k * P400) with (L + 1 + - (k - 1) * P400 - P400) by lia.
    lia.
Qed.

Lemma zconvert_ext_mono_lemma Zt ly L1 L2 : wfz Zt = true -> year_end_ok Zt ly -> L1 <= L2 ->
  zconvert_ext Zt ly L1 <= zconvert_ext Zt ly L2.
Proof.
  intros Hwf HB Hle.
  assert (forall n L, zconvert_ext Zt ly L <= zconvert_ext Zt ly (L + Z.of_nat n)) as A.
  { induction n as [|n IH]; intros L.
    - replace (L + Z.of_nat 0) with L by lia. lia.
    - pose proof (IH L). pose proof (zconvert_ext_step Zt ly (L + Z.of_nat n) Hwf HB).
      replace (L + Z.of_nat (S n)) with (L + Z.of_nat n + 1) by lia. lia. }
  specialize (A (Z.to_nat (L2 - L1)) L1).
  replace (L1 + Z.of_nat (Z.to_nat (L2 - L1))) with L2 in A by lia. exact A.
Qed.

(* zconvert stays within 26 hours of the civil second *)
Lemma zconvert_bounds z L : zfacts z -> L - 93600 <= zconvert (abs_zone z) L <= L + 93600.
Proof.
  intros F. pose proof (zmake_bounds z L F) as B. cbv zeta in B.
  unfold zconvert. destruct (zk (zmake (abs_zone z) L)); lia.
Qed.

(* convert() on every civil second of an extended zone whose table ends in local year last_year *)
Lemma convert_ext_refines z h cs l :
  zone_ok z = true -> z_extended z = true -> last_opt (z_trans z) = Some l ->
  P400 <= tr_time l -> fy (tr_cs l) = z_last_year z -> fy (tr_pcs l) <= z_last_year z ->
  valid_fields cs = true -> int64 (fy cs) ->
  convert_cs z h cs = OK (Z.max min64 (Z.min max64 (zconvert_ext (abs_zone z) (z_last_year z) (sec_of cs)))).
Proof.
  intros Hok Hext Hl HP HY HPY V I.
  pose proof (zone_ok_facts z Hok) as F.
  unfold zconvert_ext, kb, Yr. rewrite (cos_sec_of cs V).
  destruct (Z.leb_spec (fy cs) (z_last_year z)) as [Hin|Hly].
  - rewrite (convert_refines z h cs Hok V I (or_intror Hin)).
    replace (sec_of cs - 0 * P400) with (sec_of cs) by lia.
    replace (zconvert (abs_zone z) (sec_of cs) + 0 * P400) with (zconvert (abs_zone z) (sec_of cs)) by lia.
    reflexivity.
  - assert (H1 : forall l0, last_opt (z_trans z) = Some l0 ->
                   fy (tr_cs l0) = z_last_year z /\ P400 <= tr_time l0).
    { intros l0 Hl0. rewrite Hl in Hl0. inversion Hl0; subst l0. auto. }
    assert (H2 : forall l0, last_opt (z_trans z) = Some l0 -> fy (tr_pcs l0) <= z_last_year z).
    { intros l0 Hl0. rewrite Hl in Hl0. inversion Hl0; subst l0. auto. }
    pose proof (make_future_lemma z h cs Hok Hext V I Hly H1 H2) as MF. cbv zeta in MF.
    (* the number of blocks is at least one *)
    pose proof (Z.mul_div_le (fy cs - z_last_year z - 1) 400 ltac:(lia)) as D1.
    pose proof (Z.mul_succ_div_gt (fy cs - z_last_year z - 1) 400 ltac:(lia)) as D2.
    assert (D0 : 0 <= (fy cs - z_last_year z - 1) / 400) by (apply Z.div_pos; lia).
    set (k := (fy cs - z_last_year z - 1) / 400 + 1) in *.
    assert (Hk : 1 <= k) by (unfold k; lia).
    assert (Hky : z_last_year z + 400 * (k - 1) < fy cs <= z_last_year z + 400 * k) by (unfold k; lia).
    clearbody k. clear D0 D1 D2.
    (* the re-dated civil second *)
    pose proof (cos_period (sec_of cs) (- k)) as CP. cbv zeta in CP. rewrite (cos_sec_of cs V) in CP.
    replace (fy cs + 400 * - k) with (fy cs - 400 * k) in CP by lia.
    rewrite <- CP in MF. rewrite sec_of_cos in MF.
    replace (sec_of cs + 146097 * 86400 * - k) with (sec_of cs - k * P400) in * by (rewrite P400_val; lia).
    set (L' := sec_of cs - k * P400) in *.
    destruct MF as (h' & HM).
    unfold convert_cs. rewrite HM. cbn [bind cl_kind cl_pre cl_trans].
    (* lower bound: L' is later than year 1570 *)
    assert (E0 : fy (cos 0) = 1970) by (vm_compute; reflexivity).
    assert (Em : fy (cos (- P400)) = 1570) by (vm_compute; reflexivity).
    destruct (last_facts z l F Hl) as (_ & HT & Ccs & _ & _).
    destruct (zf_trs z F l) as [Hil _].
    { destruct (last_opt_nth _ _ Hl) as [Hln _]. eapply nth_error_In; eauto. }
    pose proof (off_bound z _ F Hil) as HOl.
    assert (HLY : 1970 <= z_last_year z).
    { rewrite <- HY, Ccs, <- E0. apply cos_year_mono. rewrite P400_val in HP. lia. }
    assert (HL' : - P400 < L').
    { apply cos_year_lt. rewrite Em, CP. cbn [fy]. lia. }
    pose proof (zconvert_bounds z L' F) as ZB.
    f_equal.
    transitivity (Z.min max64 (zconvert (abs_zone z) L' + k * P400)).
    + unfold zconvert. destruct (zk (zmake (abs_zone z) L')); reflexivity.
    + rewrite P400_val in *. unfold min64, max64 in *. lia.
Qed.

Lemma c06_convert_mono_future_lemma : forall z h1 h2 cs1 cs2 l,
  zone_ok z = true -> z_extended z = true -> last_opt (z_trans z) = Some l ->
  P400 <= tr_time l -> fy (tr_cs l) = z_last_year z -> fy (tr_pcs l) <= z_last_year z ->
  (* the table's tail is consistent where the 400-year blocks meet (the end of local year last_year) *)
  (forall E, fy (civil_of_seconds E) <= z_last_year z -> z_last_year z < fy (civil_of_seconds (E + 1)) ->
     zconvert (abs_zone z) E <= zconvert (abs_zone z) (E + 1 - P400) + P400) ->
  valid_fields cs1 = true -> valid_fields cs2 = true -> int64 (fy cs1) -> int64 (fy cs2) ->
  sec_of cs1 < sec_of cs2 ->
  exists a b, convert_cs z h1 cs1 = OK a /\ convert_cs z h2 cs2 = OK b /\ a <= b.
Proof.
  intros z h1 h2 cs1 cs2 l Hok Hext Hl HP HY HPY HB V1 V2 I1 I2 Hlt.
  do 2 eexists. split; [eapply convert_ext_refines; eassumption|].
  split; [eapply convert_ext_refines; eassumption|].
  pose proof (zconvert_ext_mono_lemma (abs_zone z) (z_last_year z) (sec_of cs1) (sec_of cs2)
                (zone_ok_wfz z Hok) HB ltac:(lia)).
  lia.
Qed.

(* The tail hypothesis of c03_roundtrip_future_lemma cannot be dropped for an
   arbitrary certified zone: a table whose only late transition (2400-06-01,
   +1:00 -> +0:00) has no image 400 years earlier.  BreakTime at T+100 reads
   the offset of 2000 (+1:00), MakeTime of the resulting civil second stays in
   the table and answers T+3700. *)
Definition lone_T : Z := sec_of (mkF 2400 6 1 0 0 0).
Definition lone_zone : zone :=
  mkZone [mkTr (-1000000) 1 (cos (-1000000 + 3600)) (cos (-1000001));
          mkTr lone_T 0 (cos lone_T) (cos (lone_T - 1 + 3600))]
         [mkTT 0 (cos max64) (cos min64) false 0;
          mkTT 3600 (cos (max64 + 3600)) (cos (min64 + 3600)) true 0]
         0 [0] [] true 2400.

Example future_needs_periodic_tail :
  zone_ok lone_zone = true /\ z_extended lone_zone = true /\
  (exists l, last_opt (z_trans lone_zone) = Some l /\ P400 <=? tr_time l = true /\
             fy (tr_cs l) = z_last_year lone_zone /\ fy (tr_pcs l) = z_last_year lone_zone) /\
  res_fst (break_time lone_zone 0 (lone_T + 100))
    = OK (mkAL (cos (lone_T + 3700)) 3600 true []) /\
  res_fst (make_time lone_zone 0 (cos (lone_T + 3700)))
    = OK (mkCL UNIQUE (lone_T + 3700) (lone_T + 3700) (lone_T + 3700)).
Proof.
  split; [vm_compute; reflexivity|]. split; [reflexivity|].
  split; [eexists; split; [reflexivity|]; vm_compute; auto|].
  split; vm_compute; reflexivity.
Qed.

(* ================================================================== *)
(* The far-future theorems for every accepted file                      *)

Lemma accepted_c03_roundtrip_future_lemma : forall bs z h h2 t l al h',
  load_bytes bs = OK (Some z) ->
  gaps_wide (zz_doff (abs_zone z)) (zz_tr (abs_zone z)) = true ->
  z_extended z = true -> last_opt (z_trans z) = Some l ->
  P400 <= tr_time l -> fy (tr_cs l) = z_last_year z -> fy (tr_pcs l) <= z_last_year z ->
  (forall t', tr_time l - P400 <= t' < tr_time l ->
     fy (civil_of_seconds (t' + zoff (abs_zone z) t')) <= z_last_year z - 400 ->
     zoff (abs_zone z) t' = zoff (abs_zone z) (tr_time l)) ->
  int64 t -> tr_time l <= t ->
  break_time z h t = OK (al, h') ->
  exists cl h'', make_time z h2 (al_cs al) = OK (cl, h'') /\
    ((cl_kind cl = UNIQUE /\ cl_pre cl = t) \/
     (cl_kind cl = REPEATED /\ (cl_pre cl = t \/ cl_post cl = t))).
Proof.
  intros bs z h h2 t l al h' H G. apply c03_roundtrip_future_lemma.
  exact (load_establishes_certificate_lemma _ _ H G).
Qed.

Lemma accepted_c06_convert_mono_future_lemma : forall bs z h1 h2 cs1 cs2 l,
  load_bytes bs = OK (Some z) ->
  gaps_wide (zz_doff (abs_zone z)) (zz_tr (abs_zone z)) = true ->
  z_extended z = true -> last_opt (z_trans z) = Some l ->
  P400 <= tr_time l -> fy (tr_cs l) = z_last_year z -> fy (tr_pcs l) <= z_last_year z ->
  (forall E, fy (civil_of_seconds E) <= z_last_year z -> z_last_year z < fy (civil_of_seconds (E + 1)) ->
     zconvert (abs_zone z) E <= zconvert (abs_zone z) (E + 1 - P400) + P400) ->
  valid_fields cs1 = true -> valid_fields cs2 = true -> int64 (fy cs1) -> int64 (fy cs2) ->
  sec_of cs1 < sec_of cs2 ->
  exists a b, convert_cs z h1 cs1 = OK a /\ convert_cs z h2 cs2 = OK b /\ a <= b.
Proof.
  intros bs z h1 h2 cs1 cs2 l H G. apply c06_convert_mono_future_lemma.
  exact (load_establishes_certificate_lemma _ _ H G).
Qed.

Print Assumptions c03_roundtrip_impl_lemma.
Print Assumptions c06_convert_mono_impl_lemma.
Print Assumptions c06_convert_mono_impl_lt64_lemma.
Print Assumptions pre_not_monotone.
Print Assumptions accepted_c03_roundtrip_lemma.
Print Assumptions accepted_c06_convert_mono_lemma.
Print Assumptions c03_roundtrip_future_lemma.
Print Assumptions c06_convert_mono_future_lemma.
Print Assumptions future_needs_periodic_tail.
Print Assumptions accepted_c03_roundtrip_future_lemma.
Print Assumptions accepted_c06_convert_mono_future_lemma.

(* Status: everything above is proved; `Print Assumptions` reports "Closed under
   the global context" for each theorem.
   - c03_roundtrip_impl_lemma needs no condition on the civil year: an instant
     before the last transition shows a civil second <= last.prev_civil_sec
     (ZoneZProofs.f_upper), and MakeTime enters the extended_ branch only beyond
     prev_civil_sec (make_refines_region), so the year test is never reached.
   - C06 is stated for convert() (convert_cs: trans for SKIPPED, pre otherwise).
     The `pre` component alone is not monotone (pre_not_monotone).
   - Beyond the table (c03_roundtrip_future_lemma, c06_convert_mono_future_lemma)
     the certificate says nothing about last_year or about the table's tail
     repeating with period 400 years, so these carry make_future_lemma's
     hypotheses on the last transition and one hypothesis each on the tail
     around the end of local year last_year - 400 / last_year
     (future_needs_periodic_tail shows the former cannot be dropped).  Zones of
     known finding F9 (2^31-1 sentinel behind the generated window, e.g.
     LoadCert.wide_footer_bytes: last_year = -18267311669, last transition in
     2038) violate fy (tr_cs l) = z_last_year z and indeed fail the round trip at
     2^62 and at max64. *)
