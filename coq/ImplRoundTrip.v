(* ImplRoundTrip.v — C03 (instant -> civil -> instant round trip) and C06
   (convert(civil) preserves order) stated about the IMPLEMENTATION-level
   functions of ZoneImpl.v (break_time / make_time / convert_cs on checked int64
   and six-field civil seconds), for every zone satisfying the certificate
   zone_ok and for every accepted file.  They are obtained by composing the
   integer-level theorems (ZoneZProofs.v) with the refinement theorems
   (ZoneRefine.v, FutureProofs.v, LoadCert.v). *)
From CCTZ Require Import Base Cal CivilImpl PosixImpl FixedImpl ZoneLoad ZoneImpl ZoneZ ZoneHist ZoneRefineDefs.
From CCTZ Require Import CalProofs CivilNorm CivilDiff ZoneSelect ZoneZProofs FixedProofs ZoneRefine.
From CCTZ Require Import FutureDefs FutureProofs LoadCert.
Require Import Lia ZifyBool.
Local Open Scope Z_scope.

(* no division reaches lia in this file *)
Local Ltac Zify.zify_post_hook ::= idtac.

Local Notation cos := civil_of_seconds.

(* the round-trip verdict on a civil lookup *)
Definition round_trips (cl : clookup) (t : Z) : Prop :=
  (cl_kind cl = UNIQUE /\ cl_pre cl = t) \/
  (cl_kind cl = REPEATED /\ (cl_pre cl = t \/ cl_post cl = t)).

(* ================================================================== *)
(* helpers                                                              *)

Lemma zone_ok_wfz z : zone_ok z = true -> wfz (abs_zone z) = true.
Proof.
  intros H. rewrite zone_ok_split in H. apply andb_true_iff in H. tauto.
Qed.

Lemma zoff_abs z t : zoff (abs_zone z) t = zoff_list (absl z) (doff z) t.
Proof. reflexivity. Qed.

(* the last transition, seen at both levels *)
Lemma last_facts z l : zfacts z -> last_opt (z_trans z) = Some l ->
  let n := (length (z_trans z) - 1)%nat in
  nth_error (absl z) n = Some (absf z l) /\
  - 2 ^ 59 <= tr_time l <= 2 ^ 60 /\
  tr_cs l = cos (tr_time l + off_of z (tr_type l)) /\
  tr_pcs l = cos (tr_time l - 1 + ob (doff z) (absl z) n) /\
  S n = length (absl z).
Proof.
  intros F Hl. cbv zeta.
  destruct (last_opt_nth _ _ Hl) as [Hln Hlen].
  destruct (tr_facts z _ l F Hln) as (_ & HT & _ & Ccs & Cpcs & Na).
  repeat split; auto; try lia. rewrite absl_length. lia.
Qed.

(* an instant before the last transition shows a civil second no later than
   the last transition's prev_civil_sec *)
Lemma before_last_pcs z l t : zfacts z -> last_opt (z_trans z) = Some l -> t < tr_time l ->
  exists b, tr_pcs l = cos b /\ t + zoff (abs_zone z) t <= b.
Proof.
  intros F Hl Ht.
  destruct (last_facts z l F Hl) as (Na & _ & _ & Cpcs & _).
  destruct (zf_wf z F) as (ST & _ & GP & _).
  eexists. split; [exact Cpcs|].
  pose proof (f_upper (doff z) (absl z) ST GP _ (absf z l) t Na) as U.
  cbn [absf zt_time] in U. specialize (U Ht). unfold pre_ in U. cbn [zt_time] in U.
  rewrite zoff_abs. exact U.
Qed.

(* from the last transition on the offset is the last transition's *)
Lemma zoff_after_last z l t : zfacts z -> last_opt (z_trans z) = Some l -> tr_time l <= t ->
  zoff (abs_zone z) t = off_of z (tr_type l).
Proof.
  intros F Hl Ht.
  destruct (last_facts z l F Hl) as (Na & _ & _ & _ & Hn).
  destruct (zf_wf z F) as (ST & _).
  rewrite zoff_abs.
  rewrite (f_seg (doff z) (absl z) (length (absl z)) t ST).
  - rewrite <- Hn. rewrite (ob_S _ _ _ _ Na). reflexivity.
  - split; [lia|]. split.
    + intros j a Hj Ha. assert (j = (length (z_trans z) - 1)%nat) by lia. subst j.
      rewrite Na in Ha. inversion Ha; subst a. cbn [absf zt_time]. exact Ht.
    + intros a Ha. apply nth_some_lt in Ha. lia.
Qed.

(* make_refines_lemma with a wider region: MakeTime also stays in the table
   when cs is not after the last transition's prev_civil_sec, whatever its year *)
Lemma make_refines_region z h cs : zone_ok z = true -> valid_fields cs = true -> int64 (fy cs) ->
  (z_extended z = false \/ fy cs <= z_last_year z \/
   (forall l, last_opt (z_trans z) = Some l -> lt64 (tr_pcs l) cs = false)) ->
  exists h', make_time z h cs = OK (cl_of (zmake (abs_zone z) (sec_of cs)), h').
Proof.
  intros Hok V I Hext. pose proof (zone_ok_facts z Hok) as F.
  destruct (make_noext_ok z cs F V I) as (h0 & HM).
  assert (make_time z 0 cs = make_time_noext z 0 cs) as E0.
  { destruct (zf_first z F) as (f & r & Hfr & _).
    destruct (zf_last z F) as (l & Hl & _).
    assert (Hn0 : nth_error (z_trans z) 0 = Some f) by (rewrite Hfr; reflexivity).
    unfold make_time. rewrite Hl, (nth_tr_some z 0 f Hn0). cbn [bind].
    assert (negb (lt64 cs (tr_cs f)) && le64 (tr_cs l) cs && lt64 (tr_pcs l) cs
            && z_extended z && (z_last_year z <? fy cs) = false) as ->; [|reflexivity].
    destruct Hext as [He|[He|He]].
    - rewrite He, andb_false_r. reflexivity.
    - destruct (Z.ltb_spec (z_last_year z) (fy cs)); [lia|]. apply andb_false_r.
    - rewrite (He l Hl), andb_false_r. reflexivity. }
  pose proof (make_time_hint z h cs (zf_civil_sorted z F)) as Hh.
  rewrite E0, HM in Hh. cbn [res_fst] in Hh.
  destruct (res_fst_OK _ _ Hh) as [h' Hr].
  exists h'. exact Hr.
Qed.

(* the integer-level round trip read through the saturating image cl_of *)
Lemma round_trips_cl_of z t : wfz z = true -> int64 t ->
  round_trips (cl_of (zmake z (t + zoff z t))) t.
Proof.
  intros Hwf Ht. pose proof (zroundtrip_lemma z t Hwf) as R. cbv zeta in R.
  unfold round_trips, cl_of. cbn [cl_kind cl_pre cl_post].
  destruct R as [[K P]|[K [P|P]]]; rewrite K, P; cbn [kind_of']; rewrite clamp_id by exact Ht; auto.
Qed.

(* ================================================================== *)
(* C03 at the implementation level, table region                        *)

Lemma c03_roundtrip_impl_lemma : forall z h h2 t al h',
  zone_ok z = true -> int64 t ->
  (z_extended z = false \/ (forall l, last_opt (z_trans z) = Some l -> t < tr_time l)) ->
  break_time z h t = OK (al, h') ->
  exists cl h'', make_time z h2 (al_cs al) = OK (cl, h'') /\
    ((cl_kind cl = UNIQUE /\ cl_pre cl = t) \/
     (cl_kind cl = REPEATED /\ (cl_pre cl = t \/ cl_post cl = t))).
Proof.
  intros z h h2 t al h' Hok Ht Hreg HB.
  pose proof (zone_ok_facts z Hok) as F.
  destruct (break_refines_lemma z h t Hok Ht Hreg) as (h1 & dst & ab & HB' & _).
  rewrite HB in HB'. apply OK_inj in HB'. apply pair_equal_spec in HB'. destruct HB' as [Eal _].
  subst al. cbn [al_cs].
  pose proof (zoff_bound z t F) as HO.
  set (L := t + zoff (abs_zone z) t) in *.
  assert (HL : - SB <= L <= SB) by (unfold L, SB, int64, min64, max64 in *; lia).
  destruct (make_refines_region z h2 (cos L) Hok (valid_cos L) (year_ok L HL)) as (h'' & HM).
  { destruct Hreg as [He|He]; [left; exact He|]. right; right. intros l Hl.
    destruct (before_last_pcs z l t F Hl (He l Hl)) as (b & Eb & Hb).
    rewrite Eb, lt_r by apply valid_cos. rewrite sec_of_cos. fold L in Hb.
    destruct (Z.ltb_spec b L); [lia|reflexivity]. }
  rewrite sec_of_cos in HM.
  exists (cl_of (zmake (abs_zone z) L)), h''. split; [exact HM|].
  exact (round_trips_cl_of (abs_zone z) t (zone_ok_wfz z Hok) Ht).
Qed.

(* ================================================================== *)
(* C06 at the implementation level, table region                        *)

(* convert() picks trans for SKIPPED and pre otherwise: on the saturating
   image this is the clamped integer-level conversion *)
Lemma convert_cl_of z L :
  match cl_kind (cl_of (zmake z L)) with
  | SKIPPED => cl_trans (cl_of (zmake z L))
  | _ => cl_pre (cl_of (zmake z L))
  end = Z.max min64 (Z.min max64 (zconvert z L)).
Proof.
  unfold zconvert, cl_of. cbn [cl_kind cl_pre cl_trans].
  destruct (zk (zmake z L)); reflexivity.
Qed.

Lemma convert_refines z h cs : zone_ok z = true -> valid_fields cs = true -> int64 (fy cs) ->
  (z_extended z = false \/ fy cs <= z_last_year z) ->
  convert_cs z h cs = OK (Z.max min64 (Z.min max64 (zconvert (abs_zone z) (sec_of cs)))).
Proof.
  intros Hok V I Hreg.
  destruct (make_refines_region z h cs Hok V I) as (h' & HM).
  { destruct Hreg as [He|He]; [left; exact He|right; left; exact He]. }
  unfold convert_cs. rewrite HM. cbn [bind]. rewrite convert_cl_of. reflexivity.
Qed.

Lemma c06_convert_mono_impl_lemma : forall z h1 h2 cs1 cs2,
  zone_ok z = true -> valid_fields cs1 = true -> valid_fields cs2 = true ->
  int64 (fy cs1) -> int64 (fy cs2) ->
  (z_extended z = false \/ fy cs2 <= z_last_year z) ->
  sec_of cs1 < sec_of cs2 ->
  exists a b, convert_cs z h1 cs1 = OK a /\ convert_cs z h2 cs2 = OK b /\ a <= b.
Proof.
  intros z h1 h2 cs1 cs2 Hok V1 V2 I1 I2 Hreg Hlt.
  assert (Hreg1 : z_extended z = false \/ fy cs1 <= z_last_year z).
  { destruct Hreg as [He|He]; [left; exact He|right].
    pose proof (cos_year_mono (sec_of cs1) (sec_of cs2) ltac:(lia)) as M.
    rewrite !cos_sec_of in M by assumption. lia. }
  do 2 eexists. split; [apply convert_refines; assumption|].
  split; [apply convert_refines; assumption|].
  apply zconvert_clamped_mono_lemma.
  - exact (zone_ok_wfz z Hok).
  - unfold min64, max64. lia.
  - exact Hlt.
Qed.

(* the same with the order read on the fields (civil_second's operator<) *)
Lemma c06_convert_mono_impl_lt64_lemma : forall z h1 h2 cs1 cs2,
  zone_ok z = true -> valid_fields cs1 = true -> valid_fields cs2 = true ->
  int64 (fy cs1) -> int64 (fy cs2) ->
  (z_extended z = false \/ fy cs2 <= z_last_year z) ->
  lt64 cs1 cs2 = true ->
  exists a b, convert_cs z h1 cs1 = OK a /\ convert_cs z h2 cs2 = OK b /\ a <= b.
Proof.
  intros z h1 h2 cs1 cs2 Hok V1 V2 I1 I2 Hreg Hlt.
  apply c06_convert_mono_impl_lemma; auto.
  destruct (order_agrees_lemma cs1 cs2 V1 V2) as [E _]. rewrite E in Hlt.
  apply Z.ltb_lt. exact Hlt.
Qed.

(* The `pre` component alone is NOT monotone (convert() must and does pick
   `trans` for a SKIPPED civil second): a two-transition zone with a one-hour
   gap at instant 1000000.  The last second of the gap has pre = 1003599, the
   first second after it has pre = 1000000. *)
Definition gap_zone : zone :=
  mkZone [mkTr (-1000000) 0 (cos (-1000000)) (cos (-1000001));
          mkTr 1000000 1 (cos 1003600) (cos 999999)]
         [mkTT 0 (cos max64) (cos min64) false 0;
          mkTT 3600 (cos (max64 + 3600)) (cos (min64 + 3600)) true 0]
         0 [0] [] false 0.

Example pre_not_monotone :
  zone_ok gap_zone = true /\
  sec_of (cos 1003599) < sec_of (cos 1003600) /\
  make_time gap_zone 0 (cos 1003599) = OK (mkCL SKIPPED 1003599 1000000 999999, 0) /\
  make_time gap_zone 0 (cos 1003600) = OK (mkCL UNIQUE 1000000 1000000 1000000, 0) /\
  convert_cs gap_zone 0 (cos 1003599) = OK 1000000 /\
  convert_cs gap_zone 0 (cos 1003600) = OK 1000000.
Proof. vm_compute. repeat split; reflexivity. Qed.

(* ================================================================== *)
(* The same for every accepted file                                     *)

Lemma accepted_c03_roundtrip_lemma : forall bs z h h2 t al h',
  load_bytes bs = OK (Some z) ->
  gaps_wide (zz_doff (abs_zone z)) (zz_tr (abs_zone z)) = true ->
  int64 t ->
  (z_extended z = false \/ (forall l, last_opt (z_trans z) = Some l -> t < tr_time l)) ->
  break_time z h t = OK (al, h') ->
  exists cl h'', make_time z h2 (al_cs al) = OK (cl, h'') /\
    ((cl_kind cl = UNIQUE /\ cl_pre cl = t) \/
     (cl_kind cl = REPEATED /\ (cl_pre cl = t \/ cl_post cl = t))).
Proof.
  intros bs z h h2 t al h' H G. apply c03_roundtrip_impl_lemma.
  exact (load_establishes_certificate_lemma _ _ H G).
Qed.

Lemma accepted_c06_convert_mono_lemma : forall bs z h1 h2 cs1 cs2,
  load_bytes bs = OK (Some z) ->
  gaps_wide (zz_doff (abs_zone z)) (zz_tr (abs_zone z)) = true ->
  valid_fields cs1 = true -> valid_fields cs2 = true ->
  int64 (fy cs1) -> int64 (fy cs2) ->
  (z_extended z = false \/ fy cs2 <= z_last_year z) ->
  sec_of cs1 < sec_of cs2 ->
  exists a b, convert_cs z h1 cs1 = OK a /\ convert_cs z h2 cs2 = OK b /\ a <= b.
Proof.
  intros bs z h1 h2 cs1 cs2 H G. apply c06_convert_mono_impl_lemma.
  exact (load_establishes_certificate_lemma _ _ H G).
Qed.

