(* FmtRTScan.v — C07: parse()'s scanning loop on the text format() wrote, for
   EVERY format string made of literal bytes, "%%" and library specifiers
   (no strftime/strptime-delegated pieces): by induction over the format
   string, the scanner consumes the rendering of each token exactly and
   updates its state by [upd_lib]; the final state is the fold of [upd_lib]
   over the token list [lex fmt]. *)
From CCTZ Require Import Base SrcConstants Cal CivilImpl PosixImpl FixedImpl ZoneLoad ZoneImpl
  FormatImpl ParseImpl FinishDefs FmtSpec.
From CCTZ Require Import CalProofs CivilNorm ParseProofs FmtProofs FinishProofs FmtRTParse.
From Coq Require Import Lia ZifyBool.
Local Open Scope Z_scope.
Local Ltac Zify.zify_post_hook ::= Z.to_euclidean_division_equations.
Local Strategy 200 [lex_fuel fmt_loop].

(* ================================================================== *)
(* Token classes                                                       *)

Definition greedy_lib (k : libspec) : bool :=
  match k with
  | LY | Ls | LEsS | LEsf | LEnS _ | LEnf _ | Lu | Lw | LU | LW | LE4Y | Le
  | Lz | Lcz | Lccz | Lcccz | LEz | LEsz => true
  | _ => false
  end.
Definition colon_lib (k : libspec) : bool :=
  match k with Lcz | Lccz | Lcccz | LEz | LEsz => true | _ => false end.
Definition dot_lib (k : libspec) : bool :=
  match k with LEsS | LEnS _ => true | _ => false end.

(* what the text after a token's rendering must not begin with *)
Definition hd_ok (k : libspec) (K : list Z) : Prop :=
  match K with
  | [] => True
  | x :: _ => (greedy_lib k = true -> is_digit x = false) /\
              (colon_lib k = true -> x <> 58) /\ (dot_lib k = true -> x <> 46)
  end.

(* an empty rendering ("%E0f") followed by white space: the white space is
   skipped before the specifier is reached, and the specifier then swallows
   the digits of the NEXT field *)
Fixpoint e0f_ok (l : list ftok) : bool :=
  match l with
  | FLib (LEnf n) :: ((FLit c :: _) as r) => negb ((n <=? 0) && is_space c) && e0f_ok r
  | _ :: r => e0f_ok r
  | [] => true
  end.

Definition week_U (cs : fields) : Z := (yday0 cs + 7 - wday_sun0 cs) / 7.
Definition week_W (cs : fields) : Z := (yday0 cs + 7 - (wday_sun0 cs + 6) mod 7) / 7.

Definition nzb (c : Z) : bool := negb (c =? 0).

Section Scan.
Variable sp : list Z -> list Z -> tmrec -> option (list Z * tmrec).
Variable so : list Z -> tmrec -> list Z.
Variable tm : tmrec.
Variables (cs : fields) (off : Z) (abbr : list Z) (fs unix : Z).
Hypothesis Vcs : valid_fields cs = true.
Hypothesis Iy : int64 (fy cs).
Hypothesis Hoff : -86400 < off < 86400.
Hypothesis Hfs : 0 <= fs < 10 ^ 15.
Hypothesis Iu : int64 unix.

Definition rlk (k : libspec) : list Z := render_lib k cs off abbr fs unix.
Definition RTk (t : ftok) : list Z := render_tok so t cs off abbr fs unix tm.
Definition render (l : list ftok) : list Z := flat_map RTk l.

(* tokens the scanner can read back *)
Definition lib_ok (k : libspec) : bool :=
  match k with
  | LZ => false
  | LE4Y => (-999 <=? fy cs) && (fy cs <=? 9999)
  | _ => true
  end.
Definition tok_ok (t : ftok) : bool :=
  match t with FLit c => nzb c | FPct => true | FLib k => lib_ok k | _ => false end.

(* the scanner's state after reading the rendering of a token *)
Definition upd_lib (k : libspec) (s : pstate) : pstate :=
  match k with
  | LY | LE4Y => set_year s (fy cs)
  | Lm => set_week (set_tm s (tm_with (ps_tm s) 4 (fm cs - 1))) (-1) (ps_week_start s)
  | Ld | Le => set_week (set_tm s (tm_with (ps_tm s) 3 (fd cs))) (-1) (ps_week_start s)
  | LU => set_week s (week_U cs) 6
  | LW => set_week s (week_W cs) 0
  | Lu | Lw => set_tm s (tm_with (ps_tm s) 6 (wday_sun0 cs))
  | LH => set_twelve (set_tm s (tm_with (ps_tm s) 2 (fhh cs))) false
  | LM => set_tm s (tm_with (ps_tm s) 1 (fmm cs))
  | LS => set_tm s (tm_with (ps_tm s) 0 (fss cs))
  | Lz | Lcz | LEz => set_offset s (Z.quot off 60 * 60)
  | Lccz | LEsz | Lcccz => set_offset s off
  | LZ | LET => s
  | Ls => set_percent_s s unix
  | LEnS n => let s1 := set_tm s (tm_with (ps_tm s) 0 (fss cs)) in
              if 0 <? n then set_subsec s1 (sub_val (frac_digits fs n)) else s1
  | LEsS => let s1 := set_tm s (tm_with (ps_tm s) 0 (fss cs)) in
            if fs =? 0 then s1 else set_subsec s1 fs
  | LEnf n => if 0 <? n then set_subsec s (sub_val (frac_digits fs n)) else s
  | LEsf => set_subsec s fs
  end.
Definition upd (s : pstate) (t : ftok) : pstate := match t with FLib k => upd_lib k s | _ => s end.

Lemma cs_ranges : 1 <= fm cs <= 12 /\ 1 <= fd cs <= 31 /\ 0 <= fhh cs <= 23 /\ 0 <= fmm cs <= 59 /\ 0 <= fss cs <= 59.
Proof.
  pose proof Vcs as V. apply valid_fields_inv in V. destruct V as (V & ? & ? & ?).
  pose proof (valid_date_inv _ _ _ V) as [? ?]. pose proof (dim_range (fy cs) (fm cs)). lia.
Qed.

(* ================================================================== *)
(* scan_step, one format item at a time                                *)

Lemma step_space c f data s : is_space c = true ->
  scan_step sp (c :: f) data s = OK (skip_space f, Some (skip_space data, s)).
Proof. intros H. unfold scan_step. rewrite H. reflexivity. Qed.

Lemma step_pct f K s : scan_step sp (37 :: 37 :: f) (37 :: K) s = OK (f, Some (K, s)).
Proof. reflexivity. Qed.

Lemma step_e f data s : scan_step sp (37 :: 101 :: f) data s =
  match (if match data with x :: _ => x =? 32 | [] => false end
         then parse_int32 (tl data) 1 1 9 else parse_int32 data 2 1 31) with
  | Some (v, d1) => OK (f, Some (d1, set_week (set_tm s (tm_with (ps_tm s) 3 v)) (-1) (ps_week_start s)))
  | None => OK (f, None)
  end.
Proof. reflexivity. Qed.
Lemma step_E4Y f data s : scan_step sp (37 :: 69 :: 52 :: 89 :: f) data s =
  match parse_int64 data 4 (-999) 9999 with
  | Some (v, d1) => if Nat.eqb (length data) (length d1 + 4) then OK (f, Some (d1, set_year s v)) else OK (f, None)
  | None => OK (f, None)
  end.
Proof. reflexivity. Qed.
Lemma step_U f data s : scan_step sp (37 :: 85 :: f) data s =
  match parse_int32 data 0 0 53 with
  | Some (v, d1) => OK (f, Some (d1, set_week s v 6))
  | None => OK (f, None)
  end.
Proof. reflexivity. Qed.
Lemma step_W f data s : scan_step sp (37 :: 87 :: f) data s =
  match parse_int32 data 0 0 53 with
  | Some (v, d1) => OK (f, Some (d1, set_week s v 0))
  | None => OK (f, None)
  end.
Proof. reflexivity. Qed.
Lemma step_u f data s : scan_step sp (37 :: 117 :: f) data s =
  match parse_int32 data 0 1 7 with
  | Some (v, d1) => OK (f, Some (d1, set_tm s (tm_with (ps_tm s) 6 (Z.rem v 7))))
  | None => OK (f, None)
  end.
Proof. reflexivity. Qed.
Lemma step_w f data s : scan_step sp (37 :: 119 :: f) data s =
  match parse_int32 data 0 0 6 with
  | Some (v, d1) => OK (f, Some (d1, set_tm s (tm_with (ps_tm s) 6 v)))
  | None => OK (f, None)
  end.
Proof. reflexivity. Qed.
Lemma step_S f data s : scan_step sp (37 :: 83 :: f) data s =
  match parse_int32 data 2 0 60 with
  | Some (v, d1) => OK (f, Some (d1, set_tm s (tm_with (ps_tm s) 0 v)))
  | None => OK (f, None)
  end.
Proof. reflexivity. Qed.
Lemma step_z f data s : scan_step sp (37 :: 122 :: f) data s =
  match fmt_parse_offset data 0 with
  | Some (o, d1) => OK (f, Some (d1, set_offset s o))
  | None => OK (f, None)
  end.
Proof. reflexivity. Qed.
Lemma step_s f data s : scan_step sp (37 :: 115 :: f) data s =
  match parse_int64 data 0 min64 max64 with
  | Some (v, d1) => OK (f, Some (d1, set_percent_s s v))
  | None => OK (f, None)
  end.
Proof. reflexivity. Qed.
Lemma step_cz f data s : scan_step sp (37 :: 58 :: 122 :: f) data s =
  match fmt_parse_offset data 58 with
  | Some (o, d1) => OK (f, Some (d1, set_offset s o))
  | None => OK (f, None)
  end.
Proof. reflexivity. Qed.
Lemma step_ccz f data s : scan_step sp (37 :: 58 :: 58 :: 122 :: f) data s =
  match fmt_parse_offset data 58 with
  | Some (o, d1) => OK (f, Some (d1, set_offset s o))
  | None => OK (f, None)
  end.
Proof. reflexivity. Qed.
Lemma step_cccz f data s : scan_step sp (37 :: 58 :: 58 :: 58 :: 122 :: f) data s =
  match fmt_parse_offset data 58 with
  | Some (o, d1) => OK (f, Some (d1, set_offset s o))
  | None => OK (f, None)
  end.
Proof. reflexivity. Qed.
Lemma step_Ecz f data s : scan_step sp (37 :: 69 :: 122 :: f) data s =
  match fmt_parse_offset data 58 with
  | Some (o, d1) => OK (f, Some (d1, set_offset s o))
  | None => OK (f, None)
  end.
Proof. reflexivity. Qed.
Lemma step_ET f x d1 s : (x =? 84) || (x =? 116) = true ->
  scan_step sp (37 :: 69 :: 84 :: f) (x :: d1) s = OK (f, Some (d1, s)).
Proof. intros H. cbn [scan_step is_space]. unfold scan_step. cbn. rewrite H. reflexivity. Qed.
Lemma step_Esf f data s : scan_step sp (37 :: 69 :: 42 :: 102 :: f) data s =
  (do r <- parse_ext_frac data s ;; OK (f, r)).
Proof. reflexivity. Qed.

(* "%E<digits>S" / "%E<digits>f": the format side of the count *)
Definition sel_Sf {A} (o : option (Z * list Z)) (kS kf : list Z -> A) (dflt : A) : A :=
  match o with
  | Some (_, 83 :: f5) => kS f5
  | Some (_, 102 :: f5) => kf f5
  | _ => dflt
  end.

Lemma step_E_digits d r4 data s : is_digit d = true ->
  (d = 52 -> match r4 with x :: _ => x <> 89 | [] => True end) ->
  scan_step sp (37 :: 69 :: d :: r4) data s =
  sel_Sf (parse_int32 (d :: r4) 0 0 1024)
    (fun f5 => do r <- parse_ext_seconds data s ;; OK (f5, r))
    (fun f5 => do r <- parse_ext_frac data s ;; OK (f5, r))
    (OK (r4, parse_tm_spec sp (firstn (length (37 :: 69 :: d :: r4) - length r4) (37 :: 69 :: d :: r4)) data s)).
Proof.
  intros Hd H52. apply is_digit_range in Hd.
  assert (E : d = 48 \/ d = 49 \/ d = 50 \/ d = 51 \/ d = 52 \/ d = 53 \/ d = 54 \/ d = 55 \/ d = 56 \/ d = 57) by lia.
  destruct E as [->|[->|[->|[->|[->|[->|[->|[->|[->| ->]]]]]]]]];
    try reflexivity.
  specialize (H52 eq_refl).
  destruct r4 as [|x r5]; [reflexivity|].
  unfold sel_Sf.
  zwalk x.
Qed.

(* ================================================================== *)
(* The scanner on the rendering of one library specifier               *)

Lemma hd_ndh k K : greedy_lib k = true -> hd_ok k K -> no_digit_head' K.
Proof. intros G H. destruct K as [|x r]; [exact I|]. cbn. apply H. exact G. Qed.

Lemma hd_off58 k K : colon_lib k = true -> hd_ok k K -> no_offset_cont' 58 K.
Proof.
  intros C H. destruct K as [|x r]; [exact I|]. cbn. destruct H as (H1 & H2 & _).
  split; [apply H1; destruct k; try discriminate; reflexivity | right; apply H2; exact C].
Qed.

Lemma hd_off0 K : hd_ok Lz K -> no_offset_cont' 0 K.
Proof.
  intros H. destruct K as [|x r]; [exact I|]. cbn. destruct H as (H1 & _).
  split; [apply H1; reflexivity | left; reflexivity].
Qed.

Lemma off_wide : -93599 <= off <= 93599.
Proof. lia. Qed.

Lemma pes_num n K s : hd_ok (LEnS n) K ->
  parse_ext_seconds (rlk (LEnS n) ++ K) s = OK (Some (K, upd_lib (LEnS n) s)).
Proof.
  intros HK. pose proof cs_ranges as (_ & _ & _ & _ & Rs).
  unfold rlk. cbn [render_lib upd_lib]. rewrite pes_unf.
  change (rng src_parse_range_S 0) with 0. change (rng src_parse_range_S 1) with 60.
  rewrite <- app_assoc. rewrite (p2 sp) by lia.
  destruct (Z.ltb_spec 0 n) as [Hn|Hn].
  - cbn [app]. change (46 =? 46) with true. cbv iota.
    destruct (frac_digits_shape fs n Hfs ltac:(lia)) as [D N].
    rewrite (parse_subseconds_digits _ K D N ltac:(eapply hd_ndh; [|exact HK]; reflexivity)). reflexivity.
  - cbn [app]. destruct K as [|x r]; [reflexivity|].
    destruct HK as (_ & _ & H3). specialize (H3 eq_refl).
    destruct (Z.eqb_spec x 46) as [C|_]; [contradiction|]. reflexivity.
Qed.

Lemma pes_star K s : hd_ok LEsS K ->
  parse_ext_seconds (rlk LEsS ++ K) s = OK (Some (K, upd_lib LEsS s)).
Proof.
  intros HK. pose proof cs_ranges as (_ & _ & _ & _ & Rs).
  unfold rlk. cbn [render_lib upd_lib]. rewrite pes_unf.
  change (rng src_parse_range_S 0) with 0. change (rng src_parse_range_S 1) with 60.
  rewrite <- app_assoc. rewrite (p2 sp) by lia.
  destruct (frac_min fs) as [|c q] eqn:EF.
  - rewrite (frac_min_nil fs Hfs EF). change (0 =? 0) with true. cbv iota.
    cbn [app]. destruct K as [|x r]; [reflexivity|].
    destruct HK as (_ & _ & H3). specialize (H3 eq_refl).
    destruct (Z.eqb_spec x 46) as [C|_]; [contradiction|]. reflexivity.
  - assert (N : fs <> 0) by (intros ->; rewrite frac_min_0 in EF; discriminate).
    destruct (subsec_roundtrip_lemma fs K Hfs ltac:(eapply hd_ndh; [|exact HK]; reflexivity)) as [_ R]. specialize (R N).
    rewrite EF in R. cbn [app] in R |- *. change (46 =? 46) with true. cbv iota.
    rewrite R. cbn [bind]. destruct (Z.eqb_spec fs 0) as [|_]; [contradiction|]. reflexivity.
Qed.

Lemma pef_digits ds K s : forallb is_digit ds = true -> ds <> [] -> no_digit_head' K ->
  parse_ext_frac (ds ++ K) s = OK (Some (K, set_subsec s (sub_val ds))).
Proof.
  intros D N HK. unfold parse_ext_frac.
  destruct ds as [|c q]; [congruence|].
  assert (Hc : is_digit c = true) by (cbn [forallb] in D; apply andb_true_iff in D; tauto).
  cbn [app]. rewrite Hc. change (c :: q ++ K) with ((c :: q) ++ K).
  rewrite (parse_subseconds_digits _ K D N HK). reflexivity.
Qed.

Lemma pef_none K s : no_digit_head' K -> parse_ext_frac K s = OK (Some (K, s)).
Proof.
  intros HK. unfold parse_ext_frac. destruct K as [|x r]; [reflexivity|]. cbn in HK. rewrite HK. reflexivity.
Qed.

Lemma pef_num n K s : hd_ok (LEnf n) K ->
  parse_ext_frac (rlk (LEnf n) ++ K) s = OK (Some (K, upd_lib (LEnf n) s)).
Proof.
  intros HK. unfold rlk. cbn [render_lib upd_lib].
  destruct (Z.ltb_spec 0 n) as [Hn|Hn].
  - destruct (frac_digits_shape fs n Hfs ltac:(lia)) as [D N].
    apply pef_digits; auto. (eapply hd_ndh; [|exact HK]; reflexivity).
  - cbn [app]. apply pef_none. (eapply hd_ndh; [|exact HK]; reflexivity).
Qed.

Lemma pef_star K s : hd_ok LEsf K ->
  parse_ext_frac (rlk LEsf ++ K) s = OK (Some (K, upd_lib LEsf s)).
Proof.
  intros HK. unfold rlk. cbn [render_lib upd_lib].
  rewrite <- (sub_val_min fs Hfs) at 2.
  apply pef_digits; [| |(eapply hd_ndh; [|exact HK]; reflexivity)].
  - pose proof (frac_min_digits fs Hfs) as D. destruct (frac_min fs); [reflexivity|exact D].
  - destruct (frac_min fs); discriminate.
Qed.

Lemma scan_digits d r4 k r' K s : is_digit d = true ->
  (d = 52 -> match r4 with x :: _ => x <> 89 | [] => True end) ->
  cls_digits d r4 = C_lib k r' -> hd_ok k K ->
  scan_step sp (37 :: 69 :: d :: r4) (rlk k ++ K) s = OK (r', Some (K, upd_lib k s)).
Proof.
  intros Hd H52 E HK. rewrite step_E_digits by assumption.
  unfold cls_digits in E. rewrite Hd in E.
  destruct (take_digits_f (d :: r4)) as [ds r5] eqn:Et.
  destruct r5 as [|x r6]; [discriminate|].
  destruct (Z.eqb_spec x 83) as [->|N1].
  { destruct (Z.leb_spec (digits_val ds) 1024) as [L|L]; [|discriminate].
    injection E as <- <-.
    rewrite (parse_count d r4 ds 83 r6 Hd Et ltac:(lia) L). unfold sel_Sf.
    rewrite pes_num by exact HK. reflexivity. }
  destruct (Z.eqb_spec x 102) as [->|N2]; [|discriminate].
  destruct (Z.leb_spec (digits_val ds) 1024) as [L|L]; [|discriminate].
  injection E as <- <-.
  rewrite (parse_count d r4 ds 102 r6 Hd Et ltac:(lia) L). unfold sel_Sf.
  rewrite pef_num by exact HK. reflexivity.
Qed.

Lemma wday_u_rem : Z.rem (if wday_sun0 cs =? 0 then 7 else wday_sun0 cs) 7 = wday_sun0 cs.
Proof. pose proof (wday_sun0_range cs). destruct (Z.eqb_spec (wday_sun0 cs) 0) as [->|]; [reflexivity|]. lia. Qed.

Lemma week_U_range : 0 <= week_U cs <= 53.
Proof. apply (to_week_U cs Vcs Iy). Qed.
Lemma week_W_range : 0 <= week_W cs <= 53.
Proof. apply (to_week_W cs Vcs Iy). Qed.

Lemma scan_cls c r3 k r' K s : c <> 37 -> cls c r3 = C_lib k r' -> lib_ok k = true -> k <> Le -> hd_ok k K ->
  scan_step sp (37 :: c :: r3) (rlk k ++ K) s = OK (r', Some (K, upd_lib k s)).
Proof.
  intros N37 E Hok NLe HK. pose proof cs_ranges as (Rm & Rd & Rh & Rmi & Rs).
  pose proof off_wide as Ow. pose proof (wday_sun0_range cs) as Wr.
  unfold cls in E.
  destruct (simple_lib c) as [k0|] eqn:Es.
  - injection E as -> <-. unfold simple_lib in Es.
    destruct (Z.eqb_spec c 89) as [->|_].
    { injection Es as <-. rewrite step_Y. unfold rlk. cbn [render_lib upd_lib].
      rewrite (parseint_format64_lemma (fy cs) K _ Iy ltac:(eapply hd_ndh; [|exact HK]; reflexivity) (format64_0 _ Iy)). reflexivity. }
    destruct (Z.eqb_spec c 109) as [->|_].
    { injection Es as <-. rewrite step_m. unfold rlk. cbn [render_lib upd_lib]. rewrite (p2 sp) by lia. reflexivity. }
    destruct (Z.eqb_spec c 100) as [->|_].
    { injection Es as <-. rewrite step_d. unfold rlk. cbn [render_lib upd_lib]. rewrite (p2 sp) by lia. reflexivity. }
    destruct (Z.eqb_spec c 101) as [->|_]. { injection Es as <-. congruence. }
    destruct (Z.eqb_spec c 85) as [->|_].
    { injection Es as <-. rewrite step_U. unfold rlk. cbn [render_lib upd_lib].
      pose proof week_U_range as B. unfold week_U in *.
      rewrite parse_two_w0 by (try lia; (eapply hd_ndh; [|exact HK]; reflexivity)). reflexivity. }
    destruct (Z.eqb_spec c 117) as [->|_].
    { injection Es as <-. rewrite step_u. unfold rlk. cbn [render_lib upd_lib].
      rewrite parse_small by (try (eapply hd_ndh; [|exact HK]; reflexivity); destruct (wday_sun0 cs =? 0) eqn:E0; lia).
      rewrite wday_u_rem. reflexivity. }
    destruct (Z.eqb_spec c 87) as [->|_].
    { injection Es as <-. rewrite step_W. unfold rlk. cbn [render_lib upd_lib].
      pose proof week_W_range as B. unfold week_W in *.
      rewrite parse_two_w0 by (try lia; (eapply hd_ndh; [|exact HK]; reflexivity)). reflexivity. }
    destruct (Z.eqb_spec c 119) as [->|_].
    { injection Es as <-. rewrite step_w. unfold rlk. cbn [render_lib upd_lib].
      rewrite parse_small by (try (eapply hd_ndh; [|exact HK]; reflexivity); lia). reflexivity. }
    destruct (Z.eqb_spec c 72) as [->|_].
    { injection Es as <-. rewrite step_H. unfold rlk. cbn [render_lib upd_lib]. rewrite (p2 sp) by lia. reflexivity. }
    destruct (Z.eqb_spec c 77) as [->|_].
    { injection Es as <-. rewrite step_M. unfold rlk. cbn [render_lib upd_lib]. rewrite (p2 sp) by lia. reflexivity. }
    destruct (Z.eqb_spec c 83) as [->|_].
    { injection Es as <-. rewrite step_S. unfold rlk. cbn [render_lib upd_lib]. rewrite (p2 sp) by lia. reflexivity. }
    destruct (Z.eqb_spec c 122) as [->|_].
    { injection Es as <-. rewrite step_z. unfold rlk. cbn [render_lib upd_lib].
      destruct (parseoffset_formatoffset_minutes_lemma off K _ [] 0 Hoff (or_introl (conj eq_refl eq_refl))
                  (hd_off0 K HK) (format_offset_z off Ow)) as (off' & P & E1 & _).
      rewrite P, E1. reflexivity. }
    destruct (Z.eqb_spec c 90) as [->|_]. { injection Es as <-. discriminate. }
    destruct (Z.eqb_spec c 115) as [->|_].
    { injection Es as <-. rewrite step_s. unfold rlk. cbn [render_lib upd_lib].
      rewrite (parseint_format64_lemma unix K _ Iu ltac:(eapply hd_ndh; [|exact HK]; reflexivity) (format64_0 _ Iu)). reflexivity. }
    discriminate.
  - destruct (Z.eqb_spec c 58) as [->|N58].
    { unfold cls_colon in E.
      destruct r3 as [|x r4]; [discriminate|].
      destruct (Z.eqb_spec x 122) as [->|_].
      { injection E as <- <-. rewrite step_cz. unfold rlk. cbn [render_lib upd_lib].
        destruct (parseoffset_formatoffset_minutes_lemma off K _ [58] 58 Hoff (or_intror (conj eq_refl eq_refl))
                    ltac:(eapply hd_off58; [|exact HK]; reflexivity) (format_offset_cz off Ow)) as (off' & P & E1 & _).
        rewrite P, E1. reflexivity. }
      destruct (Z.eqb_spec x 58) as [->|_]; [|discriminate].
      destruct r4 as [|y r5]; [discriminate|].
      destruct (Z.eqb_spec y 122) as [->|_].
      { injection E as <- <-. rewrite step_ccz. unfold rlk. cbn [render_lib upd_lib].
        rewrite (parseoffset_formatoffset_full_lemma off K _ Hoff ltac:(eapply hd_off58; [|exact HK]; reflexivity) (format_offset_ccz off Ow)).
        reflexivity. }
      destruct (Z.eqb_spec y 58) as [->|_]; [|discriminate].
      destruct r5 as [|z r6]; [discriminate|].
      destruct (Z.eqb_spec z 122) as [->|_]; [|discriminate].
      injection E as <- <-. rewrite step_cccz. unfold rlk. cbn [render_lib upd_lib].
      rewrite (parseoffset_cccz off K Hoff ltac:(eapply hd_off58; [|exact HK]; reflexivity)). reflexivity. }
    destruct (Z.eqb_spec c 69) as [->|N69]; [|discriminate].
    unfold cls_E in E.
    destruct r3 as [|d r4]; [discriminate|].
    destruct (Z.eqb_spec d 84) as [->|N84].
    { injection E as <- <-. unfold rlk. cbn [render_lib upd_lib app]. apply step_ET. reflexivity. }
    destruct (Z.eqb_spec d 122) as [->|N122].
    { injection E as <- <-. rewrite step_Ecz. unfold rlk. cbn [render_lib upd_lib].
      destruct (parseoffset_formatoffset_minutes_lemma off K _ [58] 58 Hoff (or_intror (conj eq_refl eq_refl))
                  ltac:(eapply hd_off58; [|exact HK]; reflexivity) (format_offset_cz off Ow)) as (off' & P & E1 & _).
      rewrite P, E1. reflexivity. }
    destruct (Z.eqb_spec d 42) as [->|N42].
    { destruct r4 as [|x r5]; [discriminate|].
      destruct (Z.eqb_spec x 122) as [->|_].
      { injection E as <- <-. rewrite step_Ez. unfold rlk. cbn [render_lib upd_lib].
        rewrite (parseoffset_formatoffset_full_lemma off K _ Hoff ltac:(eapply hd_off58; [|exact HK]; reflexivity) (format_offset_ccz off Ow)).
        reflexivity. }
      destruct (Z.eqb_spec x 83) as [->|_].
      { injection E as <- <-. rewrite step_ES. rewrite pes_star by exact HK. reflexivity. }
      destruct (Z.eqb_spec x 102) as [->|_]; [|discriminate].
      injection E as <- <-. rewrite step_Esf. rewrite pef_star by exact HK. reflexivity. }
    assert (Hdig : forall k' r'', cls_digits d r4 = C_lib k' r'' -> is_digit d = true).
    { intros k' r'' H. unfold cls_digits in H. destruct (is_digit d); [reflexivity|discriminate]. }
    destruct (Z.eqb_spec d 52) as [->|N52].
    { destruct r4 as [|x r5].
      - apply scan_digits; auto.
      - destruct (Z.eqb_spec x 89) as [->|N89].
        + injection E as <- <-. rewrite step_E4Y. unfold rlk. cbn [render_lib upd_lib].
          cbn [lib_ok] in Hok. apply andb_true_iff in Hok. destruct Hok as [H1 H2].
          destruct (parse_E4Y (fy cs) K ltac:(lia)) as [P L].
          rewrite P. rewrite app_length, L.
          replace (Nat.eqb (4 + length K) (length K + 4)) with true by (symmetry; apply Nat.eqb_eq; lia).
          reflexivity.
        + apply scan_digits; auto. }
    apply scan_digits; eauto. intros C; contradiction.
Qed.

(* %e: the blank of a one-digit day may already have been skipped *)
Lemma scan_Le f K s D : hd_ok Le K ->
  D = rlk Le ++ K \/ D = skip_space (rlk Le ++ K) ->
  scan_step sp (37 :: 101 :: f) D s = OK (f, Some (K, upd_lib Le s)).
Proof.
  intros HK HD. pose proof cs_ranges as (_ & Rd & _).
  assert (NK : no_digit_head' K) by (eapply hd_ndh; [|exact HK]; reflexivity).
  rewrite step_e. unfold rlk in HD. cbn [render_lib] in HD. rewrite Le_render in HD by lia.
  cbn [upd_lib].
  destruct (Z.ltb_spec (fd cs) 10) as [L|L].
  - assert (Sp : is_space (48 + fd cs) = false) by (unfold is_space; lia).
    destruct HD as [->| ->].
    + cbn [app tl]. change (32 =? 32) with true. cbv iota. rewrite parse_w1 by lia. reflexivity.
    + cbn [app skip_space]. change (is_space 32) with true. cbv iota. rewrite Sp.
      replace (48 + fd cs =? 32) with false by lia.
      rewrite parse_w2_one by (auto; lia). reflexivity.
  - assert (Sp : is_space (48 + fd cs / 10) = false) by (unfold is_space; lia).
    assert (ED : D = dec2 (fd cs) ++ K).
    { rewrite dec2_eq' by lia. destruct HD as [->| ->]; [reflexivity|]. cbn [app skip_space]. rewrite Sp. reflexivity. }
    rewrite ED. rewrite dec2_eq' by lia. cbn [app].
    replace (48 + fd cs / 10 =? 32) with false by lia.
    pose proof (p2 sp (fd cs) K 1 31 ltac:(lia) ltac:(lia) ltac:(lia)) as P.
    rewrite dec2_eq' in P by lia. cbn [app] in P. rewrite P. reflexivity.
Qed.

Lemma cls_digits_notLe d r4 r' : cls_digits d r4 = C_lib Le r' -> False.
Proof.
  unfold cls_digits. destruct (is_digit d); [|discriminate].
  destruct (take_digits_f (d :: r4)) as [ds r5]. destruct r5 as [|x r6]; [discriminate|].
  destruct (x =? 83); [destruct (digits_val ds <=? 1024); discriminate|].
  destruct (x =? 102); [destruct (digits_val ds <=? 1024); discriminate|]. discriminate.
Qed.

Lemma cls_Le c r3 r' : cls c r3 = C_lib Le r' -> c = 101 /\ r' = r3.
Proof.
  unfold cls. destruct (simple_lib c) as [k0|] eqn:Es.
  - intros [= -> <-]. split; [|reflexivity]. unfold simple_lib in Es.
    repeat match type of Es with (if ?x =? ?n then _ else _) = Some _ =>
      destruct (Z.eqb_spec x n); [try discriminate; try assumption|] end.
    discriminate.
  - intros H. exfalso. destruct (c =? 58).
    { unfold cls_colon in H.
      destruct r3 as [|x r4]; [discriminate|].
      destruct (x =? 122); [discriminate|]. destruct (x =? 58); [|discriminate].
      destruct r4 as [|y r5]; [discriminate|].
      destruct (y =? 122); [discriminate|]. destruct (y =? 58); [|discriminate].
      destruct r5 as [|z r6]; [discriminate|].
      destruct (z =? 122); discriminate. }
    destruct (c =? 69); [|discriminate].
    unfold cls_E in H. destruct r3 as [|d r4]; [discriminate|].
    destruct (d =? 84); [discriminate|].
    destruct (d =? 122); [discriminate|].
    destruct (d =? 42).
    { destruct r4 as [|x r5]; [discriminate|].
      destruct (x =? 122); [discriminate|].
      destruct (x =? 83); [discriminate|].
      destruct (x =? 102); discriminate. }
    destruct (d =? 52).
    { destruct r4 as [|x r5]; [eapply cls_digits_notLe; eauto|].
      destruct (x =? 89); [discriminate|]. eapply cls_digits_notLe; eauto. }
    eapply cls_digits_notLe; eauto.
Qed.

(* ================================================================== *)
(* Shape of the renderings: no NUL, no white space, first byte         *)

Definition plainb (x : Z) : bool :=
  is_digit x || (x =? 45) || (x =? 43) || (x =? 58) || (x =? 46) || (x =? 84).

Lemma plain_nz x : plainb x = true -> nzb x = true /\ is_space x = false.
Proof.
  unfold plainb, nzb, is_space, is_digit. intros H.
  assert (48 <= x <= 57 \/ x = 45 \/ x = 43 \/ x = 58 \/ x = 46 \/ x = 84) by lia.
  split; lia.
Qed.

Lemma digits_plain l : forallb is_digit l = true -> forallb plainb l = true.
Proof.
  induction l as [|c r IH]; intros H; [reflexivity|].
  cbn [forallb] in *. apply andb_true_iff in H. destruct H as [H1 H2].
  rewrite IH by exact H2. unfold plainb. rewrite H1. reflexivity.
Qed.

Lemma dec2_plain v : 0 <= v <= 99 -> forallb plainb (dec2 v) = true.
Proof.
  intros H. rewrite dec2_eq' by lia. apply digits_plain. cbn [forallb]. rewrite !is_digit_48 by lia. reflexivity.
Qed.

Lemma dec_plain v : int64 v ->
  exists x tl, dec v = x :: tl /\ forallb plainb (x :: tl) = true.
Proof.
  intros H. unfold int64, min64, max64 in H. unfold dec.
  destruct (Z.ltb_spec v 0) as [N|N].
  - destruct (dec_digits_shape (- v) ltac:(lia)) as (c & r & E & D).
    exists 45, (dec_digits (- v)). split; [reflexivity|].
    cbn [forallb]. change (plainb 45) with true. cbn [andb]. rewrite E. apply digits_plain. exact D.
  - destruct (dec_digits_shape v ltac:(lia)) as (c & r & E & D).
    exists c, r. split; [exact E|]. apply digits_plain. exact D.
Qed.

Lemma dec_width4_plain y : -999 <= y <= 9999 ->
  exists x tl, dec_width 4 y = x :: tl /\ forallb plainb (x :: tl) = true.
Proof.
  intros Hy. unfold dec_width. destruct (Z.ltb_spec y 0) as [N|N].
  - change (4 - 1)%nat with 3%nat.
    destruct (pad_digits 3 (- y) ltac:(lia) ltac:(change (10 ^ Z.of_nat 3) with 1000; lia)) as (L & D & V).
    eexists _, _. split; [reflexivity|]. cbn [forallb]. change (plainb 45) with true. cbn [andb].
    apply digits_plain. exact D.
  - destruct (pad_digits 4 y ltac:(lia) ltac:(change (10 ^ Z.of_nat 4) with 10000; lia)) as (L & D & V).
    destruct (pad_left 4 48 (dec_digits y)) as [|x tl]; [discriminate|].
    exists x, tl. split; [reflexivity|]. apply digits_plain. exact D.
Qed.

Lemma off_shape sep a b : sep = [] \/ sep = [58] ->
  exists x tl, render_offset off sep a b = x :: tl /\ (x = 43 \/ x = 45) /\ forallb plainb (x :: tl) = true.
Proof.
  intros Hsep. assert (Ha : 0 <= Z.abs off < 86400) by lia.
  assert (Ps : forallb plainb sep = true) by (destruct Hsep as [->| ->]; reflexivity).
  unfold render_offset, off_parts.
  set (sg := if off <? 0 then 45 else 43).
  assert (Hsg : sg = 43 \/ sg = 45) by (subst sg; destruct (off <? 0); auto).
  assert (Psg : forall z, z = 43 \/ z = 45 -> plainb z = true) by (intros z [->| ->]; reflexivity).
  set (hh := Z.abs off / 3600). set (mm := (Z.abs off / 60) mod 60). set (ss := Z.abs off mod 60).
  assert (0 <= hh <= 23) by (subst hh; lia). assert (0 <= mm <= 59) by (subst mm; lia).
  assert (0 <= ss <= 59) by (subst ss; lia).
  destruct b.
  - eexists _, _. split; [reflexivity|]. split; [exact Hsg|].
    cbn [forallb]. rewrite (Psg _ Hsg). cbn [andb].
    rewrite !forallb_app, dec2_plain by lia.
    destruct ((mm =? 0) && (ss =? 0)); destruct (ss =? 0); cbn [forallb andb];
      rewrite ?forallb_app, ?Ps, ?dec2_plain by lia; reflexivity.
  - destruct a.
    + eexists _, _. split; [reflexivity|]. split; [exact Hsg|].
      cbn [forallb]. rewrite (Psg _ Hsg). cbn [andb].
      rewrite !forallb_app, !dec2_plain, !Ps by lia. reflexivity.
    + set (sg2 := if (hh =? 0) && (mm =? 0) then 43 else sg).
      assert (Hsg2 : sg2 = 43 \/ sg2 = 45) by (subst sg2; destruct ((hh =? 0) && (mm =? 0)); auto).
      eexists _, _. split; [reflexivity|]. split; [exact Hsg2|].
      cbn [forallb]. rewrite (Psg _ Hsg2). cbn [andb].
      rewrite !forallb_app, !dec2_plain, !Ps by lia. reflexivity.
Qed.

Lemma lib_plain k : lib_ok k = true -> k <> Le -> forallb plainb (rlk k) = true.
Proof.
  intros Hok NLe. pose proof cs_ranges as (Rm & Rd & Rh & Rmi & Rs).
  pose proof week_U_range as BU. pose proof week_W_range as BW. unfold week_U, week_W in *.
  pose proof (wday_sun0_range cs) as Wr.
  assert (Hoffs : forall sep a b, sep = [] \/ sep = [58] -> forallb plainb (render_offset off sep a b) = true).
  { intros sep a b Hs. destruct (off_shape sep a b Hs) as (x & tl & -> & _ & P). exact P. }
  assert (Hdec : forall v, int64 v -> forallb plainb (dec v) = true).
  { intros v Hv. destruct (dec_plain v Hv) as (x & tl & -> & P). exact P. }
  assert (Hsm : forall v, 0 <= v <= 9 -> forallb plainb (dec v) = true).
  { intros v Hv. apply Hdec. unfold int64, min64, max64. lia. }
  destruct k; unfold rlk; cbn [render_lib]; try discriminate; try (exfalso; apply NLe; reflexivity);
    try (apply dec2_plain; lia); try (apply Hoffs; auto); try (apply Hdec; assumption).
  - apply Hsm. destruct (wday_sun0 cs =? 0); lia.
  - apply Hsm. lia.
  - (* %E#S *)
    rewrite forallb_app, dec2_plain by lia. destruct (Z.ltb_spec 0 n); [|reflexivity].
    cbn [forallb andb]. change (plainb 46) with true. cbn [andb].
    apply digits_plain. apply frac_digits_shape; [exact Hfs|lia].
  - (* %E*S *)
    rewrite forallb_app, dec2_plain by lia. pose proof (frac_min_digits fs Hfs) as D.
    destruct (frac_min fs); [reflexivity|]. cbn [forallb andb]. change (plainb 46) with true.
    apply digits_plain in D. exact D.
  - (* %E#f *)
    destruct (Z.ltb_spec 0 n); [|reflexivity]. apply digits_plain. apply frac_digits_shape; [exact Hfs|lia].
  - (* %E*f *)
    pose proof (frac_min_digits fs Hfs) as D. destruct (frac_min fs); [reflexivity|]. apply digits_plain. exact D.
  - (* %E4Y *)
    cbn [lib_ok] in Hok. apply andb_true_iff in Hok. destruct Hok as [H1 H2].
    destruct (dec_width4_plain (fy cs) ltac:(lia)) as (x & tl & -> & P). exact P.
  - reflexivity.
Qed.

(* the first byte: every rendering but "%E0f" has one; after a token that reads
   greedily only a non-digit may follow *)
Lemma lib_head k : lib_ok k = true ->
  match rlk k with
  | [] => exists n, k = LEnf n /\ n <= 0
  | x :: _ => starts_digit (FLib k) = false -> (x = 43 \/ x = 45 \/ x = 84)
  end.
Proof.
  intros Hok. pose proof cs_ranges as (Rm & Rd & Rh & Rmi & Rs).
  assert (Hoffs : forall sep a b, sep = [] \/ sep = [58] ->
            match render_offset off sep a b with [] => False | x :: _ => x = 43 \/ x = 45 \/ x = 84 end).
  { intros sep a b Hs. destruct (off_shape sep a b Hs) as (x & tl & -> & Hx & _). tauto. }
  assert (Hdec : forall v, int64 v -> match dec v with [] => False | _ :: _ => True end).
  { intros v Hv. destruct (dec_plain v Hv) as (x & tl & -> & P). exact I. }
  assert (Hd2 : forall v l, 0 <= v <= 99 -> match dec2 v ++ l with [] => False | _ :: _ => True end).
  { intros v l Hv. rewrite dec2_eq' by lia. exact I. }
  assert (I9 : forall v, 0 <= v <= 9 -> int64 v) by (intros; unfold int64, min64, max64; lia).
  pose proof (wday_sun0_range cs) as Wr.
  destruct k; unfold rlk; cbn [render_lib starts_digit]; try discriminate.
  all: try (rewrite Le_render by lia; destruct (fd cs <? 10); discriminate).
  all: try (match goal with |- match render_offset _ ?s ?a ?b with _ => _ end =>
              pose proof (Hoffs s a b ltac:(auto)) as X; destruct (render_offset off s a b); [contradiction|intros _; exact X] end).
  all: try (match goal with |- match dec2 ?v with _ => _ end =>
              pose proof (Hd2 v [] ltac:(first [lia | pose proof week_U_range; pose proof week_W_range; unfold week_U, week_W in *; lia])) as X;
              rewrite app_nil_r in X; destruct (dec2 v); [contradiction|discriminate] end).
  all: try (match goal with |- match dec ?v with _ => _ end =>
              pose proof (Hdec v ltac:(first [assumption | apply I9; destruct (wday_sun0 cs =? 0); lia])) as X;
              destruct (dec v); [contradiction|discriminate] end).
  - pose proof (Hd2 (fss cs) (if 0 <? n then 46 :: frac_digits fs n else []) ltac:(lia)) as X.
    destruct (dec2 (fss cs) ++ _); [contradiction|discriminate].
  - pose proof (Hd2 (fss cs) (match frac_min fs with [] => [] | d => 46 :: d end) ltac:(lia)) as X.
    destruct (dec2 (fss cs) ++ _); [contradiction|discriminate].
  - destruct (Z.ltb_spec 0 n) as [Hn|Hn].
    + destruct (frac_digits_shape fs n Hfs ltac:(lia)) as [_ N]. destruct (frac_digits fs n); [congruence|discriminate].
    + exists n. split; [reflexivity|lia].
  - destruct (frac_min fs); discriminate.
  - cbn [lib_ok] in Hok. apply andb_true_iff in Hok. destruct Hok as [H1 H2].
    destruct (dec_width4_plain (fy cs) ltac:(lia)) as (x & tl & -> & P). discriminate.
  - intros _. auto.
Qed.

Lemma Le_dec k : k = Le \/ k <> Le.
Proof. destruct k; try (right; discriminate). left; reflexivity. Qed.

Lemma Le_nz : forallb nzb (rlk Le) = true.
Proof.
  pose proof cs_ranges as (_ & Rd & _). unfold rlk. cbn [render_lib]. rewrite Le_render by lia.
  destruct (fd cs <? 10); cbn [forallb]; unfold nzb;
    repeat match goal with |- context [?a =? 0] => destruct (Z.eqb_spec a 0); [lia|] end; reflexivity.
Qed.

Lemma render_cons t l : render (t :: l) = RTk t ++ render l.
Proof. reflexivity. Qed.

Lemma render_nz l : forallb tok_ok l = true -> forallb nzb (render l) = true.
Proof.
  induction l as [|t l IH]; intros H; [reflexivity|].
  cbn [forallb] in H. apply andb_true_iff in H. destruct H as [H1 H2].
  rewrite render_cons, forallb_app, IH by exact H2. rewrite andb_true_r.
  destruct t as [c| |k|raw|raw]; try discriminate.
  - cbn. cbn in H1. rewrite H1. reflexivity.
  - reflexivity.
  - cbn [RTk render_tok]. destruct (Le_dec k) as [->|NLe]; [exact Le_nz|].
    pose proof (lib_plain k H1 NLe) as P. unfold rlk in P.
    set (R := render_lib k cs off abbr fs unix) in *. clearbody R.
    induction R as [|x R IHR]; [reflexivity|]. cbn [forallb] in *.
    apply andb_true_iff in P. destruct P as [P1 P2]. rewrite IHR by exact P2.
    destruct (plain_nz x P1) as [-> _]. reflexivity.
Qed.

Lemma e0f_tail t l : e0f_ok (t :: l) = true -> e0f_ok l = true.
Proof.
  destruct t as [c| |k|raw|raw]; try (intros H; exact H).
  destruct k; try (intros H; exact H).
  destruct l as [|[c| |k'|raw|raw] l']; try (intros H; exact H).
  cbn [e0f_ok]. intros H. apply andb_true_iff in H. tauto.
Qed.

Lemma sep_tail t l : separated (t :: l) = true -> separated l = true.
Proof.
  destruct l as [|b r]; [reflexivity|]. cbn [separated]. intros H.
  rewrite !andb_true_iff in H. tauto.
Qed.

(* a rendering begins with white space only when its first token is a white-space
   literal or a one-digit %e *)
Lemma render_nospace l : forallb tok_ok l = true -> separated l = true -> e0f_ok l = true ->
  match l with FLit c :: _ => is_space c = false | FLib Le :: _ => False | _ => True end ->
  skip_space (render l) = render l.
Proof.
  induction l as [|t l IH]; intros H S E Hh; [reflexivity|].
  cbn [forallb] in H. apply andb_true_iff in H. destruct H as [H1 H2].
  rewrite render_cons.
  destruct t as [c| |k|raw|raw]; try discriminate.
  - cbn [RTk render_tok app skip_space]. rewrite Hh. reflexivity.
  - reflexivity.
  - cbn [RTk render_tok].
    assert (NLe : k <> Le) by (intros ->; exact Hh).
    pose proof (lib_plain k H1 NLe) as P. pose proof (lib_head k H1) as Hd.
    unfold rlk in *. destruct (render_lib k cs off abbr fs unix) as [|x R].
    + destruct Hd as (n & -> & Hn). cbn [app]. apply IH; [exact H2|exact (sep_tail _ _ S)| |].
      * exact (e0f_tail _ _ E).
      * destruct l as [|[c| |k'|raw|raw] l']; try exact I.
        -- cbn [e0f_ok] in E. apply andb_true_iff in E. destruct E as [E _].
           replace (n <=? 0) with true in E by lia. cbn [andb negb] in E.
           destruct (is_space c); [discriminate|reflexivity].
        -- destruct k'; try exact I.
           cbn [separated] in S. rewrite !andb_true_iff in S. destruct S as (((S1 & _) & _) & _).
           cbn in S1. discriminate.
    + cbn [forallb] in P. apply andb_true_iff in P. destruct P as [P1 _].
      destruct (plain_nz x P1) as [_ Sx]. cbn [app skip_space]. rewrite Sx. reflexivity.
Qed.

(* what `separated` gives the scanner *)
Lemma hd_ok_nongreedy k K : greedy_lib k = false -> hd_ok k K.
Proof.
  intros G. destruct K as [|x r]; [exact I|]. cbn [hd_ok].
  split; [intros C; congruence|].
  split; intros C; destruct k; cbn [colon_lib dot_lib greedy_lib] in C, G; discriminate.
Qed.

Lemma hd_ok_sep k l : separated (FLib k :: l) = true -> forallb tok_ok l = true -> hd_ok k (render l).
Proof.
  intros S H.
  destruct (greedy_lib k) eqn:G; [|apply hd_ok_nongreedy; exact G].
  destruct l as [|b r]; [exact I|].
  cbn [forallb] in H. apply andb_true_iff in H. destruct H as [H1 H2].
  rewrite render_cons.
  assert (Sd : starts_digit b = false).
  { cbn [separated] in S. rewrite !andb_true_iff in S. destruct S as (((S1 & _) & _) & _).
    destruct k; cbn in G; try discriminate; cbn in S1; destruct (starts_digit b); try discriminate; reflexivity. }
  destruct b as [c| |kb|raw|raw]; try discriminate.
  - (* a literal *)
    cbn [RTk render_tok app hd_ok]. cbn [starts_digit] in Sd.
    split; [intros _; exact Sd|]. split.
    + intros C Hc. subst c. cbn [separated] in S. rewrite !andb_true_iff in S. destruct S as (((_ & S2) & _) & _).
      destruct k; cbn in C; try discriminate; cbn in S2; discriminate.
    + intros C Hc. subst c. cbn [separated] in S. rewrite !andb_true_iff in S. destruct S as (((_ & _) & S3) & _).
      destruct k; cbn in C; try discriminate; cbn in S3; discriminate.
  - cbn [RTk render_tok app hd_ok]. repeat split; intros; try reflexivity; discriminate.
  - cbn [RTk render_tok]. pose proof (lib_head kb H1) as Hd. unfold rlk in Hd.
    destruct (render_lib kb cs off abbr fs unix) as [|x R].
    + destruct Hd as (n & -> & _). discriminate.
    + specialize (Hd Sd). cbn [app hd_ok].
      repeat split; intros; destruct Hd as [->|[->| ->]]; try reflexivity; discriminate.
Qed.

(* ================================================================== *)
(* White space                                                         *)

Lemma skip_space_idem l : skip_space (skip_space l) = skip_space l.
Proof.
  induction l as [|c r IH]; [reflexivity|]. cbn [skip_space].
  destruct (is_space c) eqn:E; [exact IH|]. cbn [skip_space]. rewrite E. reflexivity.
Qed.

Lemma skip_space_split l : exists run, l = run ++ skip_space l /\ forallb is_space run = true.
Proof.
  induction l as [|c r IH]; [exists []; split; reflexivity|]. cbn [skip_space].
  destruct (is_space c) eqn:E.
  - destruct IH as (run & E1 & E2). exists (c :: run). cbn [app forallb]. rewrite E, E2. split; [f_equal; exact E1|reflexivity].
  - exists []. split; reflexivity.
Qed.

Lemma skip_app_run run R : forallb is_space run = true -> skip_space (run ++ R) = skip_space R.
Proof.
  induction run as [|c r IH]; intros H; [reflexivity|].
  cbn [forallb] in H. apply andb_true_iff in H. destruct H as [H1 H2].
  cbn [app skip_space]. rewrite H1. apply IH. exact H2.
Qed.

Lemma space_not_pct run : forallb is_space run = true -> forallb (fun c => negb (is_pct c)) run = true.
Proof.
  induction run as [|c r IH]; intros H; [reflexivity|].
  cbn [forallb] in *. apply andb_true_iff in H. destruct H as [H1 H2]. rewrite IH by exact H2.
  unfold is_space in H1. unfold is_pct. destruct (Z.eqb_spec c 37) as [->|]; [discriminate|reflexivity].
Qed.

Lemma render_lits run l : render (map FLit run ++ l) = run ++ render l.
Proof. induction run as [|c r IH]; [reflexivity|]. cbn [map app]. rewrite render_cons, IH. reflexivity. Qed.

Lemma fold_lits run l s : fold_left upd (map FLit run ++ l) s = fold_left upd l s.
Proof. induction run as [|c r IH]; [reflexivity|]. cbn [map app fold_left upd]. exact IH. Qed.

Lemma toks_drop run l :
  forallb tok_ok (map FLit run ++ l) = true -> separated (map FLit run ++ l) = true ->
  e0f_ok (map FLit run ++ l) = true ->
  forallb tok_ok l = true /\ separated l = true /\ e0f_ok l = true.
Proof.
  induction run as [|c r IH]; intros H1 H2 H3; [auto|].
  cbn [map app] in *. cbn [forallb] in H1. apply andb_true_iff in H1. destruct H1 as [_ H1].
  apply sep_tail in H2. apply e0f_tail in H3. auto.
Qed.

Lemma hd_bad_tok l : hd_bad l = true -> forallb tok_ok l = false.
Proof.
  destruct l as [|t l]; [discriminate|]. cbn [hd_bad forallb].
  destruct t; cbn [good tok_ok negb]; try discriminate; reflexivity.
Qed.

(* ================================================================== *)
(* The scanning loop over the whole format                             *)

Lemma scan_lex : forall n fmt fl s D, (length fmt < n)%nat -> (length fmt < fl)%nat ->
  forallb tok_ok (lex_fuel fl fmt) = true -> separated (lex_fuel fl fmt) = true ->
  e0f_ok (lex_fuel fl fmt) = true ->
  (D = render (lex_fuel fl fmt) \/ D = skip_space (render (lex_fuel fl fmt))) ->
  scan_loop sp n fmt D s = OK (Some ([], fold_left upd (lex_fuel fl fmt) s)).
Proof.
  induction n as [|n IH]; intros fmt fl s D Ln Lf Hok Hsep He0 HD; [lia|].
  destruct fmt as [|c0 f1].
  { rewrite lex_fuel_nil in *. destruct HD as [->| ->]; reflexivity. }
  destruct fl as [|f]; [lia|]. cbn [length] in Ln, Lf.
  destruct (Z.eqb_spec c0 37) as [->|N37].
  2:{ (* a literal byte *)
      rewrite lex_fuel_lit in * by exact N37.
      set (l1 := lex_fuel f f1) in *.
      pose proof Hok as Hok'. cbn [forallb] in Hok'. apply andb_true_iff in Hok'. destruct Hok' as [_ Hok1].
      pose proof (sep_tail _ _ Hsep) as Hsep1. pose proof (e0f_tail _ _ He0) as He1.
      rewrite render_cons in HD. cbn [RTk render_tok app] in HD.
      destruct (is_space c0) eqn:Esp.
      - rewrite scan_loop_S, step_space by exact Esp. cbn [bind].
        assert (ED : skip_space D = skip_space (render l1)).
        { destruct HD as [->| ->]; [|rewrite skip_space_idem]; cbn [skip_space]; rewrite Esp; reflexivity. }
        rewrite ED. clear ED HD.
        destruct (skip_space_split f1) as (run & Ef & Hrun).
        assert (Llen : length f1 = (length run + length (skip_space f1))%nat)
          by (rewrite Ef at 1; rewrite app_length; reflexivity).
        assert (El : l1 = map FLit run ++ lex_fuel (f - length run) (skip_space f1)).
        { unfold l1. rewrite Ef at 1. replace f with (length run + (f - length run))%nat at 1 by lia.
          apply lex_lits. apply space_not_pct. exact Hrun. }
        set (l2 := lex_fuel (f - length run) (skip_space f1)) in *.
        rewrite El in Hok1, Hsep1, He1.
        destruct (toks_drop run l2 Hok1 Hsep1 He1) as (Hok2 & Hsep2 & He2).
        cbn [fold_left upd]. rewrite El, fold_lits, render_lits, skip_app_run by exact Hrun.
        apply IH; auto; lia.
      - assert (ED : D = c0 :: render l1).
        { destruct HD as [->| ->]; [reflexivity|]. cbn [skip_space]. rewrite Esp. reflexivity. }
        rewrite ED. rewrite loop_lit by assumption. cbn [fold_left upd].
        apply IH; auto; lia. }
  destruct f1 as [|c r3].
  { rewrite lex_fuel_pct_end in Hok. discriminate. }
  destruct (Z.eqb_spec c 37) as [->|M37].
  { (* "%%" *)
    rewrite lex_fuel_pctpct in *. set (l1 := lex_fuel f r3) in *.
    pose proof Hok as Hok'. cbn [forallb] in Hok'. apply andb_true_iff in Hok'. destruct Hok' as [_ Hok1].
    pose proof (sep_tail _ _ Hsep) as Hsep1. pose proof (e0f_tail _ _ He0) as He1.
    rewrite render_cons in HD. cbn [RTk render_tok app] in HD.
    assert (ED : D = 37 :: render l1) by (destruct HD as [->| ->]; reflexivity).
    rewrite ED, scan_loop_S, step_pct. cbn [bind fold_left upd].
    cbn [length] in Ln, Lf. apply IH; auto; lia. }
  (* a specifier *)
  rewrite lex_fuel_pct in *.
  pose proof (lex_pct_cls (lex_fuel f) c r3 M37) as Hc.
  destruct (cls c r3) as [k r'|] eqn:Ecls.
  2:{ apply hd_bad_tok in Hc. congruence. }
  rewrite Hc in *. set (l1 := lex_fuel f r') in *.
  pose proof Hok as Hok'. cbn [forallb] in Hok'. apply andb_true_iff in Hok'. destruct Hok' as [Hk Hok1].
  pose proof (sep_tail _ _ Hsep) as Hsep1. pose proof (e0f_tail _ _ He0) as He1.
  destruct (Le_dec k) as [EkLe|NLe].
  { subst k. destruct (cls_Le _ _ _ Ecls) as [-> ->].
    rewrite render_cons in HD. cbn [RTk render_tok] in HD.
    change (render_lib Le cs off abbr fs unix) with (rlk Le) in HD.
    rewrite scan_loop_S.
    rewrite (scan_Le r3 (render l1) s D (hd_ok_sep Le l1 Hsep Hok1) HD).
    cbn [bind fold_left upd]. cbn [length] in Ln, Lf. apply IH; auto; lia. }
  assert (ED : D = render (FLib k :: l1)).
  { destruct HD as [->| ->]; [reflexivity|]. apply render_nospace; auto.
    destruct k; try exact I. congruence. }
  rewrite ED, render_cons. cbn [RTk render_tok]. fold (rlk k).
  rewrite scan_loop_S.
  rewrite (scan_cls c r3 k r' (render l1) s M37 Ecls Hk NLe (hd_ok_sep k l1 Hsep Hok1)).
  cbn [bind fold_left upd].
  pose proof (cls_len _ _ _ _ Ecls) as Hlen. cbn [length] in Ln, Lf.
  apply IH; auto; lia.
Qed.

(* ================================================================== *)
(* literal bytes of a NUL-free format are not NUL                       *)

Lemma cls_digits_nz d r4 k r' : cls_digits d r4 = C_lib k r' -> forallb nzb (d :: r4) = true -> forallb nzb r' = true.
Proof.
  unfold cls_digits. destruct (is_digit d); [|discriminate].
  destruct (take_digits_f (d :: r4)) as [ds r5] eqn:Et.
  pose proof (take_digits_spec _ _ _ Et) as (El & _ & _). rewrite El.
  intros H Hn. rewrite forallb_app in Hn. apply andb_true_iff in Hn. destruct Hn as [_ Hn].
  destruct r5 as [|x r6]; [discriminate|]. cbn [forallb] in Hn. apply andb_true_iff in Hn. destruct Hn as [_ Hn].
  destruct (x =? 83); [destruct (digits_val ds <=? 1024); [|discriminate]; injection H as _ <-; exact Hn|].
  destruct (x =? 102); [destruct (digits_val ds <=? 1024); [|discriminate]; injection H as _ <-; exact Hn|].
  discriminate.
Qed.

Lemma cls_nz c r3 k r' : cls c r3 = C_lib k r' -> forallb nzb r3 = true -> forallb nzb r' = true.
Proof.
  unfold cls. destruct (simple_lib c); [intros [= _ <-]; auto|].
  assert (T : forall x l, forallb nzb (x :: l) = true -> forallb nzb l = true).
  { intros x l H. cbn [forallb] in H. apply andb_true_iff in H. tauto. }
  destruct (c =? 58).
  { unfold cls_colon.
    destruct r3 as [|x r4]; [discriminate|].
    destruct (x =? 122); [intros [= _ <-] H; eauto|]. destruct (x =? 58); [|discriminate].
    destruct r4 as [|y r5]; [discriminate|].
    destruct (y =? 122); [intros [= _ <-] H; eauto|]. destruct (y =? 58); [|discriminate].
    destruct r5 as [|z r6]; [discriminate|].
    destruct (z =? 122); [intros [= _ <-] H; eauto|discriminate]. }
  destruct (c =? 69); [|discriminate].
  unfold cls_E. destruct r3 as [|d r4]; [discriminate|].
  destruct (d =? 84); [intros [= _ <-] H; eauto|].
  destruct (d =? 122); [intros [= _ <-] H; eauto|].
  destruct (d =? 42).
  { destruct r4 as [|x r5]; [discriminate|].
    destruct (x =? 122); [intros [= _ <-] H; eauto|].
    destruct (x =? 83); [intros [= _ <-] H; eauto|].
    destruct (x =? 102); [intros [= _ <-] H; eauto|discriminate]. }
  destruct (d =? 52).
  { destruct r4 as [|x r5]; [apply cls_digits_nz|].
    destruct (x =? 89); [intros [= _ <-] H; eauto|]. apply cls_digits_nz. }
  apply cls_digits_nz.
Qed.

Definition lit_nz (t : ftok) : bool := match t with FLit c => nzb c | _ => true end.

Lemma lex_lits_nz : forall n fmt fl, (length fmt < n)%nat -> (length fmt < fl)%nat ->
  forallb nzb fmt = true -> forallb good (lex_fuel fl fmt) = true ->
  forallb lit_nz (lex_fuel fl fmt) = true.
Proof.
  induction n as [|n IH]; intros fmt fl Ln Lf Hnz Hg; [lia|].
  destruct fmt as [|c0 f1]; [rewrite lex_fuel_nil; reflexivity|].
  destruct fl as [|f]; [lia|]. cbn [length] in Ln, Lf.
  cbn [forallb] in Hnz. apply andb_true_iff in Hnz. destruct Hnz as [Hc0 Hnz].
  destruct (Z.eqb_spec c0 37) as [->|N37].
  2:{ rewrite lex_fuel_lit in * by exact N37. cbn [forallb] in *. apply andb_true_iff in Hg. destruct Hg as [_ Hg].
      cbn [lit_nz]. rewrite Hc0. apply IH; auto; lia. }
  destruct f1 as [|c r3]; [rewrite lex_fuel_pct_end; reflexivity|].
  cbn [forallb] in Hnz. apply andb_true_iff in Hnz. destruct Hnz as [Hc Hnz].
  destruct (Z.eqb_spec c 37) as [->|M37].
  { rewrite lex_fuel_pctpct in *. cbn [forallb] in *. cbn [length] in *. apply IH; auto; lia. }
  rewrite lex_fuel_pct in *.
  pose proof (lex_pct_cls (lex_fuel f) c r3 M37) as Hcl.
  destruct (cls c r3) as [k r'|] eqn:Ecls.
  2:{ apply hd_bad_not_good in Hcl. congruence. }
  rewrite Hcl in *. cbn [forallb] in *. cbn [lit_nz].
  pose proof (cls_len _ _ _ _ Ecls) as Hlen. cbn [length] in *.
  apply IH; auto; try lia. eapply cls_nz; eauto.
Qed.

(* ================================================================== *)
(* The final state: who wrote each field last                          *)

Definition lastw {A} (w : ftok -> option A) (l : list ftok) : option A :=
  fold_left (fun acc t => match w t with Some v => Some v | None => acc end) l None.
Definition last_tok (wr : ftok -> bool) (l : list ftok) : option ftok :=
  lastw (fun t => if wr t then Some t else None) l.

Lemma lastw_acc {A} (w : ftok -> option A) l : forall acc,
  fold_left (fun acc t => match w t with Some v => Some v | None => acc end) l acc =
  match lastw w l with Some v => Some v | None => acc end.
Proof.
  unfold lastw. induction l as [|t l IH]; intros acc; [reflexivity|].
  cbn [fold_left]. rewrite IH. rewrite (IH (match w t with Some v => Some v | None => None end)).
  destruct (fold_left _ l None); [reflexivity|]. destruct (w t); reflexivity.
Qed.

Lemma lastw_cons {A} (w : ftok -> option A) t l :
  lastw w (t :: l) = match lastw w l with Some v => Some v | None => w t end.
Proof.
  unfold lastw at 1. cbn [fold_left]. rewrite lastw_acc. destruct (lastw w l); [reflexivity|].
  destruct (w t); reflexivity.
Qed.

Lemma fold_keep {A} (proj : pstate -> A) (wr : ftok -> bool) :
  (forall t s, wr t = false -> proj (upd s t) = proj s) ->
  forall l s, last_tok wr l = None -> proj (fold_left upd l s) = proj s.
Proof.
  intros H. induction l as [|t l IH]; intros s Hl; [reflexivity|].
  unfold last_tok in *. rewrite lastw_cons in Hl. cbn [fold_left].
  destruct (lastw _ l) eqn:E; [discriminate|].
  destruct (wr t) eqn:Ew; [discriminate|]. rewrite IH by reflexivity. apply H. exact Ew.
Qed.

Lemma fold_lastP {A} (proj : pstate -> A) (wr fullp : ftok -> bool) (Inv : pstate -> Prop) (V : A) :
  (forall t s, Inv s -> Inv (upd s t)) ->
  (forall t s, wr t = false -> proj (upd s t) = proj s) ->
  (forall t s, Inv s -> wr t = true -> fullp t = true -> proj (upd s t) = V) ->
  forall l s, Inv s ->
  match last_tok wr l with Some t => fullp t | None => false end = true ->
  proj (fold_left upd l s) = V.
Proof.
  intros HI Hk Hw. induction l as [|t l IH]; intros s Hs Hl; [discriminate|].
  unfold last_tok in *. rewrite lastw_cons in Hl. cbn [fold_left].
  destruct (lastw (fun t0 => if wr t0 then Some t0 else None) l) as [t'|] eqn:E.
  - apply IH; [apply HI; exact Hs|exact Hl].
  - destruct (wr t) eqn:Ew; [|discriminate].
    rewrite (fold_keep proj wr Hk l _ E). apply Hw; assumption.
Qed.

Lemma fold_set {A} (proj : pstate -> A) (V : A) (sets : ftok -> bool) :
  (forall t s, proj (upd s t) = if sets t then V else proj s) ->
  forall l s, proj (fold_left upd l s) = if existsb sets l then V else proj s.
Proof.
  intros H. induction l as [|t l IH]; intros s; [reflexivity|].
  cbn [fold_left existsb]. rewrite IH, H. destruct (sets t), (existsb sets l); reflexivity.
Qed.

Lemma fold_same {A} (proj : pstate -> A) :
  (forall t s, proj (upd s t) = proj s) -> forall l s, proj (fold_left upd l s) = proj s.
Proof.
  intros H. induction l as [|t l IH]; intros s; [reflexivity|]. cbn [fold_left]. rewrite IH. apply H.
Qed.

(* ---- the individual fields ---- *)
Definition libp (p : libspec -> bool) (t : ftok) : bool := match t with FLib k => p k | _ => false end.

Definition is_Ls k := match k with Ls => true | _ => false end.
Definition is_year k := match k with LY | LE4Y => true | _ => false end.
Definition sets_sec k := match k with LS | LEsS | LEnS _ => true | _ => false end.
Definition is_LM k := match k with LM => true | _ => false end.
Definition is_LH k := match k with LH => true | _ => false end.
Definition is_Ld k := match k with Ld | Le => true | _ => false end.
Definition is_Lm k := match k with Lm => true | _ => false end.
Definition is_wday k := match k with Lu | Lw => true | _ => false end.
Definition is_offset k := match k with Lz | Lcz | Lccz | Lcccz | LEz | LEsz => true | _ => false end.
Definition full_offset k := match k with Lccz | Lcccz | LEsz => true | _ => false end.
Definition writes_subsec k := match k with LEsS | LEsf => true | LEnS n | LEnf n => 0 <? n | _ => false end.
Definition full_subsec k := match k with LEsS | LEsf => true | LEnS n | LEnf n => 15 <=? n | _ => false end.
Definition date_writer k := match k with LU | LW | Lm | Ld | Le => true | _ => false end.

Ltac upd_cases :=
  let t0 := fresh "t" in let s0 := fresh "s" in
  intros t0 s0; destruct t0 as [?c| |?k|?raw|?raw]; try reflexivity;
  match goal with k : libspec |- _ => destruct k end; try reflexivity;
  cbn [upd upd_lib libp is_Ls is_year sets_sec is_LM is_LH is_Ld is_Lm is_wday is_offset];
  repeat match goal with |- context [if ?b then _ else _] => destruct b end; reflexivity.

Lemma fin_saw_s l s : ps_saw_s (fold_left upd l s) = if existsb (libp is_Ls) l then true else ps_saw_s s.
Proof. apply (fold_set ps_saw_s true (libp is_Ls)). upd_cases. Qed.
Lemma fin_percent_s l s : ps_percent_s (fold_left upd l s) = if existsb (libp is_Ls) l then unix else ps_percent_s s.
Proof. apply (fold_set ps_percent_s unix (libp is_Ls)). upd_cases. Qed.
Lemma fin_saw_year l s : ps_saw_year (fold_left upd l s) = if existsb (libp is_year) l then true else ps_saw_year s.
Proof. apply (fold_set ps_saw_year true (libp is_year)). upd_cases. Qed.
Lemma fin_year l s : ps_year (fold_left upd l s) = if existsb (libp is_year) l then fy cs else ps_year s.
Proof. apply (fold_set ps_year (fy cs) (libp is_year)). upd_cases. Qed.
Lemma fin_sec l s : tm_sec (ps_tm (fold_left upd l s)) = if existsb (libp sets_sec) l then fss cs else tm_sec (ps_tm s).
Proof. apply (fold_set (fun s => tm_sec (ps_tm s)) (fss cs) (libp sets_sec)). upd_cases. Qed.
Lemma fin_min l s : tm_min (ps_tm (fold_left upd l s)) = if existsb (libp is_LM) l then fmm cs else tm_min (ps_tm s).
Proof. apply (fold_set (fun s => tm_min (ps_tm s)) (fmm cs) (libp is_LM)). upd_cases. Qed.
Lemma fin_hour l s : tm_hour (ps_tm (fold_left upd l s)) = if existsb (libp is_LH) l then fhh cs else tm_hour (ps_tm s).
Proof. apply (fold_set (fun s => tm_hour (ps_tm s)) (fhh cs) (libp is_LH)). upd_cases. Qed.
Lemma fin_mday l s : tm_mday (ps_tm (fold_left upd l s)) = if existsb (libp is_Ld) l then fd cs else tm_mday (ps_tm s).
Proof. apply (fold_set (fun s => tm_mday (ps_tm s)) (fd cs) (libp is_Ld)). upd_cases. Qed.
Lemma fin_mon l s : tm_mon (ps_tm (fold_left upd l s)) = if existsb (libp is_Lm) l then fm cs - 1 else tm_mon (ps_tm s).
Proof. apply (fold_set (fun s => tm_mon (ps_tm s)) (fm cs - 1) (libp is_Lm)). upd_cases. Qed.
Lemma fin_wday l s : tm_wday (ps_tm (fold_left upd l s)) = if existsb (libp is_wday) l then wday_sun0 cs else tm_wday (ps_tm s).
Proof. apply (fold_set (fun s => tm_wday (ps_tm s)) (wday_sun0 cs) (libp is_wday)). upd_cases. Qed.
Lemma fin_tmyear l s : tm_year (ps_tm (fold_left upd l s)) = tm_year (ps_tm s).
Proof. apply (fold_same (fun s => tm_year (ps_tm s))). upd_cases. Qed.
Lemma fin_afternoon l s : ps_afternoon (fold_left upd l s) = ps_afternoon s.
Proof. apply (fold_same ps_afternoon). upd_cases. Qed.
Lemma fin_twelve l s : ps_twelve (fold_left upd l s) = if existsb (libp is_LH) l then false else ps_twelve s.
Proof. apply (fold_set ps_twelve false (libp is_LH)). upd_cases. Qed.
Lemma fin_saw_offset l s : ps_saw_offset (fold_left upd l s) = if existsb (libp is_offset) l then true else ps_saw_offset s.
Proof. apply (fold_set ps_saw_offset true (libp is_offset)). upd_cases. Qed.

(* the offset: the last offset token decides *)
Lemma fin_offset l s :
  match last_tok (libp is_offset) l with
  | Some t => libp full_offset t || (off mod 60 =? 0) | None => false end = true ->
  ps_offset (fold_left upd l s) = off.
Proof.
  intros HL.
  apply (fold_lastP ps_offset (libp is_offset) (fun t => libp full_offset t || (off mod 60 =? 0)) (fun _ => True) off);
    [auto| | |exact I|exact HL].
  - intros t s0 H. destruct t as [c| |k|raw|raw]; try reflexivity; destruct k; try reflexivity; try discriminate;
      cbn [upd upd_lib]; repeat match goal with |- context [if ?b then _ else _] => destruct b end; reflexivity.
  - intros t s0 _ Hw Hf. destruct t as [c| |k|raw|raw]; try discriminate; destruct k; try discriminate;
      cbn [upd upd_lib set_offset ps_offset]; try reflexivity;
      cbn [libp full_offset orb] in Hf; lia.
Qed.

(* the sub-second value *)
Lemma sub_val_zero n : 0 < n -> sub_val (frac_digits 0 n) = 0.
Proof.
  intros Hn. destruct (Z.ltb_spec 18 n) as [H|H].
  - unfold frac_digits. replace (18 <? n) with true by lia. vm_compute. reflexivity.
  - assert (E : n = 1 \/ n = 2 \/ n = 3 \/ n = 4 \/ n = 5 \/ n = 6 \/ n = 7 \/ n = 8 \/ n = 9 \/ n = 10 \/
                n = 11 \/ n = 12 \/ n = 13 \/ n = 14 \/ n = 15 \/ n = 16 \/ n = 17 \/ n = 18) by lia.
    repeat (destruct E as [->|E]; [vm_compute; reflexivity|]). subst. vm_compute. reflexivity.
Qed.

Lemma fin_subsec l s : (fs = 0 -> ps_subsec s = 0) ->
  match last_tok (libp writes_subsec) l with Some t => libp full_subsec t | None => false end = true ->
  ps_subsec (fold_left upd l s) = fs.
Proof.
  intros HS HL.
  apply (fold_lastP ps_subsec (libp writes_subsec) (libp full_subsec) (fun s => fs = 0 -> ps_subsec s = 0) fs);
    [| | |exact HS|exact HL].
  - intros t s0 Hs0 Hz. destruct t as [c| |k|raw|raw]; auto; destruct k; auto;
      cbn [upd upd_lib]; repeat match goal with |- context [if ?b then _ else _] => destruct b eqn:? end;
      cbn [set_subsec set_tm ps_subsec]; auto; try (subst fs; apply sub_val_zero; lia).
  - intros t s0 H. destruct t as [c| |k|raw|raw]; try reflexivity; destruct k; try reflexivity; try discriminate;
      cbn [libp writes_subsec] in H; cbn [upd upd_lib]; rewrite H; reflexivity.
  - intros t s0 Hs0 Hw Hf. destruct t as [c| |k|raw|raw]; try discriminate; destruct k; try discriminate;
      cbn [libp writes_subsec full_subsec] in Hw, Hf; cbn [upd upd_lib]; rewrite ?Hw.
    + cbn [set_subsec ps_subsec]. apply sub_val_full; [exact Hfs|lia].
    + destruct (Z.eqb_spec fs 0) as [E0|E0]; [|reflexivity].
      cbn [set_tm ps_subsec]. rewrite Hs0 by exact E0. congruence.
    + cbn [set_subsec ps_subsec]. apply sub_val_full; [exact Hfs|lia].
    + reflexivity.
Qed.

(* the week number *)
Definition wkp (s : pstate) : option (Z * Z) :=
  if ps_week_num s =? -1 then None else Some (ps_week_num s, ps_week_start s).

Definition is_LU t := match t with FLib LU => true | _ => false end.
Definition is_LW t := match t with FLib LW => true | _ => false end.
Definition is_md t := match t with FLib Lm | FLib Ld | FLib Le => true | _ => false end.

Lemma wkp_keep t s : libp date_writer t = false -> wkp (upd s t) = wkp s.
Proof. destruct t as [c| |k|raw|raw]; try reflexivity; destruct k; try reflexivity; try discriminate;
  intros _; cbn [upd upd_lib]; repeat match goal with |- context [if ?b then _ else _] => destruct b end; reflexivity. Qed.

Lemma fin_week_U l s : match last_tok (libp date_writer) l with Some t => is_LU t | None => false end = true ->
  wkp (fold_left upd l s) = Some (week_U cs, 6).
Proof.
  intros HL.
  apply (fold_lastP wkp (libp date_writer) is_LU (fun _ => True)); [auto|apply wkp_keep| |exact I|exact HL].
  intros t s0 _ _ Hf. destruct t as [c| |k|raw|raw]; try discriminate; destruct k; try discriminate.
  cbn [upd upd_lib]. unfold wkp, set_week. cbn [ps_week_num ps_week_start].
  pose proof week_U_range. destruct (Z.eqb_spec (week_U cs) (-1)); [lia|reflexivity].
Qed.
Lemma fin_week_W l s : match last_tok (libp date_writer) l with Some t => is_LW t | None => false end = true ->
  wkp (fold_left upd l s) = Some (week_W cs, 0).
Proof.
  intros HL.
  apply (fold_lastP wkp (libp date_writer) is_LW (fun _ => True)); [auto|apply wkp_keep| |exact I|exact HL].
  intros t s0 _ _ Hf. destruct t as [c| |k|raw|raw]; try discriminate; destruct k; try discriminate.
  cbn [upd upd_lib]. unfold wkp, set_week. cbn [ps_week_num ps_week_start].
  pose proof week_W_range. destruct (Z.eqb_spec (week_W cs) (-1)); [lia|reflexivity].
Qed.
Lemma fin_week_md l s : match last_tok (libp date_writer) l with Some t => is_md t | None => false end = true ->
  wkp (fold_left upd l s) = None.
Proof.
  intros HL.
  apply (fold_lastP wkp (libp date_writer) is_md (fun _ => True)); [auto|apply wkp_keep| |exact I|exact HL].
  intros t s0 _ _ Hf. destruct t as [c| |k|raw|raw]; try discriminate; destruct k; try discriminate; reflexivity.
Qed.
Lemma fin_week_none l s : last_tok (libp date_writer) l = None -> wkp (fold_left upd l s) = wkp s.
Proof. apply (fold_keep wkp (libp date_writer)). apply wkp_keep. Qed.

End Scan.
