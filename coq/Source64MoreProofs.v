(* Source64MoreProofs.v - ties for the SECOND part of Source64.v (regenerated from clang's AST
   on every run): the members of civil_time<T> (constructors, operator+/-, compound
   assignment, increment/decrement, max/min), the relational operator templates, and
   next_weekday / prev_weekday.  For each function: whenever the hand-written model
   (CivilImpl.v) returns OK r, the source-derived function returns OK r (full equalities
   where the function is total); then the corollaries that carry the specification theorems
   (CivilNorm / CivilDiff / WeekdayProofs) over to the code as clang reads it now.
   Templates are tied for every alignment: tag 0 = second .. 5 = year. *)
From CCTZ Require Import Base SrcConstants Cal CivilImpl Source64 Source64Proofs Source64Cor.
From CCTZ Require Import CalProofs WeekdayProofs CivilNorm CivilDiff CivilProofs.
Require Import Lia ZifyBool.
Local Open Scope Z_scope.
Ltac Zify.zify_post_hook ::= Z.to_euclidean_division_equations.

(* ------------------------------------------------------------------ *)
(* The instantiations, by tag number (s64f_*: for any fuel F; s64m_*: at s64_fuel).  The
   "what it is made of" lemmas below are stated for a VARIABLE fuel, so that a body that
   changed is reported at once (with a closed fuel the conversion test would first unfold
   the loops of n_day). *)

Definition s64f_step (F : nat) (tag : nat) (f : fields) (n : Z) : res fields :=
  match tag with
  | 0%nat => s64_step_second F f n | 1%nat => s64_step_minute F f n
  | 2%nat => s64_step_hour F f n | 3%nat => s64_step_day F f n
  | 4%nat => s64_step_month F f n | _ => s64_step_year f n
  end.
Lemma s64f_step_fuel tag f n : s64f_step s64_fuel tag f n = s64_step tag f n.
Proof. reflexivity. Qed.

Definition s64m_ctor (tag : nat) (f : fields) : res fields :=
  match tag with
  | 0%nat => s64_ctor_second f | 1%nat => s64_ctor_minute f | 2%nat => s64_ctor_hour f
  | 3%nat => s64_ctor_day f | 4%nat => s64_ctor_month f | _ => s64_ctor_year f
  end.
Definition s64m_default (tag : nat) : res fields :=
  match tag with
  | 0%nat => s64_default_second | 1%nat => s64_default_minute | 2%nat => s64_default_hour
  | 3%nat => s64_default_day | 4%nat => s64_default_month | _ => s64_default_year
  end.
Definition s64f_construct (F : nat) (tag : nat) (y m d hh mm ss : Z) : res fields :=
  match tag with
  | 0%nat => s64_construct_second F y m d hh mm ss
  | 1%nat => s64_construct_minute F y m d hh mm ss
  | 2%nat => s64_construct_hour F y m d hh mm ss
  | 3%nat => s64_construct_day F y m d hh mm ss
  | 4%nat => s64_construct_month F y m d hh mm ss
  | _ => s64_construct_year F y m d hh mm ss
  end.
Definition s64f_plus (F : nat) (tag : nat) (f : fields) (n : Z) : res fields :=
  match tag with
  | 0%nat => s64_plus_second F f n
  | 1%nat => s64_plus_minute F f n
  | 2%nat => s64_plus_hour F f n
  | 3%nat => s64_plus_day F f n
  | 4%nat => s64_plus_month F f n
  | _ => s64_plus_year f n
  end.
Definition s64f_plus_rev (F : nat) (tag : nat) (n : Z) (f : fields) : res fields :=
  match tag with
  | 0%nat => s64_plus_rev_second F n f
  | 1%nat => s64_plus_rev_minute F n f
  | 2%nat => s64_plus_rev_hour F n f
  | 3%nat => s64_plus_rev_day F n f
  | 4%nat => s64_plus_rev_month F n f
  | _ => s64_plus_rev_year n f
  end.
Definition s64f_minus (F : nat) (tag : nat) (f : fields) (n : Z) : res fields :=
  match tag with
  | 0%nat => s64_minus_second F f n
  | 1%nat => s64_minus_minute F f n
  | 2%nat => s64_minus_hour F f n
  | 3%nat => s64_minus_day F f n
  | 4%nat => s64_minus_month F f n
  | _ => s64_minus_year f n
  end.
Definition s64f_add_assign (F : nat) (tag : nat) (f : fields) (n : Z) : res fields :=
  match tag with
  | 0%nat => s64_add_assign_second F f n
  | 1%nat => s64_add_assign_minute F f n
  | 2%nat => s64_add_assign_hour F f n
  | 3%nat => s64_add_assign_day F f n
  | 4%nat => s64_add_assign_month F f n
  | _ => s64_add_assign_year f n
  end.
Definition s64f_sub_assign (F : nat) (tag : nat) (f : fields) (n : Z) : res fields :=
  match tag with
  | 0%nat => s64_sub_assign_second F f n
  | 1%nat => s64_sub_assign_minute F f n
  | 2%nat => s64_sub_assign_hour F f n
  | 3%nat => s64_sub_assign_day F f n
  | 4%nat => s64_sub_assign_month F f n
  | _ => s64_sub_assign_year f n
  end.
Definition s64f_pre_inc (F : nat) (tag : nat) (f : fields) : res fields :=
  match tag with
  | 0%nat => s64_pre_inc_second F f
  | 1%nat => s64_pre_inc_minute F f
  | 2%nat => s64_pre_inc_hour F f
  | 3%nat => s64_pre_inc_day F f
  | 4%nat => s64_pre_inc_month F f
  | _ => s64_pre_inc_year f
  end.
Definition s64f_pre_dec (F : nat) (tag : nat) (f : fields) : res fields :=
  match tag with
  | 0%nat => s64_pre_dec_second F f
  | 1%nat => s64_pre_dec_minute F f
  | 2%nat => s64_pre_dec_hour F f
  | 3%nat => s64_pre_dec_day F f
  | 4%nat => s64_pre_dec_month F f
  | _ => s64_pre_dec_year f
  end.
(* result: (returned value, new object) *)
Definition s64f_post_inc (F : nat) (tag : nat) (f : fields) : res (fields * fields) :=
  match tag with
  | 0%nat => s64_post_inc_second F f
  | 1%nat => s64_post_inc_minute F f
  | 2%nat => s64_post_inc_hour F f
  | 3%nat => s64_post_inc_day F f
  | 4%nat => s64_post_inc_month F f
  | _ => s64_post_inc_year f
  end.
Definition s64f_post_dec (F : nat) (tag : nat) (f : fields) : res (fields * fields) :=
  match tag with
  | 0%nat => s64_post_dec_second F f
  | 1%nat => s64_post_dec_minute F f
  | 2%nat => s64_post_dec_hour F f
  | 3%nat => s64_post_dec_day F f
  | 4%nat => s64_post_dec_month F f
  | _ => s64_post_dec_year f
  end.
Definition s64f_max (F : nat) (tag : nat) : res fields :=
  match tag with
  | 0%nat => s64_max_second F 
  | 1%nat => s64_max_minute F 
  | 2%nat => s64_max_hour F 
  | 3%nat => s64_max_day F 
  | 4%nat => s64_max_month F 
  | _ => s64_max_year F 
  end.
Definition s64f_min (F : nat) (tag : nat) : res fields :=
  match tag with
  | 0%nat => s64_min_second F 
  | 1%nat => s64_min_minute F 
  | 2%nat => s64_min_hour F 
  | 3%nat => s64_min_day F 
  | 4%nat => s64_min_month F 
  | _ => s64_min_year F 
  end.
Definition s64m_construct := s64f_construct s64_fuel.
Definition s64m_plus := s64f_plus s64_fuel.
Definition s64m_plus_rev := s64f_plus_rev s64_fuel.
Definition s64m_minus := s64f_minus s64_fuel.
Definition s64m_add_assign := s64f_add_assign s64_fuel.
Definition s64m_sub_assign := s64f_sub_assign s64_fuel.
Definition s64m_pre_inc := s64f_pre_inc s64_fuel.
Definition s64m_pre_dec := s64f_pre_dec s64_fuel.
Definition s64m_post_inc := s64f_post_inc s64_fuel.
Definition s64m_post_dec := s64f_post_dec s64_fuel.
Definition s64m_max := s64f_max s64_fuel.
Definition s64m_min := s64f_min s64_fuel.
Definition s64m_diff (tag : nat) (f1 f2 : fields) : res Z :=
  match tag with
  | 0%nat => s64_diff_second f1 f2 | 1%nat => s64_diff_minute f1 f2 | 2%nat => s64_diff_hour f1 f2
  | 3%nat => s64_diff_day f1 f2 | 4%nat => s64_diff_month f1 f2 | _ => s64_diff_year f1 f2
  end.
(* civil_time<to>(const civil_time<from>&); from = to is the (defaulted) copy constructor *)
Definition s64m_convert (from to : nat) (f : fields) : res fields :=
  match to, from with
  | 0%nat, 1%nat => s64_convert_minute_second f | 0%nat, 2%nat => s64_convert_hour_second f
  | 0%nat, 3%nat => s64_convert_day_second f | 0%nat, 4%nat => s64_convert_month_second f
  | 0%nat, 5%nat => s64_convert_year_second f
  | 1%nat, 0%nat => s64_convert_second_minute f | 1%nat, 2%nat => s64_convert_hour_minute f
  | 1%nat, 3%nat => s64_convert_day_minute f | 1%nat, 4%nat => s64_convert_month_minute f
  | 1%nat, 5%nat => s64_convert_year_minute f
  | 2%nat, 0%nat => s64_convert_second_hour f | 2%nat, 1%nat => s64_convert_minute_hour f
  | 2%nat, 3%nat => s64_convert_day_hour f | 2%nat, 4%nat => s64_convert_month_hour f
  | 2%nat, 5%nat => s64_convert_year_hour f
  | 3%nat, 0%nat => s64_convert_second_day f | 3%nat, 1%nat => s64_convert_minute_day f
  | 3%nat, 2%nat => s64_convert_hour_day f | 3%nat, 4%nat => s64_convert_month_day f
  | 3%nat, 5%nat => s64_convert_year_day f
  | 4%nat, 0%nat => s64_convert_second_month f | 4%nat, 1%nat => s64_convert_minute_month f
  | 4%nat, 2%nat => s64_convert_hour_month f | 4%nat, 3%nat => s64_convert_day_month f
  | 4%nat, 5%nat => s64_convert_year_month f
  | 5%nat, 0%nat => s64_convert_second_year f | 5%nat, 1%nat => s64_convert_minute_year f
  | 5%nat, 2%nat => s64_convert_hour_year f | 5%nat, 3%nat => s64_convert_day_year f
  | 5%nat, 4%nat => s64_convert_month_year f
  | _, _ => OK f
  end.

Ltac tags tag := do 6 (destruct tag as [|tag]; [|]).
Ltac by_tag tag tac := do 6 (destruct tag as [|tag]; [tac|]); try tac.

(* ------------------------------------------------------------------ *)
(* What the instantiations are made of (each line is re-checked against the regenerated
   Source64.v: a changed body makes `reflexivity` fail)                  *)

Lemma s64m_ctor_is tag f : s64m_ctor tag f = s64_align tag f.
Proof. by_tag tag reflexivity. Qed.

Lemma s64f_construct_is F tag y m d hh mm ss :
  s64f_construct F tag y m d hh mm ss = (do f <- s64_n_sec F y m d hh mm ss ;; s64_align tag f).
Proof. by_tag tag reflexivity. Qed.
Lemma s64f_plus_is F tag f n : s64f_plus F tag f n = (do r <- s64f_step F tag f n ;; s64_align tag r).
Proof. by_tag tag reflexivity. Qed.
Lemma s64f_plus_rev_is F tag f n : s64f_plus_rev F tag n f = s64f_plus F tag f n.
Proof. by_tag tag reflexivity. Qed.
Lemma s64f_minus_is F tag f n :
  s64f_minus F tag f n =
  if negb (n =? min64) then
    (do nn <- neg64 n ;; do r <- s64f_step F tag f nn ;; s64_align tag r)
  else
    (do n1 <- add64 n 1 ;; do nn <- neg64 n1 ;;
     do r1 <- s64f_step F tag f nn ;; do r2 <- s64f_step F tag r1 1 ;; s64_align tag r2).
Proof. by_tag tag reflexivity. Qed.
Lemma s64f_add_assign_is F tag f n : s64f_add_assign F tag f n = s64f_plus F tag f n.
Proof. by_tag tag reflexivity. Qed.
Lemma s64f_sub_assign_is F tag f n : s64f_sub_assign F tag f n = s64f_minus F tag f n.
Proof. by_tag tag reflexivity. Qed.
Lemma s64f_pre_inc_is F tag f : s64f_pre_inc F tag f = s64f_plus F tag f 1.
Proof. by_tag tag reflexivity. Qed.
Lemma s64f_pre_dec_is F tag f : s64f_pre_dec F tag f = s64f_minus F tag f 1.
Proof. by_tag tag reflexivity. Qed.
Lemma s64f_post_inc_is F tag f : s64f_post_inc F tag f = (do r <- s64f_plus F tag f 1 ;; OK (f, r)).
Proof. by_tag tag reflexivity. Qed.
Lemma s64f_post_dec_is F tag f : s64f_post_dec F tag f = (do r <- s64f_minus F tag f 1 ;; OK (f, r)).
Proof. by_tag tag reflexivity. Qed.
Lemma s64f_max_is F tag : s64f_max F tag = s64f_construct F tag max64 12 31 23 59 59.
Proof. by_tag tag reflexivity. Qed.
Lemma s64f_min_is F tag : s64f_min F tag = s64f_construct F tag min64 1 1 0 0 0.
Proof. by_tag tag reflexivity. Qed.

Lemma s64m_construct_is tag y m d hh mm ss :
  s64m_construct tag y m d hh mm ss = (do f <- s64_n_sec s64_fuel y m d hh mm ss ;; s64_align tag f).
Proof. exact (s64f_construct_is s64_fuel tag y m d hh mm ss). Qed.
Lemma s64m_plus_is tag f n : s64m_plus tag f n = (do r <- s64_step tag f n ;; s64_align tag r).
Proof. exact (s64f_plus_is s64_fuel tag f n). Qed.
Lemma s64m_plus_rev_is tag f n : s64m_plus_rev tag n f = s64m_plus tag f n.
Proof. exact (s64f_plus_rev_is s64_fuel tag f n). Qed.
Lemma s64m_minus_is tag f n :
  s64m_minus tag f n =
  if negb (n =? min64) then
    (do nn <- neg64 n ;; do r <- s64_step tag f nn ;; s64_align tag r)
  else
    (do n1 <- add64 n 1 ;; do nn <- neg64 n1 ;;
     do r1 <- s64_step tag f nn ;; do r2 <- s64_step tag r1 1 ;; s64_align tag r2).
Proof. exact (s64f_minus_is s64_fuel tag f n). Qed.
Lemma s64m_diff_is tag f1 f2 : s64m_diff tag f1 f2 = s64_difference tag f1 f2.
Proof. by_tag tag reflexivity. Qed.
Lemma s64m_add_assign_is tag f n : s64m_add_assign tag f n = s64m_plus tag f n.
Proof. exact (s64f_add_assign_is s64_fuel tag f n). Qed.
Lemma s64m_sub_assign_is tag f n : s64m_sub_assign tag f n = s64m_minus tag f n.
Proof. exact (s64f_sub_assign_is s64_fuel tag f n). Qed.
Lemma s64m_pre_inc_is tag f : s64m_pre_inc tag f = s64m_plus tag f 1.
Proof. exact (s64f_pre_inc_is s64_fuel tag f). Qed.
Lemma s64m_pre_dec_is tag f : s64m_pre_dec tag f = s64m_minus tag f 1.
Proof. exact (s64f_pre_dec_is s64_fuel tag f). Qed.
Lemma s64m_post_inc_is tag f : s64m_post_inc tag f = (do r <- s64m_plus tag f 1 ;; OK (f, r)).
Proof. exact (s64f_post_inc_is s64_fuel tag f). Qed.
Lemma s64m_post_dec_is tag f : s64m_post_dec tag f = (do r <- s64m_minus tag f 1 ;; OK (f, r)).
Proof. exact (s64f_post_dec_is s64_fuel tag f). Qed.
Lemma s64m_max_is tag : s64m_max tag = s64m_construct tag max64 12 31 23 59 59.
Proof. exact (s64f_max_is s64_fuel tag). Qed.
Lemma s64m_min_is tag : s64m_min tag = s64m_construct tag min64 1 1 0 0 0.
Proof. exact (s64f_min_is s64_fuel tag). Qed.

(* ------------------------------------------------------------------ *)
(* step without the representation hypothesis (the second step of operator- is applied
   to the RESULT of the first)                                          *)

Lemma s64_step_tie_any tag f n r : (tag <= 5)%nat -> step64 tag f n = OK r -> s64_step tag f n = OK r.
Proof.
  intros Ht H.
  destruct tag as [|[|[|[|[|[|tag]]]]]]; [| | | | | |lia]; unfold step64 in H; cbn [s64_step].
  - unfold s64_step_second. inv; go. apply s64_n_sec_tie; assumption.
  - unfold s64_step_minute. inv; go. apply s64_n_min_tie; assumption.
  - unfold s64_step_hour. inv; go. apply s64_n_hour_tie; assumption.
  - unfold s64_step_day. apply s64_n_day_tie; assumption.
  - unfold s64_step_month. inv; go. apply s64_n_mon_tie; assumption.
  - unfold s64_step_year. inv; go.
Qed.

(* ------------------------------------------------------------------ *)
(* Constructors                                                         *)

(* the designated private constructor civil_time(fields): f_ = align(T{}, f) *)
Theorem s64m_ctor_tie tag f : (tag <= 5)%nat -> s64m_ctor tag f = OK (align64 tag f).
Proof. intros Ht. rewrite s64m_ctor_is. apply s64_align_is; exact Ht. Qed.

(* civil_time(): 1970-01-01 00:00:00, for every alignment *)
Theorem s64m_default_tie tag : s64m_default tag = OK (mkF 1970 1 1 0 0 0).
Proof. by_tag tag reflexivity. Qed.

(* civil_time(y, m, d, hh, mm, ss), arguments of type year_t / diff_t (any Z: the checks are in the model) *)
Theorem s64m_construct_tie tag y m d hh mm ss r : (tag <= 5)%nat ->
  construct64 tag y m d hh mm ss = OK r -> s64m_construct tag y m d hh mm ss = OK r.
Proof.
  intros Ht H. unfold construct64 in H. apply bind_ok in H. destruct H as [f [Hf H]].
  rewrite s64m_construct_is, (s64_n_sec_tie _ _ _ _ _ _ _ Hf). cbn [bind].
  rewrite s64_align_is by exact Ht. exact H.
Qed.

(* civil_time<to>(const civil_time<from>&), from <> to: re-alignment only *)
Theorem s64m_convert_tie from to f : (from <= 5)%nat -> (to <= 5)%nat -> from <> to ->
  s64m_convert from to f = OK (convert64 to f).
Proof.
  intros Hf Ht Hne.
  destruct to as [|[|[|[|[|[|to]]]]]]; [| | | | | |lia];
  (destruct from as [|[|[|[|[|[|from]]]]]]; [| | | | | |lia]); try (exfalso; apply Hne; reflexivity); reflexivity.
Qed.

(* max() / min() *)
Theorem s64m_max_tie tag : (tag <= 5)%nat -> s64m_max tag = OK (align64 tag civil_max64).
Proof.
  intros Ht. rewrite s64m_max_is. apply s64m_construct_tie; [exact Ht|].
  destruct tag as [|[|[|[|[|[|tag]]]]]]; [| | | | | |lia]; vm_compute; reflexivity.
Qed.
Theorem s64m_min_tie tag : (tag <= 5)%nat -> s64m_min tag = OK (align64 tag civil_min64).
Proof.
  intros Ht. rewrite s64m_min_is. apply s64m_construct_tie; [exact Ht|].
  destruct tag as [|[|[|[|[|[|tag]]]]]]; [| | | | | |lia]; vm_compute; reflexivity.
Qed.

(* ------------------------------------------------------------------ *)
(* operator+ / operator- (civil_time, diff_t), operator-(civil_time, civil_time)  *)

Theorem s64m_plus_tie tag f n r : (tag <= 5)%nat -> plus64 tag f n = OK r -> s64m_plus tag f n = OK r.
Proof.
  intros Ht H. unfold plus64 in H. apply bind_ok in H. destruct H as [x [Hx H]].
  rewrite s64m_plus_is, (s64_step_tie_any tag f n x Ht Hx). cbn [bind].
  rewrite s64_align_is by exact Ht. exact H.
Qed.

Theorem s64m_plus_rev_tie tag f n r : (tag <= 5)%nat -> plus64 tag f n = OK r -> s64m_plus_rev tag n f = OK r.
Proof. intros Ht H. rewrite s64m_plus_rev_is. apply s64m_plus_tie; assumption. Qed.

(* includes the n == numeric_limits<diff_t>::min() two-step form *)
Theorem s64m_minus_tie tag f n r : (tag <= 5)%nat -> minus64 tag f n = OK r -> s64m_minus tag f n = OK r.
Proof.
  intros Ht H. unfold minus64 in H. rewrite s64m_minus_is.
  destruct (negb (n =? min64)).
  - apply bind_ok in H. destruct H as [nn [Hn H]]. apply bind_ok in H. destruct H as [x [Hx H]].
    rewrite Hn. cbn [bind]. rewrite (s64_step_tie_any tag f nn x Ht Hx). cbn [bind].
    rewrite s64_align_is by exact Ht. exact H.
  - apply bind_ok in H. destruct H as [n1 [Hn1 H]]. apply bind_ok in H. destruct H as [nn [Hn H]].
    apply bind_ok in H. destruct H as [x1 [Hx1 H]]. apply bind_ok in H. destruct H as [x2 [Hx2 H]].
    rewrite Hn1. cbn [bind]. rewrite Hn. cbn [bind].
    rewrite (s64_step_tie_any tag f nn x1 Ht Hx1). cbn [bind].
    rewrite (s64_step_tie_any tag x1 1 x2 Ht Hx2). cbn [bind].
    rewrite s64_align_is by exact Ht. exact H.
Qed.

Theorem s64m_diff_tie tag f1 f2 r : (tag <= 5)%nat -> fields_repr f1 -> fields_repr f2 ->
  difference64 tag f1 f2 = OK r -> s64m_diff tag f1 f2 = OK r.
Proof. intros Ht R1 R2 H. rewrite s64m_diff_is. apply s64_difference_tie; assumption. Qed.

(* ------------------------------------------------------------------ *)
(* Compound assignment, increment, decrement: the new value of the object (and, for the
   postfix forms, the returned old value)                               *)

Theorem s64m_add_assign_tie tag f n r : (tag <= 5)%nat -> plus64 tag f n = OK r -> s64m_add_assign tag f n = OK r.
Proof. intros Ht H. rewrite s64m_add_assign_is. apply s64m_plus_tie; assumption. Qed.
Theorem s64m_sub_assign_tie tag f n r : (tag <= 5)%nat -> minus64 tag f n = OK r -> s64m_sub_assign tag f n = OK r.
Proof. intros Ht H. rewrite s64m_sub_assign_is. apply s64m_minus_tie; assumption. Qed.
Theorem s64m_pre_inc_tie tag f r : (tag <= 5)%nat -> plus64 tag f 1 = OK r -> s64m_pre_inc tag f = OK r.
Proof. intros Ht H. rewrite s64m_pre_inc_is. apply s64m_plus_tie; assumption. Qed.
Theorem s64m_pre_dec_tie tag f r : (tag <= 5)%nat -> minus64 tag f 1 = OK r -> s64m_pre_dec tag f = OK r.
Proof. intros Ht H. rewrite s64m_pre_dec_is. apply s64m_minus_tie; assumption. Qed.
Theorem s64m_post_inc_tie tag f r : (tag <= 5)%nat -> plus64 tag f 1 = OK r -> s64m_post_inc tag f = OK (f, r).
Proof. intros Ht H. rewrite s64m_post_inc_is, (s64m_plus_tie tag f 1 r Ht H). reflexivity. Qed.
Theorem s64m_post_dec_tie tag f r : (tag <= 5)%nat -> minus64 tag f 1 = OK r -> s64m_post_dec tag f = OK (f, r).
Proof. intros Ht H. rewrite s64m_post_dec_is, (s64m_minus_tie tag f 1 r Ht H). reflexivity. Qed.

(* ------------------------------------------------------------------ *)
(* Relational operators (one reading for the 36 instantiations of each template): full equalities *)

Theorem s64_lt_tie a b : s64_lt a b = OK (lt64 a b).
Proof. reflexivity. Qed.
Theorem s64_eq_tie a b : s64_eq a b = OK (eq64 a b).
Proof. reflexivity. Qed.
Theorem s64_le_tie a b : s64_le a b = OK (negb (lt64 b a)).
Proof. reflexivity. Qed.
Theorem s64_ge_tie a b : s64_ge a b = OK (negb (lt64 a b)).
Proof. reflexivity. Qed.
Theorem s64_gt_tie a b : s64_gt a b = OK (lt64 b a).
Proof. reflexivity. Qed.
Theorem s64_ne_tie a b : s64_ne a b = OK (negb (eq64 a b)).
Proof. reflexivity. Qed.

(* ------------------------------------------------------------------ *)
(* next_weekday / prev_weekday: the two table walks                     *)

Lemma tbl_get_nat l j x : nth_error l j = Some x -> tbl_get l (Z.of_nat j) = OK x.
Proof.
  intros H. apply (tbl_get_ok l _ (Z.of_nat j) x eq_refl).
  destruct (Z.of_nat j <? 0) eqn:E; [lia|]. rewrite Nat2Z.id. exact H.
Qed.

Lemma nth_error_lt {A} (l : list A) j x : nth_error l j = Some x -> (j < length l)%nat.
Proof. intros H. apply nth_error_Some. congruence. Qed.

Section Walk.
  (* op: the civil_day operator applied at the end (s64_plus_day / s64_minus_day at s64_fuel);
     loop2 / loop1: the two generated loops, abstracted so that next and prev share the proof *)
  Variable tbl : list Z.
  Hypothesis tbl_short : (length tbl <= 1000)%nat.
  Variable op : fields -> Z -> res fields.
  Variable loop2 : nat -> fields -> Z -> Z -> list Z -> Z -> res fields.
  Variable loop1 : nat -> fields -> Z -> Z -> list Z -> Z -> res fields.
  Hypothesis loop2_eq : forall F cd wd i j,
    loop2 (S F) cd wd i tbl j =
    (do t <- tbl_get tbl j ;;
     if wd =? t then (do t6 <- sub32 j i ;; op cd t6)
     else (do t7 <- add32 j 1 ;; loop2 F cd wd i tbl t7)).
  Hypothesis loop1_eq : forall F cd wd base i,
    loop1 (S F) cd wd base tbl i =
    (do t <- tbl_get tbl i ;;
     if base =? t then (do t4 <- add32 i 1 ;; loop2 s64_fuel cd wd i tbl t4)
     else (do t8 <- add32 i 1 ;; loop1 F cd wd base tbl t8)).

  Lemma walk2 cd wd i r : forall f j k, find_from f tbl wd j = OK k -> (i <= j)%nat ->
    op cd (Z.of_nat k - Z.of_nat i) = OK r ->
    forall F, (f <= F)%nat -> loop2 F cd wd (Z.of_nat i) tbl (Z.of_nat j) = OK r.
  Proof.
    induction f as [|f IH]; intros j k H Hij Hop F HF; [discriminate|].
    destruct F as [|F]; [lia|]. cbn [find_from] in H. rewrite loop2_eq.
    destruct (nth_error tbl j) as [x|] eqn:E; [|discriminate].
    pose proof (nth_error_lt _ _ _ E) as Hlt.
    rewrite (tbl_get_nat _ _ _ E). cbn [bind]. rewrite (Z.eqb_sym wd x).
    destruct (x =? wd).
    - inversion H; subst k. unfold sub32. rewrite chk32_in by (unfold int32, min32, max32; lia).
      cbn [bind]. exact Hop.
    - unfold add32. rewrite chk32_in by (unfold int32, min32, max32; lia). cbn [bind].
      replace (Z.of_nat j + 1) with (Z.of_nat (S j)) by lia.
      apply (IH (S j) k); [exact H | lia | exact Hop | lia].
  Qed.

  Lemma walk1 cd wd base r : forall f i k, find_from f tbl base i = OK k ->
    loop2 s64_fuel cd wd (Z.of_nat k) tbl (Z.of_nat (S k)) = OK r ->
    forall F, (f <= F)%nat -> loop1 F cd wd base tbl (Z.of_nat i) = OK r.
  Proof.
    induction f as [|f IH]; intros i k H H2 F HF; [discriminate|].
    destruct F as [|F]; [lia|]. cbn [find_from] in H. rewrite loop1_eq.
    destruct (nth_error tbl i) as [x|] eqn:E; [|discriminate].
    pose proof (nth_error_lt _ _ _ E) as Hlt.
    rewrite (tbl_get_nat _ _ _ E). cbn [bind]. rewrite (Z.eqb_sym base x).
    destruct (x =? base).
    - inversion H; subst k. unfold add32. rewrite chk32_in by (unfold int32, min32, max32; lia).
      cbn [bind]. replace (Z.of_nat i + 1) with (Z.of_nat (S i)) by lia. exact H2.
    - unfold add32. rewrite chk32_in by (unfold int32, min32, max32; lia). cbn [bind].
      replace (Z.of_nat i + 1) with (Z.of_nat (S i)) by lia.
      apply (IH (S i) k); [exact H | exact H2 | lia].
  Qed.

  Lemma walk cd wd base i j r :
    find_from 15 tbl base 0 = OK i -> find_from 15 tbl wd (S i) = OK j ->
    op cd (Z.of_nat j - Z.of_nat i) = OK r ->
    loop1 s64_fuel cd wd base tbl 0 = OK r.
  Proof.
    intros H1 H2 Hop. change 0 with (Z.of_nat 0).
    apply (walk1 cd wd base r 15%nat 0%nat i H1); [|unfold s64_fuel; lia].
    apply (walk2 cd wd i r 15%nat (S i) j H2); [lia | exact Hop | unfold s64_fuel; lia].
  Qed.
End Walk.

(* civil_second(cd) in `get_weekday(cd)`: the converting constructor day -> second keeps the fields *)
Lemma convert_day_second_id cd : s64_convert_day_second cd = OK cd.
Proof. reflexivity. Qed.

(* the generated loops, one iteration (re-checked against the regenerated Source64.v) *)
Lemma next_loop2_eq G F cd wd i tbl j :
  s64_next_weekday_loop2 G (S F) cd wd i tbl j =
  (do t <- tbl_get tbl j ;;
   if wd =? t then (do t6 <- sub32 j i ;; s64_plus_day G cd t6)
   else (do t7 <- add32 j 1 ;; s64_next_weekday_loop2 G F cd wd i tbl t7)).
Proof. reflexivity. Qed.
Lemma next_loop1_eq G F cd wd base tbl i :
  s64_next_weekday_loop1 G (S F) cd wd base tbl i =
  (do t <- tbl_get tbl i ;;
   if base =? t then (do t4 <- add32 i 1 ;; s64_next_weekday_loop2 G G cd wd i tbl t4)
   else (do t8 <- add32 i 1 ;; s64_next_weekday_loop1 G F cd wd base tbl t8)).
Proof. reflexivity. Qed.
Lemma prev_loop2_eq G F cd wd i tbl j :
  s64_prev_weekday_loop2 G (S F) cd wd i tbl j =
  (do t <- tbl_get tbl j ;;
   if wd =? t then (do t6 <- sub32 j i ;; s64_minus_day G cd t6)
   else (do t7 <- add32 j 1 ;; s64_prev_weekday_loop2 G F cd wd i tbl t7)).
Proof. reflexivity. Qed.
Lemma prev_loop1_eq G F cd wd base tbl i :
  s64_prev_weekday_loop1 G (S F) cd wd base tbl i =
  (do t <- tbl_get tbl i ;;
   if base =? t then (do t4 <- add32 i 1 ;; s64_prev_weekday_loop2 G G cd wd i tbl t4)
   else (do t8 <- add32 i 1 ;; s64_prev_weekday_loop1 G F cd wd base tbl t8)).
Proof. reflexivity. Qed.

(* the function bodies: the table in the source IS the table of the model, then the conversion,
   get_weekday and the outer loop from 0.  Stated for a variable fuel so that a differing table is
   reported at once (with a closed fuel the conversion test would unfold the loops before failing). *)
Lemma s64_next_weekday_is F cd wd :
  s64_next_weekday F cd wd =
  (do t1 <- s64_convert_day_second cd ;; do t2 <- s64_get_weekday t1 ;;
   s64_next_weekday_loop1 F F cd wd t2 src_k_weekdays_forw 0).
Proof. reflexivity. Qed.
Lemma s64_prev_weekday_is F cd wd :
  s64_prev_weekday F cd wd =
  (do t1 <- s64_convert_day_second cd ;; do t2 <- s64_get_weekday t1 ;;
   s64_prev_weekday_loop1 F F cd wd t2 src_k_weekdays_back 0).
Proof. reflexivity. Qed.

Lemma forw_short : (length src_k_weekdays_forw <= 1000)%nat.
Proof. vm_compute. repeat constructor. Qed.
Lemma back_short : (length src_k_weekdays_back <= 1000)%nat.
Proof. vm_compute. repeat constructor. Qed.

(* cd : civil_day (its representation invariant), wd : weekday (any value) *)
Theorem s64_next_weekday_tie cd wd r : fields_repr cd ->
  next_weekday64 cd wd = OK r -> s64_next_weekday s64_fuel cd wd = OK r.
Proof.
  intros R H. unfold next_weekday64 in H.
  apply bind_ok in H. destruct H as [base [Hb H]].
  apply bind_ok in H. destruct H as [i [Hi H]].
  apply bind_ok in H. destruct H as [j [Hj H]].
  rewrite s64_next_weekday_is, convert_day_second_id. cbn [bind].
  rewrite (s64_get_weekday_tie cd base R Hb). cbn [bind].
  exact (walk src_k_weekdays_forw forw_short (fun c n => s64_plus_day s64_fuel c n)
           (s64_next_weekday_loop2 s64_fuel) (s64_next_weekday_loop1 s64_fuel)
           (fun F c w i0 j0 => next_loop2_eq s64_fuel F c w i0 src_k_weekdays_forw j0)
           (fun F c w b0 i0 => next_loop1_eq s64_fuel F c w b0 src_k_weekdays_forw i0)
           cd wd base i j r Hi Hj
           (s64m_plus_tie 3 cd _ r ltac:(lia) H)).
Qed.

Theorem s64_prev_weekday_tie cd wd r : fields_repr cd ->
  prev_weekday64 cd wd = OK r -> s64_prev_weekday s64_fuel cd wd = OK r.
Proof.
  intros R H. unfold prev_weekday64 in H.
  apply bind_ok in H. destruct H as [base [Hb H]].
  apply bind_ok in H. destruct H as [i [Hi H]].
  apply bind_ok in H. destruct H as [j [Hj H]].
  rewrite s64_prev_weekday_is, convert_day_second_id. cbn [bind].
  rewrite (s64_get_weekday_tie cd base R Hb). cbn [bind].
  exact (walk src_k_weekdays_back back_short (fun c n => s64_minus_day s64_fuel c n)
           (s64_prev_weekday_loop2 s64_fuel) (s64_prev_weekday_loop1 s64_fuel)
           (fun F c w i0 j0 => prev_loop2_eq s64_fuel F c w i0 src_k_weekdays_back j0)
           (fun F c w b0 i0 => prev_loop1_eq s64_fuel F c w b0 src_k_weekdays_back i0)
           cd wd base i j r Hi Hj
           (s64m_minus_tie 3 cd _ r ltac:(lia) H)).
Qed.

(* ================================================================== *)
(* The specification theorems, carried over to the code as clang reads it now *)

(* civil_time<T>(y, m, d, hh, mm, ss): the aligned normal form, under exactly C04's bounds *)
Theorem src64m_construct_meets_spec : forall tag y m d hh mm ss, (tag <= 5)%nat ->
  int64 y -> int64 m -> int64 d -> int64 hh -> int64 mm -> int64 ss ->
  int64 (carry_year y m) -> int64 (fy (norm_spec y m d hh mm ss)) ->
  s64m_construct tag y m d hh mm ss = OK (align_spec tag (norm_spec y m d hh mm ss)).
Proof.
  intros. apply s64m_construct_tie; [assumption|]. apply construct_refines_lemma; assumption.
Qed.

(* conversion between alignments: truncation to the target alignment *)
Theorem src64m_convert_meets_spec : forall from to f, (from <= 5)%nat -> (to <= 5)%nat -> from <> to ->
  s64m_convert from to f = OK (align_spec to f).
Proof. intros. rewrite s64m_convert_tie by assumption. reflexivity. Qed.

(* operator+(civil_time, diff_t) and operator+(diff_t, civil_time): n units later, no overflow
   unless the result's year is unrepresentable *)
Theorem src64m_plus_meets_spec : forall tag f n, (tag <= 5)%nat ->
  valid_fields f = true -> align_spec tag f = f -> int64 (fy f) -> int64 n ->
  int64 (fy (of_ord_spec tag (ord_spec tag f + n))) ->
  s64m_plus tag f n = OK (of_ord_spec tag (ord_spec tag f + n)) /\
  s64m_plus_rev tag n f = OK (of_ord_spec tag (ord_spec tag f + n)).
Proof.
  intros tag f n Ht V A I In Ir.
  pose proof (plus_refines_lemma tag f n Ht V A I In Ir) as H.
  split; [apply s64m_plus_tie | apply s64m_plus_rev_tie]; assumption.
Qed.

(* operator-(civil_time, diff_t): n units earlier for EVERY int64 n, including
   n = numeric_limits<diff_t>::min() (the two-step form), no overflow unless the result's
   year is unrepresentable *)
Theorem src64m_minus_meets_spec : forall tag f n, (tag <= 5)%nat ->
  valid_fields f = true -> align_spec tag f = f -> int64 (fy f) -> int64 n ->
  int64 (fy (of_ord_spec tag (ord_spec tag f - n))) ->
  s64m_minus tag f n = OK (of_ord_spec tag (ord_spec tag f - n)).
Proof.
  intros tag f n Ht V A I In Ir. apply s64m_minus_tie; [exact Ht|].
  apply minus_refines_lemma; assumption.
Qed.

(* operator-(civil_time, civil_time) *)
Theorem src64m_diff_meets_spec : forall tag f1 f2, (tag <= 5)%nat ->
  valid_fields f1 = true -> valid_fields f2 = true -> align_spec tag f1 = f1 -> align_spec tag f2 = f2 ->
  int64 (fy f1) -> int64 (fy f2) ->
  int64 (ord_spec tag f1 - ord_spec tag f2) ->
  s64m_diff tag f1 f2 = OK (ord_spec tag f1 - ord_spec tag f2).
Proof.
  intros tag f1 f2 Ht V1 V2 A1 A2 I1 I2 Id.
  apply s64m_diff_tie; [exact Ht | apply valid_fields_repr; assumption | apply valid_fields_repr; assumption |].
  apply difference_refines_lemma; assumption.
Qed.

(* += -= ++ -- : the object becomes the civil time n (1) units later / earlier; the postfix
   forms return the old value *)
Theorem src64m_assign_meets_spec : forall tag f n, (tag <= 5)%nat ->
  valid_fields f = true -> align_spec tag f = f -> int64 (fy f) -> int64 n ->
  (int64 (fy (of_ord_spec tag (ord_spec tag f + n))) ->
   s64m_add_assign tag f n = OK (of_ord_spec tag (ord_spec tag f + n))) /\
  (int64 (fy (of_ord_spec tag (ord_spec tag f - n))) ->
   s64m_sub_assign tag f n = OK (of_ord_spec tag (ord_spec tag f - n))).
Proof.
  intros tag f n Ht V A I In. split; intros Ir.
  - apply s64m_add_assign_tie; [exact Ht|]. apply plus_refines_lemma; assumption.
  - apply s64m_sub_assign_tie; [exact Ht|]. apply minus_refines_lemma; assumption.
Qed.

Theorem src64m_inc_dec_meets_spec : forall tag f, (tag <= 5)%nat ->
  valid_fields f = true -> align_spec tag f = f -> int64 (fy f) ->
  (int64 (fy (of_ord_spec tag (ord_spec tag f + 1))) ->
   s64m_pre_inc tag f = OK (of_ord_spec tag (ord_spec tag f + 1)) /\
   s64m_post_inc tag f = OK (f, of_ord_spec tag (ord_spec tag f + 1))) /\
  (int64 (fy (of_ord_spec tag (ord_spec tag f - 1))) ->
   s64m_pre_dec tag f = OK (of_ord_spec tag (ord_spec tag f - 1)) /\
   s64m_post_dec tag f = OK (f, of_ord_spec tag (ord_spec tag f - 1))).
Proof.
  intros tag f Ht V A I.
  assert (I1 : int64 1) by (unfold int64, min64, max64; lia).
  split; intros Ir.
  - pose proof (plus_refines_lemma tag f 1 Ht V A I I1 Ir) as H.
    split; [apply s64m_pre_inc_tie | apply s64m_post_inc_tie]; assumption.
  - pose proof (minus_refines_lemma tag f 1 Ht V A I I1 Ir) as H.
    split; [apply s64m_pre_dec_tie | apply s64m_post_dec_tie]; assumption.
Qed.

(* max() / min(): the extreme representable civil times of each alignment *)
Theorem src64m_max_min : forall tag, (tag <= 5)%nat ->
  s64m_max tag = OK (align_spec tag civil_max64) /\ s64m_min tag = OK (align_spec tag civil_min64).
Proof. intros tag Ht. split; [apply s64m_max_tie | apply s64m_min_tie]; exact Ht. Qed.

(* the six relational operators, for every pair of alignments: the order of the civil
   time line (all six fields compared) *)
Theorem src64m_order_agrees : forall a b, valid_fields a = true -> valid_fields b = true ->
  s64_lt a b = OK (sec_of a <? sec_of b) /\ s64_le a b = OK (sec_of a <=? sec_of b) /\
  s64_gt a b = OK (sec_of b <? sec_of a) /\ s64_ge a b = OK (sec_of b <=? sec_of a) /\
  s64_eq a b = OK (sec_of a =? sec_of b) /\ s64_ne a b = OK (negb (sec_of a =? sec_of b)).
Proof.
  intros a b Va Vb.
  destruct (order_agrees_lemma a b Va Vb) as [L E]. destruct (order_agrees_lemma b a Vb Va) as [L' _].
  rewrite s64_lt_tie, s64_le_tie, s64_gt_tie, s64_ge_tie, s64_eq_tie, s64_ne_tie, L, L', E.
  repeat split; f_equal; lia.
Qed.

Theorem src64m_lt_iff_difference_negative : forall tag a b, (tag <= 5)%nat ->
  valid_fields a = true -> valid_fields b = true -> align_spec tag a = a -> align_spec tag b = b ->
  (s64_lt a b = OK true <-> ord_spec tag a - ord_spec tag b < 0).
Proof.
  intros tag a b Ht Va Vb Aa Ab. rewrite s64_lt_tie.
  rewrite <- (lt_iff_difference_negative_lemma tag a b Ht Va Vb Aa Ab).
  split; [intros H; inversion H; reflexivity | intros ->; reflexivity].
Qed.

(* next_weekday: the nearest day strictly after cd with the requested weekday, 1..7 days
   away; no overflow, no out-of-bounds table read, both loops terminate, unless the result's
   year is unrepresentable *)
Theorem src64m_next_weekday_meets_spec : forall f w,
  valid_fields f = true -> (fhh f = 0 /\ fmm f = 0 /\ fss f = 0) -> int64 (fy f) -> 0 <= w <= 6 ->
  exists k, 1 <= k <= 7 /\
    weekday_of_days (days_from_civil (fy f) (fm f) (fd f) + k) = w /\
    (forall j, 1 <= j < k -> weekday_of_days (days_from_civil (fy f) (fm f) (fd f) + j) <> w) /\
    (int64 (fy (civil_of_seconds ((days_from_civil (fy f) (fm f) (fd f) + k) * 86400))) ->
     s64_next_weekday s64_fuel f w = OK (civil_of_seconds ((days_from_civil (fy f) (fm f) (fd f) + k) * 86400))).
Proof.
  intros f w V A I Hw.
  destruct (next_weekday_spec_lemma f w V A I Hw) as (k & Hk & Hwd & Hmin & Hrun).
  exists k. repeat split; try assumption; try lia.
  intros Hr. apply s64_next_weekday_tie; [apply valid_fields_repr; assumption | exact (Hrun Hr)].
Qed.

(* prev_weekday: the nearest day strictly before *)
Theorem src64m_prev_weekday_meets_spec : forall f w,
  valid_fields f = true -> (fhh f = 0 /\ fmm f = 0 /\ fss f = 0) -> int64 (fy f) -> 0 <= w <= 6 ->
  exists k, 1 <= k <= 7 /\
    weekday_of_days (days_from_civil (fy f) (fm f) (fd f) - k) = w /\
    (forall j, 1 <= j < k -> weekday_of_days (days_from_civil (fy f) (fm f) (fd f) - j) <> w) /\
    (int64 (fy (civil_of_seconds ((days_from_civil (fy f) (fm f) (fd f) - k) * 86400))) ->
     s64_prev_weekday s64_fuel f w = OK (civil_of_seconds ((days_from_civil (fy f) (fm f) (fd f) - k) * 86400))).
Proof.
  intros f w V A I Hw.
  destruct (prev_weekday_spec_lemma f w V A I Hw) as (k & Hk & Hwd & Hmin & Hrun).
  exists k. repeat split; try assumption; try lia.
  intros Hr. apply s64_prev_weekday_tie; [apply valid_fields_repr; assumption | exact (Hrun Hr)].
Qed.

(* ------------------------------------------------------------------ *)
(* Non-vacuity: the premises of the ties hold on concrete inputs, and the source-derived
   functions compute the expected values                                *)

Example more_nonvacuous_walks :
  next_weekday64 (mkF 2024 2 29 0 0 0) 0 = OK (mkF 2024 3 4 0 0 0) /\
  s64_next_weekday s64_fuel (mkF 2024 2 29 0 0 0) 0 = OK (mkF 2024 3 4 0 0 0) /\
  s64_next_weekday s64_fuel (mkF 2024 2 29 0 0 0) 3 = OK (mkF 2024 3 7 0 0 0) /\
  prev_weekday64 (mkF 2024 3 1 0 0 0) 3 = OK (mkF 2024 2 29 0 0 0) /\
  s64_prev_weekday s64_fuel (mkF 2024 3 1 0 0 0) 3 = OK (mkF 2024 2 29 0 0 0) /\
  s64_prev_weekday s64_fuel (mkF 2024 3 1 0 0 0) 4 = OK (mkF 2024 2 23 0 0 0).
Proof. vm_compute. repeat split; reflexivity. Qed.

(* the n == min form: year -1 minus INT64_MIN years is year INT64_MAX; in seconds from the epoch too *)
Example more_nonvacuous_minus_min :
  minus64 5 (mkF (-1) 1 1 0 0 0) min64 = OK (mkF max64 1 1 0 0 0) /\
  s64m_minus 5 (mkF (-1) 1 1 0 0 0) min64 = OK (mkF max64 1 1 0 0 0) /\
  is_ok (minus64 0 (mkF 1970 1 1 0 0 0) min64) = true /\
  s64m_minus 0 (mkF 1970 1 1 0 0 0) min64 = minus64 0 (mkF 1970 1 1 0 0 0) min64 /\
  s64m_minus 3 (mkF 1970 1 1 0 0 0) 1 = OK (mkF 1969 12 31 0 0 0).
Proof. vm_compute. repeat split; reflexivity. Qed.

Example more_nonvacuous_misc :
  construct64 4 2023 14 31 25 0 0 = OK (mkF 2024 3 1 0 0 0) /\
  s64m_construct 4 2023 14 31 25 0 0 = OK (mkF 2024 3 1 0 0 0) /\
  s64m_post_inc 3 (mkF 2024 2 29 0 0 0) = OK (mkF 2024 2 29 0 0 0, mkF 2024 3 1 0 0 0) /\
  s64m_post_dec 4 (mkF 2024 1 1 0 0 0) = OK (mkF 2024 1 1 0 0 0, mkF 2023 12 1 0 0 0) /\
  s64m_convert 0 3 (mkF 2024 2 29 13 14 15) = OK (mkF 2024 2 29 0 0 0) /\
  s64_lt (mkF 2024 2 29 0 0 0) (mkF 2024 2 29 0 0 1) = OK true /\
  s64m_diff 3 (mkF 2024 3 1 0 0 0) (mkF 2024 2 1 0 0 0) = OK 29 /\
  s64m_max 0 = OK civil_max64 /\ s64m_min 0 = OK civil_min64.
Proof. vm_compute. repeat split; reflexivity. Qed.

Print Assumptions s64_next_weekday_tie.
Print Assumptions s64_prev_weekday_tie.
Print Assumptions s64m_minus_tie.
Print Assumptions s64m_plus_tie.
Print Assumptions s64m_construct_tie.
Print Assumptions s64m_convert_tie.
Print Assumptions s64m_diff_tie.
Print Assumptions s64m_post_inc_tie.
Print Assumptions s64m_post_dec_tie.
Print Assumptions s64_lt_tie.
Print Assumptions s64m_max_tie.
Print Assumptions src64m_next_weekday_meets_spec.
Print Assumptions src64m_prev_weekday_meets_spec.
Print Assumptions src64m_minus_meets_spec.
Print Assumptions src64m_plus_meets_spec.
Print Assumptions src64m_construct_meets_spec.
Print Assumptions src64m_diff_meets_spec.
Print Assumptions src64m_inc_dec_meets_spec.
Print Assumptions src64m_assign_meets_spec.
Print Assumptions src64m_order_agrees.
Print Assumptions src64m_lt_iff_difference_negative.
Print Assumptions src64m_max_min.
