(* LastWriter.v - EXECUTABLE side condition of the general C07 round-trip theorem (FmtRoundTrip.lossless_roundtrip_sep),
   kept apart from the proofs so that the extracted driver can evaluate it on every generated format (LastWriterEq.v
   proves it is the very boolean the theorem uses).  parse() keeps the LAST value scanned for every field, so a format
   that lossless_fmt admits still cannot round-trip when a LOSSY item comes after the lossless one it duplicates
   (finding F15): "%E0f" followed by white space; %E4Y with a year outside -999..9999 (even beside %Y); a truncating
   %E#S/%E#f (0 < # < 15) after the last full-precision one; a minute-resolution offset after the last full-resolution one
   when the offset has seconds; a week number after the last %m/%d/%e with no weekday anywhere. *)
From CCTZ Require Import Base Cal CivilImpl PosixImpl ZoneLoad FormatImpl FmtSpec.
Local Open Scope Z_scope.

Fixpoint lw_e0f_ok (l : list ftok) : bool :=
  match l with
  | FLib (LEnf n) :: ((FLit c :: _) as r) => negb ((n <=? 0) && is_space c) && lw_e0f_ok r
  | _ :: r => lw_e0f_ok r
  | [] => true
  end.
Definition lw_lastw {A} (w : ftok -> option A) (l : list ftok) : option A :=
  fold_left (fun acc t => match w t with Some v => Some v | None => acc end) l None.
Definition lw_last_tok (wr : ftok -> bool) (l : list ftok) : option ftok :=
  lw_lastw (fun t => if wr t then Some t else None) l.
Definition lw_libp (p : libspec -> bool) (t : ftok) : bool := match t with FLib k => p k | _ => false end.
Definition lw_is_Ls k := match k with Ls => true | _ => false end.
Definition lw_is_wday k := match k with Lu | Lw => true | _ => false end.
Definition lw_is_offset k := match k with Lz | Lcz | Lccz | Lcccz | LEz | LEsz => true | _ => false end.
Definition lw_full_offset k := match k with Lccz | Lcccz | LEsz => true | _ => false end.
Definition lw_writes_subsec k := match k with LEsS | LEsf => true | LEnS n | LEnf n => 0 <? n | _ => false end.
Definition lw_full_subsec k := match k with LEsS | LEsf => true | LEnS n | LEnf n => 15 <=? n | _ => false end.
Definition lw_date_writer k := match k with LU | LW | Lm | Ld | Le => true | _ => false end.
Definition lw_is_LE4Y (k : libspec) : bool := match k with LE4Y => true | _ => false end.
Definition lw_is_wday_name (t : ftok) : bool :=
  match t with FOther [37; c] => (c =? 97) || (c =? 65) | _ => false end.

Definition last_writer_ok_x (fmt : list Z) (off year : Z) : bool :=
  let l := lex fmt in
  lw_e0f_ok l
  && (negb (existsb (lw_libp lw_is_LE4Y) l) || ((-999 <=? year) && (year <=? 9999)))
  && (existsb (lw_libp lw_is_Ls) l
      || (match lw_last_tok (lw_libp lw_writes_subsec) l with Some t => lw_libp lw_full_subsec t | None => true end
          && match lw_last_tok (lw_libp lw_is_offset) l with
             | Some t => lw_libp lw_full_offset t || (off mod 60 =? 0) | None => true end
          && match lw_last_tok (lw_libp lw_date_writer) l with
             | Some (FLib LU) | Some (FLib LW) => existsb (lw_libp lw_is_wday) l || existsb lw_is_wday_name l
             | _ => true end)).

(* formats without strftime/strptime-delegated items, and whether %s is present (then parse returns fs = 0) *)
Definition no_other_x (fmt : list Z) : bool :=
  forallb (fun t => match t with FOther _ => false | _ => true end) (lex fmt).
Definition has_percent_s_x (fmt : list Z) : bool := existsb (lw_libp lw_is_Ls) (lex fmt).
