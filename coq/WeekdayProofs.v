(* WeekdayProofs.v — C17, first half: get_weekday / get_yearday / is_leap_year
   of the implementation model agree with the spec calendar (Cal.v). *)
From CCTZ Require Import Base Cal SrcConstants CivilImpl CalProofs.
Require Import ZifyBool.
Local Open Scope Z_scope.
Ltac Zify.zify_post_hook ::= Z.to_euclidean_division_equations.

(* ------------------------------------------------------------------ *)
(* is_leap_year                                                        *)

Lemma rem_zero_iff y c : 0 < c -> (Z.rem y c =? 0) = (y mod c =? 0).
Proof.
  intros H. apply eq_true_iff_eq. rewrite !Z.eqb_eq.
  rewrite Z.rem_divide, Z.mod_divide by lia. reflexivity.
Qed.

Lemma is_leap_year64_spec y : is_leap_year64 y = is_leap y.
Proof.
  unfold is_leap_year64, is_leap.
  rewrite !rem_zero_iff by lia. reflexivity.
Qed.

(* ------------------------------------------------------------------ *)
(* weekday_of_days is pinned by epoch + successor                      *)

Lemma weekday_epoch_lemma : weekday_of_days (days_from_civil 1970 1 1) = 3.
Proof. reflexivity. Qed.

Lemma weekday_succ_lemma : forall z, weekday_of_days (z + 1) = (weekday_of_days z + 1) mod 7.
Proof. intros z. unfold weekday_of_days. lia. Qed.

(* ------------------------------------------------------------------ *)
(* get_weekday                                                         *)

(* get_weekday64 with the year already reduced by the C++ '%' *)
Definition gw (r m d : Z) : res Z :=
  let wd0 := 2400 + r - b2z (m <? 3) in
  let wd1 := wd0 + (Z.quot wd0 4 - Z.quot wd0 100 + Z.quot wd0 400) in
  match (if m <? 0 then None else nth_error src_k_weekday_offsets (Z.to_nat m)) with
  | None => Err OOB
  | Some off =>
      let wd2 := wd1 + off + d in
      let idx := Z.rem wd2 7 + 6 in
      match (if idx <? 0 then None else nth_error src_k_weekday_by_mon_off (Z.to_nat idx)) with
      | None => Err OOB
      | Some w => OK w
      end
  end.

Lemma gw_eq f : get_weekday64 f = gw (Z.rem (fy f) 400) (fm f) (fd f).
Proof. reflexivity. Qed.

Definition wd_ok (r m d : Z) : bool :=
  implb (valid_date r m d)
        (match gw r m d with
         | OK w => w =? weekday_of_days (days_from_civil r m d)
         | Err _ => false
         end).

Lemma wd_sweep :
  forallb (fun r => forallb (fun m => forallb (fun d => wd_ok r m d)
     (zrange 1 31)) (zrange 1 12)) (zrange (-399) 799) = true.
Proof. vm_compute. reflexivity. Qed.

Lemma wd_ok_all r m d :
  -399 <= r <= 399 -> 1 <= m <= 12 -> 1 <= d <= 31 -> wd_ok r m d = true.
Proof.
  intros Hr Hm Hd. pose proof wd_sweep as S.
  rewrite forallb_forall in S.
  assert (I1 : In r (zrange (-399) 799)) by (apply zrange_In; lia).
  specialize (S r I1). rewrite forallb_forall in S.
  assert (I2 : In m (zrange 1 12)) by (apply zrange_In; lia).
  specialize (S m I2). rewrite forallb_forall in S.
  assert (I3 : In d (zrange 1 31)) by (apply zrange_In; lia).
  exact (S d I3).
Qed.

Lemma dimb_le_31 b m : dimb b m <= 31.
Proof.
  unfold dimb. destruct (m =? 2); [destruct b; lia|].
  destruct ((m =? 4) || (m =? 6) || (m =? 9) || (m =? 11)); lia.
Qed.

Lemma weekday_spec_lemma : forall f, valid_fields f = true -> int64 (fy f) ->
  get_weekday64 f = OK (weekday_of_days (days_from_civil (fy f) (fm f) (fd f))).
Proof.
  intros f V _. rewrite gw_eq.
  apply valid_fields_iff in V. destruct V as (V & _).
  destruct f as [y m d hh mm ss]. cbn [fy fm fd] in *.
  assert (Hy : y = Z.rem y 400 + 400 * Z.quot y 400) by lia.
  assert (Hr : -399 <= Z.rem y 400 <= 399) by lia.
  set (r := Z.rem y 400) in *. set (q := Z.quot y 400) in *.
  clearbody r q. subst y.
  rewrite valid_date_period in V. rewrite dfc_period, weekday_period.
  pose proof V as V'. apply valid_date_iff in V'. destruct V' as [Hm Hd].
  pose proof (dimb_le_31 (is_leap r) m) as Hle.
  assert (Hd' : 1 <= d <= 31) by lia.
  pose proof (wd_ok_all r m d Hr Hm Hd') as W.
  unfold wd_ok in W. rewrite V in W. cbn [implb] in W.
  destruct (gw r m d) as [w|e]; [|discriminate].
  apply Z.eqb_eq in W. subst w. reflexivity.
Qed.

(* ------------------------------------------------------------------ *)
(* get_yearday                                                         *)

Ltac ev_lookup :=
  match goal with
  | |- context [if ?c then None else nth_error ?t ?i] =>
      let v := eval vm_compute in (if c then @None Z else nth_error t i) in
      change (if c then None else nth_error t i) with v
  end.

Lemma yearday_spec_lemma : forall f, valid_fields f = true -> int64 (fy f) ->
  get_yearday64 f = OK (days_from_civil (fy f) (fm f) (fd f) - days_from_civil (fy f) 1 1 + 1)
  /\ 1 <= days_from_civil (fy f) (fm f) (fd f) - days_from_civil (fy f) 1 1 + 1 <= days_in_year (fy f).
Proof.
  intros f V _.
  apply valid_fields_iff in V. destruct V as (V & _).
  apply valid_date_iff in V. destruct V as [Hm Hd].
  destruct f as [y m d hh mm ss]. cbn [fy fm fd] in *.
  split.
  - unfold get_yearday64; cbn [fy fm fd].
    rewrite is_leap_year64_spec, !dfc_doyb, doyb_first. unfold doyb, b2z.
    clear Hd. generalize ((2 <? m) && is_leap y). intros adj.
    month_cases m; cum_eval; ev_lookup; cbv beta iota; destruct adj; f_equal; lia.
  - rewrite !dfc_doyb, doyb_first.
    pose proof (doyb_bound _ _ _ Hm Hd) as B. unfold days_in_year.
    destruct (is_leap y); lia.
Qed.
