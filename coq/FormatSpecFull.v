(* FormatSpecFull.v — C08, the clause "every other specifier renders as the C
   library's strftime does": format() (FormatImpl.v) equals the token-wise
   specification rendering (FmtSpec.render_spec) for EVERY clean format,
   including formats that mix library specifiers, literal text, "%%" and
   strftime-delegated specifiers.

   In the C++ code literal text and "%%" that follow a pending strftime
   specifier are not copied out directly: they are accumulated in the pending
   run [pending, cur) and handed to strftime together with it (FormatTM), with
   FormatTM's 16x buffer cap.  So the statement needs what strftime does on a
   run of several items.  This is an explicit hypothesis on the oracle
   (strftime_hom / strftime_hom_tail below), and the 16x cap is part of the
   unconditional statement (render_spec_capped); the uncapped corollaries carry
   the "fits" condition as a visible boolean premise. *)
From Coq Require Import Lia ZifyBool.
From CCTZ Require Import Base SrcConstants Cal CivilImpl PosixImpl ZoneLoad FormatImpl FmtSpec FmtProofs.
Local Open Scope Z_scope.
Ltac Zify.zify_post_hook ::= Z.to_euclidean_division_equations.
Local Strategy 200 [lex_fuel fmt_loop].

(* ================================================================== *)
(* Items of a strftime run                                             *)

(* the source text of a token *)
Definition tok_raw (t : ftok) : list Z :=
  match t with
  | FLit c => [c]
  | FPct => [37; 37]
  | FLib _ => []
  | FOther raw => raw
  | FQuirk raw => raw
  end.

(* "% flags* width*" stripped from a conversion specification: what is left *)
Definition spec_tail (raw : list Z) : option (list Z) :=
  match raw with
  | c0 :: r =>
      if c0 =? 37 then
        let '(fl, r1) := take_while_f is_flag r in
        let '(wd, r2) := take_digits_f r1 in Some r2
      else None
  | [] => None
  end.

(* a COMPLETE conversion specification as glibc's strftime delimits it:
   '%', flags [_-0^#+]*, decimal width, optional modifier E or O, then the
   conversion letter (a letter; after a modifier any letter, without a
   modifier any letter but E and O, which would be modifiers) *)
Definition other_wf (raw : list Z) : bool :=
  match spec_tail raw with
  | Some [x] => is_alpha x && negb (x =? 69) && negb (x =? 79)
  | Some [m; x] => ((m =? 69) || (m =? 79)) && is_alpha x
  | _ => false
  end.

(* a specification cut short by the end of the format after its E/O modifier
   ("%5E", "%_O"): only possible as the very last thing in a format *)
Definition dangling (raw : list Z) : bool :=
  match spec_tail raw with
  | Some [m] => (m =? 69) || (m =? 79)
  | _ => false
  end.

(* items a run handed to strftime is made of: a literal byte other than '%'
   and NUL, "%%", or a complete conversion specification *)
Definition run_ok (t : ftok) : bool :=
  match t with
  | FLit c => negb (c =? 37) && negb (c =? 0)
  | FPct => true
  | FOther raw => other_wf raw
  | _ => false
  end.

(* ================================================================== *)
(* The specification with FormatTM's documented limitation              *)

Section Runs.
Variable R : ftok -> list Z.       (* rendering of one token *)

(* FormatTM gives up (appends nothing) when the rendering of the run plus the
   terminating NUL does not fit 16 times the length of the run's text *)
Definition flush_run (run : list ftok) : list Z :=
  let r := flat_map R run in
  if Z.of_nat (length r) + 1 <=? 16 * Z.of_nat (length (flat_map tok_raw run)) then r else [].

(* [run]: the tokens of the pending strftime run.  A strftime specifier opens
   or extends the run; literal text and "%%" are copied out directly when no
   run is open and join the run otherwise; a library specifier closes it. *)
Fixpoint render_runs (ts : list ftok) (run : list ftok) : list Z :=
  match ts with
  | [] => flush_run run
  | t :: ts' =>
    match t with
    | FLib _ => flush_run run ++ R t ++ render_runs ts' []
    | FOther _ => render_runs ts' (run ++ [t])
    | _ => match run with
           | [] => R t ++ render_runs ts' []
           | _ => render_runs ts' (run ++ [t])
           end
    end
  end.

Definition run_fits (run : list ftok) : bool :=
  match run with
  | [] => true
  | _ => Z.of_nat (length (flat_map R run)) + 1 <=? 16 * Z.of_nat (length (flat_map tok_raw run))
  end.

(* every run of the format fits FormatTM's largest buffer *)
Fixpoint runs_fit (ts : list ftok) (run : list ftok) : bool :=
  match ts with
  | [] => run_fits run
  | t :: ts' =>
    match t with
    | FLib _ => run_fits run && runs_fit ts' []
    | FOther _ => runs_fit ts' (run ++ [t])
    | _ => match run with
           | [] => runs_fit ts' []
           | _ => runs_fit ts' (run ++ [t])
           end
    end
  end.

Lemma flush_run_fits run : run_fits run = true -> flush_run run = flat_map R run.
Proof.
  unfold run_fits, flush_run. destruct run as [|t run]; [reflexivity|].
  intros ->. reflexivity.
Qed.

Lemma render_runs_fit : forall ts run, runs_fit ts run = true ->
  render_runs ts run = flat_map R run ++ flat_map R ts.
Proof.
  induction ts as [|t ts IH]; intros run H; cbn [runs_fit render_runs flat_map] in *.
  - rewrite app_nil_r. apply flush_run_fits. exact H.
  - destruct t.
    + destruct run as [|a run'].
      * rewrite IH by exact H. reflexivity.
      * rewrite IH by exact H. rewrite flat_map_app. cbn [flat_map]. rewrite app_nil_r, <- app_assoc. reflexivity.
    + destruct run as [|a run'].
      * rewrite IH by exact H. reflexivity.
      * rewrite IH by exact H. rewrite flat_map_app. cbn [flat_map]. rewrite app_nil_r, <- app_assoc. reflexivity.
    + apply andb_true_iff in H. destruct H as [H1 H2].
      rewrite flush_run_fits by exact H1. rewrite IH by exact H2. reflexivity.
    + rewrite IH by exact H. rewrite flat_map_app. cbn [flat_map]. rewrite app_nil_r, <- app_assoc. reflexivity.
    + destruct run as [|a run'].
      * rewrite IH by exact H. reflexivity.
      * rewrite IH by exact H. rewrite flat_map_app. cbn [flat_map]. rewrite app_nil_r, <- app_assoc. reflexivity.
Qed.
End Runs.

Definition render_spec_capped (o : list Z -> tmrec -> list Z)
    (fmt : list Z) (cs : fields) (off : Z) (abbr : list Z) (fs unix : Z) (tm : tmrec) : list Z :=
  render_runs (fun t => render_tok o t cs off abbr fs unix tm) (lex fmt) [].

(* a simple sufficient condition: each strftime specifier's own rendering (plus
   NUL) fits 16 times its own length *)
Section Fits.
Variable o : list Z -> tmrec -> list Z.
Variables (cs : fields) (off : Z) (abbr : list Z) (fs unix : Z) (tm : tmrec).
Let R := fun t => render_tok o t cs off abbr fs unix tm.

Definition other_fits (t : ftok) : bool :=
  match t with
  | FOther raw => Z.of_nat (length (o raw tm)) + 1 <=? 16 * Z.of_nat (length raw)
  | _ => true
  end.

Lemma runs_fit_others : forall ts run,
  forallb other_fits ts = true ->
  (run = [] \/ Z.of_nat (length (flat_map R run)) + 1 <= 16 * Z.of_nat (length (flat_map tok_raw run))) ->
  runs_fit R ts run = true.
Proof.
  induction ts as [|t ts IH]; intros run H Hb.
  - cbn [runs_fit]. unfold run_fits. destruct run as [|a run']; [reflexivity|].
    destruct Hb as [Hb|Hb]; [discriminate|]. lia.
  - cbn [forallb] in H. apply andb_true_iff in H. destruct H as [Ht H].
    assert (forall x, run <> [] ->
              Z.of_nat (length (R x)) <= 16 * Z.of_nat (length (tok_raw x)) ->
              run ++ [x] = [] \/
              Z.of_nat (length (flat_map R (run ++ [x]))) + 1
              <= 16 * Z.of_nat (length (flat_map tok_raw (run ++ [x])))) as Hext.
    { intros x Hne Hx. right. destruct Hb as [Hb|Hb]; [contradiction|].
      rewrite !flat_map_app, !app_length. cbn [flat_map]. rewrite !app_nil_r. lia. }
    cbn [runs_fit]. destruct t.
    + destruct run as [|a run']; [apply IH; auto|].
      apply IH; [exact H|]. apply Hext; [discriminate|]. cbn. lia.
    + destruct run as [|a run']; [apply IH; auto|].
      apply IH; [exact H|]. apply Hext; [discriminate|]. cbn. lia.
    + apply andb_true_iff. split; [|apply IH; auto].
      unfold run_fits. destruct run as [|a run']; [reflexivity|].
      destruct Hb as [Hb|Hb]; [discriminate|]. lia.
    + apply IH; [exact H|]. right. cbn [other_fits] in Ht.
      rewrite !flat_map_app, !app_length. cbn [flat_map tok_raw]. rewrite !app_nil_r.
      change (R (FOther raw)) with (o raw tm).
      destruct Hb as [->|Hb]; [cbn [flat_map length]; lia|lia].
    + destruct run as [|a run']; [apply IH; auto|].
      apply IH; [exact H|]. apply Hext; [discriminate|]. cbn [tok_raw]. change (R (FQuirk raw)) with raw. lia.
Qed.
End Fits.

Definition strftime_fits (o : list Z -> tmrec -> list Z) (fmt : list Z) (tm : tmrec) : bool :=
  forallb (other_fits o tm) (lex fmt).

(* ================================================================== *)
(* Small list facts                                                    *)

Definition nz (c : Z) : bool := negb (c =? 0).
Definition nq (t : ftok) : bool := match t with FQuirk _ => false | _ => true end.
Definition hd_quirk (l : list ftok) : bool := match l with FQuirk _ :: _ => true | _ => false end.

Lemma forallb_impl {A} (p q : A -> bool) l :
  (forall x, p x = true -> q x = true) -> forallb p l = true -> forallb q l = true.
Proof.
  intros H. induction l as [|x l IH]; [reflexivity|]. cbn [forallb].
  intros E. apply andb_true_iff in E. destruct E as [E1 E2].
  rewrite (H _ E1), (IH E2). reflexivity.
Qed.

Lemma c_str_nz s : forallb nz s = true -> c_str s = s.
Proof.
  induction s as [|c s IH]; [reflexivity|]. cbn [forallb c_str]. intros E.
  apply andb_true_iff in E. destruct E as [E1 E2]. unfold nz in E1.
  destruct (c =? 0); [discriminate|]. rewrite IH by exact E2. reflexivity.
Qed.

Lemma twf_spec p : forall l a b, take_while_f p l = (a, b) ->
  l = a ++ b /\ forallb p a = true /\ p (nthZ b 0) = false \/ l = a ++ b /\ forallb p a = true /\ b = [].
Proof.
  induction l as [|c l IH]; intros a b E; cbn [take_while_f] in E.
  - inversion E; subst. right. auto.
  - destruct (p c) eqn:Ec.
    + destruct (take_while_f p l) as [a' b']. inversion E; subst.
      destruct (IH a' b eq_refl) as [(E1 & E2 & E3)|(E1 & E2 & E3)]; subst l.
      * left. split; [reflexivity|]. split; [cbn [forallb]; rewrite Ec, E2; reflexivity|exact E3].
      * right. split; [reflexivity|]. split; [cbn [forallb]; rewrite Ec, E2; reflexivity|exact E3].
    + inversion E; subst. left. split; [reflexivity|]. split; [reflexivity|exact Ec].
Qed.

Lemma twf_app p : forall a b, forallb p a = true -> p (nthZ b 0) = false -> b <> [] ->
  take_while_f p (a ++ b) = (a, b).
Proof.
  induction a as [|c a IH]; intros b Ha Hb Hne.
  - destruct b as [|x b]; [contradiction|]. cbn [app take_while_f].
    change (nthZ (x :: b) 0) with x in Hb. rewrite Hb. reflexivity.
  - cbn [forallb] in Ha. apply andb_true_iff in Ha. destruct Ha as [Hc Ha].
    cbn [app take_while_f]. rewrite Hc, IH by assumption. reflexivity.
Qed.

Lemma take_digits_twf : forall l, take_digits_f l = take_while_f is_digit l.
Proof.
  induction l as [|c l IH]; [reflexivity|]. cbn [take_digits_f take_while_f]. rewrite IH. reflexivity.
Qed.

Lemma spec_tail_build fl wd tl :
  forallb is_flag fl = true -> forallb is_digit wd = true -> tl <> [] ->
  is_flag (nthZ (wd ++ tl) 0) = false -> is_digit (nthZ tl 0) = false ->
  spec_tail (37 :: fl ++ wd ++ tl) = Some tl.
Proof.
  intros Hf Hd Hne H1 H2. unfold spec_tail. change (37 =? 37) with true. cbv iota.
  rewrite twf_app; [|assumption|assumption|destruct wd; [assumption|discriminate]].
  rewrite take_digits_twf, twf_app by assumption. reflexivity.
Qed.

Lemma spec_tail_inv raw r2 : spec_tail raw = Some r2 ->
  exists fl wd, raw = 37 :: fl ++ wd ++ r2 /\ forallb is_flag fl = true /\ forallb is_digit wd = true.
Proof.
  unfold spec_tail. destruct raw as [|c0 r]; [discriminate|].
  destruct (Z.eqb_spec c0 37) as [->|]; [|discriminate].
  destruct (take_while_f is_flag r) as [fl r1] eqn:E1.
  destruct (take_digits_f r1) as [wd r2'] eqn:E2. intros [= <-].
  rewrite take_digits_twf in E2.
  exists fl, wd.
  destruct (twf_spec _ _ _ _ E1) as [(A1 & A2 & _)|(A1 & A2 & _)];
  destruct (twf_spec _ _ _ _ E2) as [(B1 & B2 & _)|(B1 & B2 & _)]; subst r r1; auto.
Qed.

Lemma flag_nz c : is_flag c = true -> nz c = true.
Proof. unfold is_flag, nz. lia. Qed.
Lemma digit_nz c : is_digit c = true -> nz c = true.
Proof. unfold is_digit, nz. lia. Qed.
Lemma alpha_nz c : is_alpha c = true -> nz c = true.
Proof. unfold is_alpha, nz. lia. Qed.

Lemma other_wf_nz raw : other_wf raw = true -> forallb nz raw = true.
Proof.
  unfold other_wf. destruct (spec_tail raw) as [r2|] eqn:E; [|discriminate].
  destruct (spec_tail_inv _ _ E) as (fl & wd & -> & Hf & Hd).
  intros H. cbn [forallb]. change (nz 37) with true. cbn [andb].
  rewrite !forallb_app.
  rewrite (forallb_impl _ _ _ flag_nz Hf), (forallb_impl _ _ _ digit_nz Hd). cbn [andb].
  destruct r2 as [|x [|y [|z r]]]; try discriminate.
  - cbn [forallb]. unfold is_alpha, nz in *. lia.
  - cbn [forallb]. unfold is_alpha, nz in *. lia.
Qed.

Lemma dangling_nz raw : dangling raw = true -> forallb nz raw = true.
Proof.
  unfold dangling. destruct (spec_tail raw) as [r2|] eqn:E; [|discriminate].
  destruct (spec_tail_inv _ _ E) as (fl & wd & -> & Hf & Hd).
  intros H. cbn [forallb]. change (nz 37) with true. cbn [andb].
  rewrite !forallb_app.
  rewrite (forallb_impl _ _ _ flag_nz Hf), (forallb_impl _ _ _ digit_nz Hd). cbn [andb].
  destruct r2 as [|x [|y r]]; try discriminate.
  cbn [forallb]. unfold nz in *. lia.
Qed.

Lemma run_ok_raw_nz : forall ts, forallb run_ok ts = true -> forallb nz (flat_map tok_raw ts) = true.
Proof.
  induction ts as [|t ts IH]; [reflexivity|]. cbn [forallb flat_map]. intros E.
  apply andb_true_iff in E. destruct E as [E1 E2]. rewrite forallb_app, (IH E2), andb_true_r.
  destruct t; cbn [run_ok tok_raw] in *; try discriminate.
  - cbn [forallb]. unfold nz. lia.
  - reflexivity.
  - apply other_wf_nz. exact E1.
Qed.

Lemma run_ok_raw_ne t : run_ok t = true -> tok_raw t <> [].
Proof.
  destruct t; cbn [run_ok tok_raw]; try discriminate.
  intros H ->. discriminate.
Qed.

Lemma raw_lits lit : flat_map tok_raw (map FLit lit) = lit.
Proof. induction lit as [|c l IH]; [reflexivity|]. cbn [map flat_map tok_raw app]. rewrite IH. reflexivity. Qed.

Lemma raw_pcts k : flat_map tok_raw (repeat FPct k) = repeat 37 (2 * k).
Proof.
  induction k as [|k IH]; [reflexivity|].
  replace (2 * S k)%nat with (S (S (2 * k))) by lia. cbn [repeat flat_map tok_raw app]. rewrite IH. reflexivity.
Qed.

(* what follows a library specifier is a suffix of the text: still NUL-free *)
Lemma nz_tl x l : forallb nz (x :: l) = true -> forallb nz l = true.
Proof. cbn [forallb]. intros H. apply andb_true_iff in H. apply H. Qed.

Lemma cls_digits_nz d r4 k r' : cls_digits d r4 = C_lib k r' -> forallb nz r4 = true -> forallb nz r' = true.
Proof.
  unfold cls_digits. destruct (is_digit d) eqn:Ed; [|discriminate].
  destruct (take_digits_f (d :: r4)) as [ds r5] eqn:Et.
  pose proof (take_digits_spec _ _ _ Et) as (El & _ & _).
  destruct r5 as [|x r6]; [discriminate|].
  intros H Hn.
  assert (forallb nz r6 = true) as G.
  { assert (forallb nz (d :: r4) = true) as Hn' by (cbn [forallb]; rewrite (digit_nz _ Ed), Hn; reflexivity).
    rewrite El, forallb_app in Hn'. apply andb_true_iff in Hn'. destruct Hn' as [_ Hn'].
    apply nz_tl in Hn'. exact Hn'. }
  destruct (x =? 83); [destruct (digits_val ds <=? 1024); [|discriminate]; inversion H; subst; exact G|].
  destruct (x =? 102); [destruct (digits_val ds <=? 1024); [|discriminate]; inversion H; subst; exact G|].
  discriminate.
Qed.

Lemma cls_nz c r3 k r' : cls c r3 = C_lib k r' -> forallb nz r3 = true -> forallb nz r' = true.
Proof.
  unfold cls. destruct (simple_lib c); [intros [= _ <-]; auto|].
  destruct (c =? 58).
  { unfold cls_colon.
    destruct r3 as [|x r4]; [discriminate|].
    destruct (x =? 122); [intros [= _ <-] H; apply nz_tl in H; exact H|]. destruct (x =? 58); [|discriminate].
    destruct r4 as [|y r5]; [discriminate|].
    destruct (y =? 122); [intros [= _ <-] H; do 2 apply nz_tl in H; exact H|]. destruct (y =? 58); [|discriminate].
    destruct r5 as [|z r6]; [discriminate|].
    destruct (z =? 122); [intros [= _ <-] H; do 3 apply nz_tl in H; exact H|discriminate]. }
  destruct (c =? 69); [|discriminate].
  unfold cls_E. destruct r3 as [|d r4]; [discriminate|].
  destruct (d =? 84); [intros [= _ <-] H; apply nz_tl in H; exact H|].
  destruct (d =? 122); [intros [= _ <-] H; apply nz_tl in H; exact H|].
  destruct (d =? 42).
  { destruct r4 as [|x r5]; [discriminate|].
    destruct (x =? 122); [intros [= _ <-] H; do 2 apply nz_tl in H; exact H|].
    destruct (x =? 83); [intros [= _ <-] H; do 2 apply nz_tl in H; exact H|].
    destruct (x =? 102); [intros [= _ <-] H; do 2 apply nz_tl in H; exact H|discriminate]. }
  destruct (d =? 52).
  { destruct r4 as [|x r5]; [intros E H; apply nz_tl in H; exact (cls_digits_nz _ _ _ _ E H)|].
    destruct (x =? 89); [intros [= _ <-] H; do 2 apply nz_tl in H; exact H|].
    intros E H; apply nz_tl in H; exact (cls_digits_nz _ _ _ _ E H). }
  intros E H; apply nz_tl in H; exact (cls_digits_nz _ _ _ _ E H).
Qed.

(* ================================================================== *)
(* The lexer on a strftime specifier                                   *)

Lemma lx_glibc_spec {A} r2 (kEO kx : Z -> list Z -> A) knil :
  lx_glibc r2 kEO kx knil =
  match r2 with
  | [] => knil
  | x :: r3 =>
      if (x =? 69) || (x =? 79) then
        match r3 with y :: r4 => kEO y r4 | [] => kx x [] end
      else kx x r3
  end.
Proof.
  destruct r2 as [|x r3]; [reflexivity|].
  destruct (Z.eqb_spec x 69) as [->|N1]; [destruct r3; reflexivity|].
  destruct (Z.eqb_spec x 79) as [->|N2]; [destruct r3; reflexivity|].
  cbn [orb]. zwalk x.
Qed.

Section LexOther.
Variable rec : list Z -> list ftok.

Definition kc_tail (r : list Z) (c : Z) (r' : list Z) : list ftok :=
  if is_flag c || is_digit c then
    let '(fl, r1) := take_while_f is_flag r in
    let '(wd, r2) := take_digits_f r1 in
    lx_glibc r2
      (fun x r3 =>
        if negb (is_alpha x) then FQuirk (37 :: fl ++ wd) :: rec r2
        else FOther (37 :: fl ++ wd ++ [nthZ r2 0; x]) :: rec r3)
      (fun x r3 =>
        if negb (is_alpha x) then FQuirk (37 :: fl ++ wd) :: rec r2
        else FOther (37 :: fl ++ wd ++ [x]) :: rec r3)
      [FQuirk (37 :: fl ++ wd)]
  else if negb (is_alpha c) then FQuirk [37; c] :: rec r'
  else FOther [37; c] :: rec r'.

Lemma lex_kc_none_eq r c r' : simple_lib c = None -> c <> 0 -> c <> 58 -> c <> 79 ->
  lex_kc rec r c r' = kc_tail r c r'.
Proof.
  intros E N0 N58 N79. apply simple_lib_none in E.
  destruct E as (N1 & N2 & N3 & N4 & N5 & N6 & N7 & N8 & N9 & N10 & N11 & N12 & N13 & N14).
  unfold lex_kc.
  repeat match goal with |- context [if ?x =? ?n then FLib _ :: _ else _] =>
    destruct (Z.eqb_spec x n); [congruence|] end.
  replace ((c =? 0) || (c =? 58) || (c =? 79)) with false by lia.
  reflexivity.
Qed.

Lemma lex_kd_other d r4 : cls_digits d r4 = C_other ->
  hd_quirk (lex_kd rec (d :: r4) d r4) = false ->
  is_alpha d = true /\ lex_kd rec (d :: r4) d r4 = FOther [37; 69; d] :: rec r4.
Proof.
  unfold cls_digits, lex_kd.
  destruct (is_digit d).
  - destruct (take_digits_f (d :: r4)) as [ds r5]. rewrite lx_Sf_spec.
    destruct r5 as [|x r6]; [discriminate|].
    destruct (x =? 83); [destruct (digits_val ds <=? 1024); discriminate|].
    destruct (x =? 102); [destruct (digits_val ds <=? 1024); discriminate|]. discriminate.
  - destruct (is_alpha d); cbn [negb]; [auto|discriminate].
Qed.

Definition npct_all (l : list Z) : bool := forallb (fun c => negb (is_pct c)) l.

Lemma flag_npct c : is_flag c = true -> negb (is_pct c) = true.
Proof. unfold is_flag, is_pct. lia. Qed.
Lemma digit_npct c : is_digit c = true -> negb (is_pct c) = true.
Proof. unfold is_digit, is_pct. lia. Qed.
Lemma alpha_npct c : is_alpha c = true -> negb (is_pct c) = true.
Proof. unfold is_alpha, is_pct. lia. Qed.

Lemma lex_other c r3 : c <> 37 -> c <> 0 -> cls c r3 = C_other ->
  hd_quirk (lex_pct rec (c :: r3)) = false ->
  simple_lib c = None /\ c <> 58 /\
  exists more rest', c :: r3 = more ++ rest' /\
    lex_pct rec (c :: r3) = FOther (37 :: more) :: rec rest' /\
    npct_all more = true /\
    (other_wf (37 :: more) = true \/ (rest' = [] /\ dangling (37 :: more) = true)) /\
    (c = 69 -> exists d, r3 = d :: rest' /\ more = [69; d] /\ is_alpha d = true /\ d <> 84 /\ d <> 122).
Proof.
  intros N37 N0. unfold cls.
  destruct (simple_lib c) as [k|] eqn:Es; [discriminate|].
  intros Hcls Hq. split; [reflexivity|].
  destruct (Z.eqb_spec c 58) as [->|N58].
  { exfalso. unfold lex_pct in Hq. rewrite lx_after_58 in Hq. unfold cls_colon in Hcls.
    assert (lex_kc rec (58 :: r3) 58 r3 = FQuirk [37; 58] :: rec r3) as B by reflexivity.
    rewrite B in Hq.
    destruct r3 as [|x r4]; [discriminate|].
    destruct (x =? 122); [discriminate|]. destruct (x =? 58); [|discriminate].
    destruct r4 as [|y r5]; [discriminate|].
    destruct (y =? 122); [discriminate|]. destruct (y =? 58); [|discriminate].
    destruct r5 as [|z r6]; [discriminate|].
    destruct (z =? 122); discriminate. }
  split; [assumption|].
  destruct (Z.eqb_spec c 69) as [->|N69].
  { change (69 =? 58) with false in Hcls. change (69 =? 69) with true in Hcls. cbv iota in Hcls.
    unfold lex_pct in *.
    change (lx_after (69 :: r3) [FQuirk [37]] (fun ra => FPct :: rec ra) (fun rb => FLib Lcz :: rec rb)
             (fun rc => FLib Lccz :: rec rc) (fun rd => FLib Lcccz :: rec rd)
             (lex_kE rec) (lex_kO rec) (lex_kc rec (69 :: r3))) with (lex_kE rec r3) in *.
    unfold cls_E, lex_kE in *.
    destruct r3 as [|d r4]; [discriminate|].
    assert (d <> 84 /\ d <> 122 /\ cls_digits d r4 = C_other /\
            hd_quirk (lex_kd rec (d :: r4) d r4) = false /\
            lx_E (d :: r4) [FQuirk [37; 69]]
              (fun r2 => FLib LET :: rec r2) (fun r2 => FLib LEz :: rec r2) (fun r2 => FLib LEsz :: rec r2)
              (fun r2 => FLib LEsS :: rec r2) (fun r2 => FLib LEsf :: rec r2) (fun r2 => FLib LE4Y :: rec r2)
              (lex_kd rec (d :: r4)) = lex_kd rec (d :: r4) d r4) as (N84 & N122 & Hd & Hqd & Eq).
    { destruct (Z.eqb_spec d 84) as [->|N1]; [discriminate|].
      destruct (Z.eqb_spec d 122) as [->|N2]; [discriminate|].
      destruct (Z.eqb_spec d 42) as [->|N3].
      { rewrite lx_E_42 in *. destruct r4 as [|x r5]; [auto|].
        destruct (x =? 122); [discriminate|]. destruct (x =? 83); [discriminate|].
        destruct (x =? 102); [discriminate|]. auto. }
      destruct (Z.eqb_spec d 52) as [->|N4].
      { rewrite lx_E_52 in *. destruct r4 as [|x r5]; [auto|].
        destruct (x =? 89); [discriminate|]. auto. }
      rewrite lx_E_other in * by assumption. auto. }
    rewrite Eq. destruct (lex_kd_other d r4 Hd Hqd) as [Ha El]. rewrite El.
    exists [69; d], r4. split; [reflexivity|]. split; [reflexivity|].
    split. { unfold npct_all. cbn [forallb]. rewrite (alpha_npct _ Ha). reflexivity. }
    split.
    { left. unfold other_wf.
      pose proof (spec_tail_build [] [] [69; d] eq_refl eq_refl ltac:(discriminate) eq_refl eq_refl) as S.
      cbn [app] in S. rewrite S, Ha. reflexivity. }
    intros _. exists d. auto. }
  destruct (Z.eqb_spec c 79) as [->|N79].
  { unfold lex_pct in *. rewrite lx_after_79 in *.
    destruct r3 as [|d r2].
    { assert (lex_kc rec [79] 79 [] = FQuirk [37; 79] :: rec []) as B by reflexivity.
      rewrite B in Hq. discriminate. }
    unfold lex_kO in *. destruct (is_alpha d) eqn:Ha; cbn [negb] in *; [|discriminate].
    exists [79; d], r2. split; [reflexivity|]. split; [reflexivity|].
    split. { unfold npct_all. cbn [forallb]. rewrite (alpha_npct _ Ha). reflexivity. }
    split.
    { left. unfold other_wf.
      pose proof (spec_tail_build [] [] [79; d] eq_refl eq_refl ltac:(discriminate) eq_refl eq_refl) as S.
      cbn [app] in S. rewrite S, Ha. reflexivity. }
    intros [=]. }
  unfold lex_pct in *. rewrite lx_after_other in * by assumption.
  rewrite lex_kc_none_eq in * by assumption. unfold kc_tail in *.
  destruct (is_flag c || is_digit c) eqn:Efd.
  - destruct (take_while_f is_flag (c :: r3)) as [fl r1] eqn:Etw.
    destruct (take_digits_f r1) as [wd r2] eqn:Etd.
    rewrite lx_glibc_spec in *.
    rewrite take_digits_twf in Etd.
    assert (c :: r3 = fl ++ wd ++ r2 /\ forallb is_flag fl = true /\ forallb is_digit wd = true /\
            is_flag (nthZ (wd ++ r2) 0) = false /\ is_digit (nthZ r2 0) = false) as (El & Hfl & Hwd & Hnf & Hnd).
    { destruct r2 as [|x r5]; [discriminate|].
      destruct (twf_spec _ _ _ _ Etd) as [(B1 & B2 & B3)|(B1 & B2 & B3)]; [|discriminate].
      destruct (twf_spec _ _ _ _ Etw) as [(A1 & A2 & A3)|(A1 & A2 & A3)].
      - subst r1. auto.
      - subst r1. destruct wd; discriminate. }
    destruct r2 as [|x r5]; [discriminate|].
    change (nthZ (x :: r5) 0) with x in Hnd.
    assert (forall tl, is_flag (nthZ (wd ++ x :: tl) 0) = false) as Hnf'.
    { intros tl. destruct wd as [|w wd']; exact Hnf. }
    destruct ((x =? 69) || (x =? 79)) eqn:EO.
    + assert (is_alpha x = true) as Hax by (unfold is_alpha; lia).
      destruct r5 as [|y r6].
      * (* "%<flags><width>E" cut short by the end of the format *)
        rewrite Hax in *. cbn [negb] in *.
        exists (fl ++ wd ++ [x]), []. split; [rewrite app_nil_r; exact El|]. split; [reflexivity|].
        split.
        { unfold npct_all. rewrite !forallb_app.
          rewrite (forallb_impl _ _ _ flag_npct Hfl), (forallb_impl _ _ _ digit_npct Hwd).
          cbn [forallb]. rewrite (alpha_npct _ Hax). reflexivity. }
        split.
        { right. split; [reflexivity|]. unfold dangling.
          rewrite (spec_tail_build fl wd [x]) by (auto; discriminate). exact EO. }
        intros ->. contradiction.
      * destruct (is_alpha y) eqn:Hay; cbn [negb] in *; [|discriminate].
        change (nthZ (x :: y :: r6) 0) with x.
        exists (fl ++ wd ++ [x; y]), r6.
        split. { rewrite El, <- !app_assoc. reflexivity. } split; [reflexivity|].
        split.
        { unfold npct_all. rewrite !forallb_app.
          rewrite (forallb_impl _ _ _ flag_npct Hfl), (forallb_impl _ _ _ digit_npct Hwd).
          cbn [forallb]. rewrite (alpha_npct _ Hax), (alpha_npct _ Hay). reflexivity. }
        split.
        { left. unfold other_wf.
          rewrite (spec_tail_build fl wd [x; y]) by (auto; discriminate). rewrite EO, Hay. reflexivity. }
        intros ->. contradiction.
    + destruct (is_alpha x) eqn:Hax; cbn [negb] in *; [|discriminate].
      exists (fl ++ wd ++ [x]), r5.
      split. { rewrite El, <- !app_assoc. reflexivity. } split; [reflexivity|].
      split.
      { unfold npct_all. rewrite !forallb_app.
        rewrite (forallb_impl _ _ _ flag_npct Hfl), (forallb_impl _ _ _ digit_npct Hwd).
        cbn [forallb]. rewrite (alpha_npct _ Hax). reflexivity. }
      split.
      { left. unfold other_wf.
        rewrite (spec_tail_build fl wd [x]) by (auto; discriminate).
        apply orb_false_iff in EO. destruct EO as [-> ->]. rewrite Hax. reflexivity. }
      intros ->. contradiction.
  - destruct (is_alpha c) eqn:Hac; cbn [negb] in *; [|discriminate].
    exists [c], r3. split; [reflexivity|]. split; [reflexivity|].
    split. { unfold npct_all. cbn [forallb]. rewrite (alpha_npct _ Hac). reflexivity. }
    split.
    { left. unfold other_wf. apply orb_false_iff in Efd. destruct Efd as [Ef Ed].
      pose proof (spec_tail_build [] [] [c] eq_refl eq_refl ltac:(discriminate) Ef Ed) as S.
      cbn [app] in S. rewrite S, Hac. replace (c =? 69) with false by lia. replace (c =? 79) with false by lia. reflexivity. }
    intros ->. contradiction.
Qed.
End LexOther.

(* ================================================================== *)
(* format() on a strftime specifier, and moving text into the run      *)

Section ImplOther.
Variable o : list Z -> tmrec -> list Z.
Variable rec : list Z -> list Z -> list Z -> res (list Z).
Variable cx : fctx.

Lemma impl_other_plain c r3 r2 pend2 result2 :
  simple_lib c = None -> c <> 37 -> c <> 0 -> c <> 58 -> c <> 69 ->
  odd_tail o rec cx c r3 r2 pend2 result2 = rec r2 pend2 result2.
Proof.
  intros Es N37 N0 N58 N69. unfold odd_tail. cbv zeta.
  rewrite strchr_simple_none by assumption.
  replace (c =? 58) with false by lia. replace (c =? 69) with false by lia. reflexivity.
Qed.

Lemma impl_other_E d r4 r2 pend2 result2 :
  is_alpha d = true -> d <> 84 -> d <> 122 ->
  odd_tail o rec cx 69 (d :: r4) r2 pend2 result2 = rec (d :: r4) (pend2 ++ [69]) result2.
Proof.
  intros Ha N84 N122. unfold odd_tail. cbv zeta.
  change (strchr simple_set 69) with (@None Z). cbv iota.
  change (69 =? 58) with false. cbv iota. change (negb (69 =? 69)) with false. cbv iota.
  replace (d =? 84) with false by lia. replace (d =? 122) with false by lia.
  rewrite e_sel_spec.
  replace (d =? 42) with false by (unfold is_alpha in Ha; lia).
  replace (d =? 52) with false by (unfold is_alpha in Ha; lia).
  replace (is_digit d) with false by (unfold is_alpha, is_digit in *; lia).
  reflexivity.
Qed.

Lemma lit_upd_ne lit P result : P <> [] -> lit_upd lit P result = (result, P ++ lit).
Proof. intros H. destruct lit, P; try reflexivity; contradiction. Qed.

Lemma span_app f : forall a b, forallb f a = true ->
  span_while f (a ++ b) = let '(x, y) := span_while f b in (a ++ x, y).
Proof.
  induction a as [|c a IH]; intros b H.
  - cbn [app]. destruct (span_while f b). reflexivity.
  - cbn [forallb] in H. apply andb_true_iff in H. destruct H as [Hc H].
    cbn [app span_while]. rewrite Hc, IH by exact H. destruct (span_while f b). reflexivity.
Qed.

(* ordinary text examined while something is pending just joins the pending text *)
Lemma body_shift more rest' P result : P <> [] -> npct_all more = true ->
  fmt_body o rec cx (more ++ rest') P result = fmt_body o rec cx rest' (P ++ more) result.
Proof.
  intros HP Hm.
  destruct more as [|m more']; [rewrite app_nil_r; reflexivity|].
  set (more := m :: more') in *.
  assert (P ++ more <> []) as HP' by (destruct P; [contradiction|discriminate]).
  unfold fmt_body.
  assert (exists a b, more ++ rest' = a :: b) as (a & b & Eab) by (eexists _, _; reflexivity).
  rewrite Eab. rewrite <- Eab. clear a b Eab.
  unfold npct_all in Hm. rewrite (span_app _ more rest' Hm).
  destruct rest' as [|x rest''].
  - cbn [span_while]. rewrite lit_upd_ne by exact HP. cbn [span_while length].
    unfold pct_upd. cbn [length]. destruct (P ++ more ++ []) eqn:E; rewrite !app_nil_r in *.
    + contradiction.
    + rewrite <- E. reflexivity.
  - destruct (span_while (fun c => negb (is_pct c)) (x :: rest'')) as [lit' r1].
    rewrite !lit_upd_ne by assumption. rewrite app_assoc. reflexivity.
Qed.
End ImplOther.

Lemma loop_shift o cx f more rest' P result : P <> [] -> npct_all more = true ->
  fmt_loop o f cx (more ++ rest') P result = fmt_loop o f cx rest' (P ++ more) result.
Proof.
  intros HP Hm. destruct f as [|f]; [reflexivity|].
  rewrite !fmt_loop_S. apply body_shift; assumption.
Qed.

(* ================================================================== *)
(* The main invariant                                                  *)

Section Full.
Variable strftime_o : list Z -> tmrec -> list Z.

(* what strftime makes of one item *)
Definition run_render (tm : tmrec) (t : ftok) : list Z :=
  match t with
  | FLit c => [c]
  | FPct => [37]
  | FOther raw => strftime_o raw tm
  | _ => []
  end.

(* strftime on a run that is a concatenation of complete items - literal bytes
   other than '%' and NUL, "%%", complete conversion specifications - is the
   concatenation of the items' renderings (true of glibc's strftime in the C
   locale: ordinary bytes are copied, "%%" gives "%", and the text consumed by
   one conversion is exactly '%' flags width [E|O] letter) *)
Hypothesis strftime_hom : forall ts tm, forallb run_ok ts = true ->
  strftime_o (flat_map tok_raw ts) tm = flat_map (run_render tm) ts.

(* ... also when the format ends in a specification cut short after its E/O
   modifier ("...%5E"): what precedes it is rendered item by item *)
Hypothesis strftime_hom_tail : forall ts tl tm, forallb run_ok ts = true -> dangling tl = true ->
  strftime_o (flat_map tok_raw ts ++ tl) tm = flat_map (run_render tm) ts ++ strftime_o tl tm.

Section Cx.
Variable cx : fctx.
Hypothesis Hcx : cx_ok cx.

Notation R := (RT strftime_o cx (fc_tm cx)).

Lemma R_run : forall ts, forallb run_ok ts = true -> flat_map R ts = flat_map (run_render (fc_tm cx)) ts.
Proof.
  induction ts as [|t ts IH]; [reflexivity|]. cbn [forallb flat_map]. intros E.
  apply andb_true_iff in E. destruct E as [E1 E2]. rewrite (IH E2).
  destruct t; cbn [run_ok] in E1; try discriminate; reflexivity.
Qed.

(* runs that can be pending when the format ends *)
Definition relaxed (its : list ftok) : Prop :=
  forallb run_ok its = true \/
  exists its' d, its = its' ++ [FOther d] /\ forallb run_ok its' = true /\ dangling d = true.

Lemma flush_ok its : relaxed its ->
  flush strftime_o (flat_map tok_raw its) (fc_tm cx) = flush_run R its.
Proof.
  intros Hr.
  assert (strftime_o (c_str (flat_map tok_raw its)) (fc_tm cx) = flat_map R its) as E.
  { destruct Hr as [H|(its' & d & -> & H & Hd)].
    - rewrite c_str_nz by (apply run_ok_raw_nz; exact H).
      rewrite strftime_hom by exact H. symmetry. apply R_run. exact H.
    - rewrite !flat_map_app. cbn [flat_map tok_raw]. rewrite app_nil_r.
      rewrite c_str_nz by (rewrite forallb_app, (run_ok_raw_nz _ H), (dangling_nz _ Hd); reflexivity).
      rewrite strftime_hom_tail by assumption. rewrite (R_run _ H), app_nil_r. reflexivity. }
  unfold flush, flush_run.
  destruct (flat_map tok_raw its) as [|a s] eqn:Es.
  - cbn [length]. destruct (Z.of_nat (length (flat_map R its)) + 1 <=? 16 * Z.of_nat 0) eqn:C; [lia|reflexivity].
  - unfold format_tm. rewrite E. reflexivity.
Qed.

(* literal text and "%%" met with [its] pending: copied out, or absorbed *)
Definition plain (t : ftok) : bool := match t with FLit _ | FPct => true | _ => false end.
Definition absorb (ts its : list ftok) : list Z * list ftok :=
  match its with [] => (flat_map R ts, []) | _ => ([], its ++ ts) end.

Lemma render_runs_plain : forall ts T its, forallb plain ts = true ->
  render_runs R (ts ++ T) its = fst (absorb ts its) ++ render_runs R T (snd (absorb ts its)).
Proof.
  induction ts as [|t ts IH]; intros T its H.
  - destruct its; cbn [app absorb fst snd flat_map]; [reflexivity|]. rewrite app_nil_r. reflexivity.
  - cbn [forallb] in H. apply andb_true_iff in H. destruct H as [Ht H].
    cbn [app render_runs].
    destruct t; cbn [plain] in Ht; try discriminate.
    + destruct its as [|a its'].
      * rewrite IH by exact H. cbn [absorb fst snd flat_map]. rewrite <- app_assoc. reflexivity.
      * rewrite IH by exact H. cbn [absorb fst snd app]. rewrite <- app_assoc. reflexivity.
    + destruct its as [|a its'].
      * rewrite IH by exact H. cbn [absorb fst snd flat_map]. rewrite <- app_assoc. reflexivity.
      * rewrite IH by exact H. cbn [absorb fst snd app]. rewrite <- app_assoc. reflexivity.
Qed.

Lemma plain_lits_pcts lit k : forallb plain (map FLit lit ++ repeat FPct k) = true.
Proof.
  rewrite forallb_app. apply andb_true_iff. split.
  - induction lit; [reflexivity|exact IHlit].
  - induction k; [reflexivity|exact IHk].
Qed.

Lemma run_ok_lits lit : forallb (fun c => negb (is_pct c)) lit = true -> forallb nz lit = true ->
  forallb run_ok (map FLit lit) = true.
Proof.
  induction lit as [|c l IH]; [reflexivity|]. cbn [forallb map run_ok]. intros A B.
  apply andb_true_iff in A. destruct A as [A1 A2]. apply andb_true_iff in B. destruct B as [B1 B2].
  rewrite (IH A2 B2). unfold is_pct, nz in *. lia.
Qed.

Lemma run_ok_pcts k : forallb run_ok (repeat FPct k) = true.
Proof. induction k; [reflexivity|exact IHk]. Qed.

Lemma absorb_run_ok lit k its : forallb run_ok its = true ->
  forallb (fun c => negb (is_pct c)) lit = true -> forallb nz lit = true ->
  forallb run_ok (snd (absorb (map FLit lit ++ repeat FPct k) its)) = true.
Proof.
  intros H A B. destruct its as [|a its']; [reflexivity|].
  cbn [absorb snd]. rewrite !forallb_app, H, run_ok_lits, run_ok_pcts by assumption. reflexivity.
Qed.

(* the two cursor updates of one pass, in terms of the pending items *)
Lemma upd_even its lit pcs k at_end result : forallb run_ok its = true ->
  pcs = repeat 37 (length pcs) -> length pcs = (2 * k)%nat ->
  (let '(result1, pend1) := lit_upd lit (flat_map tok_raw its) result in
   pct_upd pcs pend1 result1 at_end) =
  (result ++ fst (absorb (map FLit lit ++ repeat FPct k) its),
   flat_map tok_raw (snd (absorb (map FLit lit ++ repeat FPct k) its))).
Proof.
  intros H Hp Hk. destruct its as [|a its'].
  - cbn [flat_map absorb fst snd].
    assert (lit_upd lit [] result = (result ++ lit, [])) as ->.
    { destruct lit; [cbn; rewrite app_nil_r; reflexivity|reflexivity]. }
    rewrite (pct_upd_even pcs k) by exact Hk.
    rewrite flat_map_app, RT_lits, RT_pcts, <- app_assoc. reflexivity.
  - assert (flat_map tok_raw (a :: its') <> []) as Hne.
    { cbn [flat_map forallb] in *. apply andb_true_iff in H. destruct H as [Ha _].
      apply run_ok_raw_ne in Ha. destruct (tok_raw a); [contradiction|discriminate]. }
    rewrite lit_upd_ne by exact Hne.
    assert (flat_map tok_raw (a :: its') ++ lit <> []) as Hne'.
    { destruct (flat_map tok_raw (a :: its')); [contradiction|discriminate]. }
    assert (forall res, pct_upd pcs (flat_map tok_raw (a :: its') ++ lit) res at_end
            = (res, (flat_map tok_raw (a :: its') ++ lit) ++ pcs)) as ->.
    { intros res. unfold pct_upd. destruct (flat_map tok_raw (a :: its') ++ lit); [contradiction|].
      destruct pcs; reflexivity. }
    cbn [absorb fst snd]. rewrite app_nil_r.
    rewrite !flat_map_app, raw_lits, raw_pcts, Hp, Hk, <- app_assoc. reflexivity.
Qed.

Lemma upd_odd its lit pcs k result : forallb run_ok its = true ->
  pcs = repeat 37 (length pcs) -> length pcs = (2 * k + 1)%nat ->
  (let '(result1, pend1) := lit_upd lit (flat_map tok_raw its) result in
   pct_upd pcs pend1 result1 false) =
  (result ++ fst (absorb (map FLit lit ++ repeat FPct k) its),
   flat_map tok_raw (snd (absorb (map FLit lit ++ repeat FPct k) its)) ++ [37]).
Proof.
  intros H Hp Hk. destruct its as [|a its'].
  - cbn [flat_map absorb fst snd].
    assert (lit_upd lit [] result = (result ++ lit, [])) as ->.
    { destruct lit; [cbn; rewrite app_nil_r; reflexivity|reflexivity]. }
    rewrite (pct_upd_odd pcs k) by exact Hk.
    rewrite flat_map_app, RT_lits, RT_pcts, <- app_assoc. reflexivity.
  - assert (flat_map tok_raw (a :: its') <> []) as Hne.
    { cbn [flat_map forallb] in *. apply andb_true_iff in H. destruct H as [Ha _].
      apply run_ok_raw_ne in Ha. destruct (tok_raw a); [contradiction|discriminate]. }
    rewrite lit_upd_ne by exact Hne.
    assert (flat_map tok_raw (a :: its') ++ lit <> []) as Hne'.
    { destruct (flat_map tok_raw (a :: its')); [contradiction|discriminate]. }
    assert (forall res, pct_upd pcs (flat_map tok_raw (a :: its') ++ lit) res false
            = (res, (flat_map tok_raw (a :: its') ++ lit) ++ pcs)) as ->.
    { intros res. unfold pct_upd. destruct (flat_map tok_raw (a :: its') ++ lit); [contradiction|].
      destruct pcs; reflexivity. }
    cbn [absorb fst snd]. rewrite app_nil_r.
    rewrite !flat_map_app, raw_lits, raw_pcts, Hp, Hk.
    rewrite repeat_app. cbn [repeat]. rewrite <- !app_assoc. reflexivity.
Qed.

Lemma nz_split a b : forallb nz (a ++ b) = true -> forallb nz a = true /\ forallb nz b = true.
Proof. rewrite forallb_app. intros H. apply andb_true_iff in H. exact H. Qed.

Lemma body_full rec rest its result fl :
  rest <> [] -> (length rest < fl)%nat ->
  forallb nz rest = true -> forallb nq (lex_fuel fl rest) = true -> forallb run_ok its = true ->
  (forall rr its' res fl', (length rr < length rest)%nat -> (length rr < fl')%nat ->
     forallb nz rr = true -> forallb nq (lex_fuel fl' rr) = true -> forallb run_ok its' = true ->
     rec rr (flat_map tok_raw its') res = OK (res ++ render_runs R (lex_fuel fl' rr) its')) ->
  (forall more rest' P res, P <> [] -> npct_all more = true ->
     rec (more ++ rest') P res = rec rest' (P ++ more) res) ->
  (forall p res, rec [] p res = OK (res ++ flush strftime_o p (fc_tm cx))) ->
  fmt_body strftime_o rec cx rest (flat_map tok_raw its) result
  = OK (result ++ render_runs R (lex_fuel fl rest) its).
Proof.
  intros Hne Hfl Hnz Hgood Hits Hrec Hshift Hnil. unfold fmt_body.
  destruct rest as [|c0 rest0]; [contradiction|].
  set (rest := c0 :: rest0) in *.
  destruct (span_while (fun c => negb (is_pct c)) rest) as [lit r1] eqn:E1.
  destruct (span_while is_pct r1) as [pcs r2] eqn:E2.
  destruct (span_two _ _ _ _ _ Hne E1 E2) as [Hl Hn].
  pose proof (span_spec _ _ _ _ E1) as (_ & Hlit & _).
  pose proof (span_spec _ _ _ _ E2) as (_ & Hpcs & Hr2).
  apply all_pct_repeat in Hpcs.
  assert (length rest = length lit + length pcs + length r2)%nat as Hlen
    by (rewrite Hl, !app_length; lia).
  rewrite Hl in Hnz. apply nz_split in Hnz. destruct Hnz as [Hnzl Hnz].
  apply nz_split in Hnz. destruct Hnz as [_ Hnz2].
  cbv zeta.
  destruct (Nat.Even_or_Odd (length pcs)) as [[k Hk]|[k Hk]].
  - (* an even run of percents *)
    pose proof (upd_even its lit pcs k (match r2 with [] => true | _ => false end) result Hits Hpcs Hk) as U.
    destruct (lit_upd lit (flat_map tok_raw its) result) as [result1 pend1].
    rewrite U. clear U.
    replace (Z.rem (Z.of_nat (length pcs)) 2 =? 0) with true by lia.
    assert (lex_fuel fl rest =
            (map FLit lit ++ repeat FPct k) ++ lex_fuel (fl - length lit - k) r2) as EL.
    { replace fl with (length lit + (k + (fl - length lit - k)))%nat at 1 by lia.
      rewrite Hl. rewrite Hpcs at 1. rewrite Hk, lex_lits, lex_pcts, <- app_assoc by assumption. reflexivity. }
    rewrite EL in *. rewrite forallb_app in Hgood.
    apply andb_true_iff in Hgood. destruct Hgood as [_ Hgood].
    rewrite render_runs_plain by apply plain_lits_pcts.
    pose proof (absorb_run_ok lit k its Hits Hlit Hnzl) as Hits2.
    set (ab := absorb (map FLit lit ++ repeat FPct k) its) in *.
    destruct r2 as [|c r3].
    + rewrite lex_fuel_nil. cbn [render_runs].
      rewrite flush_ok by (left; exact Hits2). rewrite <- app_assoc. reflexivity.
    + rewrite (Hrec (c :: r3) _ _ (fl - length lit - k)%nat); [|lia|lia|exact Hnz2|exact Hgood|exact Hits2].
      rewrite <- app_assoc. reflexivity.
  - (* an odd run: the last percent introduces a specifier *)
    assert (exists f3, fl = (length lit + (k + S f3))%nat /\ (k + length r2 < f3)%nat) as (f3 & Efl & Hf3).
    { exists (fl - length lit - k - 1)%nat. lia. }
    assert (lex_fuel fl rest =
            (map FLit lit ++ repeat FPct k) ++ lex_fuel (S f3) (37 :: r2)) as EL.
    { rewrite Efl, Hl. rewrite Hpcs at 1. rewrite Hk.
      rewrite repeat_app.
      cbn [repeat]. rewrite <- (app_assoc (repeat 37 (2 * k)) [37] r2). cbn [app].
      rewrite lex_lits, lex_pcts, <- app_assoc by assumption. reflexivity. }
    rewrite EL in *. rewrite forallb_app in Hgood.
    apply andb_true_iff in Hgood. destruct Hgood as [_ Hgood].
    destruct r2 as [|c r3].
    { rewrite lex_fuel_pct_end in Hgood. discriminate. }
    pose proof (upd_odd its lit pcs k result Hits Hpcs Hk) as U.
    destruct (lit_upd lit (flat_map tok_raw its) result) as [result1 pend1].
    rewrite U. clear U.
    replace (Z.rem (Z.of_nat (length pcs)) 2 =? 0) with false by lia.
    rewrite render_runs_plain by apply plain_lits_pcts.
    pose proof (absorb_run_ok lit k its Hits Hlit Hnzl) as Hits2.
    set (ab := absorb (map FLit lit ++ repeat FPct k) its) in *.
    assert (c <> 37) as N37 by (unfold is_pct in Hr2; lia).
    assert (c <> 0) as N0 by (cbn [forallb] in Hnz2; unfold nz in Hnz2; lia).
    rewrite lex_fuel_pct in Hgood |- *.
    pose proof (lex_pct_cls (lex_fuel f3) c r3 N37) as Hc.
    destruct (cls c r3) as [k' r'|] eqn:Ecls.
    + (* a library specifier: the run is flushed *)
      rewrite Hc in *. cbn [forallb] in Hgood.
      pose proof (cls_len _ _ _ _ Ecls) as Hlen'. cbn [length] in *.
      rewrite (impl_cls strftime_o rec cx Hcx c r3 (c :: r3) _ _ k' r' N37 Ecls).
      rewrite removelast_last.
      rewrite flush_ok by (left; exact Hits2).
      assert (forallb nz r' = true) as Hnzr.
      { apply nz_tl in Hnz2. exact (cls_nz _ _ _ _ Ecls Hnz2). }
      rewrite (Hrec r' [] _ f3); [|lia|lia|exact Hnzr|exact Hgood|reflexivity].
      cbn [render_runs]. rewrite <- !app_assoc. reflexivity.
    + (* a strftime specifier: it joins the run *)
      assert (hd_quirk (lex_pct (lex_fuel f3) (c :: r3)) = false) as Hq.
      { destruct (lex_pct (lex_fuel f3) (c :: r3)) as [|t l]; [reflexivity|].
        cbn [forallb] in Hgood. destruct t; try reflexivity. discriminate. }
      destruct (lex_other (lex_fuel f3) c r3 N37 N0 Ecls Hq)
        as (Es & N58 & more & rest' & Esplit & Elex & Hm & Hwf & HE).
      rewrite Elex in *. cbn [forallb nq] in Hgood. cbn [render_runs].
      assert (forallb nz rest' = true) as Hnzr.
      { rewrite Esplit in Hnz2. apply nz_split in Hnz2. apply Hnz2. }
      assert (length (c :: r3) = length more + length rest')%nat as Hlen3
        by (rewrite Esplit, app_length; reflexivity).
      cbn [length] in Hlen3, Hlen.
      set (its3 := snd ab ++ [FOther (37 :: more)]).
      assert (flat_map tok_raw its3 = flat_map tok_raw (snd ab) ++ 37 :: more) as Eraw.
      { unfold its3. rewrite flat_map_app. cbn [flat_map tok_raw]. rewrite app_nil_r. reflexivity. }
      assert (rec rest' (flat_map tok_raw its3) (result ++ fst ab)
              = OK ((result ++ fst ab) ++ render_runs R (lex_fuel f3 rest') its3)) as Hfin.
      { destruct Hwf as [Hwf|[-> Hd]].
        - apply Hrec; [lia|lia|exact Hnzr|exact Hgood|].
          unfold its3. rewrite forallb_app, Hits2. cbn [forallb run_ok]. rewrite Hwf. reflexivity.
        - rewrite Hnil, lex_fuel_nil. cbn [render_runs].
          rewrite flush_ok; [reflexivity|]. right. exists (snd ab), (37 :: more). auto. }
      rewrite Eraw in Hfin.
      destruct (Z.eqb_spec c 69) as [->|N69].
      * destruct (HE eq_refl) as (d & -> & -> & Ha & N84 & N122).
        rewrite impl_other_E by assumption.
        rewrite (Hshift [d] rest') by
          (try (unfold npct_all; cbn [forallb]; rewrite (alpha_npct _ Ha); reflexivity);
           destruct (flat_map tok_raw (snd ab) ++ [37]); discriminate).
        rewrite <- !app_assoc. cbn [app]. rewrite Hfin, <- app_assoc. reflexivity.
      * rewrite impl_other_plain by assumption.
        rewrite Esplit. rewrite (Hshift more rest') by
          (try assumption; destruct (flat_map tok_raw (snd ab)); discriminate).
        rewrite <- !app_assoc. cbn [app]. rewrite Hfin, <- app_assoc. reflexivity.
Qed.
Lemma loop_full : forall fuel rest its result fl,
  (length rest < fuel)%nat -> (length rest < fl)%nat ->
  forallb nz rest = true -> forallb nq (lex_fuel fl rest) = true -> forallb run_ok its = true ->
  fmt_loop strftime_o fuel cx rest (flat_map tok_raw its) result
  = OK (result ++ render_runs R (lex_fuel fl rest) its).
Proof.
  induction fuel as [|f IH]; intros rest its result fl L1 L2 Hnz G Hits; [lia|].
  rewrite fmt_loop_S.
  destruct rest as [|c0 rest0].
  - rewrite lex_fuel_nil. cbn [render_runs]. unfold fmt_body.
    rewrite flush_ok by (left; exact Hits). reflexivity.
  - apply body_full; try assumption; [discriminate| | |].
    + intros rr its' res fl' La Lb Hn Gr Hi. apply IH; try assumption. lia.
    + intros more rest' P res HP Hm. apply loop_shift; assumption.
    + intros p res. destruct f as [|f']; [cbn [length] in L1; lia|].
      rewrite fmt_loop_S. reflexivity.
Qed.
End Cx.

Definition al_ok (al : alookup) : Prop :=
  valid_fields (al_cs al) = true /\ int64 (fy (al_cs al)) /\ -93599 <= al_off al <= 93599.

(* format() = the specification's rendering with FormatTM's documented 16x
   limitation, for EVERY clean format; no condition on sizes *)
Theorem format_spec_capped : forall fmt al fs unix,
  clean_fmt fmt = true -> al_ok al -> 0 <= fs < 10 ^ 15 -> int64 unix ->
  format_impl strftime_o fmt al fs unix
  = OK (render_spec_capped strftime_o fmt (al_cs al) (al_off al) (al_abbr al) fs unix
          (spec_tm (al_cs al) (al_dst al))).
Proof.
  intros fmt al fs unix Hclean Hal Hfs Hu.
  apply andb_true_iff in Hclean. destruct Hclean as [Hnz Hlex].
  unfold format_impl. rewrite to_tm_spec_lemma by exact Hal. cbn [bind].
  pose proof (cx_ok_mk al fs unix Hal Hfs Hu) as Hcx.
  unfold render_spec_capped. unfold lex in *.
  change (forallb nq (lex_fuel (S (length fmt)) fmt) = true) in Hlex.
  change (forallb nz fmt = true) in Hnz.
  assert (length fmt < 2 * length fmt + 2)%nat as L1 by lia.
  assert (length fmt < S (length fmt))%nat as L2 by lia.
  pose proof (loop_full _ Hcx (2 * length fmt + 2) fmt [] [] (S (length fmt)) L1 L2 Hnz Hlex eq_refl) as E.
  set (L := lex_fuel (S (length fmt)) fmt) in *. clearbody L.
  cbn [flat_map] in E. rewrite E. reflexivity.
Qed.

(* every strftime run of the format fits FormatTM's largest (16x) buffer *)
Definition fmt_runs_fit (fmt : list Z) (cs : fields) (off : Z) (abbr : list Z) (fs unix : Z) (tm : tmrec) : bool :=
  runs_fit (fun t => render_tok strftime_o t cs off abbr fs unix tm) (lex fmt) [].

Theorem format_spec_full_runs : forall fmt al fs unix,
  clean_fmt fmt = true -> al_ok al -> 0 <= fs < 10 ^ 15 -> int64 unix ->
  fmt_runs_fit fmt (al_cs al) (al_off al) (al_abbr al) fs unix (spec_tm (al_cs al) (al_dst al)) = true ->
  format_impl strftime_o fmt al fs unix
  = OK (render_spec strftime_o fmt (al_cs al) (al_off al) (al_abbr al) fs unix
          (spec_tm (al_cs al) (al_dst al))).
Proof.
  intros fmt al fs unix Hclean Hal Hfs Hu Hfit.
  rewrite format_spec_capped by assumption.
  unfold render_spec_capped, render_spec, fmt_runs_fit in *.
  rewrite render_runs_fit by exact Hfit. reflexivity.
Qed.
(* THE theorem: for every clean format - literal text, "%%", library
   specifiers and strftime specifiers in any mixture - format() is exactly the
   specification's token-wise rendering, provided each strftime specifier's
   own rendering fits FormatTM's 16x buffer (the documented limitation; it
   holds for every unpadded C-locale conversion, and fails e.g. for "%99d") *)
Theorem format_spec_full : forall fmt al fs unix,
  clean_fmt fmt = true -> al_ok al -> 0 <= fs < 10 ^ 15 -> int64 unix ->
  strftime_fits strftime_o fmt (spec_tm (al_cs al) (al_dst al)) = true ->
  format_impl strftime_o fmt al fs unix
  = OK (render_spec strftime_o fmt (al_cs al) (al_off al) (al_abbr al) fs unix
          (spec_tm (al_cs al) (al_dst al))).
Proof.
  intros fmt al fs unix Hclean Hal Hfs Hu Hfit.
  apply format_spec_full_runs; try assumption.
  unfold fmt_runs_fit. apply runs_fit_others; [exact Hfit|left; reflexivity].
Qed.
End Full.

(* ================================================================== *)
(* Non-vacuity: a concrete oracle satisfying both hypotheses            *)

(* "%%" -> "%", "%a" -> the C locale's abbreviated weekday name, every other
   conversion specification is copied through unchanged (what glibc does for
   conversions it does not know), ordinary bytes are copied *)
Definition wday_names : list (list Z) :=
  [[83;117;110]; [77;111;110]; [84;117;101]; [87;101;100]; [84;104;117]; [70;114;105]; [83;97;116]].
Definition demo_a (tm : tmrec) : list Z := nth (Z.to_nat (tm_wday tm)) wday_names [63].

Fixpoint demo (tm : tmrec) (s : list Z) : list Z :=
  match s with
  | [] => []
  | c :: r =>
      if c =? 37 then
        match r with
        | [] => [37]
        | d :: r' =>
            if d =? 37 then 37 :: demo tm r'
            else if d =? 97 then demo_a tm ++ demo tm r'
            else 37 :: demo tm r
        end
      else c :: demo tm r
  end.
Definition demo_o (s : list Z) (tm : tmrec) : list Z := demo tm s.

Lemma demo_body tm : forall B rest, npct_all B = true -> demo tm (B ++ rest) = B ++ demo tm rest.
Proof.
  induction B as [|b B IH]; intros rest H; [reflexivity|].
  unfold npct_all in *. cbn [forallb] in H. apply andb_true_iff in H. destruct H as [Hb H].
  cbn [app demo]. unfold is_pct in Hb. destruct (b =? 37); [discriminate|].
  rewrite IH by exact H. reflexivity.
Qed.

Lemma demo_spec tm raw rest : other_wf raw = true ->
  demo tm (raw ++ rest) = demo tm raw ++ demo tm rest.
Proof.
  unfold other_wf. destruct (spec_tail raw) as [r2|] eqn:E; [|discriminate].
  destruct (spec_tail_inv _ _ E) as (fl & wd & -> & Hf & Hd). intros H.
  set (B := fl ++ wd ++ r2).
  assert (npct_all B = true) as HB.
  { unfold B, npct_all. rewrite !forallb_app.
    rewrite (forallb_impl _ _ _ flag_npct Hf), (forallb_impl _ _ _ digit_npct Hd). cbn [andb].
    destruct r2 as [|x [|y [|z r]]]; try discriminate; cbn [forallb]; unfold is_alpha, is_pct in *; lia. }
  assert (exists b0 B', B = b0 :: B' /\ (b0 = 97 -> B' = [])) as (b0 & B' & EB & Ha).
  { unfold B. destruct fl as [|f fl'].
    - destruct wd as [|w wd'].
      + destruct r2 as [|x [|y [|z r]]]; try discriminate.
        * exists x, []. auto.
        * exists x, [y]. split; [reflexivity|]. intros ->. discriminate.
      + exists w, (wd' ++ r2). split; [reflexivity|]. intros ->. discriminate.
    - exists f, (fl' ++ wd ++ r2). split; [reflexivity|]. intros ->. discriminate. }
  change (37 :: fl ++ wd ++ r2) with (37 :: B). rewrite EB in *.
  assert (b0 <> 37) as N37.
  { unfold npct_all in HB. cbn [forallb] in HB. unfold is_pct in HB. lia. }
  cbn [app demo]. change (37 =? 37) with true. cbv iota.
  replace (b0 =? 37) with false by lia.
  destruct (Z.eqb_spec b0 97) as [->|N97].
  - rewrite (Ha eq_refl). cbn [app demo]. rewrite app_nil_r. reflexivity.
  - unfold npct_all in HB. cbn [forallb] in HB. apply andb_true_iff in HB. destruct HB as [_ HB].
    pose proof (demo_body tm B' [] HB) as E0. rewrite app_nil_r in E0. cbn [demo] in E0.
    rewrite (demo_body tm B' rest HB), E0. cbn [app].
    rewrite <- app_assoc. reflexivity.
Qed.

Lemma demo_hom_gen : forall ts rest tm, forallb run_ok ts = true ->
  demo_o (flat_map tok_raw ts ++ rest) tm = flat_map (run_render demo_o tm) ts ++ demo_o rest tm.
Proof.
  unfold demo_o. induction ts as [|t ts IH]; intros rest tm H; [reflexivity|].
  cbn [forallb flat_map] in *. apply andb_true_iff in H. destruct H as [Ht H].
  rewrite <- !app_assoc.
  destruct t; cbn [run_ok] in Ht; try discriminate; cbn [tok_raw run_render].
  - cbn [app demo]. replace (c =? 37) with false by lia. rewrite IH by exact H. reflexivity.
  - cbn [app demo]. change (37 =? 37) with true. cbv iota. rewrite IH by exact H. reflexivity.
  - rewrite demo_spec by exact Ht. rewrite IH by exact H. reflexivity.
Qed.

Lemma demo_hom : forall ts tm, forallb run_ok ts = true ->
  demo_o (flat_map tok_raw ts) tm = flat_map (run_render demo_o tm) ts.
Proof.
  intros ts tm H. pose proof (demo_hom_gen ts [] tm H) as E. rewrite !app_nil_r in E. exact E.
Qed.

Lemma demo_hom_tail : forall ts tl tm, forallb run_ok ts = true -> dangling tl = true ->
  demo_o (flat_map tok_raw ts ++ tl) tm = flat_map (run_render demo_o tm) ts ++ demo_o tl tm.
Proof. intros ts tl tm H _. apply demo_hom_gen. exact H. Qed.

(* the theorems instantiated: no hypothesis on the oracle is left *)
Theorem format_spec_capped_demo : forall fmt al fs unix,
  clean_fmt fmt = true -> al_ok al -> 0 <= fs < 10 ^ 15 -> int64 unix ->
  format_impl demo_o fmt al fs unix
  = OK (render_spec_capped demo_o fmt (al_cs al) (al_off al) (al_abbr al) fs unix
          (spec_tm (al_cs al) (al_dst al))).
Proof. exact (format_spec_capped demo_o demo_hom demo_hom_tail). Qed.

Theorem format_spec_full_demo : forall fmt al fs unix,
  clean_fmt fmt = true -> al_ok al -> 0 <= fs < 10 ^ 15 -> int64 unix ->
  strftime_fits demo_o fmt (spec_tm (al_cs al) (al_dst al)) = true ->
  format_impl demo_o fmt al fs unix
  = OK (render_spec demo_o fmt (al_cs al) (al_off al) (al_abbr al) fs unix
          (spec_tm (al_cs al) (al_dst al))).
Proof. exact (format_spec_full demo_o demo_hom demo_hom_tail). Qed.

(* 2024-02-29 23:59:58.5 -05:00 "EST", a Thursday *)
Definition ex_al : alookup := mkAL (mkF 2024 2 29 23 59 58) (-18000) false [69; 83; 84].

(* "%a, %d %b %Y%%%H:%M:%E3S %Ez (%Z)": strftime gets the runs "%a, " and " %b ";
   -> "Thu, 29 %b 2024%23:59:58.500 -05:00 (EST)" *)
Definition ex_fmt : list Z :=
  [37;97;44;32;37;100;32;37;98;32;37;89;37;37;37;72;58;37;77;58;37;69;51;83;32;37;69;122;32;40;37;90;41].

Example format_spec_full_nonvacuous :
  clean_fmt ex_fmt = true /\
  strftime_fits demo_o ex_fmt (spec_tm (al_cs ex_al) (al_dst ex_al)) = true /\
  format_impl demo_o ex_fmt ex_al 500000000000000 1709269198
  = OK [84;104;117;44;32;50;57;32;37;98;32;50;48;50;52;37;50;51;58;53;57;58;53;56;46;53;48;48;32;
        45;48;53;58;48;48;32;40;69;83;84;41] /\
  render_spec demo_o ex_fmt (al_cs ex_al) (al_off ex_al) (al_abbr ex_al) 500000000000000 1709269198
    (spec_tm (al_cs ex_al) (al_dst ex_al))
  = [84;104;117;44;32;50;57;32;37;98;32;50;48;50;52;37;50;51;58;53;57;58;53;56;46;53;48;48;32;
     45;48;53;58;48;48;32;40;69;83;84;41].
Proof. vm_compute. repeat split. Qed.

(* percent parity, literal text inside a run, a strftime specifier right
   before each kind of library specifier, glibc flag/width/modifier forms, a
   modifier cut short by the end of the format: all clean, all covered *)
Definition ex_tricky : list (list Z) :=
  [ [37;37;37;97];                    (* %%%a   *)
    [37;97;37;37];                    (* %a%%   *)
    [37;97;37;37;37;100];             (* %a%%%d *)
    [37;97;32;120;32;37;98];          (* %a x %b *)
    [37;97;37;69;42;122];             (* %a%E*z *)
    [37;97;37;58;122];                (* %a%:z  *)
    [37;97;37;69;52;89];              (* %a%E4Y *)
    [37;97;37;69;51;102];             (* %a%E3f *)
    [37;95;53;100];                   (* %_5d   *)
    [37;49;48;89];                    (* %10Y   *)
    [37;69;121];                      (* %Ey    *)
    [37;79;100];                      (* %Od    *)
    [37;69;89];                       (* %EY    *)
    [37;79;83;37;83];                 (* %OS%S  *)
    [37;97;37;53;69] ].               (* %a%5E  *)

Definition list_eqb (a b : list Z) : bool :=
  Nat.eqb (length a) (length b) && forallb (fun p => fst p =? snd p) (combine a b).

Example format_spec_full_tricky :
  forallb (fun f =>
    clean_fmt f && strftime_fits demo_o f (spec_tm (al_cs ex_al) (al_dst ex_al)) &&
    match format_impl demo_o f ex_al 500000000000000 1709269198 with
    | OK r => list_eqb r
                (render_spec demo_o f (al_cs ex_al) (al_off ex_al) (al_abbr ex_al) 500000000000000 1709269198
                   (spec_tm (al_cs ex_al) (al_dst ex_al)))
    | Err _ => false
    end) ex_tricky = true.
Proof. vm_compute. reflexivity. Qed.

(* the "fits" premise cannot be dropped: an oracle satisfying both hypotheses
   whose "%c" is 40 bytes long (> 16 * 2 - 1): FormatTM gives up and format()
   returns the empty string, which render_spec_capped predicts *)
Fixpoint wide (tm : tmrec) (s : list Z) : list Z :=
  match s with
  | [] => []
  | c :: r =>
      if c =? 37 then
        match r with
        | [] => [37]
        | d :: r' =>
            if d =? 37 then 37 :: wide tm r'
            else if d =? 99 then repeat 120 40 ++ wide tm r'
            else 37 :: wide tm r
        end
      else c :: wide tm r
  end.

Example cap_is_real :
  let f := [37; 99] in
  clean_fmt f = true /\
  format_impl (fun s tm => wide tm s) f ex_al 0 0 = OK [] /\
  render_spec_capped (fun s tm => wide tm s) f (al_cs ex_al) (al_off ex_al) (al_abbr ex_al) 0 0
    (spec_tm (al_cs ex_al) (al_dst ex_al)) = [] /\
  render_spec (fun s tm => wide tm s) f (al_cs ex_al) (al_off ex_al) (al_abbr ex_al) 0 0
    (spec_tm (al_cs ex_al) (al_dst ex_al)) = repeat 120 40.
Proof. vm_compute. repeat split. Qed.

(* why strftime_hom_tail is there: FmtSpec.lex classifies a specification whose
   E/O modifier is cut short by the end of the format as a strftime token when
   flags or a width precede the modifier ("%5E"), although "%E" and "%O" alone
   are FQuirk; such a token is not a complete conversion specification
   (other_wf fails: followed by a letter it would be one specification with it),
   so it is only ever the LAST item of a run *)
Example lex_dangling_modifier :
  lex [37; 53; 69] = [FOther [37; 53; 69]] /\ lex [37; 69] = [FQuirk [37; 69]] /\
  clean_fmt [37; 53; 69] = true /\ other_wf [37; 53; 69] = false /\ dangling [37; 53; 69] = true.
Proof. vm_compute. repeat split. Qed.

Check format_spec_capped.
Check format_spec_full_runs.
Check format_spec_full.
Print Assumptions format_spec_capped.
Print Assumptions format_spec_full_runs.
Print Assumptions format_spec_full.
Print Assumptions format_spec_capped_demo.
Print Assumptions format_spec_full_demo.
