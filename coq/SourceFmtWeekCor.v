(* SourceFmtWeekCor.v - the representability side conditions of the source-derived ToWeek / FromWeek /
   format-loop ties (SourceFmtWeekProofs.v, SourceFmtLoopSrcProofs.v) discharged from simple facts:
   the argument is a valid civil day with an int64 year, 0 <= week_start <= 6, 0 <= week_num <= 53.
   The intermediate civil-time values (d, p, cd0, cdm, cdn, cd) are shown to exist, to be valid calendar
   days of a year within one of (year % 400), hence to satisfy [fields_repr]. *)
From Coq Require Import ZArith List Lia Bool ZifyBool.
From CCTZ Require Import Base SrcConstants Cal CivilImpl PosixImpl ZoneLoad FormatImpl ParseImpl
  CalProofs WeekdayProofs CivilNorm CivilDiff FmtProofs FinishZone.
From CCTZ Require Import SourcePosix SourceFmtLoop SourceFmtLoopProofs.
From CCTZ Require Import Source64 Source64Proofs Source64MoreProofs SourceFmtWeek SourceFmtWeekProofs
  SourceFmtLoopSrcProofs.
Import ListNotations.
Local Open Scope Z_scope.
Local Ltac Zify.zify_post_hook ::= Z.to_euclidean_division_equations.
Local Strategy 100 [civil_of_seconds civil_of_days days_from_civil].
Local Notation cos := civil_of_seconds.

Local Ltac i64 := unfold int64, min64, max64 in *; lia.

(* ------------------------------------------------------------------ *)
(* valid civil times are representable                                  *)

Lemma valid_repr f : valid_fields f = true -> int64 (fy f) -> fields_repr f.
Proof.
  intros V I. pose proof (valid_fields_inv _ V) as (Vd & Hh & Hm & Hs).
  pose proof (valid_date_inv _ _ _ Vd) as [Hmo Hd]. pose proof (dim_range (fy f) (fm f)).
  unfold fields_repr. split; [exact I|lia].
Qed.

Lemma tiny_int64 r y : -399 <= r <= 399 -> r - 1 <= y <= r + 1 -> int64 y.
Proof. intros. i64. Qed.

(* ------------------------------------------------------------------ *)
(* week_start read back from a successful prev_weekday                  *)

Lemma find_from_nth tbl w : forall fuel i j, find_from fuel tbl w i = OK j -> nth_error tbl j = Some w.
Proof.
  induction fuel as [|fuel IH]; intros i j H; cbn [find_from] in H; [discriminate|].
  destruct (nth_error tbl i) as [x|] eqn:E; [|discriminate].
  destruct (Z.eqb_spec x w) as [->|N].
  - injection H as <-. exact E.
  - apply IH in H. exact H.
Qed.

Lemma prev_weekday64_wd f wd p : prev_weekday64 f wd = OK p -> 0 <= wd <= 6.
Proof.
  intros H. unfold prev_weekday64 in H.
  apply bind_ok in H. destruct H as (b & _ & H).
  apply bind_ok in H. destruct H as (i & _ & H).
  apply bind_ok in H. destruct H as (j & H & _).
  apply find_from_nth in H. apply nth_error_In in H.
  apply (in_range src_k_weekdays_back 0 6 wd); [vm_compute; reflexivity|exact H].
Qed.

Lemma next_weekday64_wd f wd p : next_weekday64 f wd = OK p -> 0 <= wd <= 6.
Proof.
  intros H. unfold next_weekday64 in H.
  apply bind_ok in H. destruct H as (b & _ & H).
  apply bind_ok in H. destruct H as (i & _ & H).
  apply bind_ok in H. destruct H as (j & H & _).
  apply find_from_nth in H. apply nth_error_In in H.
  apply (in_range src_k_weekdays_forw 0 6 wd); [vm_compute; reflexivity|exact H].
Qed.

(* ------------------------------------------------------------------ *)
(* ToWeek: the intermediate values                                      *)

Lemma to_week_steps y m d ws : valid_date y m d = true -> int64 y -> 0 <= ws <= 6 ->
  let r := Z.rem y 400 in
  exists p,
    construct64 3 r m d 0 0 0 = OK (mkF r m d 0 0 0) /\
    prev_weekday64 (mkF r 1 1 0 0 0) ws = OK p /\
    valid_fields (mkF r m d 0 0 0) = true /\ -399 <= r <= 399 /\
    valid_fields p = true /\ r - 1 <= fy p <= r + 1.
Proof.
  intros V Iy Hws r.
  assert (Hy : y = Z.rem y 400 + 400 * Z.quot y 400) by lia.
  assert (Hr : -399 <= Z.rem y 400 <= 399) by lia.
  fold r in Hy, Hr. set (q := Z.quot y 400) in *. clearbody r q.
  set (J := days_from_civil r 1 1).
  assert (Vr : valid_date r m d = true) by (rewrite <- (valid_date_period r m d q), <- Hy; exact V).
  pose proof (valid_date_inv _ _ _ Vr) as [Hm Hd].
  pose proof (dim_range r m) as Hdim.
  assert (Vf0 : valid_fields (mkF r m d 0 0 0) = true)
    by (apply valid_fields_intro; cbn [fy fm fd fhh fmm fss]; auto; lia).
  assert (Vf1 : valid_fields (mkF r 1 1 0 0 0) = true)
    by (apply valid_fields_intro; cbn [fy fm fd fhh fmm fss]; try lia; apply valid_first; lia).
  destruct (prev_weekday_spec_lemma (mkF r 1 1 0 0 0) ws Vf1 ltac:(cbn; auto) ltac:(cbn [fy]; i64) Hws)
    as (k & Hk & _ & _ & Hprev).
  cbn [fy fm fd] in Hprev. fold J in Hprev.
  pose proof (day_year_bounds r (J - k) ltac:(fold J; lia)) as Y0.
  exists (cos ((J - k) * 86400)).
  split.
  { rewrite construct_refines_lemma; try i64.
    - rewrite norm_spec_valid by assumption. reflexivity.
    - destruct (carry_id r m Hm) as [-> _]. i64.
    - rewrite norm_spec_valid by assumption. cbn [fy]. i64. }
  split; [apply Hprev; i64|].
  split; [exact Vf0|]. split; [exact Hr|]. split; [apply valid_cos|exact Y0].
Qed.

(* to_week and sw_ToWeek read only the year, month and day of their argument *)
Lemma to_week_ymd cd ws : to_week cd ws = to_week (mkF (fy cd) (fm cd) (fd cd) 0 0 0) ws.
Proof. reflexivity. Qed.

Lemma to_week_range y m d ws : valid_date y m d = true -> int64 y -> 0 <= ws <= 6 ->
  exists w, to_week (mkF y m d 0 0 0) ws = OK w /\ 0 <= w <= 53.
Proof.
  intros V Iy Hws.
  destruct (to_week_core y m d ws V Iy Hws) as (J & q & k & Hk & _ & Ew & Byd & _).
  eexists. split; [exact Ew|].
  set (yd := days_from_civil y m d - days_from_civil y 1 1) in *. clearbody yd. lia.
Qed.

(* ToWeek on a valid date: both the model and the source-derived function answer, with the same week 0..53 *)
Theorem src_to_week_valid_date : forall cd ws,
  valid_date (fy cd) (fm cd) (fd cd) = true -> int64 (fy cd) -> 0 <= ws <= 6 ->
  exists w, to_week cd ws = OK w /\ sw_ToWeek s64_fuel cd ws = OK w /\ 0 <= w <= 53.
Proof.
  intros cd ws V Iy Hws.
  destruct (to_week_steps _ _ _ ws V Iy Hws) as (p & Hd & Hp & Vd & Hr & Vp & Yp).
  destruct (to_week_range _ _ _ ws V Iy Hws) as (w & Hw & Bw).
  rewrite <- to_week_ymd in Hw.
  exists w. split; [exact Hw|]. split; [|exact Bw].
  apply (sw_ToWeek_tie cd ws _ p w Hd Hp).
  - apply valid_repr; [exact Vd|]. cbn [fy]. i64.
  - apply valid_repr; [exact Vp|]. exact (tiny_int64 _ _ Hr Yp).
  - exact Hw.
  - unfold int32, min32, max32. lia.
Qed.

Theorem src_to_week_valid : forall cd ws,
  valid_fields cd = true -> (fhh cd = 0 /\ fmm cd = 0 /\ fss cd = 0) -> int64 (fy cd) -> 0 <= ws <= 6 ->
  exists w, to_week cd ws = OK w /\ sw_ToWeek s64_fuel cd ws = OK w /\ 0 <= w <= 53.
Proof.
  intros cd ws V _ Iy Hws. pose proof (valid_fields_inv _ V) as (Vd & _).
  exact (src_to_week_valid_date cd ws Vd Iy Hws).
Qed.

(* the intermediate values of sw_ToWeek_tie, as one statement *)
Theorem to_week_intermediates : forall cd ws,
  valid_fields cd = true -> int64 (fy cd) -> 0 <= ws <= 6 ->
  exists d p w,
    construct64 3 (Z.rem (fy cd) 400) (fm cd) (fd cd) 0 0 0 = OK d /\
    d = mkF (Z.rem (fy cd) 400) (fm cd) (fd cd) 0 0 0 /\
    prev_weekday64 (align64 5 d) ws = OK p /\
    fields_repr d /\ fields_repr p /\ valid_fields d = true /\ valid_fields p = true /\
    fy d - 1 <= fy p <= fy d + 1 /\
    to_week cd ws = OK w /\ 0 <= w <= 53 /\ int32 w.
Proof.
  intros cd ws V Iy Hws. pose proof (valid_fields_inv _ V) as (Vdt & _).
  destruct (to_week_steps _ _ _ ws Vdt Iy Hws) as (p & Hd & Hp & Vd & Hr & Vp & Yp).
  destruct (to_week_range _ _ _ ws Vdt Iy Hws) as (w & Hw & Bw).
  rewrite <- to_week_ymd in Hw.
  exists (mkF (Z.rem (fy cd) 400) (fm cd) (fd cd) 0 0 0), p, w.
  split; [exact Hd|]. split; [reflexivity|]. split; [exact Hp|].
  split; [apply valid_repr; [exact Vd|cbn [fy]; i64]|].
  split; [apply valid_repr; [exact Vp|exact (tiny_int64 _ _ Hr Yp)]|].
  split; [exact Vd|]. split; [exact Vp|]. split; [exact Yp|].
  split; [exact Hw|]. split; [exact Bw|]. unfold int32, min32, max32. lia.
Qed.

(* ------------------------------------------------------------------ *)
(* week_repr of the format loop                                         *)

Theorem week_repr_valid : forall cs, valid_fields cs = true -> int64 (fy cs) -> week_repr cs.
Proof.
  intros cs V Iy wd d p w Hd Hp Hw.
  pose proof (prev_weekday64_wd _ _ _ Hp) as Hwd.
  pose proof (valid_fields_inv _ V) as (Vdt & _).
  destruct (to_week_steps _ _ _ wd Vdt Iy Hwd) as (p' & Hd' & Hp' & Vd & Hr & Vp & Yp).
  destruct (to_week_range _ _ _ wd Vdt Iy Hwd) as (w' & Hw' & Bw).
  rewrite Hd' in Hd. injection Hd as <-.
  change (align64 5 (mkF (Z.rem (fy cs) 400) (fm cs) (fd cs) 0 0 0)) with (mkF (Z.rem (fy cs) 400) 1 1 0 0 0) in Hp.
  rewrite Hp' in Hp. injection Hp as <-.
  rewrite align64_3, Hw' in Hw. injection Hw as <-.
  split; [apply valid_repr; [exact Vd|cbn [fy]; i64]|].
  split; [apply valid_repr; [exact Vp|exact (tiny_int64 _ _ Hr Yp)]|].
  unfold int32, min32, max32. lia.
Qed.

(* sl_format_src_tie without week_repr: the civil second of the lookup is a valid one with an int64 year
   (the first two conjuncts of al_ok, Properties_C08.v) *)
Theorem sl_format_src_tie_valid : forall strftime_o al tm fs unix fmt r fuel,
  valid_fields (al_cs al) = true -> int64 (fy (al_cs al)) ->
  to_tm al = OK tm ->
  format_impl strftime_o fmt al fs unix = OK r ->
  bytes_ok fmt -> ~ In 0 fmt -> ~ In 0 (al_abbr al) -> 0 <= fs < 10 ^ 15 -> blen fmt < 2 ^ 62 ->
  (3 * length fmt + 30 <= fuel)%nat ->
  sl_format (format_tm strftime_o) src_ToWeek fuel fmt fs (al_cs al) (al_off al) (al_abbr al) tm unix = OK r.
Proof.
  intros strftime_o al tm fs unix fmt r fuel V Iy Htm H Hby Hnz Hab Hfs Hsz Hfu.
  exact (sl_format_src_tie strftime_o al tm fs unix fmt r fuel Htm H Hby Hnz Hab Hfs Hsz Hfu
           (week_repr_valid (al_cs al) V Iy)).
Qed.

(* the source-derived ToWeek(civil_day(al.cs), ws) on a valid civil second *)
Theorem src_ToWeek_valid : forall cs ws, valid_fields cs = true -> int64 (fy cs) -> 0 <= ws <= 6 ->
  exists w, to_week (align64 3 cs) ws = OK w /\ src_ToWeek cs ws = OK w /\ 0 <= w <= 53.
Proof.
  intros cs ws V Iy Hws. pose proof (valid_fields_inv _ V) as (Vdt & _).
  destruct (to_week_range _ _ _ ws Vdt Iy Hws) as (w & Hw & Bw). rewrite <- align64_3 in Hw.
  exists w. split; [exact Hw|]. split; [|exact Bw].
  exact (src_ToWeek_ok cs (week_repr_valid cs V Iy) ws w Hw).
Qed.

(* ------------------------------------------------------------------ *)
(* FromWeek: the intermediate values                                    *)

Lemma from_week_steps wn ws year wd :
  int64 year -> 0 <= wn <= 53 -> 0 <= ws <= 6 -> 0 <= wd <= 6 ->
  let r := Z.rem year 400 in
  exists cd0 cdm cdn cd,
    construct64 5 r 1 1 0 0 0 = OK (mkF r 1 1 0 0 0) /\
    prev_weekday64 (mkF r 1 1 0 0 0) ws = OK cd0 /\
    minus64 3 cd0 1 = OK cdm /\
    next_weekday64 cdm wd = OK cdn /\
    mul32 wn 7 = OK (wn * 7) /\
    plus64 3 cdn (wn * 7) = OK cd /\
    -399 <= r <= 399 /\
    (valid_fields cd0 = true /\ r - 1 <= fy cd0 <= r + 1) /\
    (valid_fields cdm = true /\ r - 1 <= fy cdm <= r + 1) /\
    (valid_fields cdn = true /\ r - 1 <= fy cdn <= r + 1) /\
    (valid_fields cd = true /\ r - 1 <= fy cd <= r + 1).
Proof.
  intros Iy Hwn Hws Hwd r.
  assert (Hr : -399 <= Z.rem year 400 <= 399) by lia.
  fold r in Hr. clearbody r.
  set (J := days_from_civil r 1 1).
  assert (Vf1 : valid_fields (mkF r 1 1 0 0 0) = true)
    by (apply valid_fields_intro; cbn [fy fm fd fhh fmm fss]; try lia; apply valid_first; lia).
  (* prev_weekday(y, week_start) *)
  destruct (prev_weekday_spec_lemma (mkF r 1 1 0 0 0) ws Vf1 ltac:(cbn; auto) ltac:(cbn [fy]; i64) Hws)
    as (k & Hk & _ & _ & Hprev).
  cbn [fy fm fd] in Hprev. fold J in Hprev.
  pose proof (day_year_bounds r (J - k) ltac:(fold J; lia)) as Y0.
  pose proof (day_year_bounds r (J - k - 1) ltac:(fold J; lia)) as Y1.
  (* next_weekday(cd - 1, wd) *)
  destruct (next_weekday_spec_lemma (cos ((J - k - 1) * 86400)) wd (valid_cos _) (day_zero _)
              ltac:(i64) Hwd) as (k2 & Hk2 & _ & _ & Hnext).
  rewrite day_dfc in Hnext.
  pose proof (day_year_bounds r (J - k - 1 + k2) ltac:(fold J; lia)) as Y2.
  set (n := J - k - 1 + k2 + wn * 7).
  pose proof (day_year_bounds r n ltac:(fold J; unfold n; lia)) as Y3.
  exists (cos ((J - k) * 86400)), (cos ((J - k - 1) * 86400)), (cos ((J - k - 1 + k2) * 86400)), (cos (n * 86400)).
  split.
  { rewrite construct_refines_lemma; try i64.
    - rewrite norm_spec_valid by assumption. reflexivity.
    - destruct (carry_id r 1 ltac:(lia)) as [-> _]. i64.
    - rewrite norm_spec_valid by assumption. cbn [fy]. i64. }
  split; [apply Hprev; i64|].
  split.
  { rewrite (minus_refines_lemma 3 (cos ((J - k) * 86400)) 1); try i64.
    - cbn [ord_spec]. rewrite day_dfc, of_ord3. reflexivity.
    - apply valid_cos.
    - rewrite <- of_ord3. apply align_of_ord.
    - cbn [ord_spec]. rewrite day_dfc, of_ord3. i64. }
  split; [apply Hnext; i64|].
  split; [unfold mul32; apply chk32_in; unfold int32, min32, max32; lia|].
  split.
  { rewrite (plus_refines_lemma 3 (cos ((J - k - 1 + k2) * 86400)) (wn * 7)); try i64.
    - cbn [ord_spec]. rewrite day_dfc, of_ord3. reflexivity.
    - apply valid_cos.
    - rewrite <- of_ord3. apply align_of_ord.
    - cbn [ord_spec]. rewrite day_dfc, of_ord3. fold n. i64. }
  split; [exact Hr|].
  repeat split; try apply valid_cos; lia.
Qed.

(* the year FromWeek lands in is the given one, the one before (week 0 may begin in December) or the one
   after (weeks 52/53 may end in January) *)
Lemma week_day_year wn ws year wday :
  int64 year -> 0 <= wn <= 53 -> 0 <= ws <= 6 -> 0 <= wday <= 6 ->
  let '(y', m', d') := civil_of_days (week_day_number year wn ws wday) in
  year - 1 <= y' <= year + 1.
Proof.
  intros Iy Hwn Hws Hwd.
  assert (Hy : year = Z.rem year 400 + 400 * Z.quot year 400) by lia.
  assert (Hr : -399 <= Z.rem year 400 <= 399) by lia.
  unfold week_day_number.
  set (r := Z.rem year 400) in *. set (q := Z.quot year 400) in *. clearbody r q.
  set (wd := from_tm_wday wday).
  assert (Hwd' : 0 <= wd <= 6).
  { unfold wd, from_tm_wday. destruct (Z.eqb_spec wday 0); lia. }
  set (J := days_from_civil r 1 1).
  assert (EJ : days_from_civil year 1 1 = J + 146097 * q) by (rewrite Hy, dfc_period; reflexivity).
  rewrite EJ, weekday_period.
  set (n := J - ((weekday_of_days J - ws - 1) mod 7 + 1) + (wd - ws) mod 7 + 7 * wn).
  replace (J + 146097 * q - ((weekday_of_days J - ws - 1) mod 7 + 1) + (wd - ws) mod 7 + 7 * wn)
    with (n + 146097 * q) by (unfold n; lia).
  rewrite cod_period.
  pose proof (day_year_bounds r n ltac:(fold J; unfold n; lia)) as Y.
  pose proof (cos_day_fields n) as CF.
  destruct (civil_of_days n) as [[yn mn] dn]. rewrite CF in Y. cbn [fy] in Y. lia.
Qed.

(* FromWeek fails (returns false / None) exactly when the year slips outside int64:
   the day lies in year max64 + 1 or in year min64 - 1 *)
Theorem fw_expected_none : forall wn ws year tm,
  int64 year -> 0 <= wn <= 53 -> 0 <= ws <= 6 -> 0 <= tm_wday tm <= 6 ->
  let '(y', m', d') := civil_of_days (week_day_number year wn ws (tm_wday tm)) in
  year - 1 <= y' <= year + 1 /\
  (fw_expected wn ws year tm = None <->
     (year = max64 /\ y' = max64 + 1) \/ (year = min64 /\ y' = min64 - 1)) /\
  (int64 y' -> fw_expected wn ws year tm = Some (y', tm_with (tm_with tm 4 (m' - 1)) 3 d')).
Proof.
  intros wn ws year tm Iy Hwn Hws Hwd.
  pose proof (week_day_year wn ws year (tm_wday tm) Iy Hwn Hws Hwd) as Y.
  unfold fw_expected.
  destruct (civil_of_days (week_day_number year wn ws (tm_wday tm))) as [[y' m'] d'].
  split; [exact Y|]. unfold in64. split.
  - destruct ((min64 <=? y') && (y' <=? max64)) eqn:E.
    + split; [discriminate|]. unfold int64, min64, max64 in *. lia.
    + split; [|reflexivity]. intros _. unfold int64, min64, max64 in *. lia.
  - intros I. replace ((min64 <=? y') && (y' <=? max64)) with true by (unfold int64 in I; lia). reflexivity.
Qed.

(* a year that is neither the first nor the last int64: FromWeek always succeeds *)
Corollary fw_expected_some : forall wn ws year tm,
  min64 < year < max64 -> 0 <= wn <= 53 -> 0 <= ws <= 6 -> 0 <= tm_wday tm <= 6 ->
  exists y' t, fw_expected wn ws year tm = Some (y', t) /\ year - 1 <= y' <= year + 1.
Proof.
  intros wn ws year tm Iy Hwn Hws Hwd.
  pose proof (fw_expected_none wn ws year tm ltac:(unfold int64; lia) Hwn Hws Hwd) as H.
  destruct (civil_of_days (week_day_number year wn ws (tm_wday tm))) as [[y' m'] d'].
  destruct H as (Y & _ & S). eexists _, _. split; [apply S; unfold int64; lia|exact Y].
Qed.

(* FromWeek for week_num 0..53, week_start and tm_wday 0..6 and an int64 year: the model and the
   source-derived function agree, on the answer fw_expected characterises (FinishZone.v) *)
Theorem src_from_week_valid : forall week_num ws year tm,
  int64 year -> 0 <= week_num <= 53 -> 0 <= ws <= 6 -> 0 <= tm_wday tm <= 6 ->
  from_week week_num ws year tm = OK (fw_expected week_num ws year tm) /\
  sw_FromWeek s64_fuel week_num ws year (tm_sec tm) (tm_min tm) (tm_hour tm) (tm_mday tm) (tm_mon tm) (tm_year tm)
    (tm_wday tm) (tm_yday tm) (tm_isdst tm) = OK (from_week_result year tm (fw_expected week_num ws year tm)).
Proof.
  intros wn ws year tm Iy Hwn Hws Hwd.
  pose proof (from_week_correct wn ws year tm Iy Hwn Hws Hwd) as FW.
  split; [exact FW|].
  assert (Hwd' : 0 <= from_tm_wday (tm_wday tm) <= 6).
  { unfold from_tm_wday. destruct (Z.eqb_spec (tm_wday tm) 0); lia. }
  destruct (from_week_steps wn ws year _ Iy Hwn Hws Hwd')
    as (cd0 & cdm & cdn & cd & Hy & H0 & Hm & Hn & Hw & Hp & Hr & _ & (Vm & Ym) & _ & (Vc & Yc)).
  apply (sw_FromWeek_tie wn ws year tm _ cd0 cdm cdn (wn * 7) cd _ Hy H0 Hm Hn Hw Hp).
  - cbn [fy]. i64.
  - apply valid_repr; [exact Vm|exact (tiny_int64 _ _ Hr Ym)].
  - apply valid_repr; [exact Vc|exact (tiny_int64 _ _ Hr Yc)].
  - exact Hwd.
  - exact FW.
Qed.

(* the intermediate values of sw_FromWeek_tie, as one statement *)
Theorem from_week_intermediates : forall week_num ws year tm,
  int64 year -> 0 <= week_num <= 53 -> 0 <= ws <= 6 -> 0 <= tm_wday tm <= 6 ->
  exists y cd0 cdm cdn w7 cd,
    construct64 5 (Z.rem year 400) 1 1 0 0 0 = OK y /\
    prev_weekday64 (align64 3 y) ws = OK cd0 /\
    minus64 3 cd0 1 = OK cdm /\
    next_weekday64 cdm (from_tm_wday (tm_wday tm)) = OK cdn /\
    mul32 week_num 7 = OK w7 /\
    plus64 3 cdn w7 = OK cd /\
    y = mkF (Z.rem year 400) 1 1 0 0 0 /\ w7 = week_num * 7 /\
    fields_repr y /\ fields_repr cd0 /\ fields_repr cdm /\ fields_repr cdn /\ fields_repr cd /\
    fy y - 1 <= fy cd <= fy y + 1.
Proof.
  intros wn ws year tm Iy Hwn Hws Hwd.
  assert (Hwd' : 0 <= from_tm_wday (tm_wday tm) <= 6).
  { unfold from_tm_wday. destruct (Z.eqb_spec (tm_wday tm) 0); lia. }
  destruct (from_week_steps wn ws year _ Iy Hwn Hws Hwd')
    as (cd0 & cdm & cdn & cd & Hy & H0 & Hm & Hn & Hw & Hp & Hr & (V0 & Y0) & (Vm & Ym) & (Vn & Yn) & (Vc & Yc)).
  exists (mkF (Z.rem year 400) 1 1 0 0 0), cd0, cdm, cdn, (wn * 7), cd.
  split; [exact Hy|]. split; [exact H0|]. split; [exact Hm|]. split; [exact Hn|]. split; [exact Hw|].
  split; [exact Hp|]. split; [reflexivity|]. split; [reflexivity|].
  split; [apply (repr_year_aligned (mkF (Z.rem year 400) 1 1 0 0 0)); cbn [fy]; i64|].
  split; [apply valid_repr; [exact V0|exact (tiny_int64 _ _ Hr Y0)]|].
  split; [apply valid_repr; [exact Vm|exact (tiny_int64 _ _ Hr Ym)]|].
  split; [apply valid_repr; [exact Vn|exact (tiny_int64 _ _ Hr Yn)]|].
  split; [apply valid_repr; [exact Vc|exact (tiny_int64 _ _ Hr Yc)]|].
  exact Yc.
Qed.

(* ------------------------------------------------------------------ *)
(* Non-vacuity: the hypotheses hold and both sides compute              *)

Definition ex_hyp_to (y m d ws : Z) : bool :=
  valid_fields (mkF y m d 0 0 0) && in64 y && (0 <=? ws) && (ws <=? 6).
Definition ex_to (y m d ws : Z) : res Z * res Z :=
  (to_week (mkF y m d 0 0 0) ws, sw_ToWeek s64_fuel (mkF y m d 0 0 0) ws).

(* week 53: Sunday 2017-12-31 with Sunday first (%U), Monday 2018-12-31 with Monday first (%W);
   week 0: Sunday 2021-01-03 with Monday first, Monday 2018-01-01 with Sunday first *)
Example to_week_ex_53_0 :
  ex_hyp_to 2017 12 31 6 = true /\ ex_to 2017 12 31 6 = (OK 53, OK 53) /\
  ex_hyp_to 2018 12 31 0 = true /\ ex_to 2018 12 31 0 = (OK 53, OK 53) /\
  ex_hyp_to 2021 1 3 0 = true /\ ex_to 2021 1 3 0 = (OK 0, OK 0) /\
  ex_hyp_to 2018 1 1 6 = true /\ ex_to 2018 1 1 6 = (OK 0, OK 0).
Proof. repeat split; vm_compute; reflexivity. Qed.

(* negative years; the first and the last int64 year *)
Example to_week_ex_neg_limits :
  ex_hyp_to (-1) 1 1 6 = true /\ ex_to (-1) 1 1 6 = (OK 0, OK 0) /\
  ex_hyp_to (-1) 12 31 0 = true /\ ex_to (-1) 12 31 0 = (OK 52, OK 52) /\
  ex_hyp_to (-400) 2 29 6 = true /\ ex_to (-400) 2 29 6 = (OK 9, OK 9) /\
  ex_hyp_to max64 12 31 6 = true /\ ex_to max64 12 31 6 = (OK 52, OK 52) /\
  ex_hyp_to max64 12 31 0 = true /\ ex_to max64 12 31 0 = (OK 52, OK 52) /\
  ex_hyp_to min64 1 1 6 = true /\ ex_to min64 1 1 6 = (OK 1, OK 1) /\
  ex_hyp_to min64 1 1 0 = true /\ ex_to min64 1 1 0 = (OK 0, OK 0).
Proof. repeat split; vm_compute; reflexivity. Qed.

(* through civil_day(al.cs), as format() calls it; the time of day is dropped *)
Example src_ToWeek_ex :
  valid_fields (mkF max64 12 31 23 59 59) = true /\ src_ToWeek (mkF max64 12 31 23 59 59) 6 = OK 52 /\
  valid_fields (mkF min64 1 1 0 0 0) = true /\ src_ToWeek (mkF min64 1 1 0 0 0) 0 = OK 0 /\
  valid_fields (mkF 2017 12 31 12 30 30) = true /\ src_ToWeek (mkF 2017 12 31 12 30 30) 6 = OK 53.
Proof. repeat split; vm_compute; reflexivity. Qed.

Definition ex_tm (wd : Z) : tmrec := mkTM 0 0 0 0 0 0 wd 0 0.
Definition ex_hyp_from (wn ws y wd : Z) : bool :=
  in64 y && (0 <=? wn) && (wn <=? 53) && (0 <=? ws) && (ws <=? 6) && (0 <=? wd) && (wd <=? 6).
Definition ex_from (wn ws y wd : Z) :=
  (from_week wn ws y (ex_tm wd), sw_FromWeek s64_fuel wn ws y 0 0 0 0 0 0 wd 0 0).

(* the same four days back from their week numbers (tm_wday: 0 = Sunday, 1 = Monday) *)
Example from_week_ex_53_0 :
  ex_hyp_from 53 6 2017 0 = true /\
  ex_from 53 6 2017 0 = (OK (Some (2017, mkTM 0 0 0 31 11 0 0 0 0)), OK (true, 2017, 0, 0, 0, 31, 11, 0, 0, 0, 0)) /\
  ex_hyp_from 53 0 2018 1 = true /\
  ex_from 53 0 2018 1 = (OK (Some (2018, mkTM 0 0 0 31 11 0 1 0 0)), OK (true, 2018, 0, 0, 0, 31, 11, 0, 1, 0, 0)) /\
  ex_hyp_from 0 0 2021 0 = true /\
  ex_from 0 0 2021 0 = (OK (Some (2021, mkTM 0 0 0 3 0 0 0 0 0)), OK (true, 2021, 0, 0, 0, 3, 0, 0, 0, 0, 0)) /\
  ex_hyp_from 0 6 2018 1 = true /\
  ex_from 0 6 2018 1 = (OK (Some (2018, mkTM 0 0 0 1 0 0 1 0 0)), OK (true, 2018, 0, 0, 0, 1, 0, 0, 1, 0, 0)).
Proof. repeat split; vm_compute; reflexivity. Qed.

(* the year moves: week 0 Sunday of 2021 is 2020-12-27, week 53 Saturday of 2021 is 2022-01-08;
   negative years: week 0 Sunday of -1 is -2-12-27, week 53 Monday of -1 is 0-01-03 *)
Example from_week_ex_shift :
  ex_from 0 6 2021 0 = (OK (Some (2020, mkTM 0 0 0 27 11 0 0 0 0)), OK (true, 2020, 0, 0, 0, 27, 11, 0, 0, 0, 0)) /\
  ex_from 53 6 2021 6 = (OK (Some (2022, mkTM 0 0 0 8 0 0 6 0 0)), OK (true, 2022, 0, 0, 0, 8, 0, 0, 6, 0, 0)) /\
  ex_hyp_from 0 6 (-1) 0 = true /\
  ex_from 0 6 (-1) 0 = (OK (Some (-2, mkTM 0 0 0 27 11 0 0 0 0)), OK (true, -2, 0, 0, 0, 27, 11, 0, 0, 0, 0)) /\
  ex_hyp_from 53 0 (-1) 1 = true /\
  ex_from 53 0 (-1) 1 = (OK (Some (0, mkTM 0 0 0 3 0 0 1 0 0)), OK (true, 0, 0, 0, 0, 3, 0, 0, 1, 0, 0)).
Proof. repeat split; vm_compute; reflexivity. Qed.

(* the int64 limits: FromWeek returns false (None), *year and *tm untouched, when the day lies in year
   max64 + 1 or min64 - 1; and succeeds at the limit when it does not *)
Example from_week_ex_limits :
  ex_hyp_from 53 6 max64 6 = true /\
  ex_from 53 6 max64 6 = (OK None, OK (false, max64, 0, 0, 0, 0, 0, 0, 6, 0, 0)) /\
  fw_expected 53 6 max64 (ex_tm 6) = None /\
  ex_hyp_from 0 6 min64 0 = true /\
  ex_from 0 6 min64 0 = (OK None, OK (false, min64, 0, 0, 0, 0, 0, 0, 0, 0, 0)) /\
  fw_expected 0 6 min64 (ex_tm 0) = None /\
  ex_hyp_from 1 0 min64 1 = true /\
  ex_from 1 0 min64 1 = (OK (Some (min64, mkTM 0 0 0 2 0 0 1 0 0)), OK (true, min64, 0, 0, 0, 2, 0, 0, 1, 0, 0)) /\
  ex_hyp_from 52 6 max64 0 = true /\
  fst (ex_from 52 6 max64 0) = OK (fw_expected 52 6 max64 (ex_tm 0)) /\ fw_expected 52 6 max64 (ex_tm 0) <> None.
Proof. repeat split; try (vm_compute; reflexivity). vm_compute. discriminate. Qed.

Print Assumptions src_to_week_valid.
Print Assumptions to_week_intermediates.
Print Assumptions week_repr_valid.
Print Assumptions sl_format_src_tie_valid.
Print Assumptions src_ToWeek_valid.
Print Assumptions src_from_week_valid.
Print Assumptions from_week_intermediates.
Print Assumptions fw_expected_none.
Print Assumptions fw_expected_some.
