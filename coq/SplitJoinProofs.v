(* SplitJoinProofs.v — proofs for C18 (split_seconds / join_seconds floor toward the past). *)
From CCTZ Require Import Base SplitJoin.
Require Import Lia ZifyBool.
Local Open Scope Z_scope.

(* ---- truncation vs floor ---- *)

(* Z.quot in terms of floor division, as a disjunction carrying the remainder facts. *)
Lemma quot_floor_cases cn den : 0 < den ->
  (Z.quot cn den = cn / den /\ (0 <= cn \/ Z.rem cn den = 0)) \/
  (Z.quot cn den = cn / den + 1 /\ cn < 0 /\ Z.rem cn den <> 0 /\ cn mod den <> 0).
Proof.
  intros Hd.
  pose proof (Z.quot_rem' cn den) as E.
  pose proof (Z.div_mod cn den ltac:(lia)) as E2.
  pose proof (Z.mod_pos_bound cn den Hd) as B2.
  set (s := Z.quot cn den) in *. set (rr := Z.rem cn den) in *.
  destruct (Z_le_gt_dec 0 cn) as [Hc|Hc].
  - left. pose proof (Z.rem_bound_pos cn den Hc Hd) as B. fold rr in B.
    split; [|lia]. apply (Z.div_unique cn den s rr); [lia|lia].
  - pose proof (Z.rem_bound_pos_neg cn den Hd ltac:(lia)) as B. fold rr in B.
    destruct (Z.eq_dec rr 0) as [Hr|Hr].
    + left. split; [|lia]. apply (Z.div_unique cn den s rr); [lia|lia].
    + right.
      assert (Hq : cn / den = s - 1).
      { symmetry. apply (Z.div_unique cn den (s - 1) (rr + den)); [lia|].
        replace (den * (s - 1) + (rr + den)) with (den * s + rr) by ring. exact E. }
      split; [lia|]. split; [lia|]. split; [exact Hr|].
      intro Hm. rewrite Hm, Hq in E2.
      assert (den * s + rr = den * (s - 1) + 0) by congruence.
      assert (rr + den = 0) by (replace (den * (s - 1)) with (den * s - den) in * by ring; lia).
      lia.
Qed.

(* ---- split_seconds ---- *)

Lemma split_floor_lemma : forall num den c, 1 <= num -> 1 <= den ->
  int64 (c * num) -> int64 ((c * num) / den * den) -> int64 ((c * num) / den - 1) ->
  split_seconds num den c = OK (split_spec num den c) /\ 0 <= c * num - ((c * num) / den) * den < den.
Proof.
  intros num den c Hn Hd.
  unfold split_seconds, split_spec, mul64.
  set (cn := c * num). intros Hcn Hqd Hq1.
  rewrite (chk64_in cn Hcn). cbn [bind]. cbv zeta.
  assert (Hd0 : 0 < den) by lia.
  pose proof (Z.div_mod cn den ltac:(lia)) as E.
  pose proof (Z.mod_pos_bound cn den Hd0) as B.
  pose proof (quot_floor_cases cn den Hd0) as Q.
  set (q := cn / den) in *. set (r := cn mod den) in *.
  set (s := Z.quot cn den) in *. set (rr := Z.rem cn den) in *.
  assert (Er : cn - q * den = r) by (replace (q * den) with (den * q) by ring; lia).
  pose proof (Z.quot_rem' cn den) as E3. fold rr in E3. fold s in E3.
  clearbody q r s rr.
  split; [|lia].
  unfold int64, min64, max64 in *.
  destruct Q as [[Hs _Hc]|[Hs [Hc [_ Hr]]]]; rewrite Hs.
  - (* truncation = floor *)
    rewrite (chk64_in (q * den)) by (unfold int64, min64, max64; lia). cbn [bind].
    unfold sub64. rewrite Er.
    assert (Hrb : -9223372036854775808 <= r <= 9223372036854775807).
    { replace (q * den) with (den * q) in * by ring.
      destruct _Hc as [Hc|Hc].
      - assert (0 <= den * q); [|lia].
        destruct (Z_le_gt_dec 0 q) as [H0|H0]; [apply Z.mul_nonneg_nonneg; lia|].
        pose proof (Z.mul_le_mono_nonneg_l q (-1) den ltac:(lia) ltac:(lia)). lia.
      - (* rem = 0: cn = den * s, so mod = 0 *)
        subst s. lia. }
    rewrite (chk64_in r) by (unfold int64, min64, max64; lia). cbn [bind].
    destruct (r <? 0) eqn:Hlt; [lia|]. cbn [bind].
    rewrite Z.quot_div_nonneg by lia. reflexivity.
  - (* cn < 0 with a non-zero remainder: truncation = floor + 1; borrow *)
    assert (Esd : (q + 1) * den = q * den + den) by ring.
    assert (Hq : q <= -1).
    { assert (den * q < 0) by lia.
      destruct (Z_le_gt_dec 0 q) as [H0|H0]; [|lia].
      pose proof (Z.mul_nonneg_nonneg den q ltac:(lia) H0). lia. }
    assert (Hqd2 : q * den <= - den).
    { replace (q * den) with (den * q) by ring.
      pose proof (Z.mul_le_mono_nonneg_l q (-1) den ltac:(lia) Hq). lia. }
    rewrite (chk64_in ((q + 1) * den)) by (unfold int64, min64, max64; lia). cbn [bind].
    unfold sub64, add64.
    replace (cn - (q + 1) * den) with (r - den) by lia.
    rewrite (chk64_in (r - den)) by (unfold int64, min64, max64; lia). cbn [bind].
    destruct (r - den <? 0) eqn:Hlt; [|lia]. cbn [bind].
    replace (q + 1 - 1) with q by ring.
    rewrite (chk64_in q) by (unfold int64, min64, max64; lia). cbn [bind].
    replace (r - den + den) with r by ring.
    rewrite (chk64_in r) by (unfold int64, min64, max64; lia). cbn [bind].
    rewrite Z.quot_div_nonneg by lia. rewrite Er. reflexivity.
Qed.

(* ---- join_seconds ---- *)

Lemma join_floor_lemma : forall bits num sec, 1 < num -> 1 <= bits ->
  join_coarse bits num sec = (if (rep_min bits <=? sec / num) && (sec / num <=? rep_max bits) then Some (sec / num) else None).
Proof.
  intros bits num sec Hn _. unfold join_coarse.
  assert (Hn0 : 0 < num) by lia.
  pose proof (quot_floor_cases sec num Hn0) as Q.
  set (q := sec / num) in *. set (s := Z.quot sec num) in *. set (rr := Z.rem sec num) in *.
  set (lo := rep_min bits). set (hi := rep_max bits).
  assert (Hc : (if (0 <=? sec) || (rr =? 0) then s else s - 1) = q).
  { destruct ((0 <=? sec) || (rr =? 0)) eqn:Hb; lia. }
  rewrite Hc.
  destruct (hi <? q) eqn:H1.
  - replace (q <=? hi) with false by lia. rewrite andb_false_r. reflexivity.
  - replace (q <=? hi) with true by lia. rewrite andb_true_r.
    destruct (q <? lo) eqn:H2.
    + replace (lo <=? q) with false by lia. reflexivity.
    + replace (lo <=? q) with true by lia. reflexivity.
Qed.

Lemma join_seconds_exact_lemma : forall bits sec,
  join_seconds_rep bits sec = (if (rep_min bits <=? sec) && (sec <=? rep_max bits) then Some sec else None).
Proof.
  intros bits sec. unfold join_seconds_rep.
  set (lo := rep_min bits). set (hi := rep_max bits).
  destruct (hi <? sec) eqn:H1.
  - replace (sec <=? hi) with false by lia. rewrite andb_false_r. reflexivity.
  - replace (sec <=? hi) with true by lia. rewrite andb_true_r.
    destruct (sec <? lo) eqn:H2.
    + replace (lo <=? sec) with false by lia. reflexivity.
    + replace (lo <=? sec) with true by lia. reflexivity.
Qed.

(* ---- to_femto ---- *)

Lemma femto_truncates_lemma : forall num den ticks, 1 <= num -> 1 <= den -> 0 <= ticks ->
  int64 (ticks * (num * 10 ^ 15 / Z.gcd (num * 10 ^ 15) den)) ->
  to_femto num den ticks = OK ((ticks * num * 10 ^ 15) / den).
Proof.
  intros num den ticks Hn Hd Ht.
  unfold to_femto, mul64.
  assert (He : 0 < 10 ^ 15) by (apply Z.pow_pos_nonneg; lia).
  set (e15 := 10 ^ 15) in *. clearbody e15.
  replace (ticks * num * e15) with (ticks * (num * e15)) by ring.
  assert (HN : 0 < num * e15) by (apply Z.mul_pos_pos; lia).
  set (N := num * e15) in *. clearbody N.
  pose proof (Z.gcd_nonneg N den) as Hg0.
  assert (Hg : 0 < Z.gcd N den).
  { destruct (Z.eq_dec (Z.gcd N den) 0) as [E|E]; [|lia].
    apply Z.gcd_eq_0_r in E. lia. }
  destruct (Z.gcd_divide_l N den) as [a Ha].
  destruct (Z.gcd_divide_r N den) as [b Hb].
  set (g := Z.gcd N den) in *. clearbody g.
  intros Hi.
  assert (Hag : N / g = a) by (rewrite Ha; apply Z.div_mul; lia).
  assert (Hbg : den / g = b) by (rewrite Hb; apply Z.div_mul; lia).
  rewrite Hag in *. rewrite Hbg.
  rewrite (chk64_in _ Hi). cbn [bind].
  assert (Ha0 : 0 < a).
  { destruct (Z_le_gt_dec a 0) as [H|H]; [|lia].
    pose proof (Z.mul_nonpos_nonneg a g H ltac:(lia)). lia. }
  assert (Hb0 : 0 < b).
  { destruct (Z_le_gt_dec b 0) as [H|H]; [|lia].
    pose proof (Z.mul_nonpos_nonneg b g H ltac:(lia)). lia. }
  rewrite Z.quot_div_nonneg by (try apply Z.mul_nonneg_nonneg; lia).
  f_equal.
  rewrite Ha, Hb.
  replace (ticks * (a * g)) with ((ticks * a) * g) by ring.
  rewrite Z.div_mul_cancel_r by lia. reflexivity.
Qed.

Print Assumptions split_floor_lemma.
Print Assumptions join_floor_lemma.
Print Assumptions join_seconds_exact_lemma.
Print Assumptions femto_truncates_lemma.
