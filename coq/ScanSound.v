(* ScanSound.v — C09, first clause: parse() returns true ONLY IF the whole input
   (apart from leading, trailing and format-directed whitespace) matches the format.

   Part 1 is a DECLARATIVE grammar `Matches format text follow events`, written from the
   documentation of cctz::parse() in include/cctz/time_zone.h (and, for what the header leaves
   open, from the comment above parse() in src/time_zone_format.cc).  It does not mention the
   scanner.  `text` is the part of the input matched, `follow` what comes after it in the input
   (needed to say "%Y consumes as many numeric characters as it can"), `events` the value each
   matched item denotes, in format order.  Where the code accepts MORE than the documentation
   says, the additional sentences are given by separate rules whose names contain `extra`.
   Part 2 proves that whatever the scanner `scan_loop` (ParseImpl.v, the transcription of the
   specifier loop of parse()) accepts is a sentence of the grammar and that the state it returns
   is the one the matched items denote; Part 3 states the theorems (scan_sound, parse_sound);
   Part 4 gives accepted examples with their derivations and rejected near-misses.

   Not covered by the grammar's look-ahead: the optional groups of a UTC offset (the scanner takes
   ":mm"/":ss" whenever two digits in range follow; the grammar allows any of the forms), and the
   greediness of format whitespace.  These make the grammar a superset of what the scanner
   accepts, which is the direction proved here (soundness, not completeness). *)
From CCTZ Require Import Base SrcConstants Cal CivilImpl PosixImpl ZoneLoad ZoneImpl FormatImpl ParseImpl FmtSpec ParseProofs.
From Coq Require Import Lia ZifyBool.
Local Open Scope Z_scope.

(* ====================================================================== *)
(* Part 1.  The grammar                                                    *)
(* ====================================================================== *)

(* ---- characters ---- *)
Definition digit (c : Z) : Prop := 48 <= c <= 57.                  (* '0'..'9' *)
Definition space (c : Z) : Prop := c = 32 \/ 9 <= c <= 13.         (* isspace() in the C locale *)

(* a non-empty run of decimal digits; its value is FmtSpec.digits_val (base-10, leading zeros allowed) *)
Definition digits (ds : list Z) : Prop := ds <> [] /\ Forall digit ds.

(* ---- what FOLLOWS the text of an item in the input (the fields are read greedily) ---- *)
Definition no_digit_next (k : list Z) : Prop := match k with c :: _ => ~ digit c | [] => True end.
Definition no_dot_next (k : list Z) : Prop := match k with c :: _ => c <> 46 | [] => True end.
Definition no_nonspace_next (k : list Z) : Prop := match k with c :: _ => space c | [] => True end.
(* "consumes as many numeric characters as it can": a numeral limited to [w] characters either has
   [w] characters or ends in front of a non-digit (an unlimited one: no_digit_next) *)
Definition greedy (w : nat) (t k : list Z) : Prop := length t = w \/ no_digit_next k.

(* ---- numerals ---- *)
(* an optionally '-'-signed decimal numeral.  No '+' sign, no leading blanks, "-0" is not a numeral *)
Inductive numeral : list Z -> Z -> Prop :=
| num_unsigned ds : digits ds -> numeral ds (digits_val ds)
| num_negative ds : digits ds -> digits_val ds <> 0 -> numeral (45 :: ds) (- digits_val ds).

(* an unsigned numeral of at most [w] digits *)
Definition dec_upto (w : nat) (t : list Z) (v : Z) : Prop :=
  digits t /\ (length t <= w)%nat /\ v = digits_val t.
(* an unsigned numeral of any length *)
Definition dec_any (t : list Z) (v : Z) : Prop := digits t /\ v = digits_val t.
(* exactly two digits *)
Definition two_digit (t : list Z) (v : Z) : Prop :=
  exists a b, t = [a; b] /\ digit a /\ digit b /\ v = 10 * (a - 48) + (b - 48).

(* ---- UTC offsets ---- *)
Definition sign_char (c sg : Z) : Prop := (c = 43 /\ sg = 1) \/ (c = 45 /\ sg = -1).   (* '+' / '-' *)
(* an optional ':' (only in the colon forms) *)
Definition opt_colon (colon : bool) (s : list Z) : Prop := s = [] \/ (colon = true /\ s = [58]).

(* [colon = false]: %z.   [colon = true]: %Ez, %E*z (and %:z, %::z, %:::z).
   Documented (time_zone.h): %z = +hhmm, %Ez = +hh:mm, %E*z = +hh:mm:ss, "%Ez and %E*z also accept
   the same inputs, which (along with %z) includes 'z' and 'Z' as synonyms for +00:00". *)
Inductive offset_text (colon : bool) : list Z -> Z -> Prop :=
| off_zulu c : c = 90 \/ c = 122 -> offset_text colon [c] 0
| off_hm c sg hh h mm m :
    sign_char c sg -> two_digit hh h -> 0 <= h <= 23 -> two_digit mm m -> 0 <= m <= 59 ->
    offset_text colon (c :: hh ++ (if colon then [58] else []) ++ mm) (sg * ((h * 60 + m) * 60))
| off_hms c sg hh h mm m ss s :
    colon = true ->
    sign_char c sg -> two_digit hh h -> 0 <= h <= 23 -> two_digit mm m -> 0 <= m <= 59 ->
    two_digit ss s -> 0 <= s <= 59 ->
    offset_text colon (c :: hh ++ [58] ++ mm ++ [58] ++ ss) (sg * ((h * 60 + m) * 60 + s))
(* EXTRA (the code is more liberal than the documentation): hours alone; seconds also for %z;
   each ':' of the colon forms is optional, independently *)
| off_extra_h c sg hh h :
    sign_char c sg -> two_digit hh h -> 0 <= h <= 23 ->
    offset_text colon (c :: hh) (sg * (h * 3600))
| off_extra_hm c sg hh h s1 mm m :
    sign_char c sg -> two_digit hh h -> 0 <= h <= 23 -> opt_colon colon s1 -> two_digit mm m -> 0 <= m <= 59 ->
    offset_text colon (c :: hh ++ s1 ++ mm) (sg * ((h * 60 + m) * 60))
| off_extra_hms c sg hh h s1 mm m s2 ss s :
    sign_char c sg -> two_digit hh h -> 0 <= h <= 23 -> opt_colon colon s1 -> two_digit mm m -> 0 <= m <= 59 ->
    opt_colon colon s2 -> two_digit ss s -> 0 <= s <= 59 ->
    offset_text colon (c :: hh ++ s1 ++ mm ++ s2 ++ ss) (sg * ((h * 60 + m) * 60 + s)).

(* ---- fractional seconds ---- *)
(* the femtoseconds denoted by the fractional digits "ds" of "0.ds": the first fifteen digits count,
   "fractional digits beyond femtoseconds dropped" *)
Definition frac_femto (ds : list Z) : Z :=
  let f := firstn 15 ds in digits_val f * 10 ^ (15 - Z.of_nat (length f)).

(* ---- what a matched item denotes ---- *)
Inductive event :=
| EvYear (v : Z)            (* %Y, %E4Y *)
| EvMonth (v : Z)           (* %m, 1..12 *)
| EvDay (v : Z)             (* %d, %e *)
| EvHour (v : Z)            (* %H *)
| EvMinute (v : Z)          (* %M *)
| EvSecond (v : Z)          (* %S, %E*S, %E#S *)
| EvSubsec (femto : Z)      (* the fraction of %E*S / %E#S / %E*f / %E#f *)
| EvWeekSun (v : Z)         (* %U *)
| EvWeekMon (v : Z)         (* %W *)
| EvWeekdayISO (v : Z)      (* %u, 1..7, Monday = 1 *)
| EvWeekday (v : Z)         (* %w, 0..6, Sunday = 0 *)
| EvOffset (secs : Z)       (* %z, %Ez, %E*z, %:z, %::z, %:::z: seconds east of UTC *)
| EvEpoch (v : Z)           (* %s *)
| EvLibc (spec text : list Z) (tm' : tmrec).   (* a specifier left to strptime(3): the text it consumed, the tm it left *)

(* In the next three relations the extra argument [k] is what follows the text in the input. *)
(* seconds with an optional fraction: %E*S, %E#S.  A '.' after the seconds commits to a fraction. *)
Inductive ext_seconds : list Z -> list Z -> list event -> Prop :=
| xs_plain t v k : dec_upto 2 t v -> greedy 2 t k -> 0 <= v <= 60 -> no_dot_next k -> ext_seconds t k [EvSecond v]
| xs_frac t v ds k : dec_upto 2 t v -> 0 <= v <= 60 -> digits ds -> no_digit_next k ->
    ext_seconds (t ++ 46 :: ds) k [EvSecond v; EvSubsec (frac_femto ds)].

(* a bare fraction: %E*f, %E#f *)
Inductive ext_frac : list Z -> list Z -> list event -> Prop :=
| xf_digits ds k : digits ds -> no_digit_next k -> ext_frac ds k [EvSubsec (frac_femto ds)]
(* EXTRA: the code also lets %E*f / %E#f match the empty text (nothing is recorded) when no digit follows *)
| xf_extra_empty k : no_digit_next k -> ext_frac [] k [].

(* ---- the specifiers cctz handles itself: Field spec text k events ---- *)
Inductive Field : list Z -> list Z -> list Z -> list event -> Prop :=
| F_pct k : Field [37; 37] [37] k []                                                                        (* %% *)
| F_Y t v k : numeral t v -> int64 v -> no_digit_next k -> Field [37; 89] t k [EvYear v]                     (* %Y *)
| F_m t v k : dec_upto 2 t v -> greedy 2 t k -> 1 <= v <= 12 -> Field [37; 109] t k [EvMonth v]              (* %m *)
| F_d t v k : dec_upto 2 t v -> greedy 2 t k -> 1 <= v <= 31 -> Field [37; 100] t k [EvDay v]                (* %d *)
| F_e t v k : dec_upto 2 t v -> greedy 2 t k -> 1 <= v <= 31 -> Field [37; 101] t k [EvDay v]                (* %e *)
(* %e: the day as format() renders it, blank-padded: a blank and ONE digit 1..9 (%d does not take this form) *)
| F_e_blank c v k : digit c -> v = c - 48 -> 1 <= v <= 9 -> Field [37; 101] [32; c] k [EvDay v]
| F_H t v k : dec_upto 2 t v -> greedy 2 t k -> 0 <= v <= 23 -> Field [37; 72] t k [EvHour v]                (* %H *)
| F_M t v k : dec_upto 2 t v -> greedy 2 t k -> 0 <= v <= 59 -> Field [37; 77] t k [EvMinute v]              (* %M *)
| F_S t v k : dec_upto 2 t v -> greedy 2 t k -> 0 <= v <= 60 -> Field [37; 83] t k [EvSecond v]              (* %S *)
| F_U t v k : dec_any t v -> no_digit_next k -> 0 <= v <= 53 -> Field [37; 85] t k [EvWeekSun v]             (* %U *)
| F_W t v k : dec_any t v -> no_digit_next k -> 0 <= v <= 53 -> Field [37; 87] t k [EvWeekMon v]             (* %W *)
| F_u t v k : dec_any t v -> no_digit_next k -> 1 <= v <= 7 -> Field [37; 117] t k [EvWeekdayISO v]          (* %u *)
| F_w t v k : dec_any t v -> no_digit_next k -> 0 <= v <= 6 -> Field [37; 119] t k [EvWeekday v]             (* %w *)
| F_s t v k : numeral t v -> int64 v -> no_digit_next k -> Field [37; 115] t k [EvEpoch v]                   (* %s *)
| F_z t o k : offset_text false t o -> Field [37; 122] t k [EvOffset o]                                      (* %z *)
| F_Ez t o k : offset_text true t o -> Field [37; 69; 122] t k [EvOffset o]                                  (* %Ez *)
| F_Esz t o k : offset_text true t o -> Field [37; 69; 42; 122] t k [EvOffset o]                             (* %E*z *)
| F_cz t o k : offset_text true t o -> Field [37; 58; 122] t k [EvOffset o]                                  (* %:z *)
| F_ccz t o k : offset_text true t o -> Field [37; 58; 58; 122] t k [EvOffset o]                             (* %::z *)
| F_cccz t o k : offset_text true t o -> Field [37; 58; 58; 58; 122] t k [EvOffset o]                        (* %:::z *)
| F_Z t k : t <> [] -> Forall (fun c => ~ space c) t -> no_nonspace_next k -> Field [37; 90] t k []          (* %Z: parsed, ignored *)
| F_ET c k : c = 84 \/ c = 116 -> Field [37; 69; 84] [c] k []                                                (* %ET: 'T' or 't' *)
| F_E4Y t v k : numeral t v -> length t = 4%nat -> -999 <= v <= 9999 -> Field [37; 69; 52; 89] t k [EvYear v]   (* %E4Y *)
| F_EsS t k evs : ext_seconds t k evs -> Field [37; 69; 42; 83] t k evs                                      (* %E*S *)
| F_EnS n t k evs : digits n -> digits_val n <= 1024 -> ext_seconds t k evs -> Field (37 :: 69 :: n ++ [83]) t k evs   (* %E#S *)
| F_Esf t k evs : ext_frac t k evs -> Field [37; 69; 42; 102] t k evs                                        (* %E*f *)
| F_Enf n t k evs : digits n -> digits_val n <= 1024 -> ext_frac t k evs -> Field (37 :: 69 :: n ++ [102]) t k evs.   (* %E#f *)

(* ---- the specifiers left to strptime(3): LibcSpec spec rest-of-format ---- *)
(* what may follow "%E" to make a cctz extension *)
Inductive ext_E : list Z -> Prop :=
| xE_T r : ext_E (84 :: r)
| xE_z r : ext_E (122 :: r)
| xE_sz r : ext_E (42 :: 122 :: r)
| xE_sS r : ext_E (42 :: 83 :: r)
| xE_sf r : ext_E (42 :: 102 :: r)
| xE_4Y r : ext_E (52 :: 89 :: r)
| xE_nS n r : digits n -> digits_val n <= 1024 -> ext_E (n ++ 83 :: r)
| xE_nf n r : digits n -> digits_val n <= 1024 -> ext_E (n ++ 102 :: r).
(* what may follow "%:" to make an offset specifier *)
Inductive colon_z : list Z -> Prop :=
| cz_1 r : colon_z (122 :: r)
| cz_2 r : colon_z (58 :: 122 :: r)
| cz_3 r : colon_z (58 :: 58 :: 122 :: r).
(* the conversion characters cctz handles itself or treats as a prefix: "YmdeUWuwHMSzZs" and ":%EO" *)
Definition own_chars : list Z := [89; 109; 100; 101; 85; 87; 117; 119; 72; 77; 83; 122; 90; 115; 58; 37; 69; 79].

Inductive LibcSpec : list Z -> list Z -> Prop :=
| LS_plain c r : ~ In c own_chars -> LibcSpec [37; c] r           (* "%c": %a %b %p %I %T %D %j ... *)
| LS_colon r : ~ colon_z r -> LibcSpec [37; 58] r                  (* "%:" not followed by z, :z, ::z *)
| LS_E_end : LibcSpec [37; 69] []                                  (* "%E" at the end of the format *)
| LS_E x r : ~ ext_E (x :: r) -> LibcSpec [37; 69; x] r            (* "%Ex": %Ec %EC %Ex %EX %Ey %EY ... *)
| LS_O_end : LibcSpec [37; 79] []                                  (* "%O" at the end of the format *)
| LS_O x r : LibcSpec [37; 79; x] r.                               (* "%Ox" *)

(* ---- Matches format text follow events: [text], followed in the input by [follow], matches [format] ---- *)
Inductive Matches : list Z -> list Z -> list Z -> list event -> Prop :=
| M_end k : Matches [] [] k []
(* a whitespace byte in the format matches any, possibly empty, run of whitespace *)
| M_space f fmt ws text k evs :
    space f -> Forall space ws -> Matches fmt text k evs -> Matches (f :: fmt) (ws ++ text) k evs
(* any other byte except '%' matches itself *)
| M_literal f fmt text k evs :
    ~ space f -> f <> 37 -> Matches fmt text k evs -> Matches (f :: fmt) (f :: text) k evs
(* a specifier cctz handles itself; what follows its text [t] in the input is [text ++ k] *)
| M_field spec fmt t text k ev evs :
    Field spec t (text ++ k) ev -> Matches fmt text k evs -> Matches (spec ++ fmt) (t ++ text) k (ev ++ evs)
(* any other specifier: whatever strptime consumed *)
| M_libc spec fmt t text k tm' evs :
    LibcSpec spec fmt -> Matches fmt text k evs -> Matches (spec ++ fmt) (t ++ text) k (EvLibc spec t tm' :: evs).

(* ---- the scanner state denoted by a list of events (in format order; later items override) ---- *)
(* specifiers that select the 12-hour (true) or the 24-hour (false) clock *)
Definition twelve_of (spec : list Z) : option bool :=
  match spec with
  | [_; c] =>
      if (c =? 73) || (c =? 108) || (c =? 114) then Some true                       (* %I %l %r *)
      else if (c =? 82) || (c =? 84) || (c =? 99) || (c =? 88) then Some false      (* %R %T %c %X *)
      else None
  | [_; e; x] =>
      if e =? 69 then (if (x =? 99) || (x =? 88) then Some false else None)         (* %Ec %EX *)
      else if e =? 79 then (if x =? 72 then Some false else if x =? 73 then Some true else None)   (* %OH %OI *)
      else None
  | _ => None
  end.

Section Denote.
Variable strptime_o : list Z -> list Z -> tmrec -> option (list Z * tmrec).

(* "%p": whether the consumed text means PM, found by re-parsing "1"+text with "%I%p" *)
Definition is_pm (text : list Z) : bool :=
  match strptime_o (49 :: text) [37; 73; 37; 112] (mkTM 0 0 0 0 0 0 0 0 0) with
  | Some (_, t) => tm_hour t =? 13
  | None => false
  end.

Definition apply_event (s : pstate) (e : event) : pstate :=
  match e with
  | EvYear v => set_year s v
  | EvMonth v => set_week (set_tm s (tm_with (ps_tm s) 4 (v - 1))) (-1) (ps_week_start s)   (* tm_mon = v-1; forgets %U/%W *)
  | EvDay v => set_week (set_tm s (tm_with (ps_tm s) 3 v)) (-1) (ps_week_start s)           (* tm_mday; forgets %U/%W *)
  | EvHour v => set_twelve (set_tm s (tm_with (ps_tm s) 2 v)) false
  | EvMinute v => set_tm s (tm_with (ps_tm s) 1 v)
  | EvSecond v => set_tm s (tm_with (ps_tm s) 0 v)
  | EvSubsec v => set_subsec s v
  | EvWeekSun v => set_week s v 6          (* week_start = weekday::sunday (6) *)
  | EvWeekMon v => set_week s v 0          (* week_start = weekday::monday (0) *)
  | EvWeekdayISO v => set_tm s (tm_with (ps_tm s) 6 (Z.rem v 7))
  | EvWeekday v => set_tm s (tm_with (ps_tm s) 6 v)
  | EvOffset o => set_offset s o
  | EvEpoch v => set_percent_s s v
  | EvLibc spec text tm' =>
      let s0 := match twelve_of spec with Some b => set_twelve s b | None => s end in
      let s1 := set_tm s0 tm' in
      if list_eqb spec [37; 112] then set_afternoon s1 (is_pm text) else s1
  end.

Definition apply_events (evs : list event) (s : pstate) : pstate := fold_left apply_event evs s.
End Denote.

(* ====================================================================== *)
(* Part 2.  The scanner accepts only sentences of the grammar              *)
(* ====================================================================== *)

(* ---- bridging the Prop predicates and the boolean ones ---- *)
Lemma digit_iff c : is_digit c = true <-> digit c.
Proof. unfold is_digit, digit. lia. Qed.
Lemma space_iff c : is_space c = true <-> space c.
Proof. unfold is_space, space. lia. Qed.
Lemma forallb_digit ds : forallb is_digit ds = true <-> Forall digit ds.
Proof.
  induction ds as [|c ds IH]; cbn [forallb]; [split; auto|].
  rewrite andb_true_iff, IH, digit_iff. split.
  - intros [H1 H2]. constructor; auto.
  - intros H. inversion H; subst. auto.
Qed.

Lemma digits_intro ds : forallb is_digit ds = true -> ds <> [] -> digits ds.
Proof. intros H1 H2. split; [auto|]. apply forallb_digit; auto. Qed.

Lemma digits_nonneg ds : digits ds -> 0 <= digits_val ds.
Proof. intros [_ H]. apply dv_nonneg. apply forallb_digit; auto. Qed.

(* ---- ParseInt ---- *)
(* the digit loop stops in front of a non-digit, or because the width is used up *)
Lemma pil_max kmin : forall p width value n value' rest n',
  parse_int_loop kmin p width value n = (value', rest, n', false) ->
  no_digit_next rest \/ (0 < width /\ Z.of_nat n' = Z.of_nat n + width).
Proof.
  induction p as [|c r IH]; intros width value n value' rest n' H.
  - cbn in H. inversion H; subst. left. exact I.
  - rewrite pil_cons in H. destruct (is_digit c) eqn:Ec.
    + destruct (value <? Z.quot kmin 10); [discriminate|].
      destruct (value * 10 <? kmin + (c - 48)); [discriminate|].
      destruct ((0 <? width) && (width - 1 =? 0)) eqn:E3.
      * inversion H; subst. right. lia.
      * apply IH in H. destruct H as [H|[H1 H2]]; [left; auto|]. right.
        destruct (0 <? width) eqn:E4; lia.
    + inversion H; subst. left. cbn. rewrite <- digit_iff. congruence.
Qed.

Lemma parse_int_numeral kmin dp width lo hi v rest :
  kmin < 0 -> parse_int kmin dp width lo hi = Some (v, rest) ->
  exists cs, dp = cs ++ rest /\ numeral cs v /\ lo <= v <= hi /\
             kmin <= v <= - (kmin + 1) /\ (0 < width -> Z.of_nat (length cs) <= width) /\
             (no_digit_next rest \/ (0 < width /\ Z.of_nat (length cs) = width)).
Proof.
  intros Hk H. rewrite parse_int_unf in H.
  assert (Hpos : forall bp, dp = bp -> (match bp with c :: _ => c <> 45 | [] => True end) ->
     (let '(value, rest, n, erange) := parse_int_loop kmin bp width 0 0 in
      if negb (Nat.eqb n 0) && negb erange && (false || negb (value =? kmin)) then
        if negb false || negb (value =? 0) then
          let v := if false then value else - value in
          if (lo <=? v) && (v <=? hi) then Some (v, rest) else None
        else None
      else None) = Some (v, rest) ->
     exists cs, dp = cs ++ rest /\ numeral cs v /\ lo <= v <= hi /\
             kmin <= v <= - (kmin + 1) /\ (0 < width -> Z.of_nat (length cs) <= width) /\
             (no_digit_next rest \/ (0 < width /\ Z.of_nat (length cs) = width))).
  { intros bp <- Hhd H1.
    destruct (parse_int_loop kmin dp width 0 0) as [[[value rest'] n] er] eqn:EL.
    destruct n as [|n]; [discriminate|]. destruct er; [discriminate|].
    cbn [Nat.eqb negb andb orb] in H1.
    destruct (value =? kmin) eqn:E1; [discriminate|]. cbn [negb] in H1.
    destruct ((lo <=? - value) && (- value <=? hi)) eqn:E2; [|discriminate].
    inversion H1; subst. clear H1.
    pose proof (pil_max _ _ _ _ _ _ _ _ EL) as Hmax.
    apply pil_sound in EL; [|lia|lia].
    destruct EL as (ds & -> & Hd & Hn & Hval & Hr & Hw).
    exists ds. split; [reflexivity|]. split.
    - replace (- value) with (digits_val ds) by lia. apply num_unsigned.
      apply digits_intro; auto. intros ->. cbn in Hn. lia.
    - split; [lia|]. split; [lia|]. split; [auto|].
      destruct Hmax as [Hm|Hm]; [left; auto|right; lia]. }
  destruct dp as [|c r].
  - apply (Hpos []); auto.
  - destruct (Z.eqb_spec c 45) as [->|Hn].
    + clear Hpos.
      destruct ((width <=? 0) || negb (width - 1 =? 0)) eqn:Ew; [|discriminate].
      set (w1 := if width <=? 0 then width else width - 1) in *.
      destruct (parse_int_loop kmin r w1 0 0) as [[[value rest'] n] er] eqn:EL.
      destruct n as [|n]; [discriminate|]. destruct er; [discriminate|].
      cbn [Nat.eqb negb andb orb] in H.
      destruct (value =? 0) eqn:E1; [discriminate|]. cbn [negb] in H.
      destruct ((lo <=? value) && (value <=? hi)) eqn:E2; [|discriminate].
      inversion H; subst. clear H.
      pose proof (pil_max _ _ _ _ _ _ _ _ EL) as Hmax.
      apply pil_sound in EL; [|lia|lia].
      destruct EL as (ds & -> & Hd & Hnn & Hval & Hr & Hw).
      exists (45 :: ds). split; [reflexivity|]. split.
      * replace v with (- digits_val ds) by lia. apply num_negative; [|lia].
        apply digits_intro; auto. intros ->. cbn in Hnn. lia.
      * split; [lia|]. split; [lia|]. split.
        -- intros Hw0. cbn [length]. rewrite Nat2Z.inj_succ.
           subst w1. destruct (width <=? 0) eqn:E3; [lia|].
           assert (0 < width - 1) by lia. specialize (Hw H). lia.
        -- destruct Hmax as [Hm|Hm]; [left; auto|right].
           cbn [length]. rewrite Nat2Z.inj_succ. subst w1. destruct (width <=? 0) eqn:E3; lia.
    + apply (Hpos (c :: r)); auto.
Qed.

(* with a non-negative lower bound the numeral is unsigned *)
Lemma parse_int_dec kmin dp width lo hi v rest :
  kmin < 0 -> 0 <= lo -> parse_int kmin dp width lo hi = Some (v, rest) ->
  exists t, dp = t ++ rest /\ digits t /\ v = digits_val t /\ lo <= v <= hi /\
            (0 < width -> Z.of_nat (length t) <= width) /\
            (no_digit_next rest \/ (0 < width /\ Z.of_nat (length t) = width)).
Proof.
  intros Hk Hlo H. apply parse_int_numeral in H; auto.
  destruct H as (cs & -> & Hn & Hr & _ & Hw & Hm). inversion Hn; subst.
  - exists cs. split; [reflexivity|]. split; [assumption|]. split; [reflexivity|].
    split; [assumption|]. split; assumption.
  - pose proof (digits_nonneg _ H). lia.
Qed.

Lemma pi32_upto2 dp lo hi v rest : 0 <= lo -> parse_int32 dp 2 lo hi = Some (v, rest) ->
  exists t, dp = t ++ rest /\ dec_upto 2 t v /\ greedy 2 t rest /\ lo <= v <= hi.
Proof.
  intros Hlo H. apply parse_int_dec in H; [|reflexivity|auto].
  destruct H as (t & -> & Hd & Hv & Hr & Hw & Hm). exists t. unfold dec_upto, greedy.
  split; [reflexivity|]. split; [|split; [|lia]].
  - split; [auto|]. split; [lia|auto].
  - destruct Hm as [Hm|Hm]; [right; auto|left; lia].
Qed.

(* width 1: exactly one digit *)
Lemma pi32_one dp lo hi v rest : 0 <= lo -> parse_int32 dp 1 lo hi = Some (v, rest) ->
  exists c, dp = c :: rest /\ digit c /\ v = c - 48 /\ lo <= v <= hi.
Proof.
  intros Hlo H. apply parse_int_dec in H; [|reflexivity|auto].
  destruct H as (t & -> & [Hne Hd] & Hv & Hr & Hw & _). specialize (Hw ltac:(lia)).
  destruct t as [|c [|c' t]]; [congruence| |cbn [length] in Hw; lia].
  inversion Hd as [|? ? Hc _]; subst. exists c. split; [reflexivity|]. split; [auto|].
  split; [|auto]. unfold digits_val. cbn [fold_left]. lia.
Qed.

Lemma pi32_any dp lo hi v rest : 0 <= lo -> parse_int32 dp 0 lo hi = Some (v, rest) ->
  exists t, dp = t ++ rest /\ dec_any t v /\ no_digit_next rest /\ lo <= v <= hi.
Proof.
  intros Hlo H. apply parse_int_dec in H; [|reflexivity|auto].
  destruct H as (t & -> & Hd & Hv & Hr & Hw & Hm). exists t. unfold dec_any.
  split; [reflexivity|]. split; [split; auto|]. split; [|lia].
  destruct Hm as [Hm|Hm]; [auto|lia].
Qed.

Lemma pi64_numeral dp w lo hi v rest : parse_int64 dp w lo hi = Some (v, rest) ->
  exists t, dp = t ++ rest /\ numeral t v /\ int64 v /\ lo <= v <= hi /\
            (no_digit_next rest \/ (0 < w /\ Z.of_nat (length t) = w)).
Proof.
  intros H. apply parse_int_numeral in H; [|reflexivity].
  destruct H as (t & -> & Hn & Hr & Hk & Hw & Hm). exists t. unfold int64, min64, max64 in *.
  split; [reflexivity|]. split; [auto|]. split; [lia|]. split; [lia|auto].
Qed.

Lemma pi32_two dp lo hi v rest : 0 <= lo -> parse_int32 dp 2 lo hi = Some (v, rest) -> consumed2 dp rest = true ->
  exists t, dp = t ++ rest /\ two_digit t v /\ lo <= v <= hi.
Proof.
  intros Hlo H Hc. apply parse_int_dec in H; [|reflexivity|auto].
  destruct H as (t & -> & [Hne Hd] & Hv & Hr & _). exists t. split; [reflexivity|]. split; [|auto].
  unfold consumed2 in Hc. apply Nat.eqb_eq in Hc. rewrite app_length in Hc.
  destruct t as [|a [|b [|c t]]]; cbn [length] in Hc; try lia.
  inversion Hd as [|? ? Ha Hd']; subst. inversion Hd' as [|? ? Hb _]; subst.
  exists a, b. split; [reflexivity|]. split; [auto|]. split; [auto|].
  unfold digits_val. cbn [fold_left]. lia.
Qed.

(* ---- ParseOffset ---- *)
Definition skip_sep (sep : Z) (ap : list Z) : list Z :=
  match ap with c :: r => if negb (sep =? 0) && (c =? sep) then r else ap | [] => ap end.

Lemma fpo_unf dp sep : fmt_parse_offset dp sep =
  match dp with
  | [] => None
  | first :: d1 =>
      if (first =? 43) || (first =? 45) then
        match parse_int32 d1 2 0 23 with
        | Some (hours, ap) =>
            if consumed2 d1 ap then
              let '(minutes, seconds, dpf) :=
                match parse_int32 (skip_sep sep ap) 2 0 59 with
                | Some (mi, bp) =>
                    if consumed2 (skip_sep sep ap) bp then
                      match parse_int32 (skip_sep sep bp) 2 0 59 with
                      | Some (se, cp) => if consumed2 (skip_sep sep bp) cp then (mi, se, cp) else (mi, 0, bp)
                      | None => (mi, 0, bp)
                      end
                    else (0, 0, ap)
                | None => (0, 0, ap)
                end in
              Some (if first =? 45 then - (((hours * 60 + minutes) * 60) + seconds)
                    else ((hours * 60 + minutes) * 60) + seconds, dpf)
            else None
        | None => None
        end
      else if (first =? 90) || (first =? 122) then Some (0, d1)
      else None
  end.
Proof. reflexivity. Qed.

Lemma skip_sep_spec sep ap : sep = 0 \/ sep = 58 ->
  exists s1, ap = s1 ++ skip_sep sep ap /\ opt_colon (sep =? 58) s1.
Proof.
  intros Hsep. unfold skip_sep, opt_colon. destruct ap as [|c r]; [exists []; auto|].
  destruct (negb (sep =? 0) && (c =? sep)) eqn:E.
  - exists [c]. split; [reflexivity|]. right. destruct Hsep; subst; [discriminate|].
    split; [reflexivity|]. f_equal. lia.
  - exists []. auto.
Qed.

Lemma fpo_sound dp sep o r : sep = 0 \/ sep = 58 -> fmt_parse_offset dp sep = Some (o, r) ->
  exists t, dp = t ++ r /\ offset_text (sep =? 58) t o.
Proof.
  intros Hsep H. rewrite fpo_unf in H. destruct dp as [|first d1]; [discriminate|].
  destruct ((first =? 43) || (first =? 45)) eqn:Es.
  2:{ destruct ((first =? 90) || (first =? 122)) eqn:Ez; [|discriminate]. inversion H; subst.
      exists [first]. split; [reflexivity|]. apply off_zulu. lia. }
  assert (Hsg : exists sg, sign_char first sg /\
            forall x, (if first =? 45 then - x else x) = sg * x).
  { destruct (Z.eqb_spec first 45) as [->|Hn].
    - exists (-1). split; [right; auto|]. intros; lia.
    - exists 1. split; [left; split; lia|]. intros; lia. }
  destruct Hsg as (sg & Hsg & Hval). clear Es.
  destruct (parse_int32 d1 2 0 23) as [[hours ap]|] eqn:Eh; [|discriminate].
  destruct (consumed2 d1 ap) eqn:Ech; [|discriminate].
  apply pi32_two in Eh; [|lia|auto]. destruct Eh as (hh & -> & Hhh & Hh). clear Ech.
  destruct (skip_sep_spec sep ap Hsep) as (s1 & Hap & Hs1).
  remember (skip_sep sep ap) as ap' eqn:Eap'. clear Eap'.
  assert (Honly : exists t, first :: hh ++ ap = t ++ ap /\
                    offset_text (sep =? 58) t (sg * ((hours * 60 + 0) * 60 + 0))).
  { exists (first :: hh). split; [reflexivity|].
    replace (sg * ((hours * 60 + 0) * 60 + 0)) with (sg * (hours * 3600)) by lia.
    eapply off_extra_h; eauto. }
  destruct (parse_int32 ap' 2 0 59) as [[mi bp]|] eqn:Em.
  2:{ inversion H; subst o r. rewrite Hval. exact Honly. }
  destruct (consumed2 ap' bp) eqn:Ecm.
  2:{ inversion H; subst o r. rewrite Hval. exact Honly. }
  clear Honly. apply pi32_two in Em; [|lia|auto]. destruct Em as (mm & -> & Hmm & Hm). clear Ecm.
  destruct (skip_sep_spec sep bp Hsep) as (s2 & Hbp & Hs2).
  remember (skip_sep sep bp) as bp' eqn:Ebp'. clear Ebp'.
  assert (Hhm : exists t, first :: hh ++ ap = t ++ bp /\
                  offset_text (sep =? 58) t (sg * ((hours * 60 + mi) * 60 + 0))).
  { exists (first :: hh ++ s1 ++ mm). split.
    - rewrite Hap. cbn [app]. rewrite <- !app_assoc. reflexivity.
    - replace (sg * ((hours * 60 + mi) * 60 + 0)) with (sg * ((hours * 60 + mi) * 60)) by lia.
      eapply off_extra_hm; eauto. }
  destruct (parse_int32 bp' 2 0 59) as [[se cp]|] eqn:Ese.
  2:{ inversion H; subst o r. rewrite Hval. exact Hhm. }
  destruct (consumed2 bp' cp) eqn:Ecs.
  2:{ inversion H; subst o r. rewrite Hval. exact Hhm. }
  clear Hhm. apply pi32_two in Ese; [|lia|auto]. destruct Ese as (ss & -> & Hss & Hs). clear Ecs.
  inversion H; subst o r. rewrite Hval. exists (first :: hh ++ s1 ++ mm ++ s2 ++ ss). split.
  - rewrite Hap, Hbp. cbn [app]. rewrite <- !app_assoc. reflexivity.
  - eapply off_extra_hms; eauto.
Qed.

(* ---- ParseSubSeconds ---- *)
Lemma subsec_loop_sound : forall dp v exp n v' exp' rest n',
  0 <= exp <= 15 -> subsec_loop dp v exp n = (v', exp', rest, n') ->
  exists ds, dp = ds ++ rest /\ forallb is_digit ds = true /\ n' = (n + length ds)%nat /\
    exp' = exp + Z.of_nat (length (firstn (Z.to_nat (15 - exp)) ds)) /\
    v' = v * 10 ^ Z.of_nat (length (firstn (Z.to_nat (15 - exp)) ds)) + digits_val (firstn (Z.to_nat (15 - exp)) ds).
Proof.
  induction dp as [|c r IH]; intros v exp n v' exp' rest n' He H.
  - cbn [subsec_loop] in H. inversion H; subst. exists []. rewrite firstn_nil. cbn [app forallb length].
    rewrite dv_nil. repeat split; try lia; cbn; lia.
  - cbn [subsec_loop] in H. destruct (is_digit c) eqn:Ec.
    + destruct (exp <? 15) eqn:E15.
      * apply IH in H; [|lia]. destruct H as (ds & -> & Hd & Hn & He' & Hv').
        exists (c :: ds). cbn [app forallb length]. rewrite Ec, Hd.
        replace (Z.to_nat (15 - exp)) with (S (Z.to_nat (15 - (exp + 1)))) by lia.
        cbn [firstn length]. set (f := firstn (Z.to_nat (15 - (exp + 1))) ds) in *.
        rewrite dv_cons, Nat2Z.inj_succ, Z.pow_succ_r by lia.
        split; [reflexivity|]. split; [reflexivity|]. split; [lia|]. split; [lia|].
        rewrite Hv'. ring.
      * apply IH in H; [|lia]. destruct H as (ds & -> & Hd & Hn & He' & Hv').
        exists (c :: ds). cbn [app forallb length]. rewrite Ec, Hd.
        replace (Z.to_nat (15 - exp)) with 0%nat in * by lia. cbn [firstn length] in *.
        split; [reflexivity|]. split; [reflexivity|]. split; [lia|]. split; [lia|]. exact Hv'.
    + inversion H; subst. exists []. rewrite firstn_nil. cbn [app forallb length].
      rewrite dv_nil. repeat split; try lia; cbn; lia.
Qed.

Lemma subsec_loop_max : forall dp v exp n v' exp' rest n',
  subsec_loop dp v exp n = (v', exp', rest, n') -> no_digit_next rest.
Proof.
  induction dp as [|c r IH]; intros v exp n v' exp' rest n' H; cbn [subsec_loop] in H.
  - inversion H; subst. exact I.
  - destruct (is_digit c) eqn:Ec.
    + destruct (exp <? 15); eapply IH; eauto.
    + inversion H; subst. cbn. rewrite <- digit_iff. congruence.
Qed.

Lemma parse_subseconds_sound dp sub rest : parse_subseconds dp = OK (Some (sub, rest)) ->
  exists ds, dp = ds ++ rest /\ digits ds /\ sub = frac_femto ds /\ no_digit_next rest.
Proof.
  intros H. unfold parse_subseconds in H.
  destruct (subsec_loop dp 0 0 0) as [[[v exp] r] n] eqn:E.
  pose proof (subsec_loop_max _ _ _ _ _ _ _ _ E) as Hmax.
  apply subsec_loop_sound in E; [|lia]. destruct E as (ds & -> & Hd & Hn & He & Hv).
  change (Z.to_nat (15 - 0)) with 15%nat in *.
  destruct (Nat.eqb n 0) eqn:En; [discriminate|]. apply Nat.eqb_neq in En.
  assert (Hl : (length (firstn 15 ds) <= 15)%nat) by apply firstn_le_length.
  rewrite pp_kExp10 in H by lia. cbn [bind] in H. apply bind_ok in H. destruct H as (x & Hm & Hx).
  unfold mul64 in Hm. apply chk64_ok in Hm. destruct Hm as [Hxv _].
  assert (Hsub : sub = x) by congruence. assert (Hrest : rest = r) by congruence. subst x sub rest. clear Hx.
  exists ds. split; [reflexivity|]. split; [|split; [|exact Hmax]].
  - apply digits_intro; auto. intros ->. cbn [length] in Hn. lia.
  - unfold frac_femto. cbv zeta. rewrite Hv, He.
    replace (15 - (0 + Z.of_nat (length (firstn 15 ds)))) with (15 - Z.of_nat (length (firstn 15 ds))) by lia.
    set (P := 10 ^ Z.of_nat (length (firstn 15 ds))). ring.
Qed.

(* ---- whitespace, %Z ---- *)
Lemma skip_space_sound l : exists ws, l = ws ++ skip_space l /\ Forall space ws.
Proof.
  induction l as [|c r IH]; [exists []; auto|]. cbn [skip_space]. destruct (is_space c) eqn:E.
  - destruct IH as (ws & Hws & Hf). exists (c :: ws). split; [cbn [app]; congruence|].
    constructor; auto. apply space_iff; auto.
  - exists []. auto.
Qed.

Lemma skip_space_nil l : skip_space l = [] -> Forall space l.
Proof.
  intros H. destruct (skip_space_sound l) as (ws & Hws & Hf). rewrite H, app_nil_r in Hws. subst; auto.
Qed.

Lemma span_nonspace_sound l a r : span_while (fun x => negb (is_space x)) l = (a, r) ->
  l = a ++ r /\ Forall (fun c => ~ space c) a /\ no_nonspace_next r.
Proof.
  revert a r. induction l as [|c l IH]; intros a r H; cbn [span_while] in H.
  - inversion H; subst. repeat split; auto.
  - destruct (negb (is_space c)) eqn:E.
    + destruct (span_while _ l) as [a' r'] eqn:Es. inversion H; subst.
      destruct (IH _ _ eq_refl) as (-> & Hf & Hm). split; [reflexivity|]. split; [|exact Hm]. constructor; auto.
      rewrite <- space_iff. destruct (is_space c); [discriminate|congruence].
    + inversion H; subst. split; [reflexivity|]. split; [constructor|].
      cbn. apply space_iff. destruct (is_space c); [reflexivity|discriminate].
Qed.

(* ---- literal matches of the model, as chains of tests ---- *)
Ltac m_tac x :=
  repeat match goal with |- context [x =? ?k] => destruct (Z.eqb_spec x k) as [->|?]; [reflexivity|] end;
  walk_Z x; try reflexivity; congruence.

Lemma m_E {A} (x : Z) (a b c d e : A) :
  (match x with 84 => a | 122 => b | 42 => c | 52 => d | _ => e end) =
  if x =? 84 then a else if x =? 122 then b else if x =? 42 then c else if x =? 52 then d else e.
Proof. m_tac x. Qed.
Lemma m_star {A} (x : Z) (a b c d : A) :
  (match x with 122 => a | 83 => b | 102 => c | _ => d end) =
  if x =? 122 then a else if x =? 83 then b else if x =? 102 then c else d.
Proof. m_tac x. Qed.
Lemma m_Sf {A} (x : Z) (a b c : A) :
  (match x with 83 => a | 102 => b | _ => c end) = if x =? 83 then a else if x =? 102 then b else c.
Proof. m_tac x. Qed.
Lemma m_89 {A} (x : Z) (a b : A) : (match x with 89 => a | _ => b end) = if x =? 89 then a else b.
Proof. m_tac x. Qed.
Lemma m_37 {A} (x : Z) (a b : A) : (match x with 37 => a | _ => b end) = if x =? 37 then a else b.
Proof. m_tac x. Qed.
Lemma m_122 {A} (x : Z) (a b : A) : (match x with 122 => a | _ => b end) = if x =? 122 then a else b.
Proof. m_tac x. Qed.
Lemma m_z_colon {A} (x : Z) (a b c : A) :
  (match x with 122 => a | 58 => b | _ => c end) = if x =? 122 then a else if x =? 58 then b else c.
Proof. m_tac x. Qed.
Lemma m_cX {A} (x : Z) (a b c : A) :
  (match x with 99 => a | 88 => b | _ => c end) = if x =? 99 then a else if x =? 88 then b else c.
Proof. m_tac x. Qed.
Lemma m_HI {A} (x : Z) (a b c : A) :
  (match x with 72 => a | 73 => b | _ => c end) = if x =? 72 then a else if x =? 73 then b else c.
Proof. m_tac x. Qed.

(* "%:" followed (or not) by z, :z, ::z *)
Lemma colon_m_spec f2 :
  match (match f2 with
         | 122 :: r => Some r
         | 58 :: 122 :: r => Some r
         | 58 :: 58 :: 122 :: r => Some r
         | _ => None
         end) with
  | Some fr => f2 = 122 :: fr \/ f2 = 58 :: 122 :: fr \/ f2 = 58 :: 58 :: 122 :: fr
  | None => ~ colon_z f2
  end.
Proof.
  destruct f2 as [|x1 f3]; [inversion 1|]. rewrite m_z_colon.
  destruct (Z.eqb_spec x1 122) as [->|H1]; [auto|].
  destruct (Z.eqb_spec x1 58) as [->|H2]; [|inversion 1; congruence].
  destruct f3 as [|x2 f4]; [inversion 1|]. rewrite m_z_colon.
  destruct (Z.eqb_spec x2 122) as [->|H3]; [auto|].
  destruct (Z.eqb_spec x2 58) as [->|H4]; [|inversion 1; congruence].
  destruct f4 as [|x3 f5]; [inversion 1|]. rewrite m_122.
  destruct (Z.eqb_spec x3 122) as [->|H5]; [auto|]. inversion 1; congruence.
Qed.

(* the digit count of %E#S / %E#f in the format *)
Lemma pi_fmt_complete n z r : digits n -> digits_val n <= 1024 -> z = 83 \/ z = 102 ->
  parse_int32 (n ++ z :: r) 0 0 1024 = Some (digits_val n, z :: r).
Proof.
  intros [Hne Hd] Hv Hz. pose proof (digits_nonneg n (conj Hne Hd)).
  apply pp_parse_pos; auto; try reflexivity; try (unfold min32; lia).
  - apply forallb_digit; auto.
  - cbn. unfold is_digit. lia.
Qed.

Lemma not_ext_E d f3 :
  d <> 84 -> d <> 122 ->
  (d = 42 -> match f3 with e :: _ => e <> 122 /\ e <> 83 /\ e <> 102 | [] => True end) ->
  (d = 52 -> match f3 with e :: _ => e <> 89 | [] => True end) ->
  (forall n z r, digits n -> digits_val n <= 1024 -> d :: f3 = n ++ z :: r -> z = 83 \/ z = 102 -> False) ->
  ~ ext_E (d :: f3).
Proof.
  intros H1 H2 H3 H4 H5 HE. inversion HE; subst; try congruence.
  - specialize (H3 eq_refl). cbn in H3. lia.
  - specialize (H3 eq_refl). cbn in H3. lia.
  - specialize (H3 eq_refl). cbn in H3. lia.
  - specialize (H4 eq_refl). cbn in H4. lia.
  - eapply H5; eauto.
  - eapply H5; eauto.
Qed.

Lemma firstn_app_len {A} (a b : list A) : firstn (length (a ++ b) - length b) (a ++ b) = a.
Proof.
  rewrite app_length. replace (length a + length b - length b)%nat with (length a + 0)%nat by lia.
  rewrite firstn_app_2. cbn [firstn]. apply app_nil_r.
Qed.

(* ---- Matches: closure properties used below ---- *)
Lemma Matches_skip f text k evs : Matches (skip_space f) text k evs -> Matches f text k evs.
Proof.
  induction f as [|c f IH]; cbn [skip_space]; [auto|].
  destruct (is_space c) eqn:E; [|auto]. intros H.
  apply (M_space c f [] text k evs); auto. apply space_iff; auto.
Qed.

Section ScanSound.
Variable so : list Z -> list Z -> tmrec -> option (list Z * tmrec).
(* strptime returns a pointer into the string it was given *)
Hypothesis so_suffix : forall d f t r t', so d f t = Some (r, t') -> exists c, d = c ++ r.

Definition step_ok (fmt data : list Z) (s : pstate) (out : res (list Z * option (list Z * pstate))) : Prop :=
  forall fmt' data' s', out = OK (fmt', Some (data', s')) ->
    (length fmt' < length fmt)%nat /\
    exists t evl, data = t ++ data' /\ s' = apply_events so evl s /\
      forall text k evs, data' = text ++ k -> Matches fmt' text k evs -> Matches fmt (t ++ text) k (evl ++ evs).

Lemma so_none fmt data s f : step_ok fmt data s (OK (f, None)).
Proof. intros fmt' data' s' H. discriminate. Qed.

Lemma so_field spec fmt f t evl data d s s' :
  Field spec t d evl -> fmt = spec ++ f -> data = t ++ d -> s' = apply_events so evl s -> (0 < length spec)%nat ->
  step_ok fmt data s (OK (f, Some (d, s'))).
Proof.
  intros HF -> -> -> Hl fmt' data' s'' H. inversion H; subst. split; [rewrite app_length; lia|].
  exists t, evl. split; [reflexivity|]. split; [reflexivity|].
  intros text k evs Hk HM. apply M_field; auto. rewrite <- Hk. exact HF.
Qed.

Lemma pes_sound data s d' s' : parse_ext_seconds data s = OK (Some (d', s')) ->
  exists t evl, data = t ++ d' /\ ext_seconds t d' evl /\ s' = apply_events so evl s.
Proof.
  intros H. rewrite pes_unf in H.
  destruct (parse_int32 data 2 _ _) as [[v d1]|] eqn:E; [|discriminate].
  rng_norm. apply pi32_upto2 in E; [|lia]. destruct E as (t & -> & Hd & Hg & Hr).
  assert (Hplain : no_dot_next d1 -> OK (Some (d1, set_tm s (tm_with (ps_tm s) 0 v))) = OK (Some (d', s')) ->
    exists t0 evl, t ++ d1 = t0 ++ d' /\ ext_seconds t0 d' evl /\ s' = apply_events so evl s).
  { intros Hnd Hx. inversion Hx; subst. exists t, [EvSecond v]. split; [reflexivity|]. split; [|reflexivity].
    apply xs_plain; auto. }
  destruct d1 as [|x d2]; [apply Hplain; [exact I|exact H]|].
  destruct (Z.eqb_spec x 46) as [->|Hn]; [|apply Hplain; [exact Hn|exact H]]. clear Hplain.
  apply bind_ok in H. destruct H as (r & Hsub & H).
  destruct r as [[sub d3]|]; [|discriminate]. inversion H; subst. clear H.
  apply parse_subseconds_sound in Hsub. destruct Hsub as (ds & -> & Hds & -> & Hmax).
  exists (t ++ 46 :: ds), [EvSecond v; EvSubsec (frac_femto ds)].
  split; [rewrite <- app_assoc; reflexivity|]. split; [|reflexivity]. apply xs_frac; auto.
Qed.

Lemma pef_sound data s d' s' : parse_ext_frac data s = OK (Some (d', s')) ->
  exists t evl, data = t ++ d' /\ ext_frac t d' evl /\ s' = apply_events so evl s.
Proof.
  intros H. unfold parse_ext_frac in H.
  assert (Hempty : no_digit_next data -> OK (Some (data, s)) = OK (Some (d', s')) ->
    exists t evl, data = t ++ d' /\ ext_frac t d' evl /\ s' = apply_events so evl s).
  { intros Hnd Hx. inversion Hx; subst. exists [], []. split; [reflexivity|]. split; [constructor; auto|reflexivity]. }
  destruct data as [|c d]; [apply Hempty; [exact I|exact H]|].
  destruct (is_digit c) eqn:Ec.
  2:{ apply Hempty; [|exact H]. cbn. rewrite <- digit_iff. congruence. }
  clear Hempty.
  apply bind_ok in H. destruct H as (r & Hsub & H).
  destruct r as [[sub d3]|]; [|discriminate]. inversion H; subst. clear H.
  apply parse_subseconds_sound in Hsub. destruct Hsub as (ds & Hds & Hdg & -> & Hmax).
  exists ds, [EvSubsec (frac_femto ds)]. split; [auto|]. split; [|reflexivity]. apply xf_digits; auto.
Qed.

Lemma so_pes spec fmt f data s :
  fmt = spec ++ f -> (forall t k evl, ext_seconds t k evl -> Field spec t k evl) -> (0 < length spec)%nat ->
  step_ok fmt data s (do r <- parse_ext_seconds data s ;; OK (f, r)).
Proof.
  intros Hf HF Hl fmt' data' s' H. apply bind_ok in H. destruct H as (r & Hr & H).
  inversion H; subst r fmt'. clear H. apply pes_sound in Hr. destruct Hr as (t & evl & Hd & Hx & Hs).
  eapply so_field; eauto.
Qed.

Lemma so_pef spec fmt f data s :
  fmt = spec ++ f -> (forall t k evl, ext_frac t k evl -> Field spec t k evl) -> (0 < length spec)%nat ->
  step_ok fmt data s (do r <- parse_ext_frac data s ;; OK (f, r)).
Proof.
  intros Hf HF Hl fmt' data' s' H. apply bind_ok in H. destruct H as (r & Hr & H).
  inversion H; subst r fmt'. clear H. apply pef_sound in Hr. destruct Hr as (t & evl & Hd & Hx & Hs).
  eapply so_field; eauto.
Qed.

Lemma so_libc spec fr fmt data s s1 :
  fmt = spec ++ fr -> LibcSpec spec fr ->
  s1 = match twelve_of spec with Some b => set_twelve s b | None => s end -> (0 < length spec)%nat ->
  step_ok fmt data s (OK (fr, parse_tm_spec so (firstn (length fmt - length fr) fmt) data s1)).
Proof.
  intros -> HL Hs1 Hl fmt' data' s' H. rewrite firstn_app_len in H.
  assert (Hp : fmt' = fr /\ parse_tm_spec so spec data s1 = Some (data', s')) by (split; congruence).
  clear H. destruct Hp as [-> H]. split; [rewrite app_length; lia|].
  unfold parse_tm_spec in H. destruct (so data spec (ps_tm s1)) as [[rest tm']|] eqn:E; [|discriminate].
  destruct (so_suffix _ _ _ _ _ E) as (c & ->).
  rewrite firstn_app_len in H.
  exists c, [EvLibc spec c tm'].
  assert (Hst : data' = rest /\ s' = apply_events so [EvLibc spec c tm'] s).
  { unfold apply_events, apply_event, is_pm. cbn [fold_left]. rewrite <- Hs1.
    destruct (list_eqb spec [37; 112]); inversion H; subst; auto. }
  destruct Hst as [-> ->]. split; [reflexivity|]. split; [reflexivity|].
  intros text k evs Hk HM. cbn [app]. apply M_libc; auto.
Qed.

(* ---- one iteration of the loop ---- *)
Ltac len_tac := cbn [length app] in *; lia.

(* a field read by ParseInt<int> with a non-negative range *)
Ltac int_field lem spec ctor :=
  match goal with
  | |- step_ok _ _ _ (match ?e with Some _ => _ | None => _ end) =>
      let E := fresh "E" in
      destruct e as [[? ?]|] eqn:E; [|apply so_none];
      rng_norm; apply lem in E; [|lia];
      let t := fresh "t" in let Hd := fresh "Hd" in let Hg := fresh "Hg" in let Hr := fresh "Hr" in
      destruct E as (t & -> & Hd & Hg & Hr);
      eapply (so_field spec _ _ t); [apply ctor; [exact Hd | exact Hg | exact Hr] | reflexivity | reflexivity | reflexivity | len_tac]
  end.
Ltac num_field spec ctor :=
  match goal with
  | |- step_ok _ _ _ (match ?e with Some _ => _ | None => _ end) =>
      let E := fresh "E" in
      destruct e as [[? ?]|] eqn:E; [|apply so_none];
      apply pi64_numeral in E;
      let t := fresh "t" in let Hn := fresh "Hn" in let Hi := fresh "Hi" in let Hm := fresh "Hm" in
      destruct E as (t & -> & Hn & Hi & _ & Hm);
      eapply (so_field spec _ _ t);
        [apply ctor; [exact Hn | exact Hi | destruct Hm as [Hm|Hm]; [exact Hm|lia]] | reflexivity | reflexivity | reflexivity | len_tac]
  end.
Ltac off_field sepv spec ctor :=
  match goal with
  | |- step_ok _ _ _ (match ?e with Some _ => _ | None => _ end) =>
      let E := fresh "E" in
      destruct e as [[? ?]|] eqn:E; [|apply so_none];
      apply fpo_sound in E; [|lia];
      let t := fresh "t" in let Ho := fresh "Ho" in
      destruct E as (t & -> & Ho); change (sepv =? 58) with (Z.eqb sepv 58) in Ho;
      eapply (so_field spec _ _ t); [apply ctor; exact Ho | reflexivity | reflexivity | reflexivity | len_tac]
  end.

Ltac case_eq c k H :=
  destruct (c =? k) eqn:H;
  [apply Z.eqb_eq in H; try match goal with EB := _ |- _ => clear EB end; subst c | apply Z.eqb_neq in H].

Ltac hg_side :=
  first [ lia | let Hq := fresh "Hq" in intros Hq; first [ lia | discriminate Hq | (cbn; repeat split; auto; lia) ] ].

Lemma not_own c : c <> 89 -> c <> 109 -> c <> 100 -> c <> 101 -> c <> 85 -> c <> 87 -> c <> 117 -> c <> 119 ->
  c <> 72 -> c <> 77 -> c <> 83 -> c <> 122 -> c <> 90 -> c <> 115 -> c <> 58 -> c <> 37 -> c <> 69 -> c <> 79 ->
  ~ In c own_chars.
Proof. intros. unfold own_chars. cbn [In]. lia. Qed.

Lemma scan_step_sound fmt data s : fmt <> [] -> step_ok fmt data s (scan_step so fmt data s).
Proof.
  destruct fmt as [|f0 f1]; [congruence|]. intros _. unfold scan_step.
  destruct (is_space f0) eqn:Esp.
  { intros fmt' data' s' H. inversion H; subst. clear H.
    split; [pose proof (skip_space_len f1); len_tac|].
    destruct (skip_space_sound data) as (ws & Hws & Hf). exists ws, [].
    split; [exact Hws|]. split; [reflexivity|]. intros text k evs Hk HM. cbn [app].
    apply M_space; auto; [apply space_iff; auto|]. apply Matches_skip; auto. }
  assert (Hnsp : ~ space f0) by (rewrite <- space_iff; congruence).
  destruct (Z.eqb_spec f0 37) as [->|Hne]; cbn [negb].
  2:{ destruct data as [|c d1]; [apply so_none|].
      destruct (Z.eqb_spec c f0) as [->|Hc]; [|apply so_none].
      intros fmt' data' s' H. inversion H; subst. clear H. split; [len_tac|].
      exists [f0], []. split; [reflexivity|]. split; [reflexivity|].
      intros text k evs Hk HM. cbn [app]. apply M_literal; auto. }
  destruct f1 as [|c f2]; [apply so_none|]. cbv zeta.
  match goal with |- context [if c =? 69 then ?X else _] => set (EB := X) end.
  case_eq c 89 N89. { try clear EB. num_field [37; 89] F_Y. }
  case_eq c 109 N109. { try clear EB. int_field pi32_upto2 [37; 109] F_m. }
  case_eq c 100 N100.
  { replace (100 =? 101) with false by reflexivity. cbn [orb andb]. int_field pi32_upto2 [37; 100] F_d. }
  case_eq c 101 N101.
  { replace (101 =? 101) with true by reflexivity. cbn [orb andb].
    assert (Hold : step_ok (37 :: 101 :: f2) data s
              (match parse_int32 data 2 (rng src_parse_range_d 0) (rng src_parse_range_d 1) with
               | Some (v, d1) => OK (f2, Some (d1, set_week (set_tm s (tm_with (ps_tm s) 3 v)) (-1) (ps_week_start s)))
               | None => OK (f2, None)
               end)).
    { int_field pi32_upto2 [37; 101] F_e. }
    destruct data as [|x d]; [exact Hold|].
    destruct (Z.eqb_spec x 32) as [->|Hx]; [clear Hold|exact Hold]. cbn [tl].
    destruct (parse_int32 d 1 1 9) as [[v d1]|] eqn:E; [|apply so_none].
    apply pi32_one in E; [|lia]. destruct E as (c & -> & Hc & Hv & Hr).
    eapply (so_field [37; 101] _ _ [32; c] [EvDay v]);
      [apply F_e_blank; auto | reflexivity | reflexivity | reflexivity | len_tac]. }
  cbn [orb].
  case_eq c 85 N85. { try clear EB. int_field pi32_any [37; 85] F_U. }
  case_eq c 87 N87. { try clear EB. int_field pi32_any [37; 87] F_W. }
  case_eq c 117 N117. { try clear EB. int_field pi32_any [37; 117] F_u. }
  case_eq c 119 N119. { try clear EB. int_field pi32_any [37; 119] F_w. }
  case_eq c 72 N72. { try clear EB. int_field pi32_upto2 [37; 72] F_H. }
  case_eq c 77 N77. { try clear EB. int_field pi32_upto2 [37; 77] F_M. }
  case_eq c 83 N83. { try clear EB. int_field pi32_upto2 [37; 83] F_S. }
  destruct ((c =? 73) || (c =? 108) || (c =? 114)) eqn:E12.
  { try clear EB. apply (so_libc [37; c] f2); [reflexivity| |unfold twelve_of; rewrite E12; reflexivity|len_tac].
    apply LS_plain. unfold own_chars. cbn [In]. lia. }
  destruct ((c =? 82) || (c =? 84) || (c =? 99) || (c =? 88)) eqn:E24.
  { try clear EB. apply (so_libc [37; c] f2); [reflexivity| |unfold twelve_of; rewrite E12, E24; reflexivity|len_tac].
    apply LS_plain. unfold own_chars. cbn [In]. lia. }
  case_eq c 122 N122. { try clear EB. off_field 0 [37; 122] F_z. }
  case_eq c 90 N90.
  { try clear EB. destruct (span_while _ data) as [zn d1] eqn:Esp'.
    apply span_nonspace_sound in Esp'. destruct Esp' as (-> & Hz & Hzm).
    destruct zn as [|z0 zn]; [apply so_none|].
    eapply (so_field [37; 90] _ _ (z0 :: zn) []); [apply F_Z; [discriminate|exact Hz|exact Hzm] | reflexivity | reflexivity | reflexivity | len_tac]. }
  case_eq c 115 N115. { try clear EB. num_field [37; 115] F_s. }
  case_eq c 58 N58.
  { try clear EB. pose proof (colon_m_spec f2) as Hm.
    match goal with |- step_ok _ _ _ (match ?m with Some _ => _ | None => _ end) => destruct m as [fr|] end.
    - destruct Hm as [->|[->| ->]].
      + off_field 58 [37; 58; 122] F_cz.
      + off_field 58 [37; 58; 58; 122] F_ccz.
      + off_field 58 [37; 58; 58; 58; 122] F_cccz.
    - apply (so_libc [37; 58] f2); [reflexivity|apply LS_colon; auto|reflexivity|len_tac]. }
  case_eq c 37 N37.
  { try clear EB. destruct data as [|x d1]; [apply so_none|]. rewrite m_37.
    destruct (Z.eqb_spec x 37) as [->|Hx]; [|apply so_none].
    eapply (so_field [37; 37] _ _ [37] []); [apply F_pct | reflexivity | reflexivity | reflexivity | len_tac]. }
  case_eq c 69 N69.
  2:{ try clear EB. case_eq c 79 N79.
      - destruct f2 as [|x f3].
        + apply (so_libc [37; 79] []); [reflexivity|apply LS_O_end|reflexivity|len_tac].
        + rewrite m_HI. apply (so_libc [37; 79; x] f3); [reflexivity|apply LS_O| |len_tac].
          unfold twelve_of. change (79 =? 69) with false. change (79 =? 79) with true. cbv iota.
          destruct (x =? 72); [reflexivity|]. destruct (x =? 73); reflexivity.
      - apply (so_libc [37; c] f2); [reflexivity|apply LS_plain; apply not_own; auto| |len_tac].
        unfold twelve_of. rewrite E12, E24. reflexivity. }
  subst EB. destruct f2 as [|d f3].
  { apply (so_libc [37; 69] []); [reflexivity|apply LS_E_end|reflexivity|len_tac]. }
  match goal with |- step_ok _ _ _ (match d with Z0 => ?D | Zpos _ => _ | Zneg _ => _ end) => remember D as DD eqn:HD end.
  assert (HG : d <> 84 -> d <> 122 ->
     (d = 42 -> match f3 with e :: _ => e <> 122 /\ e <> 83 /\ e <> 102 | [] => True end) ->
     (d = 52 -> match f3 with e :: _ => e <> 89 | [] => True end) ->
     step_ok (37 :: 69 :: d :: f3) data s DD).
  { intros G1 G2 G3 G4. subst DD. rewrite m_cX.
    assert (Hdflt : (forall n z r, digits n -> digits_val n <= 1024 -> d :: f3 = n ++ z :: r -> z = 83 \/ z = 102 -> False) ->
      step_ok (37 :: 69 :: d :: f3) data s
        (OK (f3, parse_tm_spec so (firstn (length (37 :: 69 :: d :: f3) - length f3) (37 :: 69 :: d :: f3)) data
                   (if d =? 99 then set_twelve s false else if d =? 88 then set_twelve s false else s)))).
    { intros G5. apply (so_libc [37; 69; d] f3); [reflexivity| | |len_tac].
      - apply LS_E. apply not_ext_E; auto.
      - unfold twelve_of. change (69 =? 69) with true. cbv iota.
        destruct (d =? 99); [reflexivity|]. destruct (d =? 88); reflexivity. }
    destruct (is_digit d) eqn:Ed.
    2:{ apply Hdflt. intros n z r [Hne Hn] _ Heq _. destruct n as [|n0 n]; [congruence|].
        cbn [app] in Heq. inversion Heq; subst n0. inversion Hn as [|? ? Hdg _]; subst.
        apply digit_iff in Hdg. congruence. }
    destruct (parse_int32 (d :: f3) 0 0 1024) as [[v l]|] eqn:E.
    2:{ apply Hdflt. intros n z r Hn Hv Heq Hz. rewrite Heq, pi_fmt_complete in E by auto. discriminate. }
    destruct l as [|z f5].
    { apply Hdflt. intros n z r Hn Hv Heq Hz. rewrite Heq, pi_fmt_complete in E by auto. discriminate. }
    rewrite m_Sf.
    destruct (Z.eqb_spec z 83) as [->|Z83].
    { apply pi32_any in E; [|lia]. destruct E as (n & Hn & [Hdn ->] & _ & Hr).
      apply (so_pes (37 :: 69 :: n ++ [83]) _ f5).
      - rewrite Hn. cbn [app]. rewrite <- app_assoc. reflexivity.
      - intros t k evl Hx. apply F_EnS; auto. lia.
      - len_tac. }
    destruct (Z.eqb_spec z 102) as [->|Z102].
    { apply pi32_any in E; [|lia]. destruct E as (n & Hn & [Hdn ->] & _ & Hr).
      apply (so_pef (37 :: 69 :: n ++ [102]) _ f5).
      - rewrite Hn. cbn [app]. rewrite <- app_assoc. reflexivity.
      - intros t k evl Hx. apply F_Enf; auto. lia.
      - len_tac. }
    apply Hdflt. intros n z' r Hn Hv Heq Hz. rewrite Heq, pi_fmt_complete in E by auto.
    inversion E; subst. lia. }
  clear HD. rewrite m_E.
  case_eq d 84 D84.
  { clear HG DD. destruct data as [|x d1]; [apply so_none|].
    destruct ((x =? 84) || (x =? 116)) eqn:Ex; [|apply so_none].
    eapply (so_field [37; 69; 84] _ _ [x] []); [apply F_ET; lia | reflexivity | reflexivity | reflexivity | len_tac]. }
  case_eq d 122 D122.
  { clear HG DD. off_field 58 [37; 69; 122] F_Ez. }
  case_eq d 42 D42.
  { destruct f3 as [|e f4]; [apply HG; hg_side|]. rewrite m_star.
    case_eq e 122 E122. { clear HG DD. off_field 58 [37; 69; 42; 122] F_Esz. }
    case_eq e 83 E83.
    { clear HG DD. apply (so_pes [37; 69; 42; 83] _ f4); [reflexivity|intros; apply F_EsS; auto|len_tac]. }
    case_eq e 102 E102.
    { clear HG DD. apply (so_pef [37; 69; 42; 102] _ f4); [reflexivity|intros; apply F_Esf; auto|len_tac]. }
    apply HG; hg_side. }
  case_eq d 52 D52.
  { destruct f3 as [|e f4]; [apply HG; hg_side|]. rewrite m_89.
    case_eq e 89 E89; [|apply HG; hg_side].
    clear HG DD.
    match goal with
    | |- step_ok _ _ _ (match ?e with Some _ => _ | None => _ end) =>
        destruct e as [[v d1]|] eqn:E; [|apply so_none]
    end.
    rng_norm. apply pi64_numeral in E. destruct E as (t & -> & Hn & Hi & Hr & _).
    destruct (Nat.eqb (length (t ++ d1)) (length d1 + 4)) eqn:El; [|apply so_none].
    apply Nat.eqb_eq in El. rewrite app_length in El.
    eapply (so_field [37; 69; 52; 89] _ _ t [EvYear v]); [apply F_E4Y; [exact Hn | lia | lia] | reflexivity | reflexivity | reflexivity | len_tac]. }
  apply HG; hg_side.
Qed.

(* ---- the loop ---- *)
Lemma apply_events_app a b s : apply_events so (a ++ b) s = apply_events so b (apply_events so a s).
Proof. unfold apply_events. apply fold_left_app. Qed.

Lemma scan_loop_sound : forall fuel fmt data s rest s',
  scan_loop so fuel fmt data s = OK (Some (rest, s')) ->
  exists text evs, data = text ++ rest /\ Matches fmt text rest evs /\ s' = apply_events so evs s.
Proof.
  induction fuel as [|f IH]; intros fmt data s rest s' H; [discriminate|].
  destruct fmt as [|f0 f1].
  - cbn [scan_loop] in H. inversion H; subst. exists [], []. split; [reflexivity|]. split; [constructor|reflexivity].
  - cbn [scan_loop] in H. apply bind_ok in H. destruct H as ([fmt' r] & Hs & H).
    destruct r as [[d1 s1]|]; [|discriminate].
    destruct (scan_step_sound (f0 :: f1) data s ltac:(discriminate) _ _ _ Hs) as (_ & t & evl & -> & -> & HM).
    apply IH in H. destruct H as (text & evs & Hd1 & HM' & ->).
    exists (t ++ text), (evl ++ evs). split; [rewrite Hd1, app_assoc; reflexivity|]. split; [auto|].
    rewrite apply_events_app. reflexivity.
Qed.

End ScanSound.

(* ---- frac_femto is the floor of 0.ds * 10^15 ---- *)
Lemma dv_upper ds : Forall digit ds -> 0 <= digits_val ds < 10 ^ Z.of_nat (length ds).
Proof.
  induction ds as [|c ds IH]; intros H.
  - rewrite dv_nil. cbn. lia.
  - inversion H as [|? ? Hc Hd]; subst. specialize (IH Hd). rewrite dv_cons. cbn [length].
    rewrite Nat2Z.inj_succ, Z.pow_succ_r by lia. unfold digit in Hc.
    set (P := 10 ^ Z.of_nat (length ds)) in *. nia.
Qed.

Lemma frac_femto_floor ds : Forall digit ds ->
  frac_femto ds = digits_val ds * 10 ^ 15 / 10 ^ Z.of_nat (length ds).
Proof.
  intros Hd. unfold frac_femto. cbv zeta.
  destruct (Nat.le_gt_cases (length ds) 15) as [Hle|Hgt].
  - rewrite firstn_all2 by auto.
    assert (HP : 0 < 10 ^ Z.of_nat (length ds)) by (apply Z.pow_pos_nonneg; lia).
    replace (10 ^ 15) with (10 ^ (15 - Z.of_nat (length ds)) * 10 ^ Z.of_nat (length ds))
      by (rewrite <- Z.pow_add_r by lia; f_equal; lia).
    rewrite Z.mul_assoc, Z.div_mul by lia. reflexivity.
  - rewrite <- (firstn_skipn 15 ds) at 3 4. set (a := firstn 15 ds). set (b := skipn 15 ds).
    assert (Ha : length a = 15%nat) by (unfold a; rewrite firstn_length; lia).
    assert (Hb : Forall digit b).
    { unfold b. rewrite <- (firstn_skipn 15 ds) in Hd. apply Forall_app in Hd. tauto. }
    pose proof (dv_upper b Hb) as Hub.
    rewrite dv_app, app_length, Ha, Nat2Z.inj_add, Z.pow_add_r by lia.
    change (Z.of_nat 15) with 15. change (15 - 15) with 0. rewrite Z.pow_0_r, Z.mul_1_r.
    set (Q := 10 ^ Z.of_nat (length b)) in *. assert (0 < Q) by lia.
    rewrite (Z.mul_comm (10 ^ 15) Q), Z.div_mul_cancel_r by lia.
    rewrite Z.div_add_l by lia. rewrite Z.div_small by lia. lia.
Qed.

(* ---- reading a field off the event list: the last item of its kind wins ---- *)
Lemma apply_event_year_other so s e : (forall v, e <> EvYear v) -> ps_year (apply_event so s e) = ps_year s.
Proof.
  destruct e; intros H; try reflexivity.
  - exfalso. eapply H. reflexivity.
  - cbn [apply_event]. destruct (twelve_of spec) as [[|]|]; destruct (list_eqb spec [37; 112]); reflexivity.
Qed.
Lemma apply_event_offset_other so s e : (forall v, e <> EvOffset v) -> ps_offset (apply_event so s e) = ps_offset s.
Proof.
  destruct e; intros H; try reflexivity.
  - exfalso. eapply H. reflexivity.
  - cbn [apply_event]. destruct (twelve_of spec) as [[|]|]; destruct (list_eqb spec [37; 112]); reflexivity.
Qed.

Lemma apply_events_last_year so pre v post s :
  (forall w, ~ In (EvYear w) post) -> ps_year (apply_events so (pre ++ EvYear v :: post) s) = v.
Proof.
  intros Hno. unfold apply_events. rewrite fold_left_app. cbn [fold_left].
  set (s1 := apply_event so (fold_left (apply_event so) pre s) (EvYear v)).
  assert (H1 : ps_year s1 = v) by reflexivity. clearbody s1. revert s1 H1.
  induction post as [|e post IH]; intros s1 H1; [exact H1|]. cbn [fold_left]. apply IH.
  - intros w Hw. apply (Hno w). right; auto.
  - rewrite apply_event_year_other; auto. intros w ->. apply (Hno w). left; auto.
Qed.
Lemma apply_events_last_offset so pre v post s :
  (forall w, ~ In (EvOffset w) post) -> ps_offset (apply_events so (pre ++ EvOffset v :: post) s) = v.
Proof.
  intros Hno. unfold apply_events. rewrite fold_left_app. cbn [fold_left].
  set (s1 := apply_event so (fold_left (apply_event so) pre s) (EvOffset v)).
  assert (H1 : ps_offset s1 = v) by reflexivity. clearbody s1. revert s1 H1.
  induction post as [|e post IH]; intros s1 H1; [exact H1|]. cbn [fold_left]. apply IH.
  - intros w Hw. apply (Hno w). right; auto.
  - rewrite apply_event_offset_other; auto. intros w ->. apply (Hno w). left; auto.
Qed.

(* ====================================================================== *)
(* Part 3.  The theorems                                                   *)
(* ====================================================================== *)

(* the one assumption on strptime(3): a successful call returns a pointer INTO the string it was
   given (so that what it consumed is a prefix of the remaining input) *)
Definition returns_suffix (strptime_o : list Z -> list Z -> tmrec -> option (list Z * tmrec)) : Prop :=
  forall d f t r t', strptime_o d f t = Some (r, t') -> exists c, d = c ++ r.

(* The scanner accepts only sentences of the grammar, for EVERY format and EVERY input, and the state
   it returns is the one denoted by the items matched (in format order, from the defaults ps0). *)
Theorem scan_sound : forall strptime_o fmt data rest s,
  returns_suffix strptime_o ->
  scan_loop strptime_o (S (length fmt)) fmt data ps0 = OK (Some (rest, s)) ->
  exists consumed evs,
    data = consumed ++ rest /\ Matches fmt consumed rest evs /\ s = apply_events strptime_o evs ps0.
Proof. intros so fmt data rest s Hso H. eapply scan_loop_sound; eauto. Qed.

(* the same without any assumption, for the oracle that never succeeds (formats that use only the
   specifiers cctz handles itself never consult it): as in scan_range *)
Corollary scan_sound_no_strptime : forall strptime_o fmt data rest s,
  no_strptime' strptime_o ->
  scan_loop strptime_o (S (length fmt)) fmt data ps0 = OK (Some (rest, s)) ->
  exists consumed evs,
    data = consumed ++ rest /\ Matches fmt consumed rest evs /\ s = apply_events strptime_o evs ps0.
Proof.
  intros so fmt data rest s Hno H. eapply scan_sound; eauto.
  intros d f t r t' Hs. rewrite Hno in Hs. discriminate.
Qed.

Lemma parse_finish_trailing tz utc data s x :
  parse_finish tz utc (Some (data, s)) = OK (Some x) -> skip_space data = [].
Proof. unfold parse_finish. destruct (skip_space data); [reflexivity|discriminate]. Qed.

(* parse() as a whole: when it returns true, the ENTIRE input (what c_str() shows of it) is
   whitespace ++ text ++ whitespace with [text] a sentence of the grammar for the format, and the
   instant returned is what parse()'s post-processing makes of the fields the text denotes
   (FinishProofs.v / FinishZone.v say what that is). *)
Theorem parse_sound : forall strptime_o tz utc fmt input t fs,
  returns_suffix strptime_o ->
  parse_impl strptime_o tz utc fmt input = OK (Some (t, fs)) ->
  exists lead text trail evs,
    c_str input = lead ++ text ++ trail /\ Forall space lead /\ Forall space trail /\
    Matches (c_str fmt) text trail evs /\
    parse_finish tz utc (Some (trail, apply_events strptime_o evs ps0)) = OK (Some (t, fs)).
Proof.
  intros so tz utc fmt input t fs Hso H. unfold parse_impl in H.
  apply bind_ok in H. destruct H as (r & Hscan & Hfin).
  destruct r as [[rest s]|]; [|discriminate].
  apply scan_loop_sound in Hscan; auto. destruct Hscan as (text & evs & Hd & HM & ->).
  destruct (skip_space_sound (c_str input)) as (lead & Hlead & Hsp).
  exists lead, text, rest, evs. split; [rewrite Hlead at 1; rewrite Hd; reflexivity|].
  split; [auto|]. split; [|auto].
  apply skip_space_nil. eapply parse_finish_trailing; eauto.
Qed.

Print Assumptions scan_sound.
Print Assumptions scan_sound_no_strptime.
Print Assumptions parse_sound.

(* ====================================================================== *)
(* Part 4.  Examples: the theorems are not vacuous                         *)
(* ====================================================================== *)
Ltac inv_list :=
  repeat match goal with
  | H : _ ++ _ = _ :: _ |- _ => progress cbn [app] in H
  | H : _ :: _ = [] |- _ => discriminate H
  | H : [] = _ :: _ |- _ => discriminate H
  | H : ?a :: ?x = ?b :: ?y |- _ =>
      first [ discriminate H | inversion H; subst; clear H ]
  end.

Lemma Field_pct spec t k ev : Field spec t k ev -> exists r, spec = 37 :: r.
Proof. intros H. inversion H; subst; eexists; reflexivity. Qed.
Lemma LibcSpec_pct spec r : LibcSpec spec r -> exists r', spec = 37 :: r'.
Proof. intros H. inversion H; subst; eexists; reflexivity. Qed.

Lemma Matches_nil_inv text k evs : Matches [] text k evs -> text = [] /\ evs = [].
Proof.
  intros H. inversion H; subst; auto.
  - match goal with HF : Field _ _ _ _ |- _ => apply Field_pct in HF; destruct HF as [r ->] end. discriminate.
  - match goal with HF : LibcSpec _ _ |- _ => apply LibcSpec_pct in HF; destruct HF as [r ->] end. discriminate.
Qed.

Lemma Matches_literal_inv f fmt text k evs : ~ space f -> f <> 37 ->
  Matches (f :: fmt) text k evs -> exists text', text = f :: text' /\ Matches fmt text' k evs.
Proof.
  intros Hs Hp H. inversion H; subst.
  - contradiction.
  - eauto.
  - match goal with HF : Field _ _ _ _ |- _ => apply Field_pct in HF; destruct HF as [r ->] end.
    cbn [app] in *. congruence.
  - match goal with HF : LibcSpec _ _ |- _ => apply LibcSpec_pct in HF; destruct HF as [r ->] end.
    cbn [app] in *. congruence.
Qed.

Module Examples.
Import Coq.Strings.String Coq.Strings.Ascii.
Definition b (s : string) : list Z := map (fun c => Z.of_N (N_of_ascii c)) (list_ascii_of_string s).
(* the oracle that never succeeds; it returns a suffix, vacuously *)
Definition nos : list Z -> list Z -> tmrec -> option (list Z * tmrec) := fun _ _ _ => None.
Lemma nos_suffix : returns_suffix nos.
Proof. intros d f t r t' H. discriminate. Qed.
(* an oracle that consumes "Oct" for "%b" (enough to exercise M_libc) *)
Definition so_b : list Z -> list Z -> tmrec -> option (list Z * tmrec) :=
  fun d f t => if list_eqb f (b "%b") && list_eqb (firstn 3 d) (b "Oct")
               then Some (skipn 3 d, tm_with t 4 9) else None.
Lemma so_b_suffix : returns_suffix so_b.
Proof.
  intros d f t r t' H. unfold so_b in H. destruct (_ && _); [|discriminate].
  inversion H; subst. exists (firstn 3 d). symmetry. apply firstn_skipn.
Qed.

(* boolean checks for the side conditions of the derivations below *)
Lemma digits_b ds : negb (Nat.eqb (List.length ds) 0) && forallb is_digit ds = true -> digits ds.
Proof.
  intros H. apply andb_true_iff in H. destruct H as [H1 H2]. apply digits_intro; auto.
  intros ->. discriminate.
Qed.
Lemma spaces_b ws : forallb is_space ws = true -> Forall space ws.
Proof.
  induction ws as [|c ws IH]; cbn [forallb]; [constructor|]. intros H. apply andb_true_iff in H.
  destruct H. constructor; auto. apply space_iff; auto.
Qed.
Lemma two_b t v :
  match t with [x; y] => is_digit x && is_digit y && (v =? 10 * (x - 48) + (y - 48)) | _ => false end = true ->
  two_digit t v.
Proof.
  destruct t as [|x [|y [|z t]]]; try discriminate. intros H.
  apply andb_true_iff in H. destruct H as [H H3]. apply andb_true_iff in H. destruct H as [H1 H2].
  exists x, y. split; [reflexivity|]. split; [apply digit_iff; auto|]. split; [apply digit_iff; auto|]. lia.
Qed.
Lemma ndn_b k : match k with c :: _ => negb (is_digit c) | [] => true end = true -> no_digit_next k.
Proof. destruct k as [|c k]; cbn; [auto|]. rewrite <- digit_iff. destruct (is_digit c); [discriminate|congruence]. Qed.
Ltac dig := apply digits_b; vm_compute; reflexivity.
Ltac two := apply two_b; vm_compute; reflexivity.
Ltac upto := split; [dig|]; split; [vm_compute; lia | vm_compute; reflexivity].
Ltac spc := apply spaces_b; vm_compute; reflexivity.
Ltac ndn := apply ndn_b; vm_compute; reflexivity.
Ltac grd := first [ left; vm_compute; reflexivity | right; ndn ].

(* --- accepted: "%Y-%m-%d" with "2015-10-09" --- *)
Example ex1_scan : exists s,
  scan_loop nos (S (List.length (b "%Y-%m-%d"))) (b "%Y-%m-%d") (b "2015-10-09") ps0 = OK (Some ([], s)) /\
  ps_year s = 2015 /\ tm_mon (ps_tm s) = 9 /\ tm_mday (ps_tm s) = 9.
Proof. eexists. split; [vm_compute; reflexivity|]. repeat split. Qed.

Example ex1_match : Matches (b "%Y-%m-%d") (b "2015-10-09") [] [EvYear 2015; EvMonth 10; EvDay 9].
Proof.
  apply (M_field (b "%Y") (b "-%m-%d") (b "2015") (b "-10-09") [] [EvYear 2015] [EvMonth 10; EvDay 9]).
  { apply F_Y; [apply (num_unsigned (b "2015")); dig | unfold int64, min64, max64; lia | ndn]. }
  apply (M_literal 45); [unfold space; lia | lia |].
  apply (M_field (b "%m") (b "-%d") (b "10") (b "-09") [] [EvMonth 10] [EvDay 9]).
  { apply F_m; [upto | grd | lia]. }
  apply (M_literal 45); [unfold space; lia | lia |].
  apply (M_field (b "%d") [] (b "09") [] [] [EvDay 9] []).
  { apply F_d; [upto | grd | lia]. }
  apply M_end.
Qed.

(* --- accepted: fraction, format-directed whitespace, a colon offset --- *)
Example ex2_scan : exists s,
  scan_loop nos (S (List.length (b "%H:%M:%E*S %Ez"))) (b "%H:%M:%E*S %Ez") (b "03:04:05.25   -08:00") ps0 = OK (Some ([], s)) /\
  tm_hour (ps_tm s) = 3 /\ tm_min (ps_tm s) = 4 /\ tm_sec (ps_tm s) = 5 /\
  ps_subsec s = 250000000000000 /\ ps_offset s = -28800 /\ ps_saw_offset s = true.
Proof. eexists. split; [vm_compute; reflexivity|]. repeat split. Qed.

Example ex2_match :
  Matches (b "%H:%M:%E*S %Ez") (b "03:04:05.25   -08:00") []
          [EvHour 3; EvMinute 4; EvSecond 5; EvSubsec 250000000000000; EvOffset (-28800)].
Proof.
  apply (M_field (b "%H") (b ":%M:%E*S %Ez") (b "03") (b ":04:05.25   -08:00") [] [EvHour 3]
                 [EvMinute 4; EvSecond 5; EvSubsec 250000000000000; EvOffset (-28800)]).
  { apply F_H; [upto | grd | lia]. }
  apply (M_literal 58); [unfold space; lia | lia |].
  apply (M_field (b "%M") (b ":%E*S %Ez") (b "04") (b ":05.25   -08:00") [] [EvMinute 4]
                 [EvSecond 5; EvSubsec 250000000000000; EvOffset (-28800)]).
  { apply F_M; [upto | grd | lia]. }
  apply (M_literal 58); [unfold space; lia | lia |].
  apply (M_field (b "%E*S") (b " %Ez") (b "05.25") (b "   -08:00") [] [EvSecond 5; EvSubsec 250000000000000]
                 [EvOffset (-28800)]).
  { apply F_EsS. apply (xs_frac (b "05") 5 (b "25")); [upto | lia | dig | ndn]. }
  apply (M_space 32 (b "%Ez") (b "   ") (b "-08:00")); [unfold space; lia | spc |].
  apply (M_field (b "%Ez") [] (b "-08:00") [] [] [EvOffset (-28800)] []).
  { apply F_Ez. apply (off_hm true 45 (-1) (b "08") 8 (b "00") 0); [right; auto | two | lia | two | lia]. }
  apply M_end.
Qed.

(* --- accepted through strptime: "%b %d" with an oracle that knows "Oct" --- *)
Example ex3_scan : exists s,
  scan_loop so_b (S (List.length (b "%b %d"))) (b "%b %d") (b "Oct 9") ps0 = OK (Some ([], s)) /\
  tm_mon (ps_tm s) = 9 /\ tm_mday (ps_tm s) = 9.
Proof. eexists. split; [vm_compute; reflexivity|]. repeat split. Qed.

Example ex3_match :
  Matches (b "%b %d") (b "Oct 9") [] [EvLibc (b "%b") (b "Oct") (tm_with tm0 4 9); EvDay 9].
Proof.
  apply (M_libc (b "%b") (b " %d") (b "Oct") (b " 9") [] (tm_with tm0 4 9) [EvDay 9]).
  { apply LS_plain. vm_compute. lia. }
  apply (M_space 32 (b "%d") [32] (b "9")); [unfold space; lia | spc |].
  apply (M_field (b "%d") [] (b "9") [] [] [EvDay 9] []).
  { apply F_d; [upto | grd | lia]. }
  apply M_end.
Qed.

(* --- %e also reads the day the way format() renders it: blank-padded --- *)
Definition day_of (f d : string) : option (list Z * Z * Z) :=
  match scan_loop nos (S (List.length (b f))) (b f) (b d) ps0 with
  | OK (Some (r, s)) => Some (r, tm_mday (ps_tm s), tm_hour (ps_tm s))
  | _ => None
  end.
Example ex5_blank_day : day_of "%Y-%m-%e" "2024-03- 9" = Some ([], 9, 0).      Proof. vm_compute. reflexivity. Qed.
Example ex5_two_digit_day : day_of "%Y-%m-%e" "2024-03-19" = Some ([], 19, 0). Proof. vm_compute. reflexivity. Qed.
Example ex5_blank_then_hour : day_of "%e%H" " 901" = Some ([], 9, 1).          Proof. vm_compute. reflexivity. Qed.
Example ex5_rej_blank_zero : day_of "%Y-%m-%e" "2024-03- 0" = None.            Proof. vm_compute. reflexivity. Qed.
Example ex5_rej_two_blanks : day_of "%Y-%m-%e" "2024-03-  9" = None.           Proof. vm_compute. reflexivity. Qed.
Example ex5_rej_blank_two_digits : day_of "%e" " 19" = Some (b "9", 1, 0).     Proof. vm_compute. reflexivity. Qed.
Example ex5_d_unchanged : day_of "%Y-%m-%d" "2024-03- 9" = None.               Proof. vm_compute. reflexivity. Qed.
(* NOTE: parse() itself strips the leading whitespace of the INPUT (and format whitespace strips every blank), so a
   blank-padded %e at the very start of the input, or right after format whitespace, never sees its blank: *)
Example ex5_leading_blank_eaten : forall tz utc, parse_impl nos tz utc (b "%e%H") (b " 901") = OK None.
Proof. intros. vm_compute. reflexivity. Qed.

Example ex5_match : Matches (b "%m-%e") (b "03- 9") [] [EvMonth 3; EvDay 9].
Proof.
  apply (M_field (b "%m") (b "-%e") (b "03") (b "- 9") [] [EvMonth 3] [EvDay 9]).
  { apply F_m; [upto | grd | lia]. }
  apply (M_literal 45); [unfold space; lia | lia |].
  apply (M_field (b "%e") [] (b " 9") [] [] [EvDay 9] []).
  { apply (F_e_blank 57 9); [unfold digit; lia | reflexivity | lia]. }
  apply M_end.
Qed.

(* --- the whole of parse(): accepted, with the decomposition of the input --- *)
(* (the result does not depend on the zones: "%s" short-circuits the conversion) *)
Example ex4_parse : forall tz utc,
  parse_impl nos tz utc (b "at %s!") (b "  at -42!  ") = OK (Some (-42, 0)).
Proof. intros. vm_compute. reflexivity. Qed.

(* --- fractional digits beyond femtoseconds are dropped --- *)
Example ex_frac_1 : frac_femto (b "1") = 10 ^ 14.                                   Proof. reflexivity. Qed.
Example ex_frac_19 : frac_femto (b "1234567890123456789") = 123456789012345.        Proof. reflexivity. Qed.

(* --- rejected near-misses --- *)
Definition rejected (f d : string) : Prop :=
  scan_loop nos (S (List.length (b f))) (b f) (b d) ps0 = OK None.
Example rej_month_13 : rejected "%Y-%m-%d" "2015-13-09".       Proof. vm_compute. reflexivity. Qed.
Example rej_literal : rejected "%Y-%m-%d" "2015/10/09".        Proof. vm_compute. reflexivity. Qed.
Example rej_plus_year : rejected "%Y" "+5".                    Proof. vm_compute. reflexivity. Qed.
Example rej_minus_zero : rejected "%Y" "-0".                   Proof. vm_compute. reflexivity. Qed.
Example rej_blank_year : rejected "%Y" " 5".                   Proof. vm_compute. reflexivity. Qed.
Example rej_int64 : rejected "%Y" "9223372036854775808".       Proof. vm_compute. reflexivity. Qed.
Example rej_e4y_short : rejected "%E4Y" "-99".                 Proof. vm_compute. reflexivity. Qed.
Example rej_sec_61 : rejected "%S" "61".                       Proof. vm_compute. reflexivity. Qed.
Example rej_off_1digit : rejected "%Ez" "+1:00".               Proof. vm_compute. reflexivity. Qed.
Example rej_off_hour_24 : rejected "%Ez" "+24:00".             Proof. vm_compute. reflexivity. Qed.
Example rej_dot_nodigit : rejected "%E*S" "05.".               Proof. vm_compute. reflexivity. Qed.
Example rej_no_space : rejected "%Y%m" "2015 3".               Proof. vm_compute. reflexivity. Qed.
Example rej_greedy_year : rejected "%Y5" "20155".              Proof. vm_compute. reflexivity. Qed.
Example rej_pct : rejected "%%" "x".                           Proof. vm_compute. reflexivity. Qed.
(* trailing garbage: the scanner stops in front of it and parse() refuses, whatever the zones *)
Example rej_trailing_scan :
  exists s, scan_loop nos (S (List.length (b "%Y-%m"))) (b "%Y-%m") (b "2015-10x") ps0 = OK (Some (b "x", s)).
Proof. eexists. vm_compute. reflexivity. Qed.
Example rej_trailing_parse : forall tz utc, parse_impl nos tz utc (b "%Y-%m") (b "2015-10x") = OK None.
Proof. intros. vm_compute. reflexivity. Qed.

(* --- the GRAMMAR itself rejects near-misses (it is not so permissive as to make scan_sound empty) --- *)
Example gram_rej_month_13 : forall evs, ~ Matches (b "%m") (b "13") [] evs.
Proof.
  change (b "%m") with [37; 109]. change (b "13") with [49; 51].
  intros evs H. inversion H; subst.
  - unfold space in *. lia.
  - match goal with HF : Field _ _ _ _ |- _ => inversion HF; subst end; inv_list.
    match goal with HM : Matches [] _ _ _ |- _ => apply Matches_nil_inv in HM; destruct HM; subst end.
    rewrite app_nil_r in *; subst.
    match goal with HD : dec_upto _ _ _ |- _ => destruct HD as (_ & _ & ->) end.
    match goal with HR : _ <= digits_val _ <= _ |- _ => vm_compute in HR; intuition congruence end.
  - match goal with HL : LibcSpec _ _ |- _ => inversion HL; subst; inv_list end.
    match goal with HN : ~ In _ own_chars |- _ => apply HN; unfold own_chars; cbn [In]; lia end.
Qed.

Example gram_rej_plus_year : forall evs, ~ Matches (b "%Y") (b "+5") [] evs.
Proof.
  change (b "%Y") with [37; 89]. change (b "+5") with [43; 53].
  intros evs H. inversion H; subst.
  - unfold space in *. lia.
  - match goal with HF : Field _ _ _ _ |- _ => inversion HF; subst end; inv_list.
    match goal with HM : Matches [] _ _ _ |- _ => apply Matches_nil_inv in HM; destruct HM; subst end.
    rewrite app_nil_r in *; subst.
    match goal with HN : numeral _ _ |- _ => inversion HN; subst end.
    match goal with HD : digits _ |- _ => destruct HD as [_ HD]; inversion HD; subst end.
    unfold digit in *. lia.
  - match goal with HL : LibcSpec _ _ |- _ => inversion HL; subst; inv_list end.
    match goal with HN : ~ In _ own_chars |- _ => apply HN; unfold own_chars; cbn [In]; lia end.
Qed.

(* greediness: "%Y" may not stop in the middle of a run of digits *)
Example gram_rej_greedy_year : forall evs, ~ Matches (b "%Y5") (b "20155") [] evs.
Proof.
  change (b "%Y5") with [37; 89; 53]. change (b "20155") with [50; 48; 49; 53; 53].
  intros evs H. inversion H; subst.
  - unfold space in *. lia.
  - match goal with HF : Field _ _ _ _ |- _ => inversion HF; subst end; inv_list.
    match goal with HM : Matches [53] _ _ _ |- _ =>
      apply Matches_literal_inv in HM; [|unfold space; lia|lia]; destruct HM as (text' & -> & HM);
      apply Matches_nil_inv in HM; destruct HM; subst end.
    match goal with HN : no_digit_next _ |- _ => cbn in HN; unfold digit in HN; lia end.
  - match goal with HL : LibcSpec _ _ |- _ => inversion HL; subst; inv_list end.
    match goal with HN : ~ In _ own_chars |- _ => apply HN; unfold own_chars; cbn [In]; lia end.
Qed.
End Examples.
